// Package hx holds helpers shared by the replay drivers: JSON I/O and stand-alone store contexts.
package hx

import (
	"bufio"
	"encoding/json"
	"fmt"
	"os"
	"time"

	tmdb "github.com/cometbft/cometbft-db"
	"github.com/cometbft/cometbft/libs/log"
	tmproto "github.com/cometbft/cometbft/proto/tendermint/types"
	"github.com/cosmos/cosmos-sdk/codec"
	codectypes "github.com/cosmos/cosmos-sdk/codec/types"
	"github.com/cosmos/cosmos-sdk/store"
	storetypes "github.com/cosmos/cosmos-sdk/store/types"
	sdk "github.com/cosmos/cosmos-sdk/types"
)

// Clamp is the largest integer logged (TLC integers are 32 bit).
const Clamp = 999999

func C(v uint64) uint64 {
	if v > Clamp {
		return Clamp
	}
	return v
}

func Die(format string, a ...interface{}) {
	fmt.Fprintf(os.Stderr, format+"\n", a...)
	os.Exit(3)
}

func ReadJSON(path string, v interface{}) {
	raw, err := os.ReadFile(path)
	if err != nil {
		Die("read %s: %v", path, err)
	}
	if err := json.Unmarshal(raw, v); err != nil {
		Die("parse %s: %v", path, err)
	}
}

type Out struct {
	f *os.File
	w *bufio.Writer
	e *json.Encoder
	N int
}

func NewOut(path string) *Out {
	f, err := os.Create(path)
	if err != nil {
		Die("create %s: %v", path, err)
	}
	w := bufio.NewWriterSize(f, 1<<20)
	return &Out{f: f, w: w, e: json.NewEncoder(w)}
}

func (o *Out) Emit(v interface{}) {
	if err := o.e.Encode(v); err != nil {
		Die("encode: %v", err)
	}
	o.N++
}

func (o *Out) Close() {
	o.w.Flush()
	o.f.Close()
}

// StoreCtx returns a fresh in-memory multistore with one IAVL store mounted, and a context at
// height 1 / unix time 1.
func StoreCtx(keys ...string) (sdk.Context, map[string]*storetypes.KVStoreKey, codec.BinaryCodec) {
	db := tmdb.NewMemDB()
	ms := store.NewCommitMultiStore(db)
	cdc := codec.NewProtoCodec(codectypes.NewInterfaceRegistry())
	m := map[string]*storetypes.KVStoreKey{}
	for _, k := range keys {
		key := sdk.NewKVStoreKey(k)
		ms.MountStoreWithDB(key, storetypes.StoreTypeIAVL, db)
		m[k] = key
	}
	if err := ms.LoadLatestVersion(); err != nil {
		Die("load store: %v", err)
	}
	ctx := sdk.NewContext(ms, tmproto.Header{}, false, log.NewNopLogger()).
		WithBlockHeight(1).WithBlockTime(time.Unix(1, 0).UTC())
	return ctx, m, cdc
}
