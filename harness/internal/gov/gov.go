// Package gov: helpers shared by the "gov" family drivers (C19 unresponsive, C24 reputation):
// a small chain with one spec, one consumer and a few staked providers, and signed relay payments.
package gov

import (
	"fmt"
	"testing"

	"cosmossdk.io/math"
	"github.com/lavanet/lava/v5/testutil/common"
	"github.com/lavanet/lava/v5/utils/sigs"
	pairingtypes "github.com/lavanet/lava/v5/x/pairing/types"
	planstypes "github.com/lavanet/lava/v5/x/plans/types"
	spectypes "github.com/lavanet/lava/v5/x/spec/types"

	"verif/harness/internal/chainx"
)

type World struct {
	C        *chainx.Chain
	TS       *common.Tester
	Spec     spectypes.Spec
	Consumer sigs.Account
	Provs    map[string]sigs.Account // name -> account
	Names    map[string]string       // address -> name
	session  uint64
}

// NewWorld: validator, spec "mock", plan "free" with maxToPair providers to pair, optional extra plans,
// one consumer subscribed to "free". Providers are added with Stake().
func NewWorld(t *testing.T, seed int64, maxToPair uint64, extraPlans map[string]uint64) *World {
	c := chainx.New(t, seed)
	ts := c.TS
	val, _ := c.AddAccount(common.VALIDATOR, 0, 1000000000)
	ts.TxCreateValidator(val, math.NewIntFromUint64(100000))
	plan := common.CreateMockPlan()
	plan.PlanPolicy.MaxProvidersToPair = maxToPair
	ts.AddPlan("free", plan)
	for name, mp := range extraPlans {
		p := common.CreateMockPlan()
		p.Index = name
		p.PlanPolicy.MaxProvidersToPair = mp
		ts.AddPlan(name, p)
	}
	ts.AddSpec("mock", common.CreateMockSpec())
	w := &World{C: c, TS: ts, Spec: ts.Spec("mock"), Provs: map[string]sigs.Account{}, Names: map[string]string{}}
	consumer, addr := c.AddAccount(common.CONSUMER, 0, 1000000000)
	if _, err := ts.TxSubscriptionBuy(addr, addr, plan.Index, 1, false, false); err != nil {
		t.Fatalf("subscription: %v", err)
	}
	w.Consumer = consumer
	return w
}

func (w *World) Stake(name string, idx int, amount int64) error {
	acc, addr := w.C.AddAccount(common.PROVIDER, idx, 1000000000)
	if err := w.TS.StakeProvider(acc.GetVaultAddr(), addr, w.Spec, amount); err != nil {
		return err
	}
	w.Provs[name] = acc
	w.Names[addr] = name
	return nil
}

func (w *World) Addr(name string) string { return w.Provs[name].Addr.String() }

func (w *World) Name(addr string) string {
	if n, ok := w.Names[addr]; ok {
		return n
	}
	return addr
}

// Relay builds a signed relay session of provider `prov` for the epoch starting at block `epoch`.
func (w *World) Relay(prov string, epoch uint64, cu uint64, mod func(*pairingtypes.RelaySession)) (*pairingtypes.RelaySession, error) {
	w.session++
	rs := &pairingtypes.RelaySession{
		Provider:    w.Addr(prov),
		ContentHash: []byte(w.Spec.ApiCollections[0].Apis[0].Name),
		SessionId:   w.session,
		SpecId:      w.Spec.Name,
		CuSum:       cu,
		Epoch:       int64(epoch),
		RelayNum:    0,
		LavaChainId: w.TS.Ctx.ChainID(),
	}
	if mod != nil {
		mod(rs)
	}
	sig, err := sigs.Sign(w.Consumer.SK, *rs)
	if err != nil {
		return nil, err
	}
	rs.Sig = sig
	return rs, nil
}

// Pay submits the relay as an atomic transaction. ok = accepted and not soft-rejected.
func (w *World) Pay(prov string, rs *pairingtypes.RelaySession) (ok bool, res chainx.TxResult, rejected bool) {
	res = w.C.Tx(func() error {
		r, err := w.TS.TxPairingRelayPayment(w.Addr(prov), rs)
		if err != nil {
			return err
		}
		if r.RejectedRelays {
			rejected = true
		}
		return nil
	})
	return res.OK && !rejected, res, rejected
}

// MinProvidersOverPlans mirrors how the driver configured the plans (used for logging only).
func MinProvidersOverPlans(plans []planstypes.Plan) uint64 {
	m := uint64(1<<63 - 1)
	for _, p := range plans {
		if p.PlanPolicy.MaxProvidersToPair < m {
			m = p.PlanPolicy.MaxProvidersToPair
		}
	}
	return m
}

var _ = fmt.Sprintf
