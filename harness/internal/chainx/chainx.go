// Package chainx wraps testutil/common.Tester for the chain-side replay drivers (DESIGN.md 2.5):
// deterministic construction from a seed, production-like atomic transactions (cached context +
// bank snapshot/restore), block advancing under recover(), supply / balance / store-hash probes.
//
// The mock bank keeper is a process-global map: one Chain at a time per process.
package chainx

import (
	"crypto/sha256"
	"encoding/hex"
	"fmt"
	"sort"
	"testing"
	"time"

	"github.com/cosmos/cosmos-sdk/store/rootmulti"
	sdk "github.com/cosmos/cosmos-sdk/types"
	"github.com/lavanet/lava/v5/testutil/common"
	testkeeper "github.com/lavanet/lava/v5/testutil/keeper"
	"github.com/lavanet/lava/v5/utils/sigs"
)

type Chain struct {
	T       *testing.T
	TS      *common.Tester
	tracked map[string]sdk.AccAddress
	Panics  []string // recovered begin/end-block panics (C37 oracle)
}

// ModuleAccounts are tracked for snapshot/restore and balance logging.
var ModuleAccounts = []string{
	"subscription", "dualstaking", "rewards", "pairing", "conflict", "epochstorage", "projects", "plans", "spec",
	"bonded_tokens_pool", "not_bonded_tokens_pool", "distribution", "fee_collector", "gov",
	"validators_rewards_distribution_pool", "validators_rewards_allocation_pool",
	"providers_rewards_distribution_pool", "providers_rewards_allocation_pool",
	"validators_block_rewards", "iprpc_pool", "validators_rewards_leftover_pool",
}

// New builds a Tester whose accounts, header hashes and block times depend only on seed.
func New(t *testing.T, seed int64) *Chain {
	testkeeper.SetFixedTime()
	ts := common.NewTesterRaw(t)
	testkeeper.Randomizer = sigs.NewZeroReader(seed)
	c := &Chain{T: t, TS: ts, tracked: map[string]sdk.AccAddress{}}
	for _, m := range ModuleAccounts {
		c.Track(testkeeper.GetModuleAddress(m))
	}
	// as common.NewTester does: first AdvanceEpoch fixes the first timestamp
	ts.AdvanceEpoch()
	return c
}

func (c *Chain) Track(addr sdk.AccAddress) { c.tracked[addr.String()] = addr }

func (c *Chain) TrackAccount(a sigs.Account) {
	c.Track(a.Addr)
	if a.Vault != nil {
		c.Track(a.Vault.Addr)
	}
}

// AddAccount creates a funded account through the Tester and tracks it.
func (c *Chain) AddAccount(kind string, idx int, balance int64) (sigs.Account, string) {
	a, s := c.TS.AddAccount(kind, idx, balance)
	c.TrackAccount(a)
	return a, s
}

func (c *Chain) Denom() string { return c.TS.TokenDenom() }

func (c *Chain) Balance(addr sdk.AccAddress) int64 { return c.TS.GetBalance(addr) }

func (c *Chain) ModuleBalance(name string) int64 {
	return c.TS.GetBalance(testkeeper.GetModuleAddress(name))
}

// Supply of the bond denom as the (mock) bank reports it: the sum of all balances.
func (c *Chain) Supply() sdk.Int {
	return c.TS.Keepers.BankKeeper.GetSupply(c.TS.Ctx, c.Denom()).Amount
}

type bankSnap map[string]sdk.Coins

func (c *Chain) snapBank() bankSnap {
	s := bankSnap{}
	for k, a := range c.tracked {
		coins := c.TS.Keepers.BankKeeper.GetAllBalances(c.TS.Ctx, a)
		cp := make(sdk.Coins, len(coins))
		copy(cp, coins)
		s[k] = cp
	}
	return s
}

func (c *Chain) restoreBank(s bankSnap) {
	for k, coins := range s {
		_ = c.TS.Keepers.BankKeeper.SetBalance(c.TS.Ctx, c.tracked[k], coins)
	}
}

// TxResult classifies a transaction outcome.
type TxResult struct {
	OK     bool   `json:"ok"`
	Err    string `json:"err,omitempty"`
	Panic  bool   `json:"panic"`
	PanicS string `json:"panics,omitempty"`
}

// Tx runs f the way baseapp runs a transaction: on a cached context whose writes are committed
// only if f returns nil; bank balances (outside the store in the mock) are restored on failure.
// A panic inside f is treated like baseapp does (tx fails, state reverted) and reported.
func (c *Chain) Tx(f func() error) (res TxResult) {
	ts := c.TS
	origCtx, origGo := ts.Ctx, ts.GoCtx
	cctx, write := origCtx.CacheContext()
	snap := c.snapBank()
	supplyBefore := c.Supply()
	ts.Ctx = cctx
	ts.GoCtx = sdk.WrapSDKContext(cctx)
	var err error
	func() {
		defer func() {
			if x := recover(); x != nil {
				res.Panic = true
				res.PanicS = fmt.Sprint(x)
			}
		}()
		err = f()
	}()
	ts.Ctx, ts.GoCtx = origCtx, origGo
	if err == nil && !res.Panic {
		write()
		res.OK = true
		return res
	}
	if err != nil {
		res.Err = err.Error()
	}
	c.restoreBank(snap)
	if !c.Supply().Equal(supplyBefore) {
		panic(fmt.Sprintf("chainx: failed tx changed an untracked balance (supply %s -> %s): %s",
			supplyBefore, c.Supply(), res.Err))
	}
	return res
}

// NextBlock runs end-block of the current block and begin-block of the next one under recover().
// dt <= 0 means the default block time.
func (c *Chain) NextBlock(dt time.Duration) (panicked bool, msg string) {
	defer func() {
		if x := recover(); x != nil {
			panicked = true
			msg = fmt.Sprint(x)
			c.Panics = append(c.Panics, msg)
		}
	}()
	if dt > 0 {
		c.TS.AdvanceBlock(dt)
	} else {
		c.TS.AdvanceBlock()
	}
	return false, ""
}

// NextEpoch advances to the next epoch start under recover().
func (c *Chain) NextEpoch() (panicked bool, msg string) {
	defer func() {
		if x := recover(); x != nil {
			panicked = true
			msg = fmt.Sprint(x)
			c.Panics = append(c.Panics, msg)
		}
	}()
	c.TS.AdvanceEpoch()
	return false, ""
}

// StoreHashes returns sha256 over the sorted key/value pairs of every mounted KV store.
func (c *Chain) StoreHashes() map[string]string {
	res := map[string]string{}
	rs, ok := c.TS.Ctx.MultiStore().(*rootmulti.Store)
	if !ok {
		// cached context: go through the parent is not possible; hash what the ctx exposes
		return res
	}
	names := []string{}
	byName := rs.StoreKeysByName()
	for n := range byName {
		names = append(names, n)
	}
	sort.Strings(names)
	for _, n := range names {
		h := sha256.New()
		func() {
			defer func() { _ = recover() }()
			it := c.TS.Ctx.KVStore(byName[n]).Iterator(nil, nil)
			defer it.Close()
			for ; it.Valid(); it.Next() {
				h.Write(it.Key())
				h.Write([]byte{0})
				h.Write(it.Value())
				h.Write([]byte{1})
			}
		}()
		res[n] = hex.EncodeToString(h.Sum(nil))[:16]
	}
	return res
}

// Clamp maps an int64 into TLC's integer range, keeping order against small bounds.
func Clamp(v int64) int64 {
	const lim = 2000000000
	if v > lim {
		return lim
	}
	if v < -lim {
		return -lim
	}
	return v
}

func ClampInt(v sdk.Int) int64 {
	if !v.IsInt64() {
		if v.IsNegative() {
			return -2000000000
		}
		return 2000000000
	}
	return Clamp(v.Int64())
}

func ClampU(v uint64) int64 {
	if v > 2000000000 {
		return 2000000000
	}
	return int64(v)
}
