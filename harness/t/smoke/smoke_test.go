package smoke

import (
	"errors"
	"testing"

	"verif/harness/internal/chainx"
)

// Smoke test of the shared chain wrapper (not a property check).
func TestDrive(t *testing.T) {
	c := chainx.New(t, 7)
	_, a := c.AddAccount("sub", 1, 20000)
	s0 := c.Supply()
	r := c.Tx(func() error { return errors.New("boom") })
	if r.OK || !c.Supply().Equal(s0) {
		t.Fatal("atomic tx wrapper broken")
	}
	if p, _ := c.NextBlock(0); p {
		t.Fatal("panic")
	}
	h := c.StoreHashes()
	if len(h) < 5 {
		t.Fatalf("store hashes: %v", h)
	}
	t.Log(a, len(h), c.TS.BlockHeight(), c.TS.BlockTime())
}
