// Package rewards: replay driver for specs/Rewards.tla (C21 reward pools, C42 IPRPC).
//
// Input  (VERIF_IN):  {"seed":n,"burn":[num,den],"quota":q,"maxid":m,"behaviours":[[step,...],...]}
// Output (VERIF_OUT): ndjson trace, one `reset` line per behaviour, then per step either a tx line
// (setdata/fund/relay/buy/unstake + projection) or, for every block, the sub-events the chain emitted
// in that block (SDK events of x/rewards / x/subscription, in emission order: contribution `c`,
// subscription payout `pay`, provider bonus `bonus`, IPRPC emission `iprpc`, IPRPC roll-over `roll`,
// pool refill `refill`) followed by a `blk` line with the projection read back through keepers/bank.
// Runs of default-time blocks without any such event and without pool movement other than the
// block reward are coalesced into one `q` line.
package rewards

import (
	"encoding/json"
	"fmt"
	"os"
	"regexp"
	"sort"
	"strconv"
	"strings"
	"testing"
	"time"

	sdk "github.com/cosmos/cosmos-sdk/types"
	authtypes "github.com/cosmos/cosmos-sdk/x/auth/types"
	"github.com/lavanet/lava/v5/testutil/common"
	testkeeper "github.com/lavanet/lava/v5/testutil/keeper"
	"github.com/lavanet/lava/v5/utils/sigs"
	"verif/harness/internal/chainx"
	"verif/harness/internal/hx"
)

const baseUnix = 1714525261 // testkeeper fixedDate

type Step struct {
	A      string   `json:"a"`
	C      string   `json:"c"`
	P      string   `json:"p"`
	S      string   `json:"s"`
	Cu     int64    `json:"cu"`
	Dur    int64    `json:"dur"`
	Amt    int64    `json:"amt"`
	Months int64    `json:"months"`
	N      int64    `json:"n"`
	Dt     int64    `json:"dt"`
	Off    int64    `json:"off"`
	Cost   int64    `json:"cost"`
	Subs   []string `json:"subs"`
}

type Input struct {
	Seed       int64    `json:"seed"`
	Burn       []int64  `json:"burn"`
	Quota      int64    `json:"quota"`
	MaxID      int      `json:"maxid"`
	Behaviours [][]Step `json:"behaviours"`
}

var specNames = []string{"S1", "S2"}
var provNames = []string{"P1", "P2", "P3"}
var subNames = []string{"C1", "C2"}

var poolOf = map[string]string{
	"va": "validators_rewards_allocation_pool", "vd": "validators_rewards_distribution_pool",
	"vl": "validators_rewards_leftover_pool", "pa": "providers_rewards_allocation_pool",
	"pd": "providers_rewards_distribution_pool", "ip": "iprpc_pool", "cp": "distribution",
	"fc": "fee_collector", "ds": "dualstaking", "sb": "subscription",
}

type drv struct {
	c     *chainx.Chain
	in    *Input
	out   *hx.Out
	provs map[string]sigs.Account // name -> account
	pname map[string]string       // provider address -> name
	subs  map[string]sigs.Account
	sname map[string]string
	quiet int
	qt0   int64
	qproj map[string]interface{} // projection after the last quiet block
}

func (d *drv) now() int64 { return d.c.TS.BlockTime().UTC().Unix() - baseUnix }

func (d *drv) pools() map[string]int64 {
	m := map[string]int64{}
	for k, mod := range poolOf {
		m[k] = chainx.Clamp(d.c.ModuleBalance(mod))
	}
	return m
}

func amt(s string) int64 {
	// "559ulava" / "" / "12ulava,3uibc"
	for _, part := range strings.Split(s, ",") {
		part = strings.TrimSpace(part)
		if strings.HasSuffix(part, "ulava") {
			v, err := strconv.ParseInt(strings.TrimSuffix(part, "ulava"), 10, 64)
			if err == nil {
				return chainx.Clamp(v)
			}
		}
	}
	return 0
}

func (d *drv) proj() map[string]interface{} {
	ts := d.c.TS
	rk := ts.Keepers.Rewards
	p := map[string]interface{}{}
	p["t"] = d.now()
	p["h"] = int64(ts.BlockHeight())
	p["pl"] = d.pools()
	p["ml"] = chainx.Clamp(rk.AllocationPoolMonthsLeft(ts.Ctx))
	p["ra"] = chainx.Clamp(rk.TimeToNextTimerExpiry(ts.Ctx) + d.now())
	cu := map[string]map[string]int64{}
	tot := map[string]map[string]int64{}
	staked := map[string][]string{}
	for _, s := range specNames {
		cu[s] = map[string]int64{}
		tot[s] = map[string]int64{}
		staked[s] = []string{}
		for _, pn := range provNames {
			cu[s][pn] = 0
			tot[s][pn] = 0
			if _, found := ts.Keepers.Epochstorage.GetStakeEntryCurrent(ts.Ctx, s, d.provs[pn].Addr.String()); found {
				staked[s] = append(staked[s], pn)
			}
		}
	}
	for _, bp := range rk.GetAllBasePay(ts.Ctx) {
		pn, ok := d.pname[bp.Provider]
		if !ok {
			continue
		}
		if _, ok := cu[bp.ChainId]; !ok {
			continue
		}
		cu[bp.ChainId][pn] = chainx.ClampU(bp.BasePay.IprpcCu)
		tot[bp.ChainId][pn] = chainx.ClampInt(bp.BasePay.Total)
	}
	p["cu"] = cu
	p["tot"] = tot
	p["staked"] = staked
	ipr := make([]map[string]int64, d.in.MaxID+1)
	for i := range ipr {
		ipr[i] = map[string]int64{}
		for _, s := range specNames {
			ipr[i][s] = 0
		}
	}
	over := false
	for _, r := range rk.GetAllIprpcReward(ts.Ctx) {
		if int(r.Id) > d.in.MaxID {
			over = true
			continue
		}
		for _, sf := range r.SpecFunds {
			if _, ok := ipr[r.Id][sf.Spec]; ok {
				ipr[r.Id][sf.Spec] += chainx.ClampInt(sf.Fund.AmountOf(ts.TokenDenom()))
			}
		}
	}
	p["ipr"] = ipr
	p["over"] = over
	p["cur"] = chainx.ClampU(rk.GetIprpcRewardsCurrentId(ts.Ctx))
	is := []string{}
	for _, a := range rk.GetAllIprpcSubscription(ts.Ctx) {
		if n, ok := d.sname[a]; ok {
			is = append(is, n)
		}
	}
	sort.Strings(is)
	p["isubs"] = is
	mc := rk.GetMinIprpcCost(ts.Ctx).Amount
	if mc.IsNil() {
		p["mc"] = int64(0)
	} else {
		p["mc"] = chainx.ClampInt(mc)
	}
	rw := map[string]int64{}
	for _, pn := range provNames {
		acc := d.provs[pn]
		r, found := ts.Keepers.Dualstaking.GetDelegatorReward(ts.Ctx, acc.Addr.String(), acc.GetVaultAddr())
		if found {
			rw[pn] = chainx.ClampInt(r.Amount.AmountOf(ts.TokenDenom()))
		} else {
			rw[pn] = 0
		}
	}
	p["rw"] = rw
	p["bf1"] = rk.BondedTargetFactor(ts.Ctx).Equal(sdk.OneDec())
	return p
}

func (d *drv) emit(ev string, fields map[string]interface{}, withProj bool) {
	m := map[string]interface{}{"ev": ev}
	if withProj {
		for k, v := range d.proj() {
			m[k] = v
		}
	}
	for k, v := range fields {
		m[k] = v
	}
	d.out.Emit(m)
}

var cuRewardRe = regexp.MustCompile(`^cu: (\S+) reward: (.*)$`)

func attrs(e sdk.Event) map[string]string {
	m := map[string]string{}
	for _, a := range e.Attributes {
		m[a.Key] = a.Value
	}
	return m
}

func zeroProv() map[string]int64 {
	m := map[string]int64{}
	for _, p := range provNames {
		m[p] = 0
	}
	return m
}

// subEvents converts the SDK events of one block into trace sub-events.
func (d *drv) subEvents(evs sdk.Events) []map[string]interface{} {
	var res []map[string]interface{}
	var pendingC []map[string]interface{}
	flushC := func(from, spec string) {
		for _, c := range pendingC {
			c["from"] = from
			c["s"] = spec
			res = append(res, c)
		}
		pendingC = nil
	}
	for _, e := range evs {
		a := attrs(e)
		switch e.Type {
		case "lava_validators_and_community_fund":
			pool := ""
			switch a["validator_pool"] {
			case "validators_rewards_leftover_pool":
				pool = "vl"
			case "validators_rewards_distribution_pool":
				pool = "vd"
			}
			pendingC = append(pendingC, map[string]interface{}{"ev": "c", "v": amt(a["validators"]), "c": amt(a["community"]), "pool": pool})
		case "lava_subscription_payout":
			flushC("sb", "")
			rw := zeroProv()
			n := 0
			for k, v := range a {
				f := strings.Fields(k)
				if len(f) != 2 || strings.HasSuffix(k, "_delegators") {
					continue
				}
				pn, ok := d.pname[f[0]]
				m := cuRewardRe.FindStringSubmatch(v)
				if !ok || m == nil {
					continue
				}
				rw[pn] += amt(m[2])
				n++
			}
			res = append(res, map[string]interface{}{"ev": "pay", "sub": d.sname[a["subscription"]], "rw": rw, "n": n, "total": amt(a["total_rewards"] + "ulava")})
		case "lava_provider_bonus_rewards":
			rw := zeroProv()
			for k, v := range a {
				pn, ok := d.pname[k]
				m := cuRewardRe.FindStringSubmatch(v)
				if !ok || m == nil {
					continue
				}
				rw[pn] += amt(m[2])
			}
			res = append(res, map[string]interface{}{"ev": "bonus", "s": a["chainid"], "rw": rw, "err": a["error"] != ""})
		case "lava_iprpc_pool_emmission":
			flushC("ip", a["chainid"])
			rw := zeroProv()
			cus := zeroProv()
			for k, v := range a {
				pn, ok := d.pname[k]
				m := cuRewardRe.FindStringSubmatch(v)
				if !ok || m == nil {
					continue
				}
				rw[pn] += amt(m[2])
				cv, _ := strconv.ParseInt(m[1], 10, 64)
				cus[pn] += chainx.Clamp(cv)
			}
			tc, _ := strconv.ParseInt(a["total_cu"], 10, 64)
			res = append(res, map[string]interface{}{"ev": "iprpc", "s": a["chainid"], "rw": rw, "cus": cus, "F": amt(a["total_rewards"]), "totcu": chainx.Clamp(tc)})
		case "lava_transfer_iprpc_reward_to_next_month":
			// "[{S1 500ulava} {S2 }]"
			funds := map[string]int64{}
			for _, s := range specNames {
				funds[s] = 0
			}
			for _, m := range regexp.MustCompile(`\{(\S+) ([^}]*)\}`).FindAllStringSubmatch(a["transferred_funds"], -1) {
				if _, ok := funds[m[1]]; ok {
					funds[m[1]] += amt(m[2])
				}
			}
			res = append(res, map[string]interface{}{"ev": "roll", "funds": funds})
		case "lava_distribution_pools_refill":
			flushC("ip", "?")
			ml, _ := strconv.ParseInt(a["allocation_pool_remaining_lifetime"], 10, 64)
			vd, _ := strconv.ParseInt(a["validators_distribution_pool_balance"], 10, 64)
			pd, _ := strconv.ParseInt(a["providers_distribution_pool_balance"], 10, 64)
			res = append(res, map[string]interface{}{"ev": "refill", "ml": ml, "vd": chainx.Clamp(vd), "pd": chainx.Clamp(pd)})
		}
	}
	flushC("?", "?")
	return res
}

func (d *drv) flushQuiet() {
	if d.quiet > 0 {
		m := map[string]interface{}{"ev": "q", "n": d.quiet, "dt": int64(300), "t0": d.qt0}
		for k, v := range d.qproj {
			m[k] = v
		}
		d.out.Emit(m)
		d.quiet = 0
	}
}

// block advances one block; returns false if the chain panicked.
func (d *drv) block(dt int64, coalesce bool) bool {
	ts := d.c.TS
	ts.Ctx = ts.Ctx.WithEventManager(sdk.NewEventManager())
	ts.GoCtx = sdk.WrapSDKContext(ts.Ctx)
	t0 := d.now()
	pre := d.pools()
	var panicked bool
	var msg string
	if dt > 0 {
		panicked, msg = d.c.NextBlock(time.Duration(dt) * time.Second)
	} else {
		panicked, msg = d.c.NextBlock(0)
	}
	if panicked {
		d.flushQuiet()
		d.out.Emit(map[string]interface{}{"ev": "blk", "panic": true, "msg": msg, "t0": t0})
		return false
	}
	subs := d.subEvents(ts.Ctx.EventManager().Events())
	post := d.pools()
	isQuiet := coalesce && dt <= 0 && len(subs) == 0
	if isQuiet {
		for _, k := range []string{"va", "vl", "pa", "pd", "ip", "cp", "ds", "sb"} {
			if pre[k] != post[k] {
				isQuiet = false
			}
		}
	}
	if isQuiet {
		if d.quiet == 0 {
			d.qt0 = t0
		}
		d.quiet++
		d.qproj = d.proj()
		return true
	}
	d.flushQuiet()
	ra := chainx.Clamp(ts.Keepers.Rewards.TimeToNextTimerExpiry(ts.Ctx) + d.now())
	for _, s := range subs {
		if s["ev"] == "refill" {
			s["ra"] = ra
		}
		d.out.Emit(s)
	}
	d.emit("blk", map[string]interface{}{"t0": t0, "panic": false}, true)
	return true
}

func (d *drv) setup(seed int64, t *testing.T) {
	c := chainx.New(t, seed)
	d.c = c
	ts := c.TS
	d.provs, d.pname, d.subs, d.sname = map[string]sigs.Account{}, map[string]string{}, map[string]sigs.Account{}, map[string]string{}
	vacc, _ := c.AddAccount(common.VALIDATOR, 0, 1000000)
	ts.TxCreateValidator(vacc, sdk.NewInt(100000))
	for _, s := range specNames {
		sp := common.CreateMockSpec()
		sp.Index, sp.Name = s, strings.ToLower(s)
		ts.AddSpec(s, sp)
	}
	plan := common.CreateMockPlan()
	plan.Price.Amount = sdk.NewInt(1000)
	plan.AnnualDiscountPercentage = 0
	ts.AddPlan("free", plan)
	for i, pn := range provNames {
		acc, addr := c.AddAccount(common.PROVIDER, i, 1000000)
		for _, s := range specNames {
			if err := ts.StakeProvider(acc.GetVaultAddr(), addr, ts.Spec(s), 10000); err != nil {
				t.Fatalf("stake: %v", err)
			}
		}
		d.provs[pn] = acc
		d.pname[addr] = pn
	}
	for i, sn := range subNames {
		acc, addr := c.AddAccount(common.CONSUMER, i, 100000000)
		d.subs[sn] = acc
		d.sname[addr] = sn
	}
	ts.AdvanceEpoch()
	if d.in.Burn[0] != d.in.Burn[1] {
		dec := sdk.NewDec(d.in.Burn[0]).QuoInt64(d.in.Burn[1])
		bz, _ := dec.MarshalJSON()
		if err := ts.TxProposalChangeParam("rewards", "LeftoverBurnRate", string(bz)); err != nil {
			t.Fatalf("burn rate: %v", err)
		}
	}
	// as x/rewards InitGenesis does with the default genesis (testutil does not run it): min IPRPC cost 0
	if err := ts.Keepers.Rewards.SetIprpcData(ts.Ctx, sdk.NewCoin(ts.TokenDenom(), sdk.ZeroInt()), nil); err != nil {
		t.Fatalf("genesis iprpc data: %v", err)
	}
	// small pools (TLC integers are 32 bit): as if genesis had allocated quota*48 to each allocation pool
	ml := ts.Keepers.Rewards.AllocationPoolMonthsLeft(ts.Ctx)
	denom := ts.TokenDenom()
	set := func(mod string, v int64) {
		_ = ts.Keepers.BankKeeper.SetBalance(ts.Ctx, testkeeper.GetModuleAddress(mod), sdk.NewCoins(sdk.NewCoin(denom, sdk.NewInt(v))))
	}
	set(poolOf["va"], d.in.Quota*ml)
	set(poolOf["pa"], d.in.Quota*ml)
	set(poolOf["vd"], d.in.Quota)
	set(poolOf["pd"], d.in.Quota)
	set(poolOf["fc"], 0)
	set(poolOf["vl"], 0)
}

func (d *drv) run(beh []Step, t *testing.T) {
	ts := d.c.TS
	d.quiet = 0
	d.emit("reset", map[string]interface{}{"burn": d.in.Burn}, true)
	for _, st := range beh {
		if int(ts.Keepers.Rewards.GetIprpcRewardsCurrentId(ts.Ctx))+4 > d.in.MaxID {
			break // keep IPRPC ids inside the logged window
		}
		switch st.A {
		case "setdata":
			addrs := []string{}
			for _, s := range st.Subs {
				addrs = append(addrs, d.subs[s].Addr.String())
			}
			r := d.c.Tx(func() error {
				_, err := ts.TxRewardsSetIprpcDataProposal(authtypes.NewModuleAddress("gov").String(), sdk.NewCoin(ts.TokenDenom(), sdk.NewInt(st.Cost)), addrs)
				return err
			})
			d.flushQuiet()
			d.emit("setdata", map[string]interface{}{"cost": st.Cost, "subs": st.Subs, "ok": r.OK, "panic": r.Panic}, true)
		case "fund":
			r := d.c.Tx(func() error {
				_, err := ts.TxRewardsFundIprpc(d.subs[st.C].Addr.String(), st.S, uint64(st.Dur), sdk.NewCoins(sdk.NewCoin(ts.TokenDenom(), sdk.NewInt(st.Amt))))
				return err
			})
			d.flushQuiet()
			d.emit("fund", map[string]interface{}{"c": st.C, "s": st.S, "dur": st.Dur, "amt": st.Amt, "ok": r.OK, "panic": r.Panic}, true)
		case "relay":
			msg := ts.SendRelay(d.provs[st.P].Addr.String(), d.subs[st.C], []string{st.S}, uint64(st.Cu))
			r := d.c.Tx(func() error { _, err := ts.TxPairingRelayPayment(msg.Creator, msg.Relays...); return err })
			d.flushQuiet()
			d.emit("relay", map[string]interface{}{"c": st.C, "p": st.P, "s": st.S, "rcu": st.Cu, "ok": r.OK, "panic": r.Panic}, true)
		case "buy":
			a := d.subs[st.C].Addr.String()
			r := d.c.Tx(func() error { _, err := ts.TxSubscriptionBuy(a, a, "free", int(st.Months), false, false); return err })
			d.flushQuiet()
			d.emit("buy", map[string]interface{}{"c": st.C, "months": st.Months, "ok": r.OK, "panic": r.Panic}, true)
		case "unstake":
			r := d.c.Tx(func() error { _, err := ts.TxPairingUnstakeProvider(d.provs[st.P].GetVaultAddr(), st.S); return err })
			d.flushQuiet()
			d.emit("unstake", map[string]interface{}{"p": st.P, "s": st.S, "ok": r.OK, "panic": r.Panic}, true)
		case "blocks":
			for i := int64(0); i < st.N; i++ {
				if !d.block(0, true) {
					return
				}
			}
		case "jump":
			if !d.block(st.Dt, false) {
				return
			}
		case "rel":
			target := ts.Keepers.Rewards.TimeToNextTimerExpiry(ts.Ctx) + st.Off
			if target <= 0 {
				target = 0
			}
			if !d.block(target, false) {
				return
			}
		default:
			t.Fatalf("unknown step %q", st.A)
		}
	}
	d.flushQuiet()
}

func TestDrive(t *testing.T) {
	inP, outP := os.Getenv("VERIF_IN"), os.Getenv("VERIF_OUT")
	if inP == "" || outP == "" {
		t.Skip("VERIF_IN / VERIF_OUT not set")
	}
	var in Input
	raw, err := os.ReadFile(inP)
	if err != nil {
		t.Fatal(err)
	}
	if err := json.Unmarshal(raw, &in); err != nil {
		t.Fatal(err)
	}
	if len(in.Burn) != 2 {
		in.Burn = []int64{1, 1}
	}
	if in.Quota == 0 {
		in.Quota = 2000
	}
	if in.MaxID == 0 {
		in.MaxID = 12
	}
	out := hx.NewOut(outP)
	defer out.Close()
	for i, beh := range in.Behaviours {
		d := &drv{in: &in, out: out}
		d.setup(in.Seed+int64(i), t)
		d.run(beh, t)
	}
	fmt.Println("lines", out.N)
}
