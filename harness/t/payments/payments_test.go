// Package payments is the chain-side replay driver of the "pay" family (C03, C04, C05, C17, C18).
//
// TestDrive reads a JSON list of behaviours (VERIF_IN) produced by TLC from specs/Payments.tla or
// specs/Projects.tla, replays every behaviour on a fresh testutil/common.Tester (through
// harness/internal/chainx: production-like atomic transactions) and writes one NDJSON line per step
// (VERIF_OUT): event + arguments + result + the projected abstract state read back through keeper
// getters / queries.  Real keys sign real relay sessions and badges; mutations are applied after
// signing.
package payments

import (
	"encoding/hex"
	"encoding/json"
	"fmt"
	"os"
	"sort"
	"strconv"
	"strings"
	"testing"
	"time"

	"cosmossdk.io/math"
	sdk "github.com/cosmos/cosmos-sdk/types"
	"github.com/lavanet/lava/v5/testutil/common"
	"github.com/lavanet/lava/v5/utils/sigs"
	epochstoragetypes "github.com/lavanet/lava/v5/x/epochstorage/types"
	pairingtypes "github.com/lavanet/lava/v5/x/pairing/types"
	planstypes "github.com/lavanet/lava/v5/x/plans/types"
	projectstypes "github.com/lavanet/lava/v5/x/projects/types"

	"verif/harness/internal/chainx"
)

// ---------------------------------------------------------------------------------------------
// constants mirrored in specs/Payments*.cfg / Projects*.cfg
// ---------------------------------------------------------------------------------------------
const (
	PlanTotal    = 1000 // plan TotalCuLimit (= subscription MonthCuLeft at start)
	PlanEpoch    = 200  // plan EpochCuLimit
	LowTotal     = 100  // project "low": admin/subscription policy TotalCuLimit
	LowEpoch     = 150  // project "low": EpochCuLimit
	EpochsToSave = 3
	Wrap         = 1000000 // every logged number above this is logged as Wrap (TLC ints are 32 bit)
	ChainID      = "lava-verif"
)

// cuOf maps the symbolic "huge" CUs of the behaviours to numbers near the top of uint64
// (specs/Payments.tla, "Huge CU"): Wrap = 2^64-5, Wrap+1 = 2^63 (MaxInt64+1), Wrap+2 = 2^63-1 (MaxInt64)
func cuOf(cu int) uint64 {
	switch cu {
	case Wrap:
		return ^uint64(0) - 4
	case Wrap + 1:
		return uint64(1) << 63
	case Wrap + 2:
		return uint64(1)<<63 - 1
	}
	return uint64(cu)
}

func clampU(v uint64) int64 {
	if v > Wrap {
		return Wrap
	}
	return int64(v)
}

// ---------------------------------------------------------------------------------------------
// behaviour input
// ---------------------------------------------------------------------------------------------
type Badge struct {
	U  string `json:"u"`  // badge user ("-" = no badge)
	Is string `json:"is"` // issuer (key that signs the badge)
	E  int    `json:"e"`  // badge epoch index
	O  int    `json:"o"`  // offset inside the epoch
	Al int    `json:"al"` // cu allocation
	Lc bool   `json:"lc"` // lava chain id correct
}

type Relay struct {
	Sg  string `json:"sg"`  // signer
	Pf  string `json:"pf"`  // provider field
	Pfu bool   `json:"pfu"` // provider field written in the all-upper-case spelling of the address (probe only)
	Sp  string `json:"sp"`  // spec
	E   int    `json:"e"`   // epoch index (cur+1 = future, -1 = negative block)
	O   int    `json:"o"`   // offset inside the epoch (0 = epoch start)
	Ss  int    `json:"ss"`  // session id
	Cu  int    `json:"cu"`
	Lc  bool   `json:"lc"` // lava chain id correct
	Q   string `json:"q"`  // qos report: none | one | zero | half | bad
	Tm  string `json:"tm"` // tamper after signing: none | sig | cu
	B   Badge  `json:"b"`
}

type Step struct {
	A   string  `json:"a"` // setup | pay | epoch | block | down | addproj | delproj | addkey | delkey
	P   string  `json:"p"`
	Pu  bool    `json:"pu"` // pay: the tx Creator is the all-upper-case spelling of the sender's bech32 address
	Rs  []Relay `json:"rs"`
	V   string  `json:"v"`   // setup variant / project name
	By  string  `json:"by"`  // tx creator for project txs
	Key string  `json:"key"` // key for add/del key
	Kd  string  `json:"kd"`  // key kind: dev | adm | both
	Sub string  `json:"sub"` // subscription owner for addproj/delproj
}

// ---------------------------------------------------------------------------------------------
// world
// ---------------------------------------------------------------------------------------------
type world struct {
	c       *chainx.Chain
	ts      *common.Tester
	acc     map[string]sigs.Account
	name    map[string]string // address -> name
	projIdx map[string]string // project name -> index
	projNm  map[string]string // index -> project name
	estarts []uint64          // epoch index -> epoch start block (index 0 = first epoch after setup)
	eblocks uint64
	badges  map[string]Badge // hex(projectSig) -> badge
	variant string
}

var provNames = []string{"p1", "p2", "p3"}
var specNames = []string{"S1", "S2", "SD"}
var keyNames = []string{"c1", "c2", "k1", "k2", "k3"}
var projNames = []string{"c1/adm", "c1/low", "c1/dis", "c1/q1", "c2/adm", "c2/q1"}

func policy(total, epoch uint64) *planstypes.Policy {
	return &planstypes.Policy{TotalCuLimit: total, EpochCuLimit: epoch, MaxProvidersToPair: 3, GeolocationProfile: 1}
}

func must(err error, what string) {
	if err != nil {
		panic("setup " + what + ": " + err.Error())
	}
}

func newWorld(t *testing.T, seed int64, variant string) *world {
	c := chainx.New(t, seed)
	ts := c.TS
	ts.SetChainID(ChainID)
	w := &world{c: c, ts: ts, acc: map[string]sigs.Account{}, name: map[string]string{},
		projIdx: map[string]string{}, projNm: map[string]string{}, badges: map[string]Badge{}, variant: variant}
	must(ts.TxProposalChangeParam(epochstoragetypes.ModuleName, string(epochstoragetypes.KeyEpochsToSave), "\""+strconv.Itoa(EpochsToSave)+"\""), "epochsToSave")
	ts.AdvanceEpochs(2)
	// the earliest-epoch computation uses the memory size fixated at the *earliest* epoch: run until
	// the chain's memory window is governed by the new parameter only
	fix := ts.EpochStart()
	for ts.Keepers.Epochstorage.GetEarliestEpochStart(ts.Ctx) < fix {
		ts.AdvanceEpoch()
	}

	add := func(name, kind string, idx int) sigs.Account {
		a, addr := c.AddAccount(kind, idx, 100000000)
		w.acc[name] = a
		w.name[addr] = name
		return a
	}
	val := add("val", common.VALIDATOR, 0)
	ts.TxCreateValidator(val, math.NewInt(10000000))

	for _, s := range specNames {
		sp := common.CreateMockSpec()
		sp.Index, sp.Name = s, strings.ToLower(s)
		ts.AddSpec(s, sp)
	}
	plan := common.CreateMockPlan()
	plan.PlanPolicy = *policy(PlanTotal, PlanEpoch)
	ts.AddPlan("free", plan)

	for i, k := range keyNames {
		add(k, common.CONSUMER, i)
	}
	add("b1", "badge", 0)
	add("b2", "badge", 1)
	add("x", "unk", 0)
	for i, p := range provNames {
		a := add(p, common.PROVIDER, i)
		spec := "S1"
		if p == "p3" {
			spec = "S2"
		}
		must(ts.StakeProvider(a.GetVaultAddr(), a.Addr.String(), ts.Spec(spec), 100000), "stake "+p)
		if p == "p1" {
			must(ts.StakeProvider(a.GetVaultAddr(), a.Addr.String(), ts.Spec("SD"), 100000), "stake SD "+p)
		}
	}
	// the spec "SD" is disabled after p1 staked on it
	sd := ts.Spec("SD")
	sd.Enabled = false
	ts.AddSpec("SD", sd)

	c1, c2 := w.acc["c1"].Addr.String(), w.acc["c2"].Addr.String()
	if variant == "pay" {
		// c2: a subscription that expired before the behaviour starts ("deleted subscription")
		_, err := ts.TxSubscriptionBuy(c2, c2, "free", 1, false, false)
		must(err, "buy c2")
		ts.AdvanceMonths(1).AdvanceEpochs(2)
	}
	_, err := ts.TxSubscriptionBuy(c1, c1, "free", 12, false, false)
	must(err, "buy c1")
	if variant != "pay" {
		_, err := ts.TxSubscriptionBuy(c2, c2, "free", 12, false, false)
		must(err, "buy c2")
	}
	dev := func(k string) []projectstypes.ProjectKey {
		return []projectstypes.ProjectKey{projectstypes.ProjectDeveloperKey(w.acc[k].Addr.String())}
	}
	must(ts.TxSubscriptionAddProject(c1, projectstypes.ProjectData{Name: "low", Enabled: true, ProjectKeys: dev("k1"), Policy: policy(LowTotal, LowEpoch)}), "proj low")
	must(ts.TxSubscriptionAddProject(c1, projectstypes.ProjectData{Name: "dis", Enabled: false, ProjectKeys: dev("k3"), Policy: nil}), "proj dis")
	for _, pn := range projNames {
		parts := strings.Split(pn, "/")
		idx := projectstypes.ProjectIndex(w.acc[parts[0]].Addr.String(), pn[3:])
		if parts[1] == "adm" {
			idx = projectstypes.ProjectIndex(w.acc[parts[0]].Addr.String(), projectstypes.ADMIN_PROJECT_NAME)
		}
		w.projIdx[pn] = idx
		w.projNm[idx] = pn
	}
	ts.AdvanceEpoch()
	w.eblocks = ts.EpochBlocks()
	w.estarts = []uint64{ts.EpochStart()}
	return w
}

func (w *world) curIdx() int { return len(w.estarts) - 1 }

// block of (epoch index, offset); future / negative indexes are extrapolated
func (w *world) blockOf(e, o int) int64 {
	if e < 0 {
		return int64(e)
	}
	if e < len(w.estarts) {
		return int64(w.estarts[e]) + int64(o)
	}
	last := w.estarts[len(w.estarts)-1]
	return int64(last) + int64(e-len(w.estarts)+1)*int64(w.eblocks) + int64(o)
}

func (w *world) idxOfStart(b uint64) int {
	for i, s := range w.estarts {
		if s == b {
			return i
		}
	}
	if b < w.estarts[0] {
		return -1 - int((w.estarts[0]-b)/w.eblocks)
	}
	return 99
}

func (w *world) nm(addr string) string {
	if n, ok := w.name[addr]; ok {
		return n
	}
	return "?" + addr
}

func (w *world) pn(idx string) string {
	if n, ok := w.projNm[idx]; ok {
		return n
	}
	return "?" + idx
}

// ---------------------------------------------------------------------------------------------
// relay construction
// ---------------------------------------------------------------------------------------------
func (w *world) chainID(ok bool) string {
	if ok {
		return ChainID
	}
	return "other-chain"
}

func (w *world) qos(q string) *pairingtypes.QualityOfServiceReport {
	d := func(s string) sdk.Dec { return sdk.MustNewDecFromStr(s) }
	switch q {
	case "one":
		return &pairingtypes.QualityOfServiceReport{Latency: d("1"), Availability: d("1"), Sync: d("1")}
	case "zero":
		return &pairingtypes.QualityOfServiceReport{Latency: d("1"), Availability: d("0"), Sync: d("1")}
	case "half":
		return &pairingtypes.QualityOfServiceReport{Latency: d("0.5"), Availability: d("0.5"), Sync: d("0.5")}
	case "bad":
		return &pairingtypes.QualityOfServiceReport{Latency: d("2"), Availability: d("1"), Sync: d("1")}
	}
	return nil
}

func (w *world) buildBadge(b Badge) (*pairingtypes.Badge, string) {
	if b.U == "-" || b.U == "" {
		return nil, "-"
	}
	badge := pairingtypes.CreateBadge(uint64(b.Al), uint64(w.blockOf(b.E, b.O)), w.acc[b.U].Addr, w.chainID(b.Lc), nil)
	sig, err := sigs.Sign(w.acc[b.Is].SK, *badge)
	if err != nil {
		panic(err)
	}
	badge.ProjectSig = sig
	name := fmt.Sprintf("%s:%s:%d:%d:%d:%v", b.U, b.Is, b.E, b.O, b.Al, b.Lc)
	w.badges[hex.EncodeToString(sig)] = b
	return badge, name
}

func spell(addr string, upper bool) string {
	if upper {
		return strings.ToUpper(addr)
	}
	return addr
}

func (w *world) buildRelay(r Relay) *pairingtypes.RelaySession {
	rs := &pairingtypes.RelaySession{
		Provider:    spell(w.acc[r.Pf].Addr.String(), r.Pfu),
		ContentHash: []byte("verif"),
		SessionId:   uint64(r.Ss),
		SpecId:      r.Sp,
		CuSum:       cuOf(r.Cu),
		Epoch:       w.blockOf(r.E, r.O),
		RelayNum:    1,
		QosReport:   w.qos(r.Q),
		LavaChainId: w.chainID(r.Lc),
	}
	rs.Badge, _ = w.buildBadge(r.B)
	sig, err := sigs.Sign(w.acc[r.Sg].SK, *rs)
	if err != nil {
		panic(err)
	}
	rs.Sig = sig
	switch r.Tm {
	case "sig":
		rs.Sig = append([]byte{}, sig...)
		rs.Sig[len(rs.Sig)/2] ^= 0x01
	case "cu":
		rs.CuSum++
	}
	return rs
}

// ---------------------------------------------------------------------------------------------
// projection
// ---------------------------------------------------------------------------------------------
type kv struct {
	K []interface{} `json:"k"`
	V int64         `json:"v"`
}

type projVer struct {
	P    string   `json:"p"`
	B    int      `json:"b"` // epoch index whose start block was queried
	Used int64    `json:"used"`
	Snap int64    `json:"snap"`
	En   bool     `json:"en"`
	Dev  []string `json:"dev"`
	Adm  []string `json:"adm"`
}

type state struct {
	Cur      int              `json:"cur"`
	Off      int              `json:"off"`
	Earliest int              `json:"earliest"`
	Height   int64            `json:"height"`
	Unique   [][]interface{}  `json:"unique"` // [e, provider, project, spec, session]
	Pec      []kv             `json:"pec"`    // [e, provider, spec]
	Pcec     []kv             `json:"pcec"`   // [e, provider, project, spec]
	Bused    []kv             `json:"bused"`  // [badge, provider]
	Used     map[string]int64 `json:"used"`   // project -> UsedCu of the version at the current block (-1 = none)
	Mleft    map[string]int64 `json:"mleft"`  // subscription -> MonthCuLeft (-1 = no subscription)
	Tracked  []kv             `json:"tracked"`
	Df       []int64          `json:"df"`               // downtime factor per epoch index 0..cur
	Hs       string           `json:"hs"`               // concatenated per-store hashes ("" when not requested)
	Devmap   [][]string       `json:"devmap,omitempty"` // per epoch index in window (+next): [key -> project]
	Projects []projVer        `json:"projects,omitempty"`
	Window   []int            `json:"window,omitempty"`
}

func (w *world) project(full bool) state {
	ts := w.ts
	ctx := ts.Ctx
	k := ts.Keepers
	st := state{Cur: w.curIdx(), Height: ctx.BlockHeight(), Used: map[string]int64{}, Mleft: map[string]int64{}}
	st.Off = int(uint64(ctx.BlockHeight()) - w.estarts[w.curIdx()])
	st.Earliest = w.idxOfStart(k.Epochstorage.GetEarliestEpochStart(ctx))
	if st.Earliest < 0 {
		st.Earliest = 0
	}
	st.Unique = [][]interface{}{}
	for _, u := range k.Pairing.GetAllUniqueEpochSessionStore(ctx) {
		st.Unique = append(st.Unique, []interface{}{w.idxOfStart(u.Epoch), w.nm(u.Provider), w.pn(u.Project), u.ChainId, int64(u.SessionId)})
	}
	st.Pec = []kv{}
	for _, e := range k.Pairing.GetAllProviderEpochCuStore(ctx) {
		st.Pec = append(st.Pec, kv{[]interface{}{w.idxOfStart(e.Epoch), w.nm(e.Provider), e.ChainId}, clampU(e.ProviderEpochCu.ServicedCu)})
	}
	st.Pcec = []kv{}
	for _, e := range k.Pairing.GetAllProviderConsumerEpochCuStore(ctx) {
		st.Pcec = append(st.Pcec, kv{[]interface{}{w.idxOfStart(e.Epoch), w.nm(e.Provider), w.pn(e.Project), e.ChainId}, clampU(e.ProviderConsumerEpochCu.Cu)})
	}
	st.Bused = []kv{}
	for _, b := range k.Pairing.GetAllBadgeUsedCu(ctx) {
		// key = projectSig ++ provider address
		key := b.BadgeUsedCuKey
		if len(key) > 0 && key[len(key)-1] == '/' {
			key = key[:len(key)-1]
		}
		k := []interface{}{"?", "?", 0, 0, 0, true, "?"}
		for _, p := range provNames {
			pa := []byte(w.acc[p].Addr.String())
			if len(key) > len(pa) && string(key[len(key)-len(pa):]) == string(pa) {
				if bd, ok := w.badges[hex.EncodeToString(key[:len(key)-len(pa)])]; ok {
					k = []interface{}{bd.U, bd.Is, bd.E, bd.O, bd.Al, bd.Lc, p}
				}
			}
		}
		st.Bused = append(st.Bused, kv{k, clampU(b.UsedCu)})
	}
	sort.Slice(st.Bused, func(i, j int) bool { return fmt.Sprint(st.Bused[i].K) < fmt.Sprint(st.Bused[j].K) })
	for _, pn := range projNames {
		p, err := k.Projects.GetProjectForBlock(ctx, w.projIdx[pn], uint64(ctx.BlockHeight()))
		if err != nil {
			st.Used[pn] = -1
		} else {
			st.Used[pn] = clampU(p.UsedCu)
		}
	}
	st.Tracked = []kv{}
	for _, s := range []string{"c1", "c2"} {
		sub, found := k.Subscription.GetSubscription(ctx, w.acc[s].Addr.String())
		if !found {
			st.Mleft[s] = -1
			continue
		}
		st.Mleft[s] = clampU(sub.MonthCuLeft)
		for _, p := range provNames {
			for _, sp := range specNames {
				cu, found, _ := k.Subscription.GetTrackedCu(ctx, sub.Consumer, w.acc[p].Addr.String(), sp, sub.Block)
				if found {
					st.Tracked = append(st.Tracked, kv{[]interface{}{s, p, sp}, clampU(cu)})
				}
			}
		}
	}
	st.Df = []int64{}
	for i := 0; i <= w.curIdx(); i++ {
		st.Df = append(st.Df, clampU(k.Downtime.GetDowntimeFactor(ctx, w.estarts[i])))
	}
	if full {
		// every mounted KV store (pairing, subscription, project, plan, rewards, epochstorage, dualstaking, spec, ...)
		all := w.c.StoreHashes()
		names := []string{}
		for n := range all {
			names = append(names, n)
		}
		sort.Strings(names)
		for _, n := range names {
			st.Hs += n + "=" + all[n] + ";"
		}
	}
	return st
}

// key / project projection for C17: over the epoch window [earliest..cur] and the next epoch
func (w *world) projectKeys(st *state) {
	ts := w.ts
	k := ts.Keepers
	lo := st.Earliest
	st.Window = []int{}
	st.Devmap = [][]string{}
	st.Projects = []projVer{}
	for e := lo; e <= w.curIdx()+1; e++ {
		b := uint64(w.blockOf(e, 0))
		st.Window = append(st.Window, e)
		row := []string{}
		for _, key := range keyNames {
			dd, err := k.Projects.GetProjectDeveloperData(ts.Ctx, w.acc[key].Addr.String(), b)
			if err != nil {
				row = append(row, "-")
			} else {
				row = append(row, w.pn(dd.ProjectID))
			}
		}
		st.Devmap = append(st.Devmap, row)
		for _, pn := range projNames {
			p, err := k.Projects.GetProjectForBlock(ts.Ctx, w.projIdx[pn], b)
			if err != nil {
				continue
			}
			pv := projVer{P: pn, B: e, Used: clampU(p.UsedCu), Snap: int64(p.Snapshot), En: p.Enabled, Dev: []string{}, Adm: []string{}}
			for _, pk := range p.ProjectKeys {
				if pk.IsType(projectstypes.ProjectKey_DEVELOPER) {
					pv.Dev = append(pv.Dev, w.nm(pk.Key))
				}
				if pk.IsType(projectstypes.ProjectKey_ADMIN) {
					pv.Adm = append(pv.Adm, w.nm(pk.Key))
				}
			}
			sort.Strings(pv.Dev)
			sort.Strings(pv.Adm)
			st.Projects = append(st.Projects, pv)
		}
	}
}

// ---------------------------------------------------------------------------------------------
// steps
// ---------------------------------------------------------------------------------------------
type relayOut struct {
	Relay
	Proj string `json:"proj"` // project the (badge-substituted) signer resolves to at the relay's block ("-" none)
	Es   int    `json:"es"`   // epoch index of the relay's epoch start
	Acc  bool   `json:"acc"`  // the chain emitted a relay_payment event for this relay index
	Rew  int64  `json:"rew"`  // rewardedCU attribute (clamped), -1 if not accepted
	Bn   string `json:"bn"`   // badge name
	Dfe  int64  `json:"dfe"`  // downtime factor of the relay's epoch at tx time
	Cu   int64  `json:"cuv"`  // CuSum as submitted (after tampering)
}

type line struct {
	Ev    string     `json:"ev"`
	P     string     `json:"p"`
	Pu    bool       `json:"pu"`
	Ok    bool       `json:"ok"`
	Err   string     `json:"err"`
	Panic bool       `json:"panic"`
	Rs    []relayOut `json:"rs"`
	V     string     `json:"v"`
	By    string     `json:"by"`
	Key   string     `json:"key"`
	Kd    string     `json:"kd"`
	Sub   string     `json:"sub"`
	St    state      `json:"st"`
}

func classify(err string) string {
	switch {
	case err == "":
		return ""
	case strings.Contains(err, "all relays rejected"):
		return "soft"
	default:
		return "hard"
	}
}

func (w *world) pay(s Step, full bool) line {
	ts := w.ts
	out := line{Ev: "pay", P: s.P, Pu: s.Pu, Rs: []relayOut{}}
	var relays []*pairingtypes.RelaySession
	for _, r := range s.Rs {
		rs := w.buildRelay(r)
		relays = append(relays, rs)
		ro := relayOut{Relay: r, Proj: "-", Rew: -1, Cu: clampU(rs.CuSum)}
		_, ro.Bn = w.buildBadge(r.B)
		ro.Es = r.E
		blk := rs.Epoch
		ro.Dfe = 1
		if blk >= 0 {
			ro.Dfe = clampU(ts.Keepers.Downtime.GetDowntimeFactor(ts.Ctx, uint64(blk)))
			// who would be charged: the badge issuer when a badge is attached for (signer, epoch), else the signer
			signer := r.Sg
			if r.Tm != "none" && r.Tm != "" {
				signer = "x"
			}
			if p, err := ts.Keepers.Projects.GetProjectForDeveloper(ts.Ctx, w.acc[signer].Addr.String(), uint64(blk)); err == nil {
				ro.Proj = w.pn(p.Index)
			}
		}
		out.Rs = append(out.Rs, ro)
	}
	creator := w.acc[s.P].Addr.String()
	if s.Pu {
		// bech32 accepts the all-upper-case spelling: same account, different string
		creator = strings.ToUpper(creator)
	}
	var events sdk.Events
	res := w.c.Tx(func() error {
		ts.Ctx = ts.Ctx.WithEventManager(sdk.NewEventManager())
		ts.GoCtx = sdk.WrapSDKContext(ts.Ctx)
		_, err := ts.TxPairingRelayPayment(creator, relays...)
		events = ts.Ctx.EventManager().Events()
		return err
	})
	out.Ok, out.Err, out.Panic = res.OK, classify(res.Err), res.Panic
	if res.Panic {
		out.Err = "panic"
	}
	if res.OK {
		// per-relay acceptance as the chain itself reports it (relay_payment event, keys suffixed with the relay index)
		for _, ev := range events {
			if !strings.HasSuffix(ev.Type, pairingtypes.RelayPaymentEventName) {
				continue
			}
			for _, a := range ev.Attributes {
				if strings.HasPrefix(a.Key, "rewardedCU.") {
					idx, _ := strconv.Atoi(strings.TrimPrefix(a.Key, "rewardedCU."))
					v, _ := strconv.ParseUint(a.Value, 10, 64)
					if idx < len(out.Rs) {
						out.Rs[idx].Acc = true
						out.Rs[idx].Rew = clampU(v)
					}
				}
				if strings.HasPrefix(a.Key, "projectID.") {
					idx, _ := strconv.Atoi(strings.TrimPrefix(a.Key, "projectID."))
					if idx < len(out.Rs) {
						out.Rs[idx].Proj = w.pn(a.Value)
					}
				}
			}
		}
	}
	out.St = w.project(full)
	return out
}

func (w *world) advance(kind string, full bool) line {
	out := line{Ev: kind, Rs: []relayOut{}}
	var p bool
	switch kind {
	case "epoch":
		p, _ = w.c.NextEpoch()
		w.estarts = append(w.estarts, w.ts.EpochStart())
	case "block":
		p, _ = w.c.NextBlock(0)
	case "down":
		// a block that arrives late: recorded as downtime of the current epoch
		p, _ = w.c.NextBlock(w.ts.Keepers.Downtime.GetParams(w.ts.Ctx).EpochDuration + time.Minute)
	case "bigdown":
		// a very late block: the current epoch's downtime factor exceeds that of every finished epoch
		p, _ = w.c.NextBlock(6*w.ts.Keepers.Downtime.GetParams(w.ts.Ctx).EpochDuration + time.Minute)
	}
	if uint64(w.ts.BlockHeight()) >= w.estarts[w.curIdx()]+w.eblocks {
		w.estarts = append(w.estarts, w.ts.EpochStart())
	}
	out.Ok, out.Panic = !p, p
	out.St = w.project(full)
	return out
}

func kinds(key, kd string) projectstypes.ProjectKey {
	pk := projectstypes.NewProjectKey(key)
	if kd == "dev" || kd == "both" {
		pk = pk.AddType(projectstypes.ProjectKey_DEVELOPER)
	}
	if kd == "adm" || kd == "both" {
		pk = pk.AddType(projectstypes.ProjectKey_ADMIN)
	}
	return pk
}

func (w *world) projTx(s Step, full bool) line {
	ts := w.ts
	out := line{Ev: s.A, V: s.V, By: s.By, Key: s.Key, Kd: s.Kd, Sub: s.Sub, Rs: []relayOut{}}
	res := w.c.Tx(func() error {
		switch s.A {
		case "addproj":
			pd := projectstypes.ProjectData{Name: s.V[3:], Enabled: true, Policy: nil}
			if s.Key != "-" && s.Key != "" {
				pd.ProjectKeys = []projectstypes.ProjectKey{kinds(w.acc[s.Key].Addr.String(), s.Kd)}
			}
			return ts.TxSubscriptionAddProject(w.acc[s.Sub].Addr.String(), pd)
		case "delproj":
			name := s.V[3:]
			if name == "adm" {
				name = projectstypes.ADMIN_PROJECT_NAME
			}
			return ts.TxSubscriptionDelProject(w.acc[s.Sub].Addr.String(), name)
		case "addkey":
			return ts.TxProjectAddKeys(w.projIdx[s.V], w.acc[s.By].Addr.String(), kinds(w.acc[s.Key].Addr.String(), s.Kd))
		case "delkey":
			return ts.TxProjectDelKeys(w.projIdx[s.V], w.acc[s.By].Addr.String(), kinds(w.acc[s.Key].Addr.String(), s.Kd))
		}
		return fmt.Errorf("unknown step %s", s.A)
	})
	out.Ok, out.Panic = res.OK, res.Panic
	if !res.OK {
		out.Err = "fail"
	}
	out.St = w.project(full)
	return out
}

// ---------------------------------------------------------------------------------------------
func TestDrive(t *testing.T) {
	in, outp := os.Getenv("VERIF_IN"), os.Getenv("VERIF_OUT")
	if in == "" || outp == "" {
		t.Skip("VERIF_IN / VERIF_OUT not set")
	}
	seed, _ := strconv.ParseInt(os.Getenv("VERIF_SEED"), 10, 64)
	if seed == 0 {
		seed = 1
	}
	full := os.Getenv("VERIF_HASHES") == "1"
	keys := os.Getenv("VERIF_KEYS") == "1"
	raw, err := os.ReadFile(in)
	if err != nil {
		t.Fatal(err)
	}
	var behs [][]Step
	if err := json.Unmarshal(raw, &behs); err != nil {
		t.Fatal(err)
	}
	f, err := os.Create(outp)
	if err != nil {
		t.Fatal(err)
	}
	defer f.Close()
	enc := json.NewEncoder(f)
	for _, beh := range behs {
		variant := "pay"
		if len(beh) > 0 && beh[0].A == "setup" {
			variant = beh[0].V
			beh = beh[1:]
		}
		w := newWorld(t, seed, variant)
		emit := func(l line) {
			if keys {
				w.projectKeys(&l.St)
			}
			if err := enc.Encode(l); err != nil {
				t.Fatal(err)
			}
		}
		emit(line{Ev: "reset", V: variant, Ok: true, Rs: []relayOut{}, St: w.project(full)})
		for _, s := range beh {
			switch s.A {
			case "pay":
				emit(w.pay(s, full))
			case "epoch", "block", "down", "bigdown":
				emit(w.advance(s.A, full))
			default:
				emit(w.projTx(s, full))
			}
		}
	}
}
