// Package credit replays TLC-generated (gap, operation) sequences of specs/Credit.tla into the real
// dualstaking module (C23): the amount of one (provider, delegator) delegation is changed through the
// real MsgDelegate / MsgUnbond / MsgRedelegate handlers on a testutil/common.Tester whose block time
// is advanced by the gaps; after every step the stored Delegation record and the value of
// Keeper.CalculateMonthlyCredit are logged.
package credit

import (
	"bufio"
	"encoding/json"
	"fmt"
	"os"
	"strconv"
	"testing"
	"time"
	_ "time/tzdata" // zone rules embedded: the driver must not depend on the machine's zoneinfo

	"cosmossdk.io/math"
	sdk "github.com/cosmos/cosmos-sdk/types"
	"github.com/lavanet/lava/v5/testutil/common"

	"verif/harness/internal/chainx"
)

type step struct {
	Op  string `json:"op"`
	Gap int64  `json:"gap"`
	Arg int64  `json:"arg"`
}

type drec struct {
	On bool  `json:"on"`
	A  int64 `json:"A"`
	C  int64 `json:"C"`
	T  int64 `json:"T"`
	CT int64 `json:"CT"`
}

// env places one behaviour: the process-local time zone (time.Local) while it runs, and where on the calendar it
// starts: `lead` days before the next DST transition of that zone of the given kind ("spring" = clocks go
// forward, "fall" = back), so that evaluation times fall into the 30 days after a transition.
type env struct {
	TZ   string `json:"tz"`
	Lead int64  `json:"lead"`
	Kind string `json:"kind"`
	// reproduction of a recorded behaviour: start at exactly this block time (unix seconds) instead
	At int64 `json:"at"`
}

type line struct {
	TZ    string `json:"tz,omitempty"`
	Start string `json:"start,omitempty"`
	At    int64  `json:"at,omitempty"`
	Ev    string `json:"ev"`
	Beh   int    `json:"beh"`
	Gap   int64  `json:"gap"`
	Arg   int64  `json:"arg"`
	OK    bool   `json:"ok"`
	Err   string `json:"err,omitempty"`
	Panic bool   `json:"panic"`
	Now   int64  `json:"now"`
	D     drec   `json:"d"`
	MC    int64  `json:"mc"`
}

const (
	balance       = int64(4_000_000_000_000)
	behPerChain   = 150 // a fresh chain every so many behaviours (state grows with every delegator)
	baseBackoff   = 1000
	validatorBond = int64(100_000_000)
	providerStake = int64(100_000)
)

type world struct {
	c        *chainx.Chain
	provider string
	nDel     int
}

func newWorld(t *testing.T, seed int64) *world {
	c := chainx.New(t, seed)
	ts := c.TS
	spec := ts.AddSpec("mock", common.CreateMockSpec()).Spec("mock")
	ts.AddPlan("mock", common.CreateMockPlan())
	ts.AdvanceEpoch()
	val, _ := c.AddAccount(common.VALIDATOR, 0, balance)
	ts.TxCreateValidator(val, math.NewInt(validatorBond))
	pacc, paddr := c.AddAccount(common.PROVIDER, 0, balance)
	if err := ts.StakeProvider(pacc.GetVaultAddr(), paddr, spec, providerStake); err != nil {
		t.Fatalf("stake provider: %v", err)
	}
	ts.AdvanceEpoch()
	return &world{c: c, provider: paddr}
}

func (w *world) read(delegator string, base int64) (drec, int64) {
	ts := w.c.TS
	k := ts.Keepers.Dualstaking
	d, found := k.GetDelegation(ts.Ctx, w.provider, delegator)
	if !found {
		return drec{}, 0
	}
	r := drec{On: true, T: d.Timestamp - base}
	if !d.Amount.IsNil() {
		r.A = chainx.ClampInt(d.Amount.Amount)
	}
	if !d.Credit.IsNil() {
		r.C = chainx.ClampInt(d.Credit.Amount)
	}
	if d.CreditTimestamp != 0 {
		r.CT = d.CreditTimestamp - base
	}
	mc := k.CalculateMonthlyCredit(ts.Ctx, d)
	m := int64(0)
	if !mc.IsNil() {
		m = chainx.ClampInt(mc.Amount)
	}
	return r, m
}

// untilTransition returns how long to wait from `from` to be `lead` days before the next DST transition of loc of
// the wanted kind (0 if the zone has none within two years).
func untilTransition(from time.Time, loc *time.Location, kind string, lead int64) time.Duration {
	_, prev := from.In(loc).Zone()
	for h := int64(1); h < 2*366*24; h++ {
		tt := from.Add(time.Duration(h) * time.Hour)
		_, off := tt.In(loc).Zone()
		if off != prev {
			spring := off > prev
			prev = off
			if (kind == "spring") == spring {
				// exact instant of the transition (to the second), so that a behaviour is placed identically
				// relative to it whatever the current time of day of the chain is (reproductions must agree)
				lo, hi := tt.Add(-time.Hour).Unix(), tt.Unix()
				for hi-lo > 1 {
					mid := (lo + hi) / 2
					if _, o := time.Unix(mid, 0).In(loc).Zone(); o == off {
						hi = mid
					} else {
						lo = mid
					}
				}
				target := time.Unix(hi, 0).Add(-time.Duration(lead) * 24 * time.Hour)
				if target.After(from) {
					return target.Sub(from)
				}
				// too close: take the next one of that kind
			}
		}
	}
	return 0
}

func TestDrive(t *testing.T) {
	in, out := os.Getenv("VERIF_IN"), os.Getenv("VERIF_OUT")
	if in == "" || out == "" {
		t.Skip("VERIF_IN / VERIF_OUT not set")
	}
	seed, _ := strconv.ParseInt(os.Getenv("VERIF_SEED"), 10, 64)
	if seed == 0 {
		seed = 1
	}
	raw, err := os.ReadFile(in)
	if err != nil {
		t.Fatal(err)
	}
	// input: {"behs": [[step...]...], "env": [env per behaviour]} (or a bare list of behaviours: UTC, no placement)
	var behs [][]step
	var envs []env
	var obj struct {
		Behs [][]step `json:"behs"`
		Env  []env    `json:"env"`
	}
	if err := json.Unmarshal(raw, &obj); err == nil && obj.Behs != nil {
		behs, envs = obj.Behs, obj.Env
	} else if err := json.Unmarshal(raw, &behs); err != nil {
		t.Fatal(err)
	}
	defer func() { time.Local = time.UTC }()
	f, err := os.Create(out)
	if err != nil {
		t.Fatal(err)
	}
	defer f.Close()
	bw := bufio.NewWriter(f)
	defer bw.Flush()
	enc := json.NewEncoder(bw)

	var w *world
	for bi, beh := range behs {
		if w == nil || w.nDel >= behPerChain {
			w = newWorld(t, seed+int64(bi))
		}
		ev := env{TZ: "UTC"}
		if bi < len(envs) {
			ev = envs[bi]
		}
		loc, lerr := time.LoadLocation(ev.TZ)
		if lerr != nil {
			t.Fatalf("time zone %q: %v", ev.TZ, lerr)
		}
		time.Local = loc // what a node started with TZ=<zone> has
		if ev.At > 0 {
			if dt := time.Unix(ev.At, 0).Sub(w.c.TS.BlockTime()); dt > 0 {
				if p, msg := w.c.NextBlock(dt); p {
					t.Fatalf("placing behaviour %d: %s", bi, msg)
				}
			}
		} else if ev.Kind != "" {
			if dt := untilTransition(w.c.TS.BlockTime(), loc, ev.Kind, ev.Lead); dt > 0 {
				if p, msg := w.c.NextBlock(dt); p {
					t.Fatalf("placing behaviour %d: %s", bi, msg)
				}
			}
		}
		ts := w.c.TS
		w.nDel++
		_, delegator := w.c.AddAccount(common.CONSUMER, w.nDel, balance)
		// relative clock of this behaviour: the spec starts at now = 1
		base := ts.BlockTime().UTC().Unix() - 1
		d0, mc0 := w.read(delegator, base)
		_ = enc.Encode(line{TZ: ev.TZ, Start: ts.BlockTime().UTC().Format(time.RFC3339), At: ts.BlockTime().Unix(), Ev: "reset", Beh: bi, OK: true, Now: ts.BlockTime().UTC().Unix() - base, D: d0, MC: mc0})
		for _, s := range beh {
			ln := line{Ev: s.Op, Beh: bi, Gap: s.Gap, Arg: s.Arg}
			if s.Gap > 0 {
				if p, msg := w.c.NextBlock(time.Duration(s.Gap) * time.Second); p {
					ln.Panic, ln.Err = true, "nextblock: "+msg
				}
			}
			ts = w.c.TS
			denom := ts.TokenDenom()
			cur, _ := w.read(delegator, base)
			var res chainx.TxResult
			switch s.Op {
			case "set":
				switch {
				case s.Arg > cur.A:
					amt := sdk.NewCoin(denom, sdk.NewInt(s.Arg-cur.A))
					res = w.c.Tx(func() error { _, e := ts.TxDualstakingDelegate(delegator, w.provider, amt); return e })
				case s.Arg < cur.A:
					amt := sdk.NewCoin(denom, sdk.NewInt(cur.A-s.Arg))
					res = w.c.Tx(func() error { _, e := ts.TxDualstakingUnbond(delegator, w.provider, amt); return e })
				default:
					res = chainx.TxResult{Err: "set to the current amount is not a change"}
				}
			case "touch":
				amt := sdk.NewCoin(denom, sdk.NewInt(s.Arg))
				res = w.c.Tx(func() error {
					_, e := ts.TxDualstakingRedelegate(delegator, w.provider, w.provider, amt)
					return e
				})
			case "eval":
				res = chainx.TxResult{OK: true}
			default:
				t.Fatalf("unknown op %q", s.Op)
			}
			if !ln.Panic {
				ln.OK, ln.Err, ln.Panic = res.OK, res.Err, res.Panic
				if res.Panic {
					ln.Err = res.PanicS
				}
			}
			if len(ln.Err) > 200 {
				ln.Err = ln.Err[:200]
			}
			ln.Now = ts.BlockTime().UTC().Unix() - base
			ln.D, ln.MC = w.read(delegator, base)
			if err := enc.Encode(ln); err != nil {
				t.Fatal(err)
			}
		}
	}
	fmt.Fprintf(os.Stderr, "credit driver: %d behaviours\n", len(behs))
}
