// Package pairing is the chain driver of the "pair" family (C01, C02, C40).
//
// Input  (VERIF_IN):  JSON array of pairing configurations emitted by TLC (specs/Pairing.tla, GenInit).
// Output (VERIF_OUT): NDJSON. Per configuration one "reset" line, then one "q" line per queried epoch
// (and, with VERIF_PAY=1, one "blk" line per block with a digest of all KV stores).
//
// Each configuration is built on a real testutil/common.Tester: an own spec (chain id), providers
// staked with endpoints / add-ons / extensions / geolocations, frozen / re-unfrozen / jailed entries,
// a plan policy, optional subscription and admin policies; the chain is advanced epoch by epoch and
// queried through the public queries GetPairing / VerifyPairing / EffectivePolicy.
// Nothing of the pairing algorithm is re-implemented here: the line carries the *inputs the code saw*
// (stake table of the epoch as the keeper returns it, effective policy as the query returns it, raw
// outputs of the public utils/rand PRNG for the epoch hash) and the *answers the code gave*.
package pairing

import (
	"encoding/json"
	"fmt"
	"os"
	"sort"
	"strconv"
	"strings"
	"testing"

	"cosmossdk.io/math"
	sdk "github.com/cosmos/cosmos-sdk/types"
	"github.com/lavanet/lava/v5/testutil/common"
	"github.com/lavanet/lava/v5/utils/rand"
	"github.com/lavanet/lava/v5/utils/sigs"
	epochstoragetypes "github.com/lavanet/lava/v5/x/epochstorage/types"
	pairingscores "github.com/lavanet/lava/v5/x/pairing/keeper/scores"
	pairingtypes "github.com/lavanet/lava/v5/x/pairing/types"
	planstypes "github.com/lavanet/lava/v5/x/plans/types"
	spectypes "github.com/lavanet/lava/v5/x/spec/types"

	"verif/harness/internal/chainx"
	"verif/harness/internal/hx"
)

// ---- input -------------------------------------------------------------------------------------

type Req struct {
	Ifc string   `json:"ifc"`
	Ad  string   `json:"ad"`
	Ext []string `json:"ext"`
	Mx  bool     `json:"mx"`
}

type Pol struct {
	On   bool  `json:"on"`
	Geo  []int `json:"geo"` // single-bit geolocations
	Max  int   `json:"max"`
	Mode int   `json:"mode"`
	Sel  []int `json:"sel"` // provider numbers (1-based)
	Reqs []Req `json:"reqs"`
}

type Prov struct {
	Stake int    `json:"stake"`
	Geo   []int  `json:"geo"`
	St    string `json:"st"` // ok | frozen | future | jailed
	Kx    int    `json:"kx"` // services on interface x: bit0 add-on a, bit1 extension e
	Ky    int    `json:"ky"`
}

type Cfg struct {
	Id    int    `json:"id"`
	Prov  []Prov `json:"prov"`
	Plan  Pol    `json:"plan"`
	Sub   Pol    `json:"sub"`
	Admin Pol    `json:"admin"`
}

// ---- output ------------------------------------------------------------------------------------

type EffOut struct {
	Err  bool  `json:"err"`
	Gl   bool  `json:"gl"`
	Geo  []int `json:"geo"`
	Max  int64 `json:"max"`
	Mode int   `json:"mode"`
	Sel  []int `json:"sel"`
	Reqs []Req `json:"reqs"`
}

type TabRow struct {
	P     int        `json:"p"`
	Stake int64      `json:"stake"`
	Geo   []int      `json:"geo"`
	Gl    bool       `json:"gl"`
	Ok    bool       `json:"ok"` // StakeAppliedBlock <= epoch
	Svc   [][]string `json:"svc"`
}

type QOut struct {
	Ev    string    `json:"ev"`
	Cfg   int       `json:"cfg"`
	K     int       `json:"k"`
	Mid   bool      `json:"mid"`
	Epoch int64     `json:"epoch"`
	H     int64     `json:"h"`
	Pol   []Pol     `json:"pol"`
	Eff   EffOut    `json:"eff"`
	Tab   []TabRow  `json:"tab"`
	Err   bool      `json:"err"`
	Errs  string    `json:"errs,omitempty"`
	List  []int     `json:"list"`
	Ver   []bool    `json:"ver"`
	Lists [][]int   `json:"lists"` // distinct GetPairing answers over the K repetitions
	Vers  [][]bool  `json:"vers"`  // distinct VerifyPairing answer vectors
	Effs  []string  `json:"effs"`  // distinct EffectivePolicy answers (canonical text)
	Rng   [][][]int `json:"rng"`   // [group][draw][limb] raw Int63 outputs of rand.New(hashData), base-128 limbs, most significant first
	Panic bool      `json:"panic"`
}

type BlkOut struct {
	Ev  string `json:"ev"`
	Cfg int    `json:"cfg"`
	H   int64  `json:"h"`
	Dig string `json:"dig"`
	Acc int    `json:"acc"` // relay payments accepted in this block
}

// ---- building ----------------------------------------------------------------------------------

const (
	nGroups = 4
	nDraws  = 6
	nLimbs  = 9
)

type built struct {
	cfg      Cfg
	chain    string
	spec     spectypes.Spec
	provs    []sigs.Account
	addrIdx  map[string]int
	consumer sigs.Account
	caddr    string
	project  string
	dead     string // set when the configuration could not be built
}

func geoMask(bits []int) int32 {
	var m int32
	for _, b := range bits {
		m |= int32(b)
	}
	return m
}

func geoBits(mask int32) (bits []int, gl bool) {
	if mask == int32(planstypes.Geolocation_GL) {
		gl = true
	}
	for _, g := range planstypes.GetGeolocationsFromUint(mask) {
		bits = append(bits, int(g))
	}
	if bits == nil {
		bits = []int{}
	}
	return bits, gl
}

func mkSpec(chain string) spectypes.Spec {
	spec := common.CreateMockSpec()
	spec.Index = chain
	spec.Name = chain
	spec.MinStakeProvider = sdk.NewCoin(spec.MinStakeProvider.Denom, sdk.NewInt(1)) // dust stakes are legal on this spec
	ext := []*spectypes.Extension{{Name: "e"}, {Name: "f"}}
	cols := []*spectypes.ApiCollection{}
	for _, ifc := range []string{"x", "y"} {
		for _, ad := range []string{"", "a", "b"} {
			cols = append(cols, &spectypes.ApiCollection{
				Enabled:        true,
				CollectionData: spectypes.CollectionData{ApiInterface: ifc, AddOn: ad},
				Extensions:     ext,
				Apis:           []*spectypes.Api{{Name: chain + ifc + ad + "API", ComputeUnits: 10, Enabled: true}},
			})
		}
	}
	spec.ApiCollections = cols
	return spec
}

func endpointsFor(p Prov) []epochstoragetypes.Endpoint {
	eps := []epochstoragetypes.Endpoint{}
	for _, g := range p.Geo {
		for _, ik := range []struct {
			ifc string
			k   int
		}{{"x", p.Kx}, {"y", p.Ky}} {
			ep := epochstoragetypes.Endpoint{
				IPPORT:        "1.1.1.1:" + strconv.Itoa(g) + ik.ifc,
				Geolocation:   int32(g),
				ApiInterfaces: []string{ik.ifc},
				Addons:        []string{},
				Extensions:    []string{},
			}
			if ik.k&1 != 0 {
				ep.Addons = append(ep.Addons, "a")
			}
			if ik.k&2 != 0 {
				ep.Extensions = append(ep.Extensions, "e")
			}
			if ik.k&4 != 0 {
				ep.Addons = append(ep.Addons, "b")
			}
			if ik.k&8 != 0 {
				ep.Extensions = append(ep.Extensions, "f")
			}
			eps = append(eps, ep)
		}
	}
	return eps
}

func (b *built) policy(p Pol, plan bool) planstypes.Policy {
	pol := planstypes.Policy{
		TotalCuLimit:          100000,
		EpochCuLimit:          10000,
		MaxProvidersToPair:    uint64(p.Max),
		GeolocationProfile:    geoMask(p.Geo),
		SelectedProvidersMode: planstypes.SELECTED_PROVIDERS_MODE(p.Mode),
	}
	for _, i := range p.Sel {
		pol.SelectedProviders = append(pol.SelectedProviders, b.provs[i-1].Addr.String())
	}
	if len(p.Reqs) > 0 {
		cp := planstypes.ChainPolicy{ChainId: b.chain}
		for _, r := range p.Reqs {
			ext := r.Ext
			if ext == nil {
				ext = []string{}
			}
			cp.Requirements = append(cp.Requirements, planstypes.ChainRequirement{
				Collection: spectypes.CollectionData{ApiInterface: r.Ifc, AddOn: r.Ad},
				Extensions: ext,
				Mixed:      r.Mx,
			})
		}
		pol.ChainPolicies = []planstypes.ChainPolicy{cp}
	}
	return pol
}

func build(c *chainx.Chain, cfg Cfg, acctBase int) *built {
	ts := c.TS
	b := &built{cfg: cfg, chain: "c" + strconv.Itoa(cfg.Id), addrIdx: map[string]int{}}
	b.spec = mkSpec(b.chain)
	ts.AddSpec(b.chain, b.spec)
	// providers
	for i, p := range cfg.Prov {
		acc, addr := c.AddAccount(common.PROVIDER, acctBase+i, 1000000)
		b.provs = append(b.provs, acc)
		b.addrIdx[addr] = i + 1
		d := common.MockDescription()
		var err error
		r := c.Tx(func() error {
			err = ts.StakeProviderExtra(acc.GetVaultAddr(), addr, b.spec, int64(p.Stake), endpointsFor(p), geoMask(p.Geo),
				d.Moniker, d.Identity, d.Website, d.SecurityContact, d.Details)
			return err
		})
		if !r.OK {
			b.dead = fmt.Sprintf("stake provider %d: %s %s", i+1, r.Err, r.PanicS)
			return b
		}
	}
	// plan + subscription
	plan := common.CreateMockPlan()
	plan.Index = "pl" + strconv.Itoa(cfg.Id)
	plan.PlanPolicy = b.policy(cfg.Plan, true)
	if err := ts.Keepers.Plans.AddPlan(ts.Ctx, plan, false); err != nil {
		b.dead = "add plan: " + err.Error()
		return b
	}
	b.consumer, b.caddr = c.AddAccount(common.CONSUMER, acctBase, 1000000)
	r := c.Tx(func() error {
		_, err := ts.TxSubscriptionBuy(b.caddr, b.caddr, plan.Index, 1, false, false)
		return err
	})
	if !r.OK {
		b.dead = "buy: " + r.Err + r.PanicS
		return b
	}
	proj, err := ts.Keepers.Projects.GetProjectForDeveloper(ts.Ctx, b.caddr, uint64(ts.Ctx.BlockHeight()))
	if err != nil {
		b.dead = "project: " + err.Error()
		return b
	}
	b.project = proj.Index
	if cfg.Sub.On {
		pol := b.policy(cfg.Sub, false)
		r := c.Tx(func() error {
			_, err := ts.TxProjectSetSubscriptionPolicy(b.project, b.caddr, &pol)
			return err
		})
		if !r.OK {
			b.dead = "sub policy: " + r.Err + r.PanicS
			return b
		}
	}
	if cfg.Admin.On {
		pol := b.policy(cfg.Admin, false)
		r := c.Tx(func() error {
			_, err := ts.TxProjectSetPolicy(b.project, b.caddr, &pol)
			return err
		})
		if !r.OK {
			b.dead = "admin policy: " + r.Err + r.PanicS
			return b
		}
	}
	return b
}

// statuses are applied in the last block before the first queried epoch
func (b *built) applyStatuses(c *chainx.Chain) {
	ts := c.TS
	if b.dead != "" {
		return
	}
	for i, p := range b.cfg.Prov {
		addr := b.provs[i].Addr.String()
		switch p.St {
		case "frozen", "future":
			r := c.Tx(func() error { _, err := ts.TxPairingFreezeProvider(addr, b.chain); return err })
			if !r.OK {
				b.dead = "freeze: " + r.Err + r.PanicS
				return
			}
			if p.St == "future" {
				// the public unfreeze path: StakeAppliedBlock = next epoch + 1
				r := c.Tx(func() error { _, err := ts.TxPairingUnfreezeProvider(addr, b.chain); return err })
				if !r.OK {
					b.dead = "unfreeze: " + r.Err + r.PanicS
					return
				}
			}
		case "jailed":
			// what punishUnresponsiveProvider writes for a soft jail: a future StakeAppliedBlock and a jail end time
			e, found := ts.Keepers.Epochstorage.GetStakeEntryCurrent(ts.Ctx, b.chain, addr)
			if !found {
				b.dead = "jail: entry not found"
				return
			}
			e.Jails = 1
			e.JailEndTime = ts.Ctx.BlockTime().UTC().Unix() + 3600
			e.StakeAppliedBlock = ts.GetNextEpoch() + 2*ts.EpochBlocks()
			ts.Keepers.Epochstorage.SetStakeEntryCurrent(ts.Ctx, e)
		}
	}
}

// ---- querying ----------------------------------------------------------------------------------

func (b *built) idxList(es []epochstoragetypes.StakeEntry) []int {
	res := []int{}
	for _, e := range es {
		res = append(res, b.addrIdx[e.Address])
	}
	return res
}

func effText(p *planstypes.Policy) string {
	if p == nil {
		return "nil"
	}
	return p.String()
}

func (b *built) effOut(p *planstypes.Policy) EffOut {
	o := EffOut{Geo: []int{}, Sel: []int{}, Reqs: []Req{}}
	if p == nil {
		o.Err = true
		return o
	}
	o.Geo, o.Gl = geoBits(p.GeolocationProfile)
	o.Max = chainx.ClampU(p.MaxProvidersToPair)
	o.Mode = int(p.SelectedProvidersMode)
	for _, a := range p.SelectedProviders {
		o.Sel = append(o.Sel, b.addrIdx[a])
	}
	sort.Ints(o.Sel)
	if len(p.ChainPolicies) > 0 {
		for _, r := range p.ChainPolicies[0].Requirements {
			ext := r.Extensions
			if ext == nil {
				ext = []string{}
			}
			o.Reqs = append(o.Reqs, Req{Ifc: r.Collection.ApiInterface, Ad: r.Collection.AddOn, Ext: ext, Mx: r.Mixed})
		}
	}
	return o
}

func limbs(v int64) []int {
	res := make([]int, nLimbs)
	u := uint64(v)
	for i := nLimbs - 1; i >= 0; i-- {
		res[i] = int(u & 127)
		u >>= 7
	}
	return res
}

func eqInts(a, b []int) bool {
	if len(a) != len(b) {
		return false
	}
	for i := range a {
		if a[i] != b[i] {
			return false
		}
	}
	return true
}

func eqBools(a, b []bool) bool {
	if len(a) != len(b) {
		return false
	}
	for i := range a {
		if a[i] != b[i] {
			return false
		}
	}
	return true
}

// query runs the three public queries K times on throw-away branches of the same context (so that the
// relay cache written by VerifyPairing never feeds a later call) and records the inputs the code saw.
func (b *built) query(c *chainx.Chain, k int, mid bool, K int) (q QOut) {
	ts := c.TS
	q = QOut{Ev: "q", Cfg: b.cfg.Id, K: k, Mid: mid, Pol: []Pol{b.cfg.Plan, b.cfg.Sub, b.cfg.Admin},
		List: []int{}, Ver: []bool{}, Lists: [][]int{}, Vers: [][]bool{}, Effs: []string{}, Tab: []TabRow{}, Rng: [][][]int{}}
	defer func() {
		if x := recover(); x != nil {
			q.Panic = true
			q.Errs = fmt.Sprint(x)
		}
	}()
	epoch := ts.EpochStart()
	q.Epoch = int64(epoch)
	q.H = ts.Ctx.BlockHeight()
	// inputs the code sees
	for _, e := range ts.Keepers.Epochstorage.GetAllStakeEntriesForEpochChainId(ts.Ctx, epoch, b.chain) {
		row := TabRow{P: b.addrIdx[e.Address], Stake: chainx.ClampInt(e.TotalStake()), Ok: e.StakeAppliedBlock <= epoch, Svc: [][]string{}}
		row.Geo, row.Gl = geoBits(e.Geolocation)
		for _, s := range e.GetSupportedServices() {
			row.Svc = append(row.Svc, []string{s.ApiInterface, s.Addon, s.Extension})
		}
		q.Tab = append(q.Tab, row)
	}
	hash := ts.Keepers.Epochstorage.GetEpochHash(ts.Ctx, epoch)
	for g := 0; g < nGroups; g++ {
		rng := rand.New(pairingscores.PrepareHashData(b.project, b.chain, hash, g))
		draws := [][]int{}
		for d := 0; d < nDraws; d++ {
			draws = append(draws, limbs(rng.Int63()))
		}
		q.Rng = append(q.Rng, draws)
	}
	for rep := 0; rep < K; rep++ {
		// EffectivePolicy
		cctx, _ := ts.Ctx.CacheContext()
		er, err := ts.Keepers.Pairing.EffectivePolicy(sdk.WrapSDKContext(cctx), &pairingtypes.QueryEffectivePolicyRequest{SpecID: b.chain, Consumer: b.caddr})
		var effp *planstypes.Policy
		if err == nil && er != nil {
			effp = er.Policy
		}
		if rep == 0 {
			q.Eff = b.effOut(effp)
		}
		// distinctness is judged on the logged projection (requirement order included, selected list as a set)
		ej, _ := json.Marshal(b.effOut(effp))
		found := false
		for _, s := range q.Effs {
			if s == string(ej) {
				found = true
			}
		}
		if !found {
			q.Effs = append(q.Effs, string(ej))
		}
		// GetPairing
		cctx, _ = ts.Ctx.CacheContext()
		pr, err := ts.Keepers.Pairing.GetPairing(sdk.WrapSDKContext(cctx), &pairingtypes.QueryGetPairingRequest{ChainID: b.chain, Client: b.caddr})
		list := []int{}
		if err != nil {
			if rep == 0 {
				q.Err = true
				q.Errs = err.Error()
				if len(q.Errs) > 200 {
					q.Errs = q.Errs[:200]
				}
			}
			list = []int{-1}
		} else {
			list = b.idxList(pr.Providers)
		}
		if rep == 0 && err == nil {
			q.List = list
		}
		found = false
		for _, l := range q.Lists {
			if eqInts(l, list) {
				found = true
			}
		}
		if !found {
			q.Lists = append(q.Lists, list)
		}
		// VerifyPairing for every provider of the configuration
		ver := []bool{}
		for i := range b.provs {
			cctx, _ = ts.Ctx.CacheContext()
			vr, err := ts.Keepers.Pairing.VerifyPairing(sdk.WrapSDKContext(cctx), &pairingtypes.QueryVerifyPairingRequest{
				ChainID: b.chain, Client: b.caddr, Provider: b.provs[i].Addr.String(), Block: epoch,
			})
			ver = append(ver, err == nil && vr != nil && vr.Valid)
		}
		if rep == 0 {
			q.Ver = ver
		}
		found = false
		for _, v := range q.Vers {
			if eqBools(v, ver) {
				found = true
			}
		}
		if !found {
			q.Vers = append(q.Vers, ver)
		}
	}
	return q
}

// pay submits one relay payment per provider (session = epoch) as production-like atomic txs; a
// payment is accepted iff the code finds the provider in the consumer's pairing, so the written state
// depends on the pairing computed inside the transaction.
func (b *built) pay(c *chainx.Chain) int {
	ts := c.TS
	acc := 0
	epoch := ts.EpochStart()
	for i := range b.provs {
		addr := b.provs[i].Addr.String()
		rs := &pairingtypes.RelaySession{
			Provider:    addr,
			ContentHash: []byte("h"),
			SessionId:   epoch,
			SpecId:      b.chain,
			CuSum:       10,
			Epoch:       int64(epoch),
			RelayNum:    1,
		}
		sig, err := sigs.Sign(b.consumer.SK, *rs)
		if err != nil {
			continue
		}
		rs.Sig = sig
		r := c.Tx(func() error { _, err := ts.TxPairingRelayPayment(addr, rs); return err })
		if r.OK {
			acc++
		}
	}
	return acc
}

func digest(m map[string]string) string {
	names := []string{}
	for n := range m {
		names = append(names, n)
	}
	sort.Strings(names)
	sb := strings.Builder{}
	for _, n := range names {
		sb.WriteString(n + "=" + m[n] + ";")
	}
	return sb.String()
}

// ---- driver ------------------------------------------------------------------------------------

func envInt(name string, def int) int {
	if s := os.Getenv(name); s != "" {
		if v, err := strconv.Atoi(s); err == nil {
			return v
		}
	}
	return def
}

func TestDrive(t *testing.T) {
	in, outp := os.Getenv("VERIF_IN"), os.Getenv("VERIF_OUT")
	if in == "" || outp == "" {
		t.Skip("VERIF_IN / VERIF_OUT not set")
	}
	var cfgs []Cfg
	hx.ReadJSON(in, &cfgs)
	out := hx.NewOut(outp)
	defer out.Close()
	seed := int64(envInt("VERIF_SEED", 1))
	K := envInt("VERIF_K", 1)
	batch := envInt("VERIF_BATCH", 25)
	epochs := envInt("VERIF_EPOCHS", 3)
	pay := envInt("VERIF_PAY", 0) == 1
	splitK := envInt("VERIF_SPLITK", 0) == 1 // one "q" line per repetition (reproduction runs)
	only := envInt("VERIF_ONLY", -1)          // reproduction: build the whole batch (same accounts, same hashes), query one configuration

	for start := 0; start < len(cfgs); start += batch {
		end := start + batch
		if end > len(cfgs) {
			end = len(cfgs)
		}
		if only >= 0 {
			has := false
			for i := start; i < end; i++ {
				has = has || cfgs[i].Id == only
			}
			if !has {
				continue
			}
		}
		c := chainx.New(t, seed)
		ts := c.TS
		// C40 needs scores that are tiny integers: allow stakes of a few ulava (the test default is 100)
		dsp := ts.Keepers.Dualstaking.GetParams(ts.Ctx)
		dsp.MinSelfDelegation.Amount = math.NewInt(1)
		ts.Keepers.Dualstaking.SetParams(ts.Ctx, dsp)
		vacc, _ := c.AddAccount(common.VALIDATOR, 0, 100000000)
		ts.TxCreateValidator(vacc, math.NewInt(10000000))
		bs := []*built{}
		for i := start; i < end; i++ {
			bs = append(bs, build(c, cfgs[i], (i-start)*10))
		}
		// move to the last block of the epoch, apply freeze / unfreeze / jail there
		for ts.BlockHeight()+1 < ts.GetNextEpoch() {
			c.NextBlock(0)
		}
		for _, b := range bs {
			b.applyStatuses(c)
		}
		if only >= 0 {
			for _, b := range bs {
				if b.cfg.Id != only && b.dead == "" {
					b.dead = "skipped"
				}
			}
		}
		for _, b := range bs {
			if b.dead != "skipped" {
				out.Emit(map[string]interface{}{"ev": "reset", "cfg": b.cfg.Id, "dead": b.dead})
			}
		}
		for k := 1; k <= epochs; k++ {
			if p, msg := c.NextEpoch(); p {
				t.Fatalf("panic while advancing epoch: %s", msg)
			}
			if ts.EpochStart() != ts.BlockHeight() {
				t.Fatalf("not at an epoch start: %d %d", ts.EpochStart(), ts.BlockHeight())
			}
			for _, b := range bs {
				if b.dead == "" {
					if splitK {
						for rep := 0; rep < K; rep++ {
							out.Emit(b.query(c, k, false, 1))
						}
					} else {
						out.Emit(b.query(c, k, false, K))
					}
				}
			}
			if pay {
				for _, b := range bs {
					if b.dead == "" {
						acc := b.pay(c)
						out.Emit(BlkOut{Ev: "blk", Cfg: b.cfg.Id, H: ts.Ctx.BlockHeight(), Dig: "", Acc: acc})
					}
				}
				c.NextBlock(0)
				out.Emit(BlkOut{Ev: "blk", Cfg: -1, H: ts.Ctx.BlockHeight(), Dig: digest(c.StoreHashes())})
			}
			// the same queries one block later (mid-epoch): same epoch, same answers expected by the spec
			if k == 1 {
				if !pay {
					c.NextBlock(0)
				}
				for _, b := range bs {
					if b.dead == "" {
						out.Emit(b.query(c, k, true, 1))
					}
				}
			}
		}
	}
}
