package hist

import (
	"encoding/json"
	"fmt"
	"os"
	"testing"
	"time"
)

func TestDbg(t *testing.T) {
	t0 := time.Now()
	w := setup(t, 1)
	fmt.Println("setup", time.Since(t0))
	raw, _ := os.ReadFile("/tmp/hist/txp.json")
	var behs [][]Step
	json.Unmarshal(raw, &behs)
	var tb, tt, tp time.Duration
	for _, s := range behs[0] {
		row := Row{}
		t1 := time.Now()
		if isBlockStep(s.A) {
			w.blockStep(s, &row)
			tb += time.Since(t1)
		} else {
			r := w.c.Tx(func() error { _, e := w.exec(s); return e })
			_ = r
			tt += time.Since(t1)
		}
		t1 = time.Now()
		w.project(&row)
		tp += time.Since(t1)
	}
	fmt.Println("blocks", tb, "txs", tt, "proj", tp)
}
