// Package rewardsplit instantiates every TLC-generated setup of specs/RewardSplit.tla (self credit, delegator
// credits, commission, number of contributors, contributor percentage) on a testutil/common.Tester and calls
// the real Keeper.RewardProvidersAndDelegators for every reward 0..MaxR (two denominations per call).  (C08)
// Credits are produced the way the chain produces them: 720 tokens delegated, delegation timestamp moved k hours
// into the past (Tester.ChangeDelegationTimestamp) => CalculateMonthlyCredit = k.  Logged per call: the real
// credits, the returned provider reward, the change of every DelegatorReward record and the bank balance
// changes of the sender module, the dualstaking module and the contributors.
package rewardsplit

import (
	"bufio"
	"encoding/json"
	"fmt"
	"os"
	"strconv"
	"testing"

	"cosmossdk.io/math"
	sdk "github.com/cosmos/cosmos-sdk/types"
	"github.com/lavanet/lava/v5/testutil/common"
	testkeeper "github.com/lavanet/lava/v5/testutil/keeper"
	"github.com/lavanet/lava/v5/utils/sigs"
	dualstakingtypes "github.com/lavanet/lava/v5/x/dualstaking/types"
	subscriptiontypes "github.com/lavanet/lava/v5/x/subscription/types"

	"verif/harness/internal/chainx"
)

type setup struct {
	S  int64   `json:"S"`
	D  []int64 `json:"D"`
	C  uint64  `json:"C"`
	N  int     `json:"N"`
	PP int64   `json:"PP"`
}

type line struct {
	Ev    string    `json:"ev"`
	Set   int       `json:"set"`
	R     []int64   `json:"R"`  // reward per denomination
	S     int64     `json:"S"`  // real credit of the self delegation
	D     []int64   `json:"D"`  // real credits of the delegators
	WantS int64     `json:"wantS"`
	WantD []int64   `json:"wantD"`
	C     int64     `json:"C"`
	N     int       `json:"N"`
	PP    int64     `json:"PP"`
	OK    bool      `json:"ok"`
	Err   string    `json:"err,omitempty"`
	Panic bool      `json:"panic"`
	Ret   []int64   `json:"ret"`    // returned provider reward
	Prov  []int64   `json:"prov"`   // change of the vault's DelegatorReward record
	Dels  [][]int64 `json:"dels"`   // per denomination: change of every delegator's record
	Con   [][]int64 `json:"con"`    // per denomination: balance change of every contributor
	Snd   []int64   `json:"sender"` // amount that left the sender module
	Mod   []int64   `json:"module"` // amount that entered the dualstaking module
}

const (
	unit        = int64(720) // delegated amount: credit = age in hours
	denomB      = "ibc/verif"
	setsPerChn  = 120
	bigBalance  = int64(1_000_000_000_000)
	senderModul = subscriptiontypes.ModuleName
)

type world struct {
	c     *chainx.Chain
	specs map[string]bool
	dels  []sigs.Account
	cons  []sigs.Account
	nProv int
}

func newWorld(t *testing.T, seed int64) *world {
	c := chainx.New(t, seed)
	ts := c.TS
	ts.AddPlan("mock", common.CreateMockPlan())
	val, _ := ts.AddAccount(common.VALIDATOR, 0, bigBalance)
	ts.TxCreateValidator(val, math.NewInt(100_000_000))
	w := &world{c: c, specs: map[string]bool{}}
	for i := 0; i < 3; i++ {
		a, _ := ts.AddAccount(common.CONSUMER, i, bigBalance)
		w.dels = append(w.dels, a)
	}
	for i := 0; i < 2; i++ {
		a, _ := ts.AddAccount("contributor_", i, 0)
		w.cons = append(w.cons, a)
	}
	ts.AdvanceEpoch()
	return w
}

func (w *world) specFor(n int, pp int64) string {
	name := fmt.Sprintf("S%d_%d", n, pp)
	if w.specs[name] {
		return name
	}
	sp := common.CreateMockSpec()
	sp.Index, sp.Name = name, name
	if n > 0 {
		for i := 0; i < n; i++ {
			sp.Contributor = append(sp.Contributor, w.cons[i].Addr.String())
		}
		if pp > 0 {
			pct := sdk.NewDecWithPrec(pp, 5) // pp / ContributorPrecision
			sp.ContributorPercentage = &pct
		}
	}
	w.c.TS.AddSpec(name, sp)
	w.specs[name] = true
	return name
}

func amt(c sdk.Coins, denom string) int64 { return chainx.ClampInt(c.AmountOf(denom)) }

func TestDrive(t *testing.T) {
	in, out := os.Getenv("VERIF_IN"), os.Getenv("VERIF_OUT")
	if in == "" || out == "" {
		t.Skip("VERIF_IN / VERIF_OUT not set")
	}
	seed, _ := strconv.ParseInt(os.Getenv("VERIF_SEED"), 10, 64)
	if seed == 0 {
		seed = 1
	}
	maxR, _ := strconv.ParseInt(os.Getenv("VERIF_MAXR"), 10, 64)
	if maxR == 0 {
		maxR = 60
	}
	raw, err := os.ReadFile(in)
	if err != nil {
		t.Fatal(err)
	}
	var sets []setup
	if err := json.Unmarshal(raw, &sets); err != nil {
		t.Fatal(err)
	}
	f, err := os.Create(out)
	if err != nil {
		t.Fatal(err)
	}
	defer f.Close()
	bw := bufio.NewWriter(f)
	defer bw.Flush()
	enc := json.NewEncoder(bw)

	var w *world
	for si, st := range sets {
		if w == nil || w.nProv >= setsPerChn {
			w = newWorld(t, seed+int64(si))
		}
		ts := w.c.TS
		k := ts.Keepers.Dualstaking
		bank := ts.Keepers.BankKeeper
		denomA := ts.TokenDenom()
		denoms := []string{denomA, denomB}
		specName := w.specFor(st.N, st.PP)
		w.nProv++
		pacc, provider := ts.AddAccount(common.PROVIDER, w.nProv, bigBalance)
		vault := pacc.GetVaultAddr()
		if err := ts.StakeProviderCommision(vault, provider, ts.Spec(specName), unit, st.C); err != nil {
			t.Fatalf("setup %d: stake: %v", si, err)
		}
		for i := range st.D {
			if _, err := ts.TxDualstakingDelegate(w.dels[i].Addr.String(), provider, sdk.NewCoin(denomA, sdk.NewInt(unit))); err != nil {
				t.Fatalf("setup %d: delegate: %v", si, err)
			}
		}
		now := ts.BlockTime().UTC().Unix()
		if err := ts.ChangeDelegationTimestamp(provider, vault, 0, now-st.S*3600); err != nil {
			t.Fatal(err)
		}
		for i, kk := range st.D {
			if err := ts.ChangeDelegationTimestamp(provider, w.dels[i].Addr.String(), 0, now-kk*3600); err != nil {
				t.Fatal(err)
			}
		}
		credit := func(delegator string) int64 {
			d, found := k.GetDelegation(ts.Ctx, provider, delegator)
			if !found {
				return -1
			}
			return chainx.ClampInt(k.CalculateMonthlyCredit(ts.Ctx, d).Amount)
		}
		record := func(delegator string) sdk.Coins {
			r, found := k.GetDelegatorReward(ts.Ctx, provider, delegator)
			if !found {
				return sdk.NewCoins()
			}
			return r.Amount
		}
		sndAddr := testkeeper.GetModuleAddress(senderModul)
		modAddr := testkeeper.GetModuleAddress(dualstakingtypes.ModuleName)
		for r := int64(0); r <= maxR; r++ {
			rb := (r * 7) % 17
			reward := sdk.NewCoins(sdk.NewCoin(denomA, sdk.NewInt(r)), sdk.NewCoin(denomB, sdk.NewInt(rb)))
			if err := bank.MintCoins(ts.Ctx, senderModul, reward); err != nil {
				t.Fatal(err)
			}
			ln := line{Ev: "split", Set: si, R: []int64{r, rb}, WantS: st.S, WantD: st.D, C: int64(st.C), N: st.N, PP: st.PP, D: []int64{}}
			ln.S = credit(vault)
			for i := range st.D {
				ln.D = append(ln.D, credit(w.dels[i].Addr.String()))
			}
			snd0, mod0 := bank.GetAllBalances(ts.Ctx, sndAddr), bank.GetAllBalances(ts.Ctx, modAddr)
			prov0 := record(vault)
			del0 := []sdk.Coins{}
			for i := range st.D {
				del0 = append(del0, record(w.dels[i].Addr.String()))
			}
			con0 := []sdk.Coins{}
			for i := 0; i < st.N; i++ {
				con0 = append(con0, bank.GetAllBalances(ts.Ctx, w.cons[i].Addr))
			}
			var ret sdk.Coins
			func() {
				defer func() {
					if x := recover(); x != nil {
						ln.Panic, ln.Err = true, fmt.Sprint(x)
					}
				}()
				var e error
				ret, e = k.RewardProvidersAndDelegators(ts.Ctx, provider, specName, reward, senderModul, false, false, false)
				if e != nil {
					ln.Err = e.Error()
				} else {
					ln.OK = true
				}
			}()
			if len(ln.Err) > 160 {
				ln.Err = ln.Err[:160]
			}
			snd1, mod1 := bank.GetAllBalances(ts.Ctx, sndAddr), bank.GetAllBalances(ts.Ctx, modAddr)
			prov1 := record(vault)
			for _, dn := range denoms {
				ln.Ret = append(ln.Ret, amt(ret, dn))
				ln.Prov = append(ln.Prov, amt(prov1, dn)-amt(prov0, dn))
				ln.Snd = append(ln.Snd, amt(snd0, dn)-amt(snd1, dn))
				ln.Mod = append(ln.Mod, amt(mod1, dn)-amt(mod0, dn))
				ds := []int64{}
				for i := range st.D {
					ds = append(ds, amt(record(w.dels[i].Addr.String()), dn)-amt(del0[i], dn))
				}
				ln.Dels = append(ln.Dels, ds)
				cs := []int64{}
				for i := 0; i < st.N; i++ {
					cs = append(cs, amt(bank.GetAllBalances(ts.Ctx, w.cons[i].Addr), dn)-amt(con0[i], dn))
				}
				ln.Con = append(ln.Con, cs)
			}
			if err := enc.Encode(ln); err != nil {
				t.Fatal(err)
			}
		}
	}
	fmt.Fprintf(os.Stderr, "rewardsplit driver: %d setups\n", len(sets))
}
