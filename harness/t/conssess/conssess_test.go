// Package conssess drives the real, unmodified lavasession.ConsumerSessionManager with G concurrent relay
// goroutines against in-process fake provider endpoints and records what each goroutine observes while it
// holds a session (DESIGN.md C28).  Events get a global sequence number under one mutex; a "got" event is
// logged after GetSessions returned and an "end" event before OnSession* is called, so the logged hold
// interval of a session is a subset of the real one.  At barrier points every relay goroutine is parked
// (idle, or holding its session) and the complete state is read back under the manager's own locks.
//
//	VERIF_IN  = json {"maxsess":N, "parallel":K, "behaviours":[{...}]}
//	VERIF_OUT = ndjson trace (behaviours concatenated, each starts with a "reset" event)
package conssess

import (
	"context"
	"encoding/json"
	"fmt"
	"math/rand"
	"net"
	"os"
	"reflect"
	"runtime"
	"sort"
	"strconv"
	"sync"
	"sync/atomic"
	"testing"
	"time"
	"unsafe"

	sdk "github.com/cosmos/cosmos-sdk/types"
	"github.com/lavanet/lava/v5/protocol/common"
	"github.com/lavanet/lava/v5/protocol/lavaprotocol"
	"github.com/lavanet/lava/v5/protocol/lavasession"
	"github.com/lavanet/lava/v5/protocol/provideroptimizer"
	"github.com/lavanet/lava/v5/utils"
	lavarand "github.com/lavanet/lava/v5/utils/rand"
	pairingtypes "github.com/lavanet/lava/v5/x/pairing/types"
	spectypes "github.com/lavanet/lava/v5/x/spec/types"
	"google.golang.org/grpc"
	"google.golang.org/grpc/connectivity"
	"google.golang.org/grpc/credentials"
)

// ---------------------------------------------------------------------------------------------- input
type Beh struct {
	ID      int      `json:"id"`
	Seed    int64    `json:"seed"`
	G       int      `json:"g"`       // relay goroutines
	NP      int      `json:"np"`      // providers p1..pNP
	MaxCU   uint64   `json:"maxcu"`   // MaxComputeUnits of every provider
	CUs     []uint64 `json:"cus"`     // CU values
	MaxVE   uint64   `json:"maxve"`   // virtual epochs 0..MaxVE (monotone per behaviour)
	Rounds  int      `json:"rounds"`  // ticket rounds (a barrier after each)
	Tickets int      `json:"tickets"` // max tickets per round
	Updates int      `json:"updates"` // UpdateAllProviders calls after the initial one
	PFail   int      `json:"pfail"`   // percent of relays that fail
	PBlock  int      `json:"pblock"`  // percent of failures with BlockProviderError
	PReport int      `json:"preport"` // percent of failures with ReportAndBlockProviderError
	PSync   int      `json:"psync"`   // percent of failures with SessionOutOfSyncError
	PInc    int      `json:"pinc"`    // percent of successes finished with OnSessionDoneIncreaseCUOnly
	PFresh  int      `json:"pfresh"`  // percent of calls that start a new UsedProviders
	Solo    int      `json:"solo"`    // percent of barriers followed by a solo (sequential) relay
	Ext     int      `json:"ext"`     // percent of calls that ask for addon "a1" (0 = base model only)
	Drop    []string `json:"drop"`    // providers missing from every second pairing list
	Tight   int      `json:"tight"`   // > 0: "tight budget" behaviour with that many rounds (see execTight)
	Snap    int      `json:"snap"`    // tight: complete-state barrier every Snap rounds (default 1)
}

type Input struct {
	MaxSess    int   `json:"maxsess"`
	Parallel   int   `json:"parallel"`
	Behaviours []Beh `json:"behaviours"`
}

// ---------------------------------------------------------------------------------------------- fake provider
type fakeProvider struct{ probes int64 }

func (f *fakeProvider) Probe(ctx context.Context, req *pairingtypes.ProbeRequest) (*pairingtypes.ProbeReply, error) {
	atomic.AddInt64(&f.probes, 1)
	return &pairingtypes.ProbeReply{Guid: req.GetGuid(), LatestBlock: 1, FinalizedBlocksHashes: []byte{}, LavaEpoch: 1, LavaLatestBlock: 1}, nil
}

func (f *fakeProvider) Relay(context.Context, *pairingtypes.RelayRequest) (*pairingtypes.RelayReply, error) {
	return nil, fmt.Errorf("not implemented")
}

func (f *fakeProvider) RelaySubscribe(*pairingtypes.RelayRequest, pairingtypes.Relayer_RelaySubscribeServer) error {
	return fmt.Errorf("not implemented")
}

var fake = &fakeProvider{}

func startFake(t *testing.T) string {
	lis, err := net.Listen("tcp", "127.0.0.1:0")
	if err != nil {
		t.Fatalf("listen: %v", err)
	}
	tlsConfig := lavasession.GetTlsConfig(lavasession.NetworkAddressData{})
	s := grpc.NewServer(grpc.Creds(credentials.NewTLS(tlsConfig)))
	pairingtypes.RegisterRelayerServer(s, fake)
	go func() { _ = s.Serve(lis) }()
	addr := lis.Addr().String()
	csp := &lavasession.ConsumerSessionsWithProvider{}
	for i := 0; ; i++ {
		ctx, cancel := context.WithTimeout(context.Background(), 5*time.Second)
		_, conn, err := csp.ConnectRawClientWithTimeout(ctx, addr)
		cancel()
		if err == nil {
			conn.Close()
			break
		}
		if i > 20 {
			t.Fatalf("fake provider does not come up: %v", err)
		}
	}
	return addr
}

// ---------------------------------------------------------------------------------------------- trace
type ev map[string]interface{}

type trace struct {
	mu  sync.Mutex
	seq int64
	evs []ev
}

func (tr *trace) log(e ev) int64 {
	tr.mu.Lock()
	tr.seq++
	e["seq"] = tr.seq
	tr.evs = append(tr.evs, e)
	s := tr.seq
	tr.mu.Unlock()
	return s
}

// logWith runs fill inside the logging mutex: whatever fill reads is ordered with respect to every other event
func (tr *trace) logWith(e ev, fill func(e ev)) int64 {
	tr.mu.Lock()
	fill(e)
	tr.seq++
	e["seq"] = tr.seq
	tr.evs = append(tr.evs, e)
	s := tr.seq
	tr.mu.Unlock()
	return s
}

func clamp(v uint64) uint64 {
	if v > 999999 {
		return 999999
	}
	return v
}

// ---------------------------------------------------------------------------------------------- unexported state
func fld(obj interface{}, name string) reflect.Value {
	f := reflect.ValueOf(obj).Elem().FieldByName(name)
	if !f.IsValid() {
		panic("lavasession field vanished: " + name)
	}
	return reflect.NewAt(f.Type(), unsafe.Pointer(f.UnsafeAddr())).Elem()
}

func strs(v reflect.Value) []string {
	out := []string{}
	for i := 0; i < v.Len(); i++ {
		out = append(out, v.Index(i).String())
	}
	return out
}

func keys(v reflect.Value) []string {
	out := []string{}
	for _, k := range v.MapKeys() {
		out = append(out, k.String())
	}
	sort.Strings(out)
	return out
}

// ---------------------------------------------------------------------------------------------- one behaviour
type run struct {
	b     Beh
	addr  string
	csm   *lavasession.ConsumerSessionManager
	tr    *trace
	objs  map[uint64]map[string]*lavasession.ConsumerSessionsWithProvider // epoch -> provider -> object
	objMu sync.Mutex

	sidMu sync.Mutex
	sids  map[*lavasession.SingleConsumerSession]int
	hold  map[*lavasession.SingleConsumerSession]int // holder relay (parked or running)

	// ticket / barrier machinery
	mu       sync.Mutex
	cond     *sync.Cond // relay goroutines wait here for tickets
	ccond    *sync.Cond // the coordinator waits here for goroutines to park (separate, or parked waiters wake each other forever)
	tickets  int
	parked   int
	stopped  bool
	veNow    uint64
	epochNow uint64
}

func (r *run) sid(s *lavasession.SingleConsumerSession) int {
	r.sidMu.Lock()
	defer r.sidMu.Unlock()
	id, ok := r.sids[s]
	if !ok {
		id = len(r.sids) + 1
		r.sids[s] = id
	}
	return id
}

func (r *run) setHold(s *lavasession.SingleConsumerSession, who int) {
	r.sidMu.Lock()
	if who == 0 {
		delete(r.hold, s)
	} else {
		r.hold[s] = who
	}
	r.sidMu.Unlock()
}

func provName(i int) string { return "p" + strconv.Itoa(i) }

func (r *run) pairingList(epoch uint64, drop map[string]bool) (map[uint64]*lavasession.ConsumerSessionsWithProvider, []string) {
	list := map[uint64]*lavasession.ConsumerSessionsWithProvider{}
	names := []string{}
	m := map[string]*lavasession.ConsumerSessionsWithProvider{}
	idx := uint64(0)
	for i := 1; i <= r.b.NP; i++ {
		name := provName(i)
		if drop[name] {
			continue
		}
		ep := &lavasession.Endpoint{NetworkAddress: r.addr, Enabled: true, Connections: []*lavasession.EndpointConnection{}}
		if r.b.Ext > 0 && i%2 == 1 { // odd providers support addon a1
			ep.Addons = map[string]struct{}{"a1": {}}
		}
		o := lavasession.NewConsumerSessionWithProvider(name, []*lavasession.Endpoint{ep}, r.b.MaxCU, epoch, sdk.NewInt64Coin("ulava", 10))
		list[idx] = o
		idx++
		m[name] = o
		names = append(names, name)
	}
	r.objMu.Lock()
	r.objs[epoch] = m
	r.objMu.Unlock()
	return list, names
}

// take one ticket or park until the coordinator refills; false = behaviour over
func (r *run) ticket() bool {
	r.mu.Lock()
	defer r.mu.Unlock()
	for r.tickets == 0 && !r.stopped {
		r.parked++
		r.ccond.Broadcast()
		r.cond.Wait()
		r.parked--
	}
	if r.stopped {
		return false
	}
	r.tickets--
	return true
}

func errClass(err error) string {
	switch {
	case err == nil:
		return ""
	case lavasession.PairingListEmptyError.Is(err):
		return "empty"
	case lavasession.SessionIsAlreadyBlockListedError.Is(err):
		return "sessblocklisted"
	case lavasession.LockMisUseDetectedError.Is(err):
		return "lockmisuse"
	case lavasession.NegativeComputeUnitsAmountError.Is(err):
		return "negativecu"
	case lavasession.EpochMismatchError.Is(err):
		return "epochmismatch"
	}
	return "other"
}

var failErr = map[string]error{
	"plain":  fmt.Errorf("some relay error"),
	"block":  lavasession.BlockProviderError,
	"report": lavasession.ReportAndBlockProviderError,
	"sync":   lavasession.SessionOutOfSyncError,
}

// one relay: call .. got .. (maybe parked while holding) .. end .. ret.  who = relay slot id.
func (r *run) relay(who int, rng *rand.Rand, up **lavasession.UsedProviders, gate func() bool) bool {
	b := r.b
	fresh := *up == nil || rng.Intn(100) < b.PFresh
	if fresh {
		*up = lavasession.NewUsedProviders(nil)
	}
	cu := b.CUs[rng.Intn(len(b.CUs))]
	r.mu.Lock()
	ve := r.veNow
	r.mu.Unlock()
	return r.relayWith(who, rng, *up, fresh, cu, ve, gate)
}

func (r *run) relayWith(who int, rng *rand.Rand, usedProv *lavasession.UsedProviders, fresh bool, cu, ve uint64, gate func() bool) bool {
	b := r.b
	up := &usedProv
	addon := ""
	if b.Ext > 0 && rng.Intn(100) < b.Ext {
		addon = "a1"
	}
	unw := (*up).AllUnwantedAddresses()
	sort.Strings(unw)
	r.tr.log(ev{"ev": "call", "r": who, "cu": cu, "ve": ve, "fresh": fresh, "unw": unw, "addon": addon})
	css, err := r.csm.GetSessions(context.Background(), 1, cu, *up, 10, addon, []*spectypes.Extension{}, common.NO_STATE, ve, "", "")
	if err != nil {
		r.tr.log(ev{"ev": "nogot", "r": who, "err": errClass(err)})
		return true
	}
	if len(css) != 1 {
		r.tr.log(ev{"ev": "nogot", "r": who, "err": "count" + strconv.Itoa(len(css))})
		return true
	}
	for prov, info := range css {
		s := info.Session
		r.setHold(s, who)
		// what the relay would sign (real request builder), read while we hold the session
		rsess := lavaprotocol.ConstructRelaySession("lava", &pairingtypes.RelayPrivateData{}, "spec", prov, s, int64(info.Epoch), info.ReportedProviders)
		rep := []string{}
		for _, rp := range info.ReportedProviders {
			rep = append(rep, rp.Address)
		}
		sort.Strings(rep)
		r.tr.logWith(ev{"ev": "got", "r": who, "p": prov, "pp": s.Parent.PublicLavaAddress, "e": info.Epoch, "pe": s.Parent.GetPairingEpoch(),
			"sid": r.sid(s), "rn": clamp(s.RelayNum), "cusum": clamp(s.CuSum), "lcu": clamp(s.LatestRelayCu), "bl": s.BlockListed,
			"scu": clamp(rsess.CuSum), "srn": clamp(rsess.RelayNum), "sprov": rsess.Provider, "sepoch": rsess.Epoch,
			"rep": rep, "max": clamp(s.Parent.MaxComputeUnits), "addon": addon},
			func(e ev) {
				s.Parent.Lock.RLock()
				e["used"] = clamp(s.Parent.UsedComputeUnits)
				s.Parent.Lock.RUnlock()
			})
		for i := rng.Intn(3); i > 0; i-- {
			runtime.Gosched()
		}
		if gate != nil && !gate() { // park while holding (barrier); false = behaviour is being torn down
			// still finish the relay so that the final barrier sees no session in flight
		}
		kind := "done"
		if rng.Intn(100) < b.PFail {
			x := rng.Intn(100)
			switch {
			case x < b.PBlock:
				kind = "block"
			case x < b.PBlock+b.PReport:
				kind = "report"
			case x < b.PBlock+b.PReport+b.PSync:
				kind = "sync"
			default:
				kind = "plain"
			}
		} else if rng.Intn(100) < b.PInc {
			kind = "doneinc"
		}
		r.tr.log(ev{"ev": "end", "r": who, "kind": kind})
		r.setHold(s, 0)
		var rerr error
		switch kind {
		case "done":
			rerr = r.csm.OnSessionDone(s, 10, cu, time.Millisecond, 2*time.Millisecond, 0, 1, uint64(b.NP), false, nil)
		case "doneinc":
			rerr = r.csm.OnSessionDoneIncreaseCUOnly(s, 10)
		default:
			rerr = r.csm.OnSessionFailure(s, failErr[kind])
		}
		r.tr.log(ev{"ev": "ret", "r": who, "err": errClass(rerr)})
	}
	return true
}

type sessSnap struct {
	Sid int    `json:"sid"`
	Cu  uint64 `json:"cu"`
	Rn  uint64 `json:"rn"`
	Lcu uint64 `json:"lcu"`
	Bl  bool   `json:"bl"`
	Lk  int    `json:"lk"`
}

// epHealthy: the provider object has an enabled endpoint with no refused connection attempts and an established,
// usable connection in state Ready - GetSessions can use it without dialing (so a connect timeout under machine load
// cannot be the reason for skipping this provider).  Caller holds o.Lock.
func epHealthy(o *lavasession.ConsumerSessionsWithProvider) bool {
	for _, ep := range o.Endpoints {
		mu := (*sync.RWMutex)(unsafe.Pointer(reflect.ValueOf(ep).Elem().FieldByName("mu").UnsafeAddr()))
		mu.RLock()
		ok := ep.Enabled && ep.ConnectionRefusals == 0
		good := false
		for _, c := range ep.Connections {
			conn, _ := fld(c, "connection").Interface().(*grpc.ClientConn)
			disc := fld(c, "disconnected").Bool()
			bl := fld(c, "blockListed").Addr().Interface().(*atomic.Bool).Load()
			if c.Client != nil && conn != nil && !disc && !bl && conn.GetState() == connectivity.Ready {
				good = true
			}
		}
		mu.RUnlock()
		if ok && good {
			return true
		}
	}
	return false
}

type objSnap struct {
	Epok  bool       `json:"epok"`
	P     string     `json:"p"`
	E     uint64     `json:"e"`
	Used  uint64     `json:"used"`
	Max   uint64     `json:"max"`
	Bstat uint32     `json:"bstat"`
	Sess  []sessSnap `json:"sess"`
}

// complete state, read under the manager's own locks; all relay goroutines are parked
func (r *run) snapshot(tag string) ev {
	csm := r.csm
	mu := (*sync.RWMutex)(unsafe.Pointer(reflect.ValueOf(csm).Elem().FieldByName("lock").UnsafeAddr()))
	mu.RLock()
	e := ev{"ev": "barrier", "tag": tag}
	e["valid"] = strs(fld(csm, "validAddresses"))
	sort.Strings(e["valid"].([]string))
	e["blocked"] = strs(fld(csm, "currentlyBlockedProviderAddresses"))
	e["epoch"] = atomic.LoadUint64((*uint64)(unsafe.Pointer(fld(csm, "currentEpoch").UnsafeAddr())))
	e["resets"] = atomic.LoadUint64((*uint64)(unsafe.Pointer(fld(csm, "numberOfResets").UnsafeAddr())))
	e["second"] = keys(fld(csm, "secondChanceGivenToAddresses"))
	e["prevb"] = keys(fld(csm, "previousEpochBlockedProviders"))
	e["pairing"] = keys(fld(csm, "pairing"))
	mu.RUnlock()
	rep := []string{}
	for _, rp := range csm.GetReportedProviders(e["epoch"].(uint64)) {
		rep = append(rep, rp.Address)
	}
	sort.Strings(rep)
	e["reported"] = rep
	objs := []objSnap{}
	r.objMu.Lock()
	epochs := []uint64{}
	for ep := range r.objs {
		epochs = append(epochs, ep)
	}
	sort.Slice(epochs, func(i, j int) bool { return epochs[i] < epochs[j] })
	for _, ep := range epochs {
		names := []string{}
		for n := range r.objs[ep] {
			names = append(names, n)
		}
		sort.Strings(names)
		for _, n := range names {
			o := r.objs[ep][n]
			o.Lock.RLock()
			os := objSnap{P: n, E: ep, Used: clamp(o.UsedComputeUnits), Max: clamp(o.MaxComputeUnits), Sess: []sessSnap{}, Epok: epHealthy(o)}
			os.Bstat = atomic.LoadUint32((*uint32)(unsafe.Pointer(fld(o, "blockedAndUsedWithChanceForRecoveryStatus").UnsafeAddr())))
			for _, s := range o.Sessions {
				r.sidMu.Lock()
				lk := r.hold[s]
				r.sidMu.Unlock()
				os.Sess = append(os.Sess, sessSnap{Sid: r.sid(s), Cu: clamp(s.CuSum), Rn: clamp(s.RelayNum), Lcu: clamp(s.LatestRelayCu), Bl: s.BlockListed, Lk: lk})
			}
			o.Lock.RUnlock()
			sort.Slice(os.Sess, func(i, j int) bool { return os.Sess[i].Sid < os.Sess[j].Sid })
			objs = append(objs, os)
		}
	}
	r.objMu.Unlock()
	e["objs"] = objs
	return e
}

func (r *run) waitParked(n int) {
	r.mu.Lock()
	for r.parked < n {
		r.ccond.Wait()
	}
	r.mu.Unlock()
}

func settle() {
	for i := 0; i < 20; i++ {
		runtime.Gosched()
	}
	time.Sleep(300 * time.Microsecond)
}

func execBeh(b Beh, addr string) []ev {
	if b.Tight > 0 {
		return execTight(b, addr)
	}
	rng := rand.New(rand.NewSource(b.Seed))
	opt := provideroptimizer.NewProviderOptimizer(provideroptimizer.StrategyBalanced, 0, 1, nil, "dontcare")
	opt.SetDeterministicSeed(b.Seed)
	r := &run{b: b, addr: addr, tr: &trace{}, objs: map[uint64]map[string]*lavasession.ConsumerSessionsWithProvider{},
		sids: map[*lavasession.SingleConsumerSession]int{}, hold: map[*lavasession.SingleConsumerSession]int{}}
	r.cond = sync.NewCond(&r.mu)
	r.ccond = sync.NewCond(&r.mu)
	r.csm = lavasession.NewConsumerSessionManager(&lavasession.RPCEndpoint{NetworkAddress: "stub", ChainID: "stub", ApiInterface: "stub", HealthCheckPath: "/"},
		opt, nil, "lava@test", lavasession.NewActiveSubscriptionProvidersStorage())
	list, names := r.pairingList(1, nil)
	r.epochNow = 1
	if err := r.csm.UpdateAllProviders(1, list, nil); err != nil {
		panic(err)
	}
	supp := []string{}
	if b.Ext > 0 {
		for i := 1; i <= b.NP; i += 2 {
			supp = append(supp, provName(i))
		}
	}
	r.tr.log(ev{"ev": "reset", "beh": b.ID, "provs": names, "supp": supp, "g": b.G, "maxcu": b.MaxCU, "np": b.NP, "seedv": b.Seed,
		"maxsess": lavasession.MaxSessionsAllowedPerProvider})

	var wg sync.WaitGroup
	for g := 1; g <= b.G; g++ {
		wg.Add(1)
		go func(who int) {
			defer wg.Done()
			grng := rand.New(rand.NewSource(b.Seed*1000 + int64(who)))
			var up *lavasession.UsedProviders
			for r.ticket() {
				r.relay(who, grng, &up, func() bool {
					// a relay in flight may be parked while it holds its session
					if grng.Intn(100) < 35 {
						return r.ticket()
					}
					return true
				})
			}
		}(g)
	}

	updLeft := b.Updates
	var updWG sync.WaitGroup
	drop := map[string]bool{}
	var soloUP *lavasession.UsedProviders
	for round := 0; round < b.Rounds; round++ {
		n := 3 + rng.Intn(b.Tickets)
		launchUpd := updLeft > 0 && rng.Intn(b.Rounds-round) < updLeft
		bumpVE := b.MaxVE > 0 && rng.Intn(3) == 0
		r.mu.Lock()
		r.tickets = n
		if bumpVE && r.veNow < b.MaxVE {
			r.veNow++
		}
		r.cond.Broadcast()
		r.mu.Unlock()
		if launchUpd {
			updLeft--
			// let a random part of the tickets be consumed first
			target := rng.Intn(n + 1)
			for i := 0; i < 2000; i++ {
				r.mu.Lock()
				t := r.tickets
				r.mu.Unlock()
				if t <= n-target {
					break
				}
				runtime.Gosched()
			}
			r.epochNow++
			ep := r.epochNow
			drop = map[string]bool{}
			if ep%2 == 0 {
				for _, d := range b.Drop {
					drop[d] = true
				}
			}
			list, names := r.pairingList(ep, drop)
			updWG.Add(1)
			go func() {
				defer updWG.Done()
				r.tr.log(ev{"ev": "updcall", "e": ep, "P": names})
				err := r.csm.UpdateAllProviders(ep, list, nil)
				r.tr.log(ev{"ev": "updret", "e": ep, "err": errClass(err)})
			}()
		}
		// all tickets consumed and every goroutine parked (idle or holding)
		for {
			r.waitParked(b.G)
			r.mu.Lock()
			ok := r.tickets == 0 && r.parked == b.G
			r.mu.Unlock()
			if ok {
				break
			}
			runtime.Gosched()
		}
		updWG.Wait() // UpdateAllProviders sleeps up to 500 ms after it released the lock
		settle()
		r.tr.log(r.snapshot("round"))
		if rng.Intn(100) < b.Solo {
			// sequential relay in the state produced by the concurrent history (others parked, some holding)
			who := b.G + 1
			var gateSnap = func() bool {
				settle()
				r.tr.log(r.snapshot("solo"))
				return true
			}
			if rng.Intn(2) == 0 {
				soloUP = nil
			}
			r.relay(who, rng, &soloUP, gateSnap)
			settle()
			r.tr.log(r.snapshot("aftersolo"))
		}
	}
	// tear down: let every relay in flight finish, then the final barrier
	r.mu.Lock()
	r.stopped = true
	r.cond.Broadcast()
	r.mu.Unlock()
	wg.Wait()
	settle()
	time.Sleep(2 * time.Millisecond)
	r.tr.log(r.snapshot("final"))
	return r.tr.evs
}

// execTight: the "tight budget" phase.  Every provider has MaxComputeUnits = the requested CU, round k runs in virtual
// epoch k, and every relay of a round is completed before the next one: at the start of a round each provider has room
// for exactly ONE more relay.  G goroutines are released together and call GetSessions for that CU; while they start,
// the endpoints' mutexes are held for a millisecond (what a slow dial does: the first relay waits for the endpoint
// while it holds the provider lock, the others queue on the provider), so that they reach the reservation together.
// The relays that got a session log "got" with the provider's used CU; then a barrier snapshot is taken with the
// sessions still in flight, and the relays are completed with OnSessionDone.
func execTight(b Beh, addr string) []ev {
	opt := provideroptimizer.NewProviderOptimizer(provideroptimizer.StrategyBalanced, 0, 1, nil, "dontcare")
	opt.SetDeterministicSeed(b.Seed)
	r := &run{b: b, addr: addr, tr: &trace{}, objs: map[uint64]map[string]*lavasession.ConsumerSessionsWithProvider{},
		sids: map[*lavasession.SingleConsumerSession]int{}, hold: map[*lavasession.SingleConsumerSession]int{}}
	r.cond = sync.NewCond(&r.mu)
	r.ccond = sync.NewCond(&r.mu)
	r.csm = lavasession.NewConsumerSessionManager(&lavasession.RPCEndpoint{NetworkAddress: "stub", ChainID: "stub", ApiInterface: "stub", HealthCheckPath: "/"},
		opt, nil, "lava@test", lavasession.NewActiveSubscriptionProvidersStorage())
	list, names := r.pairingList(1, nil)
	r.epochNow = 1
	if err := r.csm.UpdateAllProviders(1, list, nil); err != nil {
		panic(err)
	}
	r.tr.log(ev{"ev": "reset", "beh": b.ID, "provs": names, "supp": []string{}, "g": b.G, "maxcu": b.MaxCU, "np": b.NP, "seedv": b.Seed,
		"maxsess": lavasession.MaxSessionsAllowedPerProvider, "tight": b.Tight})
	var epMus []*sync.RWMutex
	for _, o := range list {
		for _, ep := range o.Endpoints {
			epMus = append(epMus, (*sync.RWMutex)(unsafe.Pointer(reflect.ValueOf(ep).Elem().FieldByName("mu").UnsafeAddr())))
		}
	}
	cu := b.CUs[0]
	snap := b.Snap
	if snap <= 0 {
		snap = 1
	}
	ids := make([]int, b.G)
	for i := range ids {
		ids[i] = i + 1
	}
	type held struct {
		who int
		s   *lavasession.SingleConsumerSession
	}
	for round := 0; round < b.Tight; round++ {
		ve := uint64(round)
		r.tr.log(ev{"ev": "callN", "rs": ids, "cu": cu, "ve": ve, "fresh": true, "unw": []string{}, "addon": ""})
		var start int32
		var wg sync.WaitGroup
		var hmu sync.Mutex
		got := []held{}
		failed := []int{}
		for _, who := range ids {
			wg.Add(1)
			go func(who int) {
				defer wg.Done()
				for atomic.LoadInt32(&start) == 0 {
				}
				css, err := r.csm.GetSessions(context.Background(), 1, cu, lavasession.NewUsedProviders(nil), 10, "", []*spectypes.Extension{}, common.NO_STATE, ve, "", "")
				if err != nil || len(css) != 1 {
					hmu.Lock()
					failed = append(failed, who)
					hmu.Unlock()
					return
				}
				for prov, info := range css {
					s := info.Session
					r.setHold(s, who)
					rsess := lavaprotocol.ConstructRelaySession("lava", &pairingtypes.RelayPrivateData{}, "spec", prov, s, int64(info.Epoch), info.ReportedProviders)
					r.tr.logWith(ev{"ev": "got", "r": who, "p": prov, "pp": s.Parent.PublicLavaAddress, "e": info.Epoch, "pe": s.Parent.GetPairingEpoch(),
						"sid": r.sid(s), "rn": clamp(s.RelayNum), "cusum": clamp(s.CuSum), "lcu": clamp(s.LatestRelayCu), "bl": s.BlockListed,
						"scu": clamp(rsess.CuSum), "srn": clamp(rsess.RelayNum), "sprov": rsess.Provider, "sepoch": rsess.Epoch,
						"rep": []string{}, "max": clamp(s.Parent.MaxComputeUnits), "addon": ""},
						func(e ev) {
							s.Parent.Lock.RLock()
							e["used"] = clamp(s.Parent.UsedComputeUnits)
							s.Parent.Lock.RUnlock()
						})
					hmu.Lock()
					got = append(got, held{who, s})
					hmu.Unlock()
				}
			}(who)
		}
		for _, m := range epMus {
			m.Lock()
		}
		atomic.StoreInt32(&start, 1)
		time.Sleep(time.Millisecond)
		for _, m := range epMus {
			m.Unlock()
		}
		wg.Wait()
		sort.Ints(failed)
		r.tr.log(ev{"ev": "nogotN", "rs": failed})
		if round%snap == 0 || round == b.Tight-1 {
			r.tr.log(r.snapshot("tight"))
		}
		sort.Slice(got, func(i, j int) bool { return got[i].who < got[j].who })
		for _, h := range got {
			r.tr.log(ev{"ev": "end", "r": h.who, "kind": "done"})
			r.setHold(h.s, 0)
			rerr := r.csm.OnSessionDone(h.s, 10, cu, time.Millisecond, 2*time.Millisecond, 0, 1, uint64(b.NP), false, nil)
			r.tr.log(ev{"ev": "ret", "r": h.who, "err": errClass(rerr)})
		}
	}
	settle()
	r.tr.log(r.snapshot("final"))
	return r.tr.evs
}

func TestDrive(t *testing.T) {
	in := os.Getenv("VERIF_IN")
	out := os.Getenv("VERIF_OUT")
	if in == "" || out == "" {
		t.Skip("VERIF_IN / VERIF_OUT not set")
	}
	raw, err := os.ReadFile(in)
	if err != nil {
		t.Fatal(err)
	}
	var input Input
	if err := json.Unmarshal(raw, &input); err != nil {
		t.Fatal(err)
	}
	utils.SetGlobalLoggingLevel("fatal")
	lavarand.InitRandomSeed()
	lavasession.AllowInsecureConnectionToProviders = true
	if input.MaxSess > 0 {
		lavasession.MaxSessionsAllowedPerProvider = input.MaxSess
	}
	addr := startFake(t)
	par := input.Parallel
	if par <= 0 {
		par = 1
	}
	results := make([][]ev, len(input.Behaviours))
	sem := make(chan struct{}, par)
	var wg sync.WaitGroup
	for i := range input.Behaviours {
		wg.Add(1)
		sem <- struct{}{}
		go func(i int) {
			defer wg.Done()
			defer func() { <-sem }()
			results[i] = execBeh(input.Behaviours[i], addr)
		}(i)
	}
	wg.Wait()
	f, err := os.Create(out)
	if err != nil {
		t.Fatal(err)
	}
	enc := json.NewEncoder(f)
	n := 0
	for _, evs := range results {
		for _, e := range evs {
			if err := enc.Encode(e); err != nil {
				t.Fatal(err)
			}
			n++
		}
	}
	f.Close()
	t.Logf("behaviours=%d events=%d probes=%d", len(results), n, atomic.LoadInt64(&fake.probes))
}
