// Package dualstaking replays TLC-generated histories of specs/Dualstaking.tla into the real pairing /
// dualstaking / epochstorage / staking keepers through their message servers (C07, C06).  After every
// operation the projected state is logged: current stake entries, provider metadata, provider
// delegations (incl. the empty provider), validator delegations (tokens from shares, rounded up as
// VerifyDelegatorBalance does) and the keeper's own VerifyDelegatorBalance difference.
package dualstaking

import (
	"bufio"
	"encoding/json"
	"fmt"
	"os"
	"sort"
	"strconv"
	"testing"
	"time"

	"cosmossdk.io/math"
	sdk "github.com/cosmos/cosmos-sdk/types"
	stakingtypes "github.com/cosmos/cosmos-sdk/x/staking/types"
	"github.com/lavanet/lava/v5/testutil/common"
	commontypes "github.com/lavanet/lava/v5/utils/common/types"
	"github.com/lavanet/lava/v5/utils/sigs"
	dualstakingante "github.com/lavanet/lava/v5/x/dualstaking/ante"
	dualstakingtypes "github.com/lavanet/lava/v5/x/dualstaking/types"
	epochstoragetypes "github.com/lavanet/lava/v5/x/epochstorage/types"
	pairingtypes "github.com/lavanet/lava/v5/x/pairing/types"
	planstypes "github.com/lavanet/lava/v5/x/plans/types"
	spectypes "github.com/lavanet/lava/v5/x/spec/types"

	"verif/harness/internal/chainx"
)

type step struct {
	Op   string `json:"op"`
	P    string `json:"p"`
	P2   string `json:"p2"`
	C    string `json:"c"`
	C2   string `json:"c2"`
	W    string `json:"w"`
	V    string `json:"v"`
	V2   string `json:"v2"`
	Amt  int64  `json:"amt"`
	Frac int64  `json:"frac"`
}

type entry struct {
	On     bool  `json:"on"`
	Stake  int64 `json:"stake"`
	Dt     int64 `json:"dt"`
	Frozen bool  `json:"frozen"`
}

type meta struct {
	On     bool     `json:"on"`
	Chains []string `json:"chains"`
	Total  int64    `json:"total"`
	Moved  bool     `json:"moved"` // a MoveProviderStake in the last 24 h (rate limit active)
}

type line struct {
	Ev    string                      `json:"ev"`
	Beh   int                         `json:"beh"`
	A     step                        `json:"a"`
	OK    bool                        `json:"ok"`
	Err   string                      `json:"err,omitempty"`
	Panic bool                        `json:"panic"`
	E     map[string]map[string]entry `json:"e"`
	M     map[string]meta             `json:"m"`
	Dg    map[string]map[string]int64 `json:"dg"`
	Vd    map[string]map[string]int64 `json:"vd"`
	Diff  map[string]int64            `json:"diff"` // Keeper.VerifyDelegatorBalance (validators - providers)
	Flag  bool                        `json:"flag"` // redelegation hook-disable flag as left by the tx
}

var (
	provNames  = []string{"p1", "p2"}
	chainNames = []string{"c1", "c2", "c3"}
	delNames   = []string{"d1", "d2"}
	valNames   = []string{"va", "vb"}
)

const balance = int64(1_000_000_000_000)

type world struct {
	c     *chainx.Chain
	specs map[string]spectypes.Spec
	acc   map[string]sigs.Account // p1,p2 (provider address), v1,v2 (vaults), d1,d2, va,vb
}

func vaultOf(p string) string { return "v" + p[1:] }

// minSpec: spec.MinStakeProvider per chain (default: the mock spec's 1000); set from the input so that it agrees
// with MinSpec / MinSpecHigh / HighChains of the TLA+ configuration
var minSpec = map[string]int64{}

func newWorld(t *testing.T, seed int64) *world {
	c := chainx.New(t, seed)
	ts := c.TS
	w := &world{c: c, specs: map[string]spectypes.Spec{}, acc: map[string]sigs.Account{}}
	for _, cn := range chainNames {
		sp := common.CreateMockSpec()
		sp.Index = cn
		sp.Name = cn
		if v, ok := minSpec[cn]; ok {
			sp.MinStakeProvider = sdk.NewCoin(sp.MinStakeProvider.Denom, sdk.NewInt(v))
		}
		w.specs[cn] = ts.AddSpec(cn, sp).Spec(cn)
	}
	ts.AddPlan("mock", common.CreateMockPlan())
	ts.AdvanceEpoch()
	for i, vn := range valNames {
		a, _ := c.AddAccount(common.VALIDATOR, i, balance)
		ts.TxCreateValidator(a, math.NewInt(100_000_000))
		w.acc[vn] = a
	}
	// provider accounts ordered by address so that "p1" sorts first wherever the code iterates
	var pas []sigs.Account
	for i := range provNames {
		a, _ := c.AddAccount(common.PROVIDER, i, balance)
		pas = append(pas, a)
	}
	sort.Slice(pas, func(i, j int) bool { return pas[i].Addr.String() < pas[j].Addr.String() })
	for i, pn := range provNames {
		w.acc[pn] = pas[i]
		w.acc[vaultOf(pn)] = *pas[i].Vault
	}
	for i, dn := range delNames {
		a, _ := c.AddAccount(common.CONSUMER, i, balance)
		w.acc[dn] = a
	}
	ts.AdvanceEpoch()
	return w
}

func (w *world) addr(n string) string {
	if n == "empty" {
		return commontypes.EMPTY_PROVIDER
	}
	return w.acc[n].Addr.String()
}

func (w *world) valAddr(n string) sdk.ValAddress { return sdk.ValAddress(w.acc[n].Addr) }

func (w *world) project(ln *line) {
	ts := w.c.TS
	es, ds := ts.Keepers.Epochstorage, ts.Keepers.Dualstaking
	ln.E = map[string]map[string]entry{}
	ln.M = map[string]meta{}
	ln.Dg = map[string]map[string]int64{}
	ln.Vd = map[string]map[string]int64{}
	ln.Diff = map[string]int64{}
	rev := map[string]string{}
	for _, cn := range chainNames {
		rev[cn] = cn
	}
	whos := []string{}
	for _, pn := range provNames {
		whos = append(whos, vaultOf(pn))
	}
	whos = append(whos, delNames...)
	for _, pn := range provNames {
		ln.E[pn] = map[string]entry{}
		for _, cn := range chainNames {
			se, found := es.GetStakeEntryCurrent(ts.Ctx, cn, w.addr(pn))
			en := entry{}
			if found {
				en = entry{On: true, Stake: chainx.ClampInt(se.Stake.Amount), Dt: chainx.ClampInt(se.DelegateTotal.Amount), Frozen: se.IsFrozen()}
			}
			ln.E[pn][cn] = en
		}
		md, err := es.GetMetadata(ts.Ctx, w.addr(pn))
		mm := meta{Chains: []string{}}
		if err == nil {
			mm.On = true
			mm.Chains = append(mm.Chains, md.Chains...)
			mm.Total = chainx.ClampInt(md.TotalDelegations.Amount)
			mm.Moved = ts.Ctx.BlockTime().UTC().Unix()-int64(md.LastStakeMove) < 24*3600
		}
		ln.M[pn] = mm
	}
	for _, q := range append(append([]string{}, provNames...), "empty") {
		ln.Dg[q] = map[string]int64{}
		for _, wn := range whos {
			d, found := ds.GetDelegation(ts.Ctx, w.addr(q), w.addr(wn))
			if found {
				ln.Dg[q][wn] = chainx.ClampInt(d.Amount.Amount)
			} else {
				ln.Dg[q][wn] = 0
			}
		}
	}
	for _, wn := range whos {
		ln.Vd[wn] = map[string]int64{}
		for _, vn := range valNames {
			ln.Vd[wn][vn] = 0
			d, found := ts.Keepers.StakingKeeper.GetDelegation(ts.Ctx, w.acc[wn].Addr, w.valAddr(vn))
			if found {
				v, ok := ts.Keepers.StakingKeeper.GetValidator(ts.Ctx, w.valAddr(vn))
				if ok {
					ln.Vd[wn][vn] = chainx.ClampInt(v.TokensFromSharesRoundUp(d.Shares).Ceil().TruncateInt())
				}
			}
		}
		diff, _, err := ds.VerifyDelegatorBalance(ts.Ctx, w.acc[wn].Addr)
		if err == nil {
			ln.Diff[wn] = chainx.ClampInt(diff)
		} else {
			ln.Diff[wn] = -999999
		}
	}
	ln.Flag = ds.GetDisableDualstakingHook(ts.Ctx)
}

func (w *world) endpoints(cn string) []epochstoragetypes.Endpoint {
	ifaces := []string{}
	for _, ac := range w.specs[cn].ApiCollections {
		ifaces = append(ifaces, ac.CollectionData.ApiInterface)
	}
	eps := []epochstoragetypes.Endpoint{}
	for _, geo := range planstypes.GetGeolocationsFromUint(1) {
		eps = append(eps, epochstoragetypes.Endpoint{IPPORT: "123", ApiInterfaces: ifaces, Geolocation: int32(geo)})
	}
	return eps
}

// tx runs one transaction the way the chain does: ante flag first, then the message on a cached context.
func (w *world) tx(msg sdk.Msg, f func() error) chainx.TxResult {
	ts := w.c.TS
	// baseapp: ValidateBasic first, then the ante handlers, then the message
	if vb, ok := msg.(interface{ ValidateBasic() error }); ok {
		if err := vb.ValidateBasic(); err != nil {
			return chainx.TxResult{Err: "validate-basic: " + err.Error()}
		}
	}
	rf := dualstakingante.NewRedelegationFlager(ts.Keepers.Dualstaking)
	if err := rf.DisableRedelegationHooks(ts.Ctx, []sdk.Msg{msg}); err != nil {
		return chainx.TxResult{Err: err.Error()}
	}
	return w.c.Tx(f)
}

func (w *world) apply(s step) chainx.TxResult {
	ts := w.c.TS
	denom := ts.TokenDenom()
	coin := sdk.NewCoin(denom, sdk.NewInt(s.Amt))
	switch s.Op {
	case "stake":
		msg := &pairingtypes.MsgStakeProvider{
			Creator: w.addr(vaultOf(s.P)), Validator: w.valAddr(s.V).String(), ChainID: s.C, Amount: coin,
			Geolocation: 1, Endpoints: w.endpoints(s.C), DelegateLimit: sdk.NewCoin(denom, sdk.ZeroInt()),
			DelegateCommission: 50, Address: w.addr(s.P), Description: common.MockDescription(),
		}
		return w.tx(msg, func() error { _, e := ts.Servers.PairingServer.StakeProvider(ts.GoCtx, msg); return e })
	case "move":
		msg := &pairingtypes.MsgMoveProviderStake{Creator: w.addr(s.P), SrcChain: s.C, DstChain: s.C2, Amount: coin}
		return w.tx(msg, func() error { _, e := ts.Servers.PairingServer.MoveProviderStake(ts.GoCtx, msg); return e })
	case "unstakeV", "unstakeP":
		creator := w.addr(s.P)
		if s.Op == "unstakeV" {
			creator = w.addr(vaultOf(s.P))
		}
		msg := &pairingtypes.MsgUnstakeProvider{Creator: creator, Validator: w.valAddr(s.V).String(), ChainID: s.C}
		return w.tx(msg, func() error { _, e := ts.Servers.PairingServer.UnstakeProvider(ts.GoCtx, msg); return e })
	case "dsdelegate":
		msg := &dualstakingtypes.MsgDelegate{Creator: w.addr(s.W), Validator: w.valAddr(s.V).String(), Provider: w.addr(s.P), ChainID: "x", Amount: coin}
		return w.tx(msg, func() error { _, e := ts.Servers.DualstakingServer.Delegate(ts.GoCtx, msg); return e })
	case "dsunbond":
		msg := &dualstakingtypes.MsgUnbond{Creator: w.addr(s.W), Validator: w.valAddr(s.V).String(), Provider: w.addr(s.P), ChainID: "x", Amount: coin}
		return w.tx(msg, func() error { _, e := ts.Servers.DualstakingServer.Unbond(ts.GoCtx, msg); return e })
	case "dsredelegate":
		msg := &dualstakingtypes.MsgRedelegate{Creator: w.addr(s.W), FromProvider: w.addr(s.P), ToProvider: w.addr(s.P2), FromChainID: "x", ToChainID: "x", Amount: coin}
		return w.tx(msg, func() error { _, e := ts.Servers.DualstakingServer.Redelegate(ts.GoCtx, msg); return e })
	case "valdelegate":
		msg := stakingtypes.NewMsgDelegate(w.acc[s.W].Addr, w.valAddr(s.V), coin)
		return w.tx(msg, func() error { _, e := ts.Servers.StakingServer.Delegate(ts.GoCtx, msg); return e })
	case "valundelegate":
		msg := stakingtypes.NewMsgUndelegate(w.acc[s.W].Addr, w.valAddr(s.V), coin)
		return w.tx(msg, func() error { _, e := ts.Servers.StakingServer.Undelegate(ts.GoCtx, msg); return e })
	case "valredelegate":
		msg := stakingtypes.NewMsgBeginRedelegate(w.acc[s.W].Addr, w.valAddr(s.V), w.valAddr(s.V2), coin)
		return w.tx(msg, func() error { _, e := ts.Servers.StakingServer.BeginRedelegate(ts.GoCtx, msg); return e })
	case "cancelunbond":
		// the generator cannot know which unbonding entries exist: ask the chain (prefer validator s.V) and
		// cancel min(amount, entry balance) of the first entry found
		height := int64(-1)
		vname := s.V
		for _, vn := range append([]string{s.V}, valNames...) {
			ubd, found := ts.Keepers.StakingKeeper.GetUnbondingDelegation(ts.Ctx, w.acc[s.W].Addr, w.valAddr(vn))
			if !found {
				continue
			}
			for _, en := range ubd.Entries {
				if en.Balance.IsPositive() {
					height, vname = en.CreationHeight, vn
					if en.Balance.LT(coin.Amount) {
						coin = sdk.NewCoin(denom, en.Balance)
					}
					break
				}
			}
			if height >= 0 {
				break
			}
		}
		if height < 0 {
			return chainx.TxResult{Err: "no unbonding entry"}
		}
		msg := stakingtypes.NewMsgCancelUnbondingDelegation(w.acc[s.W].Addr, w.valAddr(vname), height, coin)
		return w.tx(msg, func() error { _, e := ts.Servers.StakingServer.CancelUnbondingDelegation(ts.GoCtx, msg); return e })
	case "slash":
		// evidence handling in begin-block: slash, then dualstaking's BeginBlock re-balances the delegators
		res := chainx.TxResult{}
		func() {
			defer func() {
				if x := recover(); x != nil {
					res.Panic, res.PanicS = true, fmt.Sprint(x)
				}
			}()
			v := ts.GetValidator(w.acc[s.V].Addr)
			power := v.GetConsensusPower(ts.Keepers.StakingKeeper.PowerReduction(ts.Ctx))
			ts.SlashValidator(w.acc[s.V], sdk.NewDecWithPrec(1, 0).QuoInt64(s.Frac), power, ts.Ctx.BlockHeight())
			res.OK = true
		}()
		return res
	case "nextday":
		p, msg := w.c.NextBlock(24*time.Hour + time.Second)
		return chainx.TxResult{OK: !p, Panic: p, PanicS: msg}
	}
	return chainx.TxResult{Err: "unknown op " + s.Op}
}

func TestDrive(t *testing.T) {
	in, out := os.Getenv("VERIF_IN"), os.Getenv("VERIF_OUT")
	if in == "" || out == "" {
		t.Skip("VERIF_IN / VERIF_OUT not set")
	}
	seed, _ := strconv.ParseInt(os.Getenv("VERIF_SEED"), 10, 64)
	if seed == 0 {
		seed = 1
	}
	raw, err := os.ReadFile(in)
	if err != nil {
		t.Fatal(err)
	}
	// input: {"behs": [[step...]...], "seeds": [world seed per behaviour]} (or a bare list of behaviours)
	var behs [][]step
	var wseeds []int64
	var obj struct {
		Behs    [][]step         `json:"behs"`
		Seeds   []int64          `json:"seeds"`
		MinSpec map[string]int64 `json:"minspec"`
	}
	if err := json.Unmarshal(raw, &obj); err == nil && obj.Behs != nil {
		behs, wseeds = obj.Behs, obj.Seeds
		if obj.MinSpec != nil {
			minSpec = obj.MinSpec
		}
	} else if err := json.Unmarshal(raw, &behs); err != nil {
		t.Fatal(err)
	}
	f, err := os.Create(out)
	if err != nil {
		t.Fatal(err)
	}
	defer f.Close()
	bw := bufio.NewWriter(f)
	defer bw.Flush()
	enc := json.NewEncoder(bw)
	for bi, beh := range behs {
		ws := seed + int64(bi)
		if bi < len(wseeds) {
			ws = wseeds[bi] // accounts (hence every address order inside the keepers) depend only on this
		}
		w := newWorld(t, ws)
		ln := line{Ev: "reset", Beh: bi, OK: true}
		w.project(&ln)
		_ = enc.Encode(ln)
		for _, s := range beh {
			ln := line{Ev: s.Op, Beh: bi, A: s}
			res := w.apply(s)
			ln.OK, ln.Err, ln.Panic = res.OK, res.Err, res.Panic
			if res.Panic {
				ln.Err = res.PanicS
			}
			if len(ln.Err) > 160 {
				ln.Err = ln.Err[:160]
			}
			if s.Op != "nextday" {
				// the block ends: end-blockers / begin-blockers run (validator set updates, HandleSlashedValidators)
				if p, msg := w.c.NextBlock(0); p {
					ln.Panic, ln.Err = true, "nextblock: "+msg
				}
			}
			w.project(&ln)
			if err := enc.Encode(ln); err != nil {
				t.Fatal(err)
			}
		}
	}
	fmt.Fprintf(os.Stderr, "dualstaking driver: %d behaviours\n", len(behs))
}
