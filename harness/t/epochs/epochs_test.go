// Package epochs replays Epochs.tla behaviours (parameter-change proposals for epochstorage
// EpochBlocks / EpochsToSave at arbitrary blocks, block advances) into a real chain
// (testutil/common.Tester through chainx) and records, after every step, what the public epoch
// queries answer for every block of the memory window (DESIGN.md C16).
//
//	VERIF_IN   behaviours.json : [[{"a":"init","v":eb*100+ets},{"a":"eb","v":3},{"a":"block","v":0},...],...]
//	VERIF_OUT  trace.ndjson
//	VERIF_SEED seed of the chain
//
// Every behaviour starts from a fresh chain that is warmed up (not logged) until the genesis
// parameters (20 blocks x 10 epochs) have left the memory window: the parameters of the "init"
// step are proposed at block 20 and the chain runs until the earliest epoch in memory lies on
// the new grid, no parameter change is pending and the fixation lists are clean.
package epochs

import (
	"encoding/json"
	"fmt"
	"io"
	"os"
	"sort"
	"strconv"
	"strings"
	"testing"

	"github.com/lavanet/lava/v5/utils"
	epochstoragetypes "github.com/lavanet/lava/v5/x/epochstorage/types"
	zerologlog "github.com/rs/zerolog/log"

	"verif/harness/internal/chainx"
	"verif/harness/internal/hx"
)

type step struct {
	A string `json:"a"`
	V int64  `json:"v"`
}

type fixr struct {
	Blk int64 `json:"blk"`
	Val int64 `json:"val"`
}

type winr struct {
	B      int64 `json:"b"`
	Es     int64 `json:"es"`
	EsErr  bool  `json:"eserr"`
	Nx     int64 `json:"nx"`
	NxErr  bool  `json:"nxerr"`
	Bts    int64 `json:"bts"`
	BtsErr bool  `json:"btserr"`
	Ran    bool  `json:"ran"`
}

type rec struct {
	Ev       string  `json:"ev"`
	V        int64   `json:"v"`
	Ok       bool    `json:"ok"`
	Panic    bool    `json:"panic"`
	PanicS   string  `json:"panics,omitempty"`
	H        int64   `json:"h"`
	Eb       int64   `json:"eb"`
	Ets      int64   `json:"ets"`
	Lpc      int64   `json:"lpc"`
	FixEB    []fixr  `json:"fixEB"`
	FixETS   []fixr  `json:"fixETS"`
	Start    int64   `json:"start"`
	Earliest int64   `json:"earliest"`
	Deleted  []int64 `json:"deleted"`
	Win      []winr  `json:"win"`
	RanNow   bool    `json:"rannow"` // epoch-start processing ran in this block
	// queries about the current block
	CurNext      int64 `json:"curnext"`      // GetCurrentNextEpoch()
	CurNextPanic bool  `json:"curnextpanic"` // ... panicked
	NextCur      int64 `json:"nextcur"`      // GetNextEpoch(height)
	NextCurErr   bool  `json:"nextcurerr"`
	IsStart      bool  `json:"isstart"`      // IsEpochStart()
	EsCur        int64 `json:"escur"`        // GetEpochStartForBlock(height)
	Prev         int64 `json:"prev"`         // GetPreviousEpochStartForBlock(height)
	PrevErr      bool  `json:"preverr"`
	Beh      int     `json:"beh"`
	Step     int     `json:"step"`
}

func snapshot(c *chainx.Chain, r *rec) {
	defer func() {
		if x := recover(); x != nil {
			r.Panic = true
			r.PanicS += " | snapshot: " + fmt.Sprint(x)
		}
	}()
	r.Deleted, r.FixEB, r.FixETS, r.Win = []int64{}, []fixr{}, []fixr{}, []winr{}
	ctx := c.TS.Ctx
	k := c.TS.Keepers.Epochstorage
	h := uint64(ctx.BlockHeight())
	r.H = int64(h)
	r.Eb = chainx.ClampU(k.EpochBlocksRaw(ctx))
	r.Ets = chainx.ClampU(k.EpochsToSaveRaw(ctx))
	r.Lpc = chainx.ClampU(k.LatestParamChange(ctx))
	r.Start = chainx.ClampU(k.GetEpochStart(ctx))
	r.Earliest = chainx.ClampU(k.GetEarliestEpochStart(ctx))
	r.Deleted = []int64{}
	for _, d := range k.GetDeletedEpochs(ctx) {
		r.Deleted = append(r.Deleted, chainx.ClampU(d))
	}
	lists := map[string]map[int]fixr{}
	for _, f := range k.GetAllFixatedParams(ctx) {
		for _, key := range []string{string(epochstoragetypes.KeyEpochBlocks), string(epochstoragetypes.KeyEpochsToSave)} {
			if strings.HasPrefix(f.Index, key) {
				idx, err := strconv.Atoi(f.Index[len(key):])
				if err != nil {
					continue
				}
				var val uint64
				utils.Deserialize(f.Parameter, &val)
				if lists[key] == nil {
					lists[key] = map[int]fixr{}
				}
				lists[key][idx] = fixr{chainx.ClampU(f.FixationBlock), chainx.ClampU(val)}
			}
		}
	}
	flat := func(key string) []fixr {
		m := lists[key]
		idx := []int{}
		for i := range m {
			idx = append(idx, i)
		}
		sort.Ints(idx)
		res := []fixr{}
		for _, i := range idx {
			res = append(res, m[i])
		}
		return res
	}
	r.FixEB = flat(string(epochstoragetypes.KeyEpochBlocks))
	r.FixETS = flat(string(epochstoragetypes.KeyEpochsToSave))
	r.Win = []winr{}
	earliest := k.GetEarliestEpochStart(ctx)
	for b := earliest; b <= h; b++ {
		es, _, err := k.GetEpochStartForBlock(ctx, b)
		nx, err2 := k.GetNextEpoch(ctx, b)
		bts, err3 := k.BlocksToSave(ctx, b)
		r.Win = append(r.Win, winr{B: int64(b), Es: chainx.ClampU(es), EsErr: err != nil, Nx: chainx.ClampU(nx), NxErr: err2 != nil,
			Bts: chainx.ClampU(bts), BtsErr: err3 != nil, Ran: len(k.GetEpochHash(ctx, b)) > 0})
	}
	r.RanNow = k.GetEpochStart(ctx) == h
	func() {
		defer func() {
			if x := recover(); x != nil {
				r.CurNextPanic = true
			}
		}()
		r.CurNext = chainx.ClampU(k.GetCurrentNextEpoch(ctx))
	}()
	nc, errn := k.GetNextEpoch(ctx, h)
	r.NextCur, r.NextCurErr = chainx.ClampU(nc), errn != nil
	r.IsStart = k.IsEpochStart(ctx)
	ec, _, _ := k.GetEpochStartForBlock(ctx, h)
	r.EsCur = chainx.ClampU(ec)
	pv, errp := k.GetPreviousEpochStartForBlock(ctx, h)
	r.Prev, r.PrevErr = chainx.ClampU(pv), errp != nil
}

func propose(c *chainx.Chain, key string, v int64) chainx.TxResult {
	return c.Tx(func() error {
		return c.TS.TxProposalChangeParam(epochstoragetypes.ModuleName, key, "\""+strconv.FormatInt(v, 10)+"\"")
	})
}

func TestDrive(t *testing.T) {
	zerologlog.Logger = zerologlog.Output(io.Discard)
	in, outp := os.Getenv("VERIF_IN"), os.Getenv("VERIF_OUT")
	if in == "" || outp == "" {
		t.Skip("VERIF_IN / VERIF_OUT not set")
	}
	seed, _ := strconv.ParseInt(os.Getenv("VERIF_SEED"), 10, 64)
	raw, err := os.ReadFile(in)
	if err != nil {
		t.Fatal(err)
	}
	var behs [][]step
	if err := json.Unmarshal(raw, &behs); err != nil {
		t.Fatal(err)
	}
	out := hx.NewOut(outp)
	defer out.Close()

	for bi, beh := range behs {
		if len(beh) == 0 || beh[0].A != "init" {
			t.Fatalf("behaviour %d does not start with init", bi)
		}
		eb0, ets0 := beh[0].V/100, beh[0].V%100
		c := chainx.New(t, seed+int64(bi))
		k := c.TS.Keepers.Epochstorage
		if r := propose(c, string(epochstoragetypes.KeyEpochBlocks), eb0); !r.OK {
			t.Fatalf("warm-up proposal failed: %+v", r)
		}
		if r := propose(c, string(epochstoragetypes.KeyEpochsToSave), ets0); !r.OK {
			t.Fatalf("warm-up proposal failed: %+v", r)
		}
		warm := 0
		warmPanic := ""
		for {
			if p, msg := c.NextBlock(0); p {
				// a BeginBlock panic while the genesis parameters age out is evidence about lava,
				// not about the driver: log it (ObsNoPanic) and end this behaviour
				warmPanic = "warm-up: " + msg
				break
			}
			warm++
			ctx := c.TS.Ctx
			if k.LatestParamChange(ctx) == 0 && k.GetEarliestEpochStart(ctx) >= 40 &&
				len(k.GetAllFixatedParams(ctx)) == len(k.GetFixationRegistries()) && k.GetEpochStart(ctx) == uint64(ctx.BlockHeight()) {
				break
			}
			if warm > 2000 {
				t.Fatalf("warm-up did not converge (beh %d)", bi)
			}
		}
		r0 := rec{Ev: "reset", Beh: bi, Ok: true}
		snapshot(c, &r0)
		if warmPanic != "" {
			r0.Panic, r0.PanicS, r0.Ok = true, warmPanic+r0.PanicS, false
		}
		out.Emit(r0)
		if r0.Panic {
			continue
		}
		for si, s := range beh[1:] {
			r := rec{Ev: s.A, V: s.V, Beh: bi, Step: si + 1}
			switch s.A {
			case "eb":
				res := propose(c, string(epochstoragetypes.KeyEpochBlocks), s.V)
				r.Ok, r.Panic, r.PanicS = res.OK, res.Panic, res.PanicS
			case "ets":
				res := propose(c, string(epochstoragetypes.KeyEpochsToSave), s.V)
				r.Ok, r.Panic, r.PanicS = res.OK, res.Panic, res.PanicS
			case "block":
				p, msg := c.NextBlock(0)
				r.Ok, r.Panic, r.PanicS = !p, p, msg
			default:
				t.Fatalf("unknown action %q", s.A)
			}
			snapshot(c, &r)
			out.Emit(r)
			if r.Panic {
				break
			}
		}
	}
}
