// limiter replays Limiter.tla schedules on the real rpcprovider.ResourceLimiter with a gate
// scheduler (DESIGN.md C41).
//
//	limiter <behaviours.json> <trace.ndjson>
//
// Callers are goroutines calling rl.Acquire; the worker is the limiter's own processQueue goroutine
// (adopted when it reaches its first yield point); cancel events are executed by the scheduler
// itself. Goroutines park at the harness-level yield points ("start", "exec" inside the execute
// callback) and at the build-tagged hooks (rpcprovider.VerifLimiterYield). One goroutine is released
// per schedule step; the projected state is logged after every step.
package main

import (
	"bytes"
	"context"
	"encoding/json"
	"errors"
	"fmt"
	"os"
	"runtime"
	"sort"
	"strconv"
	"strings"
	"sync"
	"time"

	"github.com/lavanet/lava/v5/protocol/rpcprovider"
	"github.com/lavanet/lava/v5/utils"

	"verif/harness/internal/hx"
)

type callerPar struct {
	Kind string `json:"kind"`
	To   string `json:"to"` // never | expired
}

type evPar struct {
	K string `json:"k"` // cancel | pdeadline
	C string `json:"c"`
}

type params struct {
	H   int64                `json:"H"`
	N   int64                `json:"N"`
	Q   int                  `json:"Q"`
	Cal map[string]callerPar `json:"cal"`
	Ev  map[string]evPar     `json:"ev"`
}

type behaviour struct {
	Par   params   `json:"par"`
	Sched []string `json:"sched"`
}

type rec struct {
	Ev       string            `json:"ev"` // reset | step | skip | blocked
	Beh      int               `json:"beh"`
	P        string            `json:"p"`
	Par      *params           `json:"par,omitempty"`
	Pc       map[string]string `json:"pc"`
	Wpc      string            `json:"wpc"`
	Wcur     string            `json:"wcur"` // caller whose request the worker executes ("" unless wpc = exec)
	PermH    int64             `json:"permH"`
	PermN    int64             `json:"permN"`
	Qlen     int               `json:"qlen"`
	Canc     map[string]bool   `json:"canc"`
	Exec     map[string]int    `json:"exec"`
	Done     map[string]int    `json:"done"`
	Res      map[string]string `json:"res"`
	Why      map[string]string `json:"why"`
	Exret    map[string]int    `json:"exret"`
	First    map[string]string `json:"first"`
	Rejected uint64            `json:"rejected"`
	Queued   uint64            `json:"queued"`
	Timeouts uint64            `json:"timeouts"`
	InH      uint64            `json:"inH"`
	InN      uint64            `json:"inN"`
}

const stepWait = 3 * time.Second

// manualCtx is the caller's context: the scheduler fires it (cancellation or deadline) as an environment step.
// It implements the context package's AfterFunc hook, so contexts derived from it (the limiter's queueCtx) are
// cancelled synchronously inside fire() - no timer and no goroutine is involved, the replay stays deterministic.
type manualCtx struct {
	mu   sync.Mutex
	done chan struct{}
	err  error
	fns  map[int]func()
	next int
}

func newManualCtx() *manualCtx { return &manualCtx{done: make(chan struct{}), fns: map[int]func(){}} }

func (m *manualCtx) Deadline() (time.Time, bool) { return time.Time{}, false }
func (m *manualCtx) Done() <-chan struct{}       { return m.done }
func (m *manualCtx) Value(key any) any           { return nil }
func (m *manualCtx) Err() error {
	m.mu.Lock()
	defer m.mu.Unlock()
	return m.err
}

func (m *manualCtx) AfterFunc(f func()) func() bool {
	m.mu.Lock()
	if m.err != nil {
		m.mu.Unlock()
		f()
		return func() bool { return false }
	}
	id := m.next
	m.next++
	m.fns[id] = f
	m.mu.Unlock()
	return func() bool {
		m.mu.Lock()
		defer m.mu.Unlock()
		_, ok := m.fns[id]
		delete(m.fns, id)
		return ok
	}
}

func (m *manualCtx) fire(err error) {
	m.mu.Lock()
	if m.err != nil {
		m.mu.Unlock()
		return
	}
	m.err = err
	close(m.done)
	fns := m.fns
	m.fns = map[int]func(){}
	m.mu.Unlock()
	for _, f := range fns {
		f()
	}
}

var hookLabel = map[string]string{
	"enq_before_send": "presend",
	"enq_waiting":     "waiting",
	"pq_idle":         "idle",
	"pq_checked":      "checked",
	"pq_send":         "send",
}

type proc struct {
	name    string
	release chan struct{}
	parked  chan string
	pc      string
}

type sched struct {
	mu     sync.Mutex
	byGid  map[uint64]*proc
	worker *proc
}

var cur *sched

func goid() uint64 {
	var buf [64]byte
	n := runtime.Stack(buf[:], false)
	f := bytes.Fields(buf[:n])
	id, _ := strconv.ParseUint(string(f[1]), 10, 64)
	return id
}

func (p *proc) park(label string) {
	p.parked <- label
	<-p.release
}

func hook(point string, id uint64) {
	s := cur
	if s == nil {
		return
	}
	label, ok := hookLabel[point]
	if !ok {
		return
	}
	g := goid()
	s.mu.Lock()
	p := s.byGid[g]
	if p == nil && len(point) > 3 && point[:3] == "pq_" && s.worker != nil {
		// the limiter's own worker goroutine reaches its first yield point: adopt it
		if _, taken := s.byGid[0]; !taken {
			s.byGid[0] = s.worker
			s.byGid[g] = s.worker
			p = s.worker
		}
	}
	s.mu.Unlock()
	if p == nil {
		// a goroutine of an earlier behaviour (its limiter is garbage): park it forever
		select {}
	}
	p.park(label)
}

type runResult struct{ caller string }

func (r runResult) Error() string { return "result-of-" + r.caller }

type world struct {
	par     params
	rl      *rpcprovider.ResourceLimiter
	procs   map[string]*proc
	callers []string
	cctx    map[string]*manualCtx
	canc    map[string]bool
	exec    map[string]int
	done    map[string]int
	res     map[string]string
	why     map[string]string
	exret   map[string]int
	first   map[string]string
	wcur    string
	mu      sync.Mutex
}

func (w *world) me() *proc {
	g := goid()
	cur.mu.Lock()
	defer cur.mu.Unlock()
	return cur.byGid[g]
}

func (w *world) runCaller(p *proc, name string, cp callerPar, ctx context.Context) {
	p.park("start")
	cu, method := uint64(10), "eth_call"
	switch cp.Kind {
	case "heavy_cu":
		cu = 200
	case "heavy_debug":
		method = "debug_traceTransaction"
	case "heavy_batch":
		method = "eth_call&eth_blockNumber"
	}
	switch cp.To {
	case "expired":
		w.rl.VerifSetHeavyQueueTimeout(-time.Second) // queue deadline already expired
	default:
		w.rl.VerifSetHeavyQueueTimeout(time.Hour)
	}
	err := w.rl.Acquire(ctx, cu, method, func() error {
		me := w.me()
		w.mu.Lock()
		w.exec[name]++
		if me != p {
			w.wcur = name
		}
		w.mu.Unlock()
		me.park("exec")
		w.mu.Lock()
		w.done[name]++
		w.mu.Unlock()
		return runResult{name}
	})
	var rr runResult
	r, y := "err", "other"
	switch {
	case errors.As(err, &rr):
		y = "run"
		if rr.caller == name {
			r = "ok"
		} else {
			r = "foreign"
		}
	case err == nil:
		r = "nil"
	case errors.Is(err, context.Canceled):
		y = "canceled"
	case errors.Is(err, context.DeadlineExceeded):
		y = "deadline_exceeded"
	case strings.Contains(err.Error(), "request timeout in queue"):
		y = "queue_timeout"
	case strings.Contains(err.Error(), "provider busy") || strings.Contains(err.Error(), "provider queue full"):
		y = "rejected"
	default:
		y = "other:" + err.Error()
	}
	w.mu.Lock()
	w.res[name] = r
	w.why[name] = y
	w.exret[name] = w.exec[name]
	w.mu.Unlock()
}

func (w *world) spawn(name string, cp callerPar) {
	p := &proc{name: name, release: make(chan struct{}), parked: make(chan string, 1), pc: "new"}
	w.procs[name] = p
	ctx := newManualCtx()
	w.cctx[name] = ctx
	ready := make(chan struct{})
	go func() {
		cur.mu.Lock()
		cur.byGid[goid()] = p
		cur.mu.Unlock()
		close(ready)
		w.runCaller(p, name, cp, ctx)
		p.parked <- "fin"
	}()
	<-ready
	p.pc = <-p.parked
}

func (w *world) step(p *proc) bool {
	p.release <- struct{}{}
	select {
	case l := <-p.parked:
		p.pc = l
		return true
	case <-time.After(stepWait):
		return false
	}
}

func (w *world) project(r *rec) {
	st := w.rl.VerifState()
	r.PermH = w.par.H - st.HeavyFree
	r.PermN = w.par.N - st.NormalFree
	r.Qlen = st.QueueLen
	r.Rejected, r.Queued, r.Timeouts = st.Rejected, st.Queued, st.Timeout
	r.InH, r.InN = st.HeavyInFlight, st.NormalInFlight
	r.Pc = map[string]string{}
	r.Canc = map[string]bool{}
	r.Exec = map[string]int{}
	r.Done = map[string]int{}
	r.Res = map[string]string{}
	r.Why = map[string]string{}
	r.Exret = map[string]int{}
	r.First = map[string]string{}
	w.mu.Lock()
	defer w.mu.Unlock()
	for _, c := range w.callers {
		r.Pc[c] = w.procs[c].pc
		r.Canc[c] = w.canc[c]
		r.Exec[c] = w.exec[c]
		r.Done[c] = w.done[c]
		r.Res[c] = w.res[c]
		r.Why[c] = w.why[c]
		r.Exret[c] = w.exret[c]
		r.First[c] = w.first[c]
	}
	r.Wpc = w.procs["w"].pc
	if r.Wpc == "exec" {
		r.Wcur = w.wcur
	}
}

var serial int

func runBehaviour(bi int, b behaviour, out *hx.Out) bool {
	w := &world{par: b.Par, procs: map[string]*proc{}, cctx: map[string]*manualCtx{}, canc: map[string]bool{},
		exec: map[string]int{}, done: map[string]int{}, res: map[string]string{}, why: map[string]string{},
		exret: map[string]int{}, first: map[string]string{}}
	wp := &proc{name: "w", release: make(chan struct{}), parked: make(chan string, 1), pc: "new"}
	w.procs["w"] = wp
	cur = &sched{byGid: map[uint64]*proc{}, worker: wp}
	serial++
	w.rl = rpcprovider.NewResourceLimiter(true, fmt.Sprintf("verif-%d-%d", os.Getpid(), serial), 100, b.Par.H, b.Par.Q, b.Par.N)
	select {
	case l := <-wp.parked:
		wp.pc = l
	case <-time.After(stepWait):
		hx.Die("the limiter's worker never reached its first yield point (hooks missing?)")
	}
	for c := range b.Par.Cal {
		w.callers = append(w.callers, c)
	}
	sort.Strings(w.callers)
	for _, c := range w.callers {
		w.res[c] = "none"
		w.why[c] = "none"
		w.exret[c] = -1
		w.first[c] = "none"
		w.spawn(c, b.Par.Cal[c])
	}
	r := rec{Ev: "reset", Beh: bi, Par: &b.Par}
	w.project(&r)
	out.Emit(r)
	for _, n := range b.Sched {
		r := rec{Ev: "step", Beh: bi, P: n}
		if e, ok := b.Par.Ev[n]; ok {
			if e.K == "cancel" {
				w.cctx[e.C].fire(context.Canceled)
			} else {
				w.cctx[e.C].fire(context.DeadlineExceeded)
			}
			w.canc[e.C] = true
			if w.first[e.C] == "none" {
				w.first[e.C] = e.K
			}
		} else if p := w.procs[n]; p == nil || p.pc == "fin" {
			r.Ev = "skip"
		} else {
			from := p.pc
			if !w.step(p) {
				r.Ev = "blocked"
				p.pc = "blocked"
			}
			if from == "start" && p.pc == "presend" && b.Par.Cal[n].To == "expired" && w.first[n] == "none" {
				w.first[n] = "deadline"
			}
		}
		w.project(&r)
		out.Emit(r)
		if r.Ev == "blocked" {
			return true
		}
	}
	for _, c := range w.cctx {
		c.fire(context.Canceled)
	}
	return false
}

const maxBlocked = 5

func main() {
	if len(os.Args) != 3 {
		hx.Die("usage: limiter <behaviours.json> <trace.ndjson>")
	}
	utils.SetGlobalLoggingLevel("fatal")
	var behs []behaviour
	raw, err := os.ReadFile(os.Args[1])
	if err != nil {
		hx.Die("read: %v", err)
	}
	if err := json.Unmarshal(raw, &behs); err != nil {
		hx.Die("parse: %v", err)
	}
	rpcprovider.VerifLimiterYield = hook
	out := hx.NewOut(os.Args[2])
	nblocked := 0
	aborted := false
	for i, b := range behs {
		if nblocked >= maxBlocked {
			aborted = true // the code obviously does not follow the model: stop, the check reports drift / the violation found so far
			break
		}
		if runBehaviour(i, b, out) {
			nblocked++
		}
	}
	out.Close()
	fmt.Printf("{\"behaviours\":%d,\"blocked\":%d,\"aborted\":%v}\n", len(behs), nblocked, aborted)
}
