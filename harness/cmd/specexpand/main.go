// specexpand materialises SpecExpand.tla input vectors (a store of four specs with imports) as real
// x/spec Spec protos in a real spec keeper store, expands *every* stored spec with the real
// keeper.ExpandSpec (-> types.DoExpandSpec) several times, runs the real keeper.ValidateSpec, and
// records (input, real outcome) lines for TLC (Trace_SpecExpand.tla).  DESIGN.md C22.
//
//	specexpand <vectors.json> <out.ndjson>
package main

import (
	"fmt"
	"os"
	"sort"
	"strings"

	"cosmossdk.io/math"
	tmdb "github.com/cometbft/cometbft-db"
	"github.com/cometbft/cometbft/libs/log"
	tmproto "github.com/cometbft/cometbft/proto/tendermint/types"
	"github.com/cosmos/cosmos-sdk/codec"
	codectypes "github.com/cosmos/cosmos-sdk/codec/types"
	"github.com/cosmos/cosmos-sdk/store"
	storetypes "github.com/cosmos/cosmos-sdk/store/types"
	sdk "github.com/cosmos/cosmos-sdk/types"
	typesparams "github.com/cosmos/cosmos-sdk/x/params/types"
	"github.com/lavanet/lava/v5/x/spec/keeper"
	"github.com/lavanet/lava/v5/x/spec/types"
	"github.com/rs/zerolog"

	"verif/harness/internal/hx"
)

const (
	maxCU = 50 // SpecExpand.tla MaxCU
	runs      = 6  // expansions per spec (determinism)
	runsPaths = 64 // ... when the store holds collections that differ only in the internal path: tied sort
	// keys come out in Go's map order, which for a small map is a rotation picked by a random offset (the
	// most likely order has probability <= 7/8), so 64 order-sensitive repetitions miss it with p < 2e-4
	denom = "ulava"
)

type api struct {
	N  string `json:"n"`
	CU uint64 `json:"cu"`
	En bool   `json:"en"`
}

type col struct {
	CD   string `json:"cd"`
	En   bool   `json:"en"`
	Apis []api  `json:"apis"`
}

type spec struct {
	Imports []string `json:"imports"`
	Cols    []col    `json:"cols"`
}

type result struct {
	Err   string `json:"err"`   // "" | loop | unknown | conflict | other:<msg>
	Cols  []col  `json:"cols"`  // expanded collections (empty on error)
	Valid bool   `json:"valid"` // keeper.ValidateSpec accepted the raw spec
	VErr  string `json:"verr"`
	Same  bool   `json:"same"` // all runs produced byte-identical results
	Panic bool   `json:"panic"`
}

type line struct {
	ID  int               `json:"id"`
	DB  map[string]spec   `json:"db"`
	Res map[string]result `json:"res"`
}

type staking struct{}

func (staking) BondDenom(sdk.Context) string { return denom }

var cds = map[string]types.CollectionData{
	"c1": {ApiInterface: types.APIInterfaceJsonRPC, Type: "POST"},
	"c2": {ApiInterface: types.APIInterfaceRest, Type: "GET"},
	// differ from c1 ONLY in the internal path
	"c1/p1": {ApiInterface: types.APIInterfaceJsonRPC, InternalPath: "/p1", Type: "POST"},
	"c1/p2": {ApiInterface: types.APIInterfaceJsonRPC, InternalPath: "/p2", Type: "POST"},
}

func cdName(cd types.CollectionData) string {
	for k, v := range cds {
		if v == cd {
			return k
		}
	}
	return "?" + cd.String()
}

// newKeeper mirrors utils/keeper.specKeeper (unexported there), with a staking keeper stub so that
// keeper.ValidateSpec is usable.
func newKeeper() (*keeper.Keeper, sdk.Context) {
	storeKey := sdk.NewKVStoreKey(types.StoreKey)
	memStoreKey := storetypes.NewMemoryStoreKey(types.MemStoreKey)
	db := tmdb.NewMemDB()
	stateStore := store.NewCommitMultiStore(db)
	stateStore.MountStoreWithDB(storeKey, storetypes.StoreTypeIAVL, db)
	stateStore.MountStoreWithDB(memStoreKey, storetypes.StoreTypeMemory, nil)
	if err := stateStore.LoadLatestVersion(); err != nil {
		hx.Die("store: %v", err)
	}
	cdc := codec.NewProtoCodec(codectypes.NewInterfaceRegistry())
	ps := typesparams.NewSubspace(cdc, types.Amino, storeKey, memStoreKey, "SpecParams")
	k := keeper.NewKeeper(cdc, storeKey, memStoreKey, ps, staking{})
	ctx := sdk.NewContext(stateStore, tmproto.Header{}, false, log.NewNopLogger())
	p := types.DefaultParams()
	p.MaxCU = maxCU
	k.SetParams(ctx, p)
	return k, ctx
}

func mkSpec(name string, s spec) types.Spec {
	sp := types.Spec{
		Index:                         name,
		Name:                          strings.ToLower(name) + " spec",
		Enabled:                       true,
		ReliabilityThreshold:          268435455,
		DataReliabilityEnabled:        false,
		BlockDistanceForFinalizedData: 1,
		BlocksInFinalizationProof:     3,
		AverageBlockTime:              1000,
		AllowedBlockLagForQosSync:     2,
		MinStakeProvider:              sdk.NewCoin(denom, math.NewInt(1000)),
		Imports:                       append([]string{}, s.Imports...),
	}
	for _, c := range s.Cols {
		cd, ok := cds[c.CD]
		if !ok {
			hx.Die("unknown collection %q", c.CD)
		}
		ac := &types.ApiCollection{Enabled: c.En, CollectionData: cd}
		for _, a := range c.Apis {
			ac.Apis = append(ac.Apis, &types.Api{Name: a.N, ComputeUnits: a.CU, Enabled: a.En})
		}
		sp.ApiCollections = append(sp.ApiCollections, ac)
	}
	return sp
}

func project(sp types.Spec) []col {
	res := []col{}
	for _, ac := range sp.ApiCollections {
		c := col{CD: cdName(ac.CollectionData), En: ac.Enabled, Apis: []api{}}
		for _, a := range ac.Apis {
			c.Apis = append(c.Apis, api{N: a.Name, CU: hx.C(a.ComputeUnits), En: a.Enabled})
		}
		res = append(res, c)
	}
	return res
}

func errClass(err error) string {
	if err == nil {
		return ""
	}
	m := err.Error()
	switch {
	case strings.Contains(m, "import loops not allowed"):
		return "loop"
	case strings.Contains(m, "imported spec unknown"):
		return "unknown"
	case strings.Contains(m, "try overwrite existing collection combination"),
		strings.Contains(m, "duplicate imported combinable"),
		strings.Contains(m, "existing combinable in collection combination"):
		return "conflict"
	}
	if len(m) > 120 {
		m = m[:120]
	}
	return "other:" + m
}

func expandOnce(k *keeper.Keeper, ctx sdk.Context, name string) (cls string, cols []col, fp string, panicked bool) {
	defer func() {
		if r := recover(); r != nil {
			cls, cols, fp, panicked = fmt.Sprintf("other:panic %v", r), []col{}, "panic", true
		}
	}()
	raw, found := k.GetSpec(ctx, name)
	if !found {
		hx.Die("spec %s not stored", name)
	}
	exp, err := k.ExpandSpec(ctx, raw)
	if err != nil {
		return errClass(err), []col{}, "err:" + errClass(err), false
	}
	bz, merr := exp.Marshal()
	if merr != nil {
		hx.Die("marshal: %v", merr)
	}
	return "", project(exp), string(bz), false
}

func main() {
	if len(os.Args) != 3 {
		hx.Die("usage: specexpand <vectors.json> <out.ndjson>")
	}
	zerolog.SetGlobalLevel(zerolog.Disabled) // ExpandSpec logs every rejected spec
	var vectors []map[string]spec
	hx.ReadJSON(os.Args[1], &vectors)
	out := hx.NewOut(os.Args[2])
	defer out.Close()
	for id, db := range vectors {
		k, ctx := newKeeper()
		names := make([]string, 0, len(db))
		for n := range db {
			names = append(names, n)
		}
		sort.Strings(names)
		for _, n := range names {
			k.SetSpec(ctx, mkSpec(n, db[n]))
		}
		// a second, independent store filled in the opposite order
		k2, ctx2 := newKeeper()
		for j := len(names) - 1; j >= 0; j-- {
			k2.SetSpec(ctx2, mkSpec(names[j], db[names[j]]))
		}
		nruns := runs
		for _, sp := range db {
			for _, c := range sp.Cols {
				if strings.Contains(c.CD, "/") {
					nruns = runsPaths
				}
			}
		}
		ln := line{ID: id, DB: db, Res: map[string]result{}}
		for _, n := range names {
			cls, cols, fp, pan := expandOnce(k, ctx, n)
			r := result{Err: cls, Cols: cols, Same: true, Panic: pan}
			for i := 1; i < nruns; i++ {
				kk, cc := k, ctx
				if i%2 == 0 {
					kk, cc = k2, ctx2
				}
				_, _, fp2, _ := expandOnce(kk, cc, n)
				if fp2 != fp {
					r.Same = false
				}
			}
			func() {
				defer func() {
					if rec := recover(); rec != nil {
						r.Valid, r.VErr, r.Panic = false, fmt.Sprintf("panic %v", rec), true
					}
				}()
				raw, _ := k.GetSpec(ctx, n)
				_, verr := k.ValidateSpec(ctx, raw)
				r.Valid = verr == nil
				if verr != nil {
					r.VErr = verr.Error()
					if len(r.VErr) > 100 {
						r.VErr = r.VErr[:100]
					}
				}
			}()
			ln.Res[n] = r
		}
		out.Emit(ln)
	}
}
