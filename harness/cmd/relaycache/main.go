// relaycache replays Cache.tla behaviours (set/get sequences) into a real in-process
// ecosystem/cache.RelayerCacheServer (property C36).  Keys are computed with the real
// chainlib.HashCacheRequest exactly as rpcconsumer/rpcprovider do (hash, then put the request's
// own RequestBlock / SeenBlock into the RelayCacheSet / RelayCacheGet message).
//
//	relaycache <behaviours.json> <trace.ndjson>
//
// One server serves all behaviours of a run; behaviours are isolated by a nonce in the chain id
// (the chain id is hashed into every key and names the latest-block / shared-state records).
// After every SetRelay the driver waits for ristretto to apply its set buffer (Cache.Wait, reached
// through the unexported fields; falls back to sleeping as cache_test.go does).
package main

import (
	"bytes"
	"context"
	"encoding/hex"
	"fmt"
	mrand "math/rand"
	"os"
	"reflect"
	"strconv"
	"strings"
	"time"
	"unsafe"

	"github.com/dgraph-io/ristretto/v2"
	"github.com/lavanet/lava/v5/ecosystem/cache"
	"github.com/lavanet/lava/v5/protocol/chainlib"
	"github.com/lavanet/lava/v5/protocol/common"
	"github.com/lavanet/lava/v5/utils"
	"github.com/lavanet/lava/v5/utils/rand"
	pairingtypes "github.com/lavanet/lava/v5/x/pairing/types"

	"verif/harness/internal/hx"
)

type areq struct {
	Chain string `json:"chain"`
	Iface string `json:"iface"`
	Core  int64  `json:"core"`
	Jid   int64  `json:"jid"`
	Url   string `json:"url"`
	Addon string `json:"addon"`
	Ext   string `json:"ext"`
	Meta  int64  `json:"meta"`
	Conn  string `json:"conn"`
	Salt  int64  `json:"salt"`
	Seen  int64  `json:"seen"`
	Rid   int64  `json:"rid"`
	Tid   int64  `json:"tid"`
	Xid   int64  `json:"xid"`
}

type step struct {
	A    string `json:"a"`
	Req  areq   `json:"req"`
	Blk  int64  `json:"blk"`
	Fin  bool   `json:"fin"`
	Bh   int64  `json:"bh"`
	Size int64  `json:"size"`
	Rl   int64  `json:"rl"`
	Sid  string `json:"sid"`
	Abt  int64  `json:"abt"`
	Nerr bool   `json:"nerr"`
}

type rec struct {
	Ev     string `json:"ev"`
	Req    areq   `json:"req"`
	Blk    int64  `json:"blk"`
	Fin    bool   `json:"fin"`
	Bh     int64  `json:"bh"`
	Size   int64  `json:"size"`
	Rl     int64  `json:"rl"`
	Sid    string `json:"sid"`
	Abt    int64  `json:"abt"`
	Nerr   bool   `json:"nerr"`
	Pid    int64  `json:"pid"`   // step number inside the behaviour (= payload id of a set)
	Ok     bool   `json:"ok"`    // SetRelay returned no error
	Hit    bool   `json:"hit"`   // GetRelay returned a reply
	Rpid   int64  `json:"rpid"`  // payload id recovered from the returned bytes (0 miss, -1 unparsable, -2 other behaviour)
	Rsz    int64  `json:"rsz"`   // size class recovered from the returned bytes
	Eq     bool   `json:"eq"`    // returned bytes == bytes of payload (rpid, rsz) as generated
	Rlen   int64  `json:"rlen"`  // length of the returned data
	Rb     int64  `json:"rb"`    // RequestedBlock of the Get message after the call (GetRelay resolves tags in place)
	Rseen  int64  `json:"rseen"` // SeenBlock of the reply
	Kid    int64  `json:"kid"`   // class number of the request hash inside this behaviour
	Unch   bool   `json:"unch"`  // request proto-equal before/after HashCacheRequest
	Herr   bool   `json:"herr"`  // HashCacheRequest returned an error
	Panic  bool   `json:"panic"`
	PanicS string `json:"panics,omitempty"`
	Beh    int    `json:"beh"`
	Waited bool   `json:"waited"` // ristretto Wait reached (false: sleep fallback)
}

// ---- concrete requests ---------------------------------------------------------------------

func jsonCall(core int64, jid int64, nonce string) string {
	id := ""
	switch jid {
	case 1:
		id = `,"id":1`
	case 2:
		id = `,"id":77`
	case 3:
		id = `,"id":"abc"`
	}
	return fmt.Sprintf(`{"jsonrpc":"2.0","method":"eth_m%d","params":["0x5",%q]%s}`, core, nonce, id)
}

func buildData(r areq, nonce string) []byte {
	if r.Core%10 == 3 { // batch of two calls
		return []byte("[" + jsonCall(r.Core, r.Jid, nonce) + "," + jsonCall(r.Core+100, r.Jid, nonce) + "]")
	}
	return []byte(jsonCall(r.Core, r.Jid, nonce))
}

func chainOf(r areq, nonce string) string { return r.Chain + "-" + nonce }

func buildReq(r areq, blk int64, nonce string) *pairingtypes.RelayPrivateData {
	d := &pairingtypes.RelayPrivateData{
		ConnectionType: r.Conn,
		ApiUrl:         r.Url,
		Data:           buildData(r, nonce),
		RequestBlock:   blk,
		ApiInterface:   r.Iface,
		Salt:           []byte{byte(r.Salt), 9, 9, 9, 9, 9, 9, 9},
		Addon:          r.Addon,
		SeenBlock:      r.Seen,
	}
	if r.Ext != "" {
		d.Extensions = []string{r.Ext}
	}
	if r.Meta != 0 {
		d.Metadata = []pairingtypes.Metadata{{Name: "x-verif-header", Value: strconv.FormatInt(r.Meta, 10)}}
	}
	if r.Rid != 0 {
		d.RequestId = "rid-" + strconv.FormatInt(r.Rid, 10)
	}
	if r.Tid != 0 {
		d.XTaskId = &pairingtypes.RelayPrivateData_TaskId{TaskId: "task-" + strconv.FormatInt(r.Tid, 10)}
	}
	if r.Xid != 0 {
		d.XTxId = &pairingtypes.RelayPrivateData_TxId{TxId: "tx-" + strconv.FormatInt(r.Xid, 10)}
	}
	return d
}

func blockHash(bh int64) []byte {
	if bh == 0 {
		return nil
	}
	return []byte("blockhash-" + strconv.FormatInt(bh, 10))
}

// ---- payloads ------------------------------------------------------------------------------

const payloadMark = `"result":"P|`

func sizeOf(sz int64) int {
	thr := common.CompressionThreshold
	switch sz {
	case 1:
		return 160
	case 2:
		return thr - 1
	case 3:
		return thr
	case 4, 6:
		return thr + 1
	case 5:
		return 2*thr + thr/2
	}
	return -1
}

func payload(nonce string, pid, sz int64) []byte {
	n := sizeOf(sz)
	if n < 0 {
		return nil
	}
	head := fmt.Sprintf(`{"jsonrpc":"2.0","id":1,%s%s|%d|%d|`, payloadMark, nonce, pid, sz)
	out := make([]byte, 0, n)
	out = append(out, head...)
	if sz == 6 { // incompressible
		rnd := mrand.New(mrand.NewSource(pid*7919 + int64(len(nonce))*104729 + 17))
		fill := make([]byte, n-len(out))
		rnd.Read(fill)
		return append(out, fill...)
	}
	pat := []byte("0123456789abcdefghijklmnopqrstuvwxyz-" + strconv.FormatInt(pid, 10) + ";")
	for len(out) < n-2 {
		k := n - 2 - len(out)
		if k > len(pat) {
			k = len(pat)
		}
		out = append(out, pat[:k]...)
	}
	return append(out, '"', '}')
}

// recover (nonce, pid, sz) from returned bytes
func parsePayload(b []byte) (string, int64, int64, bool) {
	i := bytes.Index(b, []byte(payloadMark))
	if i < 0 || i > 64 {
		return "", 0, 0, false
	}
	rest := b[i+len(payloadMark):]
	if len(rest) > 200 {
		rest = rest[:200]
	}
	parts := strings.SplitN(string(rest), "|", 4)
	if len(parts) < 4 {
		return "", 0, 0, false
	}
	pid, e1 := strconv.ParseInt(parts[1], 10, 64)
	sz, e2 := strconv.ParseInt(parts[2], 10, 64)
	if e1 != nil || e2 != nil {
		return "", 0, 0, false
	}
	return parts[0], pid, sz, true
}

// ---- ristretto Wait through the unexported fields ---------------------------------------------

func waitCaches(cs *cache.CacheServer) bool {
	v := reflect.ValueOf(cs).Elem()
	want := reflect.TypeOf((*ristretto.Cache[string, any])(nil))
	ok := true
	for _, name := range []string{"finalizedCache", "tempCache", "blocksHashesToHeightsCache"} {
		f := v.FieldByName(name)
		if !f.IsValid() || f.Type() != want || !f.CanAddr() {
			ok = false
			continue
		}
		p := *(**ristretto.Cache[string, any])(unsafe.Pointer(f.UnsafeAddr()))
		if p == nil {
			ok = false
			continue
		}
		p.Wait()
	}
	if !ok {
		time.Sleep(20 * time.Millisecond)
	}
	return ok
}

func main() {
	if len(os.Args) != 3 {
		hx.Die("usage: relaycache behaviours.json trace.ndjson")
	}
	var behs [][]step
	hx.ReadJSON(os.Args[1], &behs)
	out := hx.NewOut(os.Args[2])
	defer out.Close()
	rand.InitRandomSeed()
	utils.SetGlobalLoggingLevel("fatal")

	ctx, cancel := context.WithCancel(context.Background())
	defer cancel()
	cs := cache.CacheServer{CacheMaxCost: 2 * 1024 * 1024 * 1024}
	cs.InitCache(ctx,
		cache.DefaultExpirationTimeFinalized,
		cache.DefaultExpirationForNonFinalized,
		cache.DefaultExpirationNodeErrors,
		cache.DefaultExpirationBlocksHashesToHeights,
		cache.DisabledFlagOption,
		cache.DefaultExpirationTimeFinalizedMultiplier,
		cache.DefaultExpirationTimeNonFinalizedMultiplier,
	)
	srv := &cache.RelayerCacheServer{CacheServer: &cs}
	runTag := strconv.FormatInt(int64(os.Getpid()), 36)

	for bi, beh := range behs {
		nonce := runTag + "x" + strconv.Itoa(bi)
		kids := map[string]int64{}
		stored := map[int64][]byte{} // pid -> payload bytes as generated (own copy)
		out.Emit(rec{Ev: "reset", Beh: bi, Unch: true, Eq: true, Ok: true})
		for si, s := range beh {
			r := rec{Ev: s.A, Req: s.Req, Blk: s.Blk, Fin: s.Fin, Bh: s.Bh, Size: s.Size, Rl: s.Rl, Sid: s.Sid,
				Abt: s.Abt, Nerr: s.Nerr, Pid: int64(si + 1), Beh: bi, Eq: true, Ok: true, Unch: true}
			func() {
				defer func() {
					if x := recover(); x != nil {
						r.Panic = true
						r.PanicS = fmt.Sprint(x)
					}
				}()
				chainID := chainOf(s.Req, nonce)
				req := buildReq(s.Req, s.Blk, nonce)
				before, err := req.Marshal()
				if err != nil {
					hx.Die("marshal request: %v", err)
				}
				// as rpcconsumer_server.go / rpcprovider_server.go: remember block and seen block, then hash
				requestedBlock := req.RequestBlock
				seenBlock := req.SeenBlock
				hashKey, _, herr := chainlib.HashCacheRequest(req, chainID)
				after, err := req.Marshal()
				if err != nil {
					hx.Die("marshal request: %v", err)
				}
				r.Unch = bytes.Equal(before, after)
				r.Herr = herr != nil
				hk := hex.EncodeToString(hashKey)
				if _, ok := kids[hk]; !ok {
					kids[hk] = int64(len(kids) + 1)
				}
				r.Kid = kids[hk]
				switch s.A {
				case "set":
					pl := payload(nonce, r.Pid, s.Size)
					if pl == nil {
						hx.Die("bad size class %d", s.Size)
					}
					stored[r.Pid] = pl
					abt := int64(0)
					if s.Abt != 0 {
						abt = int64(80 * time.Second)
					}
					_, err := srv.SetRelay(ctx, &pairingtypes.RelayCacheSet{
						RequestHash:      hashKey,
						ChainId:          chainID,
						RequestedBlock:   requestedBlock,
						SeenBlock:        seenBlock,
						BlockHash:        blockHash(s.Bh),
						Response:         &pairingtypes.RelayReply{Data: append([]byte(nil), pl...), LatestBlock: s.Rl},
						Finalized:        s.Fin,
						SharedStateId:    s.Sid,
						AverageBlockTime: abt,
						IsNodeError:      s.Nerr,
					})
					r.Ok = err == nil
					r.Waited = waitCaches(&cs)
				case "get":
					msg := &pairingtypes.RelayCacheGet{
						RequestHash:    hashKey,
						RequestedBlock: requestedBlock,
						ChainId:        chainID,
						BlockHash:      blockHash(s.Bh),
						Finalized:      s.Fin,
						SeenBlock:      seenBlock,
						SharedStateId:  s.Sid,
					}
					reply, err := srv.GetRelay(ctx, msg)
					r.Ok = err == nil
					r.Rb = msg.RequestedBlock
					if r.Rb < -9 || r.Rb > hx.Clamp {
						r.Rb = -9
					}
					if reply != nil {
						r.Rseen = reply.SeenBlock
						if reply.Reply != nil {
							r.Hit = true
							data := reply.Reply.Data
							r.Rlen = int64(len(data))
							n, pid, sz, ok := parsePayload(data)
							switch {
							case !ok:
								r.Rpid, r.Eq = -1, false
							case n != nonce:
								r.Rpid, r.Rsz, r.Eq = -2, sz, false
							default:
								r.Rpid, r.Rsz = pid, sz
								want, have := stored[pid]
								if !have {
									want = payload(nonce, pid, sz)
								}
								r.Eq = want != nil && bytes.Equal(want, data)
							}
						}
					}
				default:
					hx.Die("unknown action %q", s.A)
				}
			}()
			out.Emit(r)
		}
	}
}
