// signing replays the Signing.tla vectors (kind, base message, single-field mutation) into the real
// signing code: real secp256k1 keys, sigs.Sign / sigs.ExtractSignerAddress for relay sessions,
// lavaprotocol.SignRelayResponse / lavaprotocol.VerifyRelayReply for replies.  Every message is
// really signed, then the mutation is applied, then it is really verified; request and reply are
// serialised before and after every verification (and every signing) to detect modifications.
// DESIGN.md C25.
//
//	signing <vectors.json> <out.ndjson>
package main

import (
	"bytes"
	"context"
	"crypto/sha256"
	"encoding/json"
	"fmt"
	"os"

	btcSecp256k1 "github.com/btcsuite/btcd/btcec/v2"
	sdk "github.com/cosmos/cosmos-sdk/types"
	"github.com/lavanet/lava/v5/protocol/lavaprotocol"
	"github.com/lavanet/lava/v5/utils/sigs"
	pairingtypes "github.com/lavanet/lava/v5/x/pairing/types"
	"github.com/rs/zerolog"

	"verif/harness/internal/hx"
)

type vector struct {
	Kind  string          `json:"kind"`
	Base  int             `json:"base"`
	Field string          `json:"field"`
	Val    json.RawMessage `json:"val"`
	Layout string          `json:"layout"` // exact | spare | shared (memory layout of reply.Data, replies only)
}

type line struct {
	ID          int             `json:"id"`
	Kind        string          `json:"kind"`
	Base        int             `json:"base"`
	Field       string          `json:"field"`
	Val         json.RawMessage `json:"val"`
	Layout      string          `json:"layout"`
	Verdict     string          `json:"verdict"`  // ok | reject
	Verdict2    string          `json:"verdict2"` // the same check once more on the same objects
	Why         string          `json:"why"`
	RO          bool            `json:"ro"`
	Changed     string          `json:"changed"`
	SignRO      bool            `json:"sign_ro"`
	SignChanged string          `json:"sign_changed"`
}

// ---- value tables (index 0..2 -> concrete value) -------------------------------------------------
var strs = []string{"", "v1", "v\"2 x:\"y"}

func str(i int) string   { return strs[i] }
func u64(i int) uint64   { return []uint64{0, 7, 8}[i] }
func i64(i int) int64    { return []int64{0, 7, 8}[i] }
func block(i int) int64  { return []int64{100, 101, 102}[i] }
func dec(i int) sdk.Dec  { return []sdk.Dec{sdk.ZeroDec(), sdk.MustNewDecFromStr("1.5"), sdk.MustNewDecFromStr("2.25")}[i] }
func salt(i int) []byte  { return [][]byte{nil, sigs.EncodeUint64(1), sigs.EncodeUint64(2)}[i] }
func byts(i int, tag string) []byte {
	if i == 0 {
		return nil
	}
	h := sha256.Sum256([]byte(fmt.Sprintf("%s%d", tag, i)))
	return h[:]
}

func reported(i int) []*pairingtypes.ReportedProvider {
	switch i {
	case 1:
		return []*pairingtypes.ReportedProvider{{Address: "p1", Errors: 1, TimestampS: 5}}
	case 2:
		return []*pairingtypes.ReportedProvider{{Address: "p1", Errors: 2, TimestampS: 5}}
	}
	return nil
}

func badge(i int) *pairingtypes.Badge {
	switch i {
	case 1:
		return &pairingtypes.Badge{CuAllocation: 1, Epoch: 1}
	case 2:
		return &pairingtypes.Badge{CuAllocation: 2, Address: "x"}
	}
	return nil
}

func exts(i int) []string {
	switch i {
	case 1:
		return []string{"e1"}
	case 2:
		return []string{"e1", "e2"}
	}
	return nil
}

func metadata(pairs [][]string) []pairingtypes.Metadata {
	res := []pairingtypes.Metadata{}
	for _, p := range pairs {
		res = append(res, pairingtypes.Metadata{Name: p[0], Value: p[1]})
	}
	return res
}

func baseMd(b int) [][]string {
	if b == 0 {
		return [][]string{}
	}
	return [][]string{{"a", "b"}}
}

func otherReport() *pairingtypes.QualityOfServiceReport {
	d := sdk.MustNewDecFromStr("9.75")
	return &pairingtypes.QualityOfServiceReport{Latency: d, Availability: d, Sync: d}
}

// ---- messages -----------------------------------------------------------------------------------
func mkSession(b int) *pairingtypes.RelaySession {
	return &pairingtypes.RelaySession{
		SpecId:                str(b),
		ContentHash:           byts(b, "ch"),
		SessionId:             u64(b),
		CuSum:                 u64(b),
		Provider:              str(b),
		RelayNum:              u64(b),
		QosReport:             &pairingtypes.QualityOfServiceReport{Latency: dec(b), Availability: dec(b), Sync: dec(b)},
		Epoch:                 i64(b),
		UnresponsiveProviders: reported(b),
		LavaChainId:           str(b),
		Badge:                 badge(b),
		QosExcellenceReport:   &pairingtypes.QualityOfServiceReport{Latency: dec(b), Availability: dec(b), Sync: dec(b)},
	}
}

func mkData(b int) *pairingtypes.RelayPrivateData {
	d := &pairingtypes.RelayPrivateData{
		ConnectionType: str(b),
		ApiUrl:         str(b),
		Data:           byts(b, "data"),
		RequestBlock:   block(b),
		ApiInterface:   str(b),
		Salt:           salt(b),
		Metadata:       metadata(baseMd(b)),
		Addon:          str(b),
		Extensions:     exts(b),
		SeenBlock:      block(b),
		RequestId:      str(b),
	}
	setOneofs(d, "req.task_id", b)
	setOneofs(d, "req.tx_id", b)
	return d
}

func setOneofs(d *pairingtypes.RelayPrivateData, f string, i int) {
	switch f {
	case "req.task_id":
		if i == 0 {
			d.XTaskId = nil
		} else {
			lavaprotocol.SetTaskId(d, str(i))
		}
	case "req.tx_id":
		if i == 0 {
			d.XTxId = nil
		} else {
			lavaprotocol.SetTxId(d, str(i))
		}
	}
}

func mkReply(b int) *pairingtypes.RelayReply {
	return &pairingtypes.RelayReply{
		Data:                  byts(b, "reply"),
		LatestBlock:           block(b) + 1000,
		FinalizedBlocksHashes: byts(b, "fbh"),
		SigBlocks:             byts(b, "sb"),
		Metadata:              metadata(baseMd(b)),
	}
}

func corrupt(sig []byte, i int) []byte {
	s := append([]byte{}, sig...)
	switch i {
	case 1:
		s[len(s)-1] ^= 1
	case 2:
		s = s[:len(s)-1]
	}
	return s
}

func intVal(raw json.RawMessage) int {
	var i int
	if err := json.Unmarshal(raw, &i); err != nil || i < 0 || i > 2 {
		hx.Die("bad scalar value %s", string(raw))
	}
	return i
}

func mdVal(raw json.RawMessage) [][]string {
	var p [][]string
	if err := json.Unmarshal(raw, &p); err != nil {
		hx.Die("bad metadata value %s", string(raw))
	}
	return p
}

func qos(r **pairingtypes.QualityOfServiceReport, sub string, i int, b int) {
	switch sub {
	case "":
		switch i {
		case 1:
			*r = nil
		case 2:
			*r = otherReport()
		}
	case "latency":
		(*r).Latency = dec(i)
	case "availability":
		(*r).Availability = dec(i)
	case "sync":
		(*r).Sync = dec(i)
	}
}

func mutateSession(s *pairingtypes.RelaySession, f string, raw json.RawMessage, b int) {
	i := intVal(raw)
	switch f {
	case "spec_id":
		s.SpecId = str(i)
	case "content_hash":
		s.ContentHash = byts(i, "ch")
	case "session_id":
		s.SessionId = u64(i)
	case "cu_sum":
		s.CuSum = u64(i)
	case "provider":
		s.Provider = str(i)
	case "relay_num":
		s.RelayNum = u64(i)
	case "epoch":
		s.Epoch = i64(i)
	case "lava_chain_id":
		s.LavaChainId = str(i)
	case "unresponsive_providers":
		s.UnresponsiveProviders = reported(i)
	case "badge":
		s.Badge = badge(i)
	case "sig":
		s.Sig = corrupt(s.Sig, i)
	case "qos_report":
		qos(&s.QosReport, "", i, b)
	case "qos_report.latency":
		qos(&s.QosReport, "latency", i, b)
	case "qos_report.availability":
		qos(&s.QosReport, "availability", i, b)
	case "qos_report.sync":
		qos(&s.QosReport, "sync", i, b)
	case "qos_excellence_report":
		qos(&s.QosExcellenceReport, "", i, b)
	case "qos_excellence_report.latency":
		qos(&s.QosExcellenceReport, "latency", i, b)
	case "qos_excellence_report.availability":
		qos(&s.QosExcellenceReport, "availability", i, b)
	case "qos_excellence_report.sync":
		qos(&s.QosExcellenceReport, "sync", i, b)
	default:
		hx.Die("unknown session field %s", f)
	}
}

func mutateExchange(req *pairingtypes.RelayRequest, rep *pairingtypes.RelayReply, f string, raw json.RawMessage) {
	d := req.RelayData
	switch f {
	case "reply.metadata":
		rep.Metadata = metadata(mdVal(raw))
		return
	case "req.metadata":
		d.Metadata = metadata(mdVal(raw))
		return
	}
	i := intVal(raw)
	switch f {
	case "reply.data":
		rep.Data = byts(i, "reply")
	case "reply.latest_block":
		rep.LatestBlock = block(i) + 1000
	case "reply.finalized_blocks_hashes":
		rep.FinalizedBlocksHashes = byts(i, "fbh")
	case "reply.sig_blocks":
		rep.SigBlocks = byts(i, "sb")
	case "sig":
		rep.Sig = corrupt(rep.Sig, i)
	case "req.connection_type":
		d.ConnectionType = str(i)
	case "req.api_url":
		d.ApiUrl = str(i)
	case "req.data":
		d.Data = byts(i, "data")
	case "req.request_block":
		d.RequestBlock = block(i)
	case "req.api_interface":
		d.ApiInterface = str(i)
	case "req.addon":
		d.Addon = str(i)
	case "req.extensions":
		d.Extensions = exts(i)
	case "req.seen_block":
		d.SeenBlock = block(i)
	case "req.request_id":
		d.RequestId = str(i)
	case "req.task_id", "req.tx_id":
		setOneofs(d, f, i)
	case "req.salt":
		d.Salt = salt(i)
	case "req.session.cu_sum":
		req.RelaySession.CuSum = u64(i)
	case "req.session.relay_num":
		req.RelaySession.RelayNum = u64(i)
	default:
		hx.Die("unknown exchange field %s", f)
	}
}

// ---- snapshots ----------------------------------------------------------------------------------
type marshaler interface{ Marshal() ([]byte, error) }

func snap(m marshaler) []byte {
	bz, err := m.Marshal()
	if err != nil {
		hx.Die("marshal: %v", err)
	}
	return bz
}

func cloneReq(r *pairingtypes.RelayRequest) *pairingtypes.RelayRequest {
	c := &pairingtypes.RelayRequest{}
	if err := c.Unmarshal(snap(r)); err != nil {
		hx.Die("unmarshal: %v", err)
	}
	return c
}

func cloneReply(r *pairingtypes.RelayReply) *pairingtypes.RelayReply {
	c := &pairingtypes.RelayReply{}
	if err := c.Unmarshal(snap(r)); err != nil {
		hx.Die("unmarshal: %v", err)
	}
	return c
}

// diffExchange names what differs between two snapshots of (request, reply)
func diffExchange(reqA, reqB *pairingtypes.RelayRequest, repA, repB *pairingtypes.RelayReply, ignoreSig bool) string {
	what := ""
	add := func(s string) {
		if what != "" {
			what += "+"
		}
		what += s
	}
	if !bytes.Equal(reqA.RelayData.Salt, reqB.RelayData.Salt) {
		add("req.salt")
	}
	if reqA.RelayData.RequestBlock != reqB.RelayData.RequestBlock {
		add("req.request_block")
	}
	if !bytes.Equal(reqA.RelayData.Data, reqB.RelayData.Data) {
		add("req.data")
	}
	a, b := cloneReq(reqA), cloneReq(reqB)
	a.RelayData.Data, b.RelayData.Data = nil, nil
	a.RelayData.Salt, b.RelayData.Salt = nil, nil
	a.RelayData.RequestBlock, b.RelayData.RequestBlock = 0, 0
	if !bytes.Equal(snap(a), snap(b)) {
		add("req.other")
	}
	ra, rb := cloneReply(repA), cloneReply(repB)
	if ignoreSig {
		ra.Sig, rb.Sig = nil, nil
	}
	if !bytes.Equal(snap(ra), snap(rb)) {
		add("reply")
	}
	return what
}

// ---- memory layout of reply.Data ------------------------------------------------------------------
const (
	spare    = 8192 // spare capacity behind reply.Data, far more than the signed message needs
	sentinel = 0xEE
)

// rehome makes rep.Data a window buf[:n] of a larger sentinel-filled buffer ("spare": the tail belongs
// to somebody else; "shared": the request's data is a window of the same buffer right behind the
// reply data) or an exactly sized slice ("exact").  It returns the whole backing buffer.
func rehome(req *pairingtypes.RelayRequest, rep *pairingtypes.RelayReply, layout string) []byte {
	n := len(rep.Data)
	switch layout {
	case "", "exact":
		if n > 0 {
			d := make([]byte, n)
			copy(d, rep.Data)
			rep.Data = d
		}
		return nil
	case "spare", "shared":
		big := bytes.Repeat([]byte{sentinel}, n+spare)
		copy(big, rep.Data)
		rep.Data = big[:n]
		if layout == "shared" {
			m := len(req.RelayData.Data)
			copy(big[n:], req.RelayData.Data)
			req.RelayData.Data = big[n : n+m : n+m]
		}
		return big
	}
	hx.Die("unknown layout %q", layout)
	return nil
}

// bufDiff names a change of the backing buffer outside the visible reply/request bytes
func bufDiff(before, after []byte) string {
	if bytes.Equal(before, after) {
		return ""
	}
	return "reply.buffer-tail"
}

func join(a, b string) string {
	if a == "" {
		return b
	}
	if b == "" {
		return a
	}
	return a + "+" + b
}

func verdictOf(err error) string {
	if err == nil {
		return "ok"
	}
	return "reject"
}

func main() {
	if len(os.Args) != 3 {
		hx.Die("usage: signing <vectors.json> <out.ndjson>")
	}
	zerolog.SetGlobalLevel(zerolog.Disabled)
	var vectors []vector
	hx.ReadJSON(os.Args[1], &vectors)
	out := hx.NewOut(os.Args[2])
	defer out.Close()

	consumer := sigs.GenerateDeterministicFloatingKey(sigs.NewZeroReader(11))
	provider := sigs.GenerateDeterministicFloatingKey(sigs.NewZeroReader(22))
	var consumerKey, providerKey *btcSecp256k1.PrivateKey = consumer.SK, provider.SK

	for id, v := range vectors {
		if v.Layout == "" {
			v.Layout = "exact"
		}
		ln := line{ID: id, Kind: v.Kind, Base: v.Base, Field: v.Field, Val: v.Val, Layout: v.Layout, RO: true, SignRO: true}
		switch v.Kind {
		case "session":
			s := mkSession(v.Base)
			pre := snap(s)
			sig, err := sigs.Sign(consumerKey, *s)
			if err != nil {
				hx.Die("sign session: %v", err)
			}
			if !bytes.Equal(pre, snap(s)) {
				ln.SignRO, ln.SignChanged = false, "session"
			}
			s.Sig = sig
			mutateSession(s, v.Field, v.Val, v.Base)
			before := snap(s)
			addr, err := sigs.ExtractSignerAddress(*s)
			switch {
			case err != nil:
				ln.Verdict, ln.Why = "reject", "error"
			case addr.Equals(consumer.Addr):
				ln.Verdict = "ok"
			default:
				ln.Verdict, ln.Why = "reject", "other signer"
			}
			if !bytes.Equal(before, snap(s)) {
				ln.RO, ln.Changed = false, "session"
			}
			addr2, err2 := sigs.ExtractSignerAddress(*s)
			ln.Verdict2 = "reject"
			if err2 == nil && addr2.Equals(consumer.Addr) {
				ln.Verdict2 = "ok"
			}
		case "reply":
			// the consumer's request, signed by the consumer as ConstructRelayRequest does
			req := &pairingtypes.RelayRequest{RelaySession: mkSession(v.Base), RelayData: mkData(v.Base)}
			req.RelaySession.ContentHash = sigs.HashMsg(req.RelayData.GetContentHashData())
			ssig, err := sigs.Sign(consumerKey, *req.RelaySession)
			if err != nil {
				hx.Die("sign session: %v", err)
			}
			req.RelaySession.Sig = ssig
			// provider side: its own copy of the request (received over the wire) and its reply
			reqP, repP := cloneReq(req), mkReply(v.Base)
			bigP := rehome(reqP, repP, v.Layout)
			reqP0, repP0, bigP0 := cloneReq(reqP), cloneReply(repP), append([]byte(nil), bigP...)
			signed, err := lavaprotocol.SignRelayResponse(consumer.Addr, *reqP, providerKey, repP)
			if err != nil {
				hx.Die("SignRelayResponse: %v", err)
			}
			if d := join(diffExchange(reqP0, reqP, repP0, repP, true), bufDiff(bigP0, bigP)); d != "" {
				ln.SignRO, ln.SignChanged = false, d
			}
			// consumer side: its own request object, the reply as received, placed in memory as `layout` says
			reqC, repC := cloneReq(req), cloneReply(signed)
			mutateExchange(reqC, repC, v.Field, v.Val)
			bigC := rehome(reqC, repC, v.Layout)
			reqC0, repC0, bigC0 := cloneReq(reqC), cloneReply(repC), append([]byte(nil), bigC...)
			err = lavaprotocol.VerifyRelayReply(context.Background(), repC, reqC, provider.Addr.String())
			ln.Verdict = verdictOf(err)
			if err != nil {
				ln.Why = "error"
			}
			if d := join(diffExchange(reqC0, reqC, repC0, repC, false), bufDiff(bigC0, bigC)); d != "" {
				ln.RO, ln.Changed = false, d
			}
			// the same objects checked once more
			ln.Verdict2 = verdictOf(lavaprotocol.VerifyRelayReply(context.Background(), repC, reqC, provider.Addr.String()))
		default:
			hx.Die("unknown kind %s", v.Kind)
		}
		out.Emit(ln)
	}
}
