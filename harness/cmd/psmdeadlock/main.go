// psmdeadlock: probe for the recursive read lock in ProviderSessionManager.UpdateSessionCU
// (psm.lock.RLock held while readConsumerToPairedWithProjectMap takes psm.lock.RLock again) against a
// concurrent writer (UpdateEpoch). Prints {"deadlock":true|false}. Uses the usc_rlocked yield point.
package main

import (
	"context"
	"fmt"
	"time"

	"github.com/lavanet/lava/v5/protocol/lavasession"
	"github.com/lavanet/lava/v5/utils"
)

func main() {
	utils.SetGlobalLoggingLevel("fatal")
	psm := lavasession.NewProviderSessionManager(&lavasession.RPCProviderEndpoint{ChainID: "LAV1", ApiInterface: "rest"}, 5)
	psm.UpdateEpoch(10)
	ctx := context.Background()
	s, err := psm.RegisterProviderSessionWithConsumer(ctx, "consumer1", 10, 7, 1, 100, 1, "project1")
	if err != nil {
		panic(err)
	}
	if err = s.PrepareSessionForUsage(ctx, 10, 10, 0, 0); err != nil {
		panic(err)
	}
	if err = psm.OnSessionDone(s, 1); err != nil {
		panic(err)
	}
	at := make(chan struct{})
	goOn := make(chan struct{})
	lavasession.VerifYield = func(point string, id uint64) {
		if point == "usc_rlocked" {
			at <- struct{}{}
			<-goOn
		}
	}
	doneU := make(chan struct{})
	doneE := make(chan struct{})
	go func() { psm.UpdateSessionCU("consumer1", 10, 7, 25); close(doneU) }()
	<-at // the updater holds psm.lock.RLock
	go func() { psm.UpdateEpoch(12); close(doneE) }()
	time.Sleep(200 * time.Millisecond) // the writer is now waiting in psm.lock.Lock
	close(goOn)                        // the updater takes psm.lock.RLock again
	dead := false
	select {
	case <-doneU:
	case <-time.After(3 * time.Second):
		dead = true
	}
	third := make(chan struct{})
	go func() { psm.IsValidEpoch(10); psm.IsActiveProject(10, "project1"); close(third) }()
	blocked := false
	select {
	case <-third:
	case <-time.After(time.Second):
		blocked = true
	}
	fmt.Printf("{\"deadlock\":%v,\"other_callers_blocked\":%v}\n", dead, blocked)
}
