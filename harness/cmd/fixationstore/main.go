// fixationstore replays FixationStore.tla behaviours into the real x/fixationstore FixationStore
// (stand-alone in-memory multistore, real x/timerstore keeper ticking in BeginBlock) and records,
// after every step, every observable answer (Find for every (index, block), Get, Has, Versions)
// and the internal bookkeeping (entries, timers, index liveness) - DESIGN.md C14.
//
//	fixationstore <behaviours.json> <trace.ndjson> <qmax> <stale> <indices,comma,separated>
//
// A behaviour ends at the first Go panic (the store may be half written after it).
package main

import (
	"encoding/binary"
	"fmt"
	"io"
	"os"
	"sort"
	"strconv"
	"strings"

	sdk "github.com/cosmos/cosmos-sdk/types"
	fixationkeeper "github.com/lavanet/lava/v5/x/fixationstore/keeper"
	fixationtypes "github.com/lavanet/lava/v5/x/fixationstore/types"
	timerstorekeeper "github.com/lavanet/lava/v5/x/timerstore/keeper"
	zerologlog "github.com/rs/zerolog/log"

	"verif/harness/internal/hx"
)

type step struct {
	A string `json:"a"`
	X string `json:"x"`
	B uint64 `json:"b"`
	D int64  `json:"d"`
}

type rec struct {
	Ev     string               `json:"ev"`
	X      string               `json:"x"`
	B      uint64               `json:"b"`
	D      int64                `json:"d"`
	Res    string               `json:"res"`
	Panic  bool                 `json:"panic"`
	PanicS string               `json:"panics,omitempty"`
	Now    uint64               `json:"now"`
	Find   map[string][][2]int64 `json:"find"` // per index: answer for block 0..qmax = [version|-1, data]
	Get    map[string][2]int64  `json:"get"`
	Vers   map[string][]uint64  `json:"vers"`
	Has    map[string][]uint64  `json:"has"`
	Ents   map[string][][6]int64 `json:"ents"` // [version, refcount, latest, deleteAt, staleAt, data]
	Timers [][]interface{}      `json:"timers"`
	Live   map[string]string    `json:"live"`
	Beh    int                  `json:"beh"`
	Step   int                  `json:"step"`
}

func coin(d int64) *sdk.Coin {
	c := sdk.NewCoin("utest", sdk.NewInt(d))
	return &c
}

func main() {
	if len(os.Args) != 6 {
		hx.Die("usage: fixationstore behaviours.json trace.ndjson qmax stale indices")
	}
	// lava's logger prints a stack trace for every LavaFormatPanic; the panic value itself is kept
	zerologlog.Logger = zerologlog.Output(io.Discard)
	var behs [][]step
	hx.ReadJSON(os.Args[1], &behs)
	out := hx.NewOut(os.Args[2])
	defer out.Close()
	qmax, _ := strconv.ParseUint(os.Args[3], 10, 64)
	stale, _ := strconv.ParseUint(os.Args[4], 10, 64)
	indices := strings.Split(os.Args[5], ",")

	for bi, beh := range behs {
		ctx, keys, cdc := hx.StoreCtx("k")
		tk := timerstorekeeper.NewKeeper(cdc)
		fk := fixationkeeper.NewKeeper(cdc, tk, func(sdk.Context) uint64 { return stale })
		fs := fk.NewFixationStore(keys["k"], "p")
		fs.Init(ctx, *fixationtypes.DefaultGenesis())

		snapshot := func(r *rec) {
			defer func() {
				if x := recover(); x != nil {
					r.Panic = true
					r.PanicS += " | snapshot: " + fmt.Sprint(x)
				}
			}()
			now := uint64(ctx.BlockHeight())
			r.Now = now
			r.Find = map[string][][2]int64{}
			r.Get = map[string][2]int64{}
			r.Vers = map[string][]uint64{}
			r.Has = map[string][]uint64{}
			r.Ents = map[string][][6]int64{}
			r.Live = map[string]string{}
			r.Timers = [][]interface{}{}
			for _, x := range indices {
				ans := make([][2]int64, 0, qmax+1)
				for b := uint64(0); b <= qmax; b++ {
					var c sdk.Coin
					if fs.FindEntry(ctx, x, b, &c) {
						var c2 sdk.Coin
						v, _, _, found2 := fs.FindEntryDetailed(ctx, x, b, &c2)
						if !found2 || !c2.IsEqual(c) {
							ans = append(ans, [2]int64{-2, 0})
						} else {
							ans = append(ans, [2]int64{int64(v), c.Amount.Int64()})
						}
					} else {
						ans = append(ans, [2]int64{-1, 0})
					}
				}
				r.Find[x] = ans
				// what GetEntry would answer now (on a branch of the store that is discarded)
				cctx, _ := ctx.CacheContext()
				var c sdk.Coin
				if fs.GetEntry(cctx, x, &c) {
					var c2 sdk.Coin
					v, _, _, f2 := fs.FindEntryDetailed(ctx, x, now, &c2)
					if !f2 {
						r.Get[x] = [2]int64{-2, c.Amount.Int64()}
					} else {
						r.Get[x] = [2]int64{int64(v), c.Amount.Int64()}
					}
				} else {
					r.Get[x] = [2]int64{-1, 0}
				}
				vers := fs.GetAllEntryVersions(ctx, x)
				if vers == nil {
					vers = []uint64{}
				}
				r.Vers[x] = vers
				has := []uint64{}
				for b := uint64(0); b <= qmax+2; b++ {
					if fs.HasEntry(ctx, x, b) {
						has = append(has, b)
					}
				}
				r.Has[x] = has
				r.Live[x] = "none"
				r.Ents[x] = [][6]int64{}
			}
			gs := fs.Export(ctx)
			for _, ge := range gs.Entries {
				if ge.IsLive {
					r.Live[ge.Index] = "live"
				} else {
					r.Live[ge.Index] = "dead"
				}
				for _, e := range ge.Entries {
					var c sdk.Coin
					cdc.MustUnmarshal(e.Data, &c)
					l := int64(0)
					if e.IsLatest {
						l = 1
					}
					r.Ents[ge.Index] = append(r.Ents[ge.Index], [6]int64{int64(e.Block), int64(e.Refcount), l,
						int64(hx.C(e.DeleteAt)), int64(hx.C(e.StaleAt)), c.Amount.Int64()})
				}
			}
			for _, te := range gs.Timerstore.BlockEntries {
				k := []byte(te.Key)
				if len(k) < 10 {
					r.Timers = append(r.Timers, []interface{}{int64(te.Value), int64(-1), int64(-1), "?"})
					continue
				}
				idx := string(k[9 : len(k)-1]) // strip the DEL terminator of the sanitized index
				r.Timers = append(r.Timers, []interface{}{int64(te.Value), int64(k[0]), int64(binary.BigEndian.Uint64(k[1:9])), idx})
			}
			sort.Slice(r.Timers, func(i, j int) bool { return fmt.Sprint(r.Timers[i]) < fmt.Sprint(r.Timers[j]) })
		}

		r0 := rec{Ev: "reset", Beh: bi}
		snapshot(&r0)
		out.Emit(r0)
		for si, s := range beh {
			r := rec{Ev: s.A, X: s.X, B: s.B, D: s.D, Beh: bi, Step: si + 1}
			func() {
				defer func() {
					if x := recover(); x != nil {
						r.Panic = true
						r.PanicS = fmt.Sprint(x)
					}
				}()
				switch s.A {
				case "append":
					if err := fs.AppendEntry(ctx, s.X, s.B, coin(s.D)); err != nil {
						r.Res = "err"
					} else {
						r.Res = "ok"
					}
				case "modify":
					fs.ModifyEntry(ctx, s.X, s.B, coin(s.D))
					r.Res = "ok"
				case "get":
					var c sdk.Coin
					if fs.GetEntry(ctx, s.X, &c) {
						r.Res = "found"
					} else {
						r.Res = "notfound"
					}
				case "put":
					fs.PutEntry(ctx, s.X, s.B)
					r.Res = "ok"
				case "del":
					if err := fs.DelEntry(ctx, s.X, s.B); err != nil {
						r.Res = "err"
					} else {
						r.Res = "ok"
					}
				case "tick":
					ctx = ctx.WithBlockHeight(ctx.BlockHeight() + 1)
					tk.BeginBlock(ctx)
				default:
					hx.Die("unknown action %q", s.A)
				}
			}()
			snapshot(&r)
			out.Emit(r)
			if r.Panic {
				break
			}
		}
	}
}
