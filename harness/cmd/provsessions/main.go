// provsessions replays ProviderSessions.tla schedules on the real lavasession.ProviderSessionManager
// with a gate scheduler (DESIGN.md C27).
//
//	provsessions <behaviours.json> <trace.ndjson>
//
// Every process of a behaviour (relay r*, updater u*, epoch updater e*) is one goroutine. A goroutine
// parks at every yield point: the harness-level ones between two public calls and the build-tagged
// hooks inside the package (lavasession.VerifYield). The scheduler releases exactly one goroutine per
// schedule step and waits until it parks again or finishes; after every step the projected abstract
// state is read back (all goroutines are parked, so nothing moves) and written as one NDJSON line.
package main

import (
	"bytes"
	"context"
	"encoding/json"
	"fmt"
	"os"
	"runtime"
	"sort"
	"strconv"
	"strings"
	"sync"
	"time"

	"github.com/lavanet/lava/v5/protocol/lavasession"
	"github.com/lavanet/lava/v5/utils"

	"verif/harness/internal/hx"
)

type relayPar struct {
	Sid   uint64 `json:"sid"`
	Rn    uint64 `json:"rn"`
	Cu    uint64 `json:"cu"`
	Total uint64 `json:"total"`
	Fail  bool   `json:"fail"`
	Cons  int    `json:"cons"` // which consumer of the project sends the relay (1 or 2)
}

type updPar struct {
	Sid   uint64 `json:"sid"`
	Newcu uint64 `json:"newcu"`
}

type prePar struct {
	Sid uint64 `json:"sid"`
	Cu  uint64 `json:"cu"`
}

type params struct {
	Rel     map[string]relayPar `json:"rel"`
	Upd     map[string]updPar   `json:"upd"`
	Ep      map[string]uint64   `json:"ep"`
	Pre     []prePar            `json:"pre"`
	Maxcu   uint64              `json:"maxcu"`
	Ve      uint64              `json:"ve"`
	Misscap uint64              `json:"misscap"`
	Epoch   uint64              `json:"epoch"`
	Epoch0  uint64              `json:"epoch0"`
	Dist    uint64              `json:"dist"`
}

type behaviour struct {
	Par   params   `json:"par"`
	Sched []string `json:"sched"`
}

type obj struct {
	Sid      uint64 `json:"sid"`
	CuSum    uint64 `json:"cuSum"`
	Latest   uint64 `json:"latest"`
	RelayNum uint64 `json:"relayNum"`
	Locked   bool   `json:"locked"`
}

type rec struct {
	Ev      string            `json:"ev"` // reset | step | skip | blocked
	Beh     int               `json:"beh"`
	P       string            `json:"p"`
	Drain   bool              `json:"drain"`
	Par     *params           `json:"par,omitempty"`
	Pc      map[string]string `json:"pc"`
	Out     map[string]string `json:"out"`
	Objs    []obj             `json:"objs"`
	Smap    [][2]uint64       `json:"smap"` // pairs (sid, object index)
	Used    uint64            `json:"used"`
	Missing uint64            `json:"missing"`
	Reg     bool              `json:"reg"`
	Npswc   int               `json:"npswc"` // project entries (ProviderSessionsWithConsumerProject objects) seen so far
	Blocked uint64            `json:"blocked"`
	Cur     uint64            `json:"cur"`
	Mine    map[string]uint64 `json:"mine"`
	Clamped bool              `json:"clamped"`
}

const (
	consumer  = "consumer1"
	consumer2 = "consumer2"
	project   = "project1"
	// allowedThreshold*maxcu must equal par.misscap (checked)
	stepWait = 3 * time.Second
)

// hook point -> spec label
var hookLabel = map[string]string{
	"reg_before_register":   "regnew",
	"reg_before_getsession": "regget",
	"psc_before_lock":       "create",
	"add_cu_read":           "addcas",
	"sub_cu_read":           "subcas",
	"usc_loaded":            "uloaded",
	"usc_swapped":           "uswapped",
	"usc_parent_read":       "uparent", // exists only in the code before fix F8
}

// ---------------------------------------------------------------------------------------------
// gate scheduler

type proc struct {
	name    string
	release chan struct{}
	parked  chan string // label at which the goroutine parked, or "fin"
	pc      string
	out     string
	sess    *lavasession.SingleProviderSession
}

type sched struct {
	mu    sync.Mutex
	byGid map[uint64]*proc
}

var cur *sched

func goid() uint64 {
	var buf [64]byte
	n := runtime.Stack(buf[:], false)
	// "goroutine 123 ["
	f := bytes.Fields(buf[:n])
	id, _ := strconv.ParseUint(string(f[1]), 10, 64)
	return id
}

func (s *sched) me() *proc {
	g := goid()
	s.mu.Lock()
	defer s.mu.Unlock()
	return s.byGid[g]
}

// park blocks the calling goroutine at a yield point until the scheduler releases it
func (p *proc) park(label string) {
	p.parked <- label
	<-p.release
}

func hook(point string, id uint64) {
	s := cur
	if s == nil {
		return
	}
	label, ok := hookLabel[point]
	if !ok {
		return // yield points that this model does not use (e.g. usc_rlocked)
	}
	p := s.me()
	if p == nil {
		return // set-up code running on the main goroutine
	}
	p.park(label)
}

func classify(err error) string {
	if err == nil {
		return "ok"
	}
	m := err.Error()
	switch {
	case lavasession.InvalidEpochError.Is(err) || strings.Contains(m, "InvalidEpoch"):
		return "invalid_epoch"
	case lavasession.ConsumerNotRegisteredYet.Is(err):
		return "not_registered_yet"
	case strings.Contains(m, "tryLockForUse failure"):
		return "busy"
	case strings.Contains(m, "RelayNum mismatch"):
		return "out_of_sync"
	case lavasession.MaximumCULimitReachedByConsumer.Is(err) || strings.Contains(m, "Maximum cu exceeded"):
		return "max_cu"
	case lavasession.ProviderConsumerCuMisMatch.Is(err) || strings.Contains(m, "CU mismatch"):
		return "cu_mismatch"
	case lavasession.SessionIdNotFoundError.Is(err) || strings.Contains(m, "SessionIdNotFound"):
		return "no_session"
	case lavasession.EpochIsNotRegisteredError.Is(err) || lavasession.ConsumerIsNotRegisteredError.Is(err) ||
		strings.Contains(m, "IsNotRegistered") || strings.Contains(m, "is not registered"):
		return "not_registered"
	}
	return "error:" + m
}

type world struct {
	par   params
	psm   *lavasession.ProviderSessionManager
	pswc  *lavasession.ProviderSessionsWithConsumerProject   // the entry whose session map is projected
	pswcs []*lavasession.ProviderSessionsWithConsumerProject // every entry ever seen (a second one is never expected)
	thr   float64
	procs map[string]*proc
	names []string
	ids   map[*lavasession.SingleProviderSession]uint64
	order []*lavasession.SingleProviderSession
}

func (w *world) runRelay(p *proc, r relayPar) string {
	ctx := context.Background()
	cons := consumer
	if r.Cons == 2 {
		cons = consumer2
	}
	p.park("start")
	sess, err := w.psm.GetSession(ctx, cons, w.par.Epoch, r.Sid, r.Rn)
	if err != nil && lavasession.ConsumerNotRegisteredYet.Is(err) {
		p.park("register")
		sess, err = w.psm.RegisterProviderSessionWithConsumer(ctx, cons, w.par.Epoch, r.Sid, r.Rn, w.par.Maxcu, 2, project)
	}
	if err != nil {
		return classify(err)
	}
	p.sess = sess
	p.park("got")
	err = sess.PrepareSessionForUsage(ctx, r.Cu, r.Total, w.thr, w.par.Ve)
	if err != nil {
		sess.DisbandSession() // what initRelay does
		p.sess = nil
		return classify(err)
	}
	p.park("work")
	if r.Fail {
		stale := !w.psm.IsValidEpoch(sess.PairingEpoch)
		err = w.psm.OnSessionFailure(sess, r.Rn)
		p.sess = nil
		if err != nil {
			return classify(err)
		}
		if stale {
			return "failed_stale"
		}
		return "failed"
	}
	err = w.psm.OnSessionDone(sess, r.Rn)
	p.sess = nil
	return classify(err)
}

func (w *world) runUpd(p *proc, u updPar) string {
	p.park("start")
	err := w.psm.UpdateSessionCU(consumer, w.par.Epoch, u.Sid, u.Newcu)
	if err != nil {
		return classify(err)
	}
	return "ok" // "ok" and "noop" are told apart by the trace spec (UpdateSessionCU returns nil for both)
}

func (w *world) runEp(p *proc, n uint64) string {
	p.park("start")
	before := w.psm.GetCurrentEpochAtomic()
	w.psm.UpdateEpoch(n)
	if w.psm.GetCurrentEpochAtomic() == before {
		return "rejected"
	}
	return "ok"
}

func (w *world) spawn(name string, body func(p *proc) string) {
	p := &proc{name: name, release: make(chan struct{}), parked: make(chan string, 1), pc: "new", out: "none"}
	w.procs[name] = p
	w.names = append(w.names, name)
	ready := make(chan struct{})
	go func() {
		cur.mu.Lock()
		cur.byGid[goid()] = p
		cur.mu.Unlock()
		close(ready)
		o := body(p)
		p.out = o
		p.parked <- "fin"
	}()
	<-ready
	p.pc = <-p.parked // "start"
}

// step releases p and waits until it parks again or finishes. false = it did neither (blocked).
func (w *world) step(p *proc) bool {
	p.release <- struct{}{}
	select {
	case l := <-p.parked:
		p.pc = l
		return true
	case <-time.After(stepWait):
		return false
	}
}

func clamp(v uint64, c *bool) uint64 {
	if v > hx.Clamp {
		*c = true
		return hx.Clamp
	}
	return v
}

func (w *world) objID(s *lavasession.SingleProviderSession) uint64 {
	if s == nil {
		return 0
	}
	if id, ok := w.ids[s]; ok {
		return id
	}
	w.order = append(w.order, s)
	w.ids[s] = uint64(len(w.order))
	return w.ids[s]
}

// project reads the abstract state back; called only while every goroutine is parked
func (w *world) project(r *rec) {
	r.Pc = map[string]string{}
	r.Out = map[string]string{}
	r.Mine = map[string]uint64{}
	seen := func(p *lavasession.ProviderSessionsWithConsumerProject) {
		if p == nil {
			return
		}
		for _, q := range w.pswcs {
			if q == p {
				return
			}
		}
		w.pswcs = append(w.pswcs, p)
	}
	r.Reg = false
	if p, err := w.psm.IsActiveProject(w.par.Epoch, project); err == nil && p != nil {
		r.Reg = true
		seen(p)
		w.pswc = p // the live entry
	}
	for _, n := range w.names {
		if s := w.procs[n].sess; s != nil {
			seen(s.VerifParent())
		}
	}
	for _, s := range w.order {
		seen(s.VerifParent())
	}
	if w.pswc == nil && len(w.pswcs) > 0 {
		w.pswc = w.pswcs[len(w.pswcs)-1]
	}
	r.Npswc = len(w.pswcs)
	r.Smap = [][2]uint64{}
	r.Objs = []obj{}
	// sessions of every entry get their index in order of first observation (entries in order seen, sids ascending)
	for _, q := range w.pswcs {
		q.Lock.RLock()
		sids := make([]uint64, 0, len(q.Sessions))
		for sid := range q.Sessions {
			sids = append(sids, sid)
		}
		sort.Slice(sids, func(i, j int) bool { return sids[i] < sids[j] })
		for _, sid := range sids {
			w.objID(q.Sessions[sid])
		}
		if q == w.pswc {
			for _, sid := range sids {
				r.Smap = append(r.Smap, [2]uint64{sid, w.objID(q.Sessions[sid])})
			}
		}
		q.Lock.RUnlock()
		// used / missing CU accepted for the project in this epoch = sum over all its entries
		r.Used += q.VerifUsedComputeUnits()
		r.Missing += q.VerifMissingComputeUnits()
	}
	r.Used = clamp(r.Used, &r.Clamped)
	r.Missing = clamp(r.Missing, &r.Clamped)
	for _, n := range w.names {
		p := w.procs[n]
		r.Pc[n] = p.pc
		r.Out[n] = p.out
		r.Mine[n] = w.objID(p.sess)
	}
	for _, s := range w.order {
		r.Objs = append(r.Objs, obj{Sid: s.SessionID, CuSum: clamp(s.CuSum, &r.Clamped), Latest: clamp(s.LatestRelayCu, &r.Clamped),
			RelayNum: clamp(s.RelayNum, &r.Clamped), Locked: s.VerifIsLocked()})
	}
	r.Blocked = w.psm.GetBlockedEpochHeight()
	r.Cur = w.psm.GetCurrentEpochAtomic()
}

func runBehaviour(bi int, b behaviour, out *hx.Out) (blocked bool) {
	w := &world{par: b.Par, procs: map[string]*proc{}, ids: map[*lavasession.SingleProviderSession]uint64{}}
	w.thr = float64(b.Par.Misscap) / float64(b.Par.Maxcu)
	if uint64(float64(b.Par.Maxcu)*w.thr) != b.Par.Misscap {
		hx.Die("misscap %d is not representable as threshold of maxcu %d", b.Par.Misscap, b.Par.Maxcu)
	}
	cur = &sched{byGid: map[uint64]*proc{}}
	w.psm = lavasession.NewProviderSessionManager(&lavasession.RPCProviderEndpoint{ChainID: "LAV1", ApiInterface: "rest"}, b.Par.Dist)
	w.psm.UpdateEpoch(b.Par.Epoch0)
	ctx := context.Background()
	for _, pre := range b.Par.Pre { // sequential set-up on the main goroutine (hooks pass through)
		s, err := w.psm.GetSession(ctx, consumer, b.Par.Epoch, pre.Sid, 1)
		if err != nil {
			s, err = w.psm.RegisterProviderSessionWithConsumer(ctx, consumer, b.Par.Epoch, pre.Sid, 1, b.Par.Maxcu, 1, project)
		}
		if err != nil {
			hx.Die("setup GetSession: %v", err)
		}
		if err = s.PrepareSessionForUsage(ctx, pre.Cu, pre.Cu, w.thr, b.Par.Ve); err != nil {
			hx.Die("setup Prepare: %v", err)
		}
		if err = w.psm.OnSessionDone(s, 1); err != nil {
			hx.Die("setup Done: %v", err)
		}
	}
	var names []string
	for n := range b.Par.Rel {
		names = append(names, n)
	}
	for n := range b.Par.Upd {
		names = append(names, n)
	}
	for n := range b.Par.Ep {
		names = append(names, n)
	}
	sort.Strings(names)
	for _, n := range names {
		n := n
		if r, ok := b.Par.Rel[n]; ok {
			w.spawn(n, func(p *proc) string { return w.runRelay(p, r) })
		} else if u, ok := b.Par.Upd[n]; ok {
			w.spawn(n, func(p *proc) string { return w.runUpd(p, u) })
		} else {
			e := b.Par.Ep[n]
			w.spawn(n, func(p *proc) string { return w.runEp(p, e) })
		}
	}
	r := rec{Ev: "reset", Beh: bi, Par: &b.Par}
	w.project(&r)
	out.Emit(r)
	one := func(n string, drain bool) bool {
		p := w.procs[n]
		r := rec{Ev: "step", Beh: bi, P: n, Drain: drain}
		if p == nil || p.pc == "fin" {
			r.Ev = "skip"
		} else if !w.step(p) {
			r.Ev = "blocked"
			p.pc = "blocked"
		}
		w.project(&r)
		out.Emit(r)
		return r.Ev != "blocked"
	}
	for _, n := range b.Sched {
		if !one(n, false) {
			return true
		}
	}
	// drain: let everything finish (round robin) so that the quiescent state is observed
	for round := 0; round < 400; round++ {
		progressed := false
		for _, n := range w.names {
			if w.procs[n].pc != "fin" {
				if !one(n, true) {
					return true
				}
				progressed = true
			}
		}
		if !progressed {
			break
		}
	}
	return false
}

const maxBlocked = 5

func main() {
	if len(os.Args) != 3 {
		hx.Die("usage: provsessions <behaviours.json> <trace.ndjson>")
	}
	utils.SetGlobalLoggingLevel("fatal")
	var behs []behaviour
	raw, err := os.ReadFile(os.Args[1])
	if err != nil {
		hx.Die("read: %v", err)
	}
	if err := json.Unmarshal(raw, &behs); err != nil {
		hx.Die("parse: %v", err)
	}
	lavasession.VerifYield = hook
	out := hx.NewOut(os.Args[2])
	nblocked := 0
	aborted := false
	for i, b := range behs {
		if nblocked >= maxBlocked {
			aborted = true // the code obviously does not follow the model: stop, the check reports drift / the violation found so far
			break
		}
		if runBehaviour(i, b, out) {
			nblocked++
			// goroutines of this behaviour are stuck on a real lock; leave them behind
		}
	}
	out.Close()
	fmt.Printf("{\"behaviours\":%d,\"blocked\":%d,\"aborted\":%v}\n", len(behs), nblocked, aborted)
}
