// selector binds specs/Selector.tla to the real provideroptimizer.WeightedSelector (C35).
//
//	selector <input.json> <trace.ndjson>
//
// input = {"seed":S,"draws":D,"provs":[...],"sel":[{ignored,nodata,k}],"grid":{a,l,s,k value lists},"lat":[{g,pairs}]}
//
// sel : for every configuration (enumerated by TLC) the real CalculateProviderScores filters the
// candidates (ignored providers, providers without QoS data), the weights are then set to the dyadic
// values k/8 and the real SelectProviderWithStats draws D times from the seeded RNG
// (SetDeterministicSeed).  The driver mirrors the same math/rand sequence, so it knows the uniform
// draw u, checks RNGValue = u*total and logs the cell ceil(8*RNGValue) together with the pick.
// lat : for every (strategy, adaptive bounds) group and every (grid point, improved coordinate) pair the
// real CalculateScore is evaluated on both points; the three-way comparison and the range flags are logged.
package main

import (
	"context"
	"fmt"
	"math"
	stdrand "math/rand"
	"os"
	"time"

	sdk "github.com/cosmos/cosmos-sdk/types"
	"github.com/lavanet/lava/v5/protocol/provideroptimizer"
	"github.com/lavanet/lava/v5/utils"
	pairingtypes "github.com/lavanet/lava/v5/x/pairing/types"

	"verif/harness/internal/hx"
)

type M = map[string]interface{}

type selCfg struct {
	Ignored []string       `json:"ignored"`
	Nodata  []string       `json:"nodata"`
	K       map[string]int `json:"k"`
}

type latGroup struct {
	Strategy int    `json:"strategy"`
	LW       string `json:"lw"`
	SW       string `json:"sw"`
}

// window returns the (p10, p90) pair a getter of the given kind answers; scale = typical magnitude
// (latency: seconds, sync: seconds of lag).  NaN / Inf cannot travel through JSON, so the driver owns them.
func window(kind string, lo, hi, eq float64) (float64, float64) {
	switch kind {
	case "valid":
		return lo, hi
	case "tight":
		return eq, eq * 1.0000001
	case "equal":
		return eq, eq
	case "reversed":
		return hi, lo
	case "zero":
		return 0, hi
	case "bothzero":
		return 0, 0
	case "negative":
		return -lo, hi
	case "nan10":
		return math.NaN(), hi
	case "nan90":
		return lo, math.NaN()
	case "inf90":
		return lo, math.Inf(1)
	case "neginf10":
		return math.Inf(-1), hi
	}
	return 0, 0
}

type input struct {
	Seed  int64    `json:"seed"`
	Draws int      `json:"draws"`
	Provs []string `json:"provs"`
	Sel   []selCfg `json:"sel"`
	Grid  struct {
		A []string  `json:"a"`
		L []string  `json:"l"`
		S []string  `json:"s"`
		K []int64   `json:"k"`
		O int64     `json:"others"`
		B []float64 `json:"bounds"` // latency p10,p90,equal value, sync p10,p90,equal value
	} `json:"grid"`
	Pairs     [][]interface{} `json:"pairs"`
	Lat       []latGroup      `json:"lat"`
	RealDraws int             `json:"realDraws"`
}

func qos(a, l, s string) *pairingtypes.QualityOfServiceReport {
	return &pairingtypes.QualityOfServiceReport{Availability: sdk.MustNewDecFromStr(a), Latency: sdk.MustNewDecFromStr(l), Sync: sdk.MustNewDecFromStr(s)}
}

func clampInt(x float64) int {
	if math.IsNaN(x) {
		return -1
	}
	if x > 2 {
		return 2000000
	}
	if x < -2 {
		return -2000000
	}
	return int(x * 1e6)
}

func sign(x float64) int {
	if x > 0 {
		return 1
	}
	if x < 0 {
		return -1
	}
	return 0
}

func set(xs []string) map[string]struct{} {
	m := map[string]struct{}{}
	for _, x := range xs {
		m[x] = struct{}{}
	}
	return m
}

func main() {
	if len(os.Args) != 3 {
		hx.Die("usage: selector <input.json> <trace.ndjson>")
	}
	var in input
	hx.ReadJSON(os.Args[1], &in)
	utils.SetGlobalLoggingLevel("fatal")
	out := hx.NewOut(os.Args[2])
	ctx := context.Background()

	// ---------------- selection
	ws := provideroptimizer.NewWeightedSelector(provideroptimizer.DefaultWeightedSelectorConfig())
	ws.SetDeterministicSeed(in.Seed)
	mirror := stdrand.New(stdrand.NewSource(in.Seed))
	minChance := ws.GetConfig().MinSelectionChance
	for ci, c := range in.Sel {
		ign, nod := set(c.Ignored), set(c.Nodata)
		getter := func(addr string) (*pairingtypes.QualityOfServiceReport, time.Time, bool) {
			if _, no := nod[addr]; no {
				return nil, time.Time{}, false
			}
			return qos("0.97", "0.3", "12"), time.Now(), true
		}
		stake := func(addr string) int64 { return 10 }
		scores, _, details := ws.CalculateProviderScores(in.Provs, ign, getter, stake)
		weightsOk := true
		scored := []string{}
		for i := range scores {
			w := scores[i].SelectionWeight
			if !(w >= minChance && w <= 1.0) {
				weightsOk = false
			}
			scored = append(scored, scores[i].Address)
			scores[i].SelectionWeight = float64(c.K[scores[i].Address]) / 8.0
			scores[i].CompositeScore = scores[i].SelectionWeight
		}
		total := 0.0
		total8 := 0
		for _, s := range scores {
			total += s.SelectionWeight
			total8 += c.K[s.Address]
		}
		for d := 0; d < in.Draws; d++ {
			pick, stats := ws.SelectProviderWithStats(ctx, scores, details)
			cell, ucmp := 0, 0
			rng := 0.0
			if len(scores) >= 2 {
				if total > 0 {
					u := mirror.Float64()
					rng = stats.RNGValue
					ucmp = sign(u*total - rng)
					cell = int(math.Ceil(8 * rng))
				} else {
					cell = mirror.Intn(len(scores))
				}
			}
			statsPick := ""
			if stats != nil {
				statsPick = stats.SelectedProvider
			}
			out.Emit(M{"ev": "sel", "i": ci, "ignored": c.Ignored, "nodata": c.Nodata, "k": c.K, "scored": scored, "total8": total8,
				"cell": cell, "pick": pick, "statsPick": statsPick, "ucmp": ucmp, "weightsOk": weightsOk, "rng1e6": int(rng * 1e6)})
		}
	}

	// ---------------- lattice + real-weight draws, per (strategy, latency window, sync window) group
	g := in.Grid
	finite := func(x float64) bool { return !math.IsNaN(x) && !math.IsInf(x, 0) }
	mk := func(strategy int, lw, sw string) *provideroptimizer.WeightedSelector {
		cfg := provideroptimizer.DefaultWeightedSelectorConfig()
		cfg.Strategy = provideroptimizer.Strategy(strategy)
		if lw != "off" {
			cfg.UseAdaptiveLatencyMax = true
			cfg.AdaptiveLatencyGetter = func() (float64, float64) { return window(lw, g.B[0], g.B[1], g.B[2]) }
		}
		if sw != "off" {
			cfg.UseAdaptiveSyncMax = true
			cfg.AdaptiveSyncGetter = func() (float64, float64) { return window(sw, g.B[3], g.B[4], g.B[5]) }
		}
		return provideroptimizer.NewWeightedSelector(cfg)
	}
	for gi, grp := range in.Lat {
		sel := mk(grp.Strategy, grp.LW, grp.SW)
		refL := mk(grp.Strategy, "off", grp.SW) // latency getter switched off
		refS := mk(grp.Strategy, grp.LW, "off") // sync getter switched off
		mc := sel.GetConfig().MinSelectionChance
		score := func(ws *provideroptimizer.WeightedSelector, a, l, s, k int) float64 {
			st := g.K[k]
			return ws.CalculateScore(qos(g.A[a], g.L[l], g.S[s]), sdk.NewCoin("ulava", sdk.NewInt(st)), sdk.NewCoin("ulava", sdk.NewInt(st+g.O)), "p")
		}
		for _, p := range in.Pairs {
			a, l, s, k := int(p[0].(float64)), int(p[1].(float64)), int(p[2].(float64)), int(p[3].(float64))
			co := p[4].(string)
			a2, l2, s2, k2 := a, l, s, k
			switch co {
			case "a":
				a2++
			case "l":
				l2++
			case "s":
				s2++
			case "k":
				k2++
			}
			if a2 >= len(g.A) || l2 >= len(g.L) || s2 >= len(g.S) || k2 >= len(g.K) {
				hx.Die("pair %v outside the grid", p)
			}
			w0, w1 := score(sel, a, l, s, k), score(sel, a2, l2, s2, k2)
			fin := finite(w0) && finite(w1)
			cmp := 2 // not comparable (NaN)
			if fin {
				cmp = sign(w1 - w0)
			}
			out.Emit(M{"ev": "lat", "strategy": grp.Strategy, "lw": grp.LW, "sw": grp.SW, "p": []interface{}{a, l, s, k, co},
				"finite": fin, "cmp": cmp, "inRange": fin && w0 >= mc && w0 <= 1 && w1 >= mc && w1 <= 1,
				"eqOffL": w0 == score(refL, a, l, s, k), "eqOffS": w0 == score(refS, a, l, s, k),
				"w0": clampInt(w0), "w1": clampInt(w1), "desc": fmt.Sprintf("a=%s l=%s s=%s stake=%d", g.A[a], g.L[l], g.S[s], g.K[k])})
		}
		// draws with the real (non dyadic) weights of this group: three providers with different QoS
		qs := map[string]*pairingtypes.QualityOfServiceReport{
			"p1": qos(g.A[len(g.A)-1], g.L[len(g.L)-1], g.S[len(g.S)-1]),
			"p2": qos(g.A[len(g.A)/2], g.L[len(g.L)/2], g.S[len(g.S)/2]),
			"p3": qos(g.A[0], g.L[0], g.S[0]),
		}
		provs := []string{"p1", "p2", "p3"}
		seed := in.Seed + int64(gi)
		sel.SetDeterministicSeed(seed)
		mir := stdrand.New(stdrand.NewSource(seed))
		getter := func(addr string) (*pairingtypes.QualityOfServiceReport, time.Time, bool) { return qs[addr], time.Now(), true }
		stakes := map[string]int64{"p1": 10, "p2": 50, "p3": 200}
		scores, _, details := sel.CalculateProviderScores(provs, map[string]struct{}{}, getter, func(a string) int64 { return stakes[a] })
		allFinite, allRange := true, true
		total := 0.0
		cum := []float64{}
		for _, sc := range scores {
			w := sc.SelectionWeight
			if !finite(w) {
				allFinite = false
			}
			if !(finite(w) && w >= mc && w <= 1) {
				allRange = false
			}
			total += w
		}
		c := 0.0
		for _, sc := range scores {
			c += sc.SelectionWeight
			cum = append(cum, c)
		}
		for d := 0; d < in.RealDraws; d++ {
			pick, stats := sel.SelectProviderWithStats(ctx, scores, details)
			idx := -1
			for i, sc := range scores {
				if sc.Address == pick {
					idx = i
				}
			}
			rec := M{"ev": "real", "strategy": grp.Strategy, "lw": grp.LW, "sw": grp.SW, "n": len(scores), "pick": pick, "idx": idx,
				"finite": allFinite && finite(total), "inRange": allRange, "uniform": false, "lowOk": false, "highOk": false, "ucmp": 0, "rngOk": false}
			if len(scores) >= 2 && total > 0 && stats != nil {
				u := mir.Float64()
				r := stats.RNGValue
				rec["ucmp"] = sign(u*total - r)
				if !finite(u*total) || !finite(r) {
					rec["ucmp"] = 2
				}
				rec["rngOk"] = r >= 0 && r < total
				if idx >= 0 {
					rec["lowOk"] = idx == 0 || r > cum[idx-1] // not owned by an earlier provider
					rec["highOk"] = r <= cum[idx]             // inside the pick's own interval
				}
			} else if len(scores) >= 2 && !(total > 0) && finite(total) {
				rec["uniform"] = true
				j := mir.Intn(len(scores))
				rec["lowOk"], rec["highOk"], rec["rngOk"] = idx == j, idx == j, true
			}
			out.Emit(rec)
		}
	}
	out.Close()
}
