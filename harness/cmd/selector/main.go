// selector binds specs/Selector.tla to the real provideroptimizer.WeightedSelector (C35).
//
//	selector <input.json> <trace.ndjson>
//
// input = {"seed":S,"draws":D,"provs":[...],"sel":[{ignored,nodata,k}],"grid":{a,l,s,k value lists},"lat":[{g,pairs}]}
//
// sel : for every configuration (enumerated by TLC) the real CalculateProviderScores filters the
// candidates (ignored providers, providers without QoS data), the weights are then set to the dyadic
// values k/8 and the real SelectProviderWithStats draws D times from the seeded RNG
// (SetDeterministicSeed).  The driver mirrors the same math/rand sequence, so it knows the uniform
// draw u, checks RNGValue = u*total and logs the cell ceil(8*RNGValue) together with the pick.
// lat : for every (strategy, adaptive bounds) group and every (grid point, improved coordinate) pair the
// real CalculateScore is evaluated on both points; the three-way comparison and the range flags are logged.
package main

import (
	"context"
	"fmt"
	"math"
	stdrand "math/rand"
	"os"
	"time"

	sdk "github.com/cosmos/cosmos-sdk/types"
	"github.com/lavanet/lava/v5/protocol/provideroptimizer"
	"github.com/lavanet/lava/v5/utils"
	pairingtypes "github.com/lavanet/lava/v5/x/pairing/types"

	"verif/harness/internal/hx"
)

type M = map[string]interface{}

type selCfg struct {
	Ignored []string       `json:"ignored"`
	Nodata  []string       `json:"nodata"`
	K       map[string]int `json:"k"`
}

type latGroup struct {
	G struct {
		Strategy int `json:"strategy"`
		Adaptive int `json:"adaptive"`
	} `json:"g"`
	Pairs [][]interface{} `json:"pairs"`
}

type input struct {
	Seed  int64    `json:"seed"`
	Draws int      `json:"draws"`
	Provs []string `json:"provs"`
	Sel   []selCfg `json:"sel"`
	Grid  struct {
		A []string  `json:"a"`
		L []string  `json:"l"`
		S []string  `json:"s"`
		K []int64   `json:"k"`
		O int64     `json:"others"`
		B []float64 `json:"bounds"` // latency p10,p90, sync p10,p90
	} `json:"grid"`
	Lat []latGroup `json:"lat"`
}

func qos(a, l, s string) *pairingtypes.QualityOfServiceReport {
	return &pairingtypes.QualityOfServiceReport{Availability: sdk.MustNewDecFromStr(a), Latency: sdk.MustNewDecFromStr(l), Sync: sdk.MustNewDecFromStr(s)}
}

func sign(x float64) int {
	if x > 0 {
		return 1
	}
	if x < 0 {
		return -1
	}
	return 0
}

func set(xs []string) map[string]struct{} {
	m := map[string]struct{}{}
	for _, x := range xs {
		m[x] = struct{}{}
	}
	return m
}

func main() {
	if len(os.Args) != 3 {
		hx.Die("usage: selector <input.json> <trace.ndjson>")
	}
	var in input
	hx.ReadJSON(os.Args[1], &in)
	utils.SetGlobalLoggingLevel("fatal")
	out := hx.NewOut(os.Args[2])
	ctx := context.Background()

	// ---------------- selection
	ws := provideroptimizer.NewWeightedSelector(provideroptimizer.DefaultWeightedSelectorConfig())
	ws.SetDeterministicSeed(in.Seed)
	mirror := stdrand.New(stdrand.NewSource(in.Seed))
	minChance := ws.GetConfig().MinSelectionChance
	for ci, c := range in.Sel {
		ign, nod := set(c.Ignored), set(c.Nodata)
		getter := func(addr string) (*pairingtypes.QualityOfServiceReport, time.Time, bool) {
			if _, no := nod[addr]; no {
				return nil, time.Time{}, false
			}
			return qos("0.97", "0.3", "12"), time.Now(), true
		}
		stake := func(addr string) int64 { return 10 }
		scores, _, details := ws.CalculateProviderScores(in.Provs, ign, getter, stake)
		weightsOk := true
		scored := []string{}
		for i := range scores {
			w := scores[i].SelectionWeight
			if !(w >= minChance && w <= 1.0) {
				weightsOk = false
			}
			scored = append(scored, scores[i].Address)
			scores[i].SelectionWeight = float64(c.K[scores[i].Address]) / 8.0
			scores[i].CompositeScore = scores[i].SelectionWeight
		}
		total := 0.0
		total8 := 0
		for _, s := range scores {
			total += s.SelectionWeight
			total8 += c.K[s.Address]
		}
		for d := 0; d < in.Draws; d++ {
			pick, stats := ws.SelectProviderWithStats(ctx, scores, details)
			cell, ucmp := 0, 0
			rng := 0.0
			if len(scores) >= 2 {
				if total > 0 {
					u := mirror.Float64()
					rng = stats.RNGValue
					ucmp = sign(u*total - rng)
					cell = int(math.Ceil(8 * rng))
				} else {
					cell = mirror.Intn(len(scores))
				}
			}
			statsPick := ""
			if stats != nil {
				statsPick = stats.SelectedProvider
			}
			out.Emit(M{"ev": "sel", "i": ci, "ignored": c.Ignored, "nodata": c.Nodata, "k": c.K, "scored": scored, "total8": total8,
				"cell": cell, "pick": pick, "statsPick": statsPick, "ucmp": ucmp, "weightsOk": weightsOk, "rng1e6": int(rng * 1e6)})
		}
	}

	// ---------------- lattice
	g := in.Grid
	for _, grp := range in.Lat {
		cfg := provideroptimizer.DefaultWeightedSelectorConfig()
		cfg.Strategy = provideroptimizer.Strategy(grp.G.Strategy)
		lb := func() (float64, float64) { return g.B[0], g.B[1] }
		sb := func() (float64, float64) { return g.B[2], g.B[3] }
		bad := func() (float64, float64) { return 5, 5 }
		switch grp.G.Adaptive {
		case 1:
			cfg.UseAdaptiveLatencyMax, cfg.AdaptiveLatencyGetter = true, lb
		case 2:
			cfg.UseAdaptiveSyncMax, cfg.AdaptiveSyncGetter = true, sb
		case 3:
			cfg.UseAdaptiveLatencyMax, cfg.AdaptiveLatencyGetter = true, lb
			cfg.UseAdaptiveSyncMax, cfg.AdaptiveSyncGetter = true, sb
		case 4:
			cfg.UseAdaptiveLatencyMax, cfg.AdaptiveLatencyGetter = true, bad
			cfg.UseAdaptiveSyncMax, cfg.AdaptiveSyncGetter = true, bad
		}
		sel := provideroptimizer.NewWeightedSelector(cfg)
		mc := sel.GetConfig().MinSelectionChance
		score := func(a, l, s, k int) float64 {
			st := g.K[k]
			return sel.CalculateScore(qos(g.A[a], g.L[l], g.S[s]), sdk.NewCoin("ulava", sdk.NewInt(st)), sdk.NewCoin("ulava", sdk.NewInt(st+g.O)), "p")
		}
		for _, p := range grp.Pairs {
			a, l, s, k := int(p[0].(float64)), int(p[1].(float64)), int(p[2].(float64)), int(p[3].(float64))
			co := p[4].(string)
			a2, l2, s2, k2 := a, l, s, k
			switch co {
			case "a":
				a2++
			case "l":
				l2++
			case "s":
				s2++
			case "k":
				k2++
			}
			if a2 >= len(g.A) || l2 >= len(g.L) || s2 >= len(g.S) || k2 >= len(g.K) {
				hx.Die("pair %v outside the grid", p)
			}
			w0, w1 := score(a, l, s, k), score(a2, l2, s2, k2)
			out.Emit(M{"ev": "lat", "strategy": grp.G.Strategy, "adaptive": grp.G.Adaptive, "p": []interface{}{a, l, s, k, co},
				"cmp": sign(w1 - w0), "inRange": w0 >= mc && w0 <= 1 && w1 >= mc && w1 <= 1 && !math.IsNaN(w0) && !math.IsNaN(w1),
				"w0": int(w0 * 1e6), "w1": int(w1 * 1e6), "desc": fmt.Sprintf("a=%s l=%s s=%s stake=%d", g.A[a], g.L[l], g.S[s], g.K[k])})
		}
	}
	out.Close()
}
