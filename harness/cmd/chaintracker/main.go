// chaintracker replays ChainTracker.tla behaviours into the real protocol/chaintracker.ChainTracker
// (property C30).  The node is an own ChainFetcher scripted by the behaviour; the tracker's polling
// goroutine is gated inside FetchLatestBlockNum, so that a poll is complete exactly when the fetcher
// sees the next FetchLatestBlockNum.
//
//	chaintracker <behaviours.json> <trace.ndjson>
package main

import (
	"context"
	"errors"
	"fmt"
	"net"
	"os"
	"strconv"
	"strings"
	"sync"
	"time"

	"github.com/lavanet/lava/v5/protocol/chaintracker"
	"github.com/lavanet/lava/v5/protocol/lavasession"
	"github.com/lavanet/lava/v5/utils"
	"github.com/lavanet/lava/v5/utils/rand"

	"verif/harness/internal/hx"
)

const (
	nBlocks      = 3 // N  (blocksToSave)      - must equal the constants of specs/Trace_ChainTracker.cfg
	serverMemory = 3 // M  (serverBlockMemory)
	gateWait     = 20 * time.Second
)

type step struct {
	A    string `json:"a"`
	D    int64  `json:"d"`
	K    int64  `json:"k"`
	Mode string `json:"mode"`
	F    int64  `json:"f"`
	T    int64  `json:"t"`
	S    int64  `json:"s"`
}

type bh struct {
	B int64 `json:"b"`
	H int64 `json:"h"`
}

type cb struct {
	C string `json:"c"`
	A int64  `json:"a"`
	B int64  `json:"b"`
	H int64  `json:"h"`
}

type rec struct {
	Ev      string `json:"ev"`
	D       int64  `json:"d"`
	K       int64  `json:"k"`
	Mode    string `json:"mode"`
	F       int64  `json:"f"`
	T       int64  `json:"t"`
	S       int64  `json:"s"`
	Started string `json:"started"`
	Latest  int64  `json:"latest"`  // GetAtomicLatestBlockNum
	Latest2 int64  `json:"latest2"` // GetLatestBlockNum
	Cbs     []cb   `json:"cbs"`
	WinErr  string `json:"winerr"` // full-window query LATEST-(N-1)..LATEST
	Win     []bh   `json:"win"`
	QErr    string `json:"qerr"` // answer of the query step
	QRes    []bh   `json:"qres"`
	QLatest int64  `json:"qlatest"`
	Panic   bool   `json:"panic"`
	PanicS  string `json:"panics,omitempty"`
	Beh     int    `json:"beh"`
}

// ---- scripted node -------------------------------------------------------------------------

type node struct {
	mu    sync.Mutex
	chain []int64 // hash ids, index i = height i+1
	fresh int64

	latestCalls int
	arrived     chan struct{}
	release     chan struct{}
	quit        chan struct{}

	// script of the current poll
	mode   string
	lag    int64
	failAt int64
	calls  int64
}

func hashStr(id int64) string { return "h" + strconv.FormatInt(id, 10) }

func hashID(s string) int64 {
	if !strings.HasPrefix(s, "h") {
		return -1
	}
	v, err := strconv.ParseInt(s[1:], 10, 64)
	if err != nil {
		return -1
	}
	return v
}

func (n *node) FetchEndpoint() lavasession.RPCProviderEndpoint {
	return lavasession.RPCProviderEndpoint{ChainID: "VRF", ApiInterface: "jsonrpc"}
}

func (n *node) CustomMessage(ctx context.Context, path string, data []byte, connectionType string, apiName string) ([]byte, error) {
	return nil, errors.New("not implemented")
}

func (n *node) FetchLatestBlockNum(ctx context.Context) (int64, error) {
	// the first call comes from fetchInitDataWithRetry in the caller's goroutine (StartAndServe);
	// every later call comes from the polling goroutine and is gated
	n.mu.Lock()
	gated := n.latestCalls > 0
	n.latestCalls++
	n.mu.Unlock()
	if gated {
		// the previous poll is complete
		select {
		case n.arrived <- struct{}{}:
		case <-n.quit:
			return 0, errors.New("harness: tracker stopped")
		}
		select {
		case <-n.release:
		case <-n.quit:
			return 0, errors.New("harness: tracker stopped")
		}
	}
	n.mu.Lock()
	defer n.mu.Unlock()
	n.calls = 0
	switch n.mode {
	case "err":
		return 0, errors.New("scripted transient error")
	case "neterr":
		return 0, fmt.Errorf("scripted: %w", &net.OpError{Op: "dial", Net: "tcp", Err: errors.New("connection refused")})
	}
	return int64(len(n.chain)) - n.lag, nil
}

func (n *node) FetchBlockHashByNum(ctx context.Context, blockNum int64) (string, error) {
	n.mu.Lock()
	defer n.mu.Unlock()
	n.calls++
	if n.failAt > 0 && n.calls == n.failAt {
		return "", errors.New("scripted transient hash error")
	}
	if blockNum < 1 || blockNum > int64(len(n.chain)) {
		return "", fmt.Errorf("block %d not found (head %d)", blockNum, len(n.chain))
	}
	return hashStr(n.chain[blockNum-1]), nil
}

// ---- driver -------------------------------------------------------------------------------

func errClass(err error) string {
	if err == nil {
		return ""
	}
	s := err.Error()
	switch {
	case strings.Contains(s, "had no blocks"):
		return "noblocks"
	case strings.Contains(s, "invalid wantedBlocksData Iteration"):
		return "iteration"
	case strings.Contains(s, "invalid input for GetLatestBlockData"):
		// the error class (out of range / invalid / specific) is only logged, not part of the returned error
		return "invalid"
	}
	return "other:" + s
}

func main() {
	if len(os.Args) != 3 {
		hx.Die("usage: chaintracker behaviours.json trace.ndjson")
	}
	var behs [][]step
	hx.ReadJSON(os.Args[1], &behs)
	out := hx.NewOut(os.Args[2])
	defer out.Close()
	rand.InitRandomSeed()
	utils.SetGlobalLoggingLevel("fatal")

	for bi, beh := range behs {
		if len(beh) == 0 || beh[0].A != "start" {
			hx.Die("behaviour %d does not begin with start", bi)
		}
		l0 := beh[0].K
		nd := &node{arrived: make(chan struct{}), release: make(chan struct{}), quit: make(chan struct{}), mode: "ok"}
		for i := int64(1); i <= l0; i++ {
			nd.chain = append(nd.chain, i)
		}
		nd.fresh = l0 + 1

		var cbMu sync.Mutex
		var cbLog []cb
		addCb := func(c cb) {
			cbMu.Lock()
			cbLog = append(cbLog, c)
			cbMu.Unlock()
		}
		cfg := chaintracker.ChainTrackerConfig{
			BlocksToSave:          nBlocks,
			ServerBlockMemory:     serverMemory,
			AverageBlockTime:      160 * time.Microsecond,
			ChainId:               "VRF",
			ParseDirectiveEnabled: true,
			ForkCallback:          func(block int64) { addCb(cb{C: "fork", A: block}) },
			NewLatestCallback:     func(from, to int64, hash string) { addCb(cb{C: "new", A: from, B: to, H: hashID(hash)}) },
			ConsistencyCallback: func(oldBlock, block int64) {
				addCb(cb{C: "consistency", A: oldBlock, B: block})
			},
			OldBlockCallback:   func(time.Time) { addCb(cb{C: "old"}) },
			FetchErrorCallback: func() { addCb(cb{C: "fetcherr"}) },
		}
		ctx, cancel := context.WithCancel(context.Background())
		ct, err := chaintracker.NewChainTracker(ctx, nd, cfg)
		if err != nil {
			hx.Die("NewChainTracker: %v", err)
		}
		started := "no"

		observe := func(r *rec) {
			r.Started = started
			r.Latest = ct.GetAtomicLatestBlockNum()
			r.Latest2, _ = ct.GetLatestBlockNum()
			cbMu.Lock()
			r.Cbs = append([]cb{}, cbLog...)
			cbLog = nil
			cbMu.Unlock()
			_, hs, _, err := ct.GetLatestBlockData(-2-(nBlocks-1), -2, -1)
			r.WinErr = errClass(err)
			r.Win = []bh{}
			for _, h := range hs {
				r.Win = append(r.Win, bh{h.Block, hashID(h.Hash)})
			}
			if r.QRes == nil {
				r.QRes = []bh{}
			}
			r.Beh = bi
		}
		waitArrived := func() {
			select {
			case <-nd.arrived:
			case <-time.After(gateWait):
				hx.Die("behaviour %d: polling goroutine did not come back to FetchLatestBlockNum within %s", bi, gateWait)
			}
		}

		r0 := rec{Ev: "reset", K: l0}
		observe(&r0)
		out.Emit(r0)
		for _, s := range beh {
			r := rec{Ev: s.A, D: s.D, K: s.K, Mode: s.Mode, F: s.F, T: s.T, S: s.S}
			func() {
				defer func() {
					if x := recover(); x != nil {
						r.Panic = true
						r.PanicS = fmt.Sprint(x)
					}
				}()
				switch s.A {
				case "start":
					err := ct.StartAndServe(ctx)
					if err != nil {
						started = "failed"
					} else {
						started = "ok"
						waitArrived() // the polling goroutine is parked at the gate from now on
					}
				case "extend":
					nd.mu.Lock()
					for i := int64(0); i < s.K; i++ {
						nd.chain = append(nd.chain, nd.fresh)
						nd.fresh++
					}
					nd.mu.Unlock()
				case "reorg":
					nd.mu.Lock()
					nd.chain = nd.chain[:int64(len(nd.chain))-s.D]
					for i := int64(0); i < s.K; i++ {
						nd.chain = append(nd.chain, nd.fresh)
						nd.fresh++
					}
					nd.mu.Unlock()
				case "poll":
					if started != "ok" {
						hx.Die("behaviour %d: poll before a successful start", bi)
					}
					nd.mu.Lock()
					nd.mode, nd.lag, nd.failAt = s.Mode, s.D, s.K
					nd.mu.Unlock()
					nd.release <- struct{}{}
					waitArrived()
					nd.mu.Lock()
					nd.mode, nd.lag, nd.failAt = "ok", 0, 0
					nd.mu.Unlock()
				case "query":
					lat, hs, _, err := ct.GetLatestBlockData(s.F, s.T, s.S)
					r.QErr = errClass(err)
					r.QLatest = lat
					r.QRes = []bh{}
					for _, h := range hs {
						r.QRes = append(r.QRes, bh{h.Block, hashID(h.Hash)})
					}
				default:
					hx.Die("unknown action %q", s.A)
				}
			}()
			observe(&r)
			out.Emit(r)
		}
		close(nd.quit)
		cancel()
	}
}
