// contenthash instantiates ContentHash.tla request pairs as real pairingtypes.RelayPrivateData (one
// model letter = one 8-byte chunk, so the block numbers are exactly one letter wide), computes the
// real content hashes sigs.HashMsg(GetContentHashData()) and evaluates the provider's check
// (rpcprovider_server.go verifyRelayRequestMetaData: session.ContentHash == hash(relayData)) of a
// session built for the first request against the second request.  DESIGN.md C26.
//
//	contenthash <pairs.json> <out.ndjson>
package main

import (
	"bytes"
	"encoding/binary"
	"encoding/hex"
	"encoding/json"
	"fmt"
	"os"

	"github.com/lavanet/lava/v5/utils/sigs"
	pairingtypes "github.com/lavanet/lava/v5/x/pairing/types"

	"verif/harness/internal/hx"
)

type pair struct {
	R1 map[string]json.RawMessage `json:"r1"`
	R2 map[string]json.RawMessage `json:"r2"`
}

type line struct {
	ID    int                        `json:"id"`
	R1    map[string]json.RawMessage `json:"r1"`
	R2    map[string]json.RawMessage `json:"r2"`
	E1    []string                   `json:"e1"` // real GetContentHashData bytes of r1, one letter per 8-byte chunk
	E2    []string                   `json:"e2"`
	H1    string                     `json:"h1"`
	H2    string                     `json:"h2"`
	Equal bool                       `json:"equal"` // real content hashes equal
	Reuse bool                       `json:"reuse"` // a session signed for r1 passes the provider's content-hash check for r2
	Same  bool                       `json:"same"`  // the two real requests are field-wise identical
}

func chunk(letter string) []byte {
	if len(letter) != 1 || letter[0] < 'a' || letter[0] > 'z' {
		hx.Die("bad letter %q", letter)
	}
	return sigs.EncodeUint64(uint64(letter[0]-'a') + 1)
}

// letters decodes real hash-input bytes back into model letters ("#..." = not a letter chunk)
func letters(b []byte) []string {
	res := []string{}
	for len(b) >= 8 {
		v := binary.LittleEndian.Uint64(b[:8])
		if v >= 1 && v <= 26 {
			res = append(res, string(rune('a'+v-1)))
		} else {
			res = append(res, fmt.Sprintf("#%x", v))
		}
		b = b[8:]
	}
	if len(b) > 0 {
		res = append(res, fmt.Sprintf("!%x", b))
	}
	return res
}

func str(raw json.RawMessage) []byte {
	var letters []string
	if err := json.Unmarshal(raw, &letters); err != nil {
		hx.Die("bad string %s", string(raw))
	}
	var b []byte
	for _, l := range letters {
		b = append(b, chunk(l)...)
	}
	return b
}

func mk(r map[string]json.RawMessage) *pairingtypes.RelayPrivateData {
	d := &pairingtypes.RelayPrivateData{}
	var md [][]json.RawMessage
	if err := json.Unmarshal(r["metadata"], &md); err != nil {
		hx.Die("bad metadata %s", string(r["metadata"]))
	}
	for _, e := range md {
		d.Metadata = append(d.Metadata, pairingtypes.Metadata{Name: string(str(e[0])), Value: string(str(e[1]))})
	}
	var ext []json.RawMessage
	if err := json.Unmarshal(r["extensions"], &ext); err != nil {
		hx.Die("bad extensions %s", string(r["extensions"]))
	}
	for _, e := range ext {
		d.Extensions = append(d.Extensions, string(str(e)))
	}
	d.Addon = string(str(r["addon"]))
	d.ApiInterface = string(str(r["api_interface"]))
	d.ConnectionType = string(str(r["connection_type"]))
	d.ApiUrl = string(str(r["api_url"]))
	d.Data = str(r["data"])
	d.Salt = str(r["salt"])
	var rb, sb string
	if json.Unmarshal(r["request_block"], &rb) != nil || json.Unmarshal(r["seen_block"], &sb) != nil {
		hx.Die("bad block letters")
	}
	d.RequestBlock = int64(rb[0]-'a') + 1
	d.SeenBlock = int64(sb[0]-'a') + 1
	return d
}

func main() {
	if len(os.Args) != 3 {
		hx.Die("usage: contenthash <pairs.json> <out.ndjson>")
	}
	var pairs []pair
	hx.ReadJSON(os.Args[1], &pairs)
	out := hx.NewOut(os.Args[2])
	defer out.Close()
	for id, p := range pairs {
		d1, d2 := mk(p.R1), mk(p.R2)
		h1 := sigs.HashMsg(d1.GetContentHashData())
		h2 := sigs.HashMsg(d2.GetContentHashData())
		// the consumer's session for d1 (ConstructRelaySession computes ContentHash exactly like this)
		session := &pairingtypes.RelaySession{ContentHash: sigs.HashMsg(d1.GetContentHashData())}
		reuse := bytes.Equal(session.ContentHash, sigs.HashMsg(d2.GetContentHashData()))
		b1, _ := d1.Marshal()
		b2, _ := d2.Marshal()
		out.Emit(line{ID: id, R1: p.R1, R2: p.R2, E1: letters(d1.GetContentHashData()), E2: letters(d2.GetContentHashData()), H1: hex.EncodeToString(h1[:6]), H2: hex.EncodeToString(h2[:6]),
			Equal: bytes.Equal(h1, h2), Reuse: reuse, Same: bytes.Equal(b1, b2) && len(d1.Metadata) == len(d2.Metadata) && len(d1.Extensions) == len(d2.Extensions)})
	}
}
