// timerstore replays TimerStore.tla behaviours into the real x/timerstore TimerStore and records
// the projected state after every step (DESIGN.md C15).
//
//	timerstore <behaviours.json> <trace.ndjson>
package main

import (
	"fmt"
	"os"
	"strconv"
	"strings"
	"time"

	sdk "github.com/cosmos/cosmos-sdk/types"
	timertypes "github.com/lavanet/lava/v5/x/timerstore/types"

	"verif/harness/internal/hx"
)

type step struct {
	A    string `json:"a"`
	Kind string `json:"kind"`
	E    uint64 `json:"e"`
	K    string `json:"k"`
	D    string `json:"d"`
	Dt   uint64 `json:"dt"`
}

type tm struct {
	E uint64 `json:"e"`
	K string `json:"k"`
	D string `json:"d"`
	U uint64 `json:"u"`
}

type fire struct {
	Kind string `json:"kind"`
	E    uint64 `json:"e"`
	K    string `json:"k"`
	D    string `json:"d"`
	U    uint64 `json:"u"`
	At   uint64 `json:"at"`
	Tick uint64 `json:"tick"`
}

type fk struct {
	E uint64 `json:"e"`
	K string `json:"k"`
}

type hv struct {
	H uint64 `json:"H"`
	T uint64 `json:"T"`
}

type rec struct {
	Ev     string          `json:"ev"`
	Kind   string          `json:"kind"`
	E      uint64          `json:"e"`
	K      string          `json:"k"`
	D      string          `json:"d"`
	Dt     uint64          `json:"dt"`
	Res    bool            `json:"res"`
	Panic  bool            `json:"panic"`
	PanicS string          `json:"panics,omitempty"`
	Now    hv              `json:"now"`
	Next   hv              `json:"next"`
	Timers map[string][]tm `json:"timers"`
	Front  map[string][]fk `json:"front"`
	NF     []fire          `json:"nf"` // fired during this step
	NFired int             `json:"nfired"`
	Uid    uint64          `json:"uid"`
	Beh    int             `json:"beh"`
}

func encData(prog string, uid, e uint64) []byte {
	return []byte(fmt.Sprintf("%s,%d,%d", prog, uid, e))
}

func decData(b []byte) (string, uint64, uint64) {
	p := strings.Split(string(b), ",")
	if len(p) != 3 {
		return "?" + string(b), 0, 0
	}
	u, _ := strconv.ParseUint(p[1], 10, 64)
	e, _ := strconv.ParseUint(p[2], 10, 64)
	return p[0], u, e
}

func which(kind string) timertypes.TimerType {
	if kind == "H" {
		return timertypes.BlockHeight
	}
	return timertypes.BlockTime
}

func main() {
	if len(os.Args) != 3 {
		hx.Die("usage: timerstore behaviours.json trace.ndjson")
	}
	var behs [][]step
	hx.ReadJSON(os.Args[1], &behs)
	out := hx.NewOut(os.Args[2])
	defer out.Close()

	for bi, beh := range behs {
		ctx, keys, cdc := hx.StoreCtx("k")
		ts := timertypes.NewTimerStore(keys["k"], cdc, "p")
		uid := uint64(1)
		nticks := uint64(0)
		var stepFired []fire
		nfired := 0

		add := func(c sdk.Context, kind string, e uint64, k, prog string) {
			d := encData(prog, uid, e)
			uid++
			if kind == "H" {
				ts.AddTimerByBlockHeight(c, e, []byte(k), d)
			} else {
				ts.AddTimerByBlockTime(c, e, []byte(k), d)
			}
		}
		dump := func(c sdk.Context, kind string) []tm {
			res := []tm{}
			gs := ts.Export(c)
			entries := gs.BlockEntries
			if kind == "T" {
				entries = gs.TimeEntries
			}
			for _, en := range entries {
				p, u, _ := decData(en.Data)
				res = append(res, tm{E: en.Value, K: en.Key, D: p, U: u})
			}
			return res
		}
		del := func(c sdk.Context, kind string, e uint64, k string) {
			if kind == "H" {
				ts.DelTimerByBlockHeight(c, e, []byte(k))
			} else {
				ts.DelTimerByBlockTime(c, e, []byte(k))
			}
		}
		mkcb := func(kind string) timertypes.TimerCallback {
			other := "T"
			if kind == "T" {
				other = "H"
			}
			return func(c sdk.Context, key, data []byte) {
				prog, u, e := decData(data)
				nowH, nowT := uint64(c.BlockHeight()), uint64(c.BlockTime().UTC().Unix())
				at := nowH
				if kind == "T" {
					at = nowT
				}
				stepFired = append(stepFired, fire{Kind: kind, E: e, K: string(key), D: prog, U: u, At: at, Tick: nticks})
				nowOf := map[string]uint64{"H": nowH, "T": nowT}
				switch prog {
				case "A":
					add(c, kind, nowOf[kind]+1, "z", "N")
				case "X":
					add(c, other, nowOf[other]+1, "z", "N")
				case "D":
					ts2 := dump(c, kind)
					if len(ts2) > 0 {
						b := ts2[len(ts2)-1]
						del(c, kind, b.E, b.K)
					}
				}
			}
		}
		var mkcbv func(string) timertypes.TimerCallback = mkcb
		_ = mkcbv
		ts.WithCallbackByBlockHeight(mkcb("H"))
		ts.WithCallbackByBlockTime(mkcb("T"))

		snapshot := func(r *rec) {
			r.Now = hv{uint64(ctx.BlockHeight()), uint64(ctx.BlockTime().UTC().Unix())}
			r.Next = hv{hx.C(ts.GetNextTimeoutBlockHeight(ctx)), hx.C(ts.GetNextTimeoutBlockTime(ctx))}
			r.Timers = map[string][]tm{"H": dump(ctx, "H"), "T": dump(ctx, "T")}
			r.Front = map[string][]fk{}
			for _, kind := range []string{"H", "T"} {
				ks, es, _ := ts.GetFrontTimers(ctx, which(kind))
				fr := []fk{}
				for i := range ks {
					fr = append(fr, fk{E: es[i], K: string(ks[i])})
				}
				r.Front[kind] = fr
			}
			r.NF = append([]fire{}, stepFired...)
			nfired += len(stepFired)
			r.NFired = nfired
			r.Uid = uid
			r.Beh = bi
		}
		r0 := rec{Ev: "reset"}
		snapshot(&r0)
		out.Emit(r0)
		for _, s := range beh {
			r := rec{Ev: s.A, Kind: s.Kind, E: s.E, K: s.K, D: s.D, Dt: s.Dt}
			stepFired = nil
			func() {
				defer func() {
					if x := recover(); x != nil {
						r.Panic = true
						r.PanicS = fmt.Sprint(x)
					}
				}()
				switch s.A {
				case "add":
					add(ctx, s.Kind, s.E, s.K, s.D)
				case "del":
					del(ctx, s.Kind, s.E, s.K)
				case "has":
					if s.Kind == "H" {
						r.Res = ts.HasTimerByBlockHeight(ctx, s.E, []byte(s.K))
					} else {
						r.Res = ts.HasTimerByBlockTime(ctx, s.E, []byte(s.K))
					}
				case "reload":
					// genesis round trip into a brand-new store
					gs := ts.Export(ctx)
					nctx, nkeys, ncdc := hx.StoreCtx("k")
					nctx = nctx.WithBlockHeight(ctx.BlockHeight()).WithBlockTime(ctx.BlockTime())
					nts := timertypes.NewTimerStore(nkeys["k"], ncdc, "p")
					nts.Init(nctx, gs)
					ctx = nctx
					*ts = *nts
					ts.WithCallbackByBlockHeight(mkcb("H"))
					ts.WithCallbackByBlockTime(mkcb("T"))
				case "tick":
					nticks++
					ctx = ctx.WithBlockHeight(ctx.BlockHeight() + int64(s.E)).
						WithBlockTime(time.Unix(ctx.BlockTime().UTC().Unix()+int64(s.Dt), 0).UTC())
					ts.Tick(ctx)
				default:
					hx.Die("unknown action %q", s.A)
				}
			}()
			snapshot(&r)
			out.Emit(r)
		}
	}
}
