// chainparse drives the real protocol/chainlib request parsers (family pure2: C32, C31, C38).
//
//	chainparse <jobs.json> <trace.ndjson>
//
// jobs.json = {"repo": "/repo/", "jobs": [ {"in": <abstract vector, echoed>, "spec": "ETH1",
//
//	"iface": "jsonrpc", "rule": 127, "policy": ["archive"],
//	"items": [ {"url": "", "data": "...", "conn": "POST", "latest": 100, "both": false, "nopol": false, "override": null|[..]} |
//	           {"kind": "rule", "rl": -2, "re": 5, "latest": 100, "rule": 127} ]} ]}
//
// One NDJSON line per job: {"ev":"job","n":i,"in":...,"out":[result per item]}.
// A chain parser is built exactly like protocol/chainlib tests do (keepers.GetASpec on the checked-in
// spec files + NewChainParser + SetSpec) and the archive extension is enabled through
// SetPolicyFromAddonAndExtensionMap. "rule" patches the archive extension's block rule of the loaded
// Spec value before SetSpec (0 = leave the checked-in value).
// "both": the item is parsed as the consumer does (ExtensionInfo{LatestBlock}) and then as the
// provider does (rpcprovider_server.go: ExtensionInfo{LatestBlock: 0, ExtensionOverride: consumer's
// extensions}); the provider result is logged under "prov".
// Every ParseMsg runs under recover() and a watchdog (VERIF_WATCHDOG_MS, default 2000).
package main

import (
	"fmt"
	"os"
	"sort"
	"strconv"
	"strings"
	"time"

	"github.com/lavanet/lava/v5/protocol/chainlib"
	"github.com/lavanet/lava/v5/protocol/chainlib/extensionslib"
	"github.com/lavanet/lava/v5/utils"
	keepers "github.com/lavanet/lava/v5/utils/keeper"
	spectypes "github.com/lavanet/lava/v5/x/spec/types"

	"verif/harness/internal/hx"
)

type item struct {
	Kind   string `json:"kind"`
	URL    string `json:"url"`
	Data   string `json:"data"`
	Conn   string `json:"conn"`
	Latest uint64 `json:"latest"`
	Both   bool   `json:"both"`
	// explicit extension choice of the consumer-side parse: absent/null = nil (parser decides), [] = empty, [..] = names
	Override *[]string `json:"override"`
	Reps     int       `json:"reps"`  // with "both": repeat the consumer+provider parse this many times (map-order nondeterminism)
	NoPol    bool      `json:"nopol"` // parse with a parser on which no policy was set (no extension is ever attached)
	// kind == "rule"
	RL   int64  `json:"rl"`
	RE   int64  `json:"re"`
	Rule uint64 `json:"rule"`
}

type job struct {
	In     interface{} `json:"in"`
	Spec   string      `json:"spec"`
	Iface  string      `json:"iface"`
	Rule   uint64      `json:"rule"`
	Policy []string    `json:"policy"`
	Items  []item      `json:"items"`
}

type input struct {
	Repo string `json:"repo"`
	Jobs []job  `json:"jobs"`
}

type result struct {
	Err    bool     `json:"err"`
	ErrS   string   `json:"errs"`
	Panic  bool     `json:"panic"`
	PanicS string   `json:"panics"`
	Hang   bool     `json:"hang"`
	Api    string   `json:"api"`
	Cu     int64    `json:"cu"`
	CuS    string   `json:"cus"`
	Addon  string   `json:"addon"`
	Lat    int64    `json:"lat"`
	Earl   int64    `json:"earl"`
	LatS   string   `json:"lats"`
	EarlS  string   `json:"earls"`
	Arch   bool     `json:"arch"`
	Exts   []string `json:"exts"`
	Batch  bool     `json:"batch"`
	Ms     int64    `json:"ms"`       // wall time of the guarded call, milliseconds
	Unstab bool     `json:"unstable"` // a repetition of the same consumer parse gave a different projection
	Alt    string   `json:"alt"`      // ... its API name
	HasPrv bool     `json:"hasprov"`
	Prov   *result  `json:"prov,omitempty"`
}

type rec struct {
	Ev  string      `json:"ev"`
	N   int         `json:"n"`
	In  interface{} `json:"in"`
	Out []result    `json:"out"`
}

const clamp = 2000000000

func cl(v int64) int64 {
	if v > clamp {
		return clamp
	}
	if v < -clamp {
		return -clamp
	}
	return v
}

func clu(v uint64) int64 {
	if v > clamp {
		return clamp
	}
	return int64(v)
}

var parsers = map[string]chainlib.ChainParser{}

func getParser(repo string, j *job, nopol bool) (chainlib.ChainParser, error) {
	pol := append([]string{}, j.Policy...)
	sort.Strings(pol)
	key := fmt.Sprintf("%s|%s|%d|%s|%v", j.Spec, j.Iface, j.Rule, strings.Join(pol, ","), nopol)
	if p, ok := parsers[key]; ok {
		return p, nil
	}
	spec, err := keepers.GetASpec(j.Spec, repo, nil, nil)
	if err != nil {
		return nil, err
	}
	if j.Rule != 0 {
		n := 0
		for _, col := range spec.ApiCollections {
			for _, ext := range col.Extensions {
				if ext != nil && ext.Name == extensionslib.ArchiveExtension {
					ext.Rule = &spectypes.Rule{Block: j.Rule}
					n++
				}
			}
		}
		if n == 0 {
			return nil, fmt.Errorf("spec %s has no archive extension to patch", j.Spec)
		}
	}
	p, err := chainlib.NewChainParser(j.Iface)
	if err != nil {
		return nil, err
	}
	p.SetSpec(spec)
	if j.Policy != nil && !nopol {
		m := map[string]struct{}{}
		for _, s := range j.Policy {
			m[s] = struct{}{}
		}
		ps, ok := p.(interface {
			SetPolicyFromAddonAndExtensionMap(map[string]struct{})
		})
		if !ok {
			return nil, fmt.Errorf("parser %s has no SetPolicyFromAddonAndExtensionMap", j.Iface)
		}
		ps.SetPolicyFromAddonAndExtensionMap(m)
	}
	parsers[key] = p
	return p, nil
}

func project(msg chainlib.ChainMessage, err error) result {
	r := result{Exts: []string{}}
	if err != nil {
		r.Err = true
		r.ErrS = err.Error()
		if len(r.ErrS) > 200 {
			r.ErrS = r.ErrS[:200]
		}
		return r
	}
	if msg == nil {
		r.Err = true
		r.ErrS = "nil message without error"
		r.Api = "<nil-message>"
		return r
	}
	api := msg.GetApi()
	if api != nil {
		r.Api = api.Name
		r.Cu = clu(api.ComputeUnits)
		r.CuS = strconv.FormatUint(api.ComputeUnits, 10)
	} else {
		r.Api = "<nil-api>"
	}
	if col := msg.GetApiCollection(); col != nil {
		r.Addon = col.CollectionData.AddOn
	}
	lat, earl := msg.RequestedBlock()
	r.Lat, r.Earl = cl(lat), cl(earl)
	r.LatS, r.EarlS = strconv.FormatInt(lat, 10), strconv.FormatInt(earl, 10)
	for _, e := range msg.GetExtensions() {
		if e == nil {
			continue
		}
		r.Exts = append(r.Exts, e.Name)
		if e.Name == extensionslib.ArchiveExtension {
			r.Arch = true
		}
	}
	sort.Strings(r.Exts)
	r.Batch = msg.IsBatch()
	return r
}

func guarded(wd time.Duration, f func() result) result {
	ch := make(chan result, 1)
	t0 := time.Now()
	go func() {
		defer func() {
			if p := recover(); p != nil {
				s := fmt.Sprint(p)
				if len(s) > 200 {
					s = s[:200]
				}
				ch <- result{Panic: true, PanicS: s, Exts: []string{}}
			}
		}()
		ch <- f()
	}()
	select {
	case r := <-ch:
		r.Ms = time.Since(t0).Milliseconds()
		return r
	case <-time.After(wd):
		return result{Hang: true, Exts: []string{}, Ms: time.Since(t0).Milliseconds()}
	}
}

// same: the observables C38 names (API, CU, add-on, requested block) and the failure flags coincide
func same(a, b result) bool {
	return a.Err == b.Err && a.Panic == b.Panic && a.Hang == b.Hang && a.Api == b.Api && a.CuS == b.CuS &&
		a.Addon == b.Addon && a.LatS == b.LatS && a.EarlS == b.EarlS
}

// fakeMsg drives extensionslib.ExtensionParser (and through it ArchiveParserRule.isPassingRule)
// with an arbitrary (latest, earliest) pair.
type fakeMsg struct {
	lat, earl int64
	set       []string
}

func (f *fakeMsg) SetExtension(e *spectypes.Extension) { f.set = append(f.set, e.Name) }
func (f *fakeMsg) RequestedBlock() (int64, int64)      { return f.lat, f.earl }

func ruleItem(it item) result {
	ext := &spectypes.Extension{Name: extensionslib.ArchiveExtension, CuMultiplier: 5}
	if it.Rule != 0 {
		ext.Rule = &spectypes.Rule{Block: it.Rule}
	}
	key := extensionslib.ExtensionKey{Extension: extensionslib.ArchiveExtension, ConnectionType: "jsonrpc"}
	ep := extensionslib.NewExtensionParser(map[extensionslib.ExtensionKey]*spectypes.Extension{key: ext})
	fm := &fakeMsg{lat: it.RL, earl: it.RE}
	ep.ExtensionParsing("", fm, it.Latest)
	r := result{Exts: fm.set, Lat: cl(it.RL), Earl: cl(it.RE)}
	if r.Exts == nil {
		r.Exts = []string{}
	}
	r.Arch = len(fm.set) > 0
	return r
}

func main() {
	if len(os.Args) != 3 {
		hx.Die("usage: chainparse <jobs.json> <trace.ndjson>")
	}
	utils.SetGlobalLoggingLevel("fatal")
	wd := 2000 * time.Millisecond
	if s := os.Getenv("VERIF_WATCHDOG_MS"); s != "" {
		if v, err := strconv.Atoi(s); err == nil && v > 0 {
			wd = time.Duration(v) * time.Millisecond
		}
	}
	var in input
	hx.ReadJSON(os.Args[1], &in)
	if !strings.HasSuffix(in.Repo, "/") {
		in.Repo += "/"
	}
	out := hx.NewOut(os.Args[2])
	defer out.Close()
	for n := range in.Jobs {
		j := &in.Jobs[n]
		r := rec{Ev: "job", N: n + 1, In: j.In, Out: []result{}}
		for _, it := range j.Items {
			it := it
			if it.Kind == "rule" {
				r.Out = append(r.Out, guarded(wd, func() result { return ruleItem(it) }))
				continue
			}
			p, err := getParser(in.Repo, j, it.NoPol)
			if err != nil {
				hx.Die("cannot build chain parser for job %d: %v", n, err)
			}
			consumer := func() result {
				return guarded(wd, func() result {
					ei := extensionslib.ExtensionInfo{LatestBlock: it.Latest}
					if it.Override != nil {
						ei.ExtensionOverride = append([]string{}, (*it.Override)...)
					}
					return project(p.ParseMsg(it.URL, []byte(it.Data), it.Conn, nil, ei))
				})
			}
			provider := func(c result) result {
				over := append([]string{}, c.Exts...)
				return guarded(wd, func() result {
					return project(p.ParseMsg(it.URL, []byte(it.Data), it.Conn, nil,
						extensionslib.ExtensionInfo{LatestBlock: 0, ExtensionOverride: over}))
				})
			}
			res := consumer()
			if it.Both && !res.Err && !res.Panic && !res.Hang {
				pr := provider(res)
				// all repetitions are run: "unstable" and the first disagreeing provider result are both recorded
				for k := 0; k < it.Reps; k++ {
					c2 := consumer()
					if !res.Unstab && !same(res, c2) {
						res.Unstab = true
						res.Alt = c2.Api
					}
					if same(res, pr) && same(res, c2) {
						pr = provider(c2)
					}
				}
				res.HasPrv = true
				res.Prov = &pr
			}
			r.Out = append(r.Out, res)
		}
		out.Emit(r)
	}
}
