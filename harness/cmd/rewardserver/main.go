// rewardserver replays RewardServer.tla behaviours into the real protocol/rpcprovider/rewardserver
// (property C29): real RewardServer, real RewardDB over an on-disk Badger DB in a temp dir, mock
// RewardsTxSender.  restart = close the DB, new server (new RewardDB) on the same directory through
// the production path AddDataBase -> restoreRewardsFromDB.
//
//	rewardserver <behaviours.json> <trace.ndjson>
package main

import (
	"context"
	"errors"
	"fmt"
	mathrand "math/rand"
	"os"
	"runtime"
	"strconv"
	"sync"
	"sync/atomic"
	"time"

	btcSecp256k1 "github.com/btcsuite/btcd/btcec/v2"
	sdk "github.com/cosmos/cosmos-sdk/types"
	"github.com/lavanet/lava/v5/protocol/rpcprovider/rewardserver"
	"github.com/lavanet/lava/v5/utils"
	"github.com/lavanet/lava/v5/utils/rand"
	"github.com/lavanet/lava/v5/utils/sigs"
	pairingtypes "github.com/lavanet/lava/v5/x/pairing/types"

	"verif/harness/internal/hx"
)

const (
	specID        = "SPEC"
	providerAddr  = "provider"
	window        = 1 // must equal Window in specs/*RewardServer*.cfg
	snapThreshold = 2 // proofs with RelayNum % 2 == 0 trigger a snapshot: only the marker proof
	markerEpoch   = 9
	markerSid     = 9
	maxEpochProbe = 6
	waitMax       = 30 * time.Second
)

var sessPairs = [][2]int{{1, 1}, {2, 1}, {1, 2}} // (consumer, session id) - Sess in the cfg files

type step struct {
	A       string `json:"a"`
	E       int    `json:"e"`
	C       int    `json:"c"`
	S       int    `json:"s"`
	Cu      int    `json:"cu"`
	Cur     int    `json:"cur"`
	Ear     int    `json:"ear"`
	OkNew   bool   `json:"okNew"`
	OkRetry bool   `json:"okRetry"`
}

type pf struct {
	E  int `json:"e"`
	C  int `json:"c"`
	S  int `json:"s"`
	Cu int `json:"cu"`
}

type tx struct {
	Kind   string `json:"kind"`
	Ok     bool   `json:"ok"`
	Proofs []pf   `json:"proofs"`
}

type rec struct {
	Ev       string `json:"ev"`
	E        int    `json:"e"`
	C        int    `json:"c"`
	S        int    `json:"s"`
	Cu       int    `json:"cu"`
	Cur      int    `json:"cur"`
	Ear      int    `json:"ear"`
	OkNew    bool   `json:"okNew"`
	OkRetry  bool   `json:"okRetry"`
	Existing int    `json:"existing"`
	Updated  bool   `json:"updated"`
	Txs      []tx   `json:"txs"`
	DB       []pf   `json:"db"`
	Panic    bool   `json:"panic"`
	PanicS   string `json:"panics,omitempty"`
	Beh      int    `json:"beh"`
}

// ---- mock tx sender ------------------------------------------------------------------------

type txSender struct {
	mu        sync.Mutex
	earliest  uint64
	okNew     bool
	okRetry   bool
	submitted map[pf]bool // proofs submitted in this process lifetime
	calls     []tx
	earCalls  int
	done      chan struct{}
	consumers map[string]int // address -> consumer index
}

func (t *txSender) toPf(r *pairingtypes.RelaySession) pf {
	addr, err := sigs.ExtractSignerAddress(r)
	c := -1
	if err == nil {
		if v, ok := t.consumers[addr.String()]; ok {
			c = v
		}
	}
	return pf{E: int(r.Epoch), C: c, S: int(r.SessionId), Cu: int(r.CuSum)}
}

func (t *txSender) TxRelayPayment(ctx context.Context, relayRequests []*pairingtypes.RelaySession, description string, latestBlocks []*pairingtypes.LatestBlockReport) error {
	t.mu.Lock()
	defer t.mu.Unlock()
	c := tx{Kind: "retry", Proofs: []pf{}}
	for _, r := range relayRequests {
		p := t.toPf(r)
		if !t.submitted[p] {
			c.Kind = "new"
		}
		c.Proofs = append(c.Proofs, p)
	}
	for _, p := range c.Proofs {
		t.submitted[p] = true
	}
	c.Ok = t.okNew
	if c.Kind == "retry" {
		c.Ok = t.okRetry
	}
	t.calls = append(t.calls, c)
	if !c.Ok {
		return errors.New("scripted tx failure")
	}
	return nil
}

func (t *txSender) GetEpochSizeMultipliedByRecommendedEpochNumToCollectPayment(ctx context.Context) (uint64, error) {
	return window, nil
}

func (t *txSender) EarliestBlockInMemory(ctx context.Context) (uint64, error) {
	t.mu.Lock()
	defer t.mu.Unlock()
	t.earCalls++
	if t.earCalls == 2 && t.done != nil {
		// second call of one epoch update = identifyMissingPayments: sendRewardsClaim has returned
		close(t.done)
		t.done = nil
	}
	return t.earliest, nil
}

func (t *txSender) GetEpochSize(ctx context.Context) (uint64, error) { return 0, nil }
func (t *txSender) LatestBlock() int64                               { return 0 }
func (t *txSender) GetAverageBlockTime() time.Duration               { return time.Millisecond }

// ---- driver -------------------------------------------------------------------------------

type consumer struct {
	key  *btcSecp256k1.PrivateKey
	addr sdk.AccAddress
}

func main() {
	if len(os.Args) == 6 && os.Args[1] == "-stress" {
		stress(os.Args[2], os.Args[3], os.Args[4], os.Args[5])
		return
	}
	if len(os.Args) != 3 {
		hx.Die("usage: rewardserver behaviours.json trace.ndjson | rewardserver -stress rounds workers seed trace.ndjson")
	}
	var behs [][]step
	hx.ReadJSON(os.Args[1], &behs)
	out := hx.NewOut(os.Args[2])
	defer out.Close()
	rand.InitRandomSeed()
	utils.SetGlobalLoggingLevel("fatal")

	cons := map[int]*consumer{}
	addrIdx := map[string]int{}
	for _, i := range []int{1, 2} {
		k, a := sigs.GenerateFloatingKey()
		cons[i] = &consumer{k, a}
		addrIdx[a.String()] = i
	}
	mkProof := func(e, c, s, cu int, relayNum uint64) *pairingtypes.RelaySession {
		p := &pairingtypes.RelaySession{
			Provider: providerAddr, ContentHash: []byte{1}, SessionId: uint64(s), SpecId: specID,
			CuSum: uint64(cu), Epoch: int64(e), RelayNum: relayNum, LavaChainId: "lava",
		}
		sig, err := sigs.Sign(cons[c].key, *p)
		if err != nil {
			hx.Die("sign: %v", err)
		}
		p.Sig = sig
		return p
	}
	marker := 0

	for bi, beh := range behs {
		dir, err := os.MkdirTemp(tmpBase(), "verif_c29_")
		if err != nil {
			hx.Die("tempdir: %v", err)
		}
		var rws *rewardserver.RewardServer
		var rdb *rewardserver.RewardDB
		var txs *txSender
		earliest := uint64(0)
		boot := func() {
			txs = &txSender{earliest: earliest, okNew: true, okRetry: true, submitted: map[pf]bool{}, consumers: addrIdx}
			rdb = rewardserver.NewRewardDB()
			rws = rewardserver.NewRewardServer(txs, nil, rdb, dir, snapThreshold, 1000000, nil)
			rws.AddDataBase(specID, providerAddr, 0)
		}
		boot()

		probe := func() []pf {
			res := []pf{}
			for e := 1; e <= maxEpochProbe; e++ {
				for _, sp := range sessPairs {
					a := cons[sp[0]].addr.String()
					p, err := rdb.FindOne(uint64(e), a, specID+a, uint64(sp[1]))
					if err == nil && p != nil {
						res = append(res, pf{E: e, C: sp[0], S: sp[1], Cu: int(p.CuSum)})
					}
				}
			}
			return res
		}
		emit := func(r *rec) {
			if r.Txs == nil {
				r.Txs = []tx{}
			}
			r.DB = probe()
			r.Beh = bi
			out.Emit(*r)
		}
		r0 := rec{Ev: "reset"}
		emit(&r0)

		for _, s := range beh {
			r := rec{Ev: s.A, E: s.E, C: s.C, S: s.S, Cu: s.Cu, Cur: s.Cur, Ear: s.Ear, OkNew: s.OkNew, OkRetry: s.OkRetry}
			func() {
				defer func() {
					if x := recover(); x != nil {
						r.Panic = true
						r.PanicS = fmt.Sprint(x)
					}
				}()
				switch s.A {
				case "proof":
					p := mkProof(s.E, s.C, s.S, s.Cu, 1)
					ex, upd := rws.SendNewProof(context.Background(), p, uint64(s.E), cons[s.C].addr.String(), "jsonrpc")
					r.Existing, r.Updated = int(ex), upd
				case "snap":
					// the marker proof (far-future epoch, never claimable, strictly increasing CuSum) has
					// RelayNum % threshold == 0 and therefore hands the snapshot job its signal; the
					// snapshot is one Badger transaction, so it is complete when the marker is visible
					marker++
					a := cons[1].addr.String()
					rws.SendNewProof(context.Background(), mkProof(markerEpoch, 1, markerSid, marker, snapThreshold), markerEpoch, a, "jsonrpc")
					deadline := time.Now().Add(waitMax)
					for {
						p, err := rdb.FindOne(markerEpoch, a, specID+a, markerSid)
						if err == nil && p != nil && int(p.CuSum) == marker {
							break
						}
						if time.Now().After(deadline) {
							hx.Die("behaviour %d: snapshot did not reach the DB within %s", bi, waitMax)
						}
						time.Sleep(200 * time.Microsecond)
					}
				case "update":
					earliest = uint64(s.Ear)
					done := make(chan struct{})
					txs.mu.Lock()
					txs.earliest, txs.okNew, txs.okRetry = earliest, s.OkNew, s.OkRetry
					txs.calls, txs.earCalls, txs.done = nil, 0, done
					txs.mu.Unlock()
					rws.UpdateEpoch(uint64(s.Cur))
					select {
					case <-done:
					case <-time.After(waitMax):
						hx.Die("behaviour %d: epoch update did not finish within %s", bi, waitMax)
					}
					txs.mu.Lock()
					r.Txs = append([]tx{}, txs.calls...)
					txs.mu.Unlock()
				case "paid":
					rws.PaymentHandler(&rewardserver.PaymentRequest{
						CU: uint64(s.Cu), BlockHeightDeadline: int64(s.E), PaymentEpoch: uint64(s.E),
						Client: cons[s.C].addr, UniqueIdentifier: uint64(s.S), Description: rws.Description(), ChainID: specID,
					})
				case "restart":
					if err := rws.CloseAllDataBases(); err != nil {
						hx.Die("close: %v", err)
					}
					boot()
				default:
					hx.Die("unknown action %q", s.A)
				}
			}()
			emit(&r)
		}
		rws.CloseAllDataBases()
		os.RemoveAll(dir)
	}
}

// tmpBase prefers a memory-backed directory: every restart closes and reopens a Badger DB.
func tmpBase() string {
	if st, err := os.Stat("/dev/shm"); err == nil && st.IsDir() {
		return "/dev/shm"
	}
	return ""
}

// ---- concurrent phase --------------------------------------------------------------------------

type bcall struct {
	W        int    `json:"w"`
	Cu       int    `json:"cu"`
	Existing int    `json:"existing"`
	Updated  bool   `json:"updated"`
	T0       uint64 `json:"t0"` // global sequence number taken right before / after the SendNewProof call
	T1       uint64 `json:"t1"`
}

type brec struct {
	Ev      string  `json:"ev"`
	Round   int     `json:"round"`
	Sid     uint64  `json:"sid"`
	SeedCu  int     `json:"seedcu"`
	Calls   []bcall `json:"calls"`
	Overlap int     `json:"overlap"` // pairs of calls whose [t0,t1] intervals intersect
	Kept    int     `json:"kept"`    // CuSum found in the RewardDB after the snapshot (0 = none)
	Subs    []int   `json:"subs"`    // CuSums submitted for this session by the epoch update
}

// stress: rounds x (one seed proof, then `workers` goroutines released together by a spinning barrier,
// each calling SendNewProof for the same epoch / consumer / session with a different CuSum).  Hook free,
// so whether two calls really interleave inside saveProofInMemory is up to the scheduler: the number of
// rounds makes a lost update practically certain to show (see docs/notes/C29.md).
func stress(roundsS, workersS, seedS, tracePath string) {
	rounds, _ := strconv.Atoi(roundsS)
	workers, _ := strconv.Atoi(workersS)
	seed, _ := strconv.ParseInt(seedS, 10, 64)
	if rounds < 1 || workers < 2 {
		hx.Die("stress: need rounds >= 1 and workers >= 2")
	}
	out := hx.NewOut(tracePath)
	defer out.Close()
	rand.InitRandomSeed()
	utils.SetGlobalLoggingLevel("fatal")
	rng := mathrand.New(mathrand.NewSource(seed))

	key, addr := sigs.GenerateFloatingKey()
	a := addr.String()
	addrIdx := map[string]int{a: 1}
	mk := func(e int, s uint64, cu int, relayNum uint64) *pairingtypes.RelaySession {
		p := &pairingtypes.RelaySession{
			Provider: providerAddr, ContentHash: []byte{1}, SessionId: s, SpecId: specID,
			CuSum: uint64(cu), Epoch: int64(e), RelayNum: relayNum, LavaChainId: "lava",
		}
		sig, err := sigs.Sign(key, *p)
		if err != nil {
			hx.Die("sign: %v", err)
		}
		p.Sig = sig
		return p
	}
	dir, err := os.MkdirTemp(tmpBase(), "verif_c29s_")
	if err != nil {
		hx.Die("tempdir: %v", err)
	}
	defer os.RemoveAll(dir)
	txs := &txSender{okNew: true, okRetry: true, submitted: map[pf]bool{}, consumers: addrIdx}
	rdb := rewardserver.NewRewardDB()
	rws := rewardserver.NewRewardServer(txs, nil, rdb, dir, snapThreshold, 1000000, nil)
	rws.AddDataBase(specID, providerAddr, 0)

	const epoch = 1
	sidOf := func(r int) uint64 { return uint64(100000 + r) }
	// CuSum of worker w in round r: 10 * a seeded permutation of 1..workers
	cus := make([][]int, rounds+1)
	for r := 1; r <= rounds; r++ {
		perm := rng.Perm(workers)
		cus[r] = make([]int, workers)
		for w := 0; w < workers; w++ {
			cus[r][w] = 10 * (perm[w] + 1)
		}
	}
	recs := make([]brec, rounds+1)
	for r := 1; r <= rounds; r++ {
		recs[r] = brec{Ev: "burst", Round: r, Sid: sidOf(r), SeedCu: 1, Calls: make([]bcall, workers), Subs: []int{}}
	}
	var seq atomic.Uint64
	var released, ready, finished atomic.Int64
	ctx := context.Background()
	for w := 0; w < workers; w++ {
		go func(w int) {
			for r := 1; r <= rounds; r++ {
				p := mk(epoch, sidOf(r), cus[r][w], 1) // signed before the barrier
				ready.Add(1)
				for released.Load() < int64(r) {
					runtime.Gosched()
				}
				t0 := seq.Add(1)
				ex, upd := rws.SendNewProof(ctx, p, epoch, a, "jsonrpc")
				t1 := seq.Add(1)
				recs[r].Calls[w] = bcall{W: w, Cu: cus[r][w], Existing: int(ex), Updated: upd, T0: t0, T1: t1}
				finished.Add(1)
			}
		}(w)
	}
	for r := 1; r <= rounds; r++ {
		rws.SendNewProof(ctx, mk(epoch, sidOf(r), 1, 1), epoch, a, "jsonrpc")
		for ready.Load() < int64(r*workers) {
			runtime.Gosched()
		}
		released.Store(int64(r))
		for finished.Load() < int64(r*workers) {
			runtime.Gosched()
		}
	}
	// quiescence: one snapshot (marker proof, see the snap step above), then read what was kept
	rws.SendNewProof(ctx, mk(markerEpoch, markerSid, 1, snapThreshold), markerEpoch, a, "jsonrpc")
	deadline := time.Now().Add(4 * waitMax)
	for {
		p, err := rdb.FindOne(markerEpoch, a, specID+a, markerSid)
		if err == nil && p != nil && p.CuSum == 1 {
			break
		}
		if time.Now().After(deadline) {
			hx.Die("stress: snapshot did not reach the DB")
		}
		time.Sleep(time.Millisecond)
	}
	for r := 1; r <= rounds; r++ {
		if p, err := rdb.FindOne(epoch, a, specID+a, sidOf(r)); err == nil && p != nil {
			recs[r].Kept = int(p.CuSum)
		}
	}
	// one epoch update: epoch 1 has left the active window, everything is claimed
	done := make(chan struct{})
	txs.mu.Lock()
	txs.calls, txs.earCalls, txs.done = nil, 0, done
	txs.mu.Unlock()
	rws.UpdateEpoch(epoch + window + 1)
	select {
	case <-done:
	case <-time.After(4 * waitMax):
		hx.Die("stress: epoch update did not finish")
	}
	txs.mu.Lock()
	for _, c := range txs.calls {
		for _, p := range c.Proofs {
			if p.S >= 100001 && p.S <= 100000+rounds {
				r := p.S - 100000
				recs[r].Subs = append(recs[r].Subs, p.Cu)
			}
		}
	}
	txs.mu.Unlock()
	for r := 1; r <= rounds; r++ {
		c := recs[r].Calls
		for i := 0; i < len(c); i++ {
			for j := i + 1; j < len(c); j++ {
				if c[i].T0 < c[j].T1 && c[j].T0 < c[i].T1 {
					recs[r].Overlap++
				}
			}
		}
		out.Emit(recs[r])
	}
	rws.CloseAllDataBases()
}
