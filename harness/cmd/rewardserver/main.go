// rewardserver replays RewardServer.tla behaviours into the real protocol/rpcprovider/rewardserver
// (property C29): real RewardServer, real RewardDB over an on-disk Badger DB in a temp dir, mock
// RewardsTxSender.  restart = close the DB, new server (new RewardDB) on the same directory through
// the production path AddDataBase -> restoreRewardsFromDB.
//
//	rewardserver <behaviours.json> <trace.ndjson>
package main

import (
	"context"
	"errors"
	"fmt"
	"os"
	"sync"
	"time"

	btcSecp256k1 "github.com/btcsuite/btcd/btcec/v2"
	sdk "github.com/cosmos/cosmos-sdk/types"
	"github.com/lavanet/lava/v5/protocol/rpcprovider/rewardserver"
	"github.com/lavanet/lava/v5/utils"
	"github.com/lavanet/lava/v5/utils/rand"
	"github.com/lavanet/lava/v5/utils/sigs"
	pairingtypes "github.com/lavanet/lava/v5/x/pairing/types"

	"verif/harness/internal/hx"
)

const (
	specID        = "SPEC"
	providerAddr  = "provider"
	window        = 1 // must equal Window in specs/*RewardServer*.cfg
	snapThreshold = 2 // proofs with RelayNum % 2 == 0 trigger a snapshot: only the marker proof
	markerEpoch   = 9
	markerSid     = 9
	maxEpochProbe = 6
	waitMax       = 30 * time.Second
)

var sessPairs = [][2]int{{1, 1}, {2, 1}, {1, 2}} // (consumer, session id) - Sess in the cfg files

type step struct {
	A       string `json:"a"`
	E       int    `json:"e"`
	C       int    `json:"c"`
	S       int    `json:"s"`
	Cu      int    `json:"cu"`
	Cur     int    `json:"cur"`
	Ear     int    `json:"ear"`
	OkNew   bool   `json:"okNew"`
	OkRetry bool   `json:"okRetry"`
}

type pf struct {
	E  int `json:"e"`
	C  int `json:"c"`
	S  int `json:"s"`
	Cu int `json:"cu"`
}

type tx struct {
	Kind   string `json:"kind"`
	Ok     bool   `json:"ok"`
	Proofs []pf   `json:"proofs"`
}

type rec struct {
	Ev       string `json:"ev"`
	E        int    `json:"e"`
	C        int    `json:"c"`
	S        int    `json:"s"`
	Cu       int    `json:"cu"`
	Cur      int    `json:"cur"`
	Ear      int    `json:"ear"`
	OkNew    bool   `json:"okNew"`
	OkRetry  bool   `json:"okRetry"`
	Existing int    `json:"existing"`
	Updated  bool   `json:"updated"`
	Txs      []tx   `json:"txs"`
	DB       []pf   `json:"db"`
	Panic    bool   `json:"panic"`
	PanicS   string `json:"panics,omitempty"`
	Beh      int    `json:"beh"`
}

// ---- mock tx sender ------------------------------------------------------------------------

type txSender struct {
	mu        sync.Mutex
	earliest  uint64
	okNew     bool
	okRetry   bool
	submitted map[pf]bool // proofs submitted in this process lifetime
	calls     []tx
	earCalls  int
	done      chan struct{}
	consumers map[string]int // address -> consumer index
}

func (t *txSender) toPf(r *pairingtypes.RelaySession) pf {
	addr, err := sigs.ExtractSignerAddress(r)
	c := -1
	if err == nil {
		if v, ok := t.consumers[addr.String()]; ok {
			c = v
		}
	}
	return pf{E: int(r.Epoch), C: c, S: int(r.SessionId), Cu: int(r.CuSum)}
}

func (t *txSender) TxRelayPayment(ctx context.Context, relayRequests []*pairingtypes.RelaySession, description string, latestBlocks []*pairingtypes.LatestBlockReport) error {
	t.mu.Lock()
	defer t.mu.Unlock()
	c := tx{Kind: "retry", Proofs: []pf{}}
	for _, r := range relayRequests {
		p := t.toPf(r)
		if !t.submitted[p] {
			c.Kind = "new"
		}
		c.Proofs = append(c.Proofs, p)
	}
	for _, p := range c.Proofs {
		t.submitted[p] = true
	}
	c.Ok = t.okNew
	if c.Kind == "retry" {
		c.Ok = t.okRetry
	}
	t.calls = append(t.calls, c)
	if !c.Ok {
		return errors.New("scripted tx failure")
	}
	return nil
}

func (t *txSender) GetEpochSizeMultipliedByRecommendedEpochNumToCollectPayment(ctx context.Context) (uint64, error) {
	return window, nil
}

func (t *txSender) EarliestBlockInMemory(ctx context.Context) (uint64, error) {
	t.mu.Lock()
	defer t.mu.Unlock()
	t.earCalls++
	if t.earCalls == 2 && t.done != nil {
		// second call of one epoch update = identifyMissingPayments: sendRewardsClaim has returned
		close(t.done)
		t.done = nil
	}
	return t.earliest, nil
}

func (t *txSender) GetEpochSize(ctx context.Context) (uint64, error) { return 0, nil }
func (t *txSender) LatestBlock() int64                               { return 0 }
func (t *txSender) GetAverageBlockTime() time.Duration               { return time.Millisecond }

// ---- driver -------------------------------------------------------------------------------

type consumer struct {
	key  *btcSecp256k1.PrivateKey
	addr sdk.AccAddress
}

func main() {
	if len(os.Args) != 3 {
		hx.Die("usage: rewardserver behaviours.json trace.ndjson")
	}
	var behs [][]step
	hx.ReadJSON(os.Args[1], &behs)
	out := hx.NewOut(os.Args[2])
	defer out.Close()
	rand.InitRandomSeed()
	utils.SetGlobalLoggingLevel("fatal")

	cons := map[int]*consumer{}
	addrIdx := map[string]int{}
	for _, i := range []int{1, 2} {
		k, a := sigs.GenerateFloatingKey()
		cons[i] = &consumer{k, a}
		addrIdx[a.String()] = i
	}
	mkProof := func(e, c, s, cu int, relayNum uint64) *pairingtypes.RelaySession {
		p := &pairingtypes.RelaySession{
			Provider: providerAddr, ContentHash: []byte{1}, SessionId: uint64(s), SpecId: specID,
			CuSum: uint64(cu), Epoch: int64(e), RelayNum: relayNum, LavaChainId: "lava",
		}
		sig, err := sigs.Sign(cons[c].key, *p)
		if err != nil {
			hx.Die("sign: %v", err)
		}
		p.Sig = sig
		return p
	}
	marker := 0

	for bi, beh := range behs {
		dir, err := os.MkdirTemp(tmpBase(), "verif_c29_")
		if err != nil {
			hx.Die("tempdir: %v", err)
		}
		var rws *rewardserver.RewardServer
		var rdb *rewardserver.RewardDB
		var txs *txSender
		earliest := uint64(0)
		boot := func() {
			txs = &txSender{earliest: earliest, okNew: true, okRetry: true, submitted: map[pf]bool{}, consumers: addrIdx}
			rdb = rewardserver.NewRewardDB()
			rws = rewardserver.NewRewardServer(txs, nil, rdb, dir, snapThreshold, 1000000, nil)
			rws.AddDataBase(specID, providerAddr, 0)
		}
		boot()

		probe := func() []pf {
			res := []pf{}
			for e := 1; e <= maxEpochProbe; e++ {
				for _, sp := range sessPairs {
					a := cons[sp[0]].addr.String()
					p, err := rdb.FindOne(uint64(e), a, specID+a, uint64(sp[1]))
					if err == nil && p != nil {
						res = append(res, pf{E: e, C: sp[0], S: sp[1], Cu: int(p.CuSum)})
					}
				}
			}
			return res
		}
		emit := func(r *rec) {
			if r.Txs == nil {
				r.Txs = []tx{}
			}
			r.DB = probe()
			r.Beh = bi
			out.Emit(*r)
		}
		r0 := rec{Ev: "reset"}
		emit(&r0)

		for _, s := range beh {
			r := rec{Ev: s.A, E: s.E, C: s.C, S: s.S, Cu: s.Cu, Cur: s.Cur, Ear: s.Ear, OkNew: s.OkNew, OkRetry: s.OkRetry}
			func() {
				defer func() {
					if x := recover(); x != nil {
						r.Panic = true
						r.PanicS = fmt.Sprint(x)
					}
				}()
				switch s.A {
				case "proof":
					p := mkProof(s.E, s.C, s.S, s.Cu, 1)
					ex, upd := rws.SendNewProof(context.Background(), p, uint64(s.E), cons[s.C].addr.String(), "jsonrpc")
					r.Existing, r.Updated = int(ex), upd
				case "snap":
					// the marker proof (far-future epoch, never claimable, strictly increasing CuSum) has
					// RelayNum % threshold == 0 and therefore hands the snapshot job its signal; the
					// snapshot is one Badger transaction, so it is complete when the marker is visible
					marker++
					a := cons[1].addr.String()
					rws.SendNewProof(context.Background(), mkProof(markerEpoch, 1, markerSid, marker, snapThreshold), markerEpoch, a, "jsonrpc")
					deadline := time.Now().Add(waitMax)
					for {
						p, err := rdb.FindOne(markerEpoch, a, specID+a, markerSid)
						if err == nil && p != nil && int(p.CuSum) == marker {
							break
						}
						if time.Now().After(deadline) {
							hx.Die("behaviour %d: snapshot did not reach the DB within %s", bi, waitMax)
						}
						time.Sleep(200 * time.Microsecond)
					}
				case "update":
					earliest = uint64(s.Ear)
					done := make(chan struct{})
					txs.mu.Lock()
					txs.earliest, txs.okNew, txs.okRetry = earliest, s.OkNew, s.OkRetry
					txs.calls, txs.earCalls, txs.done = nil, 0, done
					txs.mu.Unlock()
					rws.UpdateEpoch(uint64(s.Cur))
					select {
					case <-done:
					case <-time.After(waitMax):
						hx.Die("behaviour %d: epoch update did not finish within %s", bi, waitMax)
					}
					txs.mu.Lock()
					r.Txs = append([]tx{}, txs.calls...)
					txs.mu.Unlock()
				case "paid":
					rws.PaymentHandler(&rewardserver.PaymentRequest{
						CU: uint64(s.Cu), BlockHeightDeadline: int64(s.E), PaymentEpoch: uint64(s.E),
						Client: cons[s.C].addr, UniqueIdentifier: uint64(s.S), Description: rws.Description(), ChainID: specID,
					})
				case "restart":
					if err := rws.CloseAllDataBases(); err != nil {
						hx.Die("close: %v", err)
					}
					boot()
				default:
					hx.Die("unknown action %q", s.A)
				}
			}()
			emit(&r)
		}
		rws.CloseAllDataBases()
		os.RemoveAll(dir)
	}
}

// tmpBase prefers a memory-backed directory: every restart closes and reopens a Badger DB.
func tmpBase() string {
	if st, err := os.Stat("/dev/shm"); err == nil && st.IsDir() {
		return "/dev/shm"
	}
	return ""
}
