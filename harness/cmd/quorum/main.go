// quorum binds specs/Quorum.tla to the real relaycore.RelayProcessor in cross-validation mode (C33).
//
//	quorum <cases.json> <trace.ndjson>
//
// Every case (arrival order of provider responses, agreement threshold, drain flag - enumerated by TLC)
// is fed to a fresh real RelayProcessor: all responses are queued through SetResponse in the given
// order, WaitForResults consumes them as the consumer's reader goroutine does (early exit included),
// optionally the queue is drained (NodeResults -> readExistingResponses), then ProcessingResult is
// asked for the answer.  Logged: what the results manager had consumed at the decision and the answer.
package main

import (
	"context"
	"fmt"
	"net/http"
	"os"
	"time"

	"github.com/lavanet/lava/v5/protocol/chainlib"
	"github.com/lavanet/lava/v5/protocol/chainlib/extensionslib"
	"github.com/lavanet/lava/v5/protocol/common"
	"github.com/lavanet/lava/v5/protocol/lavaprotocol"
	"github.com/lavanet/lava/v5/protocol/lavasession"
	"github.com/lavanet/lava/v5/protocol/relaycore"
	"github.com/lavanet/lava/v5/protocol/relaypolicy"
	"github.com/lavanet/lava/v5/utils"
	pairingtypes "github.com/lavanet/lava/v5/x/pairing/types"
	spectypes "github.com/lavanet/lava/v5/x/spec/types"

	"verif/harness/internal/hx"
)

type M = map[string]interface{}

type caseT struct {
	Order []string `json:"order"`
	T     int      `json:"T"`
	Drain bool     `json:"drain"`
	Reps  int      `json:"reps"` // executions of this case (the code iterates Go maps: repeated runs may differ)
}

type metricsMock struct{}

func (metricsMock) SetRelayNodeErrorMetric(chainId, apiInterface, providerAddress, method string) {}
func (metricsMock) GetChainIdAndApiInterface() (string, string)                                   { return "LAV1", "rest" }

type senderMock struct{ pm chainlib.ProtocolMessage }

func (s *senderMock) GetProcessingTimeout(chainlib.ChainMessage) (time.Duration, time.Duration) {
	return time.Hour, time.Hour
}
func (s *senderMock) GetChainIdAndApiInterface() (string, string) { return "LAV1", "rest" }
func (s *senderMock) ParseRelay(ctx context.Context, url, req, connectionType, dappID, consumerIp string, metadata []pairingtypes.Metadata) (chainlib.ProtocolMessage, error) {
	return s.pm, nil
}

var payload = map[string][]byte{
	"d1": []byte(`{"block":{"height":"17","v":"one"}}`),
	"d2": []byte(`{"block":{"height":"17","v":"two"}}`),
	"d3": []byte(`{"block":{"height":"17","v":"three"}}`),
}

func label(data []byte) string {
	if len(data) == 0 {
		return "empty"
	}
	for k, v := range payload {
		if string(v) == string(data) {
			return k
		}
	}
	return "other"
}

func response(kind, provider string, i int) *relaycore.RelayResponse {
	rr := common.RelayResult{
		Request:      &pairingtypes.RelayRequest{RelaySession: &pairingtypes.RelaySession{}, RelayData: &pairingtypes.RelayPrivateData{}},
		ProviderInfo: common.ProviderInfo{ProviderAddress: provider},
		StatusCode:   200,
	}
	switch kind {
	case "d1", "d2", "d3":
		rr.Reply = &pairingtypes.RelayReply{Data: append([]byte(nil), payload[kind]...), LatestBlock: 1}
	case "empty":
		var d []byte
		if i%2 == 0 {
			d = []byte{}
		}
		rr.Reply = &pairingtypes.RelayReply{Data: d, LatestBlock: 1}
	case "nodeErr":
		rr.Reply = &pairingtypes.RelayReply{Data: []byte(`{"message":"bad","code":123}`)}
		rr.StatusCode = 500
	case "protoErr":
		rr.Reply = &pairingtypes.RelayReply{Data: []byte(`{"message":"bad","code":123}`)}
		rr.StatusCode = 0
		return &relaycore.RelayResponse{RelayResult: rr, Err: fmt.Errorf("protocol failure")}
	}
	return &relaycore.RelayResponse{RelayResult: rr}
}

func main() {
	if len(os.Args) != 3 {
		hx.Die("usage: quorum <cases.json> <trace.ndjson>")
	}
	var cases []caseT
	hx.ReadJSON(os.Args[1], &cases)
	repo := os.Getenv("VERIF_REPO")
	if repo == "" {
		repo = "/repo"
	}
	handler := http.HandlerFunc(func(w http.ResponseWriter, r *http.Request) { w.WriteHeader(http.StatusOK) })
	parser, _, _, closeServer, _, err := chainlib.CreateChainLibMocks(context.Background(), "LAV1", spectypes.APIInterfaceRest, handler, nil, repo+"/", nil)
	if err != nil {
		hx.Die("CreateChainLibMocks: %v", err)
	}
	if closeServer != nil {
		defer closeServer()
	}
	utils.SetGlobalLoggingLevel("fatal")
	out := hx.NewOut(os.Args[2])
	retries := lavaprotocol.NewRelayRetriesManager()
	consistency := relaycore.NewConsistency("LAV1", 0) // one cache for all cases (creating it is expensive)
	for ci, c := range cases {
		reps := c.Reps
		if reps < 1 {
			reps = 1
		}
		for rep := 0; rep < reps; rep++ {
			n := len(c.Order)
			chainMsg, err := parser.ParseMsg("/cosmos/base/tendermint/v1beta1/blocks/17", nil, http.MethodGet, nil, extensionslib.ExtensionInfo{LatestBlock: 0})
			if err != nil {
				hx.Die("ParseMsg: %v", err)
			}
			headers := map[string]string{
				common.CROSS_VALIDATION_HEADER_MAX_PARTICIPANTS:    fmt.Sprint(n),
				common.CROSS_VALIDATION_HEADER_AGREEMENT_THRESHOLD: fmt.Sprint(c.T),
			}
			pm := chainlib.NewProtocolMessage(chainMsg, headers, nil, "dapp", "127.0.0.1")
			ctx, cancel := context.WithCancel(context.Background()) // no deadline: every response is queued before the wait
			used := lavasession.NewUsedProviders(nil)
			pol := relaypolicy.NewPolicy(relaypolicy.PolicyConfig{MaxRetries: 10, RelayRetryLimit: 2, DisableBatchRetry: true, SendRelayAttempts: 3})
			sm, err := relaycore.NewUnifiedRelayStateMachine(ctx, used, &senderMock{pm: pm}, pm, nil, false,
				relaycore.StateMachineConfig{MaxRetries: 10, SendRelayAttempts: 3}, pol)
			if err != nil {
				hx.Die("state machine: %v", err)
			}
			if sm.GetSelection() != relaycore.CrossValidation {
				hx.Die("selection is not cross-validation")
			}
			rp := relaycore.NewRelayProcessor(ctx, sm.GetCrossValidationParams(), consistency, metricsMock{}, metricsMock{}, retries, sm)
			sessions := lavasession.ConsumerSessionsMap{}
			for i := 0; i < n; i++ {
				sessions[fmt.Sprintf("lava@p%d", i)] = &lavasession.SessionInfo{}
			}
			used.AddUsed(sessions, nil)
			for i, k := range c.Order {
				p := fmt.Sprintf("lava@p%d", i)
				resp := response(k, p, i)
				used.RemoveUsed(p, lavasession.NewRouterKey(nil), resp.Err)
				rp.SetResponse(resp)
			}
			waitErr := rp.WaitForResults(ctx)
			if waitErr != nil {
				hx.Die("WaitForResults returned %v although every response was queued", waitErr)
			}
			met, _ := rp.HasRequiredNodeResults(1)
			count := func() (M, int, int, int, int) {
				succ, nodeErrs, protoErrs := rp.GetResultsData()
				g := M{"d1": 0, "d2": 0, "d3": 0}
				e, other := 0, 0
				for _, r := range succ {
					var data []byte
					if r.Reply != nil {
						data = r.Reply.Data
					}
					switch l := label(data); l {
					case "empty":
						e++
					case "other":
						other++
					default:
						g[l] = g[l].(int) + 1
					}
				}
				return g, e, len(nodeErrs), len(protoErrs), other
			}
			g0, e0, ne0, pe0, _ := count()
			cnt0 := e0 + ne0 + pe0 + g0["d1"].(int) + g0["d2"].(int) + g0["d3"].(int)
			if c.Drain {
				rp.NodeResults()
			}
			g, e, ne, pe, other := count()
			res, perr := rp.ProcessingResult()
			r, cv := "error", 0
			if perr == nil {
				var data []byte
				if res != nil && res.Reply != nil {
					data = res.Reply.Data
				}
				r = label(data)
				if res != nil {
					cv = res.CrossValidation
				}
			}
			out.Emit(M{"ev": "case", "i": ci, "rep": rep, "order": c.Order, "T": c.T, "drain": c.Drain, "n": n,
				"g": g, "e": e, "ne": ne, "pe": pe, "other": other, "cnt": e + ne + pe + g["d1"].(int) + g["d2"].(int) + g["d3"].(int),
				"early": met && cnt0 < n, "met": met, "waitErr": waitErr != nil, "res": r, "cv": cv})
			cancel()
		}
	}
	out.Close()
}
