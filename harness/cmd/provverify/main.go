// provverify replays ProviderVerify.tla behaviours into a real rpcprovider.RPCProviderServer wired
// through the exported ServeRPCRequests (property C39): real chain parser / chain router (ETH1
// jsonrpc, node = local httptest server), real ProviderSessionManager, recording RewardServerInf,
// mock StateTrackerInf deciding the pairing-verification outcome.  Relay() is called directly.
//
//	provverify <behaviours.json> <trace.ndjson>          (env VERIF_REPO = repository root, for the spec files)
package main

import (
	"context"
	"errors"
	"fmt"
	"net/http"
	"os"
	"reflect"
	"sort"
	"strings"
	"sync"
	"time"

	btcSecp256k1 "github.com/btcsuite/btcd/btcec/v2"
	sdk "github.com/cosmos/cosmos-sdk/types"
	"github.com/lavanet/lava/v5/protocol/chainlib"
	"github.com/lavanet/lava/v5/protocol/chainlib/extensionslib"
	"github.com/lavanet/lava/v5/protocol/chaintracker"
	"github.com/lavanet/lava/v5/protocol/lavasession"
	"github.com/lavanet/lava/v5/protocol/rpcprovider"
	"github.com/lavanet/lava/v5/utils"
	"github.com/lavanet/lava/v5/utils/rand"
	"github.com/lavanet/lava/v5/utils/sigs"
	pairingtypes "github.com/lavanet/lava/v5/x/pairing/types"

	"verif/harness/internal/hx"
)

const (
	specID      = "ETH1"
	lavaChainID = "lava"
	curEpoch    = 100
	prevEpoch   = 90 // older epoch that is still valid for use
	keepBlocks  = 20 // blocked epoch height = 80
	oldEpoch    = 70
	maxCU       = 100 // must equal MaxCU in specs/Trace_ProviderVerify.cfg
	goodData    = `{"jsonrpc":"2.0","id":1,"method":"eth_blockNumber","params":[]}`
	badData     = `{"jsonrpc":"2.0","id":1,"meth`
)

type step struct {
	Signer  string `json:"signer"`       // "A" | "B"
	Sid     uint64 `json:"sid"`          // session id
	Kind    string `json:"kind"`         // corruption kind
	Resign  bool   `json:"resign"`       // corrupted request is (re)signed by the signer
	Pairing string `json:"pairing"`      // chain's pairing answer for the request's epoch
	Epoch   string `json:"epoch"`        // "cur" | "prev": the (valid) epoch the request is made for
	PairOth string `json:"pairingother"` // chain's pairing answer for the other valid epoch
}

type sess struct {
	Sid    uint64 `json:"sid"`
	Cu     uint64 `json:"cu"`
	Rn     uint64 `json:"rn"`
	Locked bool   `json:"locked"`
}

type cstate struct {
	Reg  bool   `json:"reg"`
	Used uint64 `json:"used"`
	Sess []sess `json:"sess"`
}

type proof struct {
	C   string `json:"c"`
	Ep  string `json:"ep"` // epoch the proof is claimed for (argument of SendNewProof)
	Sid uint64 `json:"sid"`
	Cu  uint64 `json:"cu"`
}

type rec struct {
	Ev      string            `json:"ev"`
	Signer  string            `json:"signer"`
	Sid     uint64            `json:"sid"`
	Kind    string            `json:"kind"`
	Resign  bool              `json:"resign"`
	Pairing string            `json:"pairing"`
	Epoch   string            `json:"epoch"`
	PairOth string            `json:"pairingother"`
	Ep      string            `json:"ep"`     // epoch named by the request as sent: "cur" | "prev" | "old"
	PairBy  map[string]string `json:"pairby"` // chain's pairing answer per valid epoch
	Asked   []string          `json:"asked"`  // epochs for which VerifyPairing was called during the step
	// ground truth about the request actually sent (measured by the harness, not by the provider)
	Nil     bool   `json:"nil"`
	ProvOk  bool   `json:"provok"`
	SpecOk  bool   `json:"specok"`
	LavaOk  bool   `json:"lavaok"`
	EpochOk bool   `json:"epochok"`
	HashOk  bool   `json:"hashok"`
	Who     string `json:"who"` // recovered signer: "A" | "B" | "X" (some other address) | "none"
	ParseOk bool   `json:"parseok"`
	AddonOk bool   `json:"addonok"`
	SeenOk  bool   `json:"seenok"`
	CuSum   uint64 `json:"cusum"`
	RelayN  uint64 `json:"relaynum"`
	ReqSid  uint64 `json:"reqsid"`
	// result
	Served bool   `json:"served"`
	Err    string `json:"err"`
	VP     int    `json:"vpcalls"` // VerifyPairing calls during the step
	// provider state after the step
	St     map[string]map[string]cstate `json:"st"`     // epoch ("cur","prev") -> consumer ("A","B") -> state
	X      cstate                       `json:"X"`      // state of the recovered address when it is neither A nor B
	Xpre   cstate                       `json:"Xpre"`   // ... before the call (the same tampered bytes recover the same address again)
	Proofs []proof                      `json:"proofs"` // proofs handed to the reward server during this step
	Panic  bool                         `json:"panic"`
	PanicS string                       `json:"panics,omitempty"`
	Beh    int                          `json:"beh"`
}

// ---- mocks -----------------------------------------------------------------------------------

type stateTracker struct {
	mu      sync.Mutex
	outcome map[uint64]string // per epoch asked
	vpCalls int
	asked   []uint64
}

func (s *stateTracker) LatestBlock() int64 { return curEpoch + 5 }
func (s *stateTracker) GetMaxCuForUser(ctx context.Context, consumerAddress, chainID string, epoch uint64) (uint64, error) {
	return maxCU, nil
}

func (s *stateTracker) VerifyPairing(ctx context.Context, consumerAddress, providerAddress string, epoch uint64, chainID string) (bool, int64, string, error) {
	s.mu.Lock()
	defer s.mu.Unlock()
	s.vpCalls++
	s.asked = append(s.asked, epoch)
	switch s.outcome[epoch] {
	case "valid":
		return true, 3, consumerAddress, nil // project id = consumer address
	case "invalid":
		return false, 3, "", nil
	}
	return false, 0, "", errors.New("scripted pairing query failure")
}
func (s *stateTracker) GetVirtualEpoch(epoch uint64) uint64 { return 0 }

type rewardRec struct {
	mu     sync.Mutex
	proofs []proof
	ch     chan struct{}
}

func (r *rewardRec) SendNewProof(ctx context.Context, p *pairingtypes.RelaySession, epoch uint64, consumerAddr, apiInterface string) (uint64, bool) {
	r.mu.Lock()
	r.proofs = append(r.proofs, proof{C: consumerAddr, Ep: epochName(epoch), Sid: p.SessionId, Cu: p.CuSum})
	r.mu.Unlock()
	select {
	case r.ch <- struct{}{}:
	default:
	}
	return 0, true
}
func (r *rewardRec) SubscribeStarted(consumer string, epoch uint64, subscribeID string) {}
func (r *rewardRec) SubscribeEnded(consumer string, epoch uint64, subscribeID string)   {}

// ---- helpers ----------------------------------------------------------------------------------

type account struct {
	key  *btcSecp256k1.PrivateKey
	addr sdk.AccAddress
}

func epochName(e uint64) string {
	switch e {
	case curEpoch:
		return "cur"
	case prevEpoch:
		return "prev"
	}
	return "old"
}

func readState(psm *lavasession.ProviderSessionManager, epoch uint64, project string) cstate {
	cs := cstate{Sess: []sess{}}
	pswc, err := psm.IsActiveProject(epoch, project)
	if err != nil || pswc == nil {
		return cs
	}
	cs.Reg = true
	// epochData.UsedComputeUnits is unexported: read it by reflection (harness-only)
	v := reflect.ValueOf(pswc).Elem().FieldByName("epochData")
	if v.IsValid() && !v.IsNil() {
		cs.Used = v.Elem().FieldByName("UsedComputeUnits").Uint()
	}
	pswc.Lock.RLock()
	ss := make([]*lavasession.SingleProviderSession, 0)
	for _, s := range pswc.Sessions {
		ss = append(ss, s)
	}
	pswc.Lock.RUnlock()
	for _, s := range ss {
		// VerifyLock returns nil iff the session lock is held (a leaked lock after the relay returned)
		locked := s.VerifyLock() == nil
		cs.Sess = append(cs.Sess, sess{Sid: s.SessionID, Cu: s.CuSum, Rn: s.RelayNum, Locked: locked})
	}
	sort.Slice(cs.Sess, func(i, j int) bool { return cs.Sess[i].Sid < cs.Sess[j].Sid })
	return cs
}

func main() {
	if len(os.Args) != 3 {
		hx.Die("usage: provverify behaviours.json trace.ndjson")
	}
	repo := os.Getenv("VERIF_REPO")
	if repo == "" {
		repo = "/repo"
	}
	var behs [][]step
	hx.ReadJSON(os.Args[1], &behs)
	out := hx.NewOut(os.Args[2])
	defer out.Close()
	rand.InitRandomSeed()

	ctx := context.Background()
	node := func(w http.ResponseWriter, r *http.Request) {
		w.Header().Set("Content-Type", "application/json")
		w.WriteHeader(http.StatusOK)
		fmt.Fprint(w, `{"jsonrpc":"2.0","id":1,"result":"0x10"}`)
	}
	chainParser, chainRouter, _, closeServer, endpoint, err := chainlib.CreateChainLibMocks(ctx, specID, "jsonrpc", node, nil, repo+"/", nil)
	if err != nil {
		hx.Die("CreateChainLibMocks: %v", err)
	}
	defer closeServer()
	utils.SetGlobalLoggingLevel("fatal")

	// compute units and requested block of the good request, as the consumer would compute them
	cm, err := chainParser.ParseMsg("", []byte(goodData), "POST", nil, extensionslib.ExtensionInfo{LatestBlock: 0})
	if err != nil {
		hx.Die("parse good request: %v", err)
	}
	relayCU := cm.GetApi().ComputeUnits
	reqBlock, _ := cm.RequestedBlock()

	provKey, provAddr := sigs.GenerateFloatingKey()
	accs := map[string]*account{}
	names := map[string]string{}
	for _, n := range []string{"A", "B"} {
		k, a := sigs.GenerateFloatingKey()
		accs[n] = &account{k, a}
		names[a.String()] = n
	}

	for bi, beh := range behs {
		psm := lavasession.NewProviderSessionManager(endpoint, keepBlocks)
		psm.UpdateEpoch(curEpoch)
		st := &stateTracker{outcome: map[uint64]string{}}
		rw := &rewardRec{ch: make(chan struct{}, 64)}
		srv := &rpcprovider.RPCProviderServer{}
		srv.ServeRPCRequests(ctx, endpoint, chainParser, rw, psm, &chaintracker.DummyChainTracker{}, provKey, nil, false, chainRouter,
			st, provAddr, lavaChainID, 0, nil, nil, nil, nil, nil, 2, nil, nil, false)

		emit := func(r *rec, xaddr string, xepoch uint64) {
			r.St = map[string]map[string]cstate{}
			for _, e := range []uint64{curEpoch, prevEpoch} {
				r.St[epochName(e)] = map[string]cstate{
					"A": readState(psm, e, accs["A"].addr.String()),
					"B": readState(psm, e, accs["B"].addr.String()),
				}
			}
			if xaddr != "" {
				r.X = readState(psm, xepoch, xaddr)
			} else {
				r.X = cstate{Sess: []sess{}}
			}
			rw.mu.Lock()
			r.Proofs = []proof{}
			for _, p := range rw.proofs {
				c := p.C
				if n, ok := names[c]; ok {
					c = n
				} else {
					c = "X"
				}
				r.Proofs = append(r.Proofs, proof{C: c, Ep: p.Ep, Sid: p.Sid, Cu: p.Cu})
			}
			rw.proofs = nil
			rw.mu.Unlock()
			st.mu.Lock()
			r.VP = st.vpCalls
			st.vpCalls = 0
			r.Asked = []string{}
			for _, e := range st.asked {
				r.Asked = append(r.Asked, epochName(e))
			}
			st.asked = nil
			if r.PairBy == nil {
				r.PairBy = map[string]string{"cur": "valid", "prev": "valid"}
			}
			st.mu.Unlock()
			r.Beh = bi
			out.Emit(*r)
		}
		r0 := rec{Ev: "reset", Xpre: cstate{Sess: []sess{}}}
		emit(&r0, "", 0)

		for _, s := range beh {
			acc := accs[s.Signer]
			// the valid next request of this consumer / session, relative to the provider's real state
			reqEpoch := uint64(curEpoch)
			othEpoch := uint64(prevEpoch)
			if s.Epoch == "prev" {
				reqEpoch, othEpoch = prevEpoch, curEpoch
			}
			cur := readState(psm, reqEpoch, acc.addr.String())
			var cu, rn uint64
			for _, x := range cur.Sess {
				if x.Sid == s.Sid {
					cu, rn = x.Cu, x.Rn
				}
			}
			data := &pairingtypes.RelayPrivateData{
				ConnectionType: "POST", ApiUrl: "", Data: []byte(goodData), RequestBlock: reqBlock,
				ApiInterface: "jsonrpc", Salt: []byte{1, 2, 3, 4, 5, 6, 7, 8}, SeenBlock: 0,
			}
			rs := &pairingtypes.RelaySession{
				SpecId: specID, SessionId: s.Sid, CuSum: cu + relayCU, Provider: provAddr.String(), RelayNum: rn + 1,
				Epoch: int64(reqEpoch), LavaChainId: lavaChainID,
			}
			r := rec{Ev: "relay", Signer: s.Signer, Sid: s.Sid, Kind: s.Kind, Resign: s.Resign, Pairing: s.Pairing, Epoch: s.Epoch, PairOth: s.PairOth,
				PairBy:  map[string]string{epochName(reqEpoch): s.Pairing, epochName(othEpoch): s.PairOth},
				ParseOk: true, AddonOk: true, SeenOk: true}
			rehash := true // content hash is computed after the RelayData corruption
			// --- corruptions of RelayData
			switch s.Kind {
			case "unparsable":
				data.Data = []byte(badData)
				r.ParseOk = false
			case "badaddon":
				data.Addon = "verif-no-such-addon"
				r.AddonOk = false
			case "negseen":
				data.SeenBlock = -5
				r.SeenOk = false
			}
			rs.ContentHash = sigs.HashMsg(data.GetContentHashData())
			// --- corruptions of signed RelaySession fields
			switch s.Kind {
			case "provider":
				rs.Provider = accs["B"].addr.String()
			case "spec":
				rs.SpecId = "LAV1"
			case "lava":
				rs.LavaChainId = "lava-other"
			case "epochold":
				rs.Epoch = oldEpoch
			case "hash":
				rs.ContentHash = append([]byte{}, rs.ContentHash...)
				rs.ContentHash[0] ^= 0xff
			case "cusumlow":
				rs.CuSum = cu + relayCU - 1
			case "cusumhigh":
				rs.CuSum = cu + relayCU + 5
			case "cuover":
				rs.CuSum = cu + relayCU + 10*maxCU
			case "relaynum":
				rs.RelayNum = rn
			}
			signIt := func() {
				sig, err := sigs.Sign(acc.key, *rs)
				if err != nil {
					hx.Die("sign: %v", err)
				}
				rs.Sig = sig
			}
			isSessionKind := map[string]bool{"provider": true, "spec": true, "lava": true, "epochold": true, "hash": true,
				"cusumlow": true, "cusumhigh": true, "cuover": true, "relaynum": true}[s.Kind]
			if isSessionKind && !s.Resign {
				// tampered in flight: signed first (valid request), corrupted afterwards
				saved := *rs
				good := saved
				good.SpecId, good.Provider, good.LavaChainId, good.Epoch = specID, provAddr.String(), lavaChainID, int64(reqEpoch)
				good.CuSum, good.RelayNum = cu+relayCU, rn+1
				good.ContentHash = sigs.HashMsg(data.GetContentHashData())
				sig, err := sigs.Sign(acc.key, good)
				if err != nil {
					hx.Die("sign: %v", err)
				}
				rs.Sig = sig
			} else {
				signIt()
			}
			// --- corruptions applied after signing (fields outside the signature)
			switch s.Kind {
			case "data":
				data.Data = []byte(strings.Replace(goodData, `"id":1`, `"id":2`, 1))
				rehash = false
			case "apiurl":
				data.ApiUrl = "/x"
				rehash = false
			case "reqblock":
				data.RequestBlock = reqBlock - 1
				rehash = false
			case "seenblock":
				data.SeenBlock = 7
				rehash = false
			case "salt":
				data.Salt = []byte{9}
				rehash = false
			case "addon":
				data.Addon = "x"
				rehash = false
			case "ext":
				data.Extensions = []string{"archive"}
				rehash = false
			case "conntype":
				data.ConnectionType = "GET"
				rehash = false
			case "apiiface":
				data.ApiInterface = "rest"
				rehash = false
			case "metadata":
				data.Metadata = []pairingtypes.Metadata{{Name: "x", Value: "y"}}
				rehash = false
			case "sigflip":
				rs.Sig = append([]byte{}, rs.Sig...)
				rs.Sig[10] ^= 0x55
			case "sigempty":
				rs.Sig = nil
			}
			_ = rehash
			req := &pairingtypes.RelayRequest{RelaySession: rs, RelayData: data}
			switch s.Kind {
			case "nildata":
				req.RelayData = nil
				r.Nil = true
			case "nilsession":
				req.RelaySession = nil
				r.Nil = true
			}
			// --- ground truth about what is sent
			xaddr := ""
			if req.RelaySession != nil {
				r.ProvOk = rs.Provider == provAddr.String()
				r.SpecOk = rs.SpecId == specID
				r.LavaOk = rs.LavaChainId == lavaChainID
				r.EpochOk = uint64(rs.Epoch) > curEpoch-keepBlocks
				r.Ep = epochName(uint64(rs.Epoch))
				r.CuSum, r.RelayN, r.ReqSid = rs.CuSum, rs.RelayNum, rs.SessionId
				if req.RelayData != nil {
					r.HashOk = string(rs.ContentHash) == string(sigs.HashMsg(data.GetContentHashData()))
				}
				who, err := sigs.ExtractSignerAddress(rs)
				if err != nil {
					r.Who = "none"
				} else if n, ok := names[who.String()]; ok {
					r.Who = n
				} else {
					r.Who = "X"
					xaddr = who.String()
				}
			} else {
				r.Who = "none"
			}
			if xaddr != "" {
				r.Xpre = readState(psm, uint64(rs.Epoch), xaddr)
			} else {
				r.Xpre = cstate{Sess: []sess{}}
			}
			st.mu.Lock()
			st.outcome = map[uint64]string{reqEpoch: s.Pairing, othEpoch: s.PairOth}
			st.mu.Unlock()
			// --- the call
			func() {
				defer func() {
					if x := recover(); x != nil {
						r.Panic = true
						r.PanicS = fmt.Sprint(x)
					}
				}()
				rctx, cancel := context.WithTimeout(ctx, 10*time.Second)
				defer cancel()
				reply, err := srv.Relay(rctx, req)
				r.Served = err == nil && reply != nil
				if err != nil {
					r.Err = err.Error()
					if len(r.Err) > 160 {
						r.Err = r.Err[:160]
					}
				}
			}()
			if r.Served {
				// the proof is handed to the reward server asynchronously (go SendProof)
				select {
				case <-rw.ch:
				case <-time.After(5 * time.Second):
				}
			} else {
				time.Sleep(200 * time.Microsecond)
			}
			xe := uint64(0)
			if req.RelaySession != nil {
				xe = uint64(rs.Epoch)
			}
			if r.Ep == "" {
				r.Ep = "old"
			}
			emit(&r, xaddr, xe)
		}
		time.Sleep(2 * time.Millisecond)
		rend := rec{Ev: "end", Xpre: cstate{Sess: []sess{}}}
		emit(&rend, "", 0)
	}
}
