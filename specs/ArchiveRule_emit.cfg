CONSTANTS
  Nums = {0, 1, 2, 3, 49, 50, 51, 99, 100, 101, 124, 125, 126, 127, 128, 129, 130, 171, 172, 173, 174, 175, 199, 200, 201, 253, 254, 255, 256, 298, 299, 300, 301, 745, 746, 747, 872, 873, 874, 899, 900, 998, 999, 1000, 1001, 5000}
  Latests = {0, 1, 2, 50, 100, 101, 125, 126, 127, 128, 129, 254, 255, 256, 300, 1000}
  Rules = {1, 2, 100, 126, 127, 128, 254}
  Methods = {"eth_call", "eth_getBalance"}
  Guard = TRUE
INIT Init
NEXT Next
INVARIANTS Emit
CHECK_DEADLOCK FALSE
