CONSTANTS
  Epochs = {1}
  Sess = {11}
  MaxCu = 3
  Window = 1
  MaxRetries = 3
  MaxOps = 1
  AtomicSave = TRUE
  MaxCalls = 0
  GenHist = FALSE
INIT TInit
NEXT TNext
INVARIANTS KeptIsMax SubmitsKept AnswersSound
POSTCONDITION Post
CHECK_DEADLOCK FALSE
