CONSTANTS
  Family = "all"
  MaxImp = 1
  Ordered = TRUE
  Shapes = "core"
  Level = 0
  Fixed = TRUE
INIT EInit
NEXT ENext
CHECK_DEADLOCK FALSE
