CONSTANTS
  MH = 720
  HS = 3600
  Amounts = {0, 1, 2, 1000, 5000}
  Gaps = {0, 1800, 3600, 1296000, 2592000}
  TouchX = {1}
  MaxOps = 4
  GenHist = TRUE
INIT Init
NEXT Next
INVARIANTS TypeOK NonNeg Settled BoundedOrF20 MonotoneOrKnown EmitBad
CHECK_DEADLOCK FALSE
