CONSTANTS
  Provs = {"p1", "p2"}
  Chains = {"c1", "c2", "c3"}
  Dels = {"d1", "d2"}
  Vals = {"va", "vb"}
  StakeAmts = {150, 600, 1000, 1500, 2500}
  DelAmts = {1, 333, 1000, 3001}
  MinSelf = 100
  MinSpec = 1000
  MinSpecHigh = 2000
  HighChains = {"c2"}
  Fixed = TRUE
  MaxOps = 16
  GenHist = TRUE
INIT Init
NEXT GenNext
INVARIANTS Emit
CHECK_DEADLOCK FALSE
