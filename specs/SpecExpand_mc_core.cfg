CONSTANTS
  Family = "content"
  MaxImp = 1
  Ordered = TRUE
  Shapes = "core"
  Level = 1
  Fixed = TRUE
INIT Init
NEXT Next
INVARIANTS RejectsInv CompleteInv NoDupInv NoJunkInv CUInv
CHECK_DEADLOCK FALSE
