CONSTANTS
  VoterSeq <- VS2
  Others = {"x"}
  Pairs = {"A", "B"}
  EB = 2
  VP = 1
  SPAN = 2
  Base = 2
  MaxH = 8
  MaxDet = 2
  StakeVecs <- SV2
  Ages = {0}
  MaxOps = 0
  GenHist = FALSE
INIT Init
NEXT Next
VIEW View
INVARIANTS TypeOK Coherent
PROPERTIES C20Prop
CHECK_DEADLOCK FALSE
