CONSTANTS
  Consumers = {"C1", "C2"}
  Providers = {"P1", "P2", "P3"}
  Validators = {"VA1", "VA2"}
  Delegators = {"D1", "D2"}
  Specs = {"S1", "S2"}
  Plans = {"PL1", "PL2"}
  MaxOps = 100000
  GenHist = FALSE
  FixRenew = TRUE
  Bias = "all"
  T0 = 2264761
  H0 = 50
  McKinds = {}
INIT TInit
NEXT TNext
INVARIANTS ProjectionSound BackedDs BackedIprpc BackedSub
POSTCONDITION Post
CHECK_DEADLOCK FALSE
