CONSTANTS
  MaxRetriesSet = {3}
  RetryLimitSet = {2}
  MaxAttempt = 4
  MaxNe = 2
  MaxSne = 1
  MaxPe = 1
  MaxCnt = 2
  SendAttemptsSet = {0, 2}
  ThresholdSet = {0, 1, 2}
  MaxSeq = 4
  EmitWhat = "send"
  Reduced = FALSE
INIT EInit
NEXT ENext
INVARIANTS Emit
CHECK_DEADLOCK FALSE
