CONSTANTS
  EB = 20
  StaleP = 200
  BT = 1
  MaxOps = 8
  MaxMonths = 3
  GenHist = TRUE
  GenBias = FALSE
  FixRenew = TRUE
  PlanIdx = {"p1"}
  Durs = {1, 2}
  WithRelay = FALSE
  Consumers = {"c1", "c2"}
  ThirdParty = {}
  WithDrain = TRUE
  Acts = {"planadd", "buy", "block"}
  PriceVar = {0}
INIT Init
NEXT Next
INVARIANTS NoTarget
CHECK_DEADLOCK FALSE
VIEW NoHistView
