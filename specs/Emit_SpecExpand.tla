--------------------------- MODULE Emit_SpecExpand ---------------------------
(* Writes every input vector of the configured SpecExpand family to the ndjson file
   IOEnv.VERIF_OUT in one piece (printing 10^4 values one by one with PrintT costs milliseconds
   each).  The vectors are replayed into the real spec keeper by harness/cmd/specexpand. *)
EXTENDS SpecExpand, IOUtils
SX == INSTANCE SequencesExt
EInit == inp = <<>> /\ out = <<>> /\ ndJsonSerialize(IOEnv.VERIF_OUT, SX!SetToSeq(Inputs))
ENext == FALSE /\ UNCHANGED vars
=============================================================================
