CONSTANTS
  EB = 20
  StaleP = 200
  MaxOps = 8
  MaxMonths = 3
  GenHist = TRUE
  GenBias = FALSE
  FixRenew = TRUE
  PlanIdx = {"p1"}
  Buyers = {"c"}
  Durs = {1}
  WithRelay = FALSE
  PriceVar = {0}
INIT Init
NEXT Next
INVARIANTS TypeOK PlanAvailable NoPanic CuBounded LeftPositive
CHECK_DEADLOCK FALSE
VIEW NoHistView
