CONSTANTS
  EB = 20
  StaleP = 200
  BT = 1
  MaxOps = 7
  MaxMonths = 3
  GenHist = TRUE
  GenBias = FALSE
  FixRenew = TRUE
  PlanIdx = {"p1"}
  Durs = {1}
  WithRelay = FALSE
  Consumers = {"c1"}
  ThirdParty = {}
  WithDrain = FALSE
  Acts = {"planadd", "plandel", "buy", "adv", "auto", "block", "epoch", "stale"}
  PriceVar = {0}
INIT Init
NEXT Next
INVARIANTS TypeOK PlanAvailable NoPanic CuBounded LeftPositive RefsCoverHolders HeldVersionsExist
CHECK_DEADLOCK FALSE
VIEW NoHistView
