CONSTANTS
  Indices = {"a"}
  MaxBlock = 6
  Stale = 2
  MaxRef = 2
  Data = {1}
  MaxOps = 4
  GenHist = FALSE
  Fix16 = TRUE
  Fix17 = TRUE
  Fix17b = TRUE
  Fix18 = TRUE
INIT Init
NEXT Next
VIEW View
INVARIANTS NoKnown TypeOK NoPanic Refines ResAgree GCSafe RefcountExact PutNotRefused OneLatest TimersSane LiveSane
CHECK_DEADLOCK FALSE
