CONSTANTS
  Sel = "cv"
  MaxRetries = 3
  SendAttempts = 2
  RetryLimit = 2
  TimeoutPriority = FALSE
  NumFirst = 3
  Need = 2
  MaxTicks = 3
  MaxSendErrs = 5
  MaxResults = 5
  KindSet = {"ok", "ne", "nr", "pe", "pp", "em"}
  BuCap = 3
  FixF34 = TRUE
  GenHist = TRUE
INIT Init
NEXT GenNext
INVARIANTS Emit
CHECK_DEADLOCK FALSE
