--------------------------- MODULE Trace_RewardBurst ---------------------------
(* Obs-mode validation of the concurrent phase of harness/cmd/rewardserver (-stress): every line is
   one round = one session that first received a seed proof and then G proofs with different CuSums
   from G goroutines released together by a spinning barrier (real SendNewProof calls on the real
   RewardServer; each call carries global sequence numbers t0 < t1 taken around the call).  After
   all rounds returned (quiescence) the driver triggers one snapshot and one epoch update and
   records for every round the proof found in the RewardDB (`kept`) and the proofs submitted through
   TxRelayPayment for that session (`subs`).

   RewardServer.tla explains the expectation: with the compare-and-store of saveProofInMemory in one
   critical section (AtomicSave = TRUE, RewardServer_conc.cfg) every interleaving of the calls ends
   with BurstKept = the highest CuSum received; with check-then-act (RewardServer_split.cfg) TLC finds
   the lost update.  The invariants below are evaluated on the real observations. *)
EXTENDS RewardServer, IOUtils
VARIABLES l, b
Trace == ndJsonDeserialize(IOEnv.VERIF_TRACE)
tvars == <<vars, l, b>>
ToSet(s) == {s[i] : i \in 1..Len(s)}
Cus(r) == {r.calls[i].cu : i \in 1..Len(r.calls)}

TInit == Init /\ l = 1 /\ b = Trace[1]
TNext == l < Len(Trace) /\ l' = l + 1 /\ b' = Trace[l + 1] /\ UNCHANGED vars
TSpec == TInit /\ [][TNext]_tvars

\* the proof kept at quiescence (as snapshotted) is the best one received
KeptIsMax == b.kept = BurstKept(b.seedcu, Cus(b))
\* ... and it is the one - the only one - submitted for the session
SubmitsKept == b.subs = <<BurstKept(b.seedcu, Cus(b))>>
\* answers: "not updated" only with a proof at least as good that was really received; the call
\* carrying the highest CuSum is never turned away
AnswersSound == \A i \in 1..Len(b.calls) :
                  LET c == b.calls[i] IN
                    /\ c.t0 < c.t1
                    /\ (~c.updated => (c.existing >= c.cu /\ c.existing \in Cus(b) \cup {b.seedcu}))
                    /\ (c.cu = BurstKept(b.seedcu, Cus(b)) /\ c.cu > b.seedcu) => c.updated
Post == LET d == TLCGet("stats").diameter IN PrintT(<<"HWM", d>>) /\ d = Len(Trace)
=============================================================================
