CONSTANTS
  NP = 3
  MaxK = 8
  GenHist = FALSE
  KSet = {0}
  NA = 6
  NL = 8
  NS = 6
  NK = 4
  Strategies = {0, 1, 2, 3, 4, 5, 6}
  Adaptive = {0, 1, 2, 3, 4}
INIT LInit
NEXT ENext
INVARIANTS LEmit
CHECK_DEADLOCK FALSE
