CONSTANTS
  Scenarios <- ScnEnum
  FixF10 = FALSE
  GenHist = TRUE
INIT Init
NEXT Next
INVARIANTS Emit
CHECK_DEADLOCK FALSE
