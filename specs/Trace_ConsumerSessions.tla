----------------------- MODULE Trace_ConsumerSessions -----------------------
(* Obs-mode validation of traces recorded from the real ConsumerSessionManager (harness/t/conssess).
   This module DECIDES property C28: the variables below are an observer's ledger built only from the logged
   events; the C28 predicates of ConsumerSessionsProps are evaluated on the values the real code showed.

   Soundness of the observation (see docs/notes/C28.md):
     * "got" is logged after GetSessions returned, "end" before OnSession* is called, under one mutex that
       orders all events: logged hold intervals are subsets of the real ones, so two overlapping logged holds of
       one session object are a real double hand-out;
     * the fields of a session are read by the goroutine that holds it; the provider's used CU in a "got"
       event is read inside the logging mutex, hence every event logged before it happened before the read
       and every later event after it: used is bracketed by  lower = completed + logged holds  and
       upper = lower + relays inside GetSessions + failures whose OnSessionFailure has not returned;
     * "barrier" events are written while every relay goroutine is parked (idle or holding its session) and
       contain the complete state read under the manager's own locks: accounting must be exact there;
     * the blocked-provider rule is evaluated on sequential ("solo") relays performed between two barrier
       snapshots while everybody else is parked, when the snapshots show that nothing else moved. *)
EXTENDS ConsumerSessionsProps, IOUtils, Json

CONSTANTS RelIds

VARIABLES l,      \* position in the trace
          rel,    \* [RelIds -> what the observer knows about relay slot r]
          ses,    \* session id -> [p, e, done (CU of completed relays), rn (last relay number), holders]
          objd,   \* <<p, e>> -> [done (CU of completed relays), vehi (largest virtual epoch of a hand-out)]
          pre,    \* last barrier snapshot
          cfg,    \* the behaviour's parameters (reset event)
          chk     \* facts established by the last step; the invariants look at them

tvars == <<l, rel, ses, objd, pre, cfg, chk>>

Trace == ndJsonDeserialize(IOEnv.VERIF_TRACE)
ToSet(s) == {s[i] : i \in 1..Len(s)}

IdleR == [st |-> "idle", cu |-> 0, ve |-> 0, p |-> "none", e |-> 0, sid |-> 0, kind |-> "", callseq |-> 0,
          unw |-> {}, addon |-> "", solo |-> FALSE]
Empty == [x \in {} |-> 0]
NoPre == [seq |-> 0]
NoChk == [kind |-> "none"]

SesOf(sid) == IF sid \in DOMAIN ses THEN ses[sid] ELSE [p |-> "none", e |-> 0, done |-> 0, rn |-> 0, holders |-> {}]
ObjOf(o)   == IF o \in DOMAIN objd THEN objd[o] ELSE [done |-> 0, vehi |-> 0]
Put(f, k, v) == (k :> v) @@ f

\* sum / max of a function F over a finite set S
SumF(S, F) == LET f[T \in SUBSET S] == IF T = {} THEN 0 ELSE LET x == CHOOSE x \in T : TRUE IN F[x] + f[T \ {x}]
              IN f[S]
MaxF(S, F, d) == IF S = {} THEN d ELSE LET m == CHOOSE x \in S : \A y \in S : F[y] <= F[x] IN Max(d, F[m])

HeldOn(o)    == {r \in RelIds : rel[r].st = "held" /\ <<rel[r].p, rel[r].e>> = o}
Calling      == {r \in RelIds : rel[r].st = "calling"}
FailingOn(o) == {r \in RelIds : rel[r].st = "ending" /\ rel[r].kind \notin {"done", "doneinc"} /\ <<rel[r].p, rel[r].e>> = o}
CuOf == [x \in RelIds |-> rel[x].cu]
VeOf == [x \in RelIds |-> rel[x].ve]

TInit ==
  /\ l = 1 /\ Trace[1].ev = "reset"
  /\ rel = [r \in RelIds |-> IdleR] /\ ses = Empty /\ objd = Empty /\ pre = NoPre
  /\ cfg = Trace[1] /\ chk = NoChk

Reset(r) ==
  /\ rel' = [x \in RelIds |-> IdleR] /\ ses' = Empty /\ objd' = Empty /\ pre' = NoPre /\ cfg' = r /\ chk' = NoChk

Call(r) ==
  /\ rel' = [rel EXCEPT ![r.r] = [IdleR EXCEPT !.st = "calling", !.cu = r.cu, !.ve = r.ve, !.callseq = r.seq,
                                               !.unw = ToSet(r.unw), !.addon = r.addon,
                                               !.solo = (pre.seq # 0 /\ r.seq = pre.seq + 1)]]
  /\ chk' = [kind |-> "call", idle |-> rel[r.r].st = "idle"]
  /\ UNCHANGED <<ses, objd, pre, cfg>>

\* tight-budget phase: one event announces the GetSessions calls of a whole group of relays (logged before any of them
\* is released), one event collects those that came back with an error
CallN(r) ==
  /\ rel' = [x \in RelIds |-> IF x \in ToSet(r.rs)
                               THEN [IdleR EXCEPT !.st = "calling", !.cu = r.cu, !.ve = r.ve, !.callseq = r.seq]
                               ELSE rel[x]]
  /\ chk' = [kind |-> "call", idle |-> \A x \in ToSet(r.rs) : rel[x].st = "idle"]
  /\ UNCHANGED <<ses, objd, pre, cfg>>

NoGotN(r) ==
  /\ rel' = [x \in RelIds |-> IF x \in ToSet(r.rs) THEN [IdleR EXCEPT !.kind = "nogot"] ELSE rel[x]]
  /\ chk' = [kind |-> "nogotN", calling |-> \A x \in ToSet(r.rs) : rel[x].st = "calling"]
  /\ UNCHANGED <<ses, objd, pre, cfg>>

NoGot(r) ==
  /\ rel' = [rel EXCEPT ![r.r] = [IdleR EXCEPT !.solo = rel[r.r].solo /\ r.seq = rel[r.r].callseq + 1,
                                               !.cu = rel[r.r].cu, !.ve = rel[r.r].ve, !.unw = rel[r.r].unw,
                                               !.addon = rel[r.r].addon, !.kind = "nogot"]]
  /\ chk' = [kind |-> "nogot"]
  /\ UNCHANGED <<ses, objd, pre, cfg>>

Got(r) ==
  LET who == r.r
      o   == <<r.pp, r.pe>>
      S   == SesOf(r.sid)
      O   == ObjOf(o)
      R   == rel[who]
      rel1 == [rel EXCEPT ![who] = [R EXCEPT !.st = "held", !.p = r.pp, !.e = r.pe, !.sid = r.sid,
                                             !.solo = R.solo /\ r.seq = R.callseq + 1]]
      lower == O.done + SumF({x \in RelIds : rel1[x].st = "held" /\ <<rel1[x].p, rel1[x].e>> = o}, CuOf)
      upper == lower + SumF(Calling \ {who}, CuOf) + SumF(FailingOn(o), CuOf)
      vehi  == MaxF(Calling \cup {who}, VeOf, O.vehi)
  IN
  /\ rel' = rel1
  /\ ses' = Put(ses, r.sid, [p |-> r.pp, e |-> r.pe, done |-> S.done, rn |-> r.rn, holders |-> S.holders \cup {who}])
  /\ objd' = Put(objd, o, [done |-> O.done, vehi |-> Max(O.vehi, R.ve)])
  /\ chk' = [kind |-> "got",
             excl   |-> S.holders = {},                                   \* nobody else holds this session object
             sameObj |-> (S.rn = 0 \/ (S.p = r.pp /\ S.e = r.pe)),
             rnInc  |-> r.rn > S.rn /\ r.srn = r.rn,                      \* relay numbers strictly increase
             signed |-> /\ SignedOKP(r.scu, S.done, R.cu)                 \* signed CU = completed + own
                        /\ r.cusum = S.done /\ r.lcu = R.cu /\ ~r.bl
                        /\ r.sprov = r.pp /\ r.p = r.pp /\ r.sepoch = r.pe /\ r.e = r.pe,
             calling |-> R.st = "calling",
             lowerOK |-> lower <= r.used,
             upperOK |-> r.used <= upper,
             bound  |-> BoundOKP(r.used, vehi, r.max),
             lower |-> lower, upper |-> upper, used |-> r.used]
  /\ UNCHANGED <<pre, cfg>>

End(r) ==
  LET who == r.r
      R   == rel[who]
      o   == <<R.p, R.e>>
      S   == SesOf(R.sid)
      ok  == r.kind \in {"done", "doneinc"}
  IN
  /\ rel' = [rel EXCEPT ![who].st = "ending", ![who].kind = r.kind]
  /\ ses' = Put(ses, R.sid, [S EXCEPT !.done = IF ok THEN @ + R.cu ELSE @, !.holders = @ \ {who}])
  /\ objd' = IF ok THEN Put(objd, o, [ObjOf(o) EXCEPT !.done = @ + R.cu]) ELSE objd
  /\ chk' = [kind |-> "end", held |-> R.st = "held"]
  /\ UNCHANGED <<pre, cfg>>

Ret(r) ==
  /\ rel' = [rel EXCEPT ![r.r] = [IdleR EXCEPT !.kind = rel[r.r].kind]]
  /\ chk' = [kind |-> "ret", ending |-> rel[r.r].st = "ending", err |-> r.err]
  /\ UNCHANGED <<ses, objd, pre, cfg>>

\* ------------------------------------------------------------------ barrier: complete state, everybody parked
HolderCu(sid) == LET H == {r \in RelIds : rel[r].st = "held" /\ rel[r].sid = sid} IN SumF(H, CuOf)

ObjAcct(o) ==      \* used = sum over the sessions of CuSum + LatestRelayCu
  AccountOKP(o.used, o.sess, 0)
ObjLedger(o) ==    \* used = CU of the relays the driver completed + CU of the relays it has in flight
  o.used = ObjOf(<<o.p, o.e>>).done + SumF(HeldOn(<<o.p, o.e>>), CuOf)
ObjSess(o) ==      \* every session: CuSum = completed CU, LatestRelayCu = CU of the holder, RelayNum = last handed out
  \A i \in 1..Len(o.sess) :
    LET s == o.sess[i]
        S == SesOf(s.sid) IN
    /\ s.cu = S.done
    /\ s.lcu = HolderCu(s.sid)
    /\ s.rn = S.rn
    /\ (S.rn # 0 => (S.p = o.p /\ S.e = o.e))
ObjBound(o) == BoundOKP(o.used, ObjOf(<<o.p, o.e>>).vehi, o.max)

\* --- blocked-provider rule on a solo relay.  pre = snapshot before the call, r = snapshot after the hand-out.
Supp(addon) == IF addon = "" THEN ToSet(cfg.provs) ELSE ToSet(cfg.supp)
SoloRelay == LET X == {x \in RelIds : rel[x].solo} IN IF X = {} THEN 0 ELSE CHOOSE x \in X : TRUE
PreObj(q) == LET I == {i \in 1..Len(pre.objs) : pre.objs[i].p = q /\ pre.objs[i].e = pre.epoch} IN
             pre.objs[CHOOSE i \in I : TRUE]
EpHealthy(o) == IF "epok" \in DOMAIN o THEN o.epok ELSE TRUE
SoloFacts(r) ==
  LET x      == SoloRelay
      R      == rel[x]
      sup    == Supp(R.addon)
      pv     == ToSet(pre.valid)
      didReset == (pv \cap sup) = {}
      valid1 == IF didReset THEN (IF R.addon = "" THEN ToSet(pre.pairing) ELSE pv \cup (ToSet(pre.pairing) \cap sup)) ELSE pv
      blocked1 == IF didReset THEN <<>> ELSE pre.blocked
      nres1  == IF didReset THEN pre.resets + 1 ELSE pre.resets
      stable == /\ ToSet(r.valid) = valid1 /\ r.blocked = blocked1 /\ r.epoch = pre.epoch
                /\ r.seq = pre.seq + 3
      fromBlocked == R.st = "held" /\ R.p \notin valid1
      servers == {q \in (valid1 \cap sup) \ R.unw :
                    /\ EpHealthy(PreObj(q))        \* usable established connection: no dial (and no dial timeout) needed
                    /\ CuFitsP(PreObj(q).used, R.cu, R.ve, PreObj(q).max)
                    /\ SessAvailP(PreObj(q).sess, nres1, cfg.maxsess)}
  IN [solo |-> TRUE, stable |-> stable, fromBlocked |-> fromBlocked, servers |-> servers,
      rule |-> ~(stable /\ fromBlocked /\ servers # {})]

Barrier(r) ==
  /\ chk' = [kind |-> "barrier", tag |-> r.tag,
             acct   |-> \A i \in 1..Len(r.objs) : ObjAcct(r.objs[i]),
             ledger |-> \A i \in 1..Len(r.objs) : ObjLedger(r.objs[i]),
             sess   |-> \A i \in 1..Len(r.objs) : ObjSess(r.objs[i]),
             bound  |-> \A i \in 1..Len(r.objs) : ObjBound(r.objs[i]),
             parked |-> \A x \in RelIds : rel[x].st \in {"idle", "held"},
             solo   |-> IF SoloRelay # 0 /\ pre.seq # 0 /\ rel[SoloRelay].st = "held" /\ r.tag = "solo"
                        THEN SoloFacts(r) ELSE [solo |-> FALSE, rule |-> TRUE]]
  /\ pre' = r
  /\ rel' = [x \in RelIds |-> [rel[x] EXCEPT !.solo = FALSE]]
  /\ UNCHANGED <<ses, objd, cfg>>

Other(r) == chk' = [kind |-> r.ev] /\ UNCHANGED <<rel, ses, objd, pre, cfg>>

TNext ==
  /\ l < Len(Trace) /\ l' = l + 1
  /\ LET r == Trace[l + 1] IN
       CASE r.ev = "reset"   -> Reset(r)
         [] r.ev = "call"    -> Call(r)
         [] r.ev = "got"     -> Got(r)
         [] r.ev = "nogot"   -> NoGot(r)
         [] r.ev = "callN"   -> CallN(r)
         [] r.ev = "nogotN"  -> NoGotN(r)
         [] r.ev = "end"     -> End(r)
         [] r.ev = "ret"     -> Ret(r)
         [] r.ev = "barrier" -> Barrier(r)
         [] OTHER            -> Other(r)

\* ------------------------------------------------------------------ C28, on what the real code showed
ObsExclusive   == chk.kind = "got" => (chk.excl /\ chk.sameObj)
ObsRelayNum    == chk.kind = "got" => chk.rnInc
ObsSigned      == chk.kind = "got" => chk.signed
ObsUsedBracket == chk.kind = "got" => (chk.lowerOK /\ chk.upperOK)
ObsBound       == (chk.kind = "got" => chk.bound) /\ (chk.kind = "barrier" => chk.bound)
ObsAccounting  == chk.kind = "barrier" => (chk.acct /\ chk.ledger /\ chk.sess)
ObsBlockedRule == chk.kind = "barrier" => chk.solo.rule
\* driver sanity (not about lava): the protocol of the log itself
ObsProtocol    == /\ (chk.kind = "call" => chk.idle) /\ (chk.kind = "got" => chk.calling)
                  /\ (chk.kind = "end" => chk.held) /\ (chk.kind = "ret" => chk.ending)
                  /\ (chk.kind = "nogotN" => chk.calling)
                  /\ (chk.kind = "barrier" => chk.parked)

Post == LET d == TLCGet("stats").diameter IN PrintT(<<"HWM", d>>) /\ d = Len(Trace)
=============================================================================
