----------------------------- MODULE Dualstaking -----------------------------
(* Provider stake entries, provider metadata and provider delegations, as maintained by
     x/pairing/keeper/staking.go (StakeNewEntry: new entry / modify), unstaking.go (UnstakeEntry by
     vault or by provider), msg_server_move_provider_stake.go (MoveProviderStake),
     x/dualstaking/keeper/delegate.go (increaseDelegation, decreaseDelegation, AfterDelegationModified,
     Redelegate, UnbondUniformProviders), msg_server_{delegate,unbond,redelegate}.go (DelegateFull,
     UnbondFull), hooks.go + balance.go (staking hook -> BalanceDelegator),
     x/epochstorage/keeper/stake_entries.go (RemoveStakeEntryCurrent keeps metadata.Chains in step).
                                                                                   (C07, C06)
   The operators thread a "world" W = [e, m, dg, vd] through the code paths and return
   [ok, w]; ok = FALSE is "the transaction returned an error (or panicked)" = state unchanged.

     e[p][c]   stake entry  [on, stake, dt (DelegateTotal), frozen]
     m[p]      metadata     [on, chains (sequence, insertion order), total (TotalDelegations), moved]
     dg[q][w]  provider delegation of w to q, q a provider or "empty" (the empty-provider placeholder)
     vd[w][v]  tokens w delegated to validator v (validators are never slashed in this model:
               shares = tokens; Slash is generated as an opaque event, see Trace_Dualstaking)

   Vault(p) is a different account than p (the provider address), so UnstakeEntry distinguishes
   the two creators. *)
EXTENDS Integers, Sequences, FiniteSets, TLC, Json

CONSTANTS Provs, Chains, Dels, Vals,
          StakeAmts,     \* amounts used by Stake / Modify / MoveStake
          DelAmts,       \* amounts used by delegate / unbond / redelegate and the validator-side ops
          MinSelf,       \* dualstaking param MinSelfDelegation (100 in the test keepers)
          MinSpec,       \* spec.MinStakeProvider of the ordinary chains (1000 in the mock spec)
          MinSpecHigh,   \* spec.MinStakeProvider of the chains in HighChains (the driver adds such specs)
          HighChains,    \* every entry is frozen against the minimum of its OWN chain
          Fixed,         \* FALSE: the code as it is (findings F6, stale entry on auto-unfreeze, move to the same chain);
                         \* TRUE: the code with fixes/F6_*, F6b_*, F6c_* applied
          MaxOps, GenHist

VARIABLES e, m, dg, vd, nops, hist, lastp
\* lastp: providers whose stakes or delegations were changed by the last operation
vars == <<e, m, dg, vd, nops, hist, lastp>>

EMPTY == "empty"
MinSpecOf(c) == IF c \in HighChains THEN MinSpecHigh ELSE MinSpec   \* specKeeper.GetMinStake(ctx, chain)
Vault(p) == IF p = "p1" THEN "v1" ELSE IF p = "p2" THEN "v2" ELSE "v3"
Vaults == {Vault(p) : p \in Provs}
Who == Dels \cup Vaults
PE == Provs \cup {EMPTY}
NoEntry == [on |-> FALSE, stake |-> 0, dt |-> 0, frozen |-> FALSE]
NoMeta == [on |-> FALSE, chains |-> <<>>, total |-> 0, moved |-> FALSE]
Fail(W) == [ok |-> FALSE, w |-> W]
Ok(W) == [ok |-> TRUE, w |-> W]

RECURSIVE SumSeq(_, _)
SumSeq(f, s) == IF s = <<>> THEN 0 ELSE f[Head(s)] + SumSeq(f, Tail(s))
SumStake(W, p) == SumSeq([c \in Chains |-> W.e[p][c].stake], W.m[p].chains)
\* lavaslices.Remove: the last element takes the place of the removed one
RemoveFromSeq(s, x) == LET n == Len(s) IN
  IF \A i \in 1..n : s[i] # x THEN s
  ELSE LET i == CHOOSE j \in 1..n : s[j] = x /\ \A k \in 1..(j - 1) : s[k] # x IN
       [k \in 1..(n - 1) |-> IF k = i THEN s[n] ELSE s[k]]
RECURSIVE SumSet(_, _)
SumSet(f, S) == IF S = {} THEN 0 ELSE LET x == CHOOSE y \in S : TRUE IN f[x] + SumSet(f, S \ {x})

-----------------------------------------------------------------------------
(* AfterDelegationModified *)
\* the final loop: DelegateTotal := TotalDelegations * stake / sum of stakes; freeze below min spec stake
Recompute(W, p) ==
  LET tot == SumStake(W, p) IN
  IF tot = 0 THEN Fail(W)          \* Int.Quo by zero panics
  ELSE Ok([W EXCEPT !.e[p] = [c \in Chains |->
         IF ~W.e[p][c].on THEN W.e[p][c]
         ELSE LET dt == (W.m[p].total * W.e[p][c].stake) \div tot IN
              [W.e[p][c] EXCEPT !.dt = dt, !.frozen = @ \/ (W.e[p][c].stake + dt < MinSpecOf(c))]]])

\* the vault delegates / unbonds through the dualstaking tx: spread uniformly over the entries
RECURSIVE Dist(_, _, _, _, _)
Dist(E, chains, i, total, inc) ==
  IF i > Len(chains) THEN [ok |-> TRUE, E |-> E]
  ELSE LET c == chains[i]
           part == total \div (Len(chains) - i + 1)
       IN IF inc THEN Dist([E EXCEPT ![c].stake = @ + part], chains, i + 1, total - part, inc)
          ELSE IF E[c].stake < part \/ E[c].stake - part < MinSelf THEN [ok |-> FALSE, E |-> E]
          ELSE Dist([E EXCEPT ![c].stake = @ - part], chains, i + 1, total - part, inc)

ADM(W, who, p, amt, inc, stake) ==
  IF ~W.m[p].on THEN (IF inc THEN Fail(W) ELSE Ok(W))
  ELSE LET s1 == IF amt = 0 THEN Ok(W)
                 ELSE IF who # Vault(p)
                      THEN (IF inc THEN Ok([W EXCEPT !.m[p].total = @ + amt])
                            ELSE IF W.m[p].total < amt THEN Fail(W)
                            ELSE Ok([W EXCEPT !.m[p].total = @ - amt]))
                 ELSE IF ~stake
                      THEN LET r == Dist(W.e[p], W.m[p].chains, 1, amt, inc) IN
                           IF r.ok THEN Ok([W EXCEPT !.e[p] = r.E]) ELSE Fail(W)
                 ELSE Ok(W)
       IN IF s1.ok THEN Recompute(s1.w, p) ELSE Fail(W)

Increase(W, who, q, amt, stake) ==
  LET W1 == [W EXCEPT !.dg[q][who] = @ + amt] IN
  IF q = EMPTY THEN Ok(W1) ELSE ADM(W1, who, q, amt, TRUE, stake)
Decrease(W, who, q, amt, stake) ==
  IF W.dg[q][who] = 0 \/ W.dg[q][who] < amt THEN Fail(W)
  ELSE LET W1 == [W EXCEPT !.dg[q][who] = @ - amt] IN
       IF q = EMPTY THEN Ok(W1) ELSE ADM(W1, who, q, amt, FALSE, stake)
Redelegate(W, who, from, to, amt, stake) ==
  IF amt = 0 THEN Fail(W)
  ELSE LET a == Increase(W, who, to, amt, stake) IN
       IF ~a.ok THEN Fail(W) ELSE LET b == Decrease(a.w, who, from, amt, stake) IN
                                  IF b.ok THEN b ELSE Fail(W)

(* UnbondUniformProviders: empty provider first, then the providers in ascending amount order *)
UnbondUniform(W, who, amt) ==
  LET e0 == W.dg[EMPTY][who] IN
  IF e0 >= amt THEN Decrease(W, who, EMPTY, amt, FALSE)
  ELSE LET W0 == [W EXCEPT !.dg[EMPTY][who] = 0]
           rem0 == amt - e0
           ps == {p \in Provs : W.dg[p][who] > 0}
           n == Cardinality(ps)
       IN IF n = 0 THEN Fail(W)
          ELSE IF n = 1 THEN LET p == CHOOSE x \in ps : TRUE IN
                             IF W.dg[p][who] < rem0 THEN Fail(W) ELSE
                             LET r == Decrease(W0, who, p, rem0, FALSE) IN IF r.ok THEN r ELSE Fail(W)
          ELSE \* two providers (the model has at most two)
               LET lo == CHOOSE x \in ps : \A y \in ps : W.dg[x][who] < W.dg[y][who]
                                                         \/ (W.dg[x][who] = W.dg[y][who] /\ (x = "p1" \/ x = y))
                   hi == CHOOSE y \in ps : y # lo
                   d1 == rem0 \div 2
                   t1 == IF W.dg[lo][who] < d1 THEN W.dg[lo][who] ELSE d1
                   rem1 == rem0 - t1
                   t2 == IF W.dg[hi][who] < rem1 THEN W.dg[hi][who] ELSE rem1
               IN IF rem1 - t2 > 0 \/ t1 = 0 \/ t2 = 0 THEN Fail(W)  \* leftovers are dropped (the Add result is
                                                                  \* discarded) / zero-amount unbond is refused
                  ELSE LET r1 == Decrease(W0, who, lo, t1, FALSE) IN
                       IF ~r1.ok THEN Fail(W) ELSE
                       LET r2 == Decrease(r1.w, who, hi, t2, FALSE) IN IF r2.ok THEN r2 ELSE Fail(W)

DelegateFull(W, who, v, p, amt, stake) ==
  IF amt = 0 THEN Fail(W) ELSE
  \* stakingKeeper.Delegate -> hook -> BalanceDelegator: the difference goes to the empty provider
  LET W1 == [W EXCEPT !.vd[who][v] = @ + amt, !.dg[EMPTY][who] = @ + amt]
      r == Redelegate(W1, who, EMPTY, p, amt, stake)
  IN IF r.ok THEN r ELSE Fail(W)
UnbondFull(W, who, v, p, amt, stake) ==
  IF amt = 0 \/ W.vd[who][v] < amt THEN Fail(W) ELSE
  LET r == Redelegate(W, who, p, EMPTY, amt, stake) IN
  IF ~r.ok THEN Fail(W) ELSE
  LET W2 == [r.w EXCEPT !.vd[who][v] = @ - amt]
      u == UnbondUniform(W2, who, amt)
  IN IF u.ok THEN u ELSE Fail(W)

-----------------------------------------------------------------------------
(* pairing: stake / modify / move / unstake.  All stake txs name validator v. *)
StakeW(W, p, c, amt, v) ==
  IF W.e[p][c].on
  THEN \* modify by the vault
       LET old == W.e[p][c]
           W1 == [W EXCEPT !.e[p][c].stake = amt]
       IN IF amt > old.stake
          THEN LET r == DelegateFull(W1, Vault(p), v, p, amt - old.stake, TRUE) IN
               IF ~r.ok THEN Fail(W)
               ELSE IF old.stake < MinSpecOf(c) /\ old.frozen /\ amt >= MinSpecOf(c)
                    \* automatic unfreeze: the *local copy* of the entry (taken before the delegation,
                    \* old DelegateTotal) is written back
                    THEN (IF Fixed THEN Ok([r.w EXCEPT !.e[p][c].frozen = FALSE])
                          ELSE Ok([r.w EXCEPT !.e[p][c] = [old EXCEPT !.stake = amt, !.frozen = FALSE]]))
                    ELSE r
          ELSE IF amt < old.stake
          THEN LET r == UnbondFull(W1, Vault(p), v, p, old.stake - amt, TRUE) IN IF r.ok THEN r ELSE Fail(W)
          ELSE Ok(W1)
  ELSE \* new entry
       LET fresh == ~W.m[p].on
           m1 == IF fresh THEN [on |-> TRUE, chains |-> <<c>>, total |-> 0, moved |-> FALSE]
                 ELSE [W.m[p] EXCEPT !.chains = Append(@, c)]
           \* first chain of a provider: delegations that survived an earlier unstake are counted again
           extraSelf == IF fresh THEN W.dg[p][Vault(p)] ELSE 0
           others == IF fresh THEN SumSet([w \in Who |-> W.dg[p][w]], Who \ {Vault(p)}) ELSE 0
           m2 == [m1 EXCEPT !.total = @ + others]
           st == amt + extraSelf
       IN IF st < MinSelf THEN Fail(W) ELSE
          LET W1 == [W EXCEPT !.m[p] = m2,
                              !.e[p][c] = [on |-> TRUE, stake |-> st, dt |-> 0, frozen |-> FALSE]]
              r == DelegateFull(W1, Vault(p), v, p, amt, TRUE)
          IN IF r.ok THEN r ELSE Fail(W)

MoveW(W, p, src, dst, amt) ==
  IF ~W.e[p][src].on \/ ~W.e[p][dst].on \/ W.m[p].moved \/ (Fixed /\ src = dst) THEN Fail(W)
  ELSE IF W.e[p][src].stake < amt \/ W.e[p][src].stake - amt < MinSelf THEN Fail(W)
  ELSE LET W1 == IF src = dst
                 \* no check that the chains differ: srcEntry and dstEntry are two copies of one entry,
                 \* both are written, the second write (stake + amount) wins
                 THEN [W EXCEPT !.e[p][dst].stake = @ + amt, !.m[p].moved = TRUE]
                 ELSE [W EXCEPT !.e[p][src].stake = @ - amt, !.e[p][dst].stake = @ + amt, !.m[p].moved = TRUE]
           r == ADM(W1, Vault(p), p, 0, FALSE, TRUE)
       IN IF r.ok THEN r ELSE Fail(W)

\* RemoveStakeEntryCurrent
RemoveEntry(W, p, c) ==
  LET ch == RemoveFromSeq(W.m[p].chains, c) IN
  [W EXCEPT !.e[p][c] = NoEntry, !.m[p] = IF ch = <<>> THEN NoMeta ELSE [@ EXCEPT !.chains = ch]]

RECURSIVE Spread(_, _, _, _)
Spread(E, chains, i, total) ==
  IF i > Len(chains) THEN E
  ELSE LET part == total \div (Len(chains) - i + 1) IN
       Spread([E EXCEPT ![chains[i]].stake = @ + part], chains, i + 1, total - part)

UnstakeW(W, p, c, byVault, v) ==
  IF ~W.e[p][c].on THEN Fail(W) ELSE
  LET amt == W.e[p][c].stake
      W1 == RemoveEntry(W, p, c)
  IN IF byVault
     THEN LET r == UnbondFull(W1, Vault(p), v, p, amt, TRUE) IN IF r.ok THEN r ELSE Fail(W)
     ELSE \* by the provider address: the self delegation stays, the stake is spread over the other
          \* chains - and AfterDelegationModified is NOT called (DelegateTotal stays as it was)
          IF W1.m[p].on
          THEN LET W2 == [W1 EXCEPT !.e[p] = Spread(@, W1.m[p].chains, 1, amt)] IN
               IF Fixed THEN (LET r == ADM(W2, Vault(p), p, 0, FALSE, TRUE) IN IF r.ok THEN r ELSE Fail(W))
               ELSE Ok(W2)
          ELSE Ok(W1)

-----------------------------------------------------------------------------
World == [e |-> e, m |-> m, dg |-> dg, vd |-> vd]
\* providers whose stakes or delegations differ between two worlds
Stakes(E, p) == [c \in Chains |-> IF E[p][c].on THEN E[p][c].stake ELSE -1]
Changed(E1, D1, E2, D2) == {p \in Provs : Stakes(E1, p) # Stakes(E2, p) \/ D1[p] # D2[p]}
Apply(r, touched) == /\ e' = r.w.e /\ m' = r.w.m /\ dg' = r.w.dg /\ vd' = r.w.vd
                     /\ lastp' = Changed(e, dg, r.w.e, r.w.dg)
Rec(x) == IF GenHist THEN Append(hist, x) ELSE hist
Budget == nops < MaxOps /\ nops' = nops + 1
Res(r) == IF r.ok THEN r ELSE Fail(World)

Stake(p, c, amt, v) == /\ Budget /\ LET r == Res(StakeW(World, p, c, amt, v)) IN Apply(r, {p})
                       /\ hist' = Rec([op |-> "stake", p |-> p, c |-> c, amt |-> amt, v |-> v])
MoveStake(p, src, dst, amt) == /\ Budget /\ LET r == Res(MoveW(World, p, src, dst, amt)) IN Apply(r, {p})
                               /\ hist' = Rec([op |-> "move", p |-> p, c |-> src, c2 |-> dst, amt |-> amt])
Unstake(p, c, byVault, v) == /\ Budget /\ LET r == Res(UnstakeW(World, p, c, byVault, v)) IN Apply(r, {p})
                             /\ hist' = Rec([op |-> IF byVault THEN "unstakeV" ELSE "unstakeP", p |-> p, c |-> c, v |-> v])
DsDelegate(w, v, p, amt) == /\ Budget /\ LET r == Res(DelegateFull(World, w, v, p, amt, FALSE)) IN Apply(r, {p})
                            /\ hist' = Rec([op |-> "dsdelegate", w |-> w, v |-> v, p |-> p, amt |-> amt])
DsUnbond(w, v, p, amt) == /\ Budget /\ LET r == Res(UnbondFull(World, w, v, p, amt, FALSE)) IN Apply(r, {p})
                          /\ hist' = Rec([op |-> "dsunbond", w |-> w, v |-> v, p |-> p, amt |-> amt])
DsRedelegate(w, from, to, amt) == /\ Budget /\ LET r == Res(Redelegate(World, w, from, to, amt, FALSE)) IN
                                               Apply(r, {from, to} \ {EMPTY})
                                  /\ hist' = Rec([op |-> "dsredelegate", w |-> w, p |-> from, p2 |-> to, amt |-> amt])
\* validator side (cosmos x/staking through the dualstaking hooks)
ValDelegate(w, v, amt) ==
  /\ Budget /\ Apply(Ok([World EXCEPT !.vd[w][v] = @ + amt, !.dg[EMPTY][w] = @ + amt]), {})
  /\ hist' = Rec([op |-> "valdelegate", w |-> w, v |-> v, amt |-> amt])
ValUndelegate(w, v, amt) ==
  /\ Budget
  /\ LET r == IF vd[w][v] < amt THEN Fail(World)
              ELSE Res(UnbondUniform([World EXCEPT !.vd[w][v] = @ - amt], w, amt)) IN Apply(r, Provs)
  /\ hist' = Rec([op |-> "valundelegate", w |-> w, v |-> v, amt |-> amt])
ValRedelegate(w, v, v2, amt) ==
  /\ Budget
  /\ LET r == IF vd[w][v] < amt \/ v = v2 THEN Fail(World)
              ELSE Ok([World EXCEPT !.vd[w][v] = @ - amt, !.vd[w][v2] = @ + amt]) IN Apply(r, {})
  /\ hist' = Rec([op |-> "valredelegate", w |-> w, v |-> v, v2 |-> v2, amt |-> amt])
\* a day passes (rate limit of MoveProviderStake)
NextDay == /\ Budget /\ m' = [p \in Provs |-> [m[p] EXCEPT !.moved = FALSE]] /\ lastp' = {}
           /\ UNCHANGED <<e, dg, vd>> /\ hist' = Rec([op |-> "nextday"])
\* generated only (opaque for the model): slash a validator, cancel an unbonding
Opaque(x) == /\ Budget /\ UNCHANGED <<e, m, dg, vd>> /\ lastp' = {} /\ hist' = Rec(x)

Init == /\ e = [p \in Provs |-> [c \in Chains |-> NoEntry]]
        /\ m = [p \in Provs |-> NoMeta]
        /\ dg = [q \in PE |-> [w \in Who |-> 0]]
        /\ vd = [w \in Who |-> [v \in Vals |-> 0]]
        /\ nops = 0 /\ hist = <<>> /\ lastp = {}

Next == \/ \E p \in Provs, c \in Chains, a \in StakeAmts, v \in Vals : Stake(p, c, a, v)
        \/ \E p \in Provs, c \in Chains, c2 \in Chains, a \in StakeAmts : MoveStake(p, c, c2, a)
        \/ \E p \in Provs, c \in Chains, b \in BOOLEAN, v \in Vals : Unstake(p, c, b, v)
        \/ \E w \in Who, v \in Vals, p \in Provs, a \in DelAmts : DsDelegate(w, v, p, a) \/ DsUnbond(w, v, p, a)
        \/ \E w \in Who, p \in PE, p2 \in PE, a \in DelAmts : DsRedelegate(w, p, p2, a)
        \/ \E w \in Who, v \in Vals, a \in DelAmts : ValDelegate(w, v, a) \/ ValUndelegate(w, v, a)
        \/ \E w \in Who, v \in Vals, v2 \in Vals, a \in DelAmts : ValRedelegate(w, v, v2, a)
        \/ NextDay
Spec == Init /\ [][Next]_vars

\* generator: one draw per action kind
St(S) == IF nops >= 0 THEN S ELSE {}
R(S) == RandomElement(St(S))
\* three draws out of four are taken among the parameter tuples for which the model predicts success
PickOk(S, P(_)) == LET okS == {x \in S : P(x)} IN
                   IF okS # {} /\ R({1, 2, 3, 4}) # 1 THEN RandomElement(okS) ELSE R(S)
GenNext ==
  \/ LET t == PickOk(Provs \X Chains \X StakeAmts \X Vals, LAMBDA x : StakeW(World, x[1], x[2], x[3], x[4]).ok)
     IN Stake(t[1], t[2], t[3], t[4])
  \/ LET t == PickOk(Provs \X Chains \X StakeAmts \X Vals,
                     LAMBDA x : ~e[x[1]][x[2]].on /\ StakeW(World, x[1], x[2], x[3], x[4]).ok)
     IN Stake(t[1], t[2], t[3], t[4])
  \/ LET t == PickOk(Provs \X Chains \X StakeAmts \X Vals,
                     LAMBDA x : ~e[x[1]][x[2]].on /\ m[x[1]].on /\ StakeW(World, x[1], x[2], x[3], x[4]).ok)
     IN Stake(t[1], t[2], t[3], t[4])                \* another chain for an already staked provider
  \/ LET t == PickOk(Provs \X Chains \X Chains \X StakeAmts, LAMBDA x : MoveW(World, x[1], x[2], x[3], x[4]).ok)
     IN MoveStake(t[1], t[2], t[3], t[4])
  \/ LET t == PickOk(Provs \X Chains \X Chains \X StakeAmts, LAMBDA x : MoveW(World, x[1], x[2], x[3], x[4]).ok)
     IN MoveStake(t[1], t[2], t[3], t[4])
  \/ LET t == PickOk(Provs \X Chains \X Vals, LAMBDA x : UnstakeW(World, x[1], x[2], TRUE, x[3]).ok)
     IN Unstake(t[1], t[2], TRUE, t[3])
  \/ LET t == PickOk(Provs \X Chains \X Vals, LAMBDA x : UnstakeW(World, x[1], x[2], FALSE, x[3]).ok)
     IN Unstake(t[1], t[2], FALSE, t[3])
  \/ LET t == PickOk(Who \X Vals \X Provs \X DelAmts, LAMBDA x : DelegateFull(World, x[1], x[2], x[3], x[4], FALSE).ok)
     IN DsDelegate(t[1], t[2], t[3], t[4])
  \/ LET t == PickOk(Dels \X Vals \X Provs \X DelAmts, LAMBDA x : DelegateFull(World, x[1], x[2], x[3], x[4], FALSE).ok)
     IN DsDelegate(t[1], t[2], t[3], t[4])
  \/ LET t == PickOk(Who \X Vals \X Provs \X DelAmts, LAMBDA x : UnbondFull(World, x[1], x[2], x[3], x[4], FALSE).ok)
     IN DsUnbond(t[1], t[2], t[3], t[4])
  \/ LET t == PickOk(Who \X PE \X PE \X DelAmts, LAMBDA x : Redelegate(World, x[1], x[2], x[3], x[4], FALSE).ok)
     IN DsRedelegate(t[1], t[2], t[3], t[4])
  \/ ValDelegate(R(Who), R(Vals), R(DelAmts))
  \/ LET t == PickOk(Who \X Vals \X DelAmts, LAMBDA x : vd[x[1]][x[2]] >= x[3]) IN ValUndelegate(t[1], t[2], t[3])
  \/ LET t == PickOk(Who \X Vals \X Vals \X DelAmts, LAMBDA x : x[2] # x[3] /\ vd[x[1]][x[2]] >= x[4])
     IN ValRedelegate(t[1], t[2], t[3], t[4])
  \/ NextDay
  \/ Opaque([op |-> "slash", v |-> R(Vals), frac |-> R({2, 3, 10})])
  \/ Opaque([op |-> "cancelunbond", w |-> R(Who), v |-> R(Vals), amt |-> R(DelAmts)])

-----------------------------------------------------------------------------
(* C07 *)
ChainSet(p) == {m[p].chains[i] : i \in 1..Len(m[p].chains)}
MetaChains == \A p \in Provs : /\ m[p].on <=> (\E c \in Chains : e[p][c].on)
                               /\ m[p].on => (ChainSet(p) = {c \in Chains : e[p][c].on} /\ Len(m[p].chains) = Cardinality(ChainSet(p)))
SelfStake == \A p \in Provs : m[p].on => SumSet([c \in Chains |-> e[p][c].stake], {c \in Chains : e[p][c].on}) = dg[p][Vault(p)]
TotalDelegations == \A p \in Provs : m[p].on => m[p].total = SumSet([w \in Who |-> dg[p][w]], Who \ {Vault(p)})
EntryShare(p, c) == LET tot == SumSet([x \in Chains |-> e[p][x].stake], {x \in Chains : e[p][x].on}) IN
                    tot > 0 /\ e[p][c].dt = (m[p].total * e[p][c].stake) \div tot
\* after a transaction that changed p's stakes or delegations
DelegateTotals == \A p \in lastp : \A c \in Chains : (m[p].on /\ e[p][c].on) => EntryShare(p, c)
FrozenBelowMin == \A p \in lastp : \A c \in Chains :
                    (m[p].on /\ e[p][c].on /\ e[p][c].stake + e[p][c].dt < MinSpecOf(c)) => e[p][c].frozen
(* C06 (without slashing the two sides are equal) *)
Mirror == \A w \in Who : SumSet([q \in PE |-> dg[q][w]], PE) = SumSet([v \in Vals |-> vd[w][v]], Vals)

TypeOK == /\ \A p \in Provs, c \in Chains : e[p][c].stake \in Nat /\ e[p][c].dt \in Nat
          /\ \A q \in PE, w \in Who : dg[q][w] \in Nat
          /\ \A w \in Who, v \in Vals : vd[w][v] \in Nat

BadClass == IF ~DelegateTotals THEN "DelegateTotals" ELSE "FrozenBelowMin"
EmitBad == (DelegateTotals /\ FrozenBelowMin) \/ PrintT(<<"BAD", ToJson([cls |-> BadClass, beh |-> hist])>>)
Emit == nops < MaxOps \/ PrintT(<<"BEH", ToJson(hist)>>)
=============================================================================
