CONSTANTS
  Nums = {0, 1, 2, 99, 100, 126, 127, 128, 171, 172, 173, 174, 175, 199, 200, 201, 298, 299, 300, 301}
  Latests = {0, 1, 50, 125, 126, 127, 128, 300}
  Rules = {1, 100, 127, 128}
  Methods = {"eth_call", "eth_getBalance"}
  Guard = TRUE
INIT Init
NEXT Next
INVARIANTS Emit
CHECK_DEADLOCK FALSE
