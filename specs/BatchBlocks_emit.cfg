CONSTANTS
  NumBlocks = {0, 5, 50, 500}
  CallBlocks = {500}
  LogBlocks = {50}
  Extra = TRUE
  MaxLen = 4
  Latests = {0, 627}
  Rule = 127
  Seed = TRUE
  Guard = TRUE
  Tendermint = FALSE
  ZeroOk = TRUE
  EarliestLow = TRUE
INIT Init
NEXT Next
INVARIANTS Emit
CHECK_DEADLOCK FALSE
