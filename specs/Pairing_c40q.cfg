CONSTANTS
  NP = 3
  Stakes = {1, 2, 3}
  GeoSets = {{1}, {4}, {1, 4}}
  PolGeoSets = {{1, 4}}
  McMixed = {}
  McMoreSel = FALSE
  Kinds = {0}
  CostBase = 3
  Den = 1
  MaxSlots = 2
  GenN = 0
  SubOrder = "sorted"
  UnionMode = "any"
  Mode = "mc"
INIT C40Init
NEXT Next
INVARIANTS TypeOK IntervalRule Distinct
CHECK_DEADLOCK FALSE
