CONSTANTS
  ProvSeq <- PS3
  Scores = {0, 1, 3}
  Weights = {1, 4}
  Stakes <- SVt
  Decays <- Dq
  MaxRep = 3
  MaxEp = 2
  MaxOps = 0
  GenHist = FALSE
  GenQos = {"great"}
  GenGaps = {0}
INIT Init
NEXT Next
VIEW View
INVARIANTS Bounded
PROPERTIES C24Prop
CHECK_DEADLOCK FALSE
