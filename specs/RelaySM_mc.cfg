CONSTANTS
  Sel = "stateless"
  MaxRetries = 2
  SendAttempts = 1
  RetryLimit = 1
  TimeoutPriority = FALSE
  NumFirst = 1
  Need = 1
  MaxTicks = 1
  MaxSendErrs = 1
  MaxResults = 2
  KindSet = {"ok", "ne", "nr"}
  BuCap = 2
  FixF34 = TRUE
  GenHist = FALSE
INIT Init
NEXT Next
INVARIANTS TypeOK OneFinal AfterSuccess Justified ModeAttempts AttemptsBoundedPipe
PROPERTIES AfterFinalSilent NoAttemptAfterSuccess NoResendAfterSend NoRetryAfterNR SendRetriesBounded
CHECK_DEADLOCK FALSE
