CONSTANTS
  ProvSeq <- PS3
  EB = 2
  NC = 2
  NS = 3
  REC = 1
  MinProv = 2
  SOFT = 60
  HARD = 1440
  SOFTEP = 2
  MEM = 6
  DTs = {100, 1500}
  CUs = {1, 8, 10}
  Ep0 = 4
  T0 = 10000
  A0 = 0
  FixedServ = TRUE
  MaxEp = 7
  MaxPay = 2
  MaxOps = 0
  GenHist = FALSE
INIT Init
NEXT Next
VIEW View
INVARIANTS TypeOK
PROPERTIES P_Core P_JustifiedCode
CHECK_DEADLOCK FALSE
