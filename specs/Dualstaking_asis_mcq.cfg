\* documentation only: the code before fixes F6/F6b/F6c (Fixed = FALSE) violates these clauses at design level
\* exhaustive: one provider on two chains, one delegator, one validator, <= 5 operations
CONSTANTS
  Provs = {"p1"}
  Chains = {"c1", "c2"}
  Dels = {"d1"}
  Vals = {"va"}
  StakeAmts = {600, 1500}
  DelAmts = {1000}
  MinSelf = 100
  MinSpec = 1000
  MinSpecHigh = 2000
  HighChains = {"c2"}
  Fixed = FALSE
  MaxOps = 5
  GenHist = FALSE
INIT Init
NEXT Next
INVARIANTS SelfStake DelegateTotals FrozenBelowMin
CHECK_DEADLOCK FALSE
