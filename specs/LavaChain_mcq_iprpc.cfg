CONSTANTS
  Consumers = {"C1"}
  Providers = {"P1"}
  Validators = {"VA1"}
  Delegators = {"D1"}
  Specs = {"S1"}
  Plans = {"PL1"}
  MaxOps = 3
  GenHist = FALSE
  FixRenew = TRUE
  Bias = "all"
  T0 = 2264761
  H0 = 50
  McKinds = {"NextBlock", "NextEpoch", "SubBuy", "RelayPay", "IprpcSetData", "IprpcFund", "DsClaim", "Unstake"}
INIT Init
NEXT Next
INVARIANTS NoPanic BackedDs BackedIprpc BackedSub BankSound
PROPERTIES SupplyNeverIncreases
CHECK_DEADLOCK FALSE
