CONSTANTS
  Indices = {"a", "b"}
  MaxBlock = 16
  Stale = 2
  MaxRef = 2
  Data = {1, 2}
  MaxOps = 14
  GenHist = TRUE
  Fix16 = TRUE
  Fix17 = FALSE
  Fix17b = FALSE
  Fix18 = TRUE
INIT Init
NEXT GenNext
INVARIANTS Emit
CHECK_DEADLOCK FALSE
