-------------------------- MODULE ConsumerSessions --------------------------
(* protocol/lavasession : ConsumerSessionManager (consumer_session_manager.go), ConsumerSessionsWithProvider
   (consumer_types.go), SingleConsumerSession (single_consumer_session.go), UsedProviders (used_providers.go).

   Processes
     Relay r (one goroutine slot): GetSessions -> session in flight -> OnSessionDone | OnSessionDoneIncreaseCUOnly
                                   | OnSessionFailure(kind)
     PairingUpdate              : UpdateAllProviders(next epoch, new pairing list)
     async goroutines           : `go validateAndReturnBlockedProviderToValidAddressesList` started by OnSessionDone on a
                                  redemption session (Unblock), the probe goroutine started by UpdateAllProviders
                                  (CheckUnblock = checkAndUnblockHealthyReBlockedProviders; the fake providers are healthy).

   One action per critical section (= per lock acquisition) of the code:
     Start        GetSessions entry: TryLockSelection, GetUnwantedProvidersToSend
     Validate     validatePairingListNotEmpty (+ resetValidAddresses under csm.lock)
     ReadEpoch    tempIgnoredProviders.currentEpoch = atomicReadCurrentEpoch()
     Select       getValidConsumerSessionsWithProvider (csm.lock.RLock): optimizer pick among valid \ ignored,
                  validateComputeUnits, ignore-and-pick-again loop
     SelectBlk    tryGetConsumerSessionWithProviderFromBlockedProviderList (second RLock section)
     Acquire      fetchEndpointConnection (healthy) + GetReportedProviders + GetConsumerSessionInstanceFromEndpoint
                  (cswp.Lock: TryLock an existing session in map order / create / MaximumNumberOfSessionsExceeded /
                  MaximumNumberOfBlockListedSessions)
     BlockA       blockProvider after MaximumNumberOfBlockListedSessions
     AddCU        addUsedComputeUnits (cswp.Lock) + SetUsageForSession (LatestRelayCu, RelayNum++) / Free on
                  MaxComputeUnitsExceeded.  With SplitReserve = TRUE (variant, not /repo) the limit check stays in
                  AddCU and the addition is the separate step AddApply (pc "addcu2")
     Done / DoneInc / Fail1   the part of OnSession* that runs while the session lock is held, up to Free()
     Fail2        decreaseUsedComputeUnits (after Free - the window in which used > sum of sessions)
     Fail3        blockProvider (csm.lock.Lock)
     Update, Unblock, CheckUnblock

   Provider objects are <<address, epoch>> : UpdateAllProviders receives fresh ConsumerSessionsWithProvider objects,
   the old ones move to pairingPurge and relays in flight finish on them.

   Ghost: gdone (CU of relays completed on a session, as an observer of the relays would add them up),
          veHi (largest virtual epoch of a successful reservation), rs[r].sawEmpty / fromBlk. *)
EXTENDS ConsumerSessionsProps

CONSTANTS Provs,        \* provider addresses (strings)
          Relays,       \* relay goroutine slots (positive integers)
          MaxCU,        \* MaxComputeUnits of every provider object
          CUs,          \* CU values a relay may ask for
          MaxVE,        \* virtual epochs 0..MaxVE
          MaxUpdates,   \* number of UpdateAllProviders calls after the initial one
          MaxOps,       \* budget of GetSessions calls
          MaxSess,      \* lavasession.MaxSessionsAllowedPerProvider
          ConsecLimit,  \* MaximumNumberOfFailuresAllowedPerConsumerSession
          FailKinds,    \* subset of {"plain","block","report","sync"}
          PairingSets,  \* pairing lists UpdateAllProviders may install
          Supp,         \* providers whose endpoint supports the addon "a1"
          Addons,       \* subset of BOOLEAN: FALSE = base request, TRUE = request for addon "a1"
          SplitReserve  \* FALSE = the code of /repo: addUsedComputeUnits checks the limit and adds in ONE critical section.
                        \* TRUE  = design-level variant only: check (own RLock) and add (Lock) are two steps - a
                        \*         check-then-act race that TLC shows to break Bound (ConsumerSessions_split.cfg)

VARIABLES epoch,        \* csm.currentEpoch
          pairing,      \* addresses of csm.pairing
          valid,        \* csm.validAddresses (as a set; the optimizer may pick any member)
          blockedL,     \* csm.currentlyBlockedProviderAddresses (sequence, sorted by used CU when inserted)
          prevBlocked,  \* csm.previousEpochBlockedProviders
          resets,       \* csm.numberOfResets
          reported,     \* csm.reportedProviders (addresses)
          second,       \* csm.secondChanceGivenToAddresses
          used,         \* [Objs -> Nat]   UsedComputeUnits
          bstat,        \* [Objs -> 0..1]  blockedAndUsedWithChanceForRecoveryStatus
          sess,         \* [Objs -> Seq(session record)]
          gdone,        \* [Objs -> Seq(Nat)] ghost
          veHi,         \* [Objs -> Nat] ghost
          rs,           \* [Relays -> relay record]
          pendUnb,      \* [Provs -> Nat] pending async validateAndReturnBlockedProviderToValidAddressesList goroutines
          pendChk,      \* epochs whose probe goroutine has not yet run checkAndUnblockHealthyReBlockedProviders
          nupd, nops,
          cache,        \* csm.addonAddresses: [BOOLEAN (addon?) -> [ok, v]] cached valid addresses per router key
          mcu           \* MaxComputeUnits of the provider objects (constant within a behaviour)

vars == <<epoch, pairing, valid, blockedL, prevBlocked, resets, reported, second, used, bstat, sess, gdone, veHi,
          rs, pendUnb, pendChk, nupd, nops, cache, mcu>>

NoProv == "none"
Epochs == 1..(MaxUpdates + 1)
Objs   == Provs \X Epochs
Range(s) == {s[i] : i \in 1..Len(s)}
MaxBlk(n) == MaxBlkP(n, MaxSess)

NewSession(r) == [cu |-> 0, rn |-> 0, lcu |-> 0, bl |-> FALSE, lk |-> r, ce |-> 0]

IdleRel(unw, syn, res) ==
  [pc |-> "idle", cu |-> 0, ve |-> 0, unw |-> unw, syn |-> syn, ign |-> {}, ige |-> 0, nres |-> 0, p |-> NoProv,
   e |-> 0, sid |-> 0, dec |-> 0, blk |-> FALSE, rep |-> FALSE, sc |-> FALSE, res |-> res,
   sawEmpty |-> FALSE, fromBlk |-> FALSE, ad |-> FALSE, repd |-> {}]

\* property predicates live in ConsumerSessionsProps (shared with Trace_ConsumerSessions)
AccountOK(u, S, pend) == AccountOKP(u, S, pend)
BoundOK(u, vh)        == BoundOKP(u, vh, mcu)
CuFits(u, cu, ve)     == CuFitsP(u, cu, ve, mcu)
SessAvail(S, nres)    == SessAvailP(S, nres, MaxSess)
CanServe(q, e, cu, ve, W, validSet, usedF, sessF, nres) ==
  /\ q \in validSet \ W
  /\ CuFits(usedF[<<q, e>>], cu, ve)
  /\ SessAvail(sessF[<<q, e>>], nres)

\* ---------------------------------------------------------------- helpers
Perms(S) == {s \in [1..Cardinality(S) -> S] : \A i, j \in 1..Cardinality(S) : i # j => s[i] # s[j]}
SortedDesc(s, U(_)) == \A i \in 1..(Len(s) - 1) : U(s[i]) >= U(s[i + 1])
\* removeAddressFromValidAddresses: append + sort.Slice by used CU of the current pairing object (ties arbitrary)
BlockedAfterInsert(L, p, e, usedF) ==
  {s \in Perms(Range(L) \cup {p}) : SortedDesc(s, LAMBDA q : usedF[<<q, e>>])}
RemoveFromSeq(L, p) == SelectSeq(L, LAMBDA q : q # p)

\* addon-specific valid addresses and their cache (csm.addonAddresses, key = router key of addon+extensions)
SuppOf(ad) == IF ad THEN Supp ELSE Provs
CalcValid(ad, V) == V \cap SuppOf(ad)                       \* CalculateAddonValidAddresses
MkCache(S) == [ok |-> S # {}, v |-> S]                      \* an empty list is stored as nil = cache miss
NoCache == [a \in BOOLEAN |-> [ok |-> FALSE, v |-> {}]]     \* RemoveAddonAddresses("", nil)
GetValid(ad) == IF cache[ad].ok THEN cache[ad].v ELSE CalcValid(ad, valid)   \* getValidAddresses

\* blockProvider(address, report, sessionEpoch, allowSecondChance) under csm.lock
BlockProviderEff(p, e, rep, sc) ==
  IF e # epoch
  THEN UNCHANGED <<valid, blockedL, reported, second, cache>>   \* EpochMismatchError
  ELSE /\ IF p \in valid
          THEN /\ valid' = valid \ {p}
               /\ blockedL' \in BlockedAfterInsert(blockedL, p, epoch, used)
               /\ cache' = NoCache
          ELSE UNCHANGED <<valid, blockedL, cache>>             \* AddressIndexWasNotFoundError: ignored
       /\ IF rep
          THEN IF sc
               THEN IF p \in second THEN reported' = reported \cup {p} /\ UNCHANGED second
                                    ELSE second' = second \cup {p} /\ UNCHANGED reported
               ELSE reported' = reported \cup {p} /\ UNCHANGED second
          ELSE UNCHANGED <<reported, second>>

\* validateAndReturnBlockedProviderToValidAddressesListLocked for a set of addresses
UnblockSet(B) ==
  LET hit == B \cap Range(blockedL) IN
  /\ blockedL' = SelectSeq(blockedL, LAMBDA q : q \notin hit)
  /\ valid' = valid \cup hit
  /\ cache' = IF hit = {} THEN cache ELSE NoCache
  /\ bstat' = [o \in Objs |-> IF o[1] \in hit /\ o[1] \in pairing /\ o[2] = epoch THEN 0 ELSE bstat[o]]

\* ---------------------------------------------------------------- initial state: first UpdateAllProviders done
Init ==
  /\ epoch = 1
  /\ pairing \in PairingSets
  /\ valid = pairing
  /\ blockedL = <<>>
  /\ prevBlocked = {}
  /\ resets = 0
  /\ reported = {}
  /\ second = {}
  /\ used = [o \in Objs |-> 0]
  /\ bstat = [o \in Objs |-> 0]
  /\ sess = [o \in Objs |-> <<>>]
  /\ gdone = [o \in Objs |-> <<>>]
  /\ veHi = [o \in Objs |-> 0]
  /\ rs = [r \in Relays |-> IdleRel({}, {}, "none")]
  /\ pendUnb = [p \in Provs |-> 0]
  /\ pendChk = {}
  /\ nupd = 0
  /\ nops = 0
  /\ cache = NoCache
  /\ mcu = MaxCU

csmVars  == <<epoch, pairing, valid, blockedL, prevBlocked, resets, reported, second, cache>>
objVars  == <<used, bstat, sess, gdone, veHi>>
bgVars   == <<pendUnb, pendChk, nupd, mcu>>

\* ---------------------------------------------------------------- GetSessions
\* fresh = a new relay task (NewUsedProviders); otherwise a retry of the same task with the same UsedProviders
Start(r, cu, ve, fresh, ad) ==
  /\ rs[r].pc = "idle"
  /\ nops < MaxOps
  /\ nops' = nops + 1
  /\ LET unw == IF fresh THEN {} ELSE rs[r].unw
         syn == IF fresh THEN {} ELSE rs[r].syn IN
     rs' = [rs EXCEPT ![r] = [IdleRel(unw, syn, "none") EXCEPT !.pc = "validate", !.cu = cu, !.ve = ve, !.ign = unw, !.ad = ad]]
  /\ UNCHANGED <<csmVars, objVars, bgVars>>

Validate(r) ==
  /\ rs[r].pc = "validate"
  /\ LET ad == rs[r].ad
         va == GetValid(ad) IN
     IF va = {}
     THEN LET v1 == IF ad THEN valid \cup (pairing \cap Supp) ELSE pairing IN   \* setValidAddressesToDefaultValue
          /\ valid' = v1
          /\ blockedL' = <<>>                     \* reset for every addon, although only supporting providers return
          /\ resets' = resets + 1
          /\ cache' = [cache EXCEPT ![ad] = MkCache(CalcValid(ad, v1))]
          /\ rs' = [rs EXCEPT ![r].pc = "readep", ![r].nres = resets + 1]
     ELSE /\ UNCHANGED <<valid, blockedL, resets>>
          /\ cache' = [cache EXCEPT ![ad] = MkCache(va)]                          \* cacheAddonAddresses
          /\ rs' = [rs EXCEPT ![r].pc = "readep", ![r].nres = resets]
  /\ UNCHANGED <<epoch, pairing, prevBlocked, reported, second, objVars, bgVars, nops>>

ReadEpoch(r) ==
  /\ rs[r].pc = "readep"
  /\ rs' = [rs EXCEPT ![r].pc = "select", ![r].ige = epoch]
  /\ UNCHANGED <<csmVars, objVars, bgVars, nops>>

\* getValidConsumerSessionsWithProvider under RLock.  ok: pc -> acquire ; PairingListEmptyError: pc -> onEmpty
SelectValid(r, onEmpty) ==
  LET R    == rs[r]
      ign1 == IF R.ige < epoch THEN {} ELSE R.ign
      C    == GetValid(R.ad) \ ign1
      realC == CalcValid(R.ad, valid) \ ign1       \* what the list would be without the cache
      Good == {p \in C : CuFits(used[<<p, epoch>>], R.cu, R.ve)}
  IN IF Good = {}
     THEN IF onEmpty = "idle"
          THEN rs' = [rs EXCEPT ![r] = IdleRel(R.unw, R.syn, "err")]      \* GetSessions returns the error
          ELSE rs' = [rs EXCEPT ![r].ign = ign1 \cup C, ![r].ige = epoch, ![r].pc = onEmpty,
                                ![r].sawEmpty = (\A q \in realC : ~CuFits(used[<<q, epoch>>], R.cu, R.ve))]
     ELSE \E p \in Good : \E B \in SUBSET (C \ Good) :
            rs' = [rs EXCEPT ![r].ign = ign1 \cup {p} \cup B, ![r].ige = epoch, ![r].pc = "acquire",
                             ![r].p = p, ![r].e = epoch]

Select(r) ==
  /\ rs[r].pc = "select"
  /\ SelectValid(r, "selblk")
  /\ UNCHANGED <<csmVars, objVars, bgVars, nops>>

\* prefix of the blocked list that is walked before a usable provider is found
RECURSIVE WalkBlocked(_, _, _, _)
WalkBlocked(L, i, ign, R) ==   \* returns [found, p, seen]
  IF i > Len(L) THEN [found |-> FALSE, p |-> NoProv, seen |-> {}]
  ELSE LET q == L[i] IN
       IF q \in ign THEN WalkBlocked(L, i + 1, ign, R)
       ELSE IF CuFits(used[<<q, epoch>>], R.cu, R.ve) /\ q \in SuppOf(R.ad)
            THEN [found |-> TRUE, p |-> q, seen |-> {q}]
            ELSE LET w == WalkBlocked(L, i + 1, ign, R) IN [w EXCEPT !.seen = @ \cup {q}]

SelectBlk(r) ==
  /\ rs[r].pc = "selblk"
  /\ IF blockedL = <<>> \/ rs[r].ige < epoch
     THEN /\ SelectValid(r, "idle")      \* falls back to the normal path; a second failure ends GetSessions
          /\ UNCHANGED bstat
     ELSE LET R == rs[r]
              w == WalkBlocked(blockedL, 1, R.ign, R) IN
          IF w.found
          THEN /\ rs' = [rs EXCEPT ![r].ign = R.ign \cup w.seen, ![r].unw = R.unw \cup w.seen,
                                   ![r].pc = "acquire", ![r].p = w.p, ![r].e = epoch, ![r].fromBlk = TRUE]
               /\ bstat' = [bstat EXCEPT ![<<w.p, epoch>>] = 1]
          ELSE /\ rs' = [rs EXCEPT ![r] = IdleRel(R.unw \cup w.seen, R.syn, "err")]
               /\ UNCHANGED bstat
  /\ UNCHANGED <<csmVars, used, sess, gdone, veHi, bgVars, nops>>

Acquire(r) ==
  /\ rs[r].pc = "acquire"
  /\ LET R == rs[r]
         o == <<R.p, R.e>>
         S == sess[o]
         free == {i \in 1..Len(S) : S[i].lk = 0 /\ ~S[i].bl}
         nbl  == Cardinality({i \in 1..Len(S) : S[i].bl})
         repd == IF R.e = epoch THEN reported ELSE {}                     \* GetReportedProviders(sessionEpoch)
     IN \/ \E i \in free :                                               \* TryUseSession succeeded
             /\ sess' = [sess EXCEPT ![o][i].lk = r]
             /\ rs' = [rs EXCEPT ![r].pc = "addcu", ![r].sid = i, ![r].repd = repd]
             /\ UNCHANGED gdone
        \/ /\ Len(S) > 0 /\ nbl >= MaxBlk(R.nres)                        \* MaximumNumberOfBlockListedSessionsError
           /\ rs' = [rs EXCEPT ![r].pc = "blockA", ![r].ign = R.ign \cup {R.p}]
           /\ UNCHANGED <<sess, gdone>>
        \/ /\ free = {} /\ nbl < MaxBlk(R.nres)
           /\ IF Len(S) > MaxSess
              THEN /\ rs' = [rs EXCEPT ![r].pc = "select", ![r].ign = R.ign \cup {R.p}]  \* MaximumNumberOfSessionsExceeded
                   /\ UNCHANGED <<sess, gdone>>
              ELSE /\ sess' = [sess EXCEPT ![o] = Append(S, NewSession(r))]
                   /\ gdone' = [gdone EXCEPT ![o] = Append(@, 0)]
                   /\ rs' = [rs EXCEPT ![r].pc = "addcu", ![r].sid = Len(S) + 1, ![r].repd = repd]
  /\ UNCHANGED <<csmVars, used, bstat, veHi, bgVars, nops>>

BlockA(r) ==
  /\ rs[r].pc = "blockA"
  /\ BlockProviderEff(rs[r].p, rs[r].e, FALSE, FALSE)
  /\ rs' = [rs EXCEPT ![r].pc = "select"]
  /\ UNCHANGED <<epoch, pairing, prevBlocked, resets, objVars, bgVars, nops>>

\* the reservation itself: used += cu, LatestRelayCu, RelayNum++ ; GetSessions returns the session
Reserve(r) ==
  LET R == rs[r]
      o == <<R.p, R.e>> IN
  /\ used' = [used EXCEPT ![o] = @ + R.cu]
  /\ veHi' = [veHi EXCEPT ![o] = Max(@, R.ve)]
  /\ sess' = [sess EXCEPT ![o][R.sid].lcu = R.cu, ![o][R.sid].rn = @ + 1]
  /\ rs' = [rs EXCEPT ![r].pc = "held", ![r].res = "ok"]

AddCU(r) ==
  /\ rs[r].pc = "addcu"
  /\ LET R == rs[r]
         o == <<R.p, R.e>> IN
     IF CuFits(used[o], R.cu, R.ve)
     THEN IF SplitReserve
          THEN /\ rs' = [rs EXCEPT ![r].pc = "addcu2"]       \* variant: the check passed, the lock is released
               /\ UNCHANGED <<used, veHi, sess>>
          ELSE Reserve(r)
     ELSE /\ sess' = [sess EXCEPT ![o][R.sid].lk = 0]                 \* consumerSession.Free(nil)
          /\ rs' = [rs EXCEPT ![r].pc = "select", ![r].ign = R.ign \cup {R.p}]
          /\ UNCHANGED <<used, veHi>>
  /\ UNCHANGED <<csmVars, bstat, gdone, bgVars, nops>>

\* only reachable with SplitReserve = TRUE: the addition after the separately locked check
AddApply(r) ==
  /\ rs[r].pc = "addcu2"
  /\ Reserve(r)
  /\ UNCHANGED <<csmVars, bstat, gdone, bgVars, nops>>

\* ---------------------------------------------------------------- OnSessionDone / OnSessionDoneIncreaseCUOnly
DoneCommon(r, o, i) ==
  /\ sess' = [sess EXCEPT ![o][i].cu = @ + sess[o][i].lcu, ![o][i].lcu = 0, ![o][i].ce = 0, ![o][i].lk = 0]
  /\ gdone' = [gdone EXCEPT ![o][i] = @ + rs[r].cu]
  /\ rs' = [rs EXCEPT ![r] = IdleRel(rs[r].unw \cup {rs[r].p}, rs[r].syn, "none")]   \* RemoveUsed(err = nil)

Done(r) ==
  /\ rs[r].pc = "held"
  /\ LET o == <<rs[r].p, rs[r].e>> IN
     /\ DoneCommon(r, o, rs[r].sid)
     /\ IF bstat[o] = 1
        THEN /\ bstat' = [bstat EXCEPT ![o] = 0]
             /\ pendUnb' = [pendUnb EXCEPT ![rs[r].p] = @ + 1]
        ELSE UNCHANGED <<bstat, pendUnb>>
  /\ UNCHANGED <<csmVars, used, veHi, pendChk, nupd, nops, mcu>>

DoneInc(r) ==
  /\ rs[r].pc = "held"
  /\ DoneCommon(r, <<rs[r].p, rs[r].e>>, rs[r].sid)
  /\ UNCHANGED <<csmVars, used, bstat, veHi, bgVars, nops>>

\* ---------------------------------------------------------------- OnSessionFailure
Fail1(r, k) ==
  /\ rs[r].pc = "held"
  /\ LET R == rs[r]
         o == <<R.p, R.e>>
         s == sess[o][R.sid]
         red  == bstat[o] = 1                                   \* redemptionSession
         ce1  == s.ce + 1
         over == ce1 > ConsecLimit \/ k = "sync"
         zero == over /\ ~red /\ used[o] <= s.lcu               \* no successful relay on this provider
         blk  == k \in {"block", "report"} \/ zero
         rep  == k = "report" \/ zero
         firstSync == k = "sync" /\ R.p \notin R.syn            \* EligibilityAllowRetry
     IN /\ sess' = [sess EXCEPT ![o][R.sid].bl = (s.bl \/ over), ![o][R.sid].ce = ce1,
                                ![o][R.sid].lcu = 0, ![o][R.sid].lk = 0]
        /\ rs' = [rs EXCEPT ![r] = [IdleRel(IF firstSync THEN R.unw ELSE R.unw \cup {R.p},
                                            IF firstSync THEN R.syn \cup {R.p} ELSE R.syn, "none")
                                    EXCEPT !.pc = "fdec", !.p = R.p, !.e = R.e, !.dec = s.lcu,
                                           !.blk = (~red /\ blk), !.rep = rep, !.sc = zero]]
  /\ UNCHANGED <<csmVars, used, bstat, gdone, veHi, bgVars, nops>>

Fail2(r) ==
  /\ rs[r].pc = "fdec"
  /\ used' = [used EXCEPT ![<<rs[r].p, rs[r].e>>] = @ - rs[r].dec]
  /\ rs' = [rs EXCEPT ![r] = IF rs[r].blk THEN [rs[r] EXCEPT !.pc = "fblock", !.dec = 0]
                             ELSE IdleRel(rs[r].unw, rs[r].syn, "none")]
  /\ UNCHANGED <<csmVars, bstat, sess, gdone, veHi, bgVars, nops>>

Fail3(r) ==
  /\ rs[r].pc = "fblock"
  /\ BlockProviderEff(rs[r].p, rs[r].e, rs[r].rep, rs[r].sc)
  /\ rs' = [rs EXCEPT ![r] = IdleRel(rs[r].unw, rs[r].syn, "none")]
  /\ UNCHANGED <<epoch, pairing, prevBlocked, resets, objVars, bgVars, nops>>

\* ---------------------------------------------------------------- UpdateAllProviders and the async goroutines
Update(P) ==
  /\ nupd < MaxUpdates
  /\ nupd' = nupd + 1
  /\ LET pb == Range(blockedL)
         re == pb \cap P IN
     /\ epoch' = epoch + 1
     /\ pairing' = P
     /\ prevBlocked' = pb
     /\ valid' = P \ re
     /\ blockedL' \in Perms(re)
     /\ resets' = 0 /\ reported' = {} /\ second' = {}
     /\ pendChk' = pendChk \cup {epoch + 1}
     /\ cache' = NoCache
  /\ UNCHANGED <<objVars, rs, pendUnb, nops, mcu>>

Unblock(p) ==
  /\ pendUnb[p] > 0
  /\ pendUnb' = [pendUnb EXCEPT ![p] = @ - 1]
  /\ UnblockSet({p})
  /\ UNCHANGED <<epoch, pairing, prevBlocked, resets, reported, second, used, sess, gdone, veHi, rs, pendChk, nupd, nops, mcu>>

CheckUnblock(e) ==
  /\ e \in pendChk
  /\ pendChk' = pendChk \ {e}
  /\ IF e # epoch
     THEN UNCHANGED <<valid, blockedL, bstat, reported, prevBlocked, cache>>
     ELSE LET B == prevBlocked \cap pairing IN
          /\ UnblockSet(B)
          /\ reported' = reported \ B
          /\ prevBlocked' = {}
  /\ UNCHANGED <<epoch, pairing, resets, second, used, sess, gdone, veHi, rs, pendUnb, nupd, nops, mcu>>

RelayStep(r) ==
  \/ \E cu \in CUs, ve \in 0..MaxVE, fresh \in BOOLEAN, ad \in Addons : Start(r, cu, ve, fresh, ad)
  \/ Validate(r) \/ ReadEpoch(r) \/ Select(r) \/ SelectBlk(r) \/ Acquire(r) \/ BlockA(r) \/ AddCU(r) \/ AddApply(r)
  \/ Done(r) \/ DoneInc(r) \/ (\E k \in FailKinds : Fail1(r, k)) \/ Fail2(r) \/ Fail3(r)

Next ==
  \/ \E r \in Relays : RelayStep(r)
  \/ \E P \in PairingSets : Update(P)
  \/ \E p \in Provs : Unblock(p)
  \/ \E e \in Epochs : CheckUnblock(e)

Spec == Init /\ [][Next]_vars

\* ---------------------------------------------------------------- properties (C28)
Holding(r) == rs[r].pc \in {"addcu", "addcu2", "held"}
SessOf(r)  == <<rs[r].p, rs[r].e, rs[r].sid>>

TypeOK ==
  /\ epoch \in Epochs /\ pairing \subseteq Provs /\ valid \subseteq pairing /\ Range(blockedL) \subseteq pairing
  /\ valid \cap Range(blockedL) = {}
  /\ reported \subseteq pairing /\ second \subseteq pairing
  /\ \A i, j \in 1..Len(blockedL) : i # j => blockedL[i] # blockedL[j]
  /\ \A o \in Objs : used[o] >= 0 /\ Len(gdone[o]) = Len(sess[o])

\* a session is held by at most one relay
Exclusive ==
  /\ \A r1, r2 \in Relays : (r1 # r2 /\ Holding(r1) /\ Holding(r2)) => SessOf(r1) # SessOf(r2)
  /\ \A r \in Relays : Holding(r) => sess[<<rs[r].p, rs[r].e>>][rs[r].sid].lk = r
  /\ \A o \in Objs : \A i \in 1..Len(sess[o]) :
        sess[o][i].lk # 0 => (Holding(sess[o][i].lk) /\ SessOf(sess[o][i].lk) = <<o[1], o[2], i>>)

\* used = completed + in flight (+ the decrement OnSessionFailure applies after it released the session)
PendDec(o) ==
  LET RR == {r \in Relays : rs[r].pc = "fdec" /\ <<rs[r].p, rs[r].e>> = o} IN
  IF RR = {} THEN 0
  ELSE LET f[T \in SUBSET RR] == IF T = {} THEN 0 ELSE LET x == CHOOSE x \in T : TRUE IN rs[x].dec + f[T \ {x}]
       IN f[RR]
Accounting == \A o \in Objs : AccountOK(used[o], sess[o], PendDec(o))
Bound      == \A o \in Objs : BoundOK(used[o], veHi[o])

\* the cumulative CU a relay signs (CuSum + LatestRelayCu) = CU of relays completed on the session + its own CU
Signed ==
  \A o \in Objs : \A i \in 1..Len(sess[o]) :
    LET s == sess[o][i] IN
    /\ s.cu = gdone[o][i]
    /\ (s.lk # 0 /\ rs[s.lk].pc = "held") => s.lcu = rs[s.lk].cu
    /\ (s.lk = 0) => s.lcu = 0

\* a provider from the blocked list is only used after the valid list had nobody who could serve
BlockedRule == \A r \in Relays : rs[r].fromBlk => rs[r].sawEmpty

\* relay numbers never decrease, and every hand-out increments by exactly one
RelayNumMono ==
  [][\A o \in Objs : \A i \in 1..Len(sess[o]) :
        /\ sess'[o][i].rn >= sess[o][i].rn
        /\ (sess[o][i].lk # 0 /\ rs[sess[o][i].lk].pc \in {"addcu", "addcu2"} /\ rs'[sess[o][i].lk].pc = "held")
              => sess'[o][i].rn = sess[o][i].rn + 1]_vars

\* NOT an invariant of the code (documented quirk, see notes): the per-router-key cache of valid addresses can be stale,
\* because setValidAddressesToDefaultValue refreshes only the key it was called for.
CacheFresh == \A ad \in BOOLEAN : cache[ad].ok => cache[ad].v = CalcValid(ad, valid)

\* sanity: the blocked-provider rule is NOT atomic with the final pick (documented, see notes): a provider may be
\* unblocked between the two RLock sections.  Used only with expectation "violated" in manual runs.
BlockedRuleAtomic ==
  \A r \in Relays : (rs[r].pc = "acquire" /\ rs[r].fromBlk) =>
     ~\E q \in Provs : CanServe(q, epoch, rs[r].cu, rs[r].ve, rs[r].ign \ {rs[r].p}, valid, used, sess, rs[r].nres)
=============================================================================
