----------------------------- MODULE RewardServer -----------------------------
(* protocol/rpcprovider/rewardserver/reward_server.go + reward_db.go + badger_db.go   (property C29)

   Actions (one per public entry point / background job):
     Proof(e, c, s, cu)   SendNewProof -> saveProofInMemory                (answer: existingCU, updated)
     Snap                 saveRewardsSnapshotToDBJob -> RewardDB.BatchSave  (all in-memory proofs, upsert)
     Update(cur, ear, okNew, okRetry)
                          UpdateEpoch -> runRewardServerEpochUpdate -> sendRewardsClaim:
                          gatherFailedRequestPaymentsToRetry, gatherRewardsForClaim, one TxRelayPayment
                          per chunk (new / retry) and updatePaymentRequestAttempt on each result
     Paid(k)              PaymentHandler (payment event seen on chain) -> DeleteClaimedRewards
     Restart              crash at any point between two actions: the process dies, a new server is
                          started on the same DB: AddDataBase -> restoreRewardsFromDB

   State is keyed as the code keys it:
     mem     rewards[epoch][specId+consumer][sessionId]       -> modelled as [Keys -> cu], 0 = absent
     failed  failedRewardsPaymentRequests[sessionId]          -> keyed by SESSION ID ONLY (F13): equal
             session ids of different consumers share one entry; the entry keeps the *first* failed
             relay session
     db      "epoch.consumer.sessionId.specId+consumer" -> proof (BatchSave upserts, nothing else
             removes keys but Paid, retry exhaustion, too-old epochs)
   One spec id (one DB).  Epochs are single digits (DeleteEpochRewards deletes by decimal *prefix*,
   see docs/notes/C29.md).

   Environment assumptions: proofs arrive only for epochs that are still valid for use
   (epoch > cur - Window: the provider session manager rejects older epochs before the reward
   server is reached), chain memory is longer than the claim window (earliest <= cur - Window). *)
EXTENDS Integers, Sequences, FiniteSets, TLC, Json

CONSTANTS Epochs,      \* set of epoch numbers (1..9)
          Sess,        \* set of consumer/session pairs encoded as 10*consumer + sessionId (cfg files have no tuples)
          MaxCu,
          Window,      \* GetEpochSizeMultipliedByRecommendedEpochNumToCollectPayment
          MaxRetries,  \* MaxPaymentRequestsRetiresForSession (3)
          MaxOps,
          AtomicSave,  \* TRUE = saveProofInMemory as it is in the code: compare and store in ONE critical section
                       \* (rws.lock held for the whole function).  FALSE = the check-then-act variant (compare
                       \* under a read lock, store later under the write lock without re-checking) - kept in the
                       \* spec so that TLC shows at design level why the single critical section is needed
                       \* (RewardServer_split.cfg: KeepsBest is violated in 5 steps)
          MaxCalls,    \* number of concurrent SendNewProof calls modelled step by step (0 = none)
          GenHist

VARIABLES mem, failed, db,
          calls,     \* in-flight SendNewProof calls: [1..MaxCalls -> [pc, k, cu]], pc in {"idle","check","store"}
          cur,       \* epoch of the last UpdateEpoch (0 = none yet)
          ear,       \* EarliestBlockInMemory currently answered by the node
          life,      \* process lifetime number
          subs,      \* ghost: [proof -> number of TxRelayPayment calls containing it in this lifetime]
          best,      \* ghost: [Keys -> max CuSum received in this lifetime or restored at its start]
          okd,       \* ghost: proofs whose claim tx succeeded in this lifetime (may be paid)
          out,       \* observable result of the last action (answer / tx batches)
          nops, hist

vars == <<mem, failed, db, calls, cur, ear, life, subs, best, okd, out, nops, hist>>

Keys == {[e |-> e, c |-> p \div 10, s |-> p % 10] : e \in Epochs, p \in Sess}
SessIds == {p % 10 : p \in Sess}
NoFail == [e |-> 0, c |-> 0, s |-> 0, cu |-> 0, att |-> 0]
PF(k, cu) == [e |-> k.e, c |-> k.c, s |-> k.s, cu |-> cu]       \* a proof
KeyOf(p) == [e |-> p.e, c |-> p.c, s |-> p.s]
Record(r) == hist' = IF GenHist THEN Append(hist, r) ELSE hist
SeqToSet(q) == {q[i] : i \in 1..Len(q)}
NoOut == [ev |-> "none", existing |-> 0, updated |-> FALSE, txs |-> <<>>]

\* lavasession.IsEpochValidForUse(epoch, threshold)
ValidForUse(e, thr) == e > thr
Active(e) == cur < Window \/ ValidForUse(e, cur - Window)

-----------------------------------------------------------------------------
\* ---- concurrent SendNewProof calls, step by step ------------------------------------------------
NoKey == [e |-> 0, c |-> 0, s |-> 0]
IdleCall == [pc |-> "idle", k |-> NoKey, cu |-> 0]
Quiescent == \A i \in DOMAIN calls : calls[i].pc = "idle"
SaveResult(stored, cu) == IF stored = 0 \/ stored < cu THEN cu ELSE stored      \* compare + store of saveProofInMemory

\* a relay handler calls SendNewProof: the proof counts as received from here on
Begin(i, k, cu) ==
  /\ calls[i].pc = "idle" /\ Active(k.e)
  /\ calls' = [calls EXCEPT ![i] = [pc |-> "check", k |-> k, cu |-> cu]]
  /\ best' = [best EXCEPT ![k] = IF cu > @ THEN cu ELSE @]
  /\ out' = [NoOut EXCEPT !.ev = "begin"]
  /\ Record([a |-> "begin", i |-> i, e |-> k.e, c |-> k.c, s |-> k.s, cu |-> cu])
  /\ UNCHANGED <<mem, failed, db, cur, ear, life, subs, okd>>
\* the code: the whole of saveProofInMemory under rws.lock
SaveAtomic(i) ==
  /\ AtomicSave /\ calls[i].pc = "check"
  /\ mem' = [mem EXCEPT ![calls[i].k] = SaveResult(@, calls[i].cu)]
  /\ calls' = [calls EXCEPT ![i] = IdleCall]
  /\ out' = [NoOut EXCEPT !.ev = "save"]
  /\ Record([a |-> "save", i |-> i])
  /\ UNCHANGED <<failed, db, cur, ear, life, subs, best, okd>>
\* the variant: compare under the read lock ...
CheckStep(i) ==
  /\ ~AtomicSave /\ calls[i].pc = "check"
  /\ calls' = [calls EXCEPT ![i] = IF mem[calls[i].k] >= calls[i].cu THEN IdleCall ELSE [@ EXCEPT !.pc = "store"]]
  /\ out' = [NoOut EXCEPT !.ev = "check"]
  /\ Record([a |-> "check", i |-> i])
  /\ UNCHANGED <<mem, failed, db, cur, ear, life, subs, best, okd>>
\* ... and store under the write lock without looking again
StoreStep(i) ==
  /\ ~AtomicSave /\ calls[i].pc = "store"
  /\ mem' = [mem EXCEPT ![calls[i].k] = calls[i].cu]
  /\ calls' = [calls EXCEPT ![i] = IdleCall]
  /\ out' = [NoOut EXCEPT !.ev = "store"]
  /\ Record([a |-> "store", i |-> i])
  /\ UNCHANGED <<failed, db, cur, ear, life, subs, best, okd>>
\* what a burst of concurrent calls for one key must leave behind once all of them returned
BurstKept(stored, cus) == LET all == cus \cup {stored} IN CHOOSE m \in all : \A x \in all : x <= m

\* a SendNewProof call that does not overlap with another one
Proof(k, cu) ==
  /\ Active(k.e)
  /\ LET stored == mem[k] IN
       IF stored = 0 THEN /\ mem' = [mem EXCEPT ![k] = cu]
                          /\ out' = [NoOut EXCEPT !.ev = "proof", !.existing = 0, !.updated = TRUE]
       ELSE IF stored >= cu THEN /\ mem' = mem
                                 /\ out' = [NoOut EXCEPT !.ev = "proof", !.existing = stored, !.updated = FALSE]
       ELSE /\ mem' = [mem EXCEPT ![k] = cu]
            /\ out' = [NoOut EXCEPT !.ev = "proof", !.existing = 0, !.updated = TRUE]
  /\ best' = [best EXCEPT ![k] = IF cu > @ THEN cu ELSE @]
  /\ Record([a |-> "proof", e |-> k.e, c |-> k.c, s |-> k.s, cu |-> cu])
  /\ UNCHANGED <<failed, db, calls, cur, ear, life, subs, okd>>

Snap ==
  /\ db' = [k \in Keys |-> IF mem[k] > 0 THEN mem[k] ELSE db[k]]
  /\ out' = [NoOut EXCEPT !.ev = "snap"]
  /\ Record([a |-> "snap"])
  /\ UNCHANGED <<mem, failed, calls, cur, ear, life, subs, best, okd>>

\* updatePaymentRequestAttempt(batch, success) - batch is a sequence of proofs, folded in order.
\* st = [failed, dbdel (keys deleted from the DB)]
RECURSIVE Attempt(_, _, _, _)
Attempt(batch, i, success, st) ==
  IF i > Len(batch) THEN st
  ELSE LET p == batch[i]
           f == st.failed[p.s]
       IN IF f.att = 0
          THEN Attempt(batch, i + 1, success,
                       IF success THEN st
                       ELSE [st EXCEPT !.failed[p.s] = [e |-> p.e, c |-> p.c, s |-> p.s, cu |-> p.cu, att |-> 1]])
          ELSE IF success THEN Attempt(batch, i + 1, success, [st EXCEPT !.failed[p.s] = NoFail])
          ELSE IF f.att + 1 >= MaxRetries
               THEN Attempt(batch, i + 1, success,
                            [st EXCEPT !.failed[p.s] = NoFail, !.dbdel = @ \cup {KeyOf(p)}])   \* deletes *this* proof's key
               ELSE Attempt(batch, i + 1, success, [st EXCEPT !.failed[p.s].att = f.att + 1])

\* all orderings of a finite set as sequences
RECURSIVE Perms(_)
Perms(S) == IF S = {} THEN {<<>>} ELSE UNION {{<<x>> \o q : q \in Perms(S \ {x})} : x \in S}

\* the claim part of one epoch update; newB / retryB are the batches in the order the code built them
\* (Go map iteration order: any permutation), firstNew = which goroutine's result is recorded first
Update(ncur, near, okNew, okRetry, newB, retryB, firstNew) ==
  /\ Quiescent
  /\ ncur >= cur /\ near >= ear
  /\ ncur >= Window => near <= ncur - Window         \* chain memory is longer than the claim window
  /\ LET tooOldF == {s \in SessIds : failed[s].att > 0 /\ failed[s].e < near}
         retrySet == {PF(failed[s], failed[s].cu) : s \in {x \in SessIds : failed[x].att > 0 /\ failed[x].e >= near}}
         failed1 == [s \in SessIds |-> IF s \in tooOldF THEN NoFail ELSE failed[s]]
         dbdel1 == {KeyOf(failed[s]) : s \in tooOldF}
         gatherOk == Window <= ncur
         thr == ncur - Window
         oldE == {e \in Epochs : e < near /\ \E k \in Keys : k.e = e /\ mem[k] > 0}     \* epochs present in memory
         claimK == IF gatherOk THEN {k \in Keys : mem[k] > 0 /\ k.e >= near /\ ~ValidForUse(k.e, thr)} ELSE {}
         newSet == {PF(k, mem[k]) : k \in claimK}
         mem1 == IF gatherOk THEN [k \in Keys |-> IF k.e \in oldE \/ k \in claimK THEN 0 ELSE mem[k]] ELSE mem
         dbdel2 == IF gatherOk THEN {k \in Keys : k.e \in oldE} ELSE {}
         st0 == [failed |-> failed1, dbdel |-> {}]
         doNew(st) == IF newSet = {} THEN st ELSE Attempt(newB, 1, okNew, st)
         doRetry(st) == IF retrySet = {} \/ ~gatherOk THEN st ELSE Attempt(retryB, 1, okRetry, st)
         st2 == IF firstNew THEN doRetry(doNew(st0)) ELSE doNew(doRetry(st0))
         sent == (IF newSet = {} THEN {} ELSE newSet) \cup (IF retrySet = {} \/ ~gatherOk THEN {} ELSE retrySet)
         txs == (IF newSet = {} THEN <<>> ELSE <<[kind |-> "new", ok |-> okNew, proofs |-> newSet]>>)
                \o (IF retrySet = {} \/ ~gatherOk THEN <<>> ELSE <<[kind |-> "retry", ok |-> okRetry, proofs |-> retrySet]>>)
     IN /\ SeqToSet(newB) = newSet /\ Len(newB) = Cardinality(newSet)
        /\ SeqToSet(retryB) = (IF gatherOk THEN retrySet ELSE {}) /\ Len(retryB) = Cardinality(SeqToSet(retryB))
        /\ mem' = mem1
        /\ failed' = st2.failed
        /\ db' = [k \in Keys |-> IF k \in dbdel1 \cup dbdel2 \cup st2.dbdel THEN 0 ELSE db[k]]
        /\ subs' = [p \in DOMAIN subs |-> IF p \in sent THEN subs[p] + 1 ELSE subs[p]]
        /\ okd' = okd \cup (IF okNew THEN newSet ELSE {}) \cup (IF okRetry /\ gatherOk THEN retrySet ELSE {})
        /\ out' = [NoOut EXCEPT !.ev = "update", !.txs = txs]
  /\ cur' = ncur /\ ear' = near
  /\ Record([a |-> "update", cur |-> ncur, ear |-> near, okNew |-> okNew, okRetry |-> okRetry])
  /\ UNCHANGED <<life, best, calls>>

\* PaymentHandler for a proof whose claim tx succeeded: DeleteClaimedRewards(epoch, client, sessionId, "")
Paid(p) ==
  /\ p \in okd
  /\ db' = [db EXCEPT ![KeyOf(p)] = 0]
  /\ out' = [NoOut EXCEPT !.ev = "paid"]
  /\ Record([a |-> "paid", e |-> p.e, c |-> p.c, s |-> p.s, cu |-> p.cu])
  /\ UNCHANGED <<mem, failed, calls, cur, ear, life, subs, best, okd>>

\* crash + new process on the same DB (AddDataBase -> restoreRewardsFromDB)
Restart ==
  /\ Quiescent
  /\ mem' = [k \in Keys |-> IF k.e < ear THEN 0 ELSE db[k]]
  /\ db' = [k \in Keys |-> IF db[k] > 0 /\ k.e < ear THEN 0 ELSE db[k]]   \* DeleteEpochRewards for too old epochs found in the DB
  /\ failed' = [s \in SessIds |-> NoFail]
  /\ life' = life + 1
  /\ subs' = [p \in DOMAIN subs |-> 0]
  /\ best' = [k \in Keys |-> IF k.e < ear THEN 0 ELSE db[k]]
  /\ okd' = {}
  /\ out' = [NoOut EXCEPT !.ev = "restart"]
  /\ Record([a |-> "restart"])
  /\ UNCHANGED <<cur, ear, calls>>

-----------------------------------------------------------------------------
Proofs == {PF(k, cu) : k \in Keys, cu \in 1..MaxCu}
Init == /\ mem = [k \in Keys |-> 0] /\ db = [k \in Keys |-> 0]
        /\ failed = [s \in SessIds |-> NoFail]
        /\ calls = [i \in 1..MaxCalls |-> IdleCall]
        /\ cur = 0 /\ ear = 0 /\ life = 1
        /\ subs = [p \in Proofs |-> 0] /\ best = [k \in Keys |-> 0] /\ okd = {}
        /\ out = NoOut /\ nops = 0 /\ hist = <<>>

MaxEpoch == CHOOSE e \in Epochs : \A x \in Epochs : x <= e
\* the sets a batch can consist of are determined by the state, so quantifying over all sequences of
\* proofs of the right set is cheap: the guard inside Update pins SeqToSet
NewSetOf(ncur, near) == IF Window <= ncur
                        THEN {PF(k, mem[k]) : k \in {x \in Keys : mem[x] > 0 /\ x.e >= near /\ ~ValidForUse(x.e, ncur - Window)}}
                        ELSE {}
RetrySetOf(ncur, near) == IF Window <= ncur
                          THEN {PF(failed[s], failed[s].cu) : s \in {x \in SessIds : failed[x].att > 0 /\ failed[x].e >= near}}
                          ELSE {}
UpdateAny(ncur, near, okNew, okRetry) ==
  \E newB \in Perms(NewSetOf(ncur, near)), retryB \in Perms(RetrySetOf(ncur, near)),
     firstNew \in (IF NewSetOf(ncur, near) # {} /\ RetrySetOf(ncur, near) # {} THEN BOOLEAN ELSE {TRUE}) :
     Update(ncur, near, okNew, okRetry, newB, retryB, firstNew)

\* exhaustive runs: epochs advance one at a time; tx results only branch when a tx is sent
Env == \/ \E k \in Keys, cu \in 1..MaxCu : Proof(k, cu)
       \/ \E i \in 1..MaxCalls : \/ \E k \in Keys, cu \in 1..MaxCu : Begin(i, k, cu)
                                \/ SaveAtomic(i) \/ CheckStep(i) \/ StoreStep(i)
       \/ Snap
       \/ \E ncur \in {cur + 1}, near \in {ear, ear + 1} :
            /\ ncur <= MaxEpoch + Window + 1
            /\ \E okNew \in (IF NewSetOf(ncur, near) = {} THEN {TRUE} ELSE BOOLEAN),
                  okRetry \in (IF RetrySetOf(ncur, near) = {} THEN {TRUE} ELSE BOOLEAN) :
                 UpdateAny(ncur, near, okNew, okRetry)
       \/ \E p \in okd : Paid(p)
       \/ Restart

Next == nops < MaxOps /\ nops' = nops + 1 /\ Env
Spec == Init /\ [][Next]_vars

-----------------------------------------------------------------------------
\* Generator
ActiveKeys == {k \in Keys : Active(k.e) /\ k.e <= cur + 1}
RandProof == ActiveKeys # {} /\ \E k \in {RandomElement(ActiveKeys)}, cu \in {RandomElement(1..MaxCu)} : Proof(k, cu)
RandUpdate == \E dc \in {RandomElement(1..4)}, de \in {RandomElement(1..4)}, r \in {RandomElement(1..6)} :
                LET ncur == cur + (IF dc = 4 THEN 2 ELSE 1)
                    near0 == ear + (IF de = 4 THEN 2 ELSE IF de = 3 THEN 1 ELSE 0)
                    near == IF ncur >= Window /\ near0 > ncur - Window THEN (IF ncur - Window > ear THEN ncur - Window ELSE ear) ELSE near0
                    okNew == r \in {1, 2, 3}      \* 1/2 of the new claims and 2/3 of the retries fail (retry exhaustion must be reached)
                    okRetry == r \in {1, 4}
                IN ncur <= MaxEpoch + Window + 1 /\ UpdateAny(ncur, near, okNew, okRetry)
RandPaid == okd # {} /\ \E p \in {RandomElement(okd)} : Paid(p)
GenNext == /\ nops < MaxOps /\ nops' = nops + 1
           /\ \E kind \in {RandomElement(1..10)} :
                CASE kind \in {1, 2, 3, 4} -> IF ActiveKeys # {} THEN RandProof ELSE Snap
                  [] kind \in {5, 6} -> IF cur + 1 <= MaxEpoch + Window + 1 THEN RandUpdate ELSE Restart
                  [] kind = 7 -> Snap
                  [] kind = 8 -> IF okd # {} THEN RandPaid ELSE Snap
                  [] kind = 9 -> Restart
                  [] OTHER -> IF cur + 1 <= MaxEpoch + Window + 1 THEN RandUpdate ELSE Snap
Emit == nops < MaxOps \/ PrintT(<<"BEH", ToJson(hist)>>)

-----------------------------------------------------------------------------
\* Properties (C29).  `out` is the observable of the last action, so these are state predicates on
\* the state right after an update.
Sent == UNION {out.txs[i].proofs : i \in 1..Len(out.txs)}
\* 1. a kept proof is the best received (this lifetime / restored), and what is submitted as a new
\*    claim is that best proof
KeepsBest == Quiescent => \A k \in Keys : mem[k] > 0 => mem[k] = best[k]
SubmitsBest == out.ev = "update" =>
                 \A i \in 1..Len(out.txs) : out.txs[i].kind = "new" =>
                    \A p \in out.txs[i].proofs : p.cu = best[KeyOf(p)]
\* 2. submission window: the epoch left the active window and is still in chain memory
InWindow == out.ev = "update" =>
              \A p \in Sent : /\ cur >= Window /\ ~ValidForUse(p.e, cur - Window)
                              /\ p.e >= ear
\* 3. per process lifetime a proof is submitted at most once plus MaxRetries times
Bounded == \A p \in DOMAIN subs : subs[p] <= 1 + MaxRetries
\* 4. restart restores exactly the snapshot's unclaimed (not deleted) proofs still in chain memory
RestoresSnapshot == out.ev = "restart" =>
                      \A k \in Keys : mem[k] = (IF k.e < ear THEN 0 ELSE db[k]) /\ (k.e < ear => db[k] = 0)
\* no proof is sent twice in one update
NoDupInUpdate == out.ev = "update" =>
                   \A i, j \in 1..Len(out.txs) : i # j => out.txs[i].proofs \cap out.txs[j].proofs = {}
TypeOK == /\ \A k \in Keys : mem[k] \in 0..MaxCu /\ db[k] \in 0..MaxCu
          /\ \A s \in SessIds : failed[s].att \in 0..(MaxRetries - 1)
=============================================================================
