--------------------------- MODULE Trace_Selector ---------------------------
(* Validation of draws / score comparisons recorded from the real WeightedSelector (harness/cmd/selector).

   "sel" lines (Conf on the observables - the interval rule IS the property): the candidates the real
   CalculateProviderScores kept must be allAddresses minus ignored minus no-data, in order; the real pick
   must be Selector!Select(scored, k, cell) for the logged draw cell; the mirrored math/rand value must
   equal the RNGValue the selector reports (ucmp = 0); real weights lie in [minChance, 1].
   "lat" lines (Obs): a legal one-coordinate improvement never lowers the real CalculateScore and both
   values lie in [minChance, 1]. *)
EXTENDS Selector, IOUtils
VARIABLE l
Trace == ndJsonDeserialize(IOEnv.VERIF_TRACE)
ToSet(s) == {s[i] : i \in 1..Len(s)}

TInit == l = 0 /\ ignored = {} /\ nodata = {} /\ k = [p \in PS |-> 0] /\ phase = "trace" /\ scored = <<>> /\ cell = 0 /\ pick = ""
TNext == l < Len(Trace) /\ l' = l + 1 /\ UNCHANGED vars
Cur == Trace[l]
KK(r) == [p \in PS |-> r.k[p]]

ConfFilter   == (l >= 1 /\ Cur.ev = "sel") => Cur.scored = Scored(ToSet(Cur.ignored), ToSet(Cur.nodata))
ConfInterval == (l >= 1 /\ Cur.ev = "sel") =>
                  /\ Cur.cell \in DrawRange(Cur.scored, KK(Cur))
                  /\ Cur.pick = Select(Cur.scored, KK(Cur), Cur.cell)
                  /\ Cur.statsPick = Cur.pick \/ Len(Cur.scored) = 0
                  /\ Cur.total8 = Total(Cur.scored, KK(Cur))
ConfDraw     == (l >= 1 /\ Cur.ev = "sel") => Cur.ucmp = 0
ObsValid     == (l >= 1 /\ Cur.ev = "sel") =>
                  LET el == PS \ (ToSet(Cur.ignored) \cup ToSet(Cur.nodata)) IN
                    /\ (Cur.pick = "" \/ Cur.pick \in el) /\ (el # {} => Cur.pick # "")
ObsWeights   == (l >= 1 /\ Cur.ev = "sel") => Cur.weightsOk
ObsLattice   == (l >= 1 /\ Cur.ev = "lat") => (LegalPair(Cur.p) /\ Cur.cmp >= 0)
ObsRange     == (l >= 1 /\ Cur.ev = "lat") => Cur.inRange

Post == LET d == TLCGet("stats").diameter IN PrintT(<<"HWM", d>>) /\ d = Len(Trace) + 1
=============================================================================
