--------------------------- MODULE Trace_Selector ---------------------------
(* Validation of draws / score comparisons recorded from the real WeightedSelector (harness/cmd/selector).

   "sel" lines (Conf on the observables - the interval rule IS the property): the candidates the real
   CalculateProviderScores kept must be allAddresses minus ignored minus no-data, in order; the real pick
   must be Selector!Select(scored, k, cell) for the logged draw cell; the mirrored math/rand value must
   equal the RNGValue the selector reports (ucmp = 0); real weights lie in [minChance, 1].
   "lat" lines (Obs): for every (strategy, latency window kind, sync window kind) group - windows are fed
   through the selector's getter interface, including degenerate / reversed / zero / negative / NaN /
   infinite ones - a legal one-coordinate improvement never lowers the real CalculateScore, both values are
   finite numbers in [minChance, 1], and an unusable window behaves like a switched-off getter.
   "real" lines (Obs): draws with the group's real float weights obey the interval rule. *)
EXTENDS Selector, IOUtils
VARIABLE l
Trace == ndJsonDeserialize(IOEnv.VERIF_TRACE)
ToSet(s) == {s[i] : i \in 1..Len(s)}

TInit == l = 0 /\ ignored = {} /\ nodata = {} /\ k = [p \in PS |-> 0] /\ phase = "trace" /\ scored = <<>> /\ cell = 0 /\ pick = ""
TNext == l < Len(Trace) /\ l' = l + 1 /\ UNCHANGED vars
Cur == Trace[l]
KK(r) == [p \in PS |-> r.k[p]]

ConfFilter   == (l >= 1 /\ Cur.ev = "sel") => Cur.scored = Scored(ToSet(Cur.ignored), ToSet(Cur.nodata))
ConfInterval == (l >= 1 /\ Cur.ev = "sel") =>
                  /\ Cur.cell \in DrawRange(Cur.scored, KK(Cur))
                  /\ Cur.pick = Select(Cur.scored, KK(Cur), Cur.cell)
                  /\ Cur.statsPick = Cur.pick \/ Len(Cur.scored) = 0
                  /\ Cur.total8 = Total(Cur.scored, KK(Cur))
ConfDraw     == (l >= 1 /\ Cur.ev = "sel") => Cur.ucmp = 0
ObsValid     == (l >= 1 /\ Cur.ev = "sel") =>
                  LET el == PS \ (ToSet(Cur.ignored) \cup ToSet(Cur.nodata)) IN
                    /\ (Cur.pick = "" \/ Cur.pick \in el) /\ (el # {} => Cur.pick # "")
ObsWeights   == (l >= 1 /\ Cur.ev = "sel") => Cur.weightsOk
ObsLattice   == (l >= 1 /\ Cur.ev = "lat") => (LegalPair(Cur.p) /\ LegalGroup(Cur.strategy, Cur.lw, Cur.sw) /\ Cur.cmp \in {0, 1})
\* `finite` is logged explicitly: NaN compares false with everything, a bare range check would pass vacuously
ObsRange     == (l >= 1 /\ Cur.ev = "lat") => (Cur.finite /\ Cur.inRange)
\* a window the selector must not use behaves exactly like a switched-off getter
ObsFallback  == (l >= 1 /\ Cur.ev = "lat") => /\ (~WindowUsable(Cur.lw) => Cur.eqOffL)
                                              /\ (~WindowUsable(Cur.sw) => Cur.eqOffS)
\* draws with the real (float) weights of the group: finite weights in range, and the pick owns the drawn
\* value (three-way comparisons against the cumulative sums are computed by the driver in the code's order)
ObsRealDraw  == (l >= 1 /\ Cur.ev = "real") =>
                  /\ LegalGroup(Cur.strategy, Cur.lw, Cur.sw)
                  /\ Cur.finite /\ Cur.inRange /\ Cur.n = 3
                  /\ Cur.pick \in {"p1", "p2", "p3"} /\ Cur.idx >= 0
                  /\ Cur.rngOk /\ Cur.ucmp = 0 /\ Cur.lowOk /\ Cur.highOk

Post == LET d == TLCGet("stats").diameter IN PrintT(<<"HWM", d>>) /\ d = Len(Trace) + 1
=============================================================================
