----------------------------- MODULE ContentHash -----------------------------
(* x/pairing/types/relay_exchange.go : RelayPrivateData.GetContentHashData - the byte string whose
   SHA-256 the consumer signs inside the relay session (ConstructRelaySession) and the provider
   recomputes (rpcprovider_server.go verifyRelayRequestMetaData).  The code joins, with no
   delimiter and no length prefix, in this order:

      metadata entries (name ++ value each), extensions, addon, api_interface, connection_type,
      api_url, data, request_block (8 bytes), seen_block (8 bytes), salt

   Is that encoding injective?  One letter of the model is one 8-byte chunk, so the two block
   numbers are exactly one letter wide and every variable-length field is a sequence of letters.
   A request is a function field -> value:
      metadata    sequence of <<name, value>>, name/value strings (<= 1 entry in the enumerated
                  requests, 2-3 entries in MdMutPairs)
      extensions  sequence (<= 2) of strings
      addon, api_interface, connection_type, api_url, data, salt   strings
      request_block, seen_block                                     one letter
   Requests are enumerated up to a weight bound W (total number of letters in the variable-length
   fields; also the longest string).

   Action Classify takes one request r1 and computes, constructively (Resplit = all ways of cutting
   Enc(r1) into fields again), every other request with the same encoding; for each *irreducible*
   colliding pair (no third request with the same encoding lies strictly between the two, i.e.
   differs from each of them in a strict subset of the fields they differ in) it records the class = set of differing fields.  The classes (with one witness
   pair each) are what the check replays against the real GetContentHashData. *)
EXTENDS Integers, Sequences, FiniteSets, TLC, Json

CONSTANTS Alpha,   \* letters
          W        \* weight bound

VARIABLES r1, out
vars == <<r1, out>>

Order == <<"metadata", "extensions", "addon", "api_interface", "connection_type", "api_url", "data",
           "request_block", "seen_block", "salt">>
Fields == {Order[i] : i \in 1..Len(Order)}
Plain  == {"addon", "api_interface", "connection_type", "api_url", "data", "salt"}
FixedW == {"request_block", "seen_block"}

Strs(n) == UNION {[1..k -> Alpha] : k \in 0..n}
RECURSIVE Flat(_)
Flat(ss) == IF ss = <<>> THEN <<>> ELSE Head(ss) \o Flat(Tail(ss))
MdBytes(md) == Flat([i \in 1..Len(md) |-> md[i][1] \o md[i][2]])

\* GetContentHashData
Enc(r) == MdBytes(r["metadata"]) \o Flat(r["extensions"]) \o r["addon"] \o r["api_interface"]
          \o r["connection_type"] \o r["api_url"] \o r["data"] \o <<r["request_block"]>>
          \o <<r["seen_block"]>> \o r["salt"]

Weight(r) == Len(Enc(r)) - 2

\* ---- all requests of weight <= W --------------------------------------------------------------
MdVals  == {<<>>} \cup {<<<<n, v>>>> : n \in Strs(W), v \in Strs(W)}
ExtVals == {<<>>} \cup {<<x>> : x \in Strs(W)} \cup {<<x, y>> : x \in Strs(W), y \in Strs(W)}
Dom(f) == CASE f = "metadata" -> MdVals [] f = "extensions" -> ExtVals
            [] f \in FixedW -> Alpha [] OTHER -> Strs(W)
FW(f, v) == CASE f = "metadata" -> Len(MdBytes(v)) [] f = "extensions" -> Len(Flat(v))
              [] f \in FixedW -> 0 [] OTHER -> Len(v)
\* built field by field so that the weight bound prunes early
RECURSIVE Build(_, _)
Build(k, budget) ==
  IF k > Len(Order) THEN {<<>>}
  ELSE UNION {{(Order[k] :> v) @@ rest : rest \in Build(k + 1, budget - FW(Order[k], v))} :
              v \in {x \in Dom(Order[k]) : FW(Order[k], x) <= budget}}
Rec == Build(1, W)

\* ---- all requests with encoding e (constructive) ------------------------------------------------
Pre(e, n) == SubSeq(e, 1, n)
Suf(e, n) == SubSeq(e, n + 1, Len(e))
Min(a, b) == IF a < b THEN a ELSE b
\* ways to read a string / a metadata list / an extension list off the front of e: {<<value, rest>>}
TakeStr(e) == {<<Pre(e, n), Suf(e, n)>> : n \in 0..Min(W, Len(e))}
TakeMd(e)  == {<<<<>>, e>>} \cup
              UNION {{<<<<<<a[1], b[1]>>>>, b[2]>> : b \in TakeStr(a[2])} : a \in TakeStr(e)}
TakeExt(e) == {<<<<>>, e>>} \cup {<<<<a[1]>>, a[2]>> : a \in TakeStr(e)} \cup
              UNION {{<<<<a[1], b[1]>>, b[2]>> : b \in TakeStr(a[2])} : a \in TakeStr(e)}
TakeFix(e) == IF e = <<>> THEN {} ELSE {<<e[1], Tail(e)>>}
Take(f, e) == CASE f = "metadata" -> TakeMd(e) [] f = "extensions" -> TakeExt(e)
                [] f \in FixedW -> TakeFix(e) [] OTHER -> TakeStr(e)
RECURSIVE Resplit(_, _)
Resplit(k, e) == IF k > Len(Order) THEN (IF e = <<>> THEN {<<>>} ELSE {})
                 ELSE UNION {{(Order[k] :> t[1]) @@ rest : rest \in Resplit(k + 1, t[2])} : t \in Take(Order[k], e)}

Diff(a, b) == {f \in Fields : a[f] # b[f]}
Colliders(r) == Resplit(1, Enc(r)) \ {r}
\* (r, c) is a composition if some d with the same encoding lies strictly between them field-wise
Irreducible(r, c, cs) == ~\E d \in cs : /\ Diff(r, d) # Diff(r, c) /\ Diff(r, d) \subseteq Diff(r, c)
                                         /\ Diff(d, c) # Diff(r, c) /\ Diff(d, c) \subseteq Diff(r, c)
\* <<class, witness>> for every irreducible collision of r
\* (cs is bound by a set comprehension so that TLC computes Colliders(r) once)
Classes(r) == UNION {{<<Diff(r, c), c>> : c \in {c \in cs : Irreducible(r, c, cs)}} : cs \in {Colliders(r)}}

RECURSIVE Join(_, _)
Join(S, k) == IF k > Len(Order) THEN ""
              ELSE (IF Order[k] \in S THEN (IF \E j \in 1..(k - 1) : Order[j] \in S THEN "," ELSE "") \o Order[k] ELSE "")
                   \o Join(S, k + 1)
ClassName(S) == "{" \o Join(S, 1) \o "}"

Init == r1 \in Rec /\ out = <<>>
Classify == /\ out = <<>>
            /\ \E cl \in {Classes(r1)} :
               /\ out' = <<Cardinality(cl)>>
               /\ IF cl = {} THEN TRUE
                  ELSE PrintT(<<"COL", ToJson([r1 |-> r1, cols |-> {[cls |-> ClassName(x[1]), r2 |-> x[2]] : x \in cl}])>>)
            /\ UNCHANGED r1
Next == Classify

\* the statement of C26 for the encoding; refuted by TLC (F11) - every refutation class is replayed
Injective == out # <<>> => out[1] = 0
\* sanity of the constructive enumeration: it finds exactly the requests with the same encoding
ResplitSound == out = <<>> => \A c \in Resplit(1, Enc(r1)) : Enc(c) = Enc(r1) /\ DOMAIN c = Fields
ResplitHasSelf == out = <<>> => r1 \in Resplit(1, Enc(r1))

\* ---- pairs the model says are different: every single-field mutation of two base requests -------
Base1 == [f \in Fields |-> CASE f = "metadata" -> <<<<<<"a">>, <<"a">>>>>> [] f = "extensions" -> <<<<"a">>>>
                             [] f \in FixedW -> "a" [] OTHER -> <<"a">>]
Base2 == [f \in Fields |-> CASE f \in FixedW -> (IF f = "request_block" THEN "a" ELSE "b") [] OTHER -> <<>>]
MutPairs == {p \in UNION {{[r1 |-> b, r2 |-> [b EXCEPT ![f] = v]] : v \in Dom(f)} : b \in {Base1, Base2}, f \in Fields} :
               Enc(p.r1) # Enc(p.r2)}

\* ---- requests with 2-3 metadata entries: one component (name or value) of an EARLIER entry replaced by a
\* different string of the same length; later entries have short names and longer values.  The model says
\* every such pair hashes differently (the bytes of every entry are part of Enc).
S1 == {<<"a">>, <<"b">>}
S2 == {<<"a", "b">>, <<"b", "a">>}
S3 == {<<"a", "b", "a">>, <<"b", "a", "b">>}
SameLen(x) == {y \in S1 \cup S2 \cup S3 : Len(y) = Len(x) /\ y # x}
Ent(ns, vs) == {<<n, v>> : n \in ns, v \in vs}
WithMd(md) == [Base2 EXCEPT !["metadata"] = md]
MutEntry(md, i) == {[md EXCEPT ![i] = <<y, md[i][2]>>] : y \in SameLen(md[i][1])} \cup
                   {[md EXCEPT ![i] = <<md[i][1], y>>] : y \in SameLen(md[i][2])}
MdLists == {<<e1, e2>> : e1 \in Ent({<<>>} \cup S1, S1 \cup S2 \cup S3), e2 \in Ent({<<>>} \cup S1, S1 \cup S2 \cup S3)} \cup
           {<<e1, e2, e3>> : e1 \in Ent({<<>>, <<"a">>}, {<<"a">>, <<"a", "b">>}), e2 \in Ent({<<>>, <<"a">>}, {<<"a">>, <<"a", "b">>}),
                             e3 \in Ent({<<>>, <<"a">>}, {<<"a">>, <<"a", "b">>})}
MdMutPairs == UNION {UNION {{[r1 |-> WithMd(md), r2 |-> WithMd(m2)] : m2 \in MutEntry(md, i)} : i \in 1..(Len(md) - 1)} : md \in MdLists}
MdMutSound == \A p \in MdMutPairs : Enc(p.r1) # Enc(p.r2)
=============================================================================
