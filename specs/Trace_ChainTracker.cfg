CONSTANTS
  N = 3
  M = 3
  MaxLen = 1000
  MaxOps = 1000
  InitLens = {1, 2, 3, 4, 5, 6}
  QD = {0}
  QA = {0}
  NodeThenPoll = FALSE
  GenHist = FALSE
INIT TInit
NEXT TNext
INVARIANTS TypeOK Shape Mirrors MirrorsHead ForkOnlyIfChanged ForkIfChanged ForkCbLogged
POSTCONDITION Post
CHECK_DEADLOCK FALSE
