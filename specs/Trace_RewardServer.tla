-------------------------- MODULE Trace_RewardServer --------------------------
(* Validation of traces recorded from the real reward server (harness/cmd/rewardserver).
   Conf mode on the observables C29 names: SendNewProof answers, the mock TxRelayPayment calls
   (which proofs, in which batch) and the RewardDB contents after every step.  The in-memory proofs
   map and the failed-retry map are not observable; they are carried by the spec.  The order of the
   proofs inside a batch (Go map iteration) and the order in which the two result handlers of one
   update run are taken from the log / existentially quantified.  The C29 invariants are evaluated
   on every accepted state. *)
EXTENDS RewardServer, IOUtils
VARIABLE l
Trace == ndJsonDeserialize(IOEnv.VERIF_TRACE)
tvars == <<vars, l>>

ToSet(s) == {s[i] : i \in 1..Len(s)}
DBSet(d) == {PF(k, d[k]) : k \in {x \in Keys : d[x] > 0}}
KeyR(r) == [e |-> r.e, c |-> r.c, s |-> r.s]
BatchOf(r, kind) == LET idx == {i \in 1..Len(r.txs) : r.txs[i].kind = kind}
                    IN IF idx = {} THEN <<>> ELSE r.txs[CHOOSE i \in idx : TRUE].proofs
TxSet(txs) == {[kind |-> txs[i].kind, ok |-> txs[i].ok, proofs |-> ToSet(txs[i].proofs)] : i \in 1..Len(txs)}

TInit == Init /\ l = 1 /\ Trace[1].ev = "reset"
TReset == /\ Trace[l + 1].ev = "reset"
          /\ mem' = [k \in Keys |-> 0] /\ db' = [k \in Keys |-> 0]
          /\ failed' = [s \in SessIds |-> NoFail] /\ calls' = calls
          /\ cur' = 0 /\ ear' = 0 /\ life' = 1
          /\ subs' = [p \in Proofs |-> 0] /\ best' = [k \in Keys |-> 0] /\ okd' = {}
          /\ out' = NoOut /\ nops' = 0 /\ hist' = <<>>
Step(r) ==
  \/ /\ r.ev = "proof" /\ Proof(KeyR(r), r.cu)
     /\ out'.existing = r.existing /\ out'.updated = r.updated
  \/ r.ev = "snap" /\ Snap
  \/ /\ r.ev = "update"
     /\ Len(r.txs) <= 2
     /\ \E firstNew \in BOOLEAN :
          Update(r.cur, r.ear, r.okNew, r.okRetry, BatchOf(r, "new"), BatchOf(r, "retry"), firstNew)
     /\ TxSet(r.txs) = {[kind |-> out'.txs[i].kind, ok |-> out'.txs[i].ok, proofs |-> out'.txs[i].proofs] : i \in 1..Len(out'.txs)}
     /\ Len(r.txs) = Len(out'.txs)
  \/ r.ev = "paid" /\ Paid(PF(KeyR(r), r.cu))
  \/ r.ev = "restart" /\ Restart
TNext == /\ l < Len(Trace) /\ l' = l + 1
         /\ LET r == Trace[l + 1] IN
              /\ ~r.panic
              /\ \/ TReset
                 \/ (r.ev # "reset" /\ nops' = nops + 1 /\ Step(r))
              /\ ToSet(r.db) = DBSet(db')
TSpec == TInit /\ [][TNext]_tvars

Post == LET d == TLCGet("stats").diameter IN PrintT(<<"HWM", d>>) /\ d = Len(Trace)
=============================================================================
