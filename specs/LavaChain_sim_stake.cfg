CONSTANTS
  Consumers = {"C1", "C2"}
  Providers = {"P1", "P2", "P3"}
  Validators = {"VA1", "VA2"}
  Delegators = {"D1", "D2"}
  Specs = {"S1", "S2"}
  Plans = {"PL1", "PL2"}
  MaxOps = 60
  GenHist = TRUE
  FixRenew = TRUE
  Bias = "stake"
  T0 = 2264761
  H0 = 50
  McKinds = {}
INIT Init
NEXT GenNext
INVARIANTS Emit
CHECK_DEADLOCK FALSE
