-------------------------- MODULE Trace_RewardSplit --------------------------
(* Validation of the vectors recorded from the real Keeper.RewardProvidersAndDelegators
   (harness/t/rewardsplit): one line = one call = inputs (reward per denomination, the *real* credits of the
   self delegation and of the delegators, commission, contributors) + real outputs (change of every
   DelegatorReward record, contributor balance changes, sender / dualstaking module balance changes, returned
   provider reward).  Obs: the clauses of C08 are evaluated by TLC on the real outputs, per denomination;
   in the same pass the outputs are compared with Split (the transcription).  Everything is reported per
   signature (PrintT "VIOL") so that one failing clause never hides another. *)
EXTENDS RewardSplit, IOUtils
VARIABLE l
Trace == ndJsonDeserialize(IOEnv.VERIF_TRACE)
tvars == <<vars, l>>

Load(r) == /\ R' = r.R[1] /\ S' = r.S /\ D' = r.D /\ C' = r.C /\ N' = r.N /\ PP' = r.PP
TInit == /\ l = 1 /\ R = Trace[1].R[1] /\ S = Trace[1].S /\ D = Trace[1].D /\ C = Trace[1].C /\ N = Trace[1].N /\ PP = Trace[1].PP
TNext == l < Len(Trace) /\ l' = l + 1 /\ Load(Trace[l + 1])

Viol(sig) == PrintT(<<"VIOL", l, sig>>)
AllEqual(s, v) == \A i \in 1..Len(s) : s[i] = v
CheckDenom(r, j) ==
  LET rw == r.R[j]
      oc == [contribTotal |-> SumSeq(r.con[j]), prov |-> r.prov[j], dels |-> r.dels[j]]
      x == Split(rw, r.S, r.D, r.C, r.N, r.PP)
  IN /\ Conserves(rw, oc) \/ Viol("conserve")
     /\ (r.sender[j] = rw /\ r.module[j] = oc.prov + SumSeq(oc.dels) /\ r.ret[j] = oc.prov) \/ Viol("bank-vs-records")
     /\ NonNegative(oc) \/ Viol("negative")
     /\ DelegatorShares(rw, r.S, r.D, r.C, oc) \/ Viol("delegator-share")
     /\ ProviderShare(rw, r.S, r.D, r.C, oc) \/ Viol("provider-share")
     /\ FullCommission(rw, r.C, oc) \/ Viol("commission100")
     /\ (ContribBound(rw, r.N, r.PP, oc) /\ AllEqual(r.con[j], ContribEach(rw, r.N, r.PP))) \/ Viol("contributors")
     /\ (oc.prov = x.prov /\ oc.dels = x.dels /\ oc.contribTotal = x.contribTotal) \/ Viol("conf")
Report ==
  LET r == Trace[l] IN
  /\ (r.ok /\ ~r.panic) \/ Viol(IF r.panic THEN "panic" ELSE "error")
  /\ (r.S = r.wantS /\ r.D = r.wantD) \/ PrintT(<<"SETUP", l>>)    \* the driver failed to produce the wanted credits
  /\ (~(r.ok /\ ~r.panic)) \/ (CheckDenom(r, 1) /\ CheckDenom(r, 2))

Post == LET dm == TLCGet("stats").diameter IN PrintT(<<"HWM", dm>>) /\ dm = Len(Trace)
=============================================================================
