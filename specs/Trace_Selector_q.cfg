CONSTANTS
  NP = 3
  MaxK = 8
  GenHist = FALSE
  KSet = {0}
  NA = 3
  NL = 3
  NS = 3
  NK = 2
  Strategies = {0}
  Adaptive = {0}
INIT TInit
NEXT TNext
INVARIANTS ConfFilter ConfInterval ConfDraw ObsValid ObsWeights ObsLattice ObsRange
POSTCONDITION Post
CHECK_DEADLOCK FALSE
