CONSTANTS
  ProvSeq <- PS4
  EB = 20
  NC = 2
  NS = 8
  REC = 3
  MinProv = 3
  SOFT = 3600
  HARD = 86400
  SOFTEP = 2
  MEM = 10
  DTs = {1200, 6000, 40000}
  CUs = {3, 24, 30, 36}
  Ep0 = 0
  T0 = 0
  A0 = 0
  FixedServ = TRUE
  MaxEp = 100000000
  MaxPay = 100000000
  MaxOps = 0
  GenHist = FALSE
INIT TInit
NEXT TNext
INVARIANTS TypeOK
PROPERTIES T_HistoryLong T_NoDouble T_Escalation T_MinProviders T_EntryStep T_Justified
POSTCONDITION Post
CHECK_DEADLOCK FALSE
