CONSTANTS
  Years = {2024, 2025}
  Secs = {0, 3661, 86399}
INIT Init
NEXT Next
INVARIANTS Emit Valid
CHECK_DEADLOCK FALSE
