--------------------------- MODULE Trace_Reputation ---------------------------
(* Obs-mode validation of traces recorded from the real chain (harness/t/reputation); decides C24.
   The next state is what the chain logged.  Pairing scores and QoS scores are LegacyDec values: the log
   carries them scaled (x10^6, floor, clamped) for information and carries the comparisons that the
   properties need (score of p vs q, pairing score of p vs q, pairing score vs min / max) computed on the
   real decimals, so that rounding of the log never decides.  `o` is the logged line. *)
EXTENDS Reputation, IOUtils
VARIABLES l, o
Trace == ndJsonDeserialize(IOEnv.VERIF_TRACE)
tvars == <<vars, l, o>>
ToSet(s) == {s[i] : i \in 1..Len(s)}

Proj(r) == /\ o' = r
           /\ ps' = [p \in Provs |-> IF r.found[p] THEN r.ps[p] \div 1000 ELSE 0]
           /\ rep' = [p \in Provs |-> [sn |-> r.qos[p], sd |-> 1000000, en |-> 0, ed |-> 0, stake |-> 0, has |-> r.has[p]]]
           /\ upd' = ToSet(r.upd) /\ last' = r.ev
           /\ UNCHANGED <<nrep, nep, nops, hist>>
Sane(r) == ~r.panic /\ (r.ev \in {"epoch", "reset"} => r.ises)

TInit == /\ l = 1 /\ Trace[1].ev = "reset" /\ Sane(Trace[1]) /\ o = Trace[1]
         /\ ps = [p \in Provs |-> 0] /\ rep = [p \in Provs |-> None] /\ upd = {} /\ last = "reset"
         /\ nrep = 0 /\ nep = 0 /\ nops = 0 /\ hist = <<>>
TNext == /\ l < Len(Trace) /\ l' = l + 1 /\ Sane(Trace[l + 1]) /\ Proj(Trace[l + 1])

\* (1) every pairing score lies between the configured minimum and maximum (real decimals compared by the driver;
\*     the scaled value must agree)
T_Bounded == \A p \in Provs : o.found[p] =>
               /\ o.gemin[p] /\ o.lemax[p] /\ ps[p] >= MINPS /\ ps[p] <= MAXPS
\* (2) same chain/cluster, updated at the same epoch start: better (lower) QoS score => pairing score not lower
T_Order == o.ev = "epoch" =>
             \A p, q \in upd : (o.cluster[p] = o.cluster[q] /\ o.cmp[p][q] = -1) =>
                 (o.found[p] /\ o.found[q] /\ o.pcmp[p][q] \in {0, 1})
\* (3) stored reputations validate after the decay of an epoch start (and at every other state)
T_Valid == \A p \in Provs : o.has[p] => o.valid[p]
\* every provider updated at an epoch start has a pairing score
T_Scored == o.ev = "epoch" => \A p \in upd : o.found[p]
\* pairing scores change only at epoch starts, for updated providers
T_PsStep == [][(last' # "reset" /\ \E p \in Provs : ps'[p] # ps[p]) =>
                 (last' = "epoch" /\ \A p \in Provs : ps'[p] # ps[p] => p \in upd')]_tvars

Post == LET d == TLCGet("stats").diameter IN PrintT(<<"HWM", d>>) /\ d = Len(Trace)
=============================================================================
