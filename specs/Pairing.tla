------------------------------- MODULE Pairing -------------------------------
(* x/pairing: how a consumer's provider list ("pairing") is computed for one chain and one epoch.

   Code transcribed (file : function -> operator):
     keeper/pairing.go          GetProjectStrictestPolicy, CalculateEffective*      -> EffPolicies, EffGeo, EffMax, EffMode, EffSel
     x/plans/types/policy.go    GetStrictestChainPolicyForSpec + lavaslices.UnionByFunc -> FoldReqs  (Go map order = explicit choice)
     keeper/filters/*.go        initFilters, SelectedProvidersFilter, FrozenProvidersFilter, AddonFilter.InitFilter (first-writer-wins
                                sub filters, sorted keys), isRequirementSupported, SetupScores, CalculateMixFilterSlots
                                                                                     -> MandatoryPass, MixFilters, MixSlotsOf, SlotFiltering, Scores
     keeper/scores/score.go     CalcSlots, GroupSlots, CalcPairingScore, PickProviders, CalculateTotalScoresForGroup,
                                Add/RemoveProviderFromSelection                     -> PolicyGeos, Groups, ScoreNum, EffTotal, PickOne
     keeper/scores/geo_req.go   GeoReq.Score, CalcGeoLatency, GEO_LATENCY_MAP        -> Lat, MinLat, CostNum
     keeper/scores/stake_req.go StakeReq.Score                                       -> StakeScore
     keeper/pairing.go          getPairingForClient (early return when slots >= providers, group loop) -> PairingFor / the Pick action
     keeper/pairing.go          ValidatePairingForClient / grpc_query_verify_pairing -> Verify action

   Every place where the code iterates a Go map and the order can leak is an explicit choice:
     * UnionByFunc          : any permutation of the merged requirements (FoldReqs)  - LEAKS into InitFilter (finding F7)
     * AddonFilter.InitFilter's mixFilters map : the code sorts the keys (SubOrder = "sorted"); SubOrder = "any" is the hazard
                              model (any permutation) - the position of a sub filter decides which pairing slot it restricts
     * lavaslices.Intersection : order of the effective selected list               - used as a set only (modelled as a set)
     * isRequirementSupported / requirement map : conjunction, order free
     * ScoreComponents product : two commuting factors (stake, geo), order free

   Scores are LegacyDec in the code.  Here a score is the integer numerator over the common denominator Den:
   cost(latency) = 10000/latency = CostNum/Den with CostNum = 10000*Den \div latency (must divide, see CostNum);
   RoundInt64 of a sum = Round.  With Den odd no sum of scores is ever half-way, and the 18-digit truncation of the code's
   10000/latency is far below 1/(2*Den), so Round is exactly the code's RoundInt64 (assumption recorded in the check). *)
EXTENDS Integers, Sequences, FiniteSets, TLC, Json, Randomization

CONSTANTS NP,        \* providers per generated configuration
          Stakes,    \* stake values
          GeoSets,   \* provider / policy geolocation sets used by the generators (sets of single bits)
          PolGeoSets,\* model checking: policy geolocation sets
          McMixed,   \* model checking: values of the `mixed` flag of the plan requirement
          McMoreSel, \* model checking: TRUE adds the <<mode, selected set>> pairs <<MIXED, {}>> and <<EXCLUSIVE, {1}>>
          Kinds,     \* service kinds of a provider per interface: bit0 add-on "a", bit1 extension "e", bit2 add-on "b", bit3 ext "f"
          CostBase,  \* 10000 in the code (maxGeoLatency); small in abstract model-checking configs
          Den,       \* common denominator of geo costs (odd)
          MaxSlots,  \* largest MaxProvidersToPair
          GenN,      \* generator: number of configurations
          SubOrder,  \* "sorted" | "any" : order in which AddonFilter.InitFilter returns its sub mix filters (a Go map; the code sorts the keys)
          UnionMode, \* "any" | "firstseen" : order of lavaslices.UnionByFunc
          Mode       \* "mc" exhaustive model checking | "gen" configuration generator | "trace"

VARIABLES cfg,     \* [id, prov: Seq of [stake, geo, st, kx, ky], plan, sub, admin : policy]   (the input)
          tab,     \* stake table of the epoch as the keeper returns it (TabOf(cfg) in the model, logged in traces)
          phase,   \* "start" | "eff" | "pick" | "done" | "verified" | "err"
          eff,     \* effective policy chosen by ComputeEffective
          skip,    \* positions (in Scores) already picked
          out,     \* pairing list so far (provider numbers)
          grp,     \* current slot group (1-based)
          pos,     \* position inside the group's index list (1-based)
          ver,     \* answers of Verify per provider
          sub      \* sub mix filters of the add-on filter in the order InitFilter returned them (chosen by SetupScores)

vars == <<cfg, tab, phase, eff, skip, out, grp, pos, ver, sub>>

\* every string that can be a sub-filter key (add-on or extension name), in Go sort.Strings order
StrOrd == <<"", "a", "b", "e", "f", "x", "y">>

------------------------------------------------------------------------------
(* generic helpers *)
ToSet(s) == {s[i] : i \in 1..Len(s)}
Rev(s) == [i \in 1..Len(s) |-> s[Len(s) + 1 - i]]
RECURSIVE SumSet(_, _)
SumSet(f, S) == IF S = {} THEN 0 ELSE LET x == CHOOSE y \in S : TRUE IN f[x] + SumSet(f, S \ {x})
MinSet(S) == CHOOSE x \in S : \A y \in S : x <= y
MaxSet(S) == CHOOSE x \in S : \A y \in S : x >= y
Perms(S) == {f \in [1..Cardinality(S) -> S] : \A i, j \in 1..Cardinality(S) : i # j => f[i] # f[j]}
Rank(s) == CHOOSE i \in 1..Len(StrOrd) : StrOrd[i] = s
SortedInts(S) == [i \in 1..Cardinality(S) |-> CHOOSE k \in S : Cardinality({x \in S : x < k}) = i - 1]
SortedStrs(S) == [i \in 1..Cardinality(S) |-> CHOOSE k \in S : Cardinality({x \in S : Rank(x) < Rank(k)}) = i - 1]

------------------------------------------------------------------------------
(* policies:  [on, gl, geo (set of bits), max, mode (0 ALLOWED 1 MIXED 2 EXCLUSIVE 3 DISABLED), sel (set of provider numbers),
              reqs (Seq of [ifc, ad, ext (Seq), mx])] *)
NoPolicy == [on |-> FALSE, gl |-> FALSE, geo |-> {}, max |-> 0, mode |-> 0, sel |-> {}, reqs |-> <<>>]
ActivePols(c) == SelectSeq(<<c.plan, c.sub, c.admin>>, LAMBDA p : p.on)
AllGeoBits == {1, 2, 4, 8, 16, 32, 64}
AllGeoSeq == <<1, 2, 4, 8, 16, 32, 64>>

\* CalculateEffectiveGeolocationFromPolicies: a policy with geolocation 0 (GLS) makes the result GL at once; otherwise bitwise AND
EffGeo(ps) ==
  IF \E i \in 1..Len(ps) : ~ps[i].gl /\ ps[i].geo = {} THEN [gl |-> TRUE, geo |-> AllGeoBits, err |-> FALSE]
  ELSE LET allgl == \A i \in 1..Len(ps) : ps[i].gl
           bits == {b \in AllGeoBits : \A i \in 1..Len(ps) : ps[i].gl \/ b \in ps[i].geo}
       IN [gl |-> allgl, geo |-> bits, err |-> bits = {}]
EffMax(ps) == MinSet({ps[i].max : i \in 1..Len(ps)})
EffMode(ps) == MaxSet({ps[i].mode : i \in 1..Len(ps)})
\* CalculateEffectiveSelectedProviders: lists of EXCLUSIVE/MIXED policies with a non-empty list are intersected
EffSel(ps) == LET L == {i \in 1..Len(ps) : ps[i].mode \in {1, 2} /\ ps[i].sel # {}} IN
              IF L = {} THEN {} ELSE {p \in UNION {ps[i].sel : i \in L} : \A i \in L : p \in ps[i].sel}

\* GetStrictestChainPolicyForSpec: first non-empty requirement list is taken as is, every further one is merged with
\* lavaslices.UnionByFunc, which returns the merged elements in Go map order = any order.
\* UnionMode = "any": the order is Go's map order (the code as found);  "firstseen": the repaired UnionByFunc keeps the order of
\* first appearance in its arguments (fixes/F7_union_order.patch)
FirstSeen(q) == LET idx == {i \in 1..Len(q) : \A j \in 1..(i - 1) : q[j] # q[i]} IN [k \in 1..Cardinality(idx) |-> q[SortedInts(idx)[k]]]
RECURSIVE FoldReqs(_, _)
FoldReqs(rs, R) ==
  IF rs = <<>> THEN {R}
  ELSE LET r == Head(rs) IN
       IF r = <<>> THEN FoldReqs(Tail(rs), R)
       ELSE IF R = <<>> THEN FoldReqs(Tail(rs), r)
       ELSE IF UnionMode = "firstseen" THEN FoldReqs(Tail(rs), FirstSeen(r \o R))
       ELSE UNION {FoldReqs(Tail(rs), o) : o \in Perms(ToSet(r) \cup ToSet(R))}
ReqOrders(ps) == FoldReqs([i \in 1..Len(ps) |-> ps[i].reqs], <<>>)

EffWith(ps, reqs) == LET g == EffGeo(ps) IN
  [err |-> g.err, gl |-> g.gl, geo |-> g.geo, max |-> EffMax(ps), mode |-> EffMode(ps), sel |-> EffSel(ps), reqs |-> reqs]
EffPolicies(c) == {EffWith(ActivePols(c), o) : o \in ReqOrders(ActivePols(c))}

------------------------------------------------------------------------------
(* stake table rows: [p, stake, geo (set), gl, ok (StakeAppliedBlock <= epoch), svc (set of <<ifc, addon, ext>>)], in the
   order the keeper returns them (ascending stake) *)

(* filters *)
HasDiff(r) == r.ifc # ""
AddonActive(reqs) == \E i \in 1..Len(reqs) : HasDiff(reqs[i])
AddonMix(reqs) == \E i \in 1..Len(reqs) : reqs[i].mx
\* full requirement of the addon filter: collection -> union of required extensions   (as a set of <<collection, extensions>>)
MainReq(reqs) == LET I == {i \in 1..Len(reqs) : HasDiff(reqs[i])}
                     C == {<<reqs[i].ifc, reqs[i].ad>> : i \in I} IN
                 {<<c, UNION {ToSet(reqs[i].ext) : i \in {j \in I : <<reqs[j].ifc, reqs[j].ad>> = c}}>> : c \in C}
\* isRequirementSupported
Supports(rm, svc) == \A ce \in rm :
  LET c == ce[1]  E == ce[2]
      M == {s \in svc : (s[2] = c[2] /\ s[1] = c[1]) \/ (s[1] = c[1] /\ c[2] = s[1] /\ s[2] = "")}
  IN M # {} /\ Cardinality({s[3] : s \in M} \cap E) >= Cardinality(E)
\* AddonFilter.InitFilter: writes into the map of sub mix filters, in requirement order, first writer of a key wins
Writes(reqs) == LET I == {i \in 1..Len(reqs) : HasDiff(reqs[i]) /\ reqs[i].mx} IN
  UNION {UNION {{[i |-> i, j |-> j, t |-> 1, key |-> reqs[i].ad, rm |-> {<<<<reqs[i].ifc, reqs[i].ad>>, {""}>>}],
                 [i |-> i, j |-> j, t |-> 2, key |-> reqs[i].ext[j], rm |-> {<<<<reqs[i].ifc, "">>, {reqs[i].ext[j]}>>}]}
                : j \in 1..Len(reqs[i].ext)} : i \in I}
Before(a, b) == a.i < b.i \/ (a.i = b.i /\ (a.j < b.j \/ (a.j = b.j /\ a.t < b.t)))
FirstWrite(W, k) == LET Wk == {w \in W : w.key = k} IN CHOOSE w \in Wk : \A v \in Wk : v = w \/ Before(w, v)
SubFilters(reqs) == LET W == Writes(reqs)  ks == SortedStrs({w.key : w \in W}) IN
                    [n \in 1..Len(ks) |-> [t |-> "rm", rm |-> FirstWrite(W, ks[n]).rm]]
\* the sub filters are collected in a Go map; the code returns them in sorted key order.  SubOrder = "any": every order.
SubFilterOrders(reqs) == IF SubOrder = "sorted" THEN {SubFilters(reqs)}
                         ELSE LET W == Writes(reqs) IN
                              {[n \in 1..Len(o) |-> [t |-> "rm", rm |-> FirstWrite(W, o[n]).rm]] : o \in Perms({w.key : w \in W})}
SelPass(e, row) == row.p \in e.sel
\* mandatory filters: frozen (always), selected providers when EXCLUSIVE, the full addon requirement when no requirement is mixed
MandatoryPass(e, row) == /\ row.ok
                         /\ (e.mode = 2 => SelPass(e, row))
                         /\ ((AddonActive(e.reqs) /\ ~AddonMix(e.reqs)) => Supports(MainReq(e.reqs), row.svc))
\* mix filters in the order SetupScores sees them
\* (sb = the add-on filter's sub mix filters in the order InitFilter returned them)
MixFiltersWith(e, sb) == (IF e.mode = 1 THEN <<[t |-> "sel", rm |-> {}]>> ELSE <<>>) \o
                         (IF AddonActive(e.reqs) /\ AddonMix(e.reqs)
                            THEN <<[t |-> "rm", rm |-> MainReq(e.reqs)]>> \o sb ELSE <<>>)
MixFilters(e) == MixFiltersWith(e, SubFilters(e.reqs))
MixPass(e, f, row) == IF f.t = "sel" THEN SelPass(e, row) ELSE Supports(f.rm, row.svc)
\* CalculateMixFilterSlots: slots (0-based) in which mix filter number fi (1-based) of cnt is applied, n slots
MixSlotsOf(cnt, n, fi) ==
  IF n <= 1 \/ cnt = 0 THEN {}
  ELSE LET fib == (cnt + n - 2) \div (n - 1)
           pib == n \div ((cnt \div fib) + 1)
       IN {i \in 0..(n - 1) : i >= pib /\ LET start == ((i \div pib) - 1) * fib IN
                                             start + fib <= cnt /\ fi - 1 >= start /\ fi - 1 < start + fib}
SlotFiltering(e, sb, row) == LET mf == MixFiltersWith(e, sb) IN
  UNION {MixSlotsOf(Len(mf), e.max, fi) : fi \in {k \in 1..Len(mf) : ~MixPass(e, mf[k], row)}}
\* SetupScores: surviving providers in reverse table order, each with its slot filtering
ScoresWith(e, tb, sb) == LET s == Rev(SelectSeq(tb, LAMBDA row : MandatoryPass(e, row))) IN
                  [i \in 1..Len(s) |-> [p |-> s[i].p, stake |-> s[i].stake, geo |-> s[i].geo, gl |-> s[i].gl,
                                         sf |-> SlotFiltering(e, sb, s[i])]]
Scores(e, tb) == ScoresWith(e, tb, SubFilters(e.reqs))       \* the code as found: sorted keys
Eligible(e, tb) == {tb[i].p : i \in {k \in 1..Len(tb) : MandatoryPass(e, tb[k])}}

------------------------------------------------------------------------------
(* slots and groups *)
PolicyGeos(e) == IF e.gl THEN AllGeoSeq ELSE SortedInts(e.geo)
NGroups(e) == IF Len(PolicyGeos(e)) < e.max THEN Len(PolicyGeos(e)) ELSE e.max
GroupGeo(e, g) == PolicyGeos(e)[g]
GroupIdx(e, g) == SortedInts({i \in 0..(e.max - 1) : i % Len(PolicyGeos(e)) = g - 1})

(* scores *)
LatTab == [x \in {32, 4, 8, 1, 2, 16, 64} |->
            CASE x = 32 -> [y \in {64, 2} |-> IF y = 64 THEN 146 ELSE 155]
              [] x = 4  -> [y \in {1, 8, 2} |-> IF y = 1 THEN 42 ELSE IF y = 8 THEN 68 ELSE 116]
              [] x = 8  -> [y \in {1, 4} |-> IF y = 1 THEN 45 ELSE 68]
              [] x = 1  -> [y \in {4, 8, 2} |-> IF y = 4 THEN 42 ELSE IF y = 8 THEN 45 ELSE 170]
              [] x = 2  -> [y \in {4, 16, 32, 1} |-> IF y = 4 THEN 116 ELSE IF y = 16 THEN 138 ELSE IF y = 32 THEN 155 ELSE 170]
              [] x = 16 -> [y \in {2, 4, 32} |-> IF y = 2 THEN 138 ELSE IF y = 4 THEN 203 ELSE 263]
              [] x = 64 -> [y \in {32, 8} |-> IF y = 32 THEN 146 ELSE 179]]
Lat(req, pg) == IF pg \in DOMAIN LatTab[req] THEN LatTab[req][pg] ELSE 10000
\* minLatency starts at maxGeoLatency (= CostBase = 10000 in the code; abstract configs cap at their small CostBase)
MinLat(req, geos) == MinSet({CostBase} \cup {Lat(req, pg) : pg \in geos})
Representable(lat) == (CostBase * Den) % lat = 0
CostNum(req, row) == IF row.gl \/ req \in row.geo THEN CostBase * Den
                     ELSE (CostBase * Den) \div MinLat(req, row.geo)
CostOK(req, row) == row.gl \/ req \in row.geo \/ Representable(MinLat(req, row.geo))
StakeScore(row) == IF row.stake > 0 THEN row.stake ELSE 1
ScoreNum(req, row) == StakeScore(row) * CostNum(req, row)
Round(x) == (2 * x + Den) \div (2 * Den)

(* PickProviders for one slot.  sc = Scores, req = geo of the group, sk = picked positions, gi = slot index *)
Unskipped(sc, sk) == {i \in 1..Len(sc) : i \notin sk}
Total(sc, req, sk) == SumSet([i \in 1..Len(sc) |-> ScoreNum(req, sc[i])], Unskipped(sc, sk))
Neg(sc, req, sk, gi) == SumSet([i \in 1..Len(sc) |-> ScoreNum(req, sc[i])], {i \in Unskipped(sc, sk) : gi \in sc[i].sf})
\* no provider possible for this slot's mix filters -> slot -1 (no filtering)
EffGi(sc, req, sk, gi) == IF Total(sc, req, sk) - Neg(sc, req, sk, gi) = 0 THEN -1 ELSE gi
ValidSet(sc, req, sk, gi) == {i \in Unskipped(sc, sk) : EffGi(sc, req, sk, gi) \notin sc[i].sf}
EffTotal(sc, req, sk, gi) == SumSet([i \in 1..Len(sc) |-> ScoreNum(req, sc[i])], ValidSet(sc, req, sk, gi))
SumFrom(sc, req, V, i) == SumSet([k \in 1..Len(sc) |-> ScoreNum(req, sc[k])], {k \in V : k >= i})
\* the interval rule: scan from the last position down, first position whose rounded running sum reaches r
\* (w = score numerators by position, V = valid positions)
PickIn(w, V, r) == CHOOSE i \in V : /\ r <= Round(SumSet(w, {k \in V : k >= i}))
                                    /\ \A j \in V : j > i => r > Round(SumSet(w, {k \in V : k >= j}))
Weights(sc, req) == [i \in 1..Len(sc) |-> ScoreNum(req, sc[i])]
PickOne(sc, req, sk, gi, r) == PickIn(Weights(sc, req), ValidSet(sc, req, sk, gi), r)
MaxR(sc, req, sk, gi) == Round(EffTotal(sc, req, sk, gi))

RECURSIVE ModLimbs(_, _, _)
ModLimbs(l, m, acc) == IF l = <<>> THEN acc ELSE ModLimbs(Tail(l), m, (acc * 128 + Head(l)) % m)

\* whole pairing as a function of the raw PRNG outputs: rng[g][k] = limbs of the k-th Int63 of rand.New(hashData(g-1))
RECURSIVE PickSlots(_, _, _, _, _, _)
PickSlots(sc, req, sk, gis, dr, o) ==
  IF gis = <<>> \/ Total(sc, req, sk) = 0 THEN [sk |-> sk, out |-> o]
  ELSE LET gi == Head(gis)
           r == ModLimbs(Head(dr), MaxR(sc, req, sk, gi), 0) + 1
           i == PickOne(sc, req, sk, gi, r)
       IN PickSlots(sc, req, sk \cup {i}, Tail(gis), Tail(dr), Append(o, sc[i].p))
RECURSIVE PickGroups(_, _, _, _, _, _)
PickGroups(e, sc, g, sk, o, rg) ==
  IF g > NGroups(e) THEN o
  ELSE LET res == PickSlots(sc, GroupGeo(e, g), sk, GroupIdx(e, g), rg[g], o)
       IN PickGroups(e, sc, g + 1, res.sk, res.out, rg)
PairingFor(e, tb, rg) == LET sc == Scores(e, tb) IN
  IF e.max >= Len(sc) THEN [i \in 1..Len(sc) |-> sc[i].p] ELSE PickGroups(e, sc, 1, {}, <<>>, rg)
CostsOK(e, tb) == \A g \in 1..NGroups(e) : \A i \in 1..Len(tb) : CostOK(GroupGeo(e, g), tb[i])

------------------------------------------------------------------------------
(* the configuration space *)
SvcOf(kx, ky) == LET S(ifc, k) == {<<ifc, ad, ex>> : ad \in {""} \cup (IF k % 2 = 1 THEN {"a"} ELSE {}) \cup (IF (k \div 4) % 2 = 1 THEN {"b"} ELSE {}),
                                                    ex \in {""} \cup (IF (k \div 2) % 2 = 1 THEN {"e"} ELSE {}) \cup (IF (k \div 8) % 2 = 1 THEN {"f"} ELSE {})}
                 IN S("x", kx) \cup S("y", ky)
\* table order of the keeper: ascending stake; ties in an arbitrary fixed order (address order on the chain; provider number here)
TabOf(c) == LET n == Len(c.prov)
                key(i) == c.prov[i].stake * 100 + i
                ord == SortedInts({key(i) : i \in 1..n}) IN
            [k \in 1..n |-> LET i == ord[k] % 100 IN
               [p |-> i, stake |-> c.prov[i].stake, geo |-> c.prov[i].geo, gl |-> FALSE, ok |-> c.prov[i].st = "ok",
                svc |-> SvcOf(c.prov[i].kx, c.prov[i].ky)]]

ProvKey(p) == p.stake * 10000 + SumSet([b \in AllGeoBits |-> b], p.geo) * 100 + p.kx * 4 + p.ky
McProv == [stake : Stakes, geo : GeoSets, st : {"ok"}, kx : Kinds, ky : {0}]
\* providers in non-decreasing key order (the pairing does not depend on provider numbering except through `sel`);
\* at most one of them frozen (fz = its number, 0 = none)
McProvSeqs == {f \in [1..NP -> McProv] : \A i \in 1..(NP - 1) : ProvKey(f[i]) <= ProvKey(f[i + 1])}
Freeze(f, fz) == [i \in 1..NP |-> IF i = fz THEN [f[i] EXCEPT !.st = "frozen"] ELSE f[i]]
McReq == {[ifc |-> "x", ad |-> "a", ext |-> <<"e">>, mx |-> m2] : m2 \in McMixed}
McPol == {[on |-> TRUE, gl |-> FALSE, geo |-> g, max |-> m, mode |-> ms[1], sel |-> ms[2], reqs |-> r] :
            g \in PolGeoSets, m \in 2..MaxSlots, ms \in {<<0, {}>>, <<1, {1, 2}>>, <<2, {2, 3}>>} \cup (IF McMoreSel THEN {<<1, {}>>, <<2, {1}>>} ELSE {}),
            r \in {<<>>} \cup {<<q>> : q \in McReq}}
\* C01 design level: plan + two project policies with one requirement each out of {x,y} x {a} x {<<>>,<<e>>} x BOOLEAN
UProv == [stake : {1}, geo : {{1}}, st : {"ok"}, kx : {0, 3}, ky : {0, 3}]
UReq == {<<>>} \cup {<<[ifc |-> i, ad |-> "a", ext |-> x, mx |-> m2]>> : i \in {"x", "y"}, x \in {<<>>, <<"e">>}, m2 \in BOOLEAN}
UPol(r) == [on |-> TRUE, gl |-> FALSE, geo |-> {1}, max |-> MaxSlots, mode |-> 0, sel |-> {}, reqs |-> r]

------------------------------------------------------------------------------
(* actions: one per stage of getPairingForClient *)
Blank == /\ phase = "start" /\ eff = [err |-> TRUE] /\ skip = {} /\ out = <<>> /\ grp = 1 /\ pos = 1 /\ ver = <<>> /\ sub = <<>>

McInit == /\ \E f \in McProvSeqs : \E fz \in {0, 1, NP} : \E pl \in McPol :
               cfg = [id |-> 0, prov |-> Freeze(f, fz), plan |-> pl, sub |-> NoPolicy, admin |-> NoPolicy]
          /\ tab = TabOf(cfg)
          /\ Blank
\* C40: plain policies (no selected providers, no requirements), all providers eligible, every stake / geo combination
C40Init == /\ \E f \in McProvSeqs : \E g \in PolGeoSets : \E m \in 2..MaxSlots :
                cfg = [id |-> 0, prov |-> f, sub |-> NoPolicy, admin |-> NoPolicy,
                       plan |-> [on |-> TRUE, gl |-> FALSE, geo |-> g, max |-> m, mode |-> 0, sel |-> {}, reqs |-> <<>>]]
           /\ tab = TabOf(cfg)
           /\ Blank
\* C01 design level, sub filter order: one mixed requirement (x, a, <<e>>) -> sub filter keys "a" and "e"; providers that
\* support neither / only the add-on / only the extension / both
SubInit == /\ cfg \in [id : {0}, prov : {f \in [1..NP -> [stake : {1}, geo : {{1}}, st : {"ok"}, kx : {0, 1, 2, 3}, ky : {0}]] :
                                                  \A i \in 1..(NP - 1) : f[i].kx <= f[i + 1].kx},
                       plan : {UPol(<<[ifc |-> "x", ad |-> "a", ext |-> <<"e">>, mx |-> TRUE]>>)}, sub : {NoPolicy}, admin : {NoPolicy}]
           /\ tab = TabOf(cfg)
           /\ Blank
UnionInit == /\ cfg \in [id : {0}, prov : {f \in [1..NP -> UProv] : \A i \in 1..(NP - 1) : ProvKey(f[i]) <= ProvKey(f[i + 1])}, plan : {UPol(<<>>)}, sub : {UPol(r) : r \in UReq}, admin : {UPol(r) : r \in UReq}]
             /\ tab = TabOf(cfg)
             /\ Blank

\* GetProjectStrictestPolicy (EffectivePolicy query): the union order is Go's map order
ComputeEffective == /\ phase = "start"
                    /\ \E e \in EffPolicies(cfg) : eff' = e /\ phase' = IF e.err THEN "err" ELSE "eff"
                    /\ UNCHANGED <<cfg, tab, skip, out, grp, pos, ver, sub>>

\* filters.SetupScores + the early return of getPairingForClient
SetupScores == /\ phase = "eff"
               /\ \E sb \in SubFilterOrders(eff.reqs) :          \* initFilters -> AddonFilter.InitFilter
                    LET sc == ScoresWith(eff, tab, sb) IN
                      /\ sub' = sb
                      /\ IF eff.max >= Len(sc)
                           THEN out' = [i \in 1..Len(sc) |-> sc[i].p] /\ phase' = "done"
                           ELSE out' = <<>> /\ phase' = "pick"
               /\ UNCHANGED <<cfg, tab, eff, skip, grp, pos, ver>>

\* one iteration of the slot loop of PickProviders (r = rng.Int63n(effective)+1 is the environment's choice)
Pick == /\ phase = "pick"
        /\ LET sc == ScoresWith(eff, tab, sub)
               req == GroupGeo(eff, grp)
               gis == GroupIdx(eff, grp)
               gi == gis[pos]
               last == pos = Len(gis) /\ grp = NGroups(eff) IN
           \E r \in 1..MaxR(sc, req, skip, gi) :
             LET i == PickOne(sc, req, skip, gi, r) IN
               /\ skip' = skip \cup {i}
               /\ out' = Append(out, sc[i].p)
               /\ IF last THEN phase' = "done" /\ UNCHANGED <<grp, pos>>
                  ELSE /\ phase' = "pick"
                       /\ IF pos = Len(gis) THEN grp' = grp + 1 /\ pos' = 1 ELSE grp' = grp /\ pos' = pos + 1
        /\ UNCHANGED <<cfg, tab, eff, ver, sub>>

\* ValidatePairingForClient recomputes the same list (same epoch hash => same r) and looks the provider up
Verify == /\ phase = "done"
          /\ ver' = [p \in 1..Len(tab) |-> p \in ToSet(out)]
          /\ phase' = "verified"
          /\ UNCHANGED <<cfg, tab, eff, skip, out, grp, pos, sub>>

Next == ComputeEffective \/ SetupScores \/ Pick \/ Verify

------------------------------------------------------------------------------
(* C02: evaluated on model states and, in Trace_Pairing (Obs mode), on the real answers *)
Finished == phase \in {"done", "verified"}
NElig == Cardinality(Eligible(eff, tab))
Valid == Finished => ToSet(out) \subseteq Eligible(eff, tab)
Distinct == Cardinality(ToSet(out)) = Len(out)
Bounded == Finished => Len(out) = (IF eff.max < NElig THEN eff.max ELSE NElig)
Iff == phase = "verified" => \A i \in 1..Len(tab) : ver[tab[i].p] <=> tab[i].p \in ToSet(out)
\* the eligible set does not depend on the union order
EligibleOrderFree == phase = "start" => \A e1, e2 \in EffPolicies(cfg) : Eligible(e1, tab) = Eligible(e2, tab)

(* C01 (design level): what SetupScores hands to PickProviders must not depend on the union order *)
OrderIndependent == phase = "start" => \A e1, e2 \in EffPolicies(cfg) : e1.err \/
                       \A s1 \in SubFilterOrders(e1.reqs), s2 \in SubFilterOrders(e2.reqs) : ScoresWith(e1, tab, s1) = ScoresWith(e2, tab, s2)

(* C40: the interval rule *)
IntervalRule == phase = "pick" =>
  LET sc == ScoresWith(eff, tab, sub)  req == GroupGeo(eff, grp)  gi == GroupIdx(eff, grp)[pos]
      V == ValidSet(sc, req, skip, gi)  w == Weights(sc, req)  m == Round(SumSet(w, V)) IN
  \E pk \in {[r \in 1..m |-> PickIn(w, V, r)]} :
    LET cnt(i) == Cardinality({r \in 1..m : pk[r] = i}) IN
    /\ m >= 1 /\ m = MaxR(sc, req, skip, gi)
    /\ \A r \in 1..m : pk[r] \in V                                \* every draw picks a valid, unpicked provider
    /\ \A i \in V : cnt(i) >= 1                                    \* no zero chance
    /\ \A i \in V : cnt(i) * Den - w[i] < Den /\ w[i] - cnt(i) * Den < Den     \* |cnt - score| < 1
    /\ (Den = 1 => \A i \in V : cnt(i) = w[i])                      \* exact proportionality

TypeOK == /\ phase \in {"start", "eff", "pick", "done", "verified", "err"}
          /\ skip \subseteq 1..NP /\ Len(out) <= NP

------------------------------------------------------------------------------
(* generator: GenN random configurations, one initial state each (emitted by EmitCfg).
   Random values are bound through singleton sets so that every draw is evaluated exactly once. *)
Bind(S) == CHOOSE x \in S : TRUE
OneOf(q) == q[RandomElement(1..Len(q))]     \* weighted choice (a set would collapse duplicates)
RandSub(S) == Bind({IF n = 0 THEN {} ELSE RandomSubset(n, S) : n \in {RandomElement(0..Cardinality(S))}})
\* (a dummy parameter keeps TLC from folding these into constants)
GenReq(z) == [ifc |-> RandomElement({"x", "y"}), ad |-> OneOf(<<"a", "a", "a", "b", "">>),
              ext |-> OneOf(<< <<>>, <<"e">>, <<"e">>, <<"e", "f">> >>), mx |-> OneOf(<<TRUE, TRUE, FALSE>>)]
GenReqs(z) == Bind({IF n = 0 THEN <<>> ELSE IF n = 1 THEN <<GenReq(z)>> ELSE <<GenReq(z), GenReq(z + 1)>> : n \in {OneOf(<<0, 0, 1, 1, 1, 2>>)}})
GenPol(plan) == Bind({[on |-> TRUE, gl |-> FALSE, geo |-> RandomElement(GeoSets), max |-> RandomElement(2..MaxSlots), mode |-> md,
                       sel |-> IF md \in {1, 2} THEN RandSub(1..NP) ELSE {}, reqs |-> GenReqs(md)]
                      : md \in {IF plan THEN OneOf(<<0, 0, 1, 2, 3>>) ELSE OneOf(<<0, 0, 1, 2>>)}})
GenProv(z) == [stake |-> RandomElement(Stakes), geo |-> RandomElement(GeoSets),
               st |-> OneOf(<<"ok", "ok", "ok", "ok", "ok", "frozen", "future", "jailed">>),
               kx |-> RandomElement(Kinds), ky |-> RandomElement(Kinds)]
GenCfg(n) == [id |-> n, prov |-> [i \in 1..NP |-> GenProv(i)], plan |-> GenPol(TRUE),
              sub |-> IF RandomElement({0, 1, 2}) = 0 THEN NoPolicy ELSE GenPol(FALSE),
              admin |-> IF RandomElement({0, 1, 2}) = 0 THEN NoPolicy ELSE GenPol(FALSE)]
\* bias for C01: plan + two project policies whose requirements share an add-on but differ in API interface, >= 4 slots
GenCfgUnion(n) == Bind({
  [c EXCEPT !.plan.max = pm, !.plan.reqs = <<>>,
            !.sub = [s EXCEPT !.max = MaxSlots, !.reqs = <<[ifc |-> IF flip THEN "x" ELSE "y", ad |-> "a", ext |-> <<"e">>, mx |-> TRUE]>>],
            !.admin = [a EXCEPT !.max = MaxSlots, !.reqs = <<[ifc |-> IF flip THEN "y" ELSE "x", ad |-> "a", ext |-> <<"e">>, mx |-> TRUE]>>]]
  : c \in {GenCfg(n)}, s \in {GenPol(FALSE)}, a \in {GenPol(FALSE)}, flip \in {RandomElement({TRUE, FALSE})}, pm \in {RandomElement(4..MaxSlots)}})
\* bias for C40: no mix filters, few slots, so that weighted draws happen in most queries
GenCfgPlain(n) == Bind({
  [c EXCEPT !.plan = [@ EXCEPT !.mode = 0, !.sel = {}, !.reqs = <<>>, !.max = pm], !.sub = NoPolicy,
            !.admin = IF coin THEN NoPolicy ELSE [a EXCEPT !.mode = 0, !.sel = {}, !.reqs = <<>>],
            !.prov = [i \in 1..NP |-> IF i = fz THEN c.prov[i] ELSE [c.prov[i] EXCEPT !.st = "ok"]]]
  : c \in {GenCfg(n)}, a \in {GenPol(FALSE)}, coin \in {RandomElement({TRUE, FALSE})}, pm \in {RandomElement(2..3)}, fz \in {RandomElement(1..NP)}})
\* bias for C01 (sub filter order): one mixed requirement with 2-3 sub filter keys (add-on + extensions), providers that
\* differ in which of them they support, all eligible, fewer slots than providers
HetKinds == <<0, 1, 2, 3, 8, 9, 10, 11, 1, 2, 8>>
GenCfgMixKeys(n) == Bind({
  [c EXCEPT !.plan = [@ EXCEPT !.mode = 0, !.sel = {}, !.max = pm,
                               !.reqs = <<[ifc |-> ifc, ad |-> OneOf(<<"a", "a", "">>), ext |-> OneOf(<< <<"e", "f">>, <<"e", "f">>, <<"e">> >>), mx |-> TRUE]>>],
            !.sub = NoPolicy,
            !.admin = IF coin THEN NoPolicy ELSE [a EXCEPT !.mode = 0, !.sel = {}, !.reqs = <<>>, !.max = MaxSlots, !.geo = c.plan.geo],
            !.prov = [i \in 1..NP |-> [c.prov[i] EXCEPT !.st = "ok", !.kx = IF ifc = "x" THEN OneOf(HetKinds) ELSE @,
                                                        !.ky = IF ifc = "y" THEN OneOf(HetKinds) ELSE @]]]
  : c \in {GenCfg(n)}, a \in {GenPol(FALSE)}, coin \in {RandomElement({TRUE, FALSE})}, pm \in {RandomElement(3..4)}, ifc \in {RandomElement({"x", "y"})}})
\* bias for C40 (interval boundaries): DUST scores.  Stakes of 1..3 ulava and a provider geolocation (AS) that is not a neighbour
\* of the policy geolocation (USC / USE), so geo score = 1 and score = stake: the draws r land on interval boundaries all the time
\* and every provider owns only 1..3 values of r.  Even n: one ordinary provider (large score) in front, so that the second slot
\* is drawn among dust providers only.  3-4 providers, 2 slots (MaxProvidersToPair = 1 is rejected by policy validation).
DustProv(z) == [stake |-> OneOf(<<1, 1, 2, 2, 3>>), geo |-> {32}, st |-> "ok", kx |-> 0, ky |-> 0]
OneProv == [stake |-> 1, geo |-> {32}, st |-> "ok", kx |-> 0, ky |-> 0]
\* n % 4 = 1: three random dust providers; n % 4 = 3: three or four providers of stake 1 (all scores = 1: the provider visited last by
\* the cumulative scan owns exactly one value of r); even n: one ordinary provider + dust
GenCfgDust(n) == Bind({
  [id |-> n,
   prov |-> (IF n % 2 = 0 THEN <<[stake |-> RandomElement(Stakes), geo |-> g, st |-> "ok", kx |-> 0, ky |-> 0]>> ELSE <<>>)
            \o [i \in 1..k |-> IF n % 4 = 3 THEN OneProv ELSE DustProv(i)],
   plan |-> [on |-> TRUE, gl |-> FALSE, geo |-> g, max |-> 2, mode |-> 0, sel |-> {}, reqs |-> <<>>],
   sub |-> NoPolicy, admin |-> NoPolicy]
  : g \in {OneOf(<< {1}, {4}, {1, 4} >>)}, k \in {IF n % 4 = 1 THEN 3 ELSE RandomElement({3, 4})}})
\* bias for C02 (isRequirementSupported): two MANDATORY requirements on different collections of one interface, both with an
\* extension - (ifc, no add-on, <<f>>) and (ifc, add-on a, <<e>>) - in one policy or split between plan and admin policy.
\* Providers: kind 9 (a,f: base with f, add-on without e) and kind 3 (a,e: add-on with e, base without f) are the mirror-image
\* ineligible ones, kinds 11 / 15 satisfy both, the rest satisfy neither; fewer eligible providers than slots, so whatever
\* passes the filter shows up in the list.
GenCfgTwoColl(n) == Bind({
  LET r1 == [ifc |-> ifc, ad |-> "", ext |-> <<"f">>, mx |-> FALSE]
      r2 == [ifc |-> ifc, ad |-> "a", ext |-> <<"e">>, mx |-> FALSE] IN
  [id |-> n,
   prov |-> [i \in 1..NP |-> [stake |-> RandomElement(Stakes), geo |-> g, st |-> "ok",
                               kx |-> IF ifc = "x" THEN ks[i] ELSE RandomElement(Kinds),
                               ky |-> IF ifc = "y" THEN ks[i] ELSE RandomElement(Kinds)]],
   plan |-> [on |-> TRUE, gl |-> FALSE, geo |-> g, max |-> RandomElement(4..MaxSlots), mode |-> 0, sel |-> {},
             reqs |-> IF split THEN <<r1>> ELSE IF flip THEN <<r1, r2>> ELSE <<r2, r1>>],
   sub |-> NoPolicy,
   admin |-> IF split THEN [on |-> TRUE, gl |-> FALSE, geo |-> g, max |-> MaxSlots, mode |-> 0, sel |-> {}, reqs |-> <<r2>>] ELSE NoPolicy]
  : g \in {RandomElement(GeoSets)}, ifc \in {RandomElement({"x", "y"})}, split \in {RandomElement({TRUE, FALSE})}, flip \in {RandomElement({TRUE, FALSE})},
    ks \in {<<9, 3, OneOf(<<11, 15, 0>>), OneOf(<<11, 2, 8, 1>>), OneOf(<<0, 9, 3, 10>>)>>}})
JsonPol(p) == [on |-> p.on, geo |-> SortedInts(p.geo), max |-> p.max, mode |-> p.mode, sel |-> SortedInts(p.sel), reqs |-> p.reqs]
JsonCfg(c) == [id |-> c.id, prov |-> [i \in 1..Len(c.prov) |-> [c.prov[i] EXCEPT !.geo = SortedInts(@)]],
               plan |-> JsonPol(c.plan), sub |-> JsonPol(c.sub), admin |-> JsonPol(c.admin)]
GenInit == /\ \E n \in 1..GenN : \E c \in {IF Mode = "gendust" THEN GenCfgDust(n)
                                      ELSE IF Mode = "genunion" THEN (IF n % 2 = 0 THEN GenCfgUnion(n) ELSE GenCfgMixKeys(n))
                                      ELSE IF Mode = "genplain" THEN (IF n % 4 = 0 THEN GenCfgMixKeys(n) ELSE GenCfgPlain(n))
                                      ELSE IF n % 4 = 1 THEN GenCfgMixKeys(n) ELSE IF n % 4 = 3 THEN GenCfgTwoColl(n) ELSE GenCfg(n)} : cfg = c
           /\ tab = <<>>
           /\ Blank
GenNext == UNCHANGED vars
EmitCfg == PrintT(<<"BEH", ToJson(JsonCfg(cfg))>>)
=============================================================================
