-------------------------- MODULE Trace_Unresponsive --------------------------
(* Validation of traces recorded from the real chain (harness/t/unresponsive).
   Obs mode (VERIF_CONF = "0") decides C19: the next state is what the chain logged (stake entries,
   complainer / serviced CU records, pairing eligibility, jail events); the C19 action properties of
   Unresponsive.tla are evaluated by TLC on the real steps.
   Conf mode (VERIF_CONF = "1") additionally requires the step to be the spec action (drift only). *)
EXTENDS Unresponsive, IOUtils
VARIABLE l
Trace == ndJsonDeserialize(IOEnv.VERIF_TRACE)
ConfMode == IOEnv.VERIF_CONF = "1"
tvars == <<vars, l>>

ToSet(s) == {s[i] : i \in 1..Len(s)}
FnOf(s) == [k \in {s[i].e : i \in 1..Len(s)} |-> s[CHOOSE i \in 1..Len(s) : s[i].e = k].cu]
LastOf(r) == Rec(r.ev, r.p, r.e, r.cu, ToSet(r.r), r.dt, r.ok)

Logged(r) == /\ ep' = r.ep /\ now' = r.now /\ ent' = [p \in Provs |-> r.ent[p]]
             /\ comp' = [p \in Provs |-> FnOf(r.comp[p])] /\ serv' = [p \in Provs |-> FnOf(r.serv[p])]
             /\ pun' = ToSet(r.jailed) /\ last' = LastOf(r)
Sane(r) == /\ ~r.panic /\ r.eb = EB /\ r.rec = REC /\ r.minprov = MinProv
           /\ r.ev \in {"epoch", "reset"} => (r.ises /\ r.height = r.ep * EB)
           /\ r.ev = "block" => ~r.ises

TInit == /\ l = 1 /\ Trace[1].ev = "reset" /\ Sane(Trace[1])
         /\ ep = Trace[1].ep /\ now = Trace[1].now /\ ent = [p \in Provs |-> Trace[1].ent[p]]
         /\ comp = [p \in Provs |-> FnOf(Trace[1].comp[p])] /\ serv = [p \in Provs |-> FnOf(Trace[1].serv[p])]
         /\ act = [i \in {Trace[1].ep} |-> ToSet(Trace[1].act)] /\ pun = {} /\ npay = 0 /\ nops = 0
         /\ last = LastOf(Trace[1]) /\ hist = <<>>

SpecStep(r) == \/ r.ev = "pay" /\ Pay(r.p, r.e, r.cu, ToSet(r.r))
               \/ r.ev = "unfreeze" /\ Unfreeze(r.p)
               \/ r.ev = "epoch" /\ NextEpoch(r.dt)
ActLogged(r) == act' = [i \in (DOMAIN act \cup {r.ep}) |-> IF i = r.ep THEN ToSet(r.act) ELSE act[i]]

TNext == /\ l < Len(Trace) /\ l' = l + 1
         /\ LET r == Trace[l + 1] IN
            /\ Sane(r)
            /\ IF r.ev = "reset"
               THEN Logged(r) /\ act' = [i \in {r.ep} |-> ToSet(r.act)] /\ npay' = 0 /\ UNCHANGED <<nops, hist>>
               ELSE IF ConfMode THEN SpecStep(r) /\ Logged(r) /\ ActLogged(r) /\ UNCHANGED nops
               ELSE Logged(r) /\ ActLogged(r) /\ UNCHANGED <<npay, nops, hist>>

T_Justified   == [][G(Justified)]_tvars
T_JustifiedCode == [][G(JustifiedCode)]_tvars
T_HistoryLong == [][G(HistoryLong)]_tvars
T_NoDouble    == [][G(NoDouble)]_tvars
T_Escalation  == [][G(Escalation)]_tvars
T_MinProviders == [][G(MinProviders)]_tvars
T_EntryStep   == [][G(EntryStep /\ PunOnlyAtEpoch)]_tvars

Post == LET d == TLCGet("stats").diameter IN PrintT(<<"HWM", d>>) /\ d = Len(Trace)
=============================================================================
