CONSTANTS
  MH = 720
  HS = 3600
  Amounts = {0, 1, 2, 7, 100, 719, 720, 721, 1000, 5000, 123456}
  Gaps = {0, 1, 1799, 1800, 3599, 3600, 3601, 7200, 86400, 432000, 1296000, 2591999, 2592000, 2592001, 2595600, 3888000, 5184000}
  TouchX = {1, 500}
  MaxOps = 8
  GenHist = TRUE
INIT Init
NEXT GenNext
INVARIANTS Emit
CHECK_DEADLOCK FALSE
