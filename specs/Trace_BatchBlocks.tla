------------------------- MODULE Trace_BatchBlocks -------------------------
(* Validation of (input, real output) lines recorded by harness/cmd/chainparse for C31.
   One line per TLC-emitted multiset of members and latest block:
     in.members  the members (sorted representative), in.latest, in.perms = every distinct order
                 (sequence of indexes into members), P = Len(in.perms), n = Len(in.members)
     out[p]          p in 1..P   the batch in order perms[p] parsed by the real JsonRPCChainParser
                                 (ETH1 spec, archive extension enabled)
     out[P+p]                    the same batch parsed by a parser without policy (no extension,
                                 so ComputeUnits are not multiplied by the archive multiplier)
     out[2P+i]       i in 1..n   member i parsed alone (single request), archive enabled
     out[2P+n+i]                 member i alone, no policy
   Obs mode: the property's predicates (BatchBlocks: CoversLow/CoversHigh, order independence, archive
   monotonicity, CU sum) are evaluated by TLC on the REAL answers only; nothing is demanded beyond the
   statement.  Every line is evaluated; failures are printed as <<"BAD", line, perm, kind>>.
   A second, drift-only comparison (MatchModel) checks whether the real summary equals the model's
   Summary for the configured Seed / EarliestLow variant: <<"DRIFT", line, perm>>. *)
EXTENDS BatchBlocks, IOUtils
VARIABLE l
Trace == ndJsonDeserialize(IOEnv.VERIF_TRACE)
MatchModel == IOEnv.VERIF_MATCH_MODEL = "1"
tvars == <<vars, l>>

NP(r) == Len(r.in.perms)
NM(r) == Len(r.in.members)
B(r, p)  == r.out[p]
BN(r, p) == r.out[NP(r) + p]
S(r, i)  == r.out[2 * NP(r) + i]
SN(r, i) == r.out[2 * NP(r) + NM(r) + i]
Good(o) == ~o.err /\ ~o.panic /\ ~o.hang

RECURSIVE SumReal(_, _)
SumReal(r, i) == IF i > NM(r) THEN 0 ELSE SN(r, i).cu + SumReal(r, i + 1)

BindOK(r) == /\ Len(r.out) = 2 * NP(r) + 2 * NM(r)
             /\ \A j \in 1..Len(r.out) : Good(r.out[j])
             /\ \A p \in 1..NP(r) : B(r, p).batch /\ BN(r, p).batch
             /\ \A i \in 1..NM(r) : S(r, i).lat = r.in.members[i].b /\ ~S(r, i).batch
                                     /\ SN(r, i).lat = r.in.members[i].b /\ ~SN(r, i).arch
Sm(o) == [lat |-> o.lat, earl |-> o.earl]

Say(c, i, p, kind) == c \/ PrintT(<<"BAD", i, p, kind>>)

ReportPerm(i, r, p) ==
  LET o == B(r, p) s == r.in.members IN
  /\ Say(BN(r, p).cu = SumReal(r, 1), i, p, "cu")
  /\ Say(o.lat = B(r, 1).lat, i, p, "orderlat")
  /\ Say(o.earl = B(r, 1).earl, i, p, "orderearl")
  /\ Say(o.arch = B(r, 1).arch, i, p, "orderarch")
  /\ Say(\A m \in 1..NM(r) : s[m].b >= 0 => CoversLow(Sm(o), s[m].b), i, p, "low")
  /\ Say(\A m \in 1..NM(r) : s[m].b >= 0 => CoversHigh(Sm(o), s[m].b), i, p, "high")
  /\ Say((\E m \in 1..NM(r) : S(r, m).arch) => o.arch, i, p, "mono")
  /\ (~MatchModel) \/
       LET q == Summary([k \in 1..NM(r) |-> s[r.in.perms[p][k]]], r.in.latest) IN
         (q.lat = o.lat /\ q.earl = o.earl /\ q.arch = o.arch /\ q.cu = BN(r, p).cu) \/ PrintT(<<"DRIFT", i, p>>)

Crashed(r) == \E j \in 1..Len(r.out) : r.out[j].panic \/ r.out[j].hang
Report(i, r) == IF Crashed(r) THEN PrintT(<<"BAD", i, 0, "panic">>)
                ELSE IF ~BindOK(r) THEN PrintT(<<"BAD", i, 0, "bind">>)
                ELSE \A p \in 1..NP(r) : ReportPerm(i, r, p)

TInit == l = 0 /\ batch = <<>> /\ latest = 0
TNext == /\ l < Len(Trace) /\ l' = l + 1
         /\ LET r == Trace[l + 1] IN
              /\ batch' = r.in.members /\ latest' = r.in.latest
              /\ Report(l + 1, r)

Post == LET d == TLCGet("stats").diameter IN PrintT(<<"HWM", d - 1>>) /\ d - 1 = Len(Trace)
=============================================================================
