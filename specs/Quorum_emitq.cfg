CONSTANTS
  MaxN = 3
  GenHist = FALSE
INIT Init
NEXT ENext
INVARIANTS Emit
CHECK_DEADLOCK FALSE
