CONSTANTS
  Indices = {"a"}
  MaxBlock = 4
  Stale = 2
  MaxRef = 2
  Data = {1}
  MaxOps = 6
  GenHist = TRUE
  Fix16 = TRUE
  Fix17 = FALSE
  Fix17b = FALSE
  Fix18 = TRUE
INIT Init
NEXT Next
VIEW View
INVARIANTS EmitBad
CHECK_DEADLOCK FALSE
