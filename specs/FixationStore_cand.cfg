CONSTANTS
  Indices = {"a"}
  MaxBlock = 4
  Stale = 2
  MaxRef = 2
  Data = {1}
  MaxOps = 6
  GenHist = TRUE
  Fix16 = FALSE
  Fix17 = FALSE
  Fix17b = FALSE
  Fix18 = FALSE
INIT Init
NEXT Next
VIEW View
INVARIANTS EmitBad
CHECK_DEADLOCK FALSE
