---------------------------- MODULE Trace_Rewards ----------------------------
(* Validation of traces recorded from the real chain (harness/t/rewards) against Rewards.tla.

   Obs mode with the model as the expected-value function: every state-bearing line (tx lines, `blk`,
   `q`) carries the projection of the real state; the spec applies the Rewards.tla operators to the
   previous real state (with the sub-events the chain emitted in that block as parameters: amounts of
   each contribution, bonus, IPRPC emission), compares the result with the logged real state
   observable by observable (one boolean per observable in `chk`), and then continues from the *real*
   state (st' = logged projection, ghost counters carried over).  The property invariants are the
   `chk` booleans of the observables each property names plus the state invariants of Rewards.tla
   evaluated on the real states.  Mismatches on observables no property names go to `dr` (drift). *)
EXTENDS Rewards, IOUtils
VARIABLES l, mb, chk, dr
Trace == ndJsonDeserialize(IOEnv.VERIF_TRACE)
tvars == <<vars, l, mb, chk, dr>>

ToSet(q) == {q[i] : i \in 1..Len(q)}
ZeroP == [p \in Provs |-> 0]
ZeroMB == [bonus |-> ZeroP, tax |-> [s \in Specs |-> <<0, 0>>], ipl |-> <<>>, roll |-> [s \in Specs |-> 0],
           used |-> FALSE]
OkChk == [dest |-> TRUE, vpools |-> TRUE, ppools |-> TRUE, refill |-> TRUE, bonus |-> TRUE, sched |-> TRUE,
          breward |-> TRUE, share |-> TRUE, roll |-> TRUE, ipr |-> TRUE, ip |-> TRUE, rw |-> TRUE, ds |-> TRUE,
          cp |-> TRUE, cu |-> TRUE, fund |-> TRUE, data |-> TRUE, nopanic |-> TRUE, ipdest |-> TRUE]

ObsS(r, gh) ==
  [pl |-> r.pl, ml |-> r.ml, refillAt |-> r.ra,
   bp |-> [s \in Specs |-> [p \in Provs |-> [tot |-> r.tot[s][p], adj5 |-> 0, cu |-> r.cu[s][p]]]],
   ipr |-> [i \in Ids |-> [s \in Specs |-> r.ipr[i + 1][s]]], cur |-> r.cur,
   rw |-> [p \in Provs |-> r.rw[p]], gh |-> gh]

\* compare the expected state E with the logged projection r; result = chk record, drift flag
Cmp(E, r, base) ==
  [base EXCEPT
     !.vpools = E.pl.va = r.pl.va /\ E.pl.vd = r.pl.vd /\ E.pl.vl = r.pl.vl /\ E.pl.fc = r.pl.fc,
     !.ppools = E.pl.pa = r.pl.pa /\ E.pl.pd = r.pl.pd,
     !.sched = E.ml = r.ml /\ E.refillAt = r.ra,
     !.ip = E.pl.ip = r.pl.ip,
     !.cp = E.pl.cp = r.pl.cp,
     !.ds = E.pl.ds = r.pl.ds,
     !.rw = \A p \in Provs : E.rw[p] = r.rw[p],
     !.ipr = E.cur = r.cur /\ \A i \in Ids, s \in Specs : E.ipr[i][s] = r.ipr[i + 1][s],
     !.cu = \A s \in Specs, p \in Provs : E.bp[s][p].cu = r.cu[s][p]]
Drifted(E, r) == E.pl.sb # r.pl.sb \/ r.over \/ ~r.bf1

Sync(E, r, base) ==
  /\ st' = ObsS(r, E.gh)
  /\ chk' = Cmp(E, r, base)
  /\ dr' = IF Drifted(E, r) THEN dr + 1 ELSE dr
  /\ (Drifted(E, r) => PrintT(<<"DRIFT", l + 1, E.pl.sb - r.pl.sb, r.over, r.bf1>>))
  /\ now' = r.t /\ height' = r.h
  /\ isubs' = ToSet(r.isubs) /\ minCost' = r.mc
  /\ staked' = [s \in Specs |-> ToSet(r.staked[s])]

RECURSIVE QuietLoop(_, _, _, _)
QuietLoop(S, t, dt, n) == IF n = 0 THEN S ELSE QuietLoop(BlockReward(S, t + dt), t + dt, dt, n - 1)

RECURSIVE RewardAll(_, _, _, _)
RewardAll(S, from, rwf, todo) ==
  IF todo = {} THEN S ELSE LET p == CHOOSE p \in todo : TRUE IN
     RewardAll(RewardProvider(S, from, p, rwf[p]), from, rwf, todo \ {p})

Keep == UNCHANGED <<now, height, isubs, minCost, staked, dr>>

\* ---- sub-events of a block (no observation of their own) ----
SubC(r) ==
  IF r.from = "sb" THEN
       LET remaining == st.refillAt - now
           want == DestPool(st, now, TRUE)
           dest == IF r.v = 0 THEN "vd" ELSE IF remaining = Day /\ r.pool \in {"vl", "vd"} THEN r.pool ELSE want
       IN /\ st' = ContributeTo(st, "sb", r.v, r.c, dest)
          /\ chk' = [OkChk EXCEPT !.dest = (r.v = 0 \/ r.pool = dest)]
          /\ mb' = mb /\ Keep
  ELSE /\ mb' = [mb EXCEPT !.tax[r.s] = <<@[1] + r.v, @[2] + r.c>>, !.used = TRUE]
       /\ chk' = [OkChk EXCEPT !.ipdest = (r.from = "ip" /\ r.s \in Specs /\ (r.v = 0 \/ r.pool = "vl"))]
       /\ st' = st /\ Keep
SubPay(r) == /\ st' = RewardAll(st, "sb", r.rw, Provs)
             /\ chk' = OkChk /\ mb' = mb /\ Keep
SubBonus(r) == /\ mb' = [mb EXCEPT !.bonus = [p \in Provs |-> @[p] + r.rw[p]], !.used = TRUE]
               /\ chk' = [OkChk EXCEPT !.bonus = ~r.err] /\ st' = st /\ Keep
SubIprpc(r) == /\ mb' = [mb EXCEPT !.ipl = Append(@, [s |-> r.s, F |-> r.F, totcu |-> r.totcu,
                                                        cus |-> [p \in Provs |-> r.cus[p]],
                                                        rw |-> [p \in Provs |-> r.rw[p]]]), !.used = TRUE]
               /\ chk' = OkChk /\ st' = st /\ Keep
SubRoll(r) == /\ mb' = [mb EXCEPT !.roll = [s \in Specs |-> @[s] + r.funds[s]], !.used = TRUE]
              /\ chk' = OkChk /\ st' = st /\ Keep

SubRefill(r) ==
  LET S0 == st
      bonusTot == SumF(mb.bonus, Provs)
      S1 == RewardAll(S0, "pd", mb.bonus, Provs)
      R == IF S1.cur \in Ids THEN S1.ipr[S1.cur] ELSE [s \in Specs |-> 0]
      S2 == IprpcDist(S1, mb.tax)
      S3 == Refill(ClearBP(S2), r.ra)
      lineSpecs == {mb.ipl[i].s : i \in 1..Len(mb.ipl)}
      shareOK == /\ \A i \in 1..Len(mb.ipl) :
                      LET x == mb.ipl[i] IN
                      /\ x.s \in Specs /\ Served(S1, x.s) # {}
                      /\ x.F = R[x.s] - mb.tax[x.s][1] - mb.tax[x.s][2]
                      /\ x.totcu = TotCu(S1, x.s)
                      /\ \A p \in Provs : /\ x.cus[p] = (IF p \in Served(S1, x.s) THEN S1.bp[x.s][p].cu ELSE 0)
                                          /\ x.rw[p] = Share(S1, x.s, p, x.F)
                 /\ \A s \in Specs : (Served(S1, s) # {} /\ R[s] > 0) => s \in lineSpecs
                 /\ \A i, j \in 1..Len(mb.ipl) : mb.ipl[i].s = mb.ipl[j].s => i = j
      rollOK == \A s \in Specs : mb.roll[s] = (IF Served(S1, s) = {} THEN R[s] ELSE 0)
  IN /\ st' = S3
     /\ chk' = [OkChk EXCEPT !.bonus = bonusTot <= S0.pl.pd,
                             !.share = shareOK, !.roll = rollOK,
                             !.refill = /\ r.vd = S3.pl.vd /\ r.pd = S3.pl.pd /\ r.ml = S3.ml
                                        /\ r.ra - now >= 27 * Day /\ r.ra - now <= 32 * Day]
     /\ mb' = ZeroMB /\ Keep

\* ---- state-bearing lines ----
LBlk(r) ==
  IF r.panic THEN /\ chk' = [OkChk EXCEPT !.nopanic = FALSE] /\ mb' = ZeroMB
                  /\ UNCHANGED <<st, now, height, isubs, minCost, staked, dr>>
  ELSE LET ret == st.pl.sb - r.pl.sb
           E1 == IF ret > 0 THEN [st EXCEPT !.pl = [[st.pl EXCEPT !.sb = @ - ret] EXCEPT !.vd = @ + ret]] ELSE st
           rewardObs == r.pl.fc - E1.pl.fc
           E2 == BlockReward(E1, r.t)
       IN /\ Sync(E2, r, [OkChk EXCEPT !.breward = rewardObs >= 0 /\ rewardObs <= E1.pl.vd,
                                        !.bonus = ~mb.used])
          /\ mb' = ZeroMB
LQuiet(r) == /\ Sync(QuietLoop(st, r.t0, r.dt, r.n), r, OkChk) /\ mb' = mb
LFund(r) == LET E == IF r.ok THEN Fund(st, r.s, r.dur, r.amt) ELSE st IN
            /\ Sync(E, r, [OkChk EXCEPT !.fund = (r.ok <=> (FundOK(r.amt, r.dur) /\ r.s \in Specs)) /\ ~r.panic])
            /\ mb' = mb
LSetData(r) == /\ Sync(st, r, [OkChk EXCEPT !.data = /\ ~r.panic /\ r.ok
                                                     /\ ToSet(r.isubs) = isubs \cup ToSet(r.subs) /\ r.mc = r.cost])
               /\ mb' = mb
LRelay(r) == LET E == IF r.ok THEN AggCU(st, r.c, r.p, r.s, r.rcu) ELSE st IN
             /\ Sync(E, r, [OkChk EXCEPT !.nopanic = ~r.panic]) /\ mb' = mb
LBuy(r) == LET d == r.pl.sb - st.pl.sb
               E == [st EXCEPT !.pl.sb = r.pl.sb, !.gh.ext = @ + d] IN
           /\ Sync(E, r, [OkChk EXCEPT !.nopanic = ~r.panic]) /\ mb' = mb
LUnstake(r) == /\ Sync(st, r, [OkChk EXCEPT !.nopanic = ~r.panic]) /\ mb' = mb

LReset(r) ==
  /\ st' = ObsS(r, [ZeroGh EXCEPT !.funded = r.pl.ip])
  /\ now' = r.t /\ height' = r.h /\ isubs' = ToSet(r.isubs) /\ minCost' = r.mc
  /\ staked' = [s \in Specs |-> ToSet(r.staked[s])]
  /\ mb' = ZeroMB /\ chk' = OkChk /\ dr' = dr

TInit == /\ l = 1 /\ Trace[1].ev = "reset"
         /\ LET r == Trace[1] IN
              /\ st = ObsS(r, ZeroGh) /\ now = r.t /\ height = r.h /\ isubs = ToSet(r.isubs) /\ minCost = r.mc
              /\ staked = [s \in Specs |-> ToSet(r.staked[s])]
         /\ mb = ZeroMB /\ chk = OkChk /\ dr = 0 /\ nops = 0 /\ hist = <<>>

TNext == /\ l < Len(Trace) /\ l' = l + 1 /\ UNCHANGED <<nops, hist>>
         /\ LET r == Trace[l + 1] IN
              CASE r.ev = "reset" -> LReset(r)
                [] r.ev = "c" -> SubC(r)
                [] r.ev = "pay" -> SubPay(r)
                [] r.ev = "bonus" -> SubBonus(r)
                [] r.ev = "iprpc" -> SubIprpc(r)
                [] r.ev = "roll" -> SubRoll(r)
                [] r.ev = "refill" -> SubRefill(r)
                [] r.ev = "blk" -> LBlk(r)
                [] r.ev = "q" -> LQuiet(r)
                [] r.ev = "fund" -> LFund(r)
                [] r.ev = "setdata" -> LSetData(r)
                [] r.ev = "relay" -> LRelay(r)
                [] r.ev = "buy" -> LBuy(r)
                [] r.ev = "unstake" -> LUnstake(r)
TSpec == TInit /\ [][TNext]_tvars

\* ---- property invariants ----
\* C21
C21_DestPool == chk.dest
C21_LeftoverWindow == st.pl.vl > 0 => st.refillAt - now <= Day
C21_ValidatorPools == chk.vpools
C21_ProviderPools == chk.ppools
C21_Refill == chk.refill
C21_Schedule == chk.sched
C21_BlockReward == chk.breward
C21_Bonus == chk.bonus
C21_NoPanic == chk.nopanic
\* C42
C42_Share == chk.share
C42_Roll == chk.roll
C42_Records == chk.ipr
C42_Pool == chk.ip /\ IprpcPoolBacksPromises
C42_Conservation == IprpcConservation
C42_NoPastPromise == NoPastPromise
C42_Paid == chk.rw /\ chk.ds
C42_Community == chk.cp
C42_Eligible == chk.cu
C42_Fund == chk.fund /\ chk.data
C42_TaxDest == chk.ipdest
C42_NoPanic == chk.nopanic

Post == LET d == TLCGet("stats").diameter IN
          /\ PrintT(<<"HWM", d>>) /\ d = Len(Trace)
=============================================================================
