------------------------------- MODULE Payments -------------------------------
(* x/pairing relay-payment transaction (msg_server_relay_payment.go RelayPayment) and the state it
   touches: UniqueEpochSession, ProviderEpochCu, ProviderConsumerEpochCu (epoch_cu.go,
   epoch_payment.go), BadgeUsedCu (+ its expiry timer, badge_used_cu.go), the pairing relay cache
   (pairing_cache.go, reset every block), project UsedCu, subscription MonthCuLeft, tracked CU
   (x/subscription cu_tracker.go), the downtime factor (x/downtime), epoch memory (x/epochstorage).

   One action per entry point:
     RelayPay(p, rs)  the transaction; every relay walks the ladder of checks IN CODE ORDER
                      (ProcessRelay): "hard" failures abort the transaction, "soft" rejections
                      `continue` - and, because the code ends with `if rejectedRelaysNum != 0 {error}`,
                      any soft rejection fails the transaction as well (the comment there says "if all
                      relays failed", the code fails if ANY relay was rejected).  A failed transaction
                      leaves the state unchanged (baseapp runs messages on a cached store).
     NextEpoch(d)     epoch start: earliest epoch advances (EpochsToSave), RemoveOldEpochPayments,
                      badge timers fire, relay cache reset; d = downtime factor the finished epoch ends with
     NextBlock        one more block inside the epoch (relay cache reset, badge timers)
     Down(df, ev)     a block that arrives late ("down": one epoch duration, "bigdown": six): downtime recorded
                      for the current epoch, whose factor can then exceed that of finished epochs

   The world (accounts, projects, policies, stakes) is the fixed one built by harness/t/payments:
     subscription c1 (plan: TotalCuLimit 1000, EpochCuLimit 200) with projects
        c1/adm (developer key c1, no project policy), c1/low (developer key k1, admin+subscription
        policy TotalCuLimit 100 / EpochCuLimit 150), c1/dis (developer key k3, disabled);
     c2: a subscription that expired before the behaviour starts (its keys resolve to nothing);
     k2, b1, b2, x: funded accounts that are no developer keys (b1, b2 are badge users);
     providers p1, p2 staked on S1 (p1 also on SD), p3 staked on S2 only; specs S1, S2 enabled,
     SD disabled, SX unknown.
   Numbers are uint64 in the code; the spec works on naturals below Wrap and maps every wrapped /
   huge value to Wrap (the harness clamps its log the same way), see UMinus.

   Huge CU: three symbolic CuSum values stand for numbers near the top of uint64 (the driver maps
   them, the log clamps them to Wrap): cu = 1000000 is 2^64-5, cu = 1000001 is 2^63 (MaxInt64+1),
   cu = 1000002 is 2^63-1 (MaxInt64).  The spec compares and adds on the naturals (Sat), i.e. it
   states the INTENDED behaviour: such a relay can never fit a badge allocation or a limit, and its
   credit is bounded like any other relay's.  The code as found adds in uint64 and wraps:
     F2b  checkBadge accepted CuSum = 2^64-5 once a usage record existed (fixes/F2b_badge_cu_overflow.patch);
     F2c  AddEpochPayment: ProviderConsumerEpochCu 60 + (2^64-5) = 55, every limit passes, the relay is
          rewarded 2^64-5 CU, project UsedCu and tracked CU shrink (fixes/F2c_cu_sum_overflow.patch:
          a CuSum that does not fit in int64 is rejected next to the epoch checks = constant CuGuard).
   Without CuGuard the spec does NOT transcribe the wrapped additions (Conf drift is expected on such
   relays and only on them; Obs decides).  The c04 generator draws all three values, the c18 generator
   2^64-5 on badge relays.

   Address spelling: bech32 accepts an all-upper-case spelling of an address.  The store keys (unique session,
   epoch CU counters, badge usage, tracked CU) are built from the provider STRING of the relay, while a session's
   identity is by account.  pu = the transaction's Creator is spelled in upper case (no effect, see RelayPayU);
   pfu = the relay's signed Provider field is spelled in upper case: the spec states the repaired behaviour (such a
   relay is refused, fixes/F2d_provider_spelling.patch); the code as found treats it as another provider, so the same
   session can be paid once per spelling and the per-provider epoch allowance doubles (F2d; Obs decides, Conf drifts).

   F2Fixed selects the transcription of EnforceClientCUsUsageInEpoch: FALSE = the code as found
   (`return effectivePolicyTotalCu - project.UsedCu` in the total-limit branch), TRUE = the repaired
   function (fixes/F2_cu_underflow.patch).  checks/C04.py picks the variant the real code conforms to. *)
EXTENDS Integers, Sequences, FiniteSets, TLC, Json, IOUtils

CONSTANTS Creators,     \* providers that send transactions
          Signers,      \* keys that sign plain relays
          CUs, Sessions,
          Muts,         \* single-field mutations explored (first relay of a transaction)
          Muts2,        \* mutations explored for the other relays of a transaction
          MaxRelays,    \* relays per transaction (1..MaxRelays)
          EpochsToSave,
          MaxEpoch,     \* epochs explored
          MaxOps, GenHist,
          F2Fixed,      \* which transcription of EnforceClientCUsUsageInEpoch (see above)
          CuGuard,      \* TRUE: relays with CuSum > MaxInt64 are rejected (F2c repaired)
          Profile       \* generator bias: "c03" | "c04" | "c05" | "c18" ("" for exhaustive runs)

VARIABLES cur, off,     \* current epoch index, blocks since its start (0 or 1)
          earliest,     \* earliest epoch index in memory
          df,           \* sequence: downtime factor per epoch index 0..cur (df[e+1])
          unique,       \* set of <<e, provider, project, spec, session>>
          pec,          \* set of [k |-> <<e, provider, spec>>, v]                 ProviderEpochCu.ServicedCu
          pcec,         \* set of [k |-> <<e, provider, project, spec>>, v]        ProviderConsumerEpochCu.Cu
          bused,        \* set of [k |-> <<u, is, e, o, al, lc, provider>>, v]     BadgeUsedCu
          used,         \* project -> UsedCu
          mleft,        \* subscription MonthCuLeft (c1)
          tracked,      \* set of [k |-> <<sub, provider, spec>>, v]
          pcache,       \* set of [k |-> <<project, spec, e>>, v]                  PairingRelayCache.AllowedCu
          last,         \* what the last step did (observation record, see MkLast)
          credOnce, credTwice,   \* ghost: session keys credited once / more than once
          sumRew,       \* ghost: set of [k |-> <<e, provider, project, spec>>, v] rewarded CU so far
          bcred,        \* ghost: set of [k |-> badge key, v] CU rewarded through a badge to a provider
          nops, hist

vars == <<cur, off, earliest, df, unique, pec, pcec, bused, used, mleft, tracked, pcache, last,
          credOnce, credTwice, sumRew, bcred, nops, hist>>

-----------------------------------------------------------------------------
\* the fixed world
Wrap == 1000000
PlanTotal == 1000
PlanEpoch == 200
LowTotal == 100
LowEpoch == 150
Projects == {"c1/adm", "c1/low", "c1/dis"}
DevProject(k) == CASE k = "c1" -> "c1/adm" [] k = "k1" -> "c1/low" [] k = "k3" -> "c1/dis" [] OTHER -> "-"
ProjEnabled(pr) == pr # "c1/dis"
SubOf(pr) == "c1"
SpecOK(sp) == sp \in {"S1", "S2"}
Paired(sp) == CASE sp = "S1" -> {"p1", "p2"} [] sp = "S2" -> {"p3"} [] OTHER -> {}
OtherProvider(p) == IF p = "p1" THEN "p2" ELSE "p1"

MinOf(S) == CHOOSE x \in S : \A y \in S : x <= y
EffTotal(pr) == IF pr = "c1/low" THEN MinOf({PlanTotal, LowTotal}) ELSE PlanTotal
EffEpoch(pr) == IF pr = "c1/low" THEN MinOf({PlanEpoch, LowEpoch}) ELSE PlanEpoch

\* uint64 arithmetic on the clamped domain
Sat(x) == IF x > Wrap THEN Wrap ELSE x
UMinus(a, b) == IF a >= b THEN a - b ELSE Wrap      \* a - b on uint64: wraps to ~2^64
SatSub(a, b) == IF a >= b THEN a - b ELSE 0
Half(x) == IF x >= Wrap THEN Wrap ELSE x \div 2

Get(F, key) == IF \E r \in F : r.k = key THEN (CHOOSE r \in F : r.k = key).v ELSE 0
Has(F, key) == \E r \in F : r.k = key
Put(F, key, v) == {r \in F : r.k # key} \cup {[k |-> key, v |-> v]}

NoBadge == [u |-> "-", is |-> "-", e |-> 0, o |-> 0, al |-> 0, lc |-> TRUE]
BKey(b, p) == <<b.u, b.is, b.e, b.o, b.al, b.lc, p>>

\* block(e1,o1) <= block(e2,o2) on the epoch grid (20 blocks per epoch, offsets are 0 or 1)
BlockLe(e1, o1, e2, o2) == e1 < e2 \/ (e1 = e2 /\ o1 <= o2)
\* badge-usage record / timer expiry: badge.Epoch + EpochsToSave*EpochBlocks <= height
BadgeExpired(b, c, o) == BlockLe(b.e + EpochsToSave, b.o, c, o)

-----------------------------------------------------------------------------
\* EnforceClientCUsUsageInEpoch(relayCU, epochAllowedCU, totalCUInEpochForUserProvider, ...)
\* orig = the provider/project epoch total before this relay (the code recomputes it as total - relayCU)
TooBig(cu) == cu \in {1000000, 1000001}                 \* CuSum > MaxInt64
EpochPart(cu, limit, orig, total) ==
  IF total > limit THEN (IF orig <= limit THEN limit - orig ELSE 0) ELSE cu
Enforce(cu, allowed, orig, total, pr, usedNow, dfe) ==
  IF F2Fixed
  THEN LET left == SatSub(EffTotal(pr), usedNow)                              \* cuLeftInProject
           shrink == ~(total < EffTotal(pr)) /\ cu > left                      \* relayCU > cuLeftInProject
           cu2 == IF shrink THEN left ELSE cu
           total2 == IF shrink THEN Sat(orig + left) ELSE total IN            \* total -= relayCU - cuLeftInProject
       EpochPart(cu2, allowed * dfe, orig, total2)
  ELSE IF ~(total < EffTotal(pr))                       \* !VerifyTotalCuUsage(effectiveTotal, total)
       THEN UMinus(EffTotal(pr), usedNow)               \* effectivePolicyTotalCu - project.UsedCu
       ELSE EpochPart(cu, allowed * dfe, orig, total)

\* CalculateEffectiveAllowedCuPerEpochFromPolicies: min(epoch limit, total - used (uint64!), sub left)
AllowedCU(pr, usedNow, left) == MinOf({EffEpoch(pr), UMinus(EffTotal(pr), usedNow), left})

\* the address/epoch -> badge map built before the relay loop (first badge per key wins)
RECURSIVE BadgeMap(_, _)
BadgeMap(rs, i) ==
  IF i > Len(rs) THEN {}
  ELSE LET rest == BadgeMap(rs, i + 1)
           b == rs[i].b IN
       IF b.u = "-" THEN rest
       ELSE {m \in rest : ~(m.u = b.u /\ m.e = b.e /\ m.o = b.o)} \cup {b}
\* (built back to front so that the earliest relay's badge replaces later ones = first wins)

\* the badge the code applies to relay i of a transaction: the FIRST badge of the transaction issued to the
\* relay's signer for the relay's block (not necessarily the badge attached to that relay)
AppliedBadge(rs, i) ==
  LET r == rs[i]
      cand == {b \in BadgeMap(rs, 1) : b.u = r.sg /\ b.e = r.e /\ b.o = r.o} IN
  IF r.tm # "none" \/ cand = {} THEN NoBadge ELSE CHOOSE b \in cand : TRUE

Rej(S) == [S EXCEPT !.nrej = @ + 1, !.out = Append(@, [acc |-> FALSE, rew |-> -1, proj |-> "-"])]
Hard(S) == [S EXCEPT !.status = "hard"]

\* one iteration of `for relayIdx, relay := range msg.Relays`
ProcessRelay(S, p, r, bm) ==
  IF S.status = "hard" THEN S
  ELSE IF r.pf # p THEN Hard(S)                                       \* creator and signed provider mismatch
  ELSE IF r.pfu THEN Hard(S)                                          \* provider address not in canonical spelling (F2d, see below)
  ELSE IF ~r.lc THEN Rej(S)                                           \* wrong lava chain id
  ELSE IF r.e < 0 \/ ~BlockLe(r.e, r.o, cur, off) THEN Rej(S)          \* block in the future / negative
  ELSE IF CuGuard /\ TooBig(r.cu) THEN Rej(S)                          \* CU sum does not fit in int64 (F2c)
  ELSE
    LET signer0 == IF r.tm # "none" THEN "x" ELSE r.sg                \* tampered: some unregistered key is recovered
        cand == {b \in bm : b.u = signer0 /\ b.e = r.e /\ b.o = r.o}
        hasB == cand # {}
        bd == IF hasB THEN CHOOSE b \in cand : TRUE ELSE NoBadge
        bk == BKey(bd, p)
        bfound == Has(S.bused, bk)
        badgeBad == hasB /\ ( ~bd.lc                                   \* IsBadgeValid (address and epoch match by construction of the key)
                              \/ (~bfound /\ BadgeExpired(bd, cur, off))
                              \/ Sat(r.cu + Get(S.bused, bk)) > bd.al )
        signer == IF hasB THEN bd.is ELSE signer0
        pr == DevProject(signer)
        key == <<r.e, p, pr, r.sp, r.ss>>
        g == <<r.e, p, pr, r.sp>>
    IN
    IF badgeBad THEN Rej(S)
    ELSE IF pr = "-" \/ ~ProjEnabled(pr) THEN Rej(S)                   \* GetProjectData
    ELSE IF r.e < earliest THEN Rej(S)                                 \* epoch older than chain memory
    ELSE IF key \in S.unique THEN Rej(S)                               \* double spend
    ELSE
      \* ---- from here on every failed check fails the transaction ----
      LET total == Sat(Get(S.pcec, g) + r.cu)                          \* AddEpochPayment
          S1 == [S EXCEPT !.unique = @ \cup {key},
                          !.pec = Put(@, <<r.e, p, r.sp>>, Sat(Get(@, <<r.e, p, r.sp>>) + r.cu)),
                          !.pcec = Put(@, g, total),
                          !.bused = IF hasB THEN Put(@, bk, Sat(Get(@, bk) + r.cu)) ELSE @]   \* handleBadgeCu
          ck == <<pr, r.sp, r.e>>
          hit == Has(S1.pcache, ck)
          allowed == IF hit THEN Get(S1.pcache, ck) ELSE AllowedCU(pr, S1.used[pr], S1.mleft)
          rew == Enforce(r.cu, allowed, Get(S.pcec, g), total, pr, S1.used[pr], df[r.e + 1])
          cred == IF r.q = "zero" THEN Half(rew) ELSE rew              \* QoS weight 0.5: score 0 halves, score 1 keeps
      IN
      IF ~SpecOK(r.sp) THEN Hard(S1)                                   \* spec not found or disabled
      ELSE IF r.o # 0 THEN Hard(S1)                                    \* requested block is not an epoch start
      ELSE IF p \notin Paired(r.sp) THEN Hard(S1)                      \* pairing result doesn't include provider
      ELSE IF S1.mleft = 0 THEN Hard(S1)                               \* subscription has no CU left
      ELSE IF r.q = "bad" THEN Hard(S1)                                \* QoS scores outside [0,1]
      ELSE [S1 EXCEPT !.pcache = IF hit THEN @ ELSE Put(@, ck, allowed),
                      !.used[pr] = Sat(@ + r.cu),                      \* ChargeComputeUnitsToProject
                      !.mleft = SatSub(@, r.cu),                       \* ChargeComputeUnitsToSubscription
                      !.tracked = Put(@, <<SubOf(pr), p, r.sp>>, Sat(Get(@, <<SubOf(pr), p, r.sp>>) + cred)),
                      !.out = Append(@, [acc |-> TRUE, rew |-> rew, proj |-> pr])]

RECURSIVE Walk(_, _, _, _, _)
Walk(S, p, rs, i, bm) == IF i > Len(rs) THEN S ELSE Walk(ProcessRelay(S, p, rs[i], bm), p, rs, i + 1, bm)

CurS == [unique |-> unique, pec |-> pec, pcec |-> pcec, bused |-> bused, used |-> used, mleft |-> mleft,
         tracked |-> tracked, pcache |-> pcache, out |-> <<>>, status |-> "ok", nrej |-> 0]

NoOut(rs) == [i \in 1..Len(rs) |-> [acc |-> FALSE, rew |-> -1, proj |-> "-"]]
MkLast(ev, p, ok, err, rs, out) ==
  [ev |-> ev, p |-> p, ok |-> ok, err |-> err, rs |-> rs, out |-> out,
   dfe |-> [i \in 1..Len(rs) |-> IF rs[i].e >= 0 /\ rs[i].e <= cur THEN df[rs[i].e + 1] ELSE 1]]

\* ghosts, computed from the observation record only (the same operator is used on real traces)
RECURSIVE GOnce(_, _, _)
GOnce(L, i, acc) ==       \* acc = [once, twice]
  IF i > Len(L.rs) THEN acc
  ELSE IF ~(L.ok /\ L.out[i].acc) THEN GOnce(L, i + 1, acc)
  ELSE LET key == <<L.rs[i].e, L.p, L.out[i].proj, L.rs[i].sp, L.rs[i].ss>> IN
       GOnce(L, i + 1, IF key \in acc.once THEN [acc EXCEPT !.twice = @ \cup {key}]
                                            ELSE [acc EXCEPT !.once = @ \cup {key}])
RECURSIVE GSum(_, _, _)
GSum(L, i, F) ==
  IF i > Len(L.rs) THEN F
  ELSE IF ~(L.ok /\ L.out[i].acc) THEN GSum(L, i + 1, F)
  ELSE LET g == <<L.rs[i].e, L.p, L.out[i].proj, L.rs[i].sp>> IN
       GSum(L, i + 1, Put(F, g, Sat(Get(F, g) + L.out[i].rew)))
RECURSIVE GBadge(_, _, _)
GBadge(L, i, F) ==
  IF i > Len(L.rs) THEN F
  ELSE IF ~(L.ok /\ L.out[i].acc) \/ AppliedBadge(L.rs, i).u = "-" THEN GBadge(L, i + 1, F)
  ELSE LET k == BKey(AppliedBadge(L.rs, i), L.p) IN GBadge(L, i + 1, Put(F, k, Sat(Get(F, k) + L.out[i].rew)))

Ghosts(L) ==
  LET a == GOnce(L, 1, [once |-> credOnce, twice |-> credTwice]) IN
  /\ credOnce' = a.once /\ credTwice' = a.twice
  /\ sumRew' = GSum(L, 1, sumRew)
  /\ bcred' = GBadge(L, 1, bcred)

Record(r) == hist' = IF GenHist THEN Append(hist, r) ELSE hist

\* pu: the transaction's Creator is written in the other accepted spelling of the sender's bech32 address
\* (all upper case).  The account is the same, so the spelling has NO effect on any action below (a session's
\* identity is by account); it only travels to the driver through the history.
RelayPayU(p, pu, rs) ==
  LET S == Walk(CurS, p, rs, 1, BadgeMap(rs, 1))
      ok == S.status = "ok" /\ S.nrej = 0
      L == MkLast("pay", p, ok, IF ok THEN "" ELSE IF S.status = "hard" THEN "hard" ELSE "soft", rs,
                  IF ok THEN S.out ELSE NoOut(rs))
  IN /\ IF ok THEN /\ unique' = S.unique /\ pec' = S.pec /\ pcec' = S.pcec /\ bused' = S.bused
                   /\ used' = S.used /\ mleft' = S.mleft /\ tracked' = S.tracked /\ pcache' = S.pcache
           ELSE UNCHANGED <<unique, pec, pcec, bused, used, mleft, tracked, pcache>>
     /\ last' = L
     /\ Ghosts(L)
     /\ Record([a |-> "pay", p |-> p, pu |-> pu, rs |-> rs])
     /\ UNCHANGED <<cur, off, earliest, df>>
RelayPay(p, rs) == RelayPayU(p, FALSE, rs)

\* badge-usage timers that fire when the chain reaches (c, o)
BadgeGC(B, c, o) == {r \in B : ~BadgeExpired([e |-> r.k[3], o |-> r.k[4]], c, o)}

Quiet(ev) == /\ last' = MkLast(ev, "", TRUE, "", <<>>, <<>>)
             /\ UNCHANGED <<credOnce, credTwice, sumRew, bcred>>
             /\ Record([a |-> ev, p |-> "", pu |-> FALSE, rs |-> <<>>])

NextEpoch(newdf) ==
  LET c == cur + 1
      ea == IF c - EpochsToSave > earliest THEN c - EpochsToSave ELSE earliest IN
  /\ cur < MaxEpoch
  /\ cur' = c /\ off' = 0 /\ earliest' = ea
  /\ df' = newdf
  /\ unique' = {k \in unique : k[1] >= ea}                \* RemoveOldEpochPayments
  /\ pec' = {r \in pec : r.k[1] >= ea}
  /\ pcec' = {r \in pcec : r.k[1] >= ea}
  /\ bused' = BadgeGC(bused, c, 0)
  /\ pcache' = {}
  /\ UNCHANGED <<used, mleft, tracked>>
  /\ Quiet("epoch")

NextBlock ==
  /\ off = 0
  /\ off' = 1 /\ bused' = BadgeGC(bused, cur, 1) /\ pcache' = {}
  /\ UNCHANGED <<cur, earliest, df, unique, pec, pcec, used, mleft, tracked>>
  /\ Quiet("block")

Down(newdf, ev) ==
  /\ off = 0
  /\ off' = 1 /\ bused' = BadgeGC(bused, cur, 1) /\ pcache' = {}
  /\ df' = newdf
  /\ UNCHANGED <<cur, earliest, unique, pec, pcec, used, mleft, tracked>>
  /\ Quiet(ev)

\* the downtime factor of the finished epoch ends at d; a late block doubles the current epoch's allowance
EpochDf(d) == Append([df EXCEPT ![cur + 1] = d], 1)
DownDf == [df EXCEPT ![cur + 1] = 2]
\* a very late block (several epoch durations): the CURRENT epoch gets a larger factor than finished epochs have
BigDownDf == [df EXCEPT ![cur + 1] = 7]

InitNoHist ==
        /\ cur = 0 /\ off = 0 /\ earliest = 0 /\ df = <<1>>
        /\ unique = {} /\ pec = {} /\ pcec = {} /\ bused = {} /\ tracked = {} /\ pcache = {}
        /\ used = [pr \in Projects |-> 0] /\ mleft = PlanTotal
        /\ last = MkLast("reset", "", TRUE, "", <<>>, <<>>)
        /\ credOnce = {} /\ credTwice = {} /\ sumRew = {} /\ bcred = {}
        /\ nops = 0
Init == InitNoHist /\ hist = <<>>

-----------------------------------------------------------------------------
\* relays explored: a valid relay with at most one mutated field
Base(p, sg, e, ss, cu) ==
  [sg |-> sg, pf |-> p, pfu |-> FALSE, sp |-> "S1", e |-> e, o |-> 0, ss |-> ss, cu |-> cu, lc |-> TRUE,
   q |-> "none", tm |-> "none", b |-> NoBadge]
BadgeFor(r, al) == [u |-> "b1", is |-> r.sg, e |-> r.e, o |-> r.o, al |-> al, lc |-> TRUE]
MutAt(r, m, c, o, ea) ==
  CASE m = "none"       -> r
    [] m = "prov"       -> [r EXCEPT !.pf = OtherProvider(r.pf)]
    [] m = "provupper"  -> [r EXCEPT !.pfu = TRUE]            \* the consumer signed the provider's address in upper case
    [] m = "specdis"    -> [r EXCEPT !.sp = "SD"]
    [] m = "specunk"    -> [r EXCEPT !.sp = "SX"]
    [] m = "specother"  -> [r EXCEPT !.sp = "S2"]
    [] m = "lava"       -> [r EXCEPT !.lc = FALSE]
    [] m = "future"     -> [r EXCEPT !.e = c + 1]
    [] m = "futureblk"  -> [r EXCEPT !.e = c, !.o = o + 1]
    [] m = "nonstart"   -> [r EXCEPT !.o = 1]
    [] m = "expired"    -> [r EXCEPT !.e = IF ea > 0 THEN ea - 1 ELSE 0]
    [] m = "neg"        -> [r EXCEPT !.e = -1]
    [] m = "sig"        -> [r EXCEPT !.tm = "sig"]
    [] m = "cutamper"   -> [r EXCEPT !.tm = "cu"]
    [] m = "unknown"    -> [r EXCEPT !.sg = "x"]
    [] m = "disproj"    -> [r EXCEPT !.sg = "k3"]
    [] m = "delsub"     -> [r EXCEPT !.sg = "c2"]
    [] m = "qbad"       -> [r EXCEPT !.q = "bad"]
    [] m = "qzero"      -> [r EXCEPT !.q = "zero"]
    [] m = "qone"       -> [r EXCEPT !.q = "one"]
    [] m = "badge"      -> [r EXCEPT !.sg = "b1", !.b = BadgeFor(r, 200)]
    [] m = "badgesmall" -> [r EXCEPT !.sg = "b1", !.b = BadgeFor(r, 100)]
    [] m = "badgehuge"  -> [r EXCEPT !.sg = "b1", !.cu = Wrap, !.b = BadgeFor(r, 200)]       \* CuSum = 2^64-5 (see Huge CU below)
    [] m = "badgeuser"  -> [r EXCEPT !.sg = "b2", !.b = BadgeFor(r, 200)]                    \* somebody else's badge
    [] m = "badgeepoch" -> [r EXCEPT !.sg = "b1", !.b = [BadgeFor(r, 200) EXCEPT !.o = 1 - r.o]]
    [] m = "badgechain" -> [r EXCEPT !.sg = "b1", !.b = [BadgeFor(r, 200) EXCEPT !.lc = FALSE]]
    [] m = "badgeissuer" -> [r EXCEPT !.sg = "b1", !.b = [BadgeFor(r, 200) EXCEPT !.is = "x"]]  \* not signed by a developer key
    [] m = "badgeplain" -> [r EXCEPT !.b = BadgeFor(r, 200)]                                   \* badge attached, relay signed by the developer
    [] OTHER            -> r

Mut(r, m) == MutAt(r, m, cur, off, earliest)
EpochChoices == {e \in {cur, cur - 1} : e >= 0}
RelayChoices(p, M) == {Mut(Base(p, sg, e, ss, cu), m) : sg \in Signers, e \in EpochChoices, ss \in Sessions, cu \in CUs, m \in M}
Bases(p) == RelayChoices(p, {"none"})
TxChoices(p) == {<<r>> : r \in RelayChoices(p, Muts)}
                \cup (IF MaxRelays >= 2
                      THEN {<<r1, r2>> : r1 \in Bases(p), r2 \in RelayChoices(p, Muts2)}
                           \cup {<<r1, r2>> : r1 \in RelayChoices(p, Muts2 \ {"none"}), r2 \in Bases(p)}
                           \cup {<<r1, r2>> : r1 \in RelayChoices(p, {"badge"} \cap Muts), r2 \in RelayChoices(p, {"badgesmall"} \cap Muts)}  \* two badges of one user
                      ELSE {})
                \cup (IF MaxRelays >= 3
                      THEN {<<r1, r2, r3>> : r1 \in Bases(p), r2 \in RelayChoices(p, Muts2), r3 \in Bases(p)}
                      ELSE {})

Env == \/ \E p \in Creators : \E rs \in TxChoices(p) : RelayPay(p, rs)
       \/ \E d \in {1, 4} : NextEpoch(EpochDf(d))
       \/ NextBlock
       \/ Down(DownDf, "down")
Next == nops < MaxOps /\ nops' = nops + 1 /\ Env
Spec == Init /\ [][Next]_vars

-----------------------------------------------------------------------------
\* Generator (-simulate): one choice per action kind, parameters drawn with RandomElement from
\* weighted sets (Weighted(F): F maps a value to its weight).
Weighted(F) == UNION {{<<x, i>> : i \in 1..F[x]} : x \in DOMAIN F}
Pick(F) == RandomElement(Weighted(F))[1]
Uniform(S) == [x \in S |-> 1]
GMuts == CASE Profile = "c03" -> ("none" :> 12 @@ "provupper" :> 2 @@ "qzero" :> 1 @@ "badge" :> 2 @@ "badgeplain" :> 1 @@ "nonstart" :> 1 @@ "specdis" :> 1
                                  @@ "expired" :> 2 @@ "unknown" :> 1 @@ "future" :> 1)
           [] Profile = "c04" -> ("none" :> 8 @@ "qzero" :> 2 @@ "qone" :> 1 @@ "badge" :> 1)
           [] Profile = "c18" -> ("badge" :> 6 @@ "badgesmall" :> 6 @@ "badgehuge" :> 1 @@ "none" :> 2 @@ "badgeuser" :> 1 @@ "badgeepoch" :> 1 @@ "badgechain" :> 1
                                  @@ "badgeissuer" :> 1 @@ "badgeplain" :> 1 @@ "qzero" :> 1 @@ "expired" :> 1)
           [] OTHER -> [m \in Muts |-> IF m = "none" THEN Cardinality(Muts) ELSE 1]
LateClaim == Profile = "c04" /\ cur >= 1 /\ df[cur + 1] >= 7     \* bias: claim relays of a finished epoch while the current one has more downtime
GCUs == CASE LateClaim -> (60 :> 2 @@ 150 :> 3 @@ 1000 :> 6)
          [] Profile = "c04" -> (10 :> 2 @@ 60 :> 7 @@ 100 :> 5 @@ 150 :> 7 @@ 1000 :> 2 @@ 1000000 :> 1 @@ 1000001 :> 1 @@ 1000002 :> 1)
          [] Profile = "c18" -> (10 :> 1 @@ 60 :> 2 @@ 100 :> 1 @@ 150 :> 1)
          [] OTHER -> Uniform(CUs)
GSigners == CASE LateClaim -> ("k1" :> 1 @@ "c1" :> 3)
              [] Profile = "c04" -> ("k1" :> 3 @@ "c1" :> 1)
              [] OTHER -> Uniform(Signers)
GCreators == IF Profile = "c05" THEN Uniform(Creators) ELSE [p \in Creators |-> IF p = "p1" THEN 3 ELSE 1]
\* (every random draw is passed as an operator ARGUMENT: TLC evaluates an argument once per call,
\* whereas a LET-bound RandomElement would be re-drawn at every reference)
GenRelay1(p, sg, e, ss, cu, m) == Mut(Base(p, sg, e, ss, cu), m)
GenRelay(p) == GenRelay1(p, Pick(GSigners), Pick(IF LateClaim THEN (cur :> 1) @@ ((cur - 1) :> 4) ELSE (cur :> 3) @@ Uniform({x \in {cur - 1, cur - 2} : x >= 0})),
                         Pick(Uniform(Sessions)), Pick(GCUs), Pick(GMuts))
\* dup = 1: second relay repeats the first, 2: same session re-signed with another CU, 3 (c18, c04): huge CuSum, 4 (c03): other spelling of the provider
GenPay2(p, pu, n, dup, r1, r2, r3, cu2) ==
  LET r2d == IF dup = 1 THEN r1 ELSE IF dup = 2 THEN [r1 EXCEPT !.cu = cu2]
             ELSE IF dup = 3 /\ (Profile = "c04" \/ (r1.b.u # "-" /\ r1.b.u = r1.sg))
                  THEN [r1 EXCEPT !.cu = Wrap, !.ss = (r1.ss % 3) + 1]      \* same signer/badge/epoch, another session, CuSum = 2^64-5
             ELSE IF dup = 4 THEN [r1 EXCEPT !.pfu = TRUE]                      \* same proof re-signed for the other spelling of the provider
             ELSE r2
      rs == IF n = 1 THEN <<r1>> ELSE IF n = 2 THEN <<r1, r2d>> ELSE <<r1, r2d, r3>>
  IN RelayPayU(p, pu, rs)
GenPay1(p) == GenPay2(p, Pick(FALSE :> 3 @@ TRUE :> 1), Pick(Uniform(1..MaxRelays)), Pick(0 :> 4 @@ 1 :> 2 @@ 2 :> 2 @@ 3 :> (IF Profile \in {"c18", "c04"} THEN 1 ELSE 0) @@ 4 :> (IF Profile = "c03" THEN 1 ELSE 0)), GenRelay(p), GenRelay(p), GenRelay(p), Pick(GCUs))
GenPay == GenPay1(Pick(GCreators))
GenStep(k, d) ==
  \/ k = "pay" /\ GenPay
  \/ k = "epoch" /\ IF cur < MaxEpoch THEN NextEpoch(EpochDf(d)) ELSE GenPay
  \/ k = "block" /\ IF off = 0 THEN NextBlock ELSE GenPay
  \/ k = "down" /\ IF off = 0 THEN Down(DownDf, "down") ELSE GenPay
  \/ k = "bigdown" /\ IF off = 0 THEN Down(BigDownDf, "bigdown") ELSE GenPay
GKinds == CASE Profile = "c03" -> ("pay" :> 6 @@ "epoch" :> 4 @@ "block" :> 1 @@ "down" :> 1)
            [] Profile = "c18" -> ("pay" :> 6 @@ "epoch" :> 3 @@ "block" :> 2 @@ "down" :> 1)
            [] Profile = "c04" -> ("pay" :> 6 @@ "epoch" :> 2 @@ "block" :> 1 @@ "down" :> 1 @@ "bigdown" :> 1)
            [] OTHER -> ("pay" :> 6 @@ "epoch" :> 2 @@ "block" :> 1 @@ "down" :> 1)
GenNext == /\ nops < MaxOps /\ nops' = nops + 1
           /\ GenStep(Pick(GKinds), Pick(1 :> 1 @@ 4 :> 1))

\* C05 matrix (exhaustive emit, Payments_matrix*.cfg): every INITIAL state is one behaviour - four epochs
\* and one block (so that an expired epoch exists and a non-epoch-start block is not in the future),
\* then ONE transaction of n relays whose k-th relay carries the single-field mutation m; the other
\* relays are valid (distinct sessions).
MatrixPrefix == <<[a |-> "epoch", p |-> "", pu |-> FALSE, rs |-> <<>>], [a |-> "epoch", p |-> "", pu |-> FALSE, rs |-> <<>>], [a |-> "epoch", p |-> "", pu |-> FALSE, rs |-> <<>>],
                  [a |-> "epoch", p |-> "", pu |-> FALSE, rs |-> <<>>], [a |-> "block", p |-> "", pu |-> FALSE, rs |-> <<>>]>>
MatrixTx(p, sg, m, n, k) == [i \in 1..n |-> IF i = k THEN MutAt(Base(p, sg, 4, i, 60), m, 4, 1, 1) ELSE Base(p, "c1", 4, i, 10)]
MatrixInit == /\ InitNoHist
              /\ \E p \in Creators, sg \in Signers, m \in Muts, n \in 1..MaxRelays, k \in 1..MaxRelays :
                    /\ k <= n
                    /\ hist = Append(MatrixPrefix, [a |-> "pay", p |-> p, pu |-> FALSE, rs |-> MatrixTx(p, sg, m, n, k)])
MatrixNext == UNCHANGED vars
MatrixEmit == PrintT(<<"BEH", ToJson(hist)>>)
Emit == nops < MaxOps \/ PrintT(<<"BEH", ToJson(hist)>>)

-----------------------------------------------------------------------------
\* Properties.  Everything that reads the observation record `last` is an ACTION property on the step
\* that produced it (`last` is hidden by the VIEW, so state invariants over it would be skipped on
\* merged states); the ghosts are ordinary state.  All formulas read only the observable projection,
\* `last` and the ghosts, so the same formulas are evaluated on real traces (Trace_Payments, Obs mode).
Acc(L) == IF L.ev = "pay" /\ L.ok THEN {i \in 1..Len(L.rs) : L.out[i].acc} ELSE {}
GroupOf(L, i) == <<L.rs[i].e, L.p, L.out[i].proj, L.rs[i].sp>>
KeyOf(L, i) == <<L.rs[i].e, L.p, L.out[i].proj, L.rs[i].sp, L.rs[i].ss>>
SumCu(L, I) == LET RECURSIVE F(_) F(J) == IF J = {} THEN 0 ELSE LET i == CHOOSE x \in J : TRUE IN L.rs[i].cu + F(J \ {i}) IN F(I)
StoresOf == <<unique, pec, pcec, bused, used, mleft, tracked>>

\* ---- C03: a session is paid at most once; never after its epoch left chain memory
C03_AtMostOnce == credTwice = {}                               \* state invariant over the ghost
C03_Step ==
  LET L == last' A == Acc(L) IN
  (L.ev = "pay") =>
     /\ \A i \in A : L.rs[i].e >= earliest /\ BlockLe(L.rs[i].e, L.rs[i].o, cur, off)  \* only epochs in memory, never the future
     /\ ~L.ok => StoresOf' = StoresOf                            \* a failed transaction reverts
     /\ unique' = unique \cup {KeyOf(L, i) : i \in A}
     /\ Cardinality(unique') = Cardinality(unique) + Cardinality(A)   \* distinct and not paid before
     /\ \A g \in {GroupOf(L, i) : i \in A} \cup {r.k : r \in pcec} \cup {r.k : r \in pcec'} :
          \* every CU added to the provider/project epoch counter is attributable to an accepted relay
          Get(pcec', g) = Sat(Get(pcec, g) + SumCu(L, {i \in A : GroupOf(L, i) = g}))
C03_StepProp == [][C03_Step]_vars

\* ---- C04: credited CU <= signed CU, epoch allowance, QoS only lowers
TrackedSum(T) == LET RECURSIVE F(_) F(S) == IF S = {} THEN 0 ELSE LET r == CHOOSE x \in S : TRUE IN r.v + F(S \ {r}) IN Sat(F(T))
RewSum(L) == LET RECURSIVE F(_) F(J) == IF J = {} THEN 0 ELSE LET i == CHOOSE x \in J : TRUE IN L.out[i].rew + F(J \ {i}) IN Sat(F(Acc(L)))
C04_LeSigned == LET L == last' IN \A i \in Acc(L) : L.out[i].rew <= L.rs[i].cu
C04_EpochBound == LET L == last' IN \A i \in Acc(L) : Get(sumRew', GroupOf(L, i)) <= EffEpoch(L.out[i].proj) * L.dfe[i]
C04_Qos == (last'.ev = "pay") =>
              /\ TrackedSum(tracked') <= Sat(TrackedSum(tracked) + RewSum(last'))      \* QoS can only lower the credit
              /\ TrackedSum(tracked') >= TrackedSum(tracked)
C04_LeSignedProp == [][C04_LeSigned]_vars
C04_EpochBoundProp == [][C04_EpochBound]_vars
C04_QosProp == [][C04_Qos]_vars

\* ---- C05: only authentic, paired relays are accepted; everything else changes nothing
Authentic(L, i) ==
  LET r == L.rs[i]
      ab == AppliedBadge(L.rs, i)
      viaBadge == ab.u # "-"
      dev == IF viaBadge THEN ab.is ELSE r.sg
      pr == DevProject(dev) IN
  /\ r.tm = "none"                                   \* signature covers the submitted fields
  /\ pr # "-" /\ ProjEnabled(pr) /\ pr = L.out[i].proj  \* developer key (or badge signed by one) of an enabled project, charged to it
  /\ viaBadge => ab.lc                               \* (badge user and block equal the relay's by construction)
  /\ r.pf = L.p /\ r.lc
  /\ r.e >= earliest /\ BlockLe(r.e, r.o, cur, off) /\ r.o = 0
  /\ SpecOK(r.sp) /\ L.p \in Paired(r.sp)
C05_Step == LET L == last' IN
  (L.ev = "pay") => /\ \A i \in Acc(L) : Authentic(L, i)
                    /\ ~L.ok => (StoresOf' = StoresOf /\ \A i \in 1..Len(L.rs) : ~L.out[i].acc)
C05_StepProp == [][C05_Step]_vars

\* ---- C18: badge usage <= allocation; honoured only for its user / epoch / chain and before expiry
C18_UsedLeAlloc == \A r \in bused : r.v <= r.k[5]              \* state invariants
C18_CreditLeAlloc == \A r \in bcred : r.v <= r.k[5]
C18_Step ==
  LET L == last'
      B == {i \in Acc(L) : AppliedBadge(L.rs, i).u # "-"}
      keys == {BKey(AppliedBadge(L.rs, i), L.p) : i \in B} IN
  /\ \A i \in B : AppliedBadge(L.rs, i).lc /\ ~BadgeExpired(AppliedBadge(L.rs, i), cur, off)
  /\ \A k \in keys : /\ Has(bused', k)
                      /\ Get(bused', k) >= Get(bused, k) + SumCu(L, {i \in B : BKey(AppliedBadge(L.rs, i), L.p) = k})
C18_StepProp == [][C18_Step]_vars

TypeOK == /\ cur \in 0..MaxEpoch /\ off \in {0, 1} /\ earliest \in 0..cur /\ Len(df) = cur + 1
          /\ mleft \in 0..PlanTotal

View == <<cur, off, earliest, df, unique, pec, pcec, bused, used, mleft, tracked, pcache,
          credOnce, credTwice, sumRew, bcred, nops>>
=============================================================================
