-------------------------- MODULE Trace_Dualstaking --------------------------
(* Obs-mode validation of traces recorded from the real pairing / dualstaking / epochstorage / staking
   keepers (harness/t/dualstaking).  The state variables take the logged projection; the invariants
   of C07 (and the mirror invariant of C06) are evaluated by TLC on every real state and reported
   per signature "<clause>@<operation>" (PrintT "VIOL"), so that a known finding never hides another
   violation.  In the same pass the spec's prediction for the step is compared with the logged state
   (PrintT "DRIFT" - never a verdict: the model has no slashing / cancel-unbond arithmetic). *)
EXTENDS Dualstaking, IOUtils
VARIABLES l, pre, op, okk, diffs
Trace == ndJsonDeserialize(IOEnv.VERIF_TRACE)
tvars == <<vars, l, pre, op, okk, diffs>>

LogE(r) == [p \in Provs |-> [c \in Chains |-> [on |-> r.e[p][c].on, stake |-> r.e[p][c].stake,
                                               dt |-> r.e[p][c].dt, frozen |-> r.e[p][c].frozen]]]
LogM(r) == [p \in Provs |-> [on |-> r.m[p].on, chains |-> r.m[p].chains, total |-> r.m[p].total,
                             moved |-> r.m[p].moved]]
LogDg(r) == [q \in PE |-> [w \in Who |-> r.dg[q][w]]]
LogVd(r) == [w \in Who |-> [v \in Vals |-> r.vd[w][v]]]

TInit == /\ Init /\ l = 1 /\ Trace[1].ev = "reset" /\ pre = [e |-> e, m |-> m, dg |-> dg, vd |-> vd]
         /\ op = "reset" /\ okk = TRUE /\ diffs = [w \in Who |-> 0]
TNext == /\ l < Len(Trace) /\ l' = l + 1
         /\ LET r == Trace[l + 1] IN
            /\ e' = LogE(r) /\ m' = LogM(r) /\ dg' = LogDg(r) /\ vd' = LogVd(r)
            /\ op' = r.ev /\ okk' = (r.ok /\ ~r.panic)
            /\ diffs' = [w \in Who |-> r.diff[w]]
            /\ pre' = IF r.ev = "reset" THEN [e |-> LogE(r), m |-> LogM(r), dg |-> LogDg(r), vd |-> LogVd(r)]
                      ELSE [e |-> e, m |-> m, dg |-> dg, vd |-> vd]
            /\ lastp' = IF r.ev = "reset" THEN {} ELSE Changed(e, dg, LogE(r), LogDg(r))
            /\ UNCHANGED <<nops, hist>>
TSpec == TInit /\ [][TNext]_tvars

(* the spec's own prediction of the step, from the previous real state *)
PW == [e |-> pre.e, m |-> pre.m, dg |-> pre.dg, vd |-> pre.vd]
Predict(r) ==
  LET a == r.a IN
  CASE r.ev = "stake" -> StakeW(PW, a.p, a.c, a.amt, a.v)
    [] r.ev = "move" -> MoveW(PW, a.p, a.c, a.c2, a.amt)
    [] r.ev = "unstakeV" -> UnstakeW(PW, a.p, a.c, TRUE, a.v)
    [] r.ev = "unstakeP" -> UnstakeW(PW, a.p, a.c, FALSE, a.v)
    [] r.ev = "dsdelegate" -> DelegateFull(PW, a.w, a.v, a.p, a.amt, FALSE)
    [] r.ev = "dsunbond" -> UnbondFull(PW, a.w, a.v, a.p, a.amt, FALSE)
    [] r.ev = "dsredelegate" -> Redelegate(PW, a.w, a.p, a.p2, a.amt, FALSE)
    [] r.ev = "valdelegate" -> Ok([PW EXCEPT !.vd[a.w][a.v] = @ + a.amt, !.dg[EMPTY][a.w] = @ + a.amt])
    [] r.ev = "valundelegate" -> IF PW.vd[a.w][a.v] < a.amt THEN Fail(PW)
                                 ELSE UnbondUniform([PW EXCEPT !.vd[a.w][a.v] = @ - a.amt], a.w, a.amt)
    [] r.ev = "valredelegate" -> IF PW.vd[a.w][a.v] < a.amt \/ a.v = a.v2 THEN Fail(PW)
                                 ELSE Ok([PW EXCEPT !.vd[a.w][a.v] = @ - a.amt, !.vd[a.w][a.v2] = @ + a.amt])
    [] OTHER -> Ok(PW)
Modelled(ev) == ev \in {"stake", "move", "unstakeV", "unstakeP", "dsdelegate", "dsunbond", "dsredelegate",
                        "valdelegate", "valundelegate", "valredelegate", "nextday"}
Agrees(r) == LET x == Predict(r)
                 w == IF x.ok THEN x.w ELSE PW
             IN /\ x.ok = (r.ok /\ ~r.panic)
                /\ w.e = e /\ w.dg = dg /\ w.vd = vd
                /\ \A p \in Provs : w.m[p].on = m[p].on /\ w.m[p].chains = m[p].chains /\ w.m[p].total = m[p].total

Abs(x) == IF x < 0 THEN -x ELSE x
MirrorTol == \A w \in Who : Abs(SumSet([q \in PE |-> dg[q][w]], PE) - SumSet([v \in Vals |-> vd[w][v]], Vals)) <= Cardinality(Vals)
NonNegative == \A q \in PE, w \in Who : dg[q][w] >= 0
\* a failed transaction changes nothing (atomicity, as on the real chain)
FailedTxNoChange == (~okk /\ op \notin {"reset", "slash", "nextday"}) =>
                      (e = pre.e /\ dg = pre.dg /\ vd = pre.vd /\ \A p \in Provs : [m[p] EXCEPT !.moved = FALSE] = [pre.m[p] EXCEPT !.moved = FALSE])

Viol(sig) == PrintT(<<"VIOL", l, sig>>)
Report ==
  /\ MetaChains \/ Viol("MetaChains")
  /\ SelfStake \/ Viol("SelfStake")
  /\ TotalDelegations \/ Viol("TotalDelegations")
  /\ DelegateTotals \/ Viol("DelegateTotals")
  /\ FrozenBelowMin \/ Viol("FrozenBelowMin")
  /\ MirrorTol \/ Viol("Mirror")
  /\ NonNegative \/ Viol("NonNegative")
  /\ FailedTxNoChange \/ Viol("FailedTxNoChange")
  /\ (l = 1 \/ ~Modelled(op) \/ Agrees(Trace[l])) \/ PrintT(<<"DRIFT", l, op>>)

Post == LET dm == TLCGet("stats").diameter IN PrintT(<<"HWM", dm>>) /\ dm = Len(Trace)
=============================================================================
