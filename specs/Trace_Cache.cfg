CONSTANTS
  Bases = {1}
  Variants = {"base"}
  SetVariants = {"base"}
  Blks = {5}
  NegTags = {2}
  Hashes = {0}
  Sizes = {1}
  Lats = {0}
  Sids = {""}
  MaxOps = 1000
  MaxDrops = 0
  GenHist = FALSE
INIT TInit
NEXT TNext
INVARIANTS HitSound BytesOK HashRule Unchanged NoPanic KeySound DriftEmit
POSTCONDITION Post
CHECK_DEADLOCK FALSE
