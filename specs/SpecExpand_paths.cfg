CONSTANTS
  Family = "paths"
  MaxImp = 1
  Ordered = TRUE
  Shapes = "core"
  Level = 0
  Fixed = TRUE
INIT Init
NEXT Next
INVARIANTS RejectsInv CompleteInv NoDupInv NoJunkInv CUInv
CHECK_DEADLOCK FALSE
