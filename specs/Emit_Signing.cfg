CONSTANTS
  AsFound = FALSE
  InPlace = FALSE
  MdLen = 2
INIT EInit
NEXT ENext
CHECK_DEADLOCK FALSE
