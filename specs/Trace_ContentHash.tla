--------------------------- MODULE Trace_ContentHash ---------------------------
(* Judges (request pair, real hashes) lines recorded by harness/cmd/contenthash.
     collision:{fields}             real hashes equal for different requests, and ContentHash.tla's
                                    encoding collides as well (delimiter-free concatenation, F11);
                                    fields = set of differing fields = the collision class
     collision-unmodelled:{fields}  real hashes equal although the model's encodings differ
                                    (e.g. a field that is not hashed at all)
     drift:model-collides:{fields}  the model's encodings collide but the real hashes differ
     inconsistent-provider-check    session-reuse check disagrees with hash equality
     encoding-mismatch              the real GetContentHashData bytes (e1, e2: decoded back into letters by
                                    the harness) are not the model's Enc of the request *)
EXTENDS ContentHash, IOUtils
VARIABLE l
Trace == ndJsonDeserialize(IOEnv.VERIF_TRACE)
Tag(cond, t) == IF cond THEN {t} ELSE {}
Judge(r) == LET m == Enc(r.r1) = Enc(r.r2)
                c == ClassName(Diff(r.r1, r.r2))
            IN  Tag(r.equal /\ r.r1 # r.r2 /\ m, "collision:" \o c)
                \cup Tag(r.equal /\ r.r1 # r.r2 /\ ~m, "collision-unmodelled:" \o c)
                \cup Tag(~r.equal /\ m, "drift:model-collides:" \o c)
                \cup Tag(r.equal # r.reuse, "inconsistent-provider-check")
                \cup Tag(r.e1 # Enc(r.r1) \/ r.e2 # Enc(r.r2), "encoding-mismatch")
                \cup Tag(r.same # (r.r1 = r.r2), "harness:instantiation-not-injective")
Check(r) == \E bad \in {Judge(r)} :
            IF bad = {} THEN TRUE ELSE PrintT(<<"BAD", ToJson([id |-> r.id, classes |-> bad])>>)
TInit == /\ \E T \in {Trace} : r1 \in {T[i] : i \in 1..Len(T)}
         /\ out = <<>> /\ l = 0
TNext == l = 0 /\ Check(r1) /\ l' = 1 /\ UNCHANGED vars
Post == LET d == TLCGet("stats").distinct IN PrintT(<<"HWM", d \div 2>>) /\ d = 2 * Len(Trace)
=============================================================================
