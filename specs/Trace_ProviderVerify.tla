------------------------- MODULE Trace_ProviderVerify -------------------------
(* Validation of traces recorded from a real RPCProviderServer (harness/cmd/provverify).
   Obs mode (decides C39): the logged provider state (consumers A, B and the recovered signer X:
   registered, used CU, sessions with CuSum / RelayNum / lock flag), the logged verdict, the proofs
   handed to the reward server and the ground-truth request flags become the next state; the C39
   invariants of ProviderVerify.tla are evaluated on these real states.
   Conf mode (VERIF_CONF = 1, drift only): additionally the verdict and the state must be the ones
   the guard ladder Handle() predicts. *)
EXTENDS ProviderVerify, IOUtils
VARIABLE l
Trace == ndJsonDeserialize(IOEnv.VERIF_TRACE)
Conf == IOEnv.VERIF_CONF = "1"
tvars == <<vars, l>>

ToSet(s) == {s[i] : i \in 1..Len(s)}
SessOf(list) == [s \in Sids |->
                  IF \E i \in 1..Len(list) : list[i].sid = s
                  THEN LET i == CHOOSE i \in 1..Len(list) : list[i].sid = s
                       IN [has |-> TRUE, cu |-> list[i].cu, rn |-> list[i].rn, locked |-> list[i].locked]
                  ELSE NoSess]
CsOf(c) == [reg |-> c.reg, used |-> c.used, sess |-> SessOf(c.sess)]
\* sessions with ids outside Sids would be invisible to the invariants: refuse such traces
Covered(c) == \A i \in 1..Len(c.sess) : c.sess[i].sid \in Sids
\* the reward-server mock logs consumer / session / CuSum / epoch of every proof it is handed
ProofSet(r, ep) == {[c |-> r.proofs[i].c, ep |-> r.proofs[i].ep, sid |-> r.proofs[i].sid, cu |-> r.proofs[i].cu] : i \in 1..Len(r.proofs)}
ReqOf(r) == [nil |-> r.nil, provok |-> r.provok, specok |-> r.specok, lavaok |-> r.lavaok, ep |-> r.ep, epochok |-> r.epochok,
             hashok |-> r.hashok, who |-> r.who, pairing |-> [e \in VEpochs |-> r.pairby[e]], parseok |-> r.parseok, seenok |-> r.seenok,
             addonok |-> r.addonok, sid |-> r.reqsid, cusum |-> r.cusum, relaynum |-> r.relaynum]

TInit == Init /\ l = 1 /\ Trace[1].ev = "reset"
Logged(r) == /\ \A e \in VEpochs, c \in Known : Covered(r.st[e][c])
             /\ Covered(r.X)
             /\ cons' = [e \in VEpochs |-> [c \in Known |-> CsOf(r.st[e][c])]]
TReset == LET r == Trace[l + 1] IN
          /\ r.ev = "reset" /\ Logged(r) /\ out' = NoOut /\ nops' = 0 /\ hist' = <<>>
TEnd == LET r == Trace[l + 1] IN
        /\ r.ev = "end" /\ Logged(r) /\ nops' = nops /\ hist' = hist
        /\ out' = [NoOut EXCEPT !.ev = "end", !.pre = cons, !.proofs = ToSet(r.proofs)]
TRelay == LET r == Trace[l + 1] IN
          /\ r.ev = "relay" /\ ~r.panic /\ Logged(r) /\ nops' = nops + 1 /\ hist' = hist
          /\ r.nil \/ r.reqsid \in Sids
          /\ Covered(r.Xpre)
          /\ (r.epochok <=> r.ep \in VEpochs)
          /\ out' = [ev |-> "relay", req |-> ReqOf(r), served |-> r.served, why |-> "", pre |-> cons, xpre |-> CsOf(r.Xpre),
                     x |-> CsOf(r.X), asked |-> ToSet(r.asked), proofs |-> ProofSet(r, r.ep)]
          /\ Conf => LET q == ReqOf(r)
                         known == q.who \in Known /\ q.ep \in VEpochs
                         h == Handle(IF known THEN cons[q.ep][q.who] ELSE CsOf(r.Xpre), q)
                     IN /\ h.served = r.served
                        /\ (known => cons'[q.ep][q.who] = h.cs)
                        /\ (~known => CsOf(r.X) = h.cs)
                        /\ ToSet(r.asked) = h.asked
                        /\ ProofSet(r, r.ep) = h.proofs
TNext == /\ l < Len(Trace) /\ l' = l + 1
         /\ (TReset \/ TEnd \/ TRelay)
TSpec == TInit /\ [][TNext]_tvars

\* at the end of a behaviour no late proof may show up
NoLateProof == out.ev = "end" => (out.proofs = {} /\ cons = out.pre)
Post_ == LET d == TLCGet("stats").diameter IN PrintT(<<"HWM", d>>) /\ d = Len(Trace)
=============================================================================
