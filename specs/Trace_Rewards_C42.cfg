CONSTANTS
  Specs = {"S1", "S2"}
  Provs = {"P1", "P2", "P3"}
  Subs = {"C1", "C2"}
  Day = 86400
  BlockTime = 300
  Epoch0 = 1714525261
  FixF3 = TRUE
  BurnNum = 1
  BurnDen = 2
  MaxBoost = 5
  MaxId = 12
  MaxOps = 100000
  GenHist = FALSE
  Amounts = {0}
  CUs = {0}
  Funds = {0}
  Dts = {300}
  Focus = "all"
  MonthLen = 2592000
INIT TInit
NEXT TNext
POSTCONDITION Post
CHECK_DEADLOCK FALSE
INVARIANTS C42_Share C42_Roll C42_Records C42_Pool C42_Conservation C42_NoPastPromise C42_Paid C42_Community C42_Eligible C42_Fund C42_TaxDest C42_NoPanic
