CONSTANTS
  Provs = {"p1", "p2", "p3"}
  Relays = {1, 2, 3, 4, 5}
  MaxCU = 0
  CUs = {1}
  MaxVE = 2
  MaxUpdates = 2
  MaxOps = 1000000
  MaxSess = 3
  ConsecLimit = 15
  FailKinds = {"plain", "block", "report", "sync"}
  PairingSets = {{"p1"}}
  Supp = {"p1", "p3"}
  Addons = {FALSE, TRUE}
  SplitReserve = FALSE
INIT TInit
NEXT TNext
INVARIANTS NotDone
CHECK_DEADLOCK FALSE
