CONSTANTS
  Keys = {"a", "b"}
  MaxE = 6
  MaxOps = 12
  GenHist = TRUE
  GenKinds = {"H"}
INIT Init
NEXT GenNext
INVARIANTS Emit
CHECK_DEADLOCK FALSE
