---------------------------- MODULE RetryPolicyEmit ----------------------------
(* Exhaustive emission of the bounded input domain of RetryPolicy!Decide / OnSend together with the
   spec's outputs (one initial state = one group of inputs; rows = every results summary / every
   send-error sequence).  checks/C34.py feeds the same inputs to the real relaypolicy.Policy and
   requires equal outputs on every row. *)
EXTENDS RetryPolicy

\* ---------------------------------------------------------------------------------------------
\* Exhaustive emission of the bounded domain (one initial state = one group)
\* ---------------------------------------------------------------------------------------------
CONSTANTS MaxRetriesSet, RetryLimitSet, MaxAttempt, MaxNe, MaxSne, MaxPe, MaxCnt,
          SendAttemptsSet, ThresholdSet, MaxSeq, EmitWhat,
          Reduced   \* TRUE: for sel # stateless keep only (attempt, hedge) - quick tier

VARIABLE g
B == BOOLEAN
ArchSet == {[nil |-> TRUE, a |-> FALSE, u |-> FALSE]} \cup [nil : {FALSE}, a : B, u : B]

NilArch == [nil |-> TRUE, a |-> FALSE, u |-> FALSE]
DecideGroupsAll ==
  [kind : {"decide"}, sel : Sels, attempt : 0..MaxAttempt, isBatch : B, disableBatch : B, hedge : B,
   arch : ArchSet, cnt : 0..MaxCnt, maxRetries : MaxRetriesSet, retryLimit : RetryLimitSet]
DecideGroups ==
  IF Reduced
  THEN {x \in DecideGroupsAll : x.sel # "stateless" => (x.arch = NilArch /\ x.cnt = 0 /\ ~x.isBatch /\ ~x.disableBatch)}
  ELSE DecideGroupsAll

Summaries == [ne : 0..MaxNe, sne : 0..MaxSne, pe : 0..MaxPe, succ : 0..1, nr : B, pp : B, em : B, hashErr : B]

InOf(grp, s) == [sel |-> grp.sel, attempt |-> grp.attempt, isBatch |-> grp.isBatch, hedge |-> grp.hedge,
                 arch |-> grp.arch, cnt |-> grp.cnt,
                 ne |-> s.ne, sne |-> s.sne, pe |-> s.pe, succ |-> s.succ, nr |-> s.nr, pp |-> s.pp,
                 em |-> s.em, hashErr |-> s.hashErr]
CfgOf(grp) == [maxRetries |-> grp.maxRetries, retryLimit |-> grp.retryLimit, disableBatch |-> grp.disableBatch]

Bit(b) == IF b THEN 1 ELSE 0
DecideRows(grp) ==
  {LET o == Decide(CfgOf(grp), InOf(grp, s)) IN
     <<s.ne, s.sne, s.pe, s.succ, Bit(s.nr), Bit(s.pp), Bit(s.em), Bit(s.hashErr),
       o.action, o.reason, o.arch, Bit(o.cache)>>
   : s \in Summaries}

RECURSIVE SeqsUpTo(_, _)
SeqsUpTo(S, n) == IF n = 0 THEN {<<>>}
                  ELSE LET P == SeqsUpTo(S, n - 1) IN P \cup {Append(p, x) : p \in {q \in P : Len(q) = n - 1}, x \in S}

SendGroups == [kind : {"send"}, sendAttempts : SendAttemptsSet, breaker : B, threshold : ThresholdSet]
SendRows(grp) == {<<es, RunSends(grp, [cbe |-> 0, cpe |-> 0], es)>> : es \in SeqsUpTo(SendErrs, MaxSeq) \ {<<>>}}

EInit == g \in (IF EmitWhat = "decide" THEN DecideGroups ELSE SendGroups)
ENext == FALSE /\ UNCHANGED g
Emit == PrintT(<<"BEH", ToJson([g |-> g, rows |-> IF g.kind = "decide" THEN DecideRows(g) ELSE SendRows(g)])>>)

\* ---------------------------------------------------------------------------------------------
\* Properties of the decision table itself (checked on the same initial states, *_props.cfg)
\* ---------------------------------------------------------------------------------------------
PropsDecide ==
  g.kind = "decide" =>
    \A s \in Summaries :
      LET in == InOf(g, s)  o == Decide(CfgOf(g), in) IN
        /\ (in.sel # "stateless" => o.action = "stop")                    \* stateful / cv never retried
        /\ (in.nr \/ in.pp => o.action = "stop")                          \* non-retryable errors stop
        /\ (in.attempt >= g.maxRetries => o.action = "stop")              \* hard ceiling
        /\ (o.action = "stop" => o.arch = "none" /\ ~o.cache)             \* no side effect on stop
=============================================================================
