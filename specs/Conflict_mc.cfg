CONSTANTS
  VoterSeq <- VS3
  Others = {"x"}
  Pairs = {"A"}
  EB = 2
  VP = 1
  SPAN = 2
  Base = 2
  MaxH = 8
  MaxDet = 1
  StakeVecs <- SVt
  Ages = {0, 1, 2}
  MaxOps = 0
  GenHist = FALSE
INIT Init
NEXT Next
VIEW View
INVARIANTS TypeOK Coherent
PROPERTIES C20Prop
CHECK_DEADLOCK FALSE
