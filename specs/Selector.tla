------------------------------ MODULE Selector ------------------------------
(* protocol/provideroptimizer/weighted_selector.go (used by provider_optimizer.go ChooseProvider /
   ChooseBestProvider = CalculateProviderScores followed by SelectProviderWithStats).

   Actions
     Score   CalculateProviderScores: walks allAddresses in order, skips ignored providers and
             providers without QoS data, gives every other provider a weight (here k eighths)
     Draw    SelectProviderWithStats: 0 candidates -> "", 1 candidate -> it (no random draw),
             total weight 0 -> uniform Intn(n), otherwise randomValue = u * total and the *interval rule*
             pick = first i with randomValue <= w_1 + .. + w_i
   The draw is represented by its cell c = ceil(8 * randomValue) in 0..total (weights are integers in
   eighths, so randomValue <= cum_i/8  <=>  c <= cum_i); c = 0 only for u = 0.

   Properties (C35)
     PickValid / PickExists   the pick is a candidate that is not ignored and has data; some pick
                              exists whenever such a candidate exists
     Proportional             every scored provider owns exactly k_i of the `total` cells 1..total,
                              i.e. an interval of length exactly w_i: given a uniform u the selection
                              probability is exactly w_i / total (uniformity of the PRNG is an assumption)
   The lattice part (weight in [minChance, 1], one-coordinate improvements never lower the weight) is
   about float arithmetic TLC does not have: LatticePairs enumerates the grid points and their
   one-coordinate improvements, the driver evaluates the real CalculateScore on both and logs the
   three-way comparison, Trace_Selector asserts it (exploration level). *)
EXTENDS Integers, Sequences, FiniteSets, TLC, Json

CONSTANTS NP,        \* number of addresses in allAddresses
          MaxK,      \* weights are 0..MaxK eighths
          GenHist

VARIABLES ignored, nodata, k, phase, scored, cell, pick
vars == <<ignored, nodata, k, phase, scored, cell, pick>>

AllProvs == <<"p1", "p2", "p3", "p4", "p5">>
Provs == SubSeq(AllProvs, 1, NP)        \* allAddresses, in this order
PS == {Provs[i] : i \in 1..Len(Provs)}
RECURSIVE Filter(_, _)
Filter(s, bad) == IF s = <<>> THEN <<>>
                  ELSE IF Head(s) \in bad THEN Filter(Tail(s), bad) ELSE <<Head(s)>> \o Filter(Tail(s), bad)
\* CalculateProviderScores: order of allAddresses kept
Scored(ign, nod) == Filter(Provs, ign \cup nod)

RECURSIVE Sum(_, _)
Sum(s, kk) == IF s = <<>> THEN 0 ELSE kk[Head(s)] + Sum(Tail(s), kk)
Cum(s, kk, i) == Sum(SubSeq(s, 1, i), kk)
Total(s, kk) == Sum(s, kk)

\* the interval rule; the fallback to the last provider is unreachable for c <= total
PickCell(s, kk, c) ==
  LET hits == {i \in 1..Len(s) : c <= Cum(s, kk, i)} IN
  IF hits = {} THEN s[Len(s)] ELSE s[CHOOSE i \in hits : \A j \in hits : i <= j]

\* SelectProviderWithStats as a function of the draw: c = cell (total > 0) or the Intn result (total = 0)
Select(s, kk, c) ==
  IF Len(s) = 0 THEN "" ELSE IF Len(s) = 1 THEN s[1]
  ELSE IF Total(s, kk) <= 0 THEN s[c + 1]
  ELSE PickCell(s, kk, c)
DrawRange(s, kk) == IF Len(s) <= 1 THEN {0} ELSE IF Total(s, kk) <= 0 THEN 0..(Len(s) - 1) ELSE 0..Total(s, kk)

Init == /\ ignored \in SUBSET PS /\ nodata \in SUBSET PS /\ k \in [PS -> 0..MaxK]
        /\ phase = "new" /\ scored = <<>> /\ cell = 0 /\ pick = ""
Score == /\ phase = "new" /\ scored' = Scored(ignored, nodata) /\ phase' = "scored"
         /\ UNCHANGED <<ignored, nodata, k, cell, pick>>
Draw  == /\ phase = "scored"
         /\ \E c \in DrawRange(scored, k) : cell' = c /\ pick' = Select(scored, k, c)
         /\ phase' = "picked" /\ UNCHANGED <<ignored, nodata, k, scored>>
Next == Score \/ Draw

Eligible == PS \ (ignored \cup nodata)
PickValid  == phase = "picked" => (pick = "" \/ pick \in Eligible)
PickExists == phase = "picked" => (Eligible # {} => pick # "")
ScoredOK   == phase # "new" => ({scored[i] : i \in 1..Len(scored)} = Eligible /\ Len(scored) = Cardinality(Eligible))
Owned(s, kk, p) == Cardinality({c \in 1..Total(s, kk) : PickCell(s, kk, c) = p})
Proportional == (phase = "scored" /\ Len(scored) >= 2 /\ Total(scored, k) > 0) =>
                  \A i \in 1..Len(scored) : Owned(scored, k, scored[i]) = k[scored[i]]
UniformWhenZero == (phase = "picked" /\ Len(scored) >= 2 /\ Total(scored, k) = 0) => pick = scored[cell + 1]

\* ---- generator: configurations (initial states); weights from KSet to keep the product small
CONSTANTS KSet
EInit == /\ ignored \in SUBSET PS /\ nodata \in SUBSET PS /\ k \in [PS -> KSet]
         /\ phase = "new" /\ scored = <<>> /\ cell = 0 /\ pick = ""
Emit == PrintT(<<"BEH", ToJson([ignored |-> ignored, nodata |-> nodata, k |-> k])>>)
ENext == FALSE /\ UNCHANGED vars

\* ---- lattice grid (indices; the driver owns the real values, better = larger index)
\* Adaptive bounds are part of the input: each of the two getters (latency, sync) is "off" or returns one
\* of the window kinds below through the selector's getter interface.  normalizeLatency / normalizeSync use
\* a window only if it is finite with 0 < p10 < p90 (WindowUsable); every other window - degenerate
\* (p10 = p90), reversed, zero, negative, NaN, infinite - must fall back to the fixed maximum, i.e. behave
\* exactly as if the getter were off.  Whatever the window: every weight is a finite number in
\* [minChance, 1], one-coordinate improvements never lower it, and the draw obeys the interval rule.
CONSTANTS NA, NL, NS, NK, Strategies, WKinds, WinMode
AllWKinds == {"off", "valid", "tight", "equal", "reversed", "zero", "bothzero", "negative", "nan10", "nan90", "inf90", "neginf10"}
WindowUsable(w) == w \in {"valid", "tight"}
Points == [a : 0..NA, l : 0..NL, s : 0..NS, k : 0..NK]
Coords == {"a", "l", "s", "k"}
CanImprove(p, co) == CASE co = "a" -> p.a < NA [] co = "l" -> p.l < NL [] co = "s" -> p.s < NS [] co = "k" -> p.k < NK
LatticePairs == {<<p.a, p.l, p.s, p.k, co>> : p \in Points, co \in Coords}
LegalPair(q) == /\ q[1] \in 0..NA /\ q[2] \in 0..NL /\ q[3] \in 0..NS /\ q[4] \in 0..NK /\ q[5] \in Coords
                /\ CanImprove([a |-> q[1], l |-> q[2], s |-> q[3], k |-> q[4]], q[5])
\* "diag": one getter at a time plus both getters with the same kind; "full": every combination
LatticeGroups == {g \in [strategy : Strategies, lw : WKinds, sw : WKinds] :
                    WinMode = "full" \/ g.lw = "off" \/ g.sw = "off" \/ g.lw = g.sw}
LegalGroup(st, lw, sw) == st \in Strategies /\ lw \in AllWKinds /\ sw \in AllWKinds
LInit == /\ ignored = {} /\ nodata = {} /\ k = [p \in PS |-> 0] /\ scored = <<>> /\ cell = 0 /\ pick = ""
         /\ phase \in {"pairs"} \cup {ToJson(g) : g \in LatticeGroups}
LEmit == IF phase = "pairs" THEN PrintT(<<"BEH", ToJson([pairs |-> {q \in LatticePairs : LegalPair(q)}])>>)
         ELSE PrintT(<<"BEH", phase>>)
=============================================================================
