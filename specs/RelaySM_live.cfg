CONSTANTS
  Sel = "stateful"
  MaxRetries = 1
  SendAttempts = 1
  RetryLimit = 1
  TimeoutPriority = FALSE
  NumFirst = 1
  Need = 1
  MaxTicks = 1
  MaxSendErrs = 1
  MaxResults = 1
  KindSet = {"ok", "ne"}
  BuCap = 1
  FixF34 = TRUE
  GenHist = FALSE
SPECIFICATION Spec
INVARIANTS TypeOK
PROPERTIES Termination
CHECK_DEADLOCK FALSE
