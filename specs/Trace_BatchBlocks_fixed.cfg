CONSTANTS
  NumBlocks = {}
  CallBlocks = {}
  LogBlocks = {}
  Extra = FALSE
  MaxLen = 1
  Latests = {0}
  Rule = 127
  Seed = TRUE
  EarliestLow = TRUE
  Guard = TRUE
  Tendermint = FALSE
  ZeroOk = TRUE
INIT TInit
NEXT TNext
POSTCONDITION Post
CHECK_DEADLOCK FALSE
