CONSTANTS
  Keys = {"a", "b"}
  MaxE = 6
  MaxOps = 10
  GenHist = TRUE
INIT Init
NEXT GenNext
INVARIANTS Emit
CHECK_DEADLOCK FALSE
