CONSTANTS
  Creators = {"p1"}
  Signers = {"c1"}
  CUs = {60}
  Sessions = {1}
  Muts = {"none", "prov", "specdis", "specunk", "specother", "lava", "future", "futureblk", "nonstart", "expired", "neg", "sig", "cutamper", "unknown", "disproj", "delsub", "qbad", "qzero", "qone", "badge", "badgesmall", "badgeuser", "badgeepoch", "badgechain", "badgeissuer", "badgeplain"}
  Muts2 = {"none"}
  MaxRelays = 3
  EpochsToSave = 3
  MaxEpoch = 8
  MaxOps = 8
  GenHist = TRUE
  F2Fixed = FALSE
  CuGuard = FALSE
  Profile = "c05"
INIT MatrixInit
NEXT MatrixNext
INVARIANTS MatrixEmit
CHECK_DEADLOCK FALSE
