------------------------ MODULE Trace_ProviderSessions ------------------------
(* Validation of traces recorded by harness/cmd/provsessions (gate-scheduler replay of TLC schedules
   on the real ProviderSessionManager).  One line per schedule step with the projected state.

   VERIF_MODE = "obs"  : vars' = logged projection; the C27 invariants / action properties are
                         evaluated on the real states.  A violation is a statement about the code.
   VERIF_MODE = "conf" : the logged step must be the spec's step of that process and produce the
                         logged state.  Rejection = the model mis-predicted the code (drift, exit 2). *)
EXTENDS ProviderSessions, IOUtils
VARIABLE l
Trace == ndJsonDeserialize(IOEnv.VERIF_TRACE)
Conf == IOEnv.VERIF_MODE = "conf"
tvars == <<vars, l>>

SmapOf(s) == [k \in {s[i][1] : i \in 1..Len(s)} |-> s[CHOOSE i \in 1..Len(s) : s[i][1] = k][2]]
Zero(r) == [p \in DOMAIN r.pc |-> 0]
NormOut(o) == [p \in DOMAIN o |-> IF o[p] = "noop" THEN "ok" ELSE o[p]]

Observed(r) == /\ pc' = r.pc /\ objs' = r.objs /\ smap' = SmapOf(r.smap)
               /\ used' = r.used /\ missing' = r.missing /\ reg' = r.reg /\ npswc' = r.npswc
               /\ blocked' = r.blocked /\ cur' = r.cur

Load(r) == /\ par' = r.par /\ Observed(r) /\ out' = r.out /\ mine' = r.mine
           /\ lu' = Zero(r) /\ lc' = Zero(r) /\ hist' = <<>>
           /\ creg' = (IF Len(r.par.pre) > 0 THEN {1} ELSE {})

TInit == /\ l = 1 /\ Trace[1].ev = "reset"
         /\ LET r == Trace[1] IN
              /\ par = r.par /\ pc = r.pc /\ out = r.out /\ objs = r.objs /\ smap = SmapOf(r.smap)
              /\ used = r.used /\ missing = r.missing /\ reg = r.reg /\ npswc = r.npswc /\ blocked = r.blocked /\ cur = r.cur
              /\ creg = (IF Len(r.par.pre) > 0 THEN {1} ELSE {})
              /\ mine = r.mine /\ lu = Zero(r) /\ lc = Zero(r) /\ hist = <<>>

ObsStep(r) == /\ r.ev \in {"step", "skip", "blocked"}
              /\ Observed(r) /\ out' = r.out /\ mine' = r.mine
              /\ UNCHANGED <<par, creg, lu, lc, hist>>

ConfStep(r) ==
  \/ /\ r.ev = "step"
     /\ Step(r.p) /\ UNCHANGED <<par, hist>>
     /\ Observed(r)
     /\ NormOut(out') = r.out
     /\ \A p \in Relays : Holding(p)' => mine'[p] = r.mine[p]
  \/ /\ r.ev = "skip" /\ pc[r.p] = "fin" /\ UNCHANGED vars

\* a reset line must start from what the spec's Init says for that scenario (conf mode)
ResetOK(r) == ~Conf \/ (LET P == r.par IN
                 /\ r.used = SeqSum([i \in 1..Len(P.pre) |-> P.pre[i].cu])
                 /\ r.reg = (Len(P.pre) > 0) /\ r.npswc = (IF Len(P.pre) > 0 THEN 1 ELSE 0)
                 /\ Len(r.objs) = Len(P.pre)
                 /\ \A i \in 1..Len(P.pre) : r.objs[i] = [sid |-> P.pre[i].sid, cuSum |-> P.pre[i].cu, latest |-> 0,
                                                          relayNum |-> 1, locked |-> FALSE]
                 /\ r.blocked = (IF P.epoch0 > P.dist THEN P.epoch0 - P.dist ELSE 0) /\ r.cur = P.epoch0
                 /\ r.missing = 0 /\ \A p \in DOMAIN r.pc : r.pc[p] = "start")

TNext == /\ l < Len(Trace) /\ l' = l + 1
         /\ LET r == Trace[l + 1] IN
              \/ (r.ev = "reset" /\ ResetOK(r) /\ Load(r))
              \/ (r.ev # "reset" /\ IF Conf THEN ConfStep(r) ELSE ObsStep(r))
TSpec == TInit /\ [][TNext]_tvars

IsReset == Trace[l].ev = "reset"
TAcceptWithinMax == [][IsReset' \/ AcceptWithinMaxA]_tvars
TRelayNumIncreases == [][IsReset' \/ RelayNumIncreasesA]_tvars
TAcceptedRelayNum == [][IsReset' \/ AcceptedRelayNumA]_tvars

Post == LET d == TLCGet("stats").diameter IN PrintT(<<"HWM", d>>) /\ d = Len(Trace)
=============================================================================
