----------------------------- MODULE Trace_Limiter -----------------------------
(* Validation of traces recorded by harness/cmd/limiter (gate-scheduler replay of TLC schedules on
   the real ResourceLimiter).  VERIF_MODE = "obs": vars' = logged projection, the C41 invariants are
   evaluated on the real states (a violation is a statement about the code).  "conf": every logged
   step must be the spec's step of that process with the logged result (rejection = drift, exit 2). *)
EXTENDS Limiter, IOUtils
VARIABLE l
Trace == ndJsonDeserialize(IOEnv.VERIF_TRACE)
Conf == IOEnv.VERIF_MODE = "conf"
tvars == <<vars, l>>

Observed(r) == /\ pc' = r.pc /\ wpc' = r.wpc /\ permH' = r.permH /\ permN' = r.permN
               /\ canc' = r.canc /\ first' = r.first /\ exec' = r.exec /\ done' = r.done /\ res' = r.res
               /\ why' = r.why /\ exret' = r.exret
               /\ rejected' = r.rejected /\ queued' = r.queued /\ timeouts' = r.timeouts

Fresh(P) == /\ chan' = [c \in DOMAIN P.cal |-> "none"] /\ st' = [c \in DOMAIN P.cal |-> "none"]
            /\ fired' = [x \in DOMAIN P.ev |-> FALSE] /\ hist' = <<>>

\* what a fresh limiter must look like (conf mode); in obs mode the logged state is loaded as it is
FreshOK(r) == ~Conf \/ (/\ r.qlen = 0 /\ r.wpc = "idle" /\ r.permH = 0 /\ r.permN = 0
                        /\ \A c \in DOMAIN r.pc : r.pc[c] = "start" /\ r.res[c] = "none")

Load(r) == /\ par' = r.par /\ Observed(r) /\ queue' = [i \in 1..r.qlen |-> "?"] /\ wcur' = "none" /\ Fresh(r.par)
           /\ FreshOK(r)

TInit == /\ l = 1 /\ Trace[1].ev = "reset"
         /\ LET r == Trace[1] IN
              /\ FreshOK(r)
              /\ par = r.par /\ pc = r.pc /\ wpc = r.wpc /\ wcur = "none" /\ permH = r.permH /\ permN = r.permN
              /\ queue = [i \in 1..r.qlen |-> "?"] /\ canc = r.canc /\ first = r.first
              /\ fired = [x \in DOMAIN r.par.ev |-> FALSE] /\ exec = r.exec /\ done = r.done /\ res = r.res
              /\ why = r.why /\ exret = r.exret /\ chan = [c \in DOMAIN r.par.cal |-> "none"]
              /\ st = [c \in DOMAIN r.par.cal |-> "none"]
              /\ rejected = r.rejected /\ queued = r.queued /\ timeouts = r.timeouts /\ hist = <<>>

ObsStep(r) == /\ r.ev \in {"step", "skip", "blocked"}
              /\ Observed(r)
              /\ queue' = [i \in 1..r.qlen |-> "?"]
              /\ wcur' = r.wcur
              /\ UNCHANGED <<par, fired, chan, st, hist>>

ConfStep(r) ==
  \/ /\ r.ev = "step"
     /\ Step(r.p) /\ UNCHANGED <<par, hist>>
     /\ Observed(r)
     /\ Len(queue') = r.qlen
     /\ r.wpc = "exec" => wcur' = r.wcur
  \/ /\ r.ev = "skip" /\ r.p \in Callers /\ pc[r.p] = "fin" /\ UNCHANGED vars

TNext == /\ l < Len(Trace) /\ l' = l + 1
         /\ LET r == Trace[l + 1] IN
              \/ (r.ev = "reset" /\ Load(r))
              \/ (r.ev # "reset" /\ IF Conf THEN ConfStep(r) ELSE ObsStep(r))
TSpec == TInit /\ [][TNext]_tvars

Post == LET d == TLCGet("stats").diameter IN PrintT(<<"HWM", d>>) /\ d = Len(Trace)
=============================================================================
