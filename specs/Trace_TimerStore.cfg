CONSTANTS
  Keys = {"a", "b"}
  MaxE = 6
  MaxOps = 1000
  GenHist = FALSE
  GenKinds = {"H", "T"}
INIT TInit
NEXT TNext
INVARIANTS NoLate NextSound ExactlyOnce NotEarly Ordered Unique
POSTCONDITION Post
CHECK_DEADLOCK FALSE
