----------------------------- MODULE ChainTracker -----------------------------
(* protocol/chaintracker/chain_tracker.go + wanted_block_data.go  (property C30)

   A node (environment) holds one canonical chain: a sequence of hash ids, index = height.  The
   node extends its chain by k blocks or reorganises the last d blocks into k new ones (d may be
   larger than the tracker memory N).  The tracker is a transcription, action by action, of

     Start  = StartAndServe -> fetchInitDataWithRetry -> fetchAllPreviousBlocks        (init)
     Poll   = fetchAllPreviousBlocksIfNecessary: FetchLatestBlockNum, gotNewBlock, forkChanged,
              fetchAllPreviousBlocks (readHashes / hashesOverlapIndexes / replaceBlocksQueue),
              the five callbacks (new-latest, fork, consistency, old-block, fetch-error)
     Query  = GetLatestBlockData -> WantedBlocksData.New / NewBlockRange / IterationIndexes /
              IsWanted / LatestArgToBlockNum

   One poll is atomic with respect to the node (the node does not move between the fetches of one
   poll - assumption of C30's "after every successful poll").  Environment faults of one poll:
     mode "err"    FetchLatestBlockNum fails with a plain error
     mode "neterr" FetchLatestBlockNum fails with an error that unwraps to a net.Error
     failAt = j>0  the j-th FetchBlockHashByNum call that reaches the node fails (transient)
     lag > 0       the node answers FetchLatestBlockNum with head - lag (stale head number, e.g. a
                   load-balanced endpoint) while serving hashes of its real chain
   DefaultChainTrackerFetcher's "too early block" guard (block < latest - serverBlockMemory) is
   transcribed too (constant M).

   Ghost variable `last` describes the last tracker action (kind, success, reported head, previous
   latest, fork callback fired, some stored hash differed from the node before the poll). *)
EXTENDS Integers, Sequences, FiniteSets, TLC, Json

CONSTANTS N,        \* blocksToSave
          M,        \* serverBlockMemory
          MaxLen,   \* longest node chain
          MaxOps,   \* operation budget
          InitLens, \* node chain lengths at tracker start
          QD,       \* distances d used in LATEST_BLOCK-d query arguments
          QA,       \* absolute query arguments are latest - N + a, a \in QA (cfg files have no negative numbers)
          NodeThenPoll, \* TRUE: a node step is always followed by a poll (consecutive node steps compose
                        \* into one Reorg(d,k)/Extend(k), so this loses no tracker-visible behaviour up to
                        \* the d,k bounds; used to reach more polls exhaustively)
          GenHist

VARIABLES chain,    \* node: sequence of hash ids, index = height (1-based)
          fresh,    \* next unused hash id
          started,  \* "no" | "ok" | "failed"
          q,        \* tracker blocksQueue: sequence of [b, h]
          latest,   \* tracker latestBlockNum
          cbs,      \* callbacks fired by the last action: sequence of [c, a, b, h]
          last,     \* ghost, see above
          nops,
          hist

vars == <<chain, fresh, started, q, latest, cbs, last, nops, hist>>

NA == -1          \* spectypes.NOT_APPLICABLE
LATEST == -2      \* spectypes.LATEST_BLOCK

Tail0(s, from) == SubSeq(s, from + 1, Len(s))      \* Go s[from:]
Slice0(s, a, b) == SubSeq(s, a + 1, b)             \* Go s[a:b]
LastOf(s) == s[Len(s)]
NoLast == [ev |-> "none", ok |-> FALSE, rep |-> 0, prev |-> 0, forkCb |-> FALSE, changed |-> FALSE]
Record(r) == hist' = IF GenHist THEN Append(hist, r) ELSE hist
CB(c, a, b, h) == [c |-> c, a |-> a, b |-> b, h |-> h]

-----------------------------------------------------------------------------
\* node environment
Extend(k) ==
  /\ k >= 1 /\ Len(chain) + k <= MaxLen
  /\ chain' = chain \o [i \in 1..k |-> fresh + i - 1] /\ fresh' = fresh + k
  /\ cbs' = <<>> /\ last' = [NoLast EXCEPT !.ev = "node"]
  /\ Record([a |-> "extend", d |-> 0, k |-> k])
  /\ UNCHANGED <<started, q, latest>>

Reorg(d, k) ==
  /\ d >= 1 /\ d < Len(chain) /\ k >= 0 /\ Len(chain) - d + k <= MaxLen
  /\ chain' = SubSeq(chain, 1, Len(chain) - d) \o [i \in 1..k |-> fresh + i - 1]
  /\ fresh' = fresh + k
  /\ cbs' = <<>> /\ last' = [NoLast EXCEPT !.ev = "node"]
  /\ Record([a |-> "reorg", d |-> d, k |-> k])
  /\ UNCHANGED <<started, q, latest>>

-----------------------------------------------------------------------------
\* tracker: fetching
\* DefaultChainTrackerFetcher.FetchBlockHashByNum: guard, then the node.  cnt = ordinal of this
\* call among the calls of the current poll that reach the node (the guard never lets a call
\* through once it fails, and a failing call ends the poll, so cnt is a function of the call site).
Fetch(bn, cnt, failAt) ==
  IF bn < latest - M THEN [err |-> TRUE, h |-> 0]
  ELSE IF cnt = failAt THEN [err |-> TRUE, h |-> 0]
  ELSE IF bn < 1 \/ bn > Len(chain) THEN [err |-> TRUE, h |-> 0]
  ELSE [err |-> FALSE, h |-> chain[bn]]

NoOverlap == [f |-> FALSE, s |-> 0, e |-> 0, ns |-> 0]
\* hashesOverlapIndexes(readIndexDiff = rid, newQueueIdx = idx, fetchedBlockNum, newHashForBlock)
Overlap(rid, idx, blockNum, h) ==
  LET saved == Len(q)
      qi == saved - 1 + rid - idx
  IN IF rid >= saved THEN NoOverlap
     ELSE IF qi > 0 /\ qi <= saved - 1
          THEN LET ex == q[qi + 1] IN
               IF ex.b # blockNum THEN NoOverlap
               ELSE IF ex.h = h
                    THEN LET ow == qi + 1 IN
                         IF ow < N - 1 - idx \/ rid > ow THEN NoOverlap
                         ELSE [f |-> TRUE, s |-> rid, e |-> ow, ns |-> ow - rid]
                    ELSE NoOverlap
          ELSE NoOverlap

\* readHashes: st = [err, s, e, ns, nq]; nq is the new queue under construction (0-based function)
RECURSIVE Read(_, _, _, _, _, _)
Read(idx, newLatest, rid, st, cnt0, failAt) ==
  IF idx = N THEN st
  ELSE LET bn == newLatest - idx
           r == Fetch(bn, cnt0 + idx, failAt)
       IN IF r.err THEN [st EXCEPT !.err = TRUE, !.s = 0, !.e = 0, !.ns = 0]
          ELSE LET o == Overlap(rid, idx, bn, r.h)
                   st1 == [st EXCEPT !.s = o.s, !.e = o.e, !.ns = o.ns]
               IN IF o.f THEN st1
                  ELSE Read(idx + 1, newLatest, rid,
                            [st1 EXCEPT !.nq = [@ EXCEPT ![N - 1 - idx] = [b |-> bn, h |-> r.h]]],
                            cnt0, failAt)

\* fetchAllPreviousBlocks(latestBlock = newLatest).  Result: [err, wrote, q, latest]
\*  wrote = replaceBlocksQueue ran (the "not enough blocks" error comes after the write)
FetchAll(newLatest, cnt0, failAt) ==
  IF newLatest < latest THEN [err |-> TRUE, wrote |-> FALSE, q |-> q, latest |-> latest]
  ELSE
  LET rid == newLatest - latest
      st0 == [err |-> FALSE, s |-> 0, e |-> 0, ns |-> 0, nq |-> [i \in 0..(N - 1) |-> [b |-> 0, h |-> 0]]]
      st == Read(0, newLatest, rid, st0, cnt0, failAt)
      nqSeq == [i \in 1..N |-> st.nq[i - 1]]
      newQ == IF st.ns > 0 THEN Slice0(q, st.s, st.e) \o Tail0(nqSeq, st.ns) ELSE nqSeq
  IN IF st.err THEN [err |-> TRUE, wrote |-> FALSE, q |-> q, latest |-> latest]
     ELSE [err |-> Len(newQ) < N, wrote |-> TRUE, q |-> newQ, latest |-> newLatest]

StoredChanged == \E i \in 1..Len(q) : q[i].b > Len(chain) \/ chain[q[i].b] # q[i].h

\* StartAndServe: fetchInitDataWithRetry (the retries see the same node, so they repeat the result)
Start ==
  /\ started = "no"
  /\ LET r == FetchAll(Len(chain), 1, 0) IN
       /\ started' = IF r.err THEN "failed" ELSE "ok"
       /\ q' = r.q /\ latest' = r.latest
       /\ last' = [NoLast EXCEPT !.ev = "start", !.ok = ~r.err, !.rep = Len(chain)]
  /\ cbs' = <<>>
  /\ Record([a |-> "start", d |-> 0, k |-> Len(chain)])     \* k = node chain length at start
  /\ UNCHANGED <<chain, fresh>>

\* fetchAllPreviousBlocksIfNecessary
PollResult(mode, lag, failAt) ==
  LET fail == [ok |-> FALSE, q |-> q, latest |-> latest, cbs |-> <<>>, forkCb |-> FALSE] IN
  IF mode = "err" THEN [fail EXCEPT !.cbs = <<CB("fetcherr", 0, 0, 0)>>]
  ELSE IF mode = "neterr" THEN [fail EXCEPT !.cbs = <<CB("old", 0, 0, 0), CB("fetcherr", 0, 0, 0)>>]
  ELSE
  LET r == Len(chain) - lag
      gotNew == r > latest
      fk == IF r = latest THEN Fetch(r, 1, failAt) ELSE Fetch(LastOf(q).b, 1, failAt)
      forked == LastOf(q).h # fk.h
  IN IF fk.err THEN fail
     ELSE IF gotNew \/ forked
          THEN LET fa == FetchAll(r, 2, failAt) IN
               IF fa.err THEN [fail EXCEPT !.q = fa.q, !.latest = fa.latest]
               ELSE [ok |-> TRUE, q |-> fa.q, latest |-> fa.latest, forkCb |-> forked,
                     cbs |-> (IF gotNew THEN <<CB("new", latest, r, LastOf(fa.q).h)>> ELSE <<>>)
                             \o (IF forked THEN <<CB("fork", r, 0, 0)>> ELSE <<>>)]
          ELSE IF latest > r
               THEN [fail EXCEPT !.ok = TRUE, !.cbs = <<CB("consistency", latest, r, 0)>>]
               ELSE [fail EXCEPT !.ok = TRUE, !.cbs = <<CB("old", 0, 0, 0)>>]

Poll(mode, lag, failAt) ==
  /\ started = "ok"
  /\ lag >= 0 /\ Len(chain) - lag >= 1
  /\ LET p == PollResult(mode, lag, failAt) IN
       /\ q' = p.q /\ latest' = p.latest /\ cbs' = p.cbs
       /\ last' = [ev |-> "poll", ok |-> p.ok, rep |-> IF mode = "ok" THEN Len(chain) - lag ELSE 0,
                   prev |-> latest, forkCb |-> p.forkCb, changed |-> StoredChanged]
  /\ Record([a |-> "poll", d |-> lag, k |-> failAt, mode |-> mode])
  /\ UNCHANGED <<chain, fresh, started>>

-----------------------------------------------------------------------------
\* GetLatestBlockData(fromBlock, toBlock, specificBlock) on a tracker state (qq, lat)
L2B(req, lat) == IF req > LATEST THEN req
                 ELSE LET res == req - LATEST + lat IN IF res < 0 THEN lat ELSE res

NilRange == [nil |-> TRUE, err |-> "", f |-> 0, t |-> 0, si |-> 0, ei |-> 0]
NewRange(fb, tb, earliest, lat) ==
  IF fb < 0 \/ tb < 0 \/ earliest < 0 THEN [NilRange EXCEPT !.err = "outofrange"]
  ELSE IF tb < fb THEN [NilRange EXCEPT !.err = "invalid"]
  ELSE IF fb < earliest THEN [NilRange EXCEPT !.err = "outofrange"]
  ELSE IF tb > lat THEN [NilRange EXCEPT !.err = "outofrange"]
  ELSE [nil |-> FALSE, err |-> "", f |-> fb, t |-> tb, si |-> fb - earliest, ei |-> tb - earliest]
RangeWanted(br, b) == ~br.nil /\ br.f <= b /\ b <= br.t
RangeIdx(br) == [i \in 1..(br.ei - br.si + 1) |-> br.si + i - 1]      \* 0-based queue indexes

\* WantedBlocksData.New: [err, rg, sp]
Wanted(f, t, s, lat, earliest) ==
  LET bad(e) == [err |-> e, rg |-> NilRange, sp |-> NilRange] IN
  IF earliest > lat THEN bad("latestnum")
  ELSE LET ignoreRange == f = NA \/ t = NA
           ignoreSpecific == s = NA
       IN IF ignoreRange /\ ignoreSpecific THEN bad("invalid")
          ELSE LET rg == IF ignoreRange THEN NilRange ELSE NewRange(L2B(f, lat), L2B(t, lat), earliest, lat)
               IN IF rg.err # "" THEN bad(rg.err)
                  ELSE IF ignoreSpecific THEN [err |-> "", rg |-> rg, sp |-> NilRange]
                  ELSE LET fa == L2B(s, lat) IN
                       IF RangeWanted(rg, fa) THEN [err |-> "", rg |-> rg, sp |-> NilRange]
                       ELSE LET sp == NewRange(fa, fa, earliest, lat) IN
                            IF sp.err # "" THEN bad("specific") ELSE [err |-> "", rg |-> rg, sp |-> sp]

IterIdx(w) ==
  IF ~w.rg.nil
  THEN IF ~w.sp.nil
       THEN IF w.rg.si < w.sp.si THEN RangeIdx(w.rg) \o RangeIdx(w.sp) ELSE RangeIdx(w.sp) \o RangeIdx(w.rg)
       ELSE RangeIdx(w.rg)
  ELSE IF ~w.sp.nil THEN RangeIdx(w.sp) ELSE <<>>

IsWanted(w, b) == b >= 0 /\ (RangeWanted(w.sp, b) \/ RangeWanted(w.rg, b))

\* answer: [err (class, "" = none), res (sequence of [b,h]), latest]
GetData(qq, lat, f, t, s) ==
  IF Len(qq) = 0 THEN [err |-> "noblocks", res |-> <<>>, latest |-> lat]
  ELSE LET w == Wanted(f, t, s, lat, qq[1].b) IN
       IF w.err # "" THEN [err |-> w.err, res |-> <<>>, latest |-> lat]
       ELSE LET ix == IterIdx(w) IN
            IF \E i \in 1..Len(ix) : ix[i] + 1 > Len(qq) THEN [err |-> "panic", res |-> <<>>, latest |-> lat]
            ELSE IF \E i \in 1..Len(ix) : ~IsWanted(w, qq[ix[i] + 1].b)
                 THEN [err |-> "iteration", res |-> <<>>, latest |-> lat]
                 ELSE [err |-> "", res |-> [i \in 1..Len(ix) |-> qq[ix[i] + 1]], latest |-> lat]

Query(f, t, s) ==
  /\ started # "no"
  /\ cbs' = <<>> /\ last' = [NoLast EXCEPT !.ev = "query"]
  /\ Record([a |-> "query", d |-> 0, k |-> 0, f |-> f, t |-> t, s |-> s])
  /\ UNCHANGED <<chain, fresh, started, q, latest>>

-----------------------------------------------------------------------------
Init == /\ \E L \in InitLens : chain = [i \in 1..L |-> i] /\ fresh = L + 1
        /\ started = "no" /\ q = <<>> /\ latest = 0 /\ cbs = <<>> /\ last = NoLast
        /\ nops = 0 /\ hist = <<>>

Modes == {"ok", "err", "neterr"}
NodeOK == ~(NodeThenPoll /\ last.ev = "node")
Env == \/ Start
       \/ NodeOK /\ \E k \in 1..(N + 1) : Extend(k)
       \/ NodeOK /\ \E d \in 1..(N + 1), k \in 0..(N + 1) : Reorg(d, k)
       \/ \E mode \in Modes, lag \in 0..2, failAt \in 0..(N + 1) :
             /\ (mode # "ok" => lag = 0 /\ failAt = 0)
             /\ Poll(mode, lag, failAt)

Next == nops < MaxOps /\ nops' = nops + 1 /\ Env
Spec == Init /\ [][Next]_vars

-----------------------------------------------------------------------------
\* Generator (-simulate): one draw per action kind.
QArgs(lat) == {NA} \cup {LATEST - d : d \in QD} \cup {x \in {lat - N + a : a \in QA} : x >= 0}
\* (every draw is bound by \E over a singleton set: LET-bound RandomElement calls are re-evaluated at
\*  each use)
RandQuery == \E f \in {RandomElement(QArgs(latest))}, t \in {RandomElement(QArgs(latest))},
                s \in {RandomElement(QArgs(latest))} : Query(f, t, s)
RandExtend == \E k \in {RandomElement(1..(N + 1))} : Extend(k)
RandReorg == \E d \in {RandomElement(1..(N + 1))}, k \in {RandomElement(0..(N + 1))} : Reorg(d, k)
RandPoll == \E m \in {RandomElement(1..10)}, lg \in {RandomElement(1..8)}, fa \in {RandomElement(1..12)} :
              LET mode == IF m = 1 THEN "err" ELSE IF m = 2 THEN "neterr" ELSE "ok"
                  lag == IF mode # "ok" \/ lg <= 6 THEN 0 ELSE lg - 6
                  failAt == IF mode # "ok" \/ fa <= 7 THEN 0 ELSE fa - 7
              IN IF Len(chain) - lag >= 1 THEN Poll(mode, lag, failAt) ELSE Poll(mode, 0, failAt)
GenNext == /\ nops < MaxOps /\ nops' = nops + 1
           /\ IF started = "no" THEN Start
              ELSE IF started = "failed" THEN RandQuery
              ELSE \E kind \in {RandomElement(1..7)} :
                   CASE kind \in {1, 2} -> IF Len(chain) + N + 1 > MaxLen THEN RandPoll ELSE RandExtend
                     [] kind = 3 -> IF Len(chain) < N + 2 THEN RandPoll ELSE RandReorg
                     [] kind = 4 -> RandQuery
                     [] OTHER -> RandPoll
Emit == nops < MaxOps \/ PrintT(<<"BEH", ToJson(hist)>>)

-----------------------------------------------------------------------------
\* Properties (C30)
Window(lat) == [i \in 1..N |-> [b |-> lat - N + i, h |-> chain[lat - N + i]]]

\* the tracker always holds exactly N consecutive blocks ending at its latest
Shape == started = "ok" => /\ Len(q) = N /\ LastOf(q).b = latest
                           /\ \A i \in 1..N : q[i].b = latest - N + i

\* after every successful poll (and after a successful start) that reported a head not older than
\* what the tracker had: latest = reported head and the window is the node's current chain
Mirrors == (last.ev \in {"poll", "start"} /\ last.ok /\ last.rep >= last.prev) =>
             /\ latest = last.rep
             /\ last.rep >= N /\ q = Window(last.rep)
\* with an honest head number (lag = 0) a successful poll never leaves the tracker behind the node
MirrorsHead == (last.ev = "poll" /\ last.ok /\ last.rep = Len(chain)) => (latest = Len(chain) /\ q = Window(Len(chain)))
\* a failed start / failed poll that did not write leaves the tracker untouched (action property)
FailKeeps == [][(last'.ev = "poll" /\ ~last'.ok) => (q' = q /\ latest' = latest)]_vars
\* the fork callback fires only if a stored hash differed from the node's hash at that height
ForkOnlyIfChanged == last.forkCb => last.changed
\* ... and whenever the tracker successfully refreshed while a stored hash had changed
ForkIfChanged == (last.ev = "poll" /\ last.ok /\ last.changed /\ last.rep >= last.prev) => last.forkCb
ForkCbLogged == last.forkCb <=> (\E i \in 1..Len(cbs) : cbs[i].c = "fork")

\* block-data queries: exactly the requested range plus the specific block (ascending, each once,
\* with the stored hash), or an error
Resolved(f, t, s, lat) ==
  (IF f = NA \/ t = NA THEN {} ELSE L2B(f, lat)..L2B(t, lat)) \cup (IF s = NA THEN {} ELSE {L2B(s, lat)})
QueryOK(f, t, s) ==
  LET a == GetData(q, latest, f, t, s)
      want == Resolved(f, t, s, latest)
  IN a.err = "" =>
       /\ want # {}
       /\ {a.res[i].b : i \in 1..Len(a.res)} = want
       /\ Len(a.res) = Cardinality(want)
       /\ \A i \in 1..(Len(a.res) - 1) : a.res[i].b < a.res[i + 1].b
       /\ \A i \in 1..Len(a.res) : \E j \in 1..Len(q) : q[j] = a.res[i]
\* ... and no spurious errors: a request whose blocks are all inside the window is answered
QueryLive(f, t, s) ==
  LET want == Resolved(f, t, s, latest)
      wellFormed == (f = NA \/ t = NA \/ L2B(f, latest) <= L2B(t, latest))
  IN (started = "ok" /\ want # {} /\ wellFormed /\ \A b \in want : b > latest - N /\ b <= latest)
       => GetData(q, latest, f, t, s).err = ""
Queries == \A f \in QArgs(latest), t \in QArgs(latest), s \in QArgs(latest) :
             /\ QueryOK(f, t, s) /\ QueryLive(f, t, s) /\ GetData(q, latest, f, t, s).err # "panic"

TypeOK == /\ started \in {"no", "ok", "failed"} /\ latest >= 0 /\ Len(chain) >= 1
          /\ (started # "ok" => q = <<>> /\ latest = 0)
=============================================================================
