CONSTANTS
  MaxN = 3
  GenHist = FALSE
INIT Init
NEXT Next
INVARIANTS TypeOK QuorumOK EarlyExitOK AllConsumedOK
CHECK_DEADLOCK FALSE
