CONSTANTS
  Epochs = {1}
  Sess = {11}
  MaxCu = 3
  Window = 1
  MaxRetries = 3
  MaxOps = 6
  AtomicSave = FALSE
  MaxCalls = 2
  GenHist = FALSE
INIT Init
NEXT Next
INVARIANTS TypeOK KeepsBest SubmitsBest InWindow Bounded RestoresSnapshot NoDupInUpdate
CHECK_DEADLOCK FALSE
