CONSTANTS
  Sel = "stateful"
  MaxRetries = 1
  SendAttempts = 1
  RetryLimit = 1
  TimeoutPriority = FALSE
  NumFirst = 1
  Need = 1
  MaxTicks = 1
  MaxSendErrs = 1
  MaxResults = 1
  KindSet = {"ok", "ne"}
  BuCap = 1
  FixF34 = TRUE
  GenHist = FALSE
INIT Init
NEXT Next
INVARIANTS TypeOK OneFinal AfterSuccess Justified ModeAttempts AttemptsBoundedPipe
PROPERTIES AfterFinalSilent NoAttemptAfterSuccess NoResendAfterSend NoRetryAfterNR SendRetriesBounded
CHECK_DEADLOCK FALSE
