CONSTANTS
  EB = 20
  StaleP = 200
  BT = 300
  MaxOps = 100000
  MaxMonths = 100000
  GenHist = FALSE
  GenBias = FALSE
  FixRenew = TRUE
  PlanIdx = {"p1", "p2"}
  Durs = {1, 2, 12}
  WithRelay = FALSE
  Consumers = {"c1", "c2"}
  ThirdParty = {"b"}
  WithDrain = TRUE
  Acts = {"planadd", "plandel", "buy", "adv", "auto", "block", "epoch", "stale"}
  PriceVar = {0, 1}
INIT TInit
NEXT TNext
POSTCONDITION Post
CHECK_DEADLOCK FALSE
INVARIANTS SubnMatchesOwed FutRecorded CuInRange ProjectsFollow TimerArmed NoOtherPanic FailedTxNoEffect ExactCharge MonthResets
