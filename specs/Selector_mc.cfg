CONSTANTS
  NP = 3
  MaxK = 8
  GenHist = FALSE
  KSet = {0}
  NA = 1
  NL = 1
  NS = 1
  NK = 1
  Strategies = {0}
  WKinds = {"off"}
  WinMode = "diag"
INIT Init
NEXT Next
INVARIANTS PickValid PickExists ScoredOK Proportional UniformWhenZero
CHECK_DEADLOCK FALSE
