CONSTANTS
  Provs = {"p1", "p2"}
  Chains = {"c1", "c2", "c3"}
  Dels = {"d1", "d2"}
  Vals = {"va", "vb"}
  StakeAmts = {}
  DelAmts = {}
  MinSelf = 100
  MinSpec = 1000
  MinSpecHigh = 2000
  HighChains = {"c2"}
  Fixed = TRUE
  MaxOps = 1000000
  GenHist = FALSE
INIT TInit
NEXT TNext
INVARIANTS TypeOK Report
POSTCONDITION Post
CHECK_DEADLOCK FALSE
