CONSTANTS
  Scenarios <- ScnQuick
  FixF10 = FALSE
  GenHist = FALSE
INIT Init
NEXT Next
INVARIANTS Bounded AtMostOnce OkMeansRan NoForeignResult ErrMeansNotRun Released Counters
CHECK_DEADLOCK TRUE
