\* exhaustive, real constants (ticks = seconds), all histories of <= 4 steps over the listed
\* amounts and gaps; every model state that breaks a clause is printed (candidate to replay)
CONSTANTS
  MH = 720
  HS = 3600
  Amounts = {0, 1000, 5000}
  Gaps = {0, 1296000}
  TouchX = {1}
  MaxOps = 4
  GenHist = TRUE
INIT Init
NEXT Next
INVARIANTS TypeOK NonNeg Settled BoundedOrF20 MonotoneOrKnown EmitBad
CHECK_DEADLOCK FALSE
