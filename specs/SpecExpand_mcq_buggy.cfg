CONSTANTS
  Family = "content"
  MaxImp = 1
  Ordered = TRUE
  Shapes = "core"
  Level = 0
  Fixed = FALSE
INIT Init
NEXT Next
INVARIANTS NoDupInv
CHECK_DEADLOCK FALSE
