CONSTANTS
  Epochs = {1, 2}
  Sess = {11, 21, 12}
  MaxCu = 2
  Window = 1
  MaxRetries = 3
  MaxOps = 6
  AtomicSave = TRUE
  MaxCalls = 0
  GenHist = FALSE
INIT Init
NEXT Next
INVARIANTS TypeOK KeepsBest SubmitsBest InWindow Bounded RestoresSnapshot NoDupInUpdate
CHECK_DEADLOCK FALSE
