------------------------------- MODULE PsmLock -------------------------------
(* Supplement to ProviderSessions.tla (C27): the manager lock psm.lock (a Go sync.RWMutex, writer
   preferring: once a writer waits in Lock(), new RLock() calls block) and the three kinds of code that
   take it.  ProviderSessions.tla treats psm.lock critical sections as atomic; that abstraction is
   sound only if no goroutine can block forever inside one.  This module checks exactly that.

     updater u : UpdateSessionCU   RLock ; [valid epoch, epoch registered] ;
                                   readConsumerToPairedWithProjectMap = RLock ; RUnlock   <- recursive!
                                   ; RUnlock                          (code as found, FixRLock = FALSE)
                 with fixes/F27a_update_session_cu_rlock.patch the lookup happens before the RLock.
     reader r  : GetSession        RLock ; RUnlock (readConsumerToPairedWithProjectMap), RLock ; RUnlock (getActiveProject)
     writer w  : UpdateEpoch / registerNewConsumer / writeConsumerToPairedWithProjectMap   Lock ; Unlock

   TLC: FixRLock = FALSE -> deadlock in 4 steps (u: RLock, w: Lock waits, u: RLock waits; every reader
   waits) - reproduced on the real manager by harness/cmd/psmdeadlock through the usc_rlocked yield
   point.  FixRLock = TRUE -> no deadlock. *)
EXTENDS Integers, FiniteSets, TLC
CONSTANTS Updaters, Readers, Writers, FixRLock
VARIABLES pc, readers, writer, waiting   \* read holds per process, write holder, processes waiting in Lock()
vars == <<pc, readers, writer, waiting>>
Procs == Updaters \cup Readers \cup Writers

Init == /\ pc = [p \in Procs |-> "start"] /\ readers = [p \in Procs |-> 0] /\ writer = "none" /\ waiting = {}

CanRLock == writer = "none" /\ waiting = {}
RLock(p)   == CanRLock /\ readers' = [readers EXCEPT ![p] = @ + 1] /\ UNCHANGED <<writer, waiting>>
RUnlock(p) == readers' = [readers EXCEPT ![p] = @ - 1] /\ UNCHANGED <<writer, waiting>>
NoReaders == \A q \in Procs : readers[q] = 0

Goto(p, l) == pc' = [pc EXCEPT ![p] = l]

\* UpdateSessionCU, step 1 closure
U1(p) == pc[p] = "start" /\ IF FixRLock THEN RLock(p) /\ Goto(p, "lookup1") ELSE RLock(p) /\ Goto(p, "outer")
U1b(p) == pc[p] = "lookup1" /\ RUnlock(p) /\ Goto(p, "outerF")        \* fixed: lookup done, lock released
U1c(p) == pc[p] = "outerF" /\ RLock(p) /\ Goto(p, "unlock")            \* fixed: the closure's own RLock
U2(p) == pc[p] = "outer" /\ RLock(p) /\ Goto(p, "inner")               \* as found: recursive RLock (usc_rlocked is here)
U3(p) == pc[p] = "inner" /\ RUnlock(p) /\ Goto(p, "unlock")
U4(p) == pc[p] = "unlock" /\ RUnlock(p) /\ Goto(p, "fin")

R1(p) == pc[p] = "start" /\ RLock(p) /\ Goto(p, "r1")
R2(p) == pc[p] = "r1" /\ RUnlock(p) /\ Goto(p, "r2")
R3(p) == pc[p] = "r2" /\ RLock(p) /\ Goto(p, "r3")
R4(p) == pc[p] = "r3" /\ RUnlock(p) /\ Goto(p, "fin")

W1(p) == pc[p] = "start" /\ waiting' = waiting \cup {p} /\ Goto(p, "wait") /\ UNCHANGED <<readers, writer>>   \* enters Lock()
W2(p) == pc[p] = "wait" /\ writer = "none" /\ NoReaders
         /\ writer' = p /\ waiting' = waiting \ {p} /\ Goto(p, "held") /\ UNCHANGED readers
W3(p) == pc[p] = "held" /\ writer' = "none" /\ Goto(p, "fin") /\ UNCHANGED <<readers, waiting>>

Next == \/ \E p \in Updaters : U1(p) \/ U1b(p) \/ U1c(p) \/ U2(p) \/ U3(p) \/ U4(p)
        \/ \E p \in Readers : R1(p) \/ R2(p) \/ R3(p) \/ R4(p)
        \/ \E p \in Writers : W1(p) \/ W2(p) \/ W3(p)
        \/ (\A p \in Procs : pc[p] = "fin") /\ UNCHANGED vars
Spec == Init /\ [][Next]_vars
Exclusive == writer # "none" => NoReaders
=============================================================================
