--------------------------- MODULE Trace_LavaChain ---------------------------
(* Obs-mode validation of the whole-chain traces recorded by harness/t/hist from the real keepers.
   Every trace line carries the event (abstract step, result class, panic flag) and the projection read
   back through public queries after the step; `st'` is *set* from the logged projection (never rejected),
   and the properties of LavaChain.tla are evaluated by TLC on the real states and real transitions:

     C09  SupplyNeverIncreases   action property over consecutive real states (exact delta is logged too)
     C37  NoPanic                a recovered begin/end-block panic sets st.panicked
     C10  BackedDs / BackedIprpc / BackedSub   module balance >= obligations read from public state

   Behaviours are concatenated; each starts with a "reset" line (state after the driver's fixed set-up).
   The fields of the abstract state that are not observable (tracked CU sets, timers, ...) keep the value of
   InitState - no property evaluated here reads them. *)
EXTENDS LavaChain, IOUtils
VARIABLE l
Trace == ndJsonDeserialize(IOEnv.VERIF_TRACE)
tvars == <<vars, l>>

SubOf(v) == [NoSub EXCEPT !.on = v.on, !.plan = v.plan, !.pv = v.pb, !.dl = v.dl, !.auto = v.auto,
                          !.fut = v.fut, !.futm = v.futm, !.exp = v.exp, !.credit = v.cred,
                          !.gone = IF v.on /\ ~v.live THEN 1 ELSE 0]
Proj(r) ==
  [InitState EXCEPT
     !.h = r.h, !.t = r.t, !.supply = r.supply, !.dsup = r.dsup,
     !.bank = [a \in Accts |-> IF a = "users" THEN r.users ELSE r.bal[a]],
     !.obl = [ds |-> r.obl.ds, iprpc |-> r.obl.iprpc, sub |-> r.obl.sub],
     !.subs = [c \in Consumers |-> SubOf(r.subs[c])],
     !.refillAt = r.refill,
     !.panicked = r.panic,
     !.last = [ev |-> r.ev, res |-> r.res]]

TInit == l = 1 /\ Trace[1].ev = "reset" /\ st = Proj(Trace[1]) /\ nops = 0 /\ hist = <<>>
TNext == /\ l < Len(Trace) /\ l' = l + 1
         /\ st' = Proj(Trace[l + 1])
         /\ UNCHANGED <<nops, hist>>

\* the whole logged bank adds up to the logged supply (sanity of the projection, not a property of lava)
ProjectionSound == SumF([a \in Accts |-> st.bank[a]]) = st.supply

Post == LET d == TLCGet("stats").diameter IN PrintT(<<"HWM", d>>) /\ d = Len(Trace)
=============================================================================
