CONSTANTS
  Scenarios <- ScnEnum
  FixF10 = FALSE
  GenHist = TRUE
INIT Init
NEXT Next
INVARIANTS WitDeadline
CHECK_DEADLOCK FALSE
