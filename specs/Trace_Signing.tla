----------------------------- MODULE Trace_Signing -----------------------------
(* Judges the lines recorded by harness/cmd/signing from the real code.  A line is one vector
   (kind, base, field, val) plus what really happened: `verdict` of sigs.ExtractSignerAddress ==
   consumer / lavaprotocol.VerifyRelayReply after the single-field mutation of a really signed
   message (`verdict2`: the same check repeated), `ro` = request, reply *and the whole buffers
   backing reply.Data / request data* byte-identical before and after the verification (`changed`
   names what differs; `layout` = exact | spare | shared, see Signing.tla), and the same for the signing call (sign_ro / sign_changed, reported as a
   note only: C25 speaks about checking).
   Classes printed as <<"BAD", json>>:
     accepts-tampered:<field>[:<metadata collision class>]   verification passed although a signed field differs
     rejects-untampered:<field>                              verification failed although no signed field differs
     verify-modifies:<what>                                  verification changed the object it checks
                                                             (reply.buffer-tail = memory behind reply.Data)
     verdict-changes-on-recheck:<layout>                     a second verification of the same objects disagrees
     note:sign-modifies:<what> *)
EXTENDS Signing, IOUtils
VARIABLE l
Trace == ndJsonDeserialize(IOEnv.VERIF_TRACE)

Tag(cond, t) == IF cond THEN {t} ELSE {}
JudgeWith(r, m0, m1) ==
  LET exp == Expected(r.kind, m0, m1)
      mod == IF Accepts(r.kind, m1, [view |-> View(r.kind, m0)]) THEN "ok" ELSE "reject"
  IN  Tag(r.verdict = "ok" /\ exp = "reject",
          "accepts-tampered:" \o r.field \o (IF mod = "ok" /\ r.field = "reply.metadata"
                                              THEN ":" \o MdClass(m0[r.field], m1[r.field]) ELSE ""))
      \cup Tag(r.verdict # "ok" /\ exp = "ok", "rejects-untampered:" \o r.field)
      \cup Tag(~r.ro, "verify-modifies:" \o r.changed)
      \cup Tag(r.verdict2 # r.verdict, "verdict-changes-on-recheck:" \o r.layout)
      \cup Tag(~r.sign_ro, "note:sign-modifies:" \o r.sign_changed)
Judge(r) == UNION {JudgeWith(r, m0, m1) : m0 \in {Base(r.kind, r.base)},
                                         m1 \in {[Base(r.kind, r.base) EXCEPT ![r.field] = r.val]}}
Check(r) == LET bad == Judge(r) IN
            IF bad = {} THEN TRUE ELSE PrintT(<<"BAD", ToJson([id |-> r.id, classes |-> bad])>>)

\* one initial state per line (the line number); lines are independent
TInit == /\ \E T \in {Trace} : msg \in {T[i] : i \in 1..Len(T)}
         /\ kind = "" /\ signed = <<>> /\ tampered = <<>> /\ verdict = "" /\ verdict2 = "" /\ phase = "" /\ buf = <<>> /\ l = 0
TNext == l = 0 /\ Check(msg) /\ l' = 1 /\ UNCHANGED vars
Post == LET d == TLCGet("stats").distinct IN PrintT(<<"HWM", d \div 2>>) /\ d = 2 * Len(Trace)
=============================================================================
