------------------------------- MODULE Limiter -------------------------------
(* protocol/rpcprovider/resource_limiter.go - a schedule-level (PlusCal-style) model of
   ResourceLimiter.Acquire / enqueueRequest / processQueue with both buckets, AS THE CODE IS.

   Processes (goroutines in the replay harness harness/cmd/limiter):
     caller c  : rl.Acquire(ctx, cu, method, execute)        kinds: heavy_cu | heavy_debug | heavy_batch | normal
     worker w  : the limiter's own processQueue goroutine (heavy bucket)
     event e   : environment, par.ev[e] = [k, c]: k = "cancel"    the caller's context is cancelled (any time)
                                                  k = "pdeadline" the caller's own context deadline expires (any time)
   Queue deadline of a caller (to): "never" | "expired" (already expired when the request is enqueued; the hard-coded
   30 s are replaced through the verif-only setter).  A queue deadline firing later is the same ctx mechanism as the
   caller's deadline (queueCtx = WithTimeout(ctx)) but needs a real timer, so the replayable model fires the caller's.
   queueCtx is done as soon as the first of cancel / pdeadline / expired queue deadline happened (first[c]); its error
   is that first cause.

   pc / wpc are the yield points at which the goroutines are parked: harness-level ("start", and
   "exec" = inside the execute callback) or the build-tagged hooks (hooks/rpcprovider_limiter.patch):
     caller "presend"  enq_before_send  enqueueRequest, before the non-blocking send select
            "waiting"  enq_waiting      enqueued, before the select on result / queueCtx.Done()
     worker "idle"     pq_idle          before every receive from the queue
            "checked"  pq_checked       after the ctx check, before sem.Acquire
            "send"     pq_send          after execution (permit released), before qr.result <- err
   A goroutine is only released from a yield point when the spec says that it will not block in a
   channel / semaphore operation before its next yield point ("parked before blocking").  A Go select with
   two ready cases picks one at random: CWait has both outcomes.

   FixF10 = FALSE (default configs) is the code as it is: the caller keeps listening to queueCtx.Done()
   while its request is executing, so Acquire can return a context error although the request runs
   (finding F10, open).  ErrMeansNotRun is therefore violated by the design itself; ErrMeansNotRunModF10
   tolerates exactly that class (the caller returned a context error through the ctx case after the
   execution of its request had started) and nothing else.  FixF10 = TRUE (Limiter_fixF10.cfg) adds an atomic
   waiting -> started | abandoned hand-off on the queued request and restores ErrMeansNotRun. *)
EXTENDS Integers, Sequences, FiniteSets, FiniteSetsExt, TLC, Json

CONSTANTS Scenarios, FixF10, GenHist

VARIABLES par,
          pc,        \* callers: "start" | "exec" (direct execution) | "presend" | "waiting" | "fin"
          wpc, wcur, \* worker: "idle" | "checked" | "exec" | "send"; the request it works on
          permH, permN,      \* permits in use
          queue,     \* heavy queue: sequence of callers
          canc,      \* caller's parent ctx done (cancelled or its deadline expired)
          first,     \* what made the caller's (queue) ctx done first: "none" | "cancel" | "pdeadline" | "deadline" (queue)
          fired,     \* environment events that happened
          exec, done,        \* per caller: executions started / finished
          res,       \* what Acquire returned: "none" | "ok" (its own run's result) | "err"
          why,       \* class of the returned value: "none" | "run" | "rejected" | "canceled" | "deadline_exceeded" | "queue_timeout"
          exret,     \* executions of the caller's request started when Acquire returned (-1 = not returned)
          chan,      \* qr.result (buffered 1): "none" | "ok" | "canceled" | "deadline_exceeded"
          st,        \* hand-off state of the queued request: "none" | "waiting" | "started" | "abandoned"
          rejected, queued, timeouts,   \* metrics counters
          hist

vars == <<par, pc, wpc, wcur, permH, permN, queue, canc, first, fired, exec, done, res, why, exret, chan, st,
          rejected, queued, timeouts, hist>>

Callers == DOMAIN par.cal
Events == DOMAIN par.ev
Heavy(c) == par.cal[c].kind # "normal"          \* selectBucket: high CU, debug_/trace_ prefix, batch (&)
CtxDone(c) == first[c] # "none"                 \* queueCtx of an enqueued request is done
QErr(c) == IF first[c] = "cancel" THEN "canceled" ELSE "deadline_exceeded"       \* queueCtx.Err()
Rec(p) == hist' = IF GenHist THEN Append(hist, p) ELSE hist

InitFor(P) ==
  /\ par = P
  /\ pc = [c \in DOMAIN P.cal |-> "start"]
  /\ wpc = "idle" /\ wcur = "none"
  /\ permH = 0 /\ permN = 0 /\ queue = <<>>
  /\ canc = [c \in DOMAIN P.cal |-> FALSE]
  /\ first = [c \in DOMAIN P.cal |-> "none"]
  /\ fired = [x \in DOMAIN P.ev |-> FALSE]
  /\ exec = [c \in DOMAIN P.cal |-> 0] /\ done = [c \in DOMAIN P.cal |-> 0]
  /\ res = [c \in DOMAIN P.cal |-> "none"] /\ why = [c \in DOMAIN P.cal |-> "none"]
  /\ exret = [c \in DOMAIN P.cal |-> -1]
  /\ chan = [c \in DOMAIN P.cal |-> "none"]
  /\ st = [c \in DOMAIN P.cal |-> "none"]
  /\ rejected = 0 /\ queued = 0 /\ timeouts = 0
  /\ hist = <<>>
Init == \E P \in Scenarios : InitFor(P)

\* Acquire returns to the caller
Ret(c, r, w) == /\ pc' = [pc EXCEPT ![c] = "fin"] /\ res' = [res EXCEPT ![c] = r]
                /\ why' = [why EXCEPT ![c] = w] /\ exret' = [exret EXCEPT ![c] = exec[c]]
Stay == UNCHANGED <<res, why, exret>>

-----------------------------------------------------------------------------
(* caller *)
\* Acquire: TryAcquire -> execute directly | enqueueRequest up to the send select | reject
CStart(c) ==
  /\ pc[c] = "start"
  /\ LET free == IF Heavy(c) THEN permH < par.H ELSE permN < par.N IN
     IF free
     THEN /\ permH' = IF Heavy(c) THEN permH + 1 ELSE permH
          /\ permN' = IF Heavy(c) THEN permN ELSE permN + 1
          /\ exec' = [exec EXCEPT ![c] = @ + 1]
          /\ pc' = [pc EXCEPT ![c] = "exec"] /\ Stay /\ UNCHANGED <<rejected, first>>
     ELSE IF Heavy(c) /\ par.Q > 0
     THEN /\ pc' = [pc EXCEPT ![c] = "presend"] /\ Stay              \* queueCtx = WithTimeout(ctx, timeout)
          /\ first' = IF par.cal[c].to = "expired" /\ first[c] = "none" THEN [first EXCEPT ![c] = "deadline"] ELSE first
          /\ UNCHANGED <<permH, permN, exec, rejected>>
     ELSE /\ rejected' = rejected + 1 /\ Ret(c, "err", "rejected")
          /\ UNCHANGED <<permH, permN, exec, first>>
  /\ UNCHANGED <<wpc, wcur, queue, canc, fired, done, chan, st, queued, timeouts>>

\* direct execution finishes: executeWithSemaphore releases the permit, Acquire returns the result
CExec(c) ==
  /\ pc[c] = "exec"
  /\ done' = [done EXCEPT ![c] = @ + 1]
  /\ permH' = IF Heavy(c) THEN permH - 1 ELSE permH
  /\ permN' = IF Heavy(c) THEN permN ELSE permN - 1
  /\ Ret(c, "ok", "run")
  /\ UNCHANGED <<wpc, wcur, queue, canc, first, fired, exec, chan, st, rejected, queued, timeouts>>

\* select { case queue <- qr: ... default: queue full }
CSend(c) ==
  /\ pc[c] = "presend"
  /\ IF Len(queue) < par.Q
     THEN /\ queue' = Append(queue, c) /\ queued' = queued + 1
          /\ st' = [st EXCEPT ![c] = "waiting"]
          /\ pc' = [pc EXCEPT ![c] = "waiting"] /\ Stay /\ UNCHANGED rejected
     ELSE /\ rejected' = rejected + 1 /\ Ret(c, "err", "rejected") /\ UNCHANGED <<queue, queued, st>>
  /\ UNCHANGED <<wpc, wcur, permH, permN, canc, first, fired, exec, done, chan, timeouts>>

\* select { case err := <-qr.result: ... case <-queueCtx.Done(): ... }
TimeoutHit(c) == first[c] = "deadline" /\ ~canc[c]                \* ctx.Err() == nil && queueCtx.Err() == DeadlineExceeded
CtxRet(c) == /\ Ret(c, "err", IF TimeoutHit(c) THEN "queue_timeout" ELSE QErr(c))
             /\ timeouts' = timeouts + (IF TimeoutHit(c) THEN 1 ELSE 0)
ResRet(c) == /\ Ret(c, IF chan[c] = "ok" THEN "ok" ELSE "err", IF chan[c] = "ok" THEN "run" ELSE chan[c])
             /\ UNCHANGED timeouts
CWait(c) ==
  /\ pc[c] = "waiting"
  /\ \/ /\ chan[c] # "none" /\ ResRet(c) /\ UNCHANGED st             \* result case
     \/ /\ CtxDone(c) /\ ~FixF10 /\ CtxRet(c) /\ UNCHANGED st         \* ctx case, code as it is
     \/ /\ CtxDone(c) /\ FixF10 /\ st[c] = "waiting"                  \* ctx case with the hand-off: abandon
        /\ st' = [st EXCEPT ![c] = "abandoned"] /\ CtxRet(c)
     \/ /\ CtxDone(c) /\ FixF10 /\ st[c] = "started" /\ chan[c] # "none"   \* too late: take the result
        /\ ResRet(c) /\ UNCHANGED st
  /\ UNCHANGED <<wpc, wcur, permH, permN, queue, canc, first, fired, exec, done, chan, rejected, queued>>

\* environment
Event(e) ==
  LET c == par.ev[e].c  k == par.ev[e].k IN
  /\ ~fired[e] /\ pc[c] # "fin"
  /\ fired' = [fired EXCEPT ![e] = TRUE]
  /\ canc' = [canc EXCEPT ![c] = TRUE]
  /\ first' = IF first[c] = "none" THEN [first EXCEPT ![c] = k] ELSE first
  /\ Stay
  /\ UNCHANGED <<pc, wpc, wcur, permH, permN, queue, exec, done, chan, st, rejected, queued, timeouts>>

-----------------------------------------------------------------------------
(* worker: for qr := range queue { ctx check; sem.Acquire; [hand-off]; execute; result <- } *)
WDequeue ==
  /\ wpc = "idle" /\ queue # <<>>
  /\ wcur' = Head(queue) /\ queue' = Tail(queue)
  /\ IF CtxDone(Head(queue))
     THEN /\ chan' = [chan EXCEPT ![Head(queue)] = QErr(Head(queue))] /\ wpc' = "idle"
     ELSE /\ wpc' = "checked" /\ UNCHANGED chan
  /\ Stay
  /\ UNCHANGED <<pc, permH, permN, canc, first, fired, exec, done, st, rejected, queued, timeouts>>

WAcquire ==
  /\ wpc = "checked"
  /\ IF CtxDone(wcur)
     THEN /\ chan' = [chan EXCEPT ![wcur] = QErr(wcur)] /\ wpc' = "idle"       \* Acquire fails on a done ctx
          /\ UNCHANGED <<permH, exec, st>>
     ELSE /\ permH < par.H
          /\ permH' = permH + 1
          /\ st' = [st EXCEPT ![wcur] = "started"]                          \* (only meaningful with the hand-off)
          /\ exec' = [exec EXCEPT ![wcur] = @ + 1]
          /\ wpc' = "exec" /\ UNCHANGED chan
  /\ Stay
  /\ UNCHANGED <<pc, wcur, permN, queue, canc, first, fired, done, rejected, queued, timeouts>>

WExec ==
  /\ wpc = "exec"
  /\ done' = [done EXCEPT ![wcur] = @ + 1] /\ permH' = permH - 1 /\ wpc' = "send"
  /\ Stay
  /\ UNCHANGED <<pc, wcur, permN, queue, canc, first, fired, exec, chan, st, rejected, queued, timeouts>>

WSend ==
  /\ wpc = "send"
  /\ chan' = [chan EXCEPT ![wcur] = "ok"] /\ wpc' = "idle"
  /\ Stay
  /\ UNCHANGED <<pc, wcur, permH, permN, queue, canc, first, fired, exec, done, st, rejected, queued, timeouts>>

-----------------------------------------------------------------------------
Step(p) == \/ p \in Callers /\ (CStart(p) \/ CExec(p) \/ CSend(p) \/ CWait(p))
           \/ p \in Events /\ Event(p)
           \/ p = "w" /\ (WDequeue \/ WAcquire \/ WExec \/ WSend)

AllFin == (\A c \in Callers : pc[c] = "fin") /\ wpc = "idle" /\ queue = <<>>
Next == \/ \E p \in Callers \cup Events \cup {"w"} : Step(p) /\ Rec(p) /\ UNCHANGED par
        \/ AllFin /\ ~GenHist /\ UNCHANGED vars
Spec == Init /\ [][Next]_vars
Emit == ~AllFin \/ PrintT(<<"BEH", ToJson([par |-> par, sched |-> hist])>>)

-----------------------------------------------------------------------------
(* Properties (C41) *)
Running(S) == Cardinality({c \in S : exec[c] > done[c]})
\* never more requests of a bucket running than its limit
Bounded == /\ permH >= 0 /\ permH <= par.H /\ permN >= 0 /\ permN <= par.N
           /\ Running({c \in Callers : Heavy(c)}) <= par.H
           /\ Running({c \in Callers : ~Heavy(c)}) <= par.N
AtMostOnce == \A c \in Callers : exec[c] <= 1
\* caller got a result => its request ran exactly once (and that result is its own run's: res = "ok" only then)
OkMeansRan == \A c \in Callers : res[c] = "ok" => exec[c] = 1 /\ done[c] = 1 /\ why[c] = "run"
NoForeignResult == \A c \in Callers : res[c] \in {"none", "ok", "err"}
\* caller got an error => its request does not run, now or later (checked in every later state)
ErrMeansNotRun == \A c \in Callers : res[c] = "err" => exec[c] = 0
\* ... except for the open finding F10, and only for it: Acquire returned the error of the done queue ctx
\* after the execution of the request had already started
F10Class(c) == /\ res[c] = "err" /\ exret[c] >= 1 /\ CtxDone(c)
               /\ why[c] \in {"canceled", "deadline_exceeded", "queue_timeout"}
               /\ why[c] = "canceled" => first[c] = "cancel"                          \* exactly the error the ctx case returns
               /\ why[c] = "queue_timeout" => (first[c] = "deadline" /\ ~canc[c])
               /\ why[c] = "deadline_exceeded" => (first[c] = "pdeadline" \/ (first[c] = "deadline" /\ canc[c]))
ErrMeansNotRunModF10 == \A c \in Callers : (res[c] = "err" /\ exec[c] > 0) => F10Class(c)
\* directed witness generation for the known finding: TLC's shortest counter-example to "no F10 of that class" is
\* printed as a schedule (Limiter_witcancel.cfg / Limiter_witdeadline.cfg, GenHist = TRUE) and replayed on the real code
F10Cancel(c) == res[c] = "err" /\ exec[c] > 0 /\ why[c] = "canceled"
F10Deadline(c) == res[c] = "err" /\ exec[c] > 0 /\ why[c] \in {"deadline_exceeded", "queue_timeout"}
EmitWit == PrintT(<<"BEH", ToJson([par |-> par, sched |-> hist])>>) /\ FALSE
WitCancel == (\A c \in Callers : ~F10Cancel(c)) \/ EmitWit
WitDeadline == (\A c \in Callers : ~F10Deadline(c)) \/ EmitWit
\* once the load has stopped every permit and queue slot is free
Released == AllFin => permH = 0 /\ permN = 0
Counters == /\ rejected + queued <= Cardinality(Callers) /\ timeouts <= queued
            /\ rejected = Cardinality({c \in Callers : why[c] = "rejected"})
            /\ timeouts = Cardinality({c \in Callers : why[c] = "queue_timeout"})

-----------------------------------------------------------------------------
(* Scenarios: [H, N, Q, cal : caller -> [kind, to], ev : event -> [k, c]] *)
C(kind, to) == [kind |-> kind, to |-> to]
X(c) == [k |-> "cancel", c |-> c]
D(c) == [k |-> "pdeadline", c |-> c]
NoProc == [x \in {} |-> 0]
L(H, N, Q, cal, ev) == [H |-> H, N |-> N, Q |-> Q, cal |-> cal, ev |-> ev]
TO == {"never", "expired"}

\* the DESIGN scenario: heavy limit 1, queue 1, 3 heavy + 2 normal callers, cancel / deadline events
ScnMain == {L(1, 1, 1, [c1 |-> C("heavy_cu", "never"), c2 |-> C("heavy_debug", t2), c3 |-> C("heavy_batch", "never"),
                        c4 |-> C("normal", "never"), c5 |-> C("normal", "never")], ev) :
              t2 \in TO, ev \in {[x2 |-> X("c2")], [x2 |-> X("c2"), x3 |-> X("c3")], [d2 |-> D("c2"), x3 |-> X("c3")]}}
ScnTwo == {L(2, 1, 2, [c1 |-> C("heavy_cu", "never"), c2 |-> C("heavy_cu", t2), c3 |-> C("heavy_debug", "never"), c4 |-> C("heavy_batch", t4)], ev) :
              t2 \in TO, t4 \in TO, ev \in {NoProc, [x3 |-> X("c3")], [d3 |-> D("c3")], [x2 |-> X("c2"), d4 |-> D("c4")]}}
ScnNoQueue == {L(1, 2, 0, [c1 |-> C("heavy_cu", "never"), c2 |-> C("heavy_debug", "never"), c3 |-> C("normal", "never"),
                           c4 |-> C("normal", "never"), c5 |-> C("normal", "never")], NoProc)}
ScnSmall == {L(1, 1, 1, [c1 |-> C("heavy_cu", "never"), c2 |-> C("heavy_debug", t2), c3 |-> C(k3, "never")], ev) :
               t2 \in TO, k3 \in {"heavy_batch", "normal"},
               ev \in {NoProc, [x2 |-> X("c2")], [d2 |-> D("c2")], [x2 |-> X("c2"), d2 |-> D("c2")], [x2 |-> X("c2"), x3 |-> X("c3")]}}
ScnQuick == ScnSmall \cup ScnNoQueue
ScnAll == ScnMain \cup ScnTwo \cup ScnNoQueue \cup ScnSmall
\* scenarios whose schedules are all enumerated (thorough tier)
ScnEnum == {L(1, 1, 1, [c1 |-> C("heavy_cu", "never"), c2 |-> C("heavy_debug", "never")], [x2 |-> X("c2")]),
            L(1, 1, 1, [c1 |-> C("heavy_cu", "never"), c2 |-> C("heavy_debug", "never")], [d2 |-> D("c2")]),
            L(1, 1, 1, [c1 |-> C("heavy_cu", "never"), c2 |-> C("heavy_debug", "expired")], NoProc),
            L(1, 1, 1, [c1 |-> C("heavy_cu", "never"), c2 |-> C("heavy_debug", "never"), c3 |-> C("heavy_batch", "never")], NoProc)}
=============================================================================
