------------------------------- MODULE Limiter -------------------------------
(* protocol/rpcprovider/resource_limiter.go - a schedule-level (PlusCal-style) model of
   ResourceLimiter.Acquire / enqueueRequest / processQueue with both buckets.

   Processes (goroutines in the replay harness harness/cmd/limiter):
     caller c  : rl.Acquire(ctx, cu, method, execute)        kinds: heavy_cu | heavy_debug | heavy_batch | normal
     worker w  : the limiter's own processQueue goroutine (heavy bucket)
     cancel x  : the environment cancels the caller's context (one step, par.can[x] = caller)
   A caller with to = TRUE has a queue deadline that is already expired when it is enqueued (the
   30 s timeout is replaced through the verif-only setter); cancellation can happen anywhere.

   pc / wpc are the yield points at which the goroutines are parked: harness-level ("start", and
   "exec" = inside the execute callback) or the build-tagged hooks (hooks/rpcprovider_limiter.patch):
     caller "presend"  enq_before_send  enqueueRequest, before the non-blocking send select
            "waiting"  enq_waiting      enqueued, before the select on result / queueCtx.Done()
     worker "idle"     pq_idle          before every receive from the queue
            "checked"  pq_checked       after the ctx check, before sem.Acquire
            "send"     pq_send          after execution (permit released), before qr.result <- err
   A goroutine is only released from a yield point when the spec says that it will not block in a
   channel / semaphore operation before its next yield point ("parked before blocking"): a caller
   in "waiting" moves when a result is buffered or its ctx is done, the worker in "idle" when the
   queue is non-empty, in "checked" when a permit is free or the ctx is done.  A Go select with
   two ready cases picks one at random: CWait has both outcomes.

   FixWait = TRUE describes the code with fixes/F10_limiter_handoff.patch (atomic
   waiting -> started | abandoned hand-off on the queued request); FALSE the code as found, where
   the caller keeps listening to queueCtx.Done() while its request is executing (F10). *)
EXTENDS Integers, Sequences, FiniteSets, FiniteSetsExt, TLC, Json

CONSTANTS Scenarios, FixWait, GenHist

VARIABLES par,
          pc,        \* callers: "start" | "exec" (direct execution) | "presend" | "waiting" | "fin"
          wpc, wcur, \* worker: "idle" | "checked" | "exec" | "send"; the request it works on
          permH, permN,      \* permits in use
          queue,     \* heavy queue: sequence of callers
          canc,      \* caller's parent ctx cancelled
          fired,     \* cancel events that happened
          exec, done,        \* per caller: executions started / finished
          res,       \* what Acquire returned: "none" | "ok" (its own run's result) | "err"
          chan,      \* qr.result (buffered 1): "none" | "ok" | "err"
          st,        \* hand-off state of the queued request: "none" | "waiting" | "started" | "abandoned"
          rejected, queued, timeouts,   \* metrics counters
          hist

vars == <<par, pc, wpc, wcur, permH, permN, queue, canc, fired, exec, done, res, chan, st, rejected, queued, timeouts, hist>>

Callers == DOMAIN par.cal
Cancels == DOMAIN par.can
Heavy(c) == par.cal[c].kind # "normal"          \* selectBucket: high CU, debug_/trace_ prefix, batch (&)
CtxDone(c) == par.cal[c].to \/ canc[c]          \* queueCtx of an enqueued request is done
Rec(p) == hist' = IF GenHist THEN Append(hist, p) ELSE hist

InitFor(P) ==
  /\ par = P
  /\ pc = [c \in DOMAIN P.cal |-> "start"]
  /\ wpc = "idle" /\ wcur = "none"
  /\ permH = 0 /\ permN = 0 /\ queue = <<>>
  /\ canc = [c \in DOMAIN P.cal |-> FALSE]
  /\ fired = [x \in DOMAIN P.can |-> FALSE]
  /\ exec = [c \in DOMAIN P.cal |-> 0] /\ done = [c \in DOMAIN P.cal |-> 0]
  /\ res = [c \in DOMAIN P.cal |-> "none"] /\ chan = [c \in DOMAIN P.cal |-> "none"]
  /\ st = [c \in DOMAIN P.cal |-> "none"]
  /\ rejected = 0 /\ queued = 0 /\ timeouts = 0
  /\ hist = <<>>
Init == \E P \in Scenarios : InitFor(P)

-----------------------------------------------------------------------------
(* caller *)
\* Acquire: TryAcquire -> execute directly | enqueueRequest up to the send select | reject
CStart(c) ==
  /\ pc[c] = "start"
  /\ LET free == IF Heavy(c) THEN permH < par.H ELSE permN < par.N IN
     IF free
     THEN /\ permH' = IF Heavy(c) THEN permH + 1 ELSE permH
          /\ permN' = IF Heavy(c) THEN permN ELSE permN + 1
          /\ exec' = [exec EXCEPT ![c] = @ + 1]
          /\ pc' = [pc EXCEPT ![c] = "exec"] /\ UNCHANGED <<rejected, res>>
     ELSE IF Heavy(c) /\ par.Q > 0
     THEN /\ pc' = [pc EXCEPT ![c] = "presend"] /\ UNCHANGED <<permH, permN, exec, rejected, res>>
     ELSE /\ rejected' = rejected + 1 /\ res' = [res EXCEPT ![c] = "err"]
          /\ pc' = [pc EXCEPT ![c] = "fin"] /\ UNCHANGED <<permH, permN, exec>>
  /\ UNCHANGED <<wpc, wcur, queue, canc, fired, done, chan, st, queued, timeouts>>

\* direct execution finishes: executeWithSemaphore releases the permit, Acquire returns the result
CExec(c) ==
  /\ pc[c] = "exec"
  /\ done' = [done EXCEPT ![c] = @ + 1]
  /\ permH' = IF Heavy(c) THEN permH - 1 ELSE permH
  /\ permN' = IF Heavy(c) THEN permN ELSE permN - 1
  /\ res' = [res EXCEPT ![c] = "ok"] /\ pc' = [pc EXCEPT ![c] = "fin"]
  /\ UNCHANGED <<wpc, wcur, queue, canc, fired, exec, chan, st, rejected, queued, timeouts>>

\* select { case queue <- qr: ... default: queue full }
CSend(c) ==
  /\ pc[c] = "presend"
  /\ IF Len(queue) < par.Q
     THEN /\ queue' = Append(queue, c) /\ queued' = queued + 1
          /\ st' = [st EXCEPT ![c] = "waiting"]
          /\ pc' = [pc EXCEPT ![c] = "waiting"] /\ UNCHANGED <<rejected, res>>
     ELSE /\ rejected' = rejected + 1 /\ res' = [res EXCEPT ![c] = "err"]
          /\ pc' = [pc EXCEPT ![c] = "fin"] /\ UNCHANGED <<queue, queued, st>>
  /\ UNCHANGED <<wpc, wcur, permH, permN, canc, fired, exec, done, chan, timeouts>>

\* select { case err := <-qr.result: ... case <-queueCtx.Done(): ... }
TimeoutHit(c) == IF par.cal[c].to /\ ~canc[c] THEN 1 ELSE 0       \* ctx.Err() == nil && DeadlineExceeded
CWait(c) ==
  /\ pc[c] = "waiting"
  /\ \/ /\ chan[c] # "none"                                       \* result case
        /\ res' = [res EXCEPT ![c] = chan[c]] /\ UNCHANGED <<st, timeouts>>
     \/ /\ CtxDone(c) /\ ~FixWait                                 \* ctx case, code as found
        /\ res' = [res EXCEPT ![c] = "err"] /\ timeouts' = timeouts + TimeoutHit(c) /\ UNCHANGED st
     \/ /\ CtxDone(c) /\ FixWait /\ st[c] = "waiting"             \* ctx case: abandon the request
        /\ st' = [st EXCEPT ![c] = "abandoned"]
        /\ res' = [res EXCEPT ![c] = "err"] /\ timeouts' = timeouts + TimeoutHit(c)
     \/ /\ CtxDone(c) /\ FixWait /\ st[c] = "started" /\ chan[c] # "none"   \* ctx case, too late: take the result
        /\ res' = [res EXCEPT ![c] = chan[c]] /\ UNCHANGED <<st, timeouts>>
  /\ pc' = [pc EXCEPT ![c] = "fin"]
  /\ UNCHANGED <<wpc, wcur, permH, permN, queue, canc, fired, exec, done, chan, rejected, queued>>

\* environment: the caller's context is cancelled
Cancel(x) ==
  /\ ~fired[x] /\ pc[par.can[x]] # "fin"
  /\ fired' = [fired EXCEPT ![x] = TRUE] /\ canc' = [canc EXCEPT ![par.can[x]] = TRUE]
  /\ UNCHANGED <<pc, wpc, wcur, permH, permN, queue, exec, done, res, chan, st, rejected, queued, timeouts>>

-----------------------------------------------------------------------------
(* worker: for qr := range queue { ctx check; sem.Acquire; [hand-off]; execute; result <- } *)
WDequeue ==
  /\ wpc = "idle" /\ queue # <<>>
  /\ wcur' = Head(queue) /\ queue' = Tail(queue)
  /\ IF CtxDone(Head(queue))
     THEN /\ chan' = [chan EXCEPT ![Head(queue)] = "err"] /\ wpc' = "idle"
     ELSE /\ wpc' = "checked" /\ UNCHANGED chan
  /\ UNCHANGED <<pc, permH, permN, canc, fired, exec, done, res, st, rejected, queued, timeouts>>

WAcquire ==
  /\ wpc = "checked"
  /\ IF CtxDone(wcur)
     THEN /\ chan' = [chan EXCEPT ![wcur] = "err"] /\ wpc' = "idle"       \* Acquire fails on a done ctx
          /\ UNCHANGED <<permH, exec, st>>
     ELSE /\ permH < par.H
          /\ permH' = permH + 1
          /\ st' = [st EXCEPT ![wcur] = "started"]                          \* (only meaningful with the fix)
          /\ exec' = [exec EXCEPT ![wcur] = @ + 1]
          /\ wpc' = "exec" /\ UNCHANGED chan
  /\ UNCHANGED <<pc, wcur, permN, queue, canc, fired, done, res, rejected, queued, timeouts>>

WExec ==
  /\ wpc = "exec"
  /\ done' = [done EXCEPT ![wcur] = @ + 1] /\ permH' = permH - 1 /\ wpc' = "send"
  /\ UNCHANGED <<pc, wcur, permN, queue, canc, fired, exec, res, chan, st, rejected, queued, timeouts>>

WSend ==
  /\ wpc = "send"
  /\ chan' = [chan EXCEPT ![wcur] = "ok"] /\ wpc' = "idle"
  /\ UNCHANGED <<pc, wcur, permH, permN, queue, canc, fired, exec, done, res, st, rejected, queued, timeouts>>

-----------------------------------------------------------------------------
Step(p) == \/ p \in Callers /\ (CStart(p) \/ CExec(p) \/ CSend(p) \/ CWait(p))
           \/ p \in Cancels /\ Cancel(p)
           \/ p = "w" /\ (WDequeue \/ WAcquire \/ WExec \/ WSend)

AllFin == (\A c \in Callers : pc[c] = "fin") /\ wpc = "idle" /\ queue = <<>>
Next == \/ \E p \in Callers \cup Cancels \cup {"w"} : Step(p) /\ Rec(p) /\ UNCHANGED par
        \/ AllFin /\ ~GenHist /\ UNCHANGED vars
Spec == Init /\ [][Next]_vars
Emit == ~AllFin \/ PrintT(<<"BEH", ToJson([par |-> par, sched |-> hist])>>)

-----------------------------------------------------------------------------
(* Properties (C41) *)
Running(S) == Cardinality({c \in S : exec[c] > done[c]})
\* never more requests of a bucket running than its limit
Bounded == /\ permH >= 0 /\ permH <= par.H /\ permN >= 0 /\ permN <= par.N
           /\ Running({c \in Callers : Heavy(c)}) <= par.H
           /\ Running({c \in Callers : ~Heavy(c)}) <= par.N
AtMostOnce == \A c \in Callers : exec[c] <= 1
\* caller got a result => its request ran exactly once (and that result is its own run's: res = "ok" only then)
OkMeansRan == \A c \in Callers : res[c] = "ok" => exec[c] = 1 /\ done[c] = 1
NoForeignResult == \A c \in Callers : res[c] \in {"none", "ok", "err"}
\* caller got an error => its request does not run, now or later (checked in every later state)
ErrMeansNotRun == \A c \in Callers : res[c] = "err" => exec[c] = 0
\* once the load has stopped every permit and queue slot is free
Released == AllFin => permH = 0 /\ permN = 0
Counters == /\ rejected + queued <= Cardinality(Callers) /\ timeouts <= queued
            /\ rejected = Cardinality({c \in Callers : pc[c] = "fin" /\ res[c] = "err" /\ st[c] = "none"})

-----------------------------------------------------------------------------
(* Scenarios: [H, N, Q, cal : caller -> [kind, to], can : cancel event -> caller] *)
C(kind, to) == [kind |-> kind, to |-> to]
NoProc == [x \in {} |-> 0]
L(H, N, Q, cal, can) == [H |-> H, N |-> N, Q |-> Q, cal |-> cal, can |-> can]
HK == {"heavy_cu", "heavy_debug", "heavy_batch"}

\* the DESIGN scenario: heavy limit 1, queue 1, 3 heavy + 2 normal callers, cancel events
ScnMain == {L(1, 1, 1, [c1 |-> C("heavy_cu", FALSE), c2 |-> C(k2, t2), c3 |-> C("heavy_batch", FALSE),
                        c4 |-> C("normal", FALSE), c5 |-> C("normal", FALSE)], can) :
              k2 \in {"heavy_debug"}, t2 \in BOOLEAN, can \in {[x2 |-> "c2"], [x2 |-> "c2", x3 |-> "c3"]}}
ScnTwo == {L(2, 1, 2, [c1 |-> C("heavy_cu", FALSE), c2 |-> C("heavy_cu", t2), c3 |-> C("heavy_debug", FALSE), c4 |-> C("heavy_batch", t4)], can) :
              t2 \in BOOLEAN, t4 \in BOOLEAN, can \in {NoProc, [x3 |-> "c3"], [x2 |-> "c2", x4 |-> "c4"]}}
ScnNoQueue == {L(1, 2, 0, [c1 |-> C("heavy_cu", FALSE), c2 |-> C("heavy_debug", FALSE), c3 |-> C("normal", FALSE),
                           c4 |-> C("normal", FALSE), c5 |-> C("normal", FALSE)], NoProc)}
ScnSmall == {L(1, 1, 1, [c1 |-> C("heavy_cu", FALSE), c2 |-> C("heavy_debug", t2), c3 |-> C(k3, FALSE)], can) :
               t2 \in BOOLEAN, k3 \in {"heavy_batch", "normal"}, can \in {NoProc, [x2 |-> "c2"], [x2 |-> "c2", x3 |-> "c3"]}}
ScnQuick == ScnSmall \cup ScnNoQueue
ScnAll == ScnMain \cup ScnTwo \cup ScnNoQueue \cup ScnSmall
\* scenarios whose schedules are all enumerated (thorough tier)
ScnEnum == {L(1, 1, 1, [c1 |-> C("heavy_cu", FALSE), c2 |-> C("heavy_debug", FALSE)], [x2 |-> "c2"]),
            L(1, 1, 1, [c1 |-> C("heavy_cu", FALSE), c2 |-> C("heavy_debug", TRUE)], NoProc),
            L(1, 1, 1, [c1 |-> C("heavy_cu", FALSE), c2 |-> C("heavy_debug", FALSE), c3 |-> C("heavy_batch", FALSE)], NoProc)}
=============================================================================
