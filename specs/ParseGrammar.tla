---------------------------- MODULE ParseGrammar ----------------------------
(* C38  Request parsing is total and consistent on both sides.   (exploration)

   This module is a GENERATOR: it enumerates structured client requests and structural mutations
   of them.  One initial state = one request descriptor; checks/C38.py renders every descriptor as
   concrete (url, data, connection type) for the interface's checked-in spec (ETH1 for JSON-RPC,
   LAV1 for REST / Tendermint RPC / gRPC) and harness/cmd/chainparse feeds it to the real ParseMsg,
   first as the consumer does (ExtensionInfo{LatestBlock}), then as the provider does
   (ExtensionInfo{LatestBlock: 0, ExtensionOverride: the consumer's extensions}).

   The oracle is the property itself, evaluated by TLC on the real results (Trace_ParseGrammar):
     Total      no panic, no hang (watchdog) on either side
     Clean      an error, or a message with an API name and at least one compute unit
     Agree      the provider parses what the consumer parsed: same API, compute units, add-on and
                requested block (latest, earliest)
   ExpectedBlock is the only "model" here: for unmutated requests of a known block-taking API the
   block the parser must report; it is used to measure that the binding really reaches the block
   parser (coverage), not as a verdict.

   The quantifier "any byte string" of C38 is NOT reached: only this grammar is explored. *)
EXTENDS Integers, Sequences, FiniteSets, TLC, Json

CONSTANTS Ifaces,      \* subset of {"jsonrpc","batch","rest","tmjson","tmuri","grpc"}
          Latests,     \* latest block handed to the consumer side
          Variants     \* number of concrete renderings per mutation (1..Variants)

Methods == {"known_block",    \* supported API taking a block parameter (eth_getBalance / block / blocks/{height} / GetBlockByHeight)
            "known_call",     \* eth_call (JSON-RPC only): carries the method-specific archive clause
            "known_noblock",  \* supported API without block parameter
            "unknown"}        \* method / path not in the spec
Shapes  == {"positional",     \* params as array            (URL interfaces: path parameter)
            "named",          \* params as object           (URL interfaces: query parameter)
            "empty",          \* params present but empty
            "missing"}        \* no params at all
Tags    == {"latest", "earliest", "pending", "safe", "finalized", "num", "oldnum", "none"}
Muts    == {"none",
            "truncate",       \* request cut in the middle
            "deepnest",       \* a few thousand nested arrays / objects / path segments
            "hugenum",        \* block number far beyond 64 bits
            "wrongtype",      \* value of another JSON type where a string / array is expected
            "dupkey",         \* duplicated object key / query parameter
            "oddtag",         \* unusual block tag spelling (case, blanks, sign, empty hex)
            "nullish"}        \* null / empty body / empty batch

JsonBody(i) == i \in {"jsonrpc", "batch", "tmjson", "grpc"}
UrlOnly(i)  == i \in {"rest", "tmuri"}

\* which combinations make sense for an interface
Valid(r) ==
  /\ r.method = "known_call" => r.iface \in {"jsonrpc", "batch"}
  /\ r.iface = "grpc" => r.shape \in {"named", "empty"}          \* JSON bodies only (no descriptor registry in the harness)
  /\ UrlOnly(r.iface) => r.shape \in {"positional", "named", "missing"}
  /\ r.tag = "none" <=> r.shape \in {"empty", "missing"}         \* a block tag needs a place to put it
  /\ r.mut \in {"hugenum", "oddtag"} => r.tag # "none"
  /\ r.mut = "none" => r.variant = 1

Requests == {r \in [iface : Ifaces, method : Methods, shape : Shapes, tag : Tags, mut : Muts,
                    variant : 1..Variants, latest : Latests] : Valid(r)}

NA == -1  LATEST == -2  EARLIEST == -3  PENDING == -4  SAFE == -5  FINALIZED == -6
NumBlock == 950
OldNumBlock == 5
UNKNOWN == -99
\* block the parser must report for an unmutated request of the known block-taking JSON-RPC API
ExpectedBlock(r) ==
  IF r.mut # "none" \/ r.method \notin {"known_block", "known_call"} \/ r.iface \notin {"jsonrpc"} THEN UNKNOWN
  ELSE CASE r.tag = "latest" -> LATEST [] r.tag = "earliest" -> EARLIEST [] r.tag = "pending" -> PENDING
         [] r.tag = "safe" -> SAFE [] r.tag = "finalized" -> FINALIZED [] r.tag = "num" -> NumBlock
         [] r.tag = "oldnum" -> OldNumBlock [] r.tag = "none" -> NA

VARIABLE req
vars == <<req>>
Init == req \in Requests
Next == UNCHANGED vars

\* every interface, method class, shape, tag and mutation occurs (the generator is not vacuous)
Complete == /\ \A i \in Ifaces : \A m \in Muts : \E r \in Requests : r.iface = i /\ r.mut = m
            /\ \A i \in Ifaces : \A t \in Tags : \E r \in Requests : r.iface = i /\ r.tag = t
            /\ \A m \in Methods \ {"known_call"} : \A i \in Ifaces : \E r \in Requests : r.iface = i /\ r.method = m

Emit == PrintT(<<"BEH", ToJson([req EXCEPT !.latest = req.latest] @@ [exp |-> ExpectedBlock(req)])>>)
=============================================================================
