--------------------------- MODULE Trace_RelaySM ---------------------------
(* Conf-mode validation of logs recorded from the real UnifiedRelayStateMachine against RelaySM.tla
   (one selection mode per run, the configuration of checks/C34.py CFG).  Logged events are matched with
   the spec action that produces them; everything the log cannot show is a *silent* step of the spec
   (the blocking send on the task channel, the select branches gotResults(true) / returnCondition /
   processingCtx.Done, the reader's wake-up and channel send, validateReturnCondition's start and
   15 ms sleep).  TLC searches the silent interleavings; a log is accepted if some interleaving reaches
   its end.  Rejection is reported as DRIFT only (C34 is decided by Trace_RelaySMObs and by the
   exhaustive Decide/OnSend equivalence): it means the design-level results on RelaySM.tla may no
   longer transfer to the code. *)
EXTENDS RelaySM, IOUtils
VARIABLE l
Trace == ndJsonDeserialize(IOEnv.VERIF_TRACE)
tvars == <<vars, l>>

ResetVars ==
  /\ pc' = "emit" /\ out' = Instr(NumFirst) /\ after' = "select"
  /\ pol' = [cbe |-> 0, cpe |-> 0]
  /\ task' = <<>> /\ bu' = <<>> /\ gr' = <<>> /\ rc' = <<>>
  /\ rd' = "wait" /\ rdv' = FALSE /\ nea' = 0 /\ vals' = {}
  /\ cons' = "idle" /\ cur' = Instr(0) /\ batch' = 0 /\ used' = 0 /\ sig' = 0 /\ sum' = Sum0 /\ tout' = FALSE
  /\ ticks' = 0 /\ nerrs' = 0 /\ nres' = 0
  /\ obs' = Obs0 /\ hist' = <<>>

Logged(r) ==
  CASE r.ev = "reset"    -> ResetVars /\ r.sel = Sel
    [] r.ev = "take"     -> ConsTake /\ Head(task).done = r.done /\ Head(task).err = r.err /\ (~r.done => Head(task).n = r.n)
    [] r.ev = "send_ok"  -> SendOk
    [] r.ev = "send_err" -> SendErr(r.e)
    [] r.ev = "result"   -> Result(r.k)
    [] r.ev = "cancel"   -> Timeout
    [] r.ev = "decide"   -> IF r.in.hedge THEN SMTicker /\ (pc' = "emit") = (r.out.action = "retry")
                            ELSE SMGotResults /\ ~Head(gr) /\ (pc' = "emit") = (r.out.action = "retry")
    [] r.ev = "onsend"   -> SMBatchUpdate /\ Head(bu) = r.e /\ pol'.cbe = r.cbe
                            /\ (pc' = "emit") = (r.res = "retry")
    [] r.ev = "hasreq"   -> ReaderCheck /\ rdv' = r.res
    [] r.ev = "drop"     -> /\ cons = "sending" /\ cons' = "idle"     \* driver gave up after a blocked UpdateBatch
                            /\ UNCHANGED <<smvars, cur, batch, used, sig, sum, tout, ticks, nerrs, nres, obs, hist>>
    [] OTHER             -> UNCHANGED vars          \* end, update_blocked

Silent == \/ SMEmit
          \/ (SMGotResults /\ Head(gr))
          \/ SMReturn \/ SMTimeout
          \/ ReaderWake \/ ReaderPush
          \/ \E v \in vals : ValStart(v) \/ ValCheck(v)

TInit == Init /\ l = 0 /\ TLCSet(1, 0)
TNext == \/ (l < Len(Trace) /\ l' = l + 1 /\ Logged(Trace[l + 1]))
         \/ (l < Len(Trace) /\ l' = l /\ Silent)
HWM == IF l > TLCGet(1) THEN TLCSet(1, l) ELSE TRUE
Post == PrintT(<<"HWM", TLCGet(1)>>) /\ TLCGet(1) = Len(Trace)
=============================================================================
