------------------------------ MODULE SpecExpand ------------------------------
(* x/spec : expansion of spec imports (keeper.ExpandSpec -> types.DoExpandSpec ->
   ApiCollection.InheritAllFields / Spec.CombineCollections -> CombineWithOthers ->
   CombineFields + CombineUnique) and the acceptance test types.Spec.ValidateSpec.

   The expansion is a pure function of the spec store, so the module is a transcription: every
   initial state is one input vector `inp` (a spec store of four specs A..D; "X" is an index that is
   never stored) and `out` is the model's result of expanding *every* stored spec.

   Data
     store  db   : [Names -> [imports : Seq(Names \cup {"X"}), cols : Seq(Col)]]
     Col         : [cd : CDs, en : BOOLEAN, apis : Seq(Api)]   cd = CollectionData: "c1" = {jsonrpc,POST},
                   "c2" = {rest,GET}, "c1/p1", "c1/p2" = c1 with InternalPath /p1, /p2 (keys that differ
                   ONLY in the internal path: the order of inherited collections must not depend on
                   Go's map iteration order for them either)
     Api         : [n : name, cu : compute units, en : BOOLEAN]          Equal = record equality
   Only the API list of a collection is enumerated; headers, parse directives, extensions and
   verifications go through the same generic CombineFields/CombineUnique code.  Inheritance
   *inside* one spec (InheritanceApis) is not exercised (always empty).

   Operators named after the Go functions they transcribe (order of evaluation and early exits are
   kept, because they decide which error is reported and the order of the result):
     ExpSpec            DoExpandSpec          (DFS with the `depends` path set)
     Parents            its loop over spec.Imports
     Own                loop over the spec's own collections: InheritAllFields -> Inherit
     Leftover           Spec.CombineCollections (keys sorted, first collection absorbs the others)
     CombineWithOthers  ApiCollection.CombineWithOthers
     CF / CUq           CombineFields / CombineUnique
     Validate           Spec.ValidateSpec (API part: empty list, name twice, CU range)

   `Fixed` selects the CombineFields variant: FALSE = the code as found (an imported combinable that
   is *equal* to one already merged is appended again - defect F15), TRUE = fixes/F15_diamond_dup.patch
   (it is skipped).  Everything the property C22 states is written over an *outcome* (Rejects,
   Complete, NoDup, CUInRange), so the same predicates judge the model's outcome (design level) and
   the outcome recorded from the real keeper (Trace_SpecExpand). *)
EXTENDS Integers, Sequences, FiniteSets, TLC, Json

CONSTANTS Family,   \* which inputs Init enumerates: "graphs" | "content" | "paths" | "all"
          MaxImp,   \* graphs: longest import list
          Ordered,  \* graphs: TRUE = import lists in every order, FALSE = sorted lists only
          Shapes,   \* content: "core" (hand-picked import shapes) | "mini" (chain, fan, diamond) | "dag" (all 64 sorted DAGs)
          Level,    \* content: richness of the per-spec collections 0..3
          Fixed     \* CombineFields variant (see above)

VARIABLES inp, out
vars == <<inp, out>>

AllNames == <<"A", "B", "C", "D", "X">>
Names    == {"A", "B", "C", "D"}
\* sorted as CollectionData.String() sorts them (api_interface, internal_path, type, add_on; the
\* text of a key without internal path continues with `type:`, which sorts after `internal_path:`)
CDs      == <<"c1/p1", "c1/p2", "c1", "c2">>
MinCU    == 1
MaxCU    == 50

Range(s)  == {s[i] : i \in 1..Len(s)}
SeqOf(S)  == SelectSeq(AllNames, LAMBDA n : n \in S)          \* sorted import list of a set
RECURSIVE Flatten(_)
Flatten(ss) == IF ss = <<>> THEN <<>> ELSE Head(ss) \o Flatten(Tail(ss))

(***************************************************************************************************)
(* CombineFields / CombineUnique / CombineWithOthers                                               *)
(***************************************************************************************************)
\* st = [err, map : name -> last merged api, list : merged apis in order]
RECURSIVE CF(_, _, _, _, _)
CF(flat, i, st, curNames, allowOverwrite) ==
  IF i > Len(flat) \/ st.err # "" THEN st
  ELSE LET x    == flat[i]
           seen == x.n \in DOMAIN st.map
           same == seen /\ st.map[x.n] = x
       IN  IF seen /\ ~same /\ ~allowOverwrite          THEN [st EXCEPT !.err = "conflict"]
           ELSE IF seen /\ ~same /\ x.n \notin curNames THEN [st EXCEPT !.err = "conflict"]
           ELSE IF seen /\ same /\ Fixed                THEN CF(flat, i + 1, st, curNames, allowOverwrite)
           ELSE CF(flat, i + 1, [st EXCEPT !.map = (x.n :> x) @@ @, !.list = Append(@, x)],
                   curNames, allowOverwrite)

\* GetCurrentFromCombinable: name -> api, the last one wins
CurMap(apis) == [n \in {apis[i].n : i \in 1..Len(apis)} |->
                   apis[CHOOSE i \in 1..Len(apis) : apis[i].n = n /\ \A j \in (i + 1)..Len(apis) : apis[j].n # n]]

\* acc = [err, apis]
RECURSIVE CUq(_, _, _, _, _)
CUq(merged, i, acc, cur, allowOverwrite) ==
  IF i > Len(merged) \/ acc.err # "" THEN acc
  ELSE LET x == merged[i] IN
       IF x.n \notin DOMAIN cur THEN CUq(merged, i + 1, [acc EXCEPT !.apis = Append(@, x)], cur, allowOverwrite)
       ELSE IF ~allowOverwrite /\ x # cur[x.n] THEN [acc EXCEPT !.err = "conflict"]
       ELSE CUq(merged, i + 1, acc, cur, allowOverwrite)      \* Api.Overwrite is a no-op

CombineWithOthers(col, others, withDisabled, allowOverwrite) ==
  LET elig == SelectSeq(others, LAMBDA o : o.en \/ withDisabled)
      flat == Flatten([k \in 1..Len(elig) |-> SelectSeq(elig[k].apis, LAMBDA a : a.en)])
      cur  == CurMap(col.apis)
      m    == CF(flat, 1, [err |-> "", map |-> <<>>, list |-> <<>>], DOMAIN cur, allowOverwrite)
      u    == CUq(m.list, 1, [err |-> "", apis |-> col.apis], cur, allowOverwrite)
  IN  IF m.err # "" THEN [err |-> m.err, col |-> col]
      ELSE IF u.err # "" THEN [err |-> u.err, col |-> col]
      ELSE [err |-> "", col |-> [col EXCEPT !.apis = u.apis]]

(***************************************************************************************************)
(* DoExpandSpec                                                                                    *)
(***************************************************************************************************)
PCs(all, cd) == SelectSeq(all, LAMBDA c : c.en /\ c.cd = cd)   \* parentsCollections[cd]

RECURSIVE Own(_, _, _)
Own(cols, i, all) ==
  IF i > Len(cols) THEN [err |-> "", cols |-> <<>>]
  ELSE LET r == CombineWithOthers(cols[i], PCs(all, cols[i].cd), FALSE, TRUE) IN
       IF r.err # "" THEN [err |-> r.err, cols |-> <<>>]
       ELSE LET rest == Own(cols, i + 1, all) IN
            IF rest.err # "" THEN rest ELSE [err |-> "", cols |-> <<r.col>> \o rest.cols]

RECURSIVE Leftover(_, _, _)
Leftover(k, ownCDs, all) ==
  IF k > Len(CDs) THEN [err |-> "", cols |-> <<>>]
  ELSE LET cd == CDs[k]
           pc == PCs(all, cd)
       IN  IF cd \in ownCDs \/ pc = <<>> THEN Leftover(k + 1, ownCDs, all)
           ELSE LET r == CombineWithOthers(Head(pc), Tail(pc), FALSE, FALSE) IN
                IF r.err # "" THEN [err |-> r.err, cols |-> <<>>]
                ELSE LET rest == Leftover(k + 1, ownCDs, all) IN
                     IF rest.err # "" THEN rest ELSE [err |-> "", cols |-> <<r.col>> \o rest.cols]

RECURSIVE ExpSpec(_, _, _), Parents(_, _, _, _)
Parents(db, imps, i, depends) ==
  IF i > Len(imps) THEN [err |-> "", ps |-> <<>>]
  ELSE LET x == imps[i] IN
       IF x \notin DOMAIN db THEN [err |-> "unknown", ps |-> <<>>]
       ELSE IF x \in depends THEN [err |-> "loop", ps |-> <<>>]
       ELSE LET r == ExpSpec(db, x, depends \cup {x}) IN
            IF r.err # "" THEN [err |-> r.err, ps |-> <<>>]
            ELSE LET rest == Parents(db, imps, i + 1, depends) IN
                 IF rest.err # "" THEN rest ELSE [err |-> "", ps |-> <<r.cols>> \o rest.ps]

\* termination: every nested call strictly enlarges `depends` \subseteq Names
ExpSpec(db, s, depends) ==
  LET sp == db[s]
      pr == Parents(db, sp.imports, 1, depends)
  IN  IF pr.err # "" THEN [err |-> pr.err, cols |-> <<>>]
      ELSE LET all == Flatten(pr.ps)
               own == Own(sp.cols, 1, all)
           IN  IF own.err # "" THEN [err |-> own.err, cols |-> <<>>]
               ELSE LET lo == Leftover(1, {sp.cols[i].cd : i \in 1..Len(sp.cols)}, all) IN
                    IF lo.err # "" THEN [err |-> lo.err, cols |-> <<>>]
                    ELSE [err |-> "", cols |-> own.cols \o lo.cols]

\* Spec.ValidateSpec, API part (all other fields are valid constants in the harness)
NamesUnique(apis) == \A i, j \in 1..Len(apis) : i # j => apis[i].n # apis[j].n
Validate(cols) == \A k \in 1..Len(cols) :
                    /\ Len(cols[k].apis) > 0
                    /\ NamesUnique(cols[k].apis)
                    /\ \A i \in 1..Len(cols[k].apis) : cols[k].apis[i].cu >= MinCU /\ cols[k].apis[i].cu <= MaxCU

\* keeper.ExpandSpec + keeper.ValidateSpec for every stored spec
Outcome(db) == [s \in Names |->
                  LET r == ExpSpec(db, s, {s}) IN
                  [err |-> r.err, cols |-> r.cols, valid |-> r.err = "" /\ Validate(r.cols)]]

(***************************************************************************************************)
(* The property C22 over an outcome o (model's or real)                                            *)
(***************************************************************************************************)
Step1(db, S) == S \cup {i \in Names : \E n \in S : i \in Range(db[n].imports)}
Reach(db, S) == Step1(db, Step1(db, Step1(db, Step1(db, S))))
OnCycle(db, n) == n \in Reach(db, Range(db[n].imports) \cap Names)
BadGraph(db, s) == \E r \in Reach(db, {s}) : "X" \in Range(db[r].imports) \/ OnCycle(db, r)

Rejects(db, o)  == \A s \in Names : BadGraph(db, s) => o[s].err # ""
Accepts(db, o)  == \A s \in Names : o[s].err \in {"loop", "unknown"} => BadGraph(db, s)

ColOf(cols, cd) == SelectSeq(cols, LAMBDA c : c.cd = cd)
\* every enabled API of every enabled collection of an (expanded) import is present unless overridden
MissingCols(db, o) == {<<s, p, cd>> \in Names \X Names \X Range(CDs) :
                         /\ o[s].err = "" /\ p \in Range(db[s].imports) /\ o[p].err = ""
                         /\ \E c \in Range(o[p].cols) : c.cd = cd /\ c.en
                         /\ ColOf(o[s].cols, cd) = <<>>}
MissingApis(db, o) == {<<s, p, cd, x.n>> : <<s, p, cd, x>> \in
                         {<<s, p, cd, x>> \in Names \X Names \X Range(CDs) \X
                              UNION {Range(c.apis) : c \in UNION {Range(o[q].cols) : q \in Names}} :
                            /\ o[s].err = "" /\ p \in Range(db[s].imports) /\ o[p].err = ""
                            /\ \E c \in Range(o[p].cols) : c.cd = cd /\ c.en /\ x \in Range(c.apis) /\ x.en
                            /\ ~\E c \in Range(db[s].cols) : c.cd = cd /\ \E y \in Range(c.apis) : y.n = x.n
                            /\ ~\E c \in Range(o[s].cols) : c.cd = cd /\ x \in Range(c.apis)}}
Complete(db, o) == MissingCols(db, o) = {} /\ MissingApis(db, o) = {}

DupCols(o) == {<<s, cd>> \in Names \X Range(CDs) : o[s].err = "" /\ Len(ColOf(o[s].cols, cd)) > 1}
\* <<spec, collection, "own" if the raw spec defines that collection itself else "inherited">>
DupApis(db, o) == {<<s, cd, IF \E c \in Range(db[s].cols) : c.cd = cd THEN "own" ELSE "inherited">> :
                     <<s, cd>> \in {<<s, cd>> \in Names \X Range(CDs) :
                        o[s].err = "" /\ \E c \in Range(o[s].cols) : c.cd = cd /\ ~NamesUnique(c.apis)}}
NoDup(db, o) == DupCols(o) = {} /\ DupApis(db, o) = {}

\* nothing appears from nowhere: every API of the result is the spec's own or an enabled one of an import
Junk(db, o) == {<<s, cd>> \in Names \X Range(CDs) :
                  /\ o[s].err = ""
                  /\ \E c \in Range(o[s].cols) : c.cd = cd /\ \E x \in Range(c.apis) :
                       /\ ~\E d \in Range(db[s].cols) : d.cd = cd /\ x \in Range(d.apis)
                       /\ ~\E p \in Range(db[s].imports) \cap Names : \E d \in Range(o[p].cols) :
                               d.cd = cd /\ d.en /\ x \in Range(d.apis)}
NoJunk(db, o) == Junk(db, o) = {}

OutOfRange(o) == {s \in Names : o[s].valid /\ \E c \in Range(o[s].cols) : \E x \in Range(c.apis) :
                                   x.cu < MinCU \/ x.cu > MaxCU}
CUInRange(o) == OutOfRange(o) = {}

(***************************************************************************************************)
(* Input families                                                                                  *)
(***************************************************************************************************)
Api(n, cu, en) == [n |-> n, cu |-> cu, en |-> en]
Col(cd, en, apis) == [cd |-> cd, en |-> en, apis |-> apis]
Spec(imps, cols) == [imports |-> imps, cols |-> cols]

Injective(q) == \A i, j \in 1..Len(q) : i # j => q[i] # q[j]
ImpLists(k) == IF Ordered
               THEN {q \in UNION {[1..m -> Range(AllNames)] : m \in 0..k} : Injective(q)}
               ELSE {SeqOf(S) : S \in {T \in SUBSET Range(AllNames) : Cardinality(T) <= k}}

\* graphs: every spec owns collection c1 with one API named after itself
OwnApi(s) == CASE s = "A" -> "a" [] s = "B" -> "b" [] s = "C" -> "c" [] s = "D" -> "d"
GraphInputs == {[s \in Names |-> Spec(g[s], <<Col("c1", TRUE, <<Api(OwnApi(s), 10, TRUE)>>)>>)] :
                   g \in [Names -> ImpLists(MaxImp)]}

\* content: import shapes
Shape(a, b, c, d) == [A |-> a, B |-> b, C |-> c, D |-> d]
CoreShapes == {
   Shape(<<>>, <<>>, <<>>, <<>>),                       \* no import
   Shape(<<"B">>, <<>>, <<>>, <<>>),                    \* A -> B
   Shape(<<"B">>, <<"C">>, <<"D">>, <<>>),              \* chain
   Shape(<<"B", "C">>, <<>>, <<>>, <<>>),               \* fan 2
   Shape(<<"B", "C", "D">>, <<>>, <<>>, <<>>),          \* fan 3
   Shape(<<"B", "C">>, <<"D">>, <<"D">>, <<>>),         \* diamond
   Shape(<<"C", "B">>, <<"D">>, <<"D">>, <<>>),         \* diamond, imports in the other order
   Shape(<<"B", "C">>, <<"C">>, <<>>, <<>>),            \* triangle (C directly and through B)
   Shape(<<"B">>, <<"C", "D">>, <<>>, <<>>),            \* fan below B
   Shape(<<"B", "D">>, <<"C">>, <<"D">>, <<>>) }        \* D directly and through B -> C
DagShapes == {Shape(SeqOf(a), SeqOf(b), SeqOf(c), <<>>) :
                 a \in SUBSET {"B", "C", "D"}, b \in SUBSET {"C", "D"}, c \in SUBSET {"D"}}
MiniShapes == {Shape(<<"B">>, <<"C">>, <<"D">>, <<>>), Shape(<<"B", "C", "D">>, <<>>, <<>>, <<>>),
               Shape(<<"B", "C">>, <<"D">>, <<"D">>, <<>>)}
ShapeSet == CASE Shapes = "core" -> CoreShapes [] Shapes = "mini" -> MiniShapes [] OTHER -> DagShapes

\* content: collections of one spec
Opt(S) == {<<>>} \cup {<<x>> : x \in S}
AOpts(lv) == CASE lv = 0 -> Opt({Api("a", 10, TRUE), Api("a", 20, TRUE), Api("a", 10, FALSE)})
               [] lv = 1 -> Opt({Api("a", 10, TRUE), Api("a", 20, TRUE), Api("a", 10, FALSE)})
               [] lv = 2 -> Opt({Api("a", 10, TRUE), Api("a", 20, TRUE), Api("a", 10, FALSE), Api("a", 99, TRUE)})
               [] OTHER  -> Opt({Api("a", 10, TRUE), Api("a", 20, TRUE), Api("a", 10, FALSE), Api("a", 99, TRUE),
                                 Api("a", 0, TRUE)})
BOpts(lv) == IF lv <= 1 THEN {<<>>} ELSE Opt({Api("b", 10, TRUE)})
C1Opts(lv) == IF lv = 0
              THEN {<<>>, <<Col("c1", FALSE, <<Api("a", 10, TRUE)>>)>>} \cup {<<Col("c1", TRUE, a)>> : a \in AOpts(0)}
              ELSE {<<>>} \cup {<<Col("c1", e, a \o b)>> : e \in BOOLEAN, a \in AOpts(lv), b \in BOpts(lv)}
C2Opts(lv) == IF lv < 3 THEN {<<>>}
              ELSE {<<>>, <<Col("c2", TRUE, <<Api("a", 10, TRUE)>>)>>, <<Col("c2", FALSE, <<Api("a", 10, TRUE)>>)>>,
                    <<Col("c2", TRUE, <<Api("b", 20, TRUE)>>)>>}
ColOpts(lv) == {x \o y : x \in C1Opts(lv), y \in C2Opts(lv)} \cup {y \o x : x \in C1Opts(lv) \ {<<>>}, y \in C2Opts(lv) \ {<<>>}}
ContentInputs == {[s \in Names |-> Spec(sh[s], c[s])] : sh \in ShapeSet, c \in [Names -> ColOpts(Level)]}

\* paths: collections that differ only in the internal path, inherited through A -> B, A -> {B,C},
\* A -> B -> C; every spec holds any subset of {c1/p1, c1/p2, c1} (B also in descending order), A's
\* own ones override, the rest is inherited through CombineCollections (>= 2 tied keys)
PathCDs == <<"c1/p1", "c1/p2", "c1">>
Rev(q) == [i \in 1..Len(q) |-> q[Len(q) + 1 - i]]
PathColsAsc == {[i \in 1..Len(sel) |-> Col(sel[i], TRUE, <<Api("a", 10, TRUE)>>)] :
                   sel \in {SelectSeq(PathCDs, LAMBDA c : c \in S) : S \in SUBSET Range(PathCDs)}}
PathCols(s) == IF s = "B" THEN UNION {{q, Rev(q)} : q \in PathColsAsc} ELSE PathColsAsc
PathShapes == {Shape(<<"B">>, <<>>, <<>>, <<>>), Shape(<<"B", "C">>, <<>>, <<>>, <<>>), Shape(<<"B">>, <<"C">>, <<>>, <<>>)}
PathInputs == {[s \in Names |-> Spec(sh[s], IF s = "D" THEN <<>> ELSE c[s])] :
                  sh \in PathShapes, c \in {f \in [{"A", "B", "C"} -> UNION {PathCols(x) : x \in {"A", "B"}}] :
                                            \A x \in {"A", "B", "C"} : f[x] \in PathCols(x)}}

Inputs == CASE Family = "graphs"  -> GraphInputs
            [] Family = "content" -> ContentInputs
            [] Family = "paths"   -> PathInputs
            [] OTHER              -> GraphInputs \cup ContentInputs \cup PathInputs

\* The work is done by the action Run (not by Init) so that TLC's workers share it.
Init == inp \in Inputs /\ out = <<>>
Run  == out = <<>> /\ out' = Outcome(inp) /\ UNCHANGED inp
Next == Run

\* design-level invariants (hold for Fixed = TRUE; NoDupInv fails for Fixed = FALSE: F15)
RejectsInv  == out # <<>> => Rejects(inp, out) /\ Accepts(inp, out)
CompleteInv == out # <<>> => Complete(inp, out)
NoDupInv    == out # <<>> => NoDup(inp, out)
NoJunkInv   == out # <<>> => NoJunk(inp, out)
CUInv       == out # <<>> => CUInRange(out)

\* (the input vectors of a family are written out in one piece by Emit_SpecExpand.tla)

\* seeded sampling of the richest family, any graph (tlc -simulate; one vector per step)
\* (the dummy parameter keeps TLC from evaluating the random draws once, as constants)
RandSpec(imps, dummy) == Spec(RandomElement(imps), RandomElement(ColOpts(3)))
RandDag(dummy) == [A |-> RandSpec({SeqOf(a) : a \in SUBSET {"B", "C", "D"}}, dummy),
                   B |-> RandSpec({SeqOf(a) : a \in SUBSET {"C", "D"}}, dummy),
                   C |-> RandSpec({SeqOf(a) : a \in SUBSET {"D"}}, dummy),
                   D |-> RandSpec({<<>>}, dummy)]
RandAny(dummy) == [s \in Names |-> RandSpec({q \in UNION {[1..m -> Range(AllNames)] : m \in 0..2} : Injective(q)}, dummy)]
GenInit == inp = RandDag(0) /\ out = <<>>
GenNext == /\ inp' = IF RandomElement(1..4) = 1 THEN RandAny(inp) ELSE RandDag(inp)
           /\ out' = <<>>
GenEmit == PrintT(<<"BEH", ToJson(inp)>>)

=============================================================================
