------------------------------- MODULE NextMonth -------------------------------
(* Transcription of utils/time.go NextMonth (production branch): same time of day one month later, the
   day of month trimmed to 28 so that the target always exists.  Calendar = proleptic Gregorian. *)
EXTENDS Integers, TLC, Json
CONSTANTS Years, Secs      \* years to enumerate, seconds-of-day to try
VARIABLES y, m, d, s
vars == <<y, m, d, s>>

Leap(yy) == (yy % 4 = 0 /\ yy % 100 # 0) \/ yy % 400 = 0
DaysIn(yy, mm) == IF mm = 2 THEN (IF Leap(yy) THEN 29 ELSE 28)
                  ELSE IF mm \in {4, 6, 9, 11} THEN 30 ELSE 31

NM(yy, mm, dd, ss) == [y |-> IF mm = 12 THEN yy + 1 ELSE yy,
                       m |-> IF mm = 12 THEN 1 ELSE mm + 1,
                       d |-> IF dd > 28 THEN 28 ELSE dd,
                       s |-> ss]
\* length of the paid month in days (time of day is unchanged)
Span(yy, mm, dd) == (DaysIn(yy, mm) - dd) + (IF dd > 28 THEN 28 ELSE dd)

Init == /\ y \in Years /\ m \in 1..12 /\ d \in 1..DaysIn(y, m) /\ s \in Secs
Next == UNCHANGED vars
Emit == PrintT(<<"BEH", ToJson([y |-> y, m |-> m, d |-> d, s |-> s])>>)
\* design-level facts used by C12: the result is a calendar date, strictly later, 28..31 days away
Valid == LET r == NM(y, m, d, s) IN r.d <= DaysIn(r.y, r.m) /\ Span(y, m, d) \in 28..31
=============================================================================
