--------------------- MODULE TraceConf_ConsumerSessions ---------------------
(* Conf-mode validation (DRIFT ONLY, never a verdict): is the trace recorded from the real ConsumerSessionManager a
   behaviour of ConsumerSessions.tla?  Logged events are matched with the spec action at the place where the
   driver logs them; everything the manager does in between (Validate, ReadEpoch, Select, SelectBlk, Acquire,
   BlockA, AddCU, Fail2, Fail3, the Update critical section, Unblock, CheckUnblock) is a silent step.
     call    = Start                       (logged before GetSessions is called)
     got     = relay r is at pc "held" with exactly the logged session values and provider CU  (logged after return)
     nogot   = relay r fell back to idle with an error
     end     = the driver announces Done / DoneInc / Fail1(kind); it is logged before OnSession* is called, so the
               action itself is a silent step that happens later
     ret     = relay r is idle again        (logged after OnSession* returned)
     updcall / updret bracket the silent Update step
     barrier = the complete spec state equals the logged snapshot (sessions compared as a bag)
   Acceptance = one complete matching path exists: the search is depth-first (StateDeque) and stops at the first
   state that has consumed the whole trace (reported by TLC as "violation" of NotDone). *)
EXTENDS ConsumerSessions, IOUtils, Json

VARIABLES l, ack, upd, kind
tvars == <<vars, l, ack, upd, kind>>

Trace == ndJsonDeserialize(IOEnv.VERIF_TRACE)
ToSet(s) == {s[i] : i \in 1..Len(s)}

Hwm(n) == IF n > TLCGet(1) THEN PrintT(<<"HWM", n>>) /\ TLCSet(1, n) ELSE TRUE

InitFrom(r) ==
  /\ epoch = 1 /\ pairing = ToSet(r.provs) /\ valid = ToSet(r.provs) /\ blockedL = <<>> /\ prevBlocked = {}
  /\ resets = 0 /\ reported = {} /\ second = {}
  /\ used = [o \in Objs |-> 0] /\ bstat = [o \in Objs |-> 0] /\ sess = [o \in Objs |-> <<>>]
  /\ gdone = [o \in Objs |-> <<>>] /\ veHi = [o \in Objs |-> 0]
  /\ rs = [x \in Relays |-> IdleRel({}, {}, "none")]
  /\ pendUnb = [p \in Provs |-> 0] /\ pendChk = {} /\ nupd = 0 /\ nops = 0 /\ mcu = r.maxcu /\ cache = NoCache

TInit == /\ l = 1 /\ Trace[1].ev = "reset" /\ InitFrom(Trace[1]) /\ TLCSet(1, 1)
         /\ ack = [x \in Relays |-> "idle"] /\ upd = <<"idle">> /\ kind = [x \in Relays |-> ""]

ResetTo(r) ==
  /\ epoch' = 1 /\ pairing' = ToSet(r.provs) /\ valid' = ToSet(r.provs) /\ blockedL' = <<>> /\ prevBlocked' = {}
  /\ resets' = 0 /\ reported' = {} /\ second' = {}
  /\ used' = [o \in Objs |-> 0] /\ bstat' = [o \in Objs |-> 0] /\ sess' = [o \in Objs |-> <<>>]
  /\ gdone' = [o \in Objs |-> <<>>] /\ veHi' = [o \in Objs |-> 0]
  /\ rs' = [x \in Relays |-> IdleRel({}, {}, "none")]
  /\ pendUnb' = [p \in Provs |-> 0] /\ pendChk' = {} /\ nupd' = 0 /\ nops' = 0 /\ mcu' = r.maxcu /\ cache' = NoCache
  /\ ack' = [x \in Relays |-> "idle"] /\ upd' = <<"idle">> /\ kind' = [x \in Relays |-> ""]

SessT(S)  == [i \in 1..Len(S) |-> <<S[i].cu, S[i].rn, S[i].lcu, S[i].bl, S[i].lk>>]
SameBag(A, B) == /\ Len(A) = Len(B)
                 /\ \A i \in 1..Len(A) : Cardinality({j \in 1..Len(A) : A[j] = A[i]}) = Cardinality({j \in 1..Len(B) : B[j] = A[i]})

MatchBarrier(r) ==
  /\ \A x \in Relays : ack[x] \in {"idle", "held"}
  /\ upd = <<"idle">>
  /\ epoch = r.epoch /\ valid = ToSet(r.valid) /\ blockedL = r.blocked /\ resets = r.resets
  /\ second = ToSet(r.second) /\ reported = ToSet(r.reported) /\ pairing = ToSet(r.pairing)
  /\ \A i \in 1..Len(r.objs) :
       LET o == r.objs[i] IN
       /\ used[<<o.p, o.e>>] = o.used
       /\ bstat[<<o.p, o.e>>] = o.bstat
       /\ SameBag(SessT(sess[<<o.p, o.e>>]), SessT(o.sess))

Event(r) ==
  CASE r.ev = "reset" -> ResetTo(r)
    [] r.ev = "call" ->
         /\ ack[r.r] = "idle"
         /\ Start(r.r, r.cu, r.ve, r.fresh, r.addon = "a1")
         /\ rs'[r.r].ign = ToSet(r.unw)
         /\ ack' = [ack EXCEPT ![r.r] = "calling"] /\ UNCHANGED upd
    [] r.ev = "got" ->
         /\ ack[r.r] = "calling" /\ rs[r.r].pc = "held"
         /\ rs[r.r].p = r.pp /\ rs[r.r].e = r.pe
         /\ LET s == sess[<<r.pp, r.pe>>][rs[r.r].sid] IN s.rn = r.rn /\ s.cu = r.cusum /\ s.lcu = r.lcu
         /\ used[<<r.pp, r.pe>>] = r.used
         /\ rs[r.r].repd = ToSet(r.rep)
         /\ ack' = [ack EXCEPT ![r.r] = "held"] /\ UNCHANGED <<vars, upd>>
    [] r.ev = "nogot" ->
         /\ ack[r.r] = "calling" /\ rs[r.r].pc = "idle" /\ rs[r.r].res = "err"
         /\ ack' = [ack EXCEPT ![r.r] = "idle"] /\ UNCHANGED <<vars, upd>>
    [] r.ev = "end" ->
         /\ ack[r.r] = "held"
         /\ ack' = [ack EXCEPT ![r.r] = "ending"] /\ kind' = [kind EXCEPT ![r.r] = r.kind] /\ UNCHANGED <<vars, upd>>
    [] r.ev = "ret" ->
         /\ ack[r.r] = "ending" /\ rs[r.r].pc = "idle"
         /\ ack' = [ack EXCEPT ![r.r] = "idle"] /\ UNCHANGED <<vars, upd>>
    [] r.ev = "updcall" ->
         /\ upd = <<"idle">> /\ upd' = <<"calling", ToSet(r.P)>> /\ UNCHANGED <<vars, ack>>
    [] r.ev = "updret" ->
         /\ upd = <<"done">> /\ upd' = <<"idle">> /\ UNCHANGED <<vars, ack>>
    [] r.ev = "barrier" ->
         /\ MatchBarrier(r) /\ UNCHANGED <<vars, ack, upd>>
    [] OTHER -> UNCHANGED <<vars, ack, upd>>

Silent ==
  \/ /\ \E r \in Relays : ack[r] \in {"calling", "ending"} /\
          (Validate(r) \/ ReadEpoch(r) \/ Select(r) \/ SelectBlk(r) \/ Acquire(r) \/ BlockA(r) \/ AddCU(r)
           \/ Fail2(r) \/ Fail3(r)
           \/ (ack[r] = "ending" /\ CASE kind[r] = "done" -> Done(r)
                                     [] kind[r] = "doneinc" -> DoneInc(r)
                                     [] OTHER -> Fail1(r, kind[r])))
     /\ UNCHANGED upd
  \/ /\ upd[1] = "calling" /\ Update(upd[2]) /\ upd' = <<"done">>
  \/ /\ (\E p \in Provs : Unblock(p)) /\ UNCHANGED upd
  \/ /\ (\E e \in Epochs : CheckUnblock(e)) /\ UNCHANGED upd

TNext ==
  \/ /\ l < Len(Trace) /\ l' = l + 1 /\ Event(Trace[l + 1]) /\ Hwm(l + 1)
     /\ (Trace[l + 1].ev \notin {"end", "reset"} => UNCHANGED kind)
  \/ /\ l' = l /\ UNCHANGED <<ack, kind>> /\ Silent
NotDone == l < Len(Trace)
=============================================================================
