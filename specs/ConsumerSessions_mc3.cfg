CONSTANTS
  Provs = {"p1", "p2", "p3"}
  Relays = {1, 2, 3}
  MaxCU = 2
  CUs = {1, 2}
  MaxVE = 1
  MaxUpdates = 1
  MaxOps = 2
  MaxSess = 3
  ConsecLimit = 1
  FailKinds = {"plain", "report", "sync"}
  PairingSets = {{"p1", "p2", "p3"}, {"p1", "p2"}}
  Supp = {"p1", "p3"}
  Addons = {FALSE, TRUE}
  SplitReserve = FALSE
INIT Init
NEXT Next
INVARIANTS TypeOK Exclusive Accounting Bound Signed BlockedRule
PROPERTIES RelayNumMono
CHECK_DEADLOCK FALSE
