------------------------------- MODULE Conflict -------------------------------
(* x/conflict : response-conflict votes (commit - reveal - close).

   One action per entry point, in code order of the checks:
     Detect(pair, age)            msg_server_detection.go  handleResponseConflict
     Commit(who, id, hash)        msg_server_conflict_vote_commit.go
     Reveal(who, id, nonce, opt)  msg_server_conflict_vote_reveal.go
     Tick(k)                      k blocks; BeginBlock -> CheckAndHandleAllVotes (vote.go), which acts only
                                  when the new height is an epoch start: TransitionVoteToReveal /
                                  HandleAndCloseVote for every vote whose deadline has been reached.

   Abstractions (all stated in docs/notes/C20.md):
   * a vote id is (pair, epoch start of the relay session): DetectionIndex = client ++ provider0 ++
     provider1 ++ epochStart with one client; pair "A" = (p0,p1), pair "B" = (p1,p0);
   * the commit hash CommitVoteData(nonce, dataHash, creator) = sha256(nonce ++ dataHash ++ creator) is the
     tuple [n, opt, as] (injective; opt = which of the two conflicting replies the data hash names, or
     "none"); the empty hash is NoHash (the code stores nil and later answers "did not commit");
   * stake of a voter = TotalStake of its entry in the snapshot of the vote's epoch; constant during a
     behaviour (pairingKeeper.SlashEntry / JailEntry are no-ops in this tree, so closing changes nothing);
   * epochs have EB blocks and start at multiples of EB (no epoch parameter change while a vote is open);
   * the reward part of HandleAndCloseVote is not modelled (reward pool is always zero). *)
EXTENDS Integers, Sequences, FiniteSets, TLC, Json

CONSTANTS VoterSeq,   \* providers staked on the chain besides the two conflicting ones (a sequence)
          Others,     \* senders that are never listed (conflicting provider, unstaked account)
          Pairs,      \* {"A","B"}
          EB,         \* blocks per epoch
          VP,         \* conflict param VotePeriod (epochs)
          SPAN,       \* conflict param VoteStartSpan (epochs)
          Base,       \* first height of a behaviour (an epoch start)
          MaxH,       \* time bound
          MaxDet,     \* bound on accepted detections
          StakeVecs,  \* stake vectors to choose from (aligned with VoterSeq)
          Ages,       \* detection message age in epochs
          MaxOps,     \* generator: behaviour length
          GenHist

VARIABLES height,
          votes,     \* [id -> [state, deadline, start, voters : [voter -> [h, res]]]]  (open votes only)
          stake,     \* [Voters -> Nat]
          out,       \* set of resolution events emitted by the last step
          last,      \* the last step: action, arguments, result
          ndet, nops, hist

vars == <<height, votes, stake, out, last, ndet, nops, hist>>

Voters == {VoterSeq[i] : i \in 1..Len(VoterSeq)}
Senders == Voters \cup Others
Opts == {"first", "second", "none"}
NoHash == [n |-> 0, opt |-> "", as |-> ""]
H(n, opt, who) == [n |-> n, opt |-> opt, as |-> who]

EpochStartOf(h) == (h \div EB) * EB
IsES(h) == h % EB = 0
NextEpochOf(h) == EpochStartOf(h) + EB
Id(pair, es) == [pair |-> pair, es |-> es]

\* stake counted for a vote = the snapshot taken for the vote's epoch (rec.stake)
RECURSIVE SumSt(_, _)
SumSt(st, S) == IF S = {} THEN 0 ELSE LET x == CHOOSE y \in S : TRUE IN st[x] + SumSt(st, S \ {x})

Listed(rec) == DOMAIN rec.voters
With(rec, r) == {v \in Listed(rec) : rec.voters[v].res = r}
Tally(rec, r) == SumSt(rec.stake, With(rec, r))
Total(rec) == SumSt(rec.stake, Listed(rec))
NonVoters(rec) == {v \in Listed(rec) : rec.voters[v].res \in {"novote", "commit"}}

\* HandleAndCloseVote, code arithmetic: half = total / 2 (integer), strict comparisons, winner ladder
CodeMajority(rec) == LET half == Total(rec) \div 2 IN
  Tally(rec, "first") > half \/ Tally(rec, "second") > half \/ Tally(rec, "none") > half
CodeWinner(rec) ==
  IF Tally(rec, "first") > Tally(rec, "second") /\ Tally(rec, "first") > Tally(rec, "none") THEN "first"
  ELSE IF Tally(rec, "second") > Tally(rec, "none") THEN "second" ELSE "none"
EventOf(id, rec) ==
  [pair |-> id.pair, es |-> id.es,
   kind |-> IF CodeMajority(rec) THEN "resolved" ELSE "unresolved",
   winner |-> IF CodeMajority(rec) THEN CodeWinner(rec) ELSE "",
   total |-> Total(rec), first |-> Tally(rec, "first"), second |-> Tally(rec, "second"),
   none |-> Tally(rec, "none"), novoters |-> Cardinality(NonVoters(rec))]

Rec(a, who, pair, es, n, opt, as, k, ok, err) ==
  [a |-> a, who |-> who, pair |-> pair, es |-> es, n |-> n, opt |-> opt, as |-> as, k |-> k,
   ok |-> ok, err |-> err]
Record(r) == hist' = IF GenHist THEN Append(hist, r) ELSE hist

Fail(r) == /\ last' = r /\ out' = {} /\ UNCHANGED <<height, votes, stake, ndet>>

-----------------------------------------------------------------------------
\* the relay session of the detection message carries block `at` = height - age*EB
Detect(pair, age) ==
  LET at == height - age * EB
      es == EpochStartOf(at)
      id == Id(pair, es)
      r(ok, err) == Rec("detect", "", pair, es, 0, "", "", age, ok, err)
  IN /\ at >= Base
     /\ Record(r(TRUE, ""))
     /\ IF height - es >= SPAN * EB THEN Fail(r(FALSE, "span"))
        ELSE IF id \in DOMAIN votes THEN Fail(r(FALSE, "exists"))
        ELSE /\ ndet < MaxDet
             /\ ndet' = ndet + 1
             /\ votes' = [i \in DOMAIN votes \cup {id} |->
                            IF i = id
                            THEN [state |-> "commit", deadline |-> NextEpochOf(height + VP * EB), start |-> at,
                                  stake |-> stake,
                                  voters |-> [v \in Voters |-> [h |-> NoHash, res |-> "novote"]]]
                            ELSE votes[i]]
             /\ last' = r(TRUE, "") /\ out' = {}
             /\ UNCHANGED <<height, stake>>

Commit(who, id, hash) ==
  LET r(ok, err) == Rec("commit", who, id.pair, id.es, hash.n, hash.opt, hash.as, 0, ok, err) IN
  /\ Record(r(TRUE, ""))
  /\ IF id \notin DOMAIN votes THEN Fail(r(FALSE, "noid"))
     ELSE IF votes[id].state # "commit" THEN Fail(r(FALSE, "state"))
     ELSE IF who \notin Listed(votes[id]) THEN Fail(r(FALSE, "notvoter"))
     ELSE IF votes[id].voters[who].res # "novote" THEN Fail(r(FALSE, "dup"))
     ELSE /\ votes' = [votes EXCEPT ![id].voters[who] = [h |-> hash, res |-> "commit"]]
          /\ last' = r(TRUE, "") /\ out' = {}
          /\ UNCHANGED <<height, stake, ndet>>

Reveal(who, id, n, opt) ==
  LET r(ok, err) == Rec("reveal", who, id.pair, id.es, n, opt, who, 0, ok, err) IN
  /\ Record(r(TRUE, ""))
  /\ IF id \notin DOMAIN votes THEN Fail(r(FALSE, "noid"))
     ELSE IF votes[id].state # "reveal" THEN Fail(r(FALSE, "state"))
     ELSE IF who \notin Listed(votes[id]) THEN Fail(r(FALSE, "notvoter"))
     ELSE IF votes[id].voters[who].h = NoHash THEN Fail(r(FALSE, "nocommit"))
     ELSE IF votes[id].voters[who].res # "commit" THEN Fail(r(FALSE, "revealed"))
     ELSE IF votes[id].voters[who].h # H(n, opt, who) THEN Fail(r(FALSE, "mismatch"))
     ELSE /\ votes' = [votes EXCEPT ![id].voters[who].res = opt]
          /\ last' = r(TRUE, "") /\ out' = {}
          /\ UNCHANGED <<height, stake, ndet>>

Due(id, h) == votes[id].deadline <= h
\* k blocks, only the last of which may be an epoch start
Tick(k) ==
  LET h == height + k
      closing == {id \in DOMAIN votes : IsES(h) /\ Due(id, h) /\ votes[id].state = "reveal"}
      moving  == {id \in DOMAIN votes : IsES(h) /\ Due(id, h) /\ votes[id].state = "commit"}
  IN /\ k >= 1 /\ h <= MaxH
     /\ \A j \in 1..(k - 1) : ~IsES(height + j)
     /\ height' = h
     /\ votes' = [id \in DOMAIN votes \ closing |->
                    IF id \in moving THEN [votes[id] EXCEPT !.state = "reveal", !.deadline = h + VP * EB]
                    ELSE votes[id]]
     /\ out' = {EventOf(id, votes[id]) : id \in closing}
     /\ last' = Rec("tick", "", "", 0, 0, "", "", k, TRUE, "")
     /\ Record(Rec("tick", "", "", 0, 0, "", "", k, TRUE, ""))
     /\ UNCHANGED <<stake, ndet>>

ToNextEpoch == NextEpochOf(height) - height

Init == /\ height = Base /\ votes = <<>> /\ stake \in {[v \in Voters |-> vec[CHOOSE i \in 1..Len(VoterSeq) : VoterSeq[i] = v]] : vec \in StakeVecs} /\ out = {}
        /\ last = Rec("reset", "", "", 0, 0, "", "", 0, TRUE, "") /\ ndet = 0 /\ nops = 0 /\ hist = <<>>

\* ids the environment may address: every pair at every epoch start so far (open, closed or never opened)
EpochStarts == {e \in Base..height : IsES(e)}
AllIds == {Id(p, e) : p \in Pairs, e \in EpochStarts}
\* hashes the environment commits in the exhaustive run: own valid ones with nonce 1, a copy of somebody
\* else's commitment, the empty hash
EnvHashes(who) == {H(1, o, who) : o \in Opts} \cup {H(1, "first", CHOOSE v \in Voters : v # who)} \cup {NoHash}

\* ids addressed in the exhaustive run: the open votes, and per pair the id of the first epoch (typically
\* already closed = "late" message) and of the current epoch (typically not opened yet)
EnvIds == DOMAIN votes \cup {Id(p, e) : p \in Pairs, e \in {Base, EpochStartOf(height)}}
Env == \/ \E p \in Pairs, age \in Ages : Detect(p, age)
       \/ \E w \in Senders, id \in EnvIds : \E h \in EnvHashes(w) : Commit(w, id, h)
       \/ \E w \in Senders, id \in EnvIds, n \in {1, 2}, o \in Opts : Reveal(w, id, n, o)
       \/ Tick(1) \/ Tick(ToNextEpoch)

Next == Env /\ nops' = nops
Spec == Init /\ [][Next]_vars

-----------------------------------------------------------------------------
\* Generator (-simulate): one alternative per action kind.  Every random draw is bound exactly once with
\* \E x \in {RandomElement(S)} (a LET definition would be re-evaluated, i.e. re-drawn, at every use).
OpenIn(st) == {id \in DOMAIN votes : votes[id].state = st}
CanCommit(id) == {v \in Listed(votes[id]) : votes[id].voters[v].res = "novote"}
CanReveal(id) == {v \in Listed(votes[id]) : votes[id].voters[v].res = "commit" /\ votes[id].voters[v].h # NoHash}
GenOpts == {"first", "first", "second", "none"}
GenId == IF DOMAIN votes = {} \/ RandomElement(1..5) = 1 THEN RandomElement(AllIds) ELSE RandomElement(DOMAIN votes)
GenDetect == \E p \in {RandomElement(Pairs)} : \E age \in {RandomElement(Ages)} : Detect(p, age)
GenCommitGood ==
  /\ \E id \in OpenIn("commit") : CanCommit(id) # {}
  /\ \E id \in {RandomElement({i \in OpenIn("commit") : CanCommit(i) # {}})} :
     \E w \in {RandomElement(CanCommit(id))} :
     \E n \in {RandomElement({1, 2})} : \E o \in {RandomElement(GenOpts)} : Commit(w, id, H(n, o, w))
GenCommitAny ==
  \E id \in {GenId} : \E w \in {RandomElement(Senders)} :
  \E as \in {RandomElement({w, w, RandomElement(Voters)})} :
  \E n \in {RandomElement({1, 2})} : \E o \in {RandomElement(GenOpts)} :
  \E h \in {RandomElement({H(n, o, as), H(n, o, as), H(1, "first", as), NoHash})} : Commit(w, id, h)
GenRevealGood ==
  /\ \E id \in OpenIn("reveal") : CanReveal(id) # {}
  /\ \E id \in {RandomElement({i \in OpenIn("reveal") : CanReveal(i) # {}})} :
     \E w \in {RandomElement(CanReveal(id))} :
     Reveal(w, id, votes[id].voters[w].h.n, votes[id].voters[w].h.opt)
GenRevealAny ==
  \E id \in {GenId} : \E w \in {RandomElement(Senders)} :
  \E n \in {RandomElement({1, 2})} : \E o \in {RandomElement(Opts)} : Reveal(w, id, n, o)
GenNext == /\ nops < MaxOps /\ nops' = nops + 1
           /\ \E kind \in {RandomElement(1..20)} :
                CASE kind \in {1, 2} -> (IF ndet < MaxDet /\ ENABLED GenDetect THEN GenDetect ELSE GenCommitAny)
                  [] kind \in 3..8 -> (IF ENABLED GenCommitGood THEN GenCommitGood
                                      ELSE IF ENABLED GenRevealGood THEN GenRevealGood ELSE Tick(ToNextEpoch))
                  [] kind = 9 -> GenCommitAny
                  [] kind \in 10..14 -> (IF ENABLED GenRevealGood THEN GenRevealGood ELSE Tick(ToNextEpoch))
                  [] kind = 15 -> GenRevealAny
                  [] kind = 16 -> Tick(1)
                  [] OTHER -> Tick(ToNextEpoch)
Emit == nops < MaxOps \/ PrintT(<<"BEH", ToJson([stake |-> stake, base |-> Base, eb |-> EB, vp |-> VP, ops |-> hist])>>)

-----------------------------------------------------------------------------
\* C20.  Action properties over (state, last step); evaluated by TLC on the model (design level) and,
\* through Trace_Conflict (Obs mode), on the states recorded from the real chain.
Was(id) == id \in DOMAIN votes
Is(id) == id \in DOMAIN votes'
LastId == Id(last'.pair, last'.es)

\* (1) a vote changes phase only in the begin-block of an epoch start that has reached its deadline, and only
\*     commit -> reveal -> closed
PhaseStep ==
  \A id \in DOMAIN votes :
     (~Is(id) \/ votes'[id].state # votes[id].state) =>
        /\ last'.a = "tick" /\ IsES(height') /\ votes[id].deadline <= height'
        /\ IF Is(id) THEN votes[id].state = "commit" /\ votes'[id].state = "reveal" /\ votes'[id].deadline > height'
           ELSE votes[id].state = "reveal"
\* votes appear only through an accepted detection, in commit state with nobody committed
Birth ==
  \A id \in DOMAIN votes' : ~Was(id) =>
     /\ last'.a = "detect" /\ last'.ok /\ id = LastId
     /\ votes'[id].state = "commit" /\ votes'[id].deadline > height'
     /\ \A v \in Listed(votes'[id]) : votes'[id].voters[v] = [h |-> NoHash, res |-> "novote"]
\* the list of voters of a vote, its start block and the stake counted for it never change
ListFixed == \A id \in DOMAIN votes : Is(id) =>
               /\ Listed(votes'[id]) = Listed(votes[id]) /\ votes'[id].stake = votes[id].stake
               /\ votes'[id].start = votes[id].start

\* (2)+(3) a voter's entry changes only through that voter's own accepted commit / reveal, and then only as
\*     the rules allow
EntryStep ==
  \A id \in DOMAIN votes : Is(id) =>
    \A v \in Listed(votes[id]) \cap Listed(votes'[id]) :
      LET o == votes[id].voters[v]  n == votes'[id].voters[v] IN
      o # n =>
        /\ last'.ok /\ last'.who = v /\ id = LastId
        /\ \/ /\ last'.a = "commit" /\ votes[id].state = "commit" /\ o.res = "novote"
              /\ n = [h |-> H(last'.n, last'.opt, last'.as), res |-> "commit"]
           \/ /\ last'.a = "reveal" /\ votes[id].state = "reveal" /\ o.res = "commit"
              /\ o.h # NoHash /\ o.h = H(last'.n, last'.opt, v)
              /\ n = [h |-> o.h, res |-> last'.opt]
\* an accepted commit / reveal really was by a listed voter of an open vote in the right phase
Accepted ==
  (last'.a \in {"commit", "reveal"} /\ last'.ok) =>
     /\ Was(LastId) /\ Is(LastId) /\ last'.who \in Listed(votes[LastId])
     /\ votes[LastId].state = last'.a
     /\ votes'[LastId].voters[last'.who] # votes[LastId].voters[last'.who]
\* a rejected message changes nothing
Rejected == ~last'.ok => (votes' = votes /\ out' = {} /\ height' = height)
\* messages never move time or close votes
MsgNoTime == last'.a # "tick" => (height' = height /\ out' = {} /\ DOMAIN votes \subseteq DOMAIN votes')

\* (4) outcome: exactly one resolution event per closed vote; resolved iff one option holds more than half
\*     of the stake of the listed voters; that option is the winner; unrevealed voters count for no option
TrueMajority(rec, o) == 2 * Tally(rec, o) > Total(rec)
Outcome ==
  /\ \A id \in DOMAIN votes : ~Is(id) =>
       \E e \in out' :
          /\ e.pair = id.pair /\ e.es = id.es
          /\ \A e2 \in out' : (e2.pair = id.pair /\ e2.es = id.es) => e2 = e
          /\ e.total = Total(votes[id])
          /\ e.first = Tally(votes[id], "first") /\ e.second = Tally(votes[id], "second")
          /\ e.none = Tally(votes[id], "none")
          /\ e.novoters = Cardinality(NonVoters(votes[id]))
          /\ e.first + e.second + e.none + SumSt(votes[id].stake, NonVoters(votes[id])) = e.total
          /\ (e.kind = "resolved") = (\E o \in Opts : TrueMajority(votes[id], o))
          /\ e.kind \in {"resolved", "unresolved"}
          /\ e.kind = "resolved" => (e.winner \in Opts /\ TrueMajority(votes[id], e.winner))
          /\ e.kind = "unresolved" => e.winner = ""
  /\ \A e \in out' : Was(Id(e.pair, e.es)) /\ ~Is(Id(e.pair, e.es))

\* (a "reset" step only occurs in recorded traces: a fresh chain starts)
C20 == last'.a # "reset" =>
         (PhaseStep /\ Birth /\ ListFixed /\ EntryStep /\ Accepted /\ Rejected /\ MsgNoTime /\ Outcome)
C20Prop == [][C20]_vars

TypeOK == /\ height >= Base /\ ndet >= 0
          /\ \A id \in DOMAIN votes : votes[id].state \in {"commit", "reveal"} /\ id.es <= height
\* state-level sanity: open votes are consistent with their phase
Coherent == \A id \in DOMAIN votes : \A v \in Listed(votes[id]) :
              LET e == votes[id].voters[v] IN
              /\ e.res \in {"novote", "commit"} \cup Opts
              /\ e.res = "novote" => e.h = NoHash
              /\ votes[id].state = "commit" => e.res \in {"novote", "commit"}
              /\ e.res \in Opts => e.h = H(e.h.n, e.res, v)

View == <<height, votes, stake, ndet>>

\* constant values for the configurations (cfg files cannot spell tuples)
VS3 == <<"v1", "v2", "v3">>
VS2 == <<"v1", "v2">>
SVq == {<<1, 1, 2>>, <<1, 2, 2>>, <<1, 2, 3>>}
SVt == SVq \cup {<<1, 1, 1>>, <<3, 3, 1>>}
\* larger set used for one hand-run (8 vectors, 2 outsiders: 103 744 states, 13 175 912 transitions)
SVx == SVq \cup {<<1, 1, 1>>, <<2, 1, 1>>, <<3, 3, 1>>, <<2, 3, 4>>, <<1, 1, 3>>}
SV2 == {<<1, 2>>}
\* chain units (min stake of the mock spec is 1000 ... see harness/t/conflict)
SVsim == {<<1000, 1000, 1000>>, <<1000, 1000, 2000>>, <<1000, 1001, 2000>>, <<1000, 2000, 3000>>,
          <<3000, 1000, 1000>>, <<1500, 1000, 2501>>, <<1001, 1001, 1001>>}
=============================================================================
