CONSTANTS
  Ifaces = {"jsonrpc"}
  Latests = {0}
  Variants = 1
INIT TInit
NEXT TNext
POSTCONDITION Post
CHECK_DEADLOCK FALSE
