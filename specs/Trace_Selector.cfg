CONSTANTS
  NP = 4
  MaxK = 8
  GenHist = FALSE
  KSet = {0}
  NA = 6
  NL = 8
  NS = 6
  NK = 4
  Strategies = {0}
  Adaptive = {0}
INIT TInit
NEXT TNext
INVARIANTS ConfFilter ConfInterval ConfDraw ObsValid ObsWeights ObsLattice ObsRange
POSTCONDITION Post
CHECK_DEADLOCK FALSE
