CONSTANTS
  NP = 4
  MaxK = 8
  GenHist = FALSE
  KSet = {0}
  NA = 2
  NL = 3
  NS = 2
  NK = 1
  Strategies = {0, 1, 2, 3, 4, 5, 6}
  WKinds = {"off", "valid", "tight", "equal", "reversed", "zero", "bothzero", "negative", "nan10", "nan90", "inf90", "neginf10"}
  WinMode = "full"
INIT TInit
NEXT TNext
INVARIANTS ConfFilter ConfInterval ConfDraw ObsValid ObsWeights ObsRange ObsFallback ObsLattice ObsRealDraw
POSTCONDITION Post
CHECK_DEADLOCK FALSE
