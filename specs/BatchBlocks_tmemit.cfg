CONSTANTS
  NumBlocks = {5, 50, 500}
  CallBlocks = {}
  LogBlocks = {}
  Extra = TRUE
  MaxLen = 3
  Latests = {0, 627}
  Rule = 127
  Seed = TRUE
  Guard = TRUE
  Tendermint = TRUE
  ZeroOk = TRUE
  EarliestLow = TRUE
INIT Init
NEXT Next
INVARIANTS Emit
CHECK_DEADLOCK FALSE
