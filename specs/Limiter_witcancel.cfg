CONSTANTS
  Scenarios <- ScnEnum
  FixF10 = FALSE
  GenHist = TRUE
INIT Init
NEXT Next
INVARIANTS WitCancel
CHECK_DEADLOCK FALSE
