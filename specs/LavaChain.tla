------------------------------ MODULE LavaChain ------------------------------
(* Whole-chain history machinery (DESIGN.md section 3, "LavaChain action vocabulary and projection").

   One record variable `st` holds the abstract chain: clock and epoch grid, plans (versioned,
   ref-counted as x/fixationstore keeps them), subscriptions (the forward-looking version of each
   consumer's subscription, its month timer, advance purchase, auto-renewal), cu-tracker payout timers,
   tracked CU, provider stake entries, dualstaking and validator delegations, unbonding entries, IPRPC
   data and funds, reward pools with the monthly refill timer, projects/keys, and an abstract bank
   (total supply, module-account balances, one aggregated "users" account) together with the
   obligations each escrow account owes (dualstaking: claimable delegator rewards; iprpc pool: funds of
   the current and future months; subscription: live credit + advance purchases + pending payouts).

   The vocabulary is the one of DESIGN section 3: NextBlock(dt), NextEpoch, Slash (block steps) and
   PlanAdd/Modify/Del, SubBuy/BuyAdvance/AutoRenew, ProjAdd/Del, KeyAdd/Del, PolicySet, Stake (new and
   modify)/MoveStake/Unstake/Freeze/Unfreeze, DsDelegate/Redelegate/Unbond/Claim,
   ValDelegate/Undelegate/Redelegate, RelayPay, IprpcSetData/IprpcFund, ParamChange (transactions).

   Cands(S, kind) is the set of steps of one kind whose enabling condition (transcribed from the message
   handlers) holds in S; Apply(S, step) is the handler's effect.  Block(S, dt) is one AdvanceBlock of the
   test keepers: end-block of the current block (cu-tracker payouts by height, unbonding maturity and
   monthly refill by time), clock step, begin-block of the new block (epoch start: plan deletions and stale
   plan versions, parameter fixation; subscription month timers; validators' block reward).

   Uses:
     * exhaustive (LavaChain_mc*.cfg): tiny entity sets, operation budget; C09 / C37 / C10 hold at design
       level with FixRenew = TRUE, i.e. with the reference swap of renewSubscription repaired (FixRenew = FALSE
       models the code as it is: the generator then runs into defect F1 at the abstract level too);
     * generator (LavaChain_sim*.cfg): GenNext draws one enabled step per action kind (kinds are
       equiprobable), Bias selects the kinds of a history family; Emit prints the history;
     * Trace_LavaChain.tla: Obs-mode validation of the traces the Go driver (harness/t/hist) records.

   Amounts are small integers (plan prices 100/200, stakes of a few thousands, pools 10^5) so that the
   same formulas are evaluated on the real numbers logged by the driver. *)
EXTENDS Integers, Sequences, FiniteSets, TLC, Json

CONSTANTS Consumers, Providers, Validators, Delegators, Specs, Plans,
          MaxOps,     \* operation budget
          GenHist,    \* record the history of steps (generator)
          FixRenew,   \* TRUE: renewSubscription swaps the plan reference (repaired design); FALSE: code as it is
          Bias,       \* family of histories the generator produces: "all" | "renew" | "stake" | "iprpc"
          T0, H0,     \* clock after the driver's set-up (seconds since 2024-05-01 00:00:00 UTC, height)
          McKinds     \* action kinds of the exhaustive Next (scenario-focused configurations restrict them)

VARIABLES st, nops, hist
vars == <<st, nops, hist>>

INF == 2000000000
\* exhaustive configurations (one provider) use reduced parameter sets
Tiny == Cardinality(Providers) = 1
DAY == 86400
BLOCKTIME == 300                 \* downtime param: default block time of the test keepers
UNBONDING == 21 * DAY            \* cosmos staking default
MINSTAKE == 1000                 \* spec.MinStakeProvider
MINSELF == 100                   \* dualstaking MinSelfDelegation in the test keepers
MAXDUR == 12                     \* MAX_SUBSCRIPTION_DURATION
TOKENPERCU == 100                \* LIMIT_TOKEN_PER_CU

Min(a, b) == IF a < b THEN a ELSE b
Max(a, b) == IF a > b THEN a ELSE b
MaxS(S) == CHOOSE x \in S : \A y \in S : y <= x
MinS(S) == CHOOSE x \in S : \A y \in S : x <= y
RECURSIVE SumF(_)
SumF(f) == IF DOMAIN f = {} THEN 0
           ELSE LET x == CHOOSE y \in DOMAIN f : TRUE IN f[x] + SumF([z \in (DOMAIN f) \ {x} |-> f[z]])
RECURSIVE SeqOf(_)
SeqOf(S) == IF S = {} THEN <<>> ELSE LET x == CHOOSE y \in S : TRUE IN <<x>> \o SeqOf(S \ {x})

----------------------------------------------------------------------------
(* calendar: utils.NextMonth - same time of day, next month, day of month clamped to 28 *)
MStart == <<0, 31, 61, 92, 123, 153, 184, 214, 245, 276, 304, 335, 365, 396, 426, 457, 488, 518, 549,
            579, 610, 641, 669, 700, 730, 761, 791, 822, 853, 883, 914, 944, 975, 1006, 1034, 1065, 1095,
            1126, 1156, 1187, 1218, 1248, 1279, 1309, 1340, 1371, 1400, 1431, 1461>>
MonthOf(d) == CHOOSE i \in 1..(Len(MStart) - 1) : MStart[i] <= d /\ d < MStart[i + 1]
NextMonth(tt) ==
  LET d == tt \div DAY   s == tt % DAY   i == MonthOf(d)
      dom == d - MStart[i] + 1
      dd == IF dom > 28 THEN 28 ELSE dom
  IN (MStart[i + 1] + dd - 1) * DAY + s
DayOfMonth(tt) == LET d == tt \div DAY IN d - MStart[MonthOf(d)] + 1

----------------------------------------------------------------------------
(* bank *)
Accts == {"users", "sub", "ds", "iprpc", "valalloc", "valdist", "provalloc", "provdist", "leftover",
          "feecol", "distr", "bonded", "notbonded"}
\* a transfer the (mock) bank refuses leaves everything as it is
Move(S, from, to, amt) ==
  IF amt <= 0 \/ S.bank[from] < amt THEN S
  ELSE [S EXCEPT !.bank[from] = @ - amt, !.bank[to] = @ + amt]
Burn(S, from, amt) ==
  IF amt <= 0 \/ S.bank[from] < amt THEN S
  ELSE [S EXCEPT !.bank[from] = @ - amt, !.supply = @ - amt]
Owe(S, who, amt) == [S EXCEPT !.obl[who] = @ + amt]

----------------------------------------------------------------------------
(* epoch grid *)
NextEpochOf(S) == S.estart + S.eb
BlocksToSave(S) == S.eb * S.ets

(* plans: per index a function version-block -> [price, ref, latest, del, stale]  (fixation store) *)
Put1(f, k, v) == [x \in (DOMAIN f) \cup {k} |-> IF x = k THEN v ELSE f[x]]
Versions(S, p) == DOMAIN S.plans[p]
\* latest gettable version at block b (GetEntry / FindEntry(index, b)); -1 = none
LatestAt(S, p, b) ==
  LET c == {v \in Versions(S, p) : v <= b /\ S.plans[p][v].latest /\ S.plans[p][v].del > b} IN
  IF c = {} THEN -1 ELSE MaxS(c)
Latest(S, p) == LatestAt(S, p, S.h)
\* FindPlan(index, version block): the version still exists (not removed after its stale period)
FindV(S, p, v) == v \in Versions(S, p)
PriceOf(S, p, v) == S.plans[p][v].price
GetV(S, p, v) == [S EXCEPT !.plans[p] = Put1(@, v, [@[v] EXCEPT !.ref = @ + 1])]
\* PutEntry: refused on the last reference of the latest version; panics on refcount 0 or a vanished version
PutV(S, p, v) ==
  IF ~FindV(S, p, v) THEN [S EXCEPT !.panicked = TRUE]
  ELSE LET e == S.plans[p][v] IN
    IF e.latest /\ e.ref = 1 THEN S
    ELSE IF e.ref = 0 THEN [S EXCEPT !.panicked = TRUE]
    ELSE LET r == e.ref - 1 IN
      [S EXCEPT !.plans[p] = Put1(@, v, [e EXCEPT !.ref = r, !.stale = IF r = 0 THEN S.h + BlocksToSave(S) ELSE @])]
PriceFor(S, p, v, months) ==
  LET raw == PriceOf(S, p, v) * months IN IF months >= 12 THEN (raw * 80) \div 100 ELSE raw

----------------------------------------------------------------------------
(* subscriptions *)
NoSub == [on |-> FALSE, plan |-> "none", pv |-> 0, dl |-> 0, auto |-> "none", creator |-> "none",
          fut |-> "none", futv |-> 0, futm |-> 0, futc |-> 0, exp |-> 0, credit |-> 0, blk |-> 0, gone |-> 0,
          since |-> 0, cblk |-> 0, mfe |-> FALSE]
\* a subscription whose deletion is scheduled for block `gone` (next epoch) is no longer visible to buys
Live(S, c) == S.subs[c].on /\ S.subs[c].gone = 0
HasCu(S, c, blk) == \E x \in S.cu : x.c = c /\ x.blk = blk
StakedOn(S, p, s) == S.prov[p][s].on
Serving(S, p, s) == S.prov[p][s].on /\ ~S.prov[p][s].frozen
HasMeta(S, p) == \E s \in Specs : S.prov[p][s].on

\* addCuTrackerTimerForSubscription: credit / durationLeft goes to a payout timer (same (height, consumer) overwrites)
AddCuTimer(S, c, at) ==
  LET sb == S.subs[c]
      cr == sb.credit \div sb.dl
      old == {x \in S.cut : x.c = c /\ x.at = at}
      lost == SumF([x \in old |-> x.credit])
  IN [S EXCEPT !.subs[c].credit = @ - cr,
               !.cut = (@ \ old) \cup {[c |-> c, at |-> at, credit |-> cr, blk |-> sb.blk]},
               !.obl.sub = @ - lost]            \* an overwritten timer's credit is no longer owed to anybody

RemoveSub(S, c) ==
  LET sb == S.subs[c]
      S1 == [S EXCEPT !.subs[c] = [sb EXCEPT !.gone = NextEpochOf(S), !.credit = 0, !.fut = "none", !.futc = 0],
                      !.obl.sub = @ - sb.credit - sb.futc,
                      !.proj[c] = {}, !.keys = {k \in @ : k.c # c}]
  IN PutV(S1, sb.plan, sb.pv)

\* the month timer of consumer c fires (begin block)
AdvanceMonth0(S, c) ==
  LET sb == S.subs[c] IN
  IF ~sb.on \/ sb.gone # 0 THEN S
  ELSE IF sb.dl = 0 THEN [S EXCEPT !.panicked = TRUE]          \* QuoRaw(0) before the guard (F4)
  ELSE
    LET S1 == AddCuTimer(S, c, NextEpochOf(S) + BlocksToSave(S) - 1)
        s1 == S1.subs[c]
        nexp == NextMonth(S.t)
    IN
    IF s1.dl > 1 THEN [S1 EXCEPT !.subs[c].dl = @ - 1, !.subs[c].exp = nexp, !.subs[c].blk = NextEpochOf(S)]
    ELSE IF s1.fut # "none" THEN
      IF FindV(S1, s1.fut, s1.futv)
      THEN [S1 EXCEPT !.subs[c] = [s1 EXCEPT !.plan = s1.fut, !.pv = s1.futv, !.dl = s1.futm, !.credit = s1.futc,
                                             !.fut = "none", !.futv = 0, !.futm = 0, !.futc = 0,
                                             !.exp = nexp, !.blk = NextEpochOf(S)]]
      ELSE RemoveSub([S1 EXCEPT !.subs[c].dl = 0], c)
    ELSE IF s1.auto # "none" THEN
      LET nv == Latest(S1, s1.auto) IN
      IF nv = -1 THEN RemoveSub([S1 EXCEPT !.subs[c].dl = 0], c)
      ELSE
        LET price == PriceOf(S1, s1.auto, nv)
            S2 == Owe(Move(S1, "users", "sub", price), "sub", price)
            S3 == [S2 EXCEPT !.subs[c] = [s1 EXCEPT !.plan = s1.auto, !.pv = nv, !.dl = 1, !.credit = @ + price,
                                                    !.exp = nexp, !.blk = S.h]]
        IN IF FixRenew /\ (s1.auto # s1.plan \/ nv # s1.pv)
           THEN GetV(PutV(S3, s1.plan, s1.pv), s1.auto, nv)
           ELSE S3                                              \* the reference swap never runs (F1)
    ELSE RemoveSub([S1 EXCEPT !.subs[c].dl = 0], c)

\* mfe: "the month timer of this consumer already fired in the current epoch" (see TimeOk)
AdvanceMonth(S, c) == LET R == AdvanceMonth0(S, c) IN
                      IF R.subs[c].on THEN [R EXCEPT !.subs[c].mfe = TRUE] ELSE R

----------------------------------------------------------------------------
(* rewards *)
\* RewardProvidersAndDelegators: the amount becomes claimable (obligation) and moves to the dualstaking account;
\* nothing happens for a provider without metadata (unstaked everywhere)
Reward(S, p, from, amt) ==
  IF amt <= 0 \/ ~HasMeta(S, p) \/ S.bank[from] < amt THEN S
  ELSE LET tot == SumF([s \in Specs |-> IF S.prov[p][s].on THEN S.prov[p][s].stake ELSE 0]) + SumF([d \in Delegators |-> S.dlg[d][p]])
           \* commission 50 %: a delegator gets half of its stake-proportional part
           sh == [d \in Delegators |-> IF tot = 0 THEN 0 ELSE (amt * S.dlg[d][p]) \div (2 * tot)]
           dsum == SumF(sh)
       IN [Owe(Move(S, from, "ds", amt), "ds", amt) EXCEPT !.rewd[p] = @ + (amt - dsum),
                                                            !.drew = [d \in Delegators |-> @[d] + sh[d]]]
\* ContributeToValidatorsAndCommunityPool: 5% validators, 2% community (default params), rest is the reward
Tax(S, from, amt) ==
  LET v == (amt * 5) \div 100  cm == (amt * 2) \div 100 IN
  [s |-> Move(Move(S, from, "valdist", v), from, "distr", cm), rest |-> amt - v - cm]

\* RewardAndResetCuTracker for one timer
Payout(S, x) ==
  LET used == {y \in S.cu : y.c = x.c /\ y.blk = x.blk}
      total == SumF([y \in used |-> y.n])
      S0 == [S EXCEPT !.cut = @ \ {x}, !.obl.sub = @ - x.credit]
  IN
  IF total = 0 THEN
    \* returnCreditToSub: back to the live subscription, else to the validators' pool
    IF S0.subs[x.c].on /\ S0.subs[x.c].gone = 0
    THEN Owe([S0 EXCEPT !.subs[x.c].credit = @ + x.credit], "sub", x.credit)
    ELSE Move(S0, "sub", "valdist", x.credit)
  ELSE
    LET amount == Min(x.credit, TOKENPERCU * total)
        RECURSIVE Pay(_, _)
        Pay(SS, Y) == IF Y = {} THEN SS ELSE
          LET y == CHOOSE z \in Y : TRUE
              part == (amount * y.n) \div total
              tx == Tax(SS, "sub", part)
              S2 == Reward(tx.s, y.p, "sub", tx.rest)
          IN Pay([S2 EXCEPT !.base = @ \cup {[p |-> y.p, s |-> y.s]}], Y \ {y})
    IN [Pay(S0, used) EXCEPT !.cu = @ \ used]

\* monthly refill timer (end block): bonus rewards, IPRPC distribution, burn + refill of the distribution pools
Refill(S) ==
  LET \* DistributeMonthlyBonusRewards (abstract: an equal share of a tenth of the pool per paid provider)
      paid == {b \in S.base : Serving(S, b.p, b.s) \/ StakedOn(S, b.p, b.s)}
      share == IF paid = {} THEN 0 ELSE (S.bank["provdist"] \div 10) \div Cardinality(paid)
      RECURSIVE Bonus(_, _)
      Bonus(SS, Y) == IF Y = {} THEN SS ELSE
        LET y == CHOOSE z \in Y : TRUE IN Bonus(Reward(SS, y.p, "provdist", share), Y \ {y})
      S1 == Bonus(S, paid)
      \* PopIprpcReward + distributeIprpcRewards
      cur == S1.ip.cur
      funds == {f \in S1.ip.funds : f.id = cur}
      RECURSIVE Dist(_, _)
      Dist(SS, F) == IF F = {} THEN SS ELSE
        LET f == CHOOSE z \in F : TRUE
            servers == {u \in SS.ipcu : u.s = f.spec}
            S00 == [SS EXCEPT !.ip.funds = @ \ {f}, !.obl.iprpc = @ - f.amt]
        IN IF servers = {}
           THEN \* nobody served: the fund moves to the next month
                LET nxt == {g \in S00.ip.funds : g.id = cur + 1 /\ g.spec = f.spec}
                    prev == SumF([g \in nxt |-> g.amt])
                IN Dist(Owe([S00 EXCEPT !.ip.funds = (@ \ nxt) \cup {[id |-> cur + 1, spec |-> f.spec, amt |-> prev + f.amt]}],
                            "iprpc", f.amt), F \ {f})
           ELSE LET tx == Tax(S00, "iprpc", f.amt)
                    each == tx.rest \div Cardinality(servers)
                    RECURSIVE Give(_, _)
                    Give(S3, U) == IF U = {} THEN S3 ELSE
                      LET u == CHOOSE z \in U : TRUE IN Give(Reward(S3, u.p, "iprpc", each), U \ {u})
                    S4 == Give(tx.s, servers)
                    left == tx.rest - each * Cardinality({u \in servers : HasMeta(S00, u.p)})
                IN Dist(Move(S4, "iprpc", "distr", left), F \ {f})
      S2 == [Dist(S1, funds) EXCEPT !.ip.cur = cur + 1, !.ipcu = {}, !.base = {}]
      \* RefillRewardsPools: burn what is left in the distribution pools, move the monthly quota
      S5 == Burn(Burn(S2, "valdist", S2.bank["valdist"]), "provdist", S2.bank["provdist"])
      q1 == IF S5.monthsLeft = 0 THEN 0 ELSE S5.bank["valalloc"] \div S5.monthsLeft
      q2 == IF S5.monthsLeft = 0 THEN 0 ELSE S5.bank["provalloc"] \div S5.monthsLeft
      S6 == Move(Move(S5, "valalloc", "valdist", q1), "provalloc", "provdist", q2)
      S7 == Move(S6, "leftover", "valdist", S6.bank["leftover"])
  IN [S7 EXCEPT !.monthsLeft = IF @ > 1 THEN @ - 1 ELSE @, !.refillAt = NextMonth(S.t)]

----------------------------------------------------------------------------
(* one AdvanceBlock of the test keepers *)
EndBlock(S) ==
  LET \* unbonding entries mature (staking end blocker)
      due == {u \in S.unb : u.at <= S.t}
      amt == SumF([u \in due |-> u.amt])
      S1 == [Move(S, "notbonded", "users", amt) EXCEPT !.unb = @ \ due, !.red = {r \in @ : r.at > S.t},
               !.liq = [d \in Delegators |-> @[d] + SumF([u \in {u \in due : u.who = d} |-> u.amt])]]
      \* end-block timer stores in registration order: monthly refill (by time), then cu-tracker payouts (by height)
      S2 == IF S1.refillAt <= S1.t THEN Refill(S1) ELSE S1
      RECURSIVE Pays(_)
      Pays(SS) == LET d == {x \in SS.cut : x.at <= SS.h} IN
                  IF d = {} THEN SS ELSE Pays(Payout(SS, CHOOSE x \in d : \A y \in d : x.at <= y.at))
  IN Pays(S2)

EpochStart(S) ==
  [S EXCEPT !.estart = S.h, !.eb = S.nEb, !.ets = S.nEts,
            !.subs = [c \in Consumers |-> [S.subs[c] EXCEPT !.mfe = FALSE]]]

BeginBlock(S) ==
  LET \* begin-block timer stores tick first: fixation timers (plan deletions mature, stale versions vanish) ...
      P1 == [p \in Plans |-> [v \in Versions(S, p) |->
               LET e == S.plans[p][v] IN
               IF e.del <= S.h /\ e.latest
               THEN LET r == e.ref - 1 IN [e EXCEPT !.latest = FALSE, !.ref = r,
                                                      !.stale = IF r = 0 THEN S.h + BlocksToSave(S) ELSE @]
               ELSE e]]
      P2 == [p \in Plans |-> LET keep == {v \in DOMAIN P1[p] : ~(P1[p][v].ref = 0 /\ P1[p][v].stale <= S.h)}
                             IN [v \in keep |-> P1[p][v]]]
      S0 == [S EXCEPT !.plans = P2]
      \* (GetCurrentNextEpoch works on the block grid: at an epoch-start block the timers already see the new epoch,
      \*  so the epoch start is applied first although epochstorage's begin-blocker runs after the timer stores)
      S1 == IF S0.h = NextEpochOf(S0) THEN EpochStart(S0) ELSE S0
      \* ... then the subscription month timers (by block time, in expiry order)
      RECURSIVE Months(_)
      Months(SS) == LET d == {c \in Consumers : SS.subs[c].on /\ SS.subs[c].gone = 0 /\ SS.subs[c].exp <= SS.t} IN
                    IF d = {} \/ SS.panicked THEN SS
                    ELSE Months(AdvanceMonth(SS, CHOOSE c \in d : \A c2 \in d : SS.subs[c].exp <= SS.subs[c2].exp))
      S2 == Months(S1)
      S3 == S2
      \* subscriptions whose deletion matured disappear
      S4 == [S3 EXCEPT !.subs = [c \in Consumers |-> IF @[c].on /\ @[c].gone # 0 /\ @[c].gone <= S3.h THEN NoSub ELSE @[c]]]
      \* rewards: validators' block reward, part of the distribution pool goes to the fee collector
  IN Move(S4, "valdist", "feecol", S4.bank["valdist"] \div 8)

Block(S, dt) == IF S.panicked THEN S ELSE BeginBlock([EndBlock(S) EXCEPT !.h = @ + 1, !.t = @ + dt])

RECURSIVE Blocks(_, _)
Blocks(S, n) == IF n = 0 \/ S.panicked THEN S ELSE Blocks(Block(S, BLOCKTIME), n - 1)

\* earliest month timer (subscriptions, refill): target of NextBlock("monthend")
MonthTarget(S) ==
  LET ts == {S.subs[c].exp : c \in {c \in Consumers : S.subs[c].on /\ S.subs[c].gone = 0}} \cup {S.refillAt} IN MinS(ts)
DtOf(S, kind) ==
  CASE kind = "default" -> BLOCKTIME
    [] kind = "1h" -> 3600
    [] kind = "1d" -> DAY
    [] kind = "plus10" -> 10
    [] kind = "monthend" -> IF MonthTarget(S) - 5 > S.t THEN MonthTarget(S) - 5 - S.t ELSE 10

\* Time-model assumption of the generated histories: an epoch is shorter than a month, i.e. the month timer of one
\* subscription never fires twice inside one epoch (with the big block-time steps used here that has to be enforced;
\* family "jump" drops the assumption on purpose).
\* The same hazard exists while a future version written by an upgrade (blk > h) is pending.
TimeOk(S, dt) == Bias = "jump" \/ \A c \in Consumers :
                   (S.subs[c].on /\ S.subs[c].gone = 0 /\ (S.subs[c].mfe \/ S.subs[c].blk > S.h)) => S.subs[c].exp > S.t + dt
DtKinds == IF Tiny THEN {"default", "1d", "monthend", "plus10"} ELSE {"default", "1h", "1d", "monthend", "plus10"}

----------------------------------------------------------------------------
(* staking helpers *)
Stakers == Delegators \cup Providers              \* a provider name stands for its vault
VTotal(S, who) == SumF([v \in Validators |-> S.vdl[who][v]])
DTotal(S, d) == SumF([p \in Providers \cup {"empty"} |-> S.dlg[d][p]])
SelfTotal(S, p) == SumF([s \in Specs |-> IF S.prov[p][s].on THEN S.prov[p][s].stake ELSE 0])
DelegatedTo(S, p) == SumF([d \in Delegators |-> S.dlg[d][p]])
\* re-freeze rule of AfterDelegationModified: an entry whose total stake is below the spec minimum is frozen
Refreeze(S, p) ==
  [S EXCEPT !.prov[p] = [s \in Specs |->
     IF @[s].on /\ @[s].stake + (IF SelfTotal(S, p) = 0 THEN 0 ELSE (DelegatedTo(S, p) * @[s].stake) \div SelfTotal(S, p)) < MINSTAKE
     THEN [@[s] EXCEPT !.frozen = TRUE] ELSE @[s]]]
\* remove amt from a delegator's provider delegations: empty provider first, then providers in a fixed order
RECURSIVE TakeDlg(_, _, _, _)
TakeDlg(S, d, amt, ps) ==
  IF amt <= 0 \/ ps = <<>> THEN S
  ELSE LET p == Head(ps)  k == Min(amt, S.dlg[d][p]) IN
       TakeDlg([S EXCEPT !.dlg[d][p] = @ - k], d, amt - k, Tail(ps))
ProvOrder == <<"empty">> \o SeqOf(Providers)
Unbonding(S, who, val, amt) ==
  [Move(S, "bonded", "notbonded", amt) EXCEPT !.unb = @ \cup {[who |-> who, val |-> val, amt |-> amt, at |-> S.t + UNBONDING, id |-> S.seq]},
                                              !.seq = @ + 1]

----------------------------------------------------------------------------
(* candidate steps per kind: the enabling conditions of the message handlers *)
Months == IF Tiny THEN {1, 12} ELSE {1, 2, 12}
Amts == IF Tiny THEN {2000} ELSE {500, 2000}
TxKinds == {"PlanAdd", "PlanModify", "PlanDel", "SubBuy", "SubBuyAdvance", "SubAutoRenew", "ProjAdd", "ProjDel",
            "KeyAdd", "KeyDel", "PolicySet", "Stake", "MoveStake", "Unstake", "Freeze", "Unfreeze",
            "DsDelegate", "DsRedelegate", "DsUnbond", "DsClaim", "ValDelegate", "ValUndelegate", "ValRedelegate",
            "RelayPay", "IprpcSetData", "IprpcFund", "ParamChange"}
BlockKinds == {"NextBlock", "NextEpoch", "Slash"}
DevKeys == {"K1", "K2"}
PlanPrices(p) == IF Tiny THEN {120} ELSE IF p = "PL1" THEN {100, 120} ELSE {200, 250}

Cands(S, k) ==
  CASE k = "NextBlock" -> {[a |-> "NextBlock", dt |-> d] : d \in {d \in DtKinds : TimeOk(S, DtOf(S, d))}}
    [] k = "NextEpoch" -> IF TimeOk(S, BLOCKTIME * (NextEpochOf(S) - S.h - 1)) THEN {[a |-> "NextEpoch"]} ELSE {}
    [] k = "Slash" -> IF TimeOk(S, BLOCKTIME) THEN {[a |-> "Slash", val |-> v, pct |-> f] : v \in Validators, f \in (IF Tiny THEN {5} ELSE {1, 5})} ELSE {}
    [] k = "PlanAdd" -> UNION {{[a |-> "PlanAdd", plan |-> p, price |-> x] : x \in PlanPrices(p)} : p \in Plans}
    [] k = "PlanModify" -> {[a |-> "PlanModify", plan |-> p] : p \in {p \in Plans : Latest(S, p) # -1}}
    [] k = "PlanDel" -> {[a |-> "PlanDel", plan |-> p] : p \in {p \in Plans : Latest(S, p) # -1 /\ S.plans[p][Latest(S, p)].del = INF}}
    [] k = "SubBuy" ->
         {x \in {[a |-> "SubBuy", creator |-> cr, cons |-> c, plan |-> p, months |-> m, auto |-> au] :
                   cr \in Consumers, c \in Consumers, p \in Plans, m \in Months, au \in BOOLEAN} :
            /\ Latest(S, x.plan) # -1
            /\ LET sb == S.subs[x.cons] IN
               IF ~sb.on \/ sb.gone # 0 THEN TRUE
               ELSE /\ IF x.plan # sb.plan
                       THEN /\ x.creator \in {sb.creator, x.cons}
                            /\ sb.blk # NextEpochOf(S) /\ sb.dl > 0
                            /\ FindV(S, sb.plan, sb.pv)
                            /\ PriceOf(S, x.plan, Latest(S, x.plan)) >= PriceOf(S, sb.plan, sb.pv)
                       ELSE /\ sb.pv = Latest(S, x.plan)
                            /\ sb.dl + x.months <= MAXDUR + 1}
    [] k = "SubBuyAdvance" ->
         {x \in {[a |-> "SubBuyAdvance", creator |-> cr, cons |-> c, plan |-> p, months |-> m] :
                   cr \in Consumers, c \in Consumers, p \in Plans, m \in Months} :
            /\ Latest(S, x.plan) # -1 /\ Live(S, x.cons)
            /\ LET sb == S.subs[x.cons] IN
               sb.fut = "none" \/ (FindV(S, sb.fut, sb.futv) /\ PriceFor(S, x.plan, Latest(S, x.plan), x.months) > sb.futc)}
    [] k = "SubAutoRenew" ->
         {x \in {[a |-> "SubAutoRenew", creator |-> cr, cons |-> c, mode |-> m, plan |-> p] :
                   cr \in Consumers, c \in Consumers, m \in {"on", "off", "plan"}, p \in Plans} :
            /\ S.subs[x.cons].on
            /\ x.creator \in {x.cons, S.subs[x.cons].creator}
            /\ (x.mode = "off" => S.subs[x.cons].auto # "none")
            /\ (x.mode = "on" => x.plan = S.subs[x.cons].plan /\ Latest(S, x.plan) # -1)
            /\ (x.mode = "plan" => Latest(S, x.plan) # -1)}
    [] k = "ProjAdd" -> {x \in {[a |-> "ProjAdd", cons |-> c, name |-> n] : c \in Consumers, n \in {"pa", "pb"}} :
                           Live(S, x.cons) /\ x.name \notin S.proj[x.cons]}
    [] k = "ProjDel" -> {x \in {[a |-> "ProjDel", cons |-> c, name |-> n] : c \in Consumers, n \in {"pa", "pb"}} :
                           Live(S, x.cons) /\ x.name \in S.proj[x.cons]}
    [] k = "KeyAdd" -> {x \in {[a |-> "KeyAdd", cons |-> c, key |-> kk, kind |-> kd] : c \in Consumers, kk \in DevKeys, kd \in {"dev", "admin"}} :
                          /\ Live(S, x.cons)
                          /\ ~\E y \in S.keys : y.k = x.key /\ y.kind = x.kind /\ (y.c = x.cons \/ x.kind = "dev")}
    [] k = "KeyDel" -> {[a |-> "KeyDel", cons |-> y.c, key |-> y.k, kind |-> y.kind] : y \in {y \in S.keys : Live(S, y.c)}}
    [] k = "PolicySet" -> {[a |-> "PolicySet", cons |-> c, who |-> w, variant |-> v] :
                             c \in {c \in Consumers : Live(S, c)}, w \in {"admin", "sub"}, v \in (IF Tiny THEN {1} ELSE {0, 1, 2})}
    [] k = "Stake" ->   \* new stake entry, or modification of the self stake to an absolute amount
         {x \in {[a |-> "Stake", prov |-> p, spec |-> s, amt |-> am, val |-> v] :
                   p \in Providers, s \in Specs, am \in (IF Tiny THEN {500, 3000} ELSE {500, 1000, 3000, 5000}), v \in Validators} :
            LET e == S.prov[x.prov][x.spec] IN
            IF ~e.on THEN TRUE
            ELSE /\ x.amt # e.stake
                 /\ (x.amt < e.stake => S.vdl[x.prov][x.val] >= e.stake - x.amt)}
    [] k = "MoveStake" ->
         {x \in {[a |-> "MoveStake", prov |-> p, spec |-> s, spec2 |-> s2, amt |-> am] :
                   p \in Providers, s \in Specs, s2 \in Specs, am \in Amts} :
            /\ x.spec # x.spec2 /\ StakedOn(S, x.prov, x.spec) /\ StakedOn(S, x.prov, x.spec2)
            /\ S.prov[x.prov][x.spec].stake - x.amt >= MINSELF
            /\ S.t - S.lastMove[x.prov] >= DAY}
    [] k = "Unstake" ->
         {x \in {[a |-> "Unstake", prov |-> p, spec |-> s, by |-> b, val |-> v] :
                   p \in Providers, s \in Specs, b \in {"vault", "provider"}, v \in Validators} :
            /\ StakedOn(S, x.prov, x.spec)
            /\ (x.by = "vault" => S.vdl[x.prov][x.val] >= S.prov[x.prov][x.spec].stake)}
    [] k = "Freeze" -> {x \in {[a |-> "Freeze", prov |-> p, spec |-> s] : p \in Providers, s \in Specs} : Serving(S, x.prov, x.spec)}
    [] k = "Unfreeze" -> {x \in {[a |-> "Unfreeze", prov |-> p, spec |-> s] : p \in Providers, s \in Specs} :
                            /\ StakedOn(S, x.prov, x.spec) /\ S.prov[x.prov][x.spec].frozen
                            /\ S.prov[x.prov][x.spec].stake >= MINSTAKE}
    [] k = "DsDelegate" -> {x \in {[a |-> "DsDelegate", del |-> d, prov |-> p, val |-> v, amt |-> am] :
                                     d \in Delegators, p \in {p \in Providers : HasMeta(S, p)}, v \in Validators, am \in Amts} :
                              S.liq[x.del] >= x.amt}
    [] k = "DsRedelegate" -> {x \in {[a |-> "DsRedelegate", del |-> d, prov |-> p, prov2 |-> p2, amt |-> am] :
                                       d \in Delegators, p \in Providers, p2 \in Providers, am \in Amts} :
                                /\ x.prov # x.prov2 /\ HasMeta(S, x.prov2) /\ S.dlg[x.del][x.prov] >= x.amt}
    [] k = "DsUnbond" -> {x \in {[a |-> "DsUnbond", del |-> d, prov |-> p, val |-> v, amt |-> am] :
                                   d \in Delegators, p \in Providers, v \in Validators, am \in Amts} :
                            S.dlg[x.del][x.prov] >= x.amt /\ S.vdl[x.del][x.val] >= x.amt}
    [] k = "DsClaim" ->
         \* preference: claimants whose liquid balance is smaller than what they claim (a "poor" delegator that delegated
         \* nearly everything), then any claimant with something to claim, then a no-op claim
         LET poor == {[a |-> "DsClaim", who |-> d, prov |-> ""] : d \in {d \in Delegators : S.drew[d] > S.liq[d]}}
             pc == {x \in {[a |-> "DsClaim", who |-> w, prov |-> p] : w \in Providers, p \in Providers \cup {""}} :
                      S.rewd[x.who] > 0 /\ x.prov \in {x.who, ""}}
             dc == {[a |-> "DsClaim", who |-> d, prov |-> ""] : d \in {d \in Delegators : S.drew[d] > 0}}
         IN IF poor # {} THEN poor
            ELSE IF pc \cup dc # {} THEN pc \cup dc
            ELSE {[a |-> "DsClaim", who |-> d, prov |-> ""] : d \in Delegators}
    [] k = "ValDelegate" -> {x \in {[a |-> "ValDelegate", del |-> d, val |-> v, amt |-> am] : d \in Delegators, v \in Validators, am \in Amts} :
                               S.liq[x.del] >= x.amt}
    [] k = "ValUndelegate" -> {x \in {[a |-> "ValUndelegate", del |-> d, val |-> v, amt |-> am] :
                                        d \in Delegators, v \in Validators, am \in Amts} :
                                 S.vdl[x.del][x.val] >= x.amt}
    [] k = "ValRedelegate" -> {x \in {[a |-> "ValRedelegate", del |-> d, val |-> v, val2 |-> v2, amt |-> am] :
                                        d \in Delegators, v \in Validators, v2 \in Validators, am \in Amts} :
                                 /\ x.val # x.val2 /\ S.vdl[x.del][x.val] >= x.amt
                                 /\ ~\E r \in S.red : r.who = x.del /\ r.dst = x.val}
    [] k = "RelayPay" -> {x \in {[a |-> "RelayPay", cons |-> c, spec |-> s, prov |-> p, cu |-> n, qos |-> q] :
                                   c \in Consumers, s \in Specs, p \in Providers,
                                   n \in (IF Tiny THEN {1, 60} ELSE {1, 10, 60, 150}), q \in {"none", "bad"}} :
                            /\ S.subs[x.cons].on /\ S.subs[x.cons].since <= S.estart
                            /\ S.prov[x.prov][x.spec].on /\ ~S.prov[x.prov][x.spec].frozen
                            /\ S.prov[x.prov][x.spec].since <= S.estart}
    [] k = "IprpcSetData" -> {[a |-> "IprpcSetData", cons |-> c, amt |-> am] : c \in Consumers, am \in (IF Tiny THEN {100} ELSE {100, 300})}
    [] k = "IprpcFund" -> {x \in {[a |-> "IprpcFund", who |-> w, spec |-> s, months |-> m, amt |-> am] :
                                    w \in Consumers, s \in Specs, m \in {1, 3}, am \in (IF Tiny THEN {400} ELSE {400, 1100})} :
                             S.ip.on /\ x.amt >= S.ip.cost}
    [] k = "ParamChange" -> {x \in {[a |-> "ParamChange", pkey |-> pk, v |-> n] : pk \in {"epochBlocks", "epochsToSave"}, n \in (IF Tiny THEN {3, 6} ELSE {3, 4, 5, 6})} :
                               IF x.pkey = "epochBlocks" THEN x.v # S.nEb ELSE x.v # S.nEts}

----------------------------------------------------------------------------
(* effects *)
ApplyTx(S, x) ==
  CASE x.a = "PlanAdd" ->
         LET lv == Latest(S, x.plan)
             \* the previous latest version loses its "latest" reference; a version appended in the same block is overwritten
             P1 == IF lv # -1 /\ lv # S.h
                   THEN LET e == S.plans[x.plan][lv]  r == e.ref - 1 IN
                        Put1(S.plans[x.plan], lv, [e EXCEPT !.latest = FALSE, !.ref = r,
                                                            !.stale = IF r = 0 THEN S.h + BlocksToSave(S) ELSE @])
                   ELSE S.plans[x.plan]
             keepRef == IF lv = S.h THEN S.plans[x.plan][lv].ref ELSE 1
         IN [S EXCEPT !.plans[x.plan] = Put1(P1, S.h, [price |-> x.price, ref |-> keepRef, latest |-> TRUE, del |-> INF, stale |-> INF])]
    [] x.a = "PlanModify" -> S                         \* same version, same price: nothing this model tracks
    [] x.a = "PlanDel" -> [S EXCEPT !.plans[x.plan] = Put1(@, Latest(S, x.plan), [@[Latest(S, x.plan)] EXCEPT !.del = NextEpochOf(S)])]
    [] x.a = "SubBuy" ->
         LET p == x.plan  v == Latest(S, p)  sb == S.subs[x.cons]
             price == PriceFor(S, p, v, x.months)
             S1 == GetV(S, p, v)                       \* GetPlan takes a reference on every buy
             S2 == Owe(Move(S1, "users", "sub", price), "sub", price)
         IN IF ~sb.on \/ sb.gone # 0 THEN
              [S2 EXCEPT !.subs[x.cons] = [NoSub EXCEPT !.on = TRUE, !.plan = p, !.pv = v, !.dl = x.months,
                                                        !.auto = IF x.auto THEN p ELSE "none", !.creator = x.creator,
                                                        !.exp = NextMonth(S.t), !.credit = price, !.blk = S.h,
                                                        !.since = S.h, !.cblk = 0],
                         !.proj[x.cons] = {"admin"}]
            ELSE IF p # sb.plan THEN
              \* upgrade: a month's share of the old credit goes to a payout timer, the rest of the old credit is
              \* no longer owed; the new version of the subscription starts at the next epoch
              LET S3 == AddCuTimer(S2, x.cons, S.h + BlocksToSave(S) - 1)
                  old == S3.subs[x.cons].credit
              IN [S3 EXCEPT !.subs[x.cons] = [@ EXCEPT !.plan = p, !.pv = v, !.dl = x.months, !.credit = price,
                                                       !.exp = NextMonth(S.t), !.blk = NextEpochOf(S)],
                            !.obl.sub = @ - old]
            ELSE [S2 EXCEPT !.subs[x.cons].dl = @ + x.months, !.subs[x.cons].credit = @ + price]
    [] x.a = "SubBuyAdvance" ->
         LET p == x.plan  v == Latest(S, p)  sb == S.subs[x.cons]
             price == PriceFor(S, p, v, x.months)
             charge == price - sb.futc
             S1 == GetV(S, p, v)
         IN [Owe(Move(S1, "users", "sub", charge), "sub", charge) EXCEPT
               !.subs[x.cons] = [@ EXCEPT !.fut = p, !.futv = v, !.futm = x.months, !.futc = price]]
    [] x.a = "SubAutoRenew" ->
         [S EXCEPT !.subs[x.cons].creator = x.creator,
                   !.subs[x.cons].auto = IF x.mode = "off" THEN "none" ELSE x.plan]
    [] x.a = "ProjAdd" -> [S EXCEPT !.proj[x.cons] = @ \cup {x.name}]
    [] x.a = "ProjDel" -> [S EXCEPT !.proj[x.cons] = @ \ {x.name}]
    [] x.a = "KeyAdd" -> [S EXCEPT !.keys = @ \cup {[c |-> x.cons, k |-> x.key, kind |-> x.kind]}]
    [] x.a = "KeyDel" -> [S EXCEPT !.keys = @ \ {[c |-> x.cons, k |-> x.key, kind |-> x.kind]}]
    [] x.a = "PolicySet" -> S
    [] x.a = "Stake" ->
         LET e == S.prov[x.prov][x.spec] IN
         IF ~e.on
         THEN Refreeze([Move(S, "users", "bonded", x.amt) EXCEPT
                          !.prov[x.prov][x.spec] = [on |-> TRUE, frozen |-> FALSE, stake |-> x.amt, since |-> NextEpochOf(S)],
                          !.vdl[x.prov][x.val] = @ + x.amt], x.prov)
         ELSE IF x.amt > e.stake
         THEN LET S1 == [Move(S, "users", "bonded", x.amt - e.stake) EXCEPT
                           !.prov[x.prov][x.spec].stake = x.amt, !.vdl[x.prov][x.val] = @ + (x.amt - e.stake)]
              IN IF e.frozen /\ e.stake < MINSTAKE /\ x.amt >= MINSTAKE
                 THEN [S1 EXCEPT !.prov[x.prov][x.spec].frozen = FALSE, !.prov[x.prov][x.spec].since = NextEpochOf(S)]
                 ELSE S1
         ELSE Refreeze([Unbonding(S, x.prov, x.val, e.stake - x.amt) EXCEPT
                          !.prov[x.prov][x.spec].stake = x.amt, !.vdl[x.prov][x.val] = @ - (e.stake - x.amt)], x.prov)
    [] x.a = "MoveStake" ->
         Refreeze([S EXCEPT !.prov[x.prov][x.spec].stake = @ - x.amt, !.prov[x.prov][x.spec2].stake = @ + x.amt,
                            !.lastMove[x.prov] = S.t], x.prov)
    [] x.a = "Unstake" ->
         LET e == S.prov[x.prov][x.spec]
             S1 == [S EXCEPT !.prov[x.prov][x.spec] = [on |-> FALSE, frozen |-> FALSE, stake |-> 0, since |-> 0]]
             others == {s \in Specs : S1.prov[x.prov][s].on}
         IN IF x.by = "vault"
            THEN [Unbonding(S1, x.prov, x.val, e.stake) EXCEPT !.vdl[x.prov][x.val] = @ - e.stake]
            ELSE IF others = {} THEN S1
            ELSE \* by provider: the stake is spread over the remaining entries (first gets the remainder)
                 LET n == Cardinality(others)  part == e.stake \div n  first == CHOOSE s \in others : TRUE IN
                 [S1 EXCEPT !.prov[x.prov] = [s \in Specs |-> IF s \in others
                                               THEN [@[s] EXCEPT !.stake = @ + part + (IF s = first THEN e.stake - part * n ELSE 0)]
                                               ELSE @[s]]]
    [] x.a = "Freeze" -> [S EXCEPT !.prov[x.prov][x.spec].frozen = TRUE]
    [] x.a = "Unfreeze" -> [S EXCEPT !.prov[x.prov][x.spec].frozen = FALSE, !.prov[x.prov][x.spec].since = NextEpochOf(S)]
    [] x.a = "DsDelegate" ->
         [Move(S, "users", "bonded", x.amt) EXCEPT !.vdl[x.del][x.val] = @ + x.amt, !.dlg[x.del][x.prov] = @ + x.amt,
                                                   !.liq[x.del] = @ - x.amt]
    [] x.a = "DsRedelegate" -> Refreeze([S EXCEPT !.dlg[x.del][x.prov] = @ - x.amt, !.dlg[x.del][x.prov2] = @ + x.amt], x.prov)
    [] x.a = "DsUnbond" ->
         Refreeze([Unbonding(S, x.del, x.val, x.amt) EXCEPT !.vdl[x.del][x.val] = @ - x.amt, !.dlg[x.del][x.prov] = @ - x.amt], x.prov)
    [] x.a = "DsClaim" ->
         \* a vault claims its provider's part, a delegator (prov = "") everything it was credited
         IF x.who \in Providers /\ x.prov \in {x.who, ""} /\ S.rewd[x.who] > 0
         THEN [Move([S EXCEPT !.obl.ds = @ - S.rewd[x.who]], "ds", "users", S.rewd[x.who]) EXCEPT !.rewd[x.who] = 0]
         ELSE IF x.who \in Delegators /\ x.prov = "" /\ S.drew[x.who] > 0
         THEN [Move([S EXCEPT !.obl.ds = @ - S.drew[x.who]], "ds", "users", S.drew[x.who]) EXCEPT
                 !.liq[x.who] = @ + S.drew[x.who], !.drew[x.who] = 0]
         ELSE S
    [] x.a = "ValDelegate" ->
         [Move(S, "users", "bonded", x.amt) EXCEPT !.vdl[x.del][x.val] = @ + x.amt, !.dlg[x.del]["empty"] = @ + x.amt,
                                                   !.liq[x.del] = @ - x.amt]
    [] x.a = "ValUndelegate" ->
         TakeDlg([Unbonding(S, x.del, x.val, x.amt) EXCEPT !.vdl[x.del][x.val] = @ - x.amt], x.del, x.amt, ProvOrder)
    [] x.a = "ValRedelegate" ->
         [S EXCEPT !.vdl[x.del][x.val] = @ - x.amt, !.vdl[x.del][x.val2] = @ + x.amt,
                   !.red = @ \cup {[who |-> x.del, dst |-> x.val2, at |-> S.t + UNBONDING]}]
    [] x.a = "RelayPay" ->
         LET sb == S.subs[x.cons]
             old == {y \in S.cu : y.c = x.cons /\ y.blk = sb.cblk /\ y.p = x.prov /\ y.s = x.spec}
             prev == SumF([y \in old |-> y.n])
             \* a QoS report scoring below 1 scales the rewarded CU: cu * (score * QoSWeight + 1 - QoSWeight) truncated;
             \* "bad" = availability 0.1 -> factor 0.73, so a 1-CU relay leaves a tracked-CU entry whose value is 0
             got == IF x.qos = "bad" THEN (x.cu * 73) \div 100 ELSE x.cu
         IN [S EXCEPT !.cu = (@ \ old) \cup {[c |-> x.cons, blk |-> sb.cblk, p |-> x.prov, s |-> x.spec, n |-> prev + got]},
                      !.ipcu = IF x.cons \in S.ip.subs THEN @ \cup {[p |-> x.prov, s |-> x.spec]} ELSE @]
    [] x.a = "IprpcSetData" -> [S EXCEPT !.ip.on = TRUE, !.ip.cost = x.amt, !.ip.subs = @ \cup {x.cons}]
    [] x.a = "IprpcFund" ->
         LET per == x.amt - S.ip.cost
             S1 == Move(Move(S, "users", "valalloc", S.ip.cost * x.months), "users", "iprpc", per * x.months)
             ids == (S.ip.cur + 1)..(S.ip.cur + x.months)
             old == {f \in S.ip.funds : f.id \in ids /\ f.spec = x.spec}
             new == {[id |-> i, spec |-> x.spec,
                      amt |-> per + SumF([f \in {f \in old : f.id = i} |-> f.amt])] : i \in ids}
         IN IF per = 0 THEN S1
            ELSE Owe([S1 EXCEPT !.ip.funds = (@ \ old) \cup new], "iprpc", per * x.months)
    [] x.a = "ParamChange" -> CASE x.pkey = "epochBlocks" -> [S EXCEPT !.nEb = x.v]
                                 [] x.pkey = "epochsToSave" -> [S EXCEPT !.nEts = x.v]
                                 [] OTHER -> S      \* e.g. "halfLife" (pairing ReputationHalfLifeFactor): nothing this model tracks

\* Slash: burn a fraction of the validator's bonded tokens and of its unbonding entries, then dualstaking
\* balances the delegators (provider delegations / self stakes shrink with the validator delegations)
SlashVal(S, v, pct) ==
  LET Cut(n) == n - (n * (100 - pct)) \div 100
      lossB == SumF([w \in Stakers \cup {"self"} |-> IF w = "self" THEN Cut(S.valself[v]) ELSE Cut(S.vdl[w][v])])
      ub == {u \in S.unb : u.val = v}
      lossU == SumF([u \in ub |-> Cut(u.amt)])
      S1 == Burn(Burn(S, "bonded", lossB), "notbonded", lossU)
      S2 == [S1 EXCEPT !.valself[v] = @ - Cut(@),
                       !.unb = (@ \ ub) \cup {[u EXCEPT !.amt = @ - Cut(@)] : u \in ub},
                       !.vdl = [w \in Stakers |-> [@[w] EXCEPT ![v] = @ - Cut(@)]]]
      RECURSIVE Bal(_, _)
      Bal(SS, W) == IF W = {} THEN SS ELSE
        LET w == CHOOSE z \in W : TRUE  loss == Cut(S.vdl[w][v]) IN
        IF w \in Delegators THEN Bal(TakeDlg(SS, w, loss, ProvOrder), W \ {w})
        ELSE \* vault: the loss is spread over the provider's stake entries
             LET on == {s \in Specs : SS.prov[w][s].on}  n == Cardinality(on) IN
             IF n = 0 THEN Bal(SS, W \ {w})
             ELSE Bal(Refreeze([SS EXCEPT !.prov[w] = [s \in Specs |-> IF s \in on
                                   THEN [@[s] EXCEPT !.stake = Max(0, @ - loss \div n)] ELSE @[s]]], w), W \ {w})
  IN Bal(S2, Stakers)

Apply(S, x) ==
  LET S1 == CASE x.a = "NextBlock" -> Block(S, DtOf(S, x.dt))
              [] x.a = "NextEpoch" -> Blocks(S, NextEpochOf(S) - S.h)
              [] x.a = "Slash" -> LET B == Block(S, BLOCKTIME) IN IF B.panicked THEN B ELSE SlashVal(B, x.val, x.pct)
              [] OTHER -> ApplyTx(S, x)
  IN [S1 EXCEPT !.last = [ev |-> x.a, res |-> IF x.a \in BlockKinds THEN "block" ELSE "ok"], !.dsup = S1.supply - S.supply]

----------------------------------------------------------------------------
InitState ==
  [h |-> H0, t |-> T0, estart |-> H0, eb |-> 5, ets |-> 3, nEb |-> 5, nEts |-> 3,
   plans |-> [p \in Plans |-> (H0 - 3) :> [price |-> IF p = "PL1" THEN 100 ELSE 200, ref |-> 1, latest |-> TRUE, del |-> INF, stale |-> INF]],
   subs |-> [c \in Consumers |-> NoSub],
   cut |-> {}, cu |-> {}, ipcu |-> {}, base |-> {},
   prov |-> [p \in Providers |-> [s \in Specs |->
              IF p \in {"P1", "P2"} /\ s = "S1" THEN [on |-> TRUE, frozen |-> FALSE, stake |-> 5000, since |-> H0]
              ELSE [on |-> FALSE, frozen |-> FALSE, stake |-> 0, since |-> 0]]],
   dlg |-> [d \in Delegators |-> [p \in Providers \cup {"empty"} |-> 0]],
   vdl |-> [w \in Stakers |-> [v \in Validators |-> IF w \in {"P1", "P2"} /\ v = "VA1" THEN 5000 ELSE 0]],
   valself |-> [v \in Validators |-> 10000000],
   rewd |-> [p \in Providers |-> 0], drew |-> [d \in Delegators |-> 0],
   \* liquid balance of the delegators: D2 is "poor" (funded with one delegation + 3 tokens)
   liq |-> [d \in Delegators |-> IF d = "D2" THEN 2003 ELSE 1000000],
   unb |-> {}, red |-> {}, seq |-> 0, lastMove |-> [p \in Providers |-> 0],
   ip |-> [on |-> FALSE, cost |-> 0, subs |-> {}, cur |-> 0, funds |-> {}],
   refillAt |-> NextMonth(DAY + 3661), monthsLeft |-> 47,
   proj |-> [c \in Consumers |-> {}], keys |-> {},
   bank |-> [a \in Accts |-> CASE a = "users" -> 28994003 [] a = "valalloc" -> 4700000 [] a = "provalloc" -> 4700000
                                   [] a = "valdist" -> 97990 [] a = "feecol" -> 2010 [] a = "provdist" -> 100000 [] a = "bonded" -> 20010000
                                   [] OTHER -> 0],
   supply |-> 58604003, dsup |-> 0,
   obl |-> [ds |-> 0, iprpc |-> 0, sub |-> 0],
   panicked |-> FALSE, last |-> [ev |-> "reset", res |-> "reset"]]

\* TLC keeps [x \in S |-> e] as an unevaluated closure unless the state is fingerprinted (it is not in -simulate);
\* closures over closures would make every step cost more than the previous one.  N1/N2 force explicit functions.
N1(f) == f @@ <<>>
N2(f) == N1([x \in DOMAIN f |-> N1(f[x])])
NormState(S) == [S EXCEPT !.plans = N2(@), !.subs = N1(@), !.prov = N2(@), !.dlg = N2(@), !.vdl = N2(@),
                          !.valself = N1(@), !.rewd = N1(@), !.drew = N1(@), !.liq = N1(@), !.lastMove = N1(@), !.proj = N1(@), !.bank = N1(@)]

Init == st = NormState(InitState) /\ nops = 0 /\ hist = <<>>

Record(x) == hist' = IF GenHist THEN Append(hist, x) ELSE hist

\* bookkeeping after a step: the subscription version in force for pairing / relay payment is the one whose
\* block is not later than the current epoch start
Settle(S) == [S EXCEPT !.subs = [c \in Consumers |->
                 IF S.subs[c].on /\ S.subs[c].blk <= S.estart THEN [S.subs[c] EXCEPT !.cblk = S.subs[c].blk] ELSE S.subs[c]]]

Do(x) == /\ ~st.panicked /\ nops < MaxOps /\ nops' = nops + 1
         /\ st' = NormState(Settle(Apply(st, x))) /\ Record(x)

\* exhaustive
Next == \E k \in McKinds : \E x \in Cands(st, k) : Do(x)

\* generator: one draw per (kind, copy); copies give a kind more weight inside a history family
KindsOf(b) ==
  CASE b \in {"renew", "jump"} -> ({"NextBlock"} \X {1, 2, 3}) \cup ({"NextEpoch"} \X {1, 2}) \cup
                      ({"PlanAdd", "PlanDel", "SubBuy", "SubBuyAdvance", "SubAutoRenew", "RelayPay"} \X {1})
    [] b = "f1" -> ({"NextBlock"} \X {1, 2, 3, 4}) \cup ({"NextEpoch"} \X {1, 2, 3}) \cup
                   ({"PlanAdd", "PlanDel", "SubBuy", "SubAutoRenew"} \X {1})
    [] b = "stake" -> ({"NextBlock", "NextEpoch", "Slash", "Stake", "MoveStake", "Unstake", "Freeze", "Unfreeze", "DsDelegate",
                        "DsRedelegate", "DsUnbond", "DsClaim", "ValDelegate", "ValUndelegate", "ValRedelegate", "SubBuy", "RelayPay"} \X {1})
                      \cup ({"NextBlock", "Unstake", "Slash"} \X {2})
    [] b = "iprpc" -> ({"NextBlock", "RelayPay"} \X {1, 2, 3}) \cup ({"IprpcFund"} \X {1, 2}) \cup
                      ({"NextEpoch", "SubBuy", "IprpcSetData", "DsClaim", "Unstake", "Stake"} \X {1})
    [] OTHER -> ((TxKinds \cup BlockKinds) \X {1}) \cup ({"NextBlock", "NextEpoch"} \X {2, 3})
\* block-time steps are drawn with weights: most of them land just before / just after a month boundary
DtWeights == {<<"monthend", 1>>, <<"monthend", 2>>, <<"monthend", 3>>, <<"plus10", 1>>, <<"plus10", 2>>,
              <<"1d", 1>>, <<"1d", 2>>, <<"1h", 1>>, <<"default", 1>>}
TimeStep(S) == LET ok == {w \in DtWeights : TimeOk(S, DtOf(S, w[1]))} IN
               IF ok = {} THEN [a |-> "DsClaim", who |-> "D1", prov |-> ""]
               ELSE [a |-> "NextBlock", dt |-> RandomElement(ok)[1]]
\* one kind is drawn first and only its candidate set is computed; a kind without enabled candidates is replaced
\* by a block-time step
\* (the filter on nops keeps the draw from being a constant-level expression, which TLC would evaluate once and cache)
GenNext == \E kc \in {RandomElement({q \in KindsOf(Bias) : nops >= 0})} :
             \E cs \in {IF kc[1] = "NextBlock" THEN {} ELSE Cands(st, kc[1])} :
               \E x \in {IF cs = {} THEN TimeStep(st) ELSE RandomElement(cs)} : Do(x)
Emit == (nops < MaxOps /\ ~st.panicked) \/ PrintT(<<"BEH", ToJson(hist)>>)

----------------------------------------------------------------------------
(* properties *)
\* C09: no step increases the total supply
SupplyNeverIncreases == [][st'.last.ev # "reset" => st'.supply <= st.supply /\ st'.dsup <= 0]_vars
\* C37: block processing never panics
NoPanic == ~st.panicked
\* C10: escrow accounts hold at least what they owe
BackedDs == st.bank["ds"] >= st.obl.ds
BackedIprpc == st.bank["iprpc"] >= st.obl.iprpc
BackedSub == st.bank["sub"] >= st.obl.sub
\* sanity of the abstract bank itself (design level only)
BankSound == /\ \A a \in Accts : st.bank[a] >= 0
             /\ SumF([a \in Accts |-> st.bank[a]]) = st.supply
             /\ st.obl.ds >= 0 /\ st.obl.iprpc >= 0 /\ st.obl.sub >= 0
=============================================================================
