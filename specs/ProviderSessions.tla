--------------------------- MODULE ProviderSessions ---------------------------
(* protocol/lavasession provider side: provider_session_manager.go, provider_types.go,
   single_provider_session.go  -  a schedule-level (PlusCal-style) model.

   Processes (one goroutine each in the replay harness harness/cmd/provsessions):
     relay r     : GetSession [-> RegisterProviderSessionWithConsumer] -> PrepareSessionForUsage
                   -> OnSessionDone | OnSessionFailure          (what rpcprovider_server.go does)
     updater u   : UpdateSessionCU(consumer, epoch, sid, newcu)  (reward server has a higher proof)
     epoch e     : UpdateEpoch(n)

   pc[p] is the *yield point* at which the goroutine of p is parked; one action = the code a
   goroutine executes from one yield point to the next.  Yield points are either between two
   public calls (harness level: "start", "register", "got", "work") or the build-tagged hooks
   inside the package (hooks/lavasession_provider.patch):
     "regnew"   reg_before_register    RegisterProviderSessionWithConsumer, IsActiveProject (read lock) said "not
                                       registered", before registerNewConsumer (write lock)   (hooks/lavasession_provider_register.patch)
     "regget"   reg_before_getsession  RegisterProviderSessionWithConsumer, before its final GetSession
     "create"   psc_before_lock  createNewSingleProviderSession, before pswc.Lock.Lock()
     "addcas"   add_cu_read      validateAndAddUsedCU, between the load of UsedComputeUnits and the CAS
     "subcas"   sub_cu_read      validateAndSubUsedCU, between the load and the CAS
     "uloaded"  usc_loaded       UpdateSessionCU, after the load of the session's CuSum
     "uswapped" usc_swapped      UpdateSessionCU, after CuSum was replaced, before the parent is updated
     "uparent"  usc_parent_read  (only in the code before fix F8) after the load of the parent's used CU
   Everything between two yield points is executed atomically in the replay (all other goroutines
   are parked), which is what one action models.  Locks: psm.lock and pswc.Lock are only held inside
   one action (never across a yield point), so they need no variable; the per-session lock is held
   from GetSession to OnSessionDone/Failure and is the field `locked`; tryLockForUse on a locked
   session spins 30 ms and fails ("busy").

   One consumer / one project / one pairing epoch (par.epoch) per behaviour, hence at most one
   ProviderSessionsWithConsumerProject object: `used`, `missing`, `smap` describe it (also after
   UpdateEpoch has dropped it from the manager: goroutines that already hold it keep using it).

   FixCreate / FixUpdate = TRUE describe the code with fixes/F9_session_recheck.patch and
   fixes/F8_update_session_cu.patch applied (the committed configuration); FALSE is the code as it
   was found (design-level counter-examples: F9 in 5 steps, F8 see ProviderSessions_nofix*.cfg). *)
EXTENDS Integers, Sequences, FiniteSets, FiniteSetsExt, TLC, Json

CONSTANTS Scenarios,   \* set of parameter records, see the bottom of the module
          FixCreate, FixUpdate,
          GenHist      \* TRUE: record the schedule (generator / enumeration mode)

VARIABLES par,      \* the scenario (constant along a behaviour)
          pc, out,  \* per process: yield point, outcome ("none" until finished)
          objs,     \* sequence of session objects [sid, cuSum, latest, relayNum, locked], creation order
          smap,     \* pswc.Sessions : sid -> index into objs
          used, missing,    \* epochData.UsedComputeUnits / MissingComputeUnits
          reg,      \* the project has an entry (ProviderSessionsWithConsumerProject) in the manager for par.epoch
          creg,     \* consumers paired with the project in consumerPairedWithProjectMap[par.epoch]
          npswc,    \* number of project entries ever created for par.epoch (the code re-checks: at most 1)
          blocked, cur,     \* psm.blockedEpochHeight, psm.currentEpoch
          mine,     \* per process: session object it works on (0 = none)
          lu, lc,   \* per process locals: last value read from `used` / cuToAdd (relay), old CuSum (updater)
          hist

vars == <<par, pc, out, objs, smap, used, missing, reg, creg, npswc, blocked, cur, mine, lu, lc, hist>>

Relays == DOMAIN par.rel
Upds   == DOMAIN par.upd
Eps    == DOMAIN par.ep
Procs  == Relays \cup Upds \cup Eps
MaxAllowed == par.maxcu * (par.ve + 1)

Put1(f, k, v) == [x \in (DOMAIN f) \cup {k} |-> IF x = k THEN v ELSE f[x]]
RECURSIVE SeqSum(_)
SeqSum(s) == IF s = <<>> THEN 0 ELSE Head(s) + SeqSum(Tail(s))
SetSum(S, F(_)) == FoldSet(LAMBDA x, acc : acc + F(x), 0, S)

ValidEpoch == par.epoch > blocked        \* IsValidEpoch(epoch)

Rec(p) == hist' = IF GenHist THEN Append(hist, p) ELSE hist
Fin(p, o) == /\ pc' = [pc EXCEPT ![p] = "fin"] /\ out' = [out EXCEPT ![p] = o]
Goto(p, l) == /\ pc' = [pc EXCEPT ![p] = l] /\ UNCHANGED out

-----------------------------------------------------------------------------
(* setup: par.pre is a sequence of [sid, cu] - sessions used once, sequentially, before the
   concurrent part starts (relay number 1, cu accepted and done). *)
InitFor(P) ==
  /\ par = P
  /\ pc = [p \in DOMAIN P.rel \cup DOMAIN P.upd \cup DOMAIN P.ep |-> "start"]
  /\ out = [p \in DOMAIN P.rel \cup DOMAIN P.upd \cup DOMAIN P.ep |-> "none"]
  /\ objs = [i \in 1..Len(P.pre) |-> [sid |-> P.pre[i].sid, cuSum |-> P.pre[i].cu, latest |-> 0,
                                      relayNum |-> 1, locked |-> FALSE]]
  /\ smap = [s \in {P.pre[i].sid : i \in 1..Len(P.pre)} |-> CHOOSE i \in 1..Len(P.pre) : P.pre[i].sid = s]
  /\ used = SeqSum([i \in 1..Len(P.pre) |-> P.pre[i].cu])
  /\ missing = 0
  /\ reg = (Len(P.pre) > 0)
  /\ creg = IF Len(P.pre) > 0 THEN {1} ELSE {}
  /\ npswc = IF Len(P.pre) > 0 THEN 1 ELSE 0
  /\ cur = P.epoch0
  /\ blocked = IF P.epoch0 > P.dist THEN P.epoch0 - P.dist ELSE 0
  /\ mine = [p \in DOMAIN P.rel \cup DOMAIN P.upd \cup DOMAIN P.ep |-> 0]
  /\ lu = [p \in DOMAIN P.rel \cup DOMAIN P.upd \cup DOMAIN P.ep |-> 0]
  /\ lc = [p \in DOMAIN P.rel \cup DOMAIN P.upd \cup DOMAIN P.ep |-> 0]
  /\ hist = <<>>

Init == \E P \in Scenarios : InitFor(P)

-----------------------------------------------------------------------------
(* relay *)

\* tryLockForUse on an existing object + the RelayNum check of getSingleSessionFromProviderSessionWithConsumer
TryUse(p, id) ==
  IF objs[id].locked
  THEN /\ Fin(p, "busy") /\ UNCHANGED <<objs, mine>>
  ELSE IF objs[id].relayNum + 1 > par.rel[p].rn
  THEN /\ Fin(p, "out_of_sync") /\ UNCHANGED <<objs, mine>>           \* locked and unlocked again
  ELSE /\ objs' = [objs EXCEPT ![id].locked = TRUE]
       /\ mine' = [mine EXCEPT ![p] = id]
       /\ Goto(p, "got")

\* getSessionFromAnActiveConsumer: getExistingSession hit -> TryUse, miss -> createNewSingleProviderSession
FindSession(p) ==
  IF par.rel[p].sid \in DOMAIN smap
  THEN /\ TryUse(p, smap[par.rel[p].sid]) /\ UNCHANGED smap
  ELSE /\ Goto(p, "create") /\ UNCHANGED <<objs, mine, smap>>

\* GetSession: epoch check, readConsumerToPairedWithProjectMap, IsActiveProject, then the session
GetSess(p) ==
  IF ~ValidEpoch THEN /\ Fin(p, "invalid_epoch") /\ UNCHANGED <<objs, mine, smap>>
  ELSE IF par.rel[p].cons \notin creg \/ ~reg
  THEN /\ UNCHANGED <<objs, mine, smap>>                                     \* ConsumerNotRegisteredYet
       /\ IF pc[p] = "start" THEN Goto(p, "register") ELSE Fin(p, "not_registered_yet")
  ELSE FindSession(p)

RStart(p) ==
  /\ pc[p] = "start" /\ p \in Relays
  /\ GetSess(p)
  /\ UNCHANGED <<used, missing, reg, creg, npswc, blocked, cur, lu, lc>>

\* RegisterProviderSessionWithConsumer, part 1: IsActiveProject under the manager's READ lock;
\* registered project => writeConsumerToPairedWithProjectMap (write lock), else on to registerNewConsumer
RRegister(p) ==
  /\ pc[p] = "register" /\ p \in Relays
  /\ IF ~ValidEpoch THEN /\ Fin(p, "invalid_epoch") /\ UNCHANGED creg
     ELSE IF reg THEN /\ creg' = creg \cup {par.rel[p].cons} /\ Goto(p, "regget")
     ELSE /\ Goto(p, "regnew") /\ UNCHANGED creg
  /\ UNCHANGED <<objs, mine, smap, used, missing, reg, npswc, blocked, cur, lu, lc>>

\* part 2: registerNewConsumer under the manager's WRITE lock: epoch re-check, project entry RE-CHECK (an entry
\* created by another relay since part 1 is kept), consumer -> project mapping
RRegNew(p) ==
  /\ pc[p] = "regnew" /\ p \in Relays
  /\ IF ~ValidEpoch THEN /\ Fin(p, "invalid_epoch") /\ UNCHANGED <<reg, creg, npswc>>
     ELSE /\ reg' = TRUE /\ npswc' = IF reg THEN npswc ELSE npswc + 1
          /\ creg' = creg \cup {par.rel[p].cons}
          /\ Goto(p, "regget")
  /\ UNCHANGED <<objs, mine, smap, used, missing, blocked, cur, lu, lc>>

\* part 3: the final GetSession of RegisterProviderSessionWithConsumer
RRegGet(p) ==
  /\ pc[p] = "regget" /\ p \in Relays
  /\ GetSess(p)
  /\ UNCHANGED <<used, missing, reg, creg, npswc, blocked, cur, lu, lc>>

\* createNewSingleProviderSession from pswc.Lock.Lock() on (+ the RelayNum check of the caller)
RCreate(p) ==
  /\ pc[p] = "create" /\ p \in Relays
  /\ IF FixCreate /\ par.rel[p].sid \in DOMAIN smap
     THEN /\ TryUse(p, smap[par.rel[p].sid]) /\ UNCHANGED smap        \* re-check under the write lock
     ELSE LET id == Len(objs) + 1 IN
          /\ smap' = Put1(smap, par.rel[p].sid, id)                   \* replaces an existing entry!
          /\ IF 1 > par.rel[p].rn
             THEN /\ objs' = Append(objs, [sid |-> par.rel[p].sid, cuSum |-> 0, latest |-> 0, relayNum |-> 0, locked |-> FALSE])
                  /\ Fin(p, "out_of_sync") /\ UNCHANGED mine
             ELSE /\ objs' = Append(objs, [sid |-> par.rel[p].sid, cuSum |-> 0, latest |-> 0, relayNum |-> 0, locked |-> TRUE])
                  /\ mine' = [mine EXCEPT ![p] = id]
                  /\ Goto(p, "got")
  /\ UNCHANGED <<used, missing, reg, creg, npswc, blocked, cur, lu, lc>>

\* PrepareSessionForUsage up to the first load of the parent's used CU (incl. SafeAddMissingComputeUnits,
\* which has no yield point); on error the caller (initRelay) disbands = unlocks the session
RPrepare(p) ==
  /\ pc[p] = "got" /\ p \in Relays
  /\ LET id == mine[p]  o == objs[id]  r == par.rel[p]
         mism == r.total < o.cuSum + r.cu
         miss == IF r.total > o.cuSum THEN r.cu + o.cuSum - r.total ELSE r.cu
         tot2 == IF ~mism \/ r.total > o.cuSum THEN r.total ELSE o.cuSum
         tm   == missing + miss
         okm  == ~(tm + used > par.maxcu) /\ ~(tm > par.misscap) /\ ~(tm > used)
     IN IF mism /\ ~okm
        THEN /\ objs' = [objs EXCEPT ![id].locked = FALSE]
             /\ Fin(p, "cu_mismatch") /\ UNCHANGED <<missing, lu, lc>>
        ELSE /\ missing' = IF mism THEN tm ELSE missing
             /\ lc' = [lc EXCEPT ![p] = tot2 - o.cuSum]              \* cuToAdd
             /\ lu' = [lu EXCEPT ![p] = used]
             /\ Goto(p, "addcas") /\ UNCHANGED objs
  /\ UNCHANGED <<smap, used, reg, creg, npswc, blocked, cur, mine>>

\* validateAndAddUsedCU from the max check on; success continues to the end of PrepareSessionForUsage
RAddCas(p) ==
  /\ pc[p] = "addcas" /\ p \in Relays
  /\ LET id == mine[p]  c == lc[p] IN
     IF lu[p] + c > MaxAllowed
     THEN /\ objs' = [objs EXCEPT ![id].locked = FALSE]
          /\ Fin(p, "max_cu") /\ UNCHANGED <<used, lu>>
     ELSE IF c = 0 \/ used = lu[p]
     THEN /\ used' = IF c = 0 THEN used ELSE lu[p] + c              \* newUsed = knownUsed: no CAS at all
          /\ objs' = [objs EXCEPT ![id].latest = c, ![id].cuSum = @ + c]
          /\ Goto(p, "work") /\ UNCHANGED lu
     ELSE /\ lu' = [lu EXCEPT ![p] = used] /\ UNCHANGED <<pc, out, objs, used>>
  /\ UNCHANGED <<smap, missing, reg, creg, npswc, blocked, cur, mine, lc>>

\* OnSessionDone
RDone(p) ==
  /\ pc[p] = "work" /\ p \in Relays /\ ~par.rel[p].fail
  /\ objs' = [objs EXCEPT ![mine[p]].relayNum = par.rel[p].rn, ![mine[p]].latest = 0, ![mine[p]].locked = FALSE]
  /\ Fin(p, "ok")
  /\ UNCHANGED <<smap, used, missing, reg, creg, npswc, blocked, cur, mine, lu, lc>>

\* OnSessionFailure up to the load in validateAndSubUsedCU; stale epoch => onSessionDone, no rollback
RFail(p) ==
  /\ pc[p] = "work" /\ p \in Relays /\ par.rel[p].fail
  /\ IF ~ValidEpoch
     THEN /\ objs' = [objs EXCEPT ![mine[p]].relayNum = par.rel[p].rn, ![mine[p]].latest = 0, ![mine[p]].locked = FALSE]
          /\ Fin(p, "failed_stale") /\ UNCHANGED lu
     ELSE /\ objs' = [objs EXCEPT ![mine[p]].cuSum = @ - objs[mine[p]].latest]
          /\ lu' = [lu EXCEPT ![p] = used]
          /\ Goto(p, "subcas")
  /\ UNCHANGED <<smap, used, missing, reg, creg, npswc, blocked, cur, mine, lc>>

RSubCas(p) ==
  /\ pc[p] = "subcas" /\ p \in Relays
  /\ LET id == mine[p]  l == objs[id].latest IN
     IF l = 0 \/ used = lu[p]
     THEN /\ used' = IF l = 0 THEN used ELSE lu[p] - l
          /\ objs' = [objs EXCEPT ![id].latest = 0, ![id].locked = FALSE]
          /\ Fin(p, "failed") /\ UNCHANGED lu
     ELSE /\ lu' = [lu EXCEPT ![p] = used] /\ UNCHANGED <<pc, out, objs, used>>
  /\ UNCHANGED <<smap, missing, reg, creg, npswc, blocked, cur, mine, lc>>

-----------------------------------------------------------------------------
(* UpdateSessionCU *)
UStart(u) ==
  /\ pc[u] = "start" /\ u \in Upds
  /\ IF ~ValidEpoch THEN /\ Fin(u, "invalid_epoch") /\ UNCHANGED <<mine, lc>>
     ELSE IF ~reg \/ 1 \notin creg THEN /\ Fin(u, "not_registered") /\ UNCHANGED <<mine, lc>>   \* updater uses consumer 1
     ELSE IF par.upd[u].sid \notin DOMAIN smap THEN /\ Fin(u, "no_session") /\ UNCHANGED <<mine, lc>>
     ELSE /\ mine' = [mine EXCEPT ![u] = smap[par.upd[u].sid]]
          /\ lc' = [lc EXCEPT ![u] = objs[smap[par.upd[u].sid]].cuSum]
          /\ Goto(u, "uloaded")
  /\ UNCHANGED <<objs, smap, used, missing, reg, creg, npswc, blocked, cur, lu>>

ULoaded(u) ==
  /\ pc[u] = "uloaded" /\ u \in Upds
  /\ LET id == mine[u]  n == par.upd[u].newcu IN
     IF n <= lc[u] THEN /\ Fin(u, "noop") /\ UNCHANGED <<objs, lc>>
     ELSE IF ~FixUpdate \/ objs[id].cuSum = lc[u]                    \* before F8: plain store
     THEN /\ objs' = [objs EXCEPT ![id].cuSum = n] /\ Goto(u, "uswapped") /\ UNCHANGED lc
     ELSE /\ lc' = [lc EXCEPT ![u] = objs[id].cuSum] /\ UNCHANGED <<pc, out, objs>>   \* CAS failed, reload
  /\ UNCHANGED <<smap, used, missing, reg, creg, npswc, blocked, cur, mine, lu>>

USwapped(u) ==
  /\ pc[u] = "uswapped" /\ u \in Upds
  /\ IF FixUpdate
     THEN /\ used' = used + (par.upd[u].newcu - lc[u]) /\ Fin(u, "ok") /\ UNCHANGED lu   \* atomic add
     ELSE /\ lu' = [lu EXCEPT ![u] = used] /\ Goto(u, "uparent") /\ UNCHANGED used
  /\ UNCHANGED <<objs, smap, missing, reg, creg, npswc, blocked, cur, mine, lc>>

UParent(u) ==                                                         \* only before F8: plain store
  /\ pc[u] = "uparent" /\ u \in Upds
  /\ used' = lu[u] + (par.upd[u].newcu - lc[u]) /\ Fin(u, "ok")
  /\ UNCHANGED <<objs, smap, missing, reg, creg, npswc, blocked, cur, mine, lu, lc>>

-----------------------------------------------------------------------------
(* UpdateEpoch: one critical section under psm.lock *)
EStep(e) ==
  /\ pc[e] = "start" /\ e \in Eps
  /\ LET n == par.ep[e] IN
     IF n < blocked \/ n <= cur
     THEN /\ Fin(e, "rejected") /\ UNCHANGED <<blocked, cur, reg, creg, npswc>>
     ELSE LET b == IF n > par.dist THEN n - par.dist ELSE 0 IN
          /\ blocked' = b /\ cur' = n
          /\ reg' = (reg /\ par.epoch > b)                            \* filterOldEpochEntries (both maps)
          /\ creg' = IF par.epoch > b THEN creg ELSE {}
          /\ UNCHANGED npswc
          /\ Fin(e, "ok")
  /\ UNCHANGED <<objs, smap, used, missing, mine, lu, lc>>

-----------------------------------------------------------------------------
Step(p) == \/ RStart(p) \/ RRegister(p) \/ RRegNew(p) \/ RRegGet(p) \/ RCreate(p) \/ RPrepare(p) \/ RAddCas(p)
           \/ RDone(p) \/ RFail(p) \/ RSubCas(p)
           \/ UStart(p) \/ ULoaded(p) \/ USwapped(p) \/ UParent(p)
           \/ EStep(p)

AllFin == \A p \in Procs : pc[p] = "fin"
Next == \/ \E p \in Procs : Step(p) /\ Rec(p) /\ UNCHANGED par
        \/ AllFin /\ ~GenHist /\ UNCHANGED vars       \* terminal stuttering (deadlock check in MC mode)
Spec == Init /\ [][Next]_vars

\* generator: the terminal state of every behaviour prints scenario + schedule
Emit == ~AllFin \/ PrintT(<<"BEH", ToJson([par |-> par, sched |-> hist])>>)

-----------------------------------------------------------------------------
(* Properties (C27) *)
Holding(p) == pc[p] \in {"got", "addcas", "work", "subcas"}

\* within one session at most one relay is in progress
OnePerSession == \A p, q \in Relays : (p # q /\ Holding(p) /\ Holding(q)) => par.rel[p].sid # par.rel[q].sid
\* ... and it is the session object that the map holds (one object per session id, ever)
OneObject == /\ \A i, j \in DOMAIN objs : i # j => objs[i].sid # objs[j].sid
             /\ \A p \in Relays : Holding(p) => /\ par.rel[p].sid \in DOMAIN smap
                                                 /\ smap[par.rel[p].sid] = mine[p]
                                                 /\ objs[mine[p]].locked
\* one project entry per epoch: a second one would hand out a fresh CU budget and orphan the sessions of the first
OneProjectEntry == npswc <= 1
\* accepted CU never exceeds max * (virtualEpoch + 1) at acceptance time
AcceptWithinMaxA == \A p \in Relays : (pc[p] = "addcas" /\ pc'[p] = "work") => used' <= MaxAllowed
AcceptWithinMax == [][AcceptWithinMaxA]_vars
\* accepted relay numbers strictly increase
RelayNumIncreasesA == \A i \in DOMAIN objs : objs'[i].relayNum # objs[i].relayNum
                                                 => objs'[i].relayNum > objs[i].relayNum
RelayNumIncreases == [][RelayNumIncreasesA]_vars
AcceptedRelayNumA == \A p \in Relays : (~Holding(p) /\ Holding(p)') => par.rel[p].rn > objs'[mine'[p]].relayNum
AcceptedRelayNum == [][AcceptedRelayNumA]_vars
\* used CU = sum of the session CU sums whenever nobody is in the middle of an update
Calm == \A p \in Procs : pc[p] \in {"start", "register", "regnew", "regget", "create", "got", "fin"}
SumCu == SetSum(DOMAIN smap, LAMBDA s : objs[smap[s]].cuSum)
Accounting == Calm => used = SumCu
\* the same at every state, with the updates in flight accounted for (uses unobservable locals: design level only)
AccountingStrong ==
  used + SetSum({u \in Upds : pc[u] \in {"uswapped", "uparent"}}, LAMBDA u : par.upd[u].newcu - lc[u])
       = SumCu + SetSum({p \in Relays : pc[p] = "subcas"}, LAMBDA p : objs[mine[p]].latest)
\* the quiescent state at the end of a behaviour (everything finished): nothing is left locked
QuietUnlocked == AllFin => \A i \in DOMAIN objs : ~objs[i].locked
MissingBounded == missing <= par.misscap /\ missing <= par.maxcu
NonNegative == used >= 0 /\ \A i \in DOMAIN objs : objs[i].cuSum >= 0 /\ objs[i].latest >= 0
\* no process is ever stuck: checked as deadlock freedom (the only terminal states are AllFin states)

-----------------------------------------------------------------------------
(* Scenarios.  Relay record: [sid, rn, cu, total, fail]; updater: [sid, newcu]; epoch updater: new epoch. *)
R(sid, rn, cu, total, fail) == [sid |-> sid, rn |-> rn, cu |-> cu, total |-> total, fail |-> fail, cons |-> 1]
R2(sid, rn, cu, total, fail) == [sid |-> sid, rn |-> rn, cu |-> cu, total |-> total, fail |-> fail, cons |-> 2]   \* second consumer of the project
U(sid, n) == [sid |-> sid, newcu |-> n]
NoProc == [x \in {} |-> 0]
Base == [maxcu |-> 40, ve |-> 0, misscap |-> 10, epoch |-> 10, epoch0 |-> 10, dist |-> 5]
Scn(pre, rel, upd, ep) == [maxcu |-> Base.maxcu, ve |-> Base.ve, misscap |-> Base.misscap, epoch |-> Base.epoch,
                           epoch0 |-> Base.epoch0, dist |-> Base.dist, pre |-> pre, rel |-> rel, upd |-> upd, ep |-> ep]
P7 == <<[sid |-> 7, cu |-> 10]>>

\* two relays racing on one new session id (F9), optionally an epoch change
ScnCreate == {Scn(<<>>, [r1 |-> R(7, 1, 10, 10, f1), r2 |-> R(7, n2, 10, 10 * n2, f2)], NoProc, ep) :
                f1 \in BOOLEAN, f2 \in BOOLEAN, n2 \in {1, 2}, ep \in {NoProc, [e1 |-> 12], [e1 |-> 20]}}
\* a relay on the session the updater touches + a relay on another session (F8 a and b)
ScnUpdate == {Scn(P7, [r1 |-> R(7, 2, 10, t1, f1), r2 |-> R(8, 1, 10, 10, f2)], [u1 |-> U(7, n)], NoProc) :
                f1 \in BOOLEAN, f2 \in BOOLEAN, t1 \in {20, 25, 35}, n \in {15, 25}}
\* cu limit: three relays on different sessions compete for the last cu; virtual epoch doubles the allowance
ScnMax == {[Scn(P7, [r1 |-> R(8, 1, 20, 20, f1), r2 |-> R(9, 1, 20, 20, FALSE), r3 |-> R(7, 2, 10, 20, f3)], NoProc, NoProc)
              EXCEPT !.ve = v] : f1 \in BOOLEAN, f3 \in BOOLEAN, v \in {0, 1}}
\* mismatching totals (missing cu within / beyond the threshold) against an updater and an epoch change
ScnMix == {Scn(P7, [r1 |-> R(7, 2, 10, t1, f1), r2 |-> R(7, 3, 10, t2, FALSE)], [u1 |-> U(us, 25)], [e1 |-> en]) :
              f1 \in BOOLEAN, t1 \in {15, 20}, t2 \in {5, 30}, us \in {7, 8}, en \in {12, 20}}
\* two updaters and a relay on the same session
ScnTwoUpd == {Scn(P7, [r1 |-> R(7, 2, 10, 20, f1)], [u1 |-> U(7, 15), u2 |-> U(7, 25)], NoProc) : f1 \in BOOLEAN}

\* first relays of one project in the epoch: registration races (same / different consumer, same / different session id),
\* a third relay arrives later; cu chosen so that a fresh budget would exceed the allowance
ScnRegister == {Scn(<<>>, [r1 |-> R(7, 1, 30, 30, f1), r2 |-> IF c2 = 1 THEN R(s2, 1, 30, 30, f2) ELSE R2(s2, 1, 30, 30, f2),
                           r3 |-> R(9, 1, 30, 30, FALSE)], ue[1], ue[2]) :
                  f1 \in BOOLEAN, f2 \in BOOLEAN, c2 \in {1, 2}, s2 \in {7, 8},
                  ue \in {<<NoProc, NoProc>>, <<[u1 |-> U(7, 35)], NoProc>>, <<NoProc, [e1 |-> 12]>>}}
ScnQuick == {Scn(<<>>, [r1 |-> R(7, 1, 30, 30, FALSE), r2 |-> R2(8, 1, 30, 30, TRUE), r3 |-> R(9, 1, 30, 30, FALSE)], NoProc, NoProc),
             Scn(<<>>, [r1 |-> R(7, 1, 30, 30, TRUE), r2 |-> R(7, 1, 30, 30, FALSE), r3 |-> R(9, 1, 30, 30, FALSE)], NoProc, NoProc),
             Scn(<<>>, [r1 |-> R(7, 1, 10, 10, FALSE), r2 |-> R(7, 2, 10, 20, TRUE)], NoProc, [e1 |-> 20]),
             Scn(P7, [r1 |-> R(7, 2, 10, 20, TRUE), r2 |-> R(8, 1, 10, 10, FALSE)], [u1 |-> U(7, 25)], NoProc),
             Scn(P7, [r1 |-> R(7, 2, 10, 15, FALSE), r2 |-> R(7, 3, 10, 30, FALSE)], [u1 |-> U(7, 25)], [e1 |-> 12]),
             [Scn(P7, [r1 |-> R(8, 1, 20, 20, TRUE), r2 |-> R(9, 1, 20, 20, FALSE), r3 |-> R(7, 2, 10, 20, FALSE)], NoProc, NoProc)
                EXCEPT !.ve = 0]}
ScnAll == ScnCreate \cup ScnUpdate \cup ScnMax \cup ScnMix \cup ScnTwoUpd \cup ScnRegister
\* small scenarios whose schedules are enumerated exhaustively (thorough tier)
ScnEnum == {Scn(<<>>, [r1 |-> R(7, 1, 30, 30, FALSE), r2 |-> R2(7, 1, 30, 30, FALSE)], NoProc, NoProc),   \* registration race, two consumers, one session id
            Scn(<<>>, [r1 |-> R(7, 1, 10, 10, FALSE), r2 |-> R(7, 2, 10, 20, TRUE)], NoProc, NoProc),
            Scn(<<>>, [r1 |-> R(7, 1, 10, 10, TRUE), r2 |-> R(7, 1, 10, 10, FALSE)], NoProc, [e1 |-> 20]),
            Scn(P7, [r1 |-> R(7, 2, 10, 20, FALSE)], [u1 |-> U(7, 25)], NoProc),
            Scn(P7, [r1 |-> R(7, 2, 10, 20, TRUE)], [u1 |-> U(7, 15)], NoProc),
            Scn(P7, [r1 |-> R(8, 1, 10, 10, TRUE)], [u1 |-> U(7, 25)], NoProc),
            Scn(P7, [r1 |-> R(8, 1, 10, 10, TRUE), r2 |-> R(9, 1, 10, 10, FALSE)], NoProc, NoProc),
            Scn(P7, [r1 |-> R(7, 2, 10, 20, TRUE)], [u1 |-> U(7, 25)], [e1 |-> 20])}
=============================================================================
