CONSTANTS
  Creators = {"p1", "p2", "p3"}
  Signers = {"c1", "k1"}
  CUs = {10, 60, 150}
  Sessions = {1, 2, 3}
  Muts = {"none", "prov", "specdis", "specunk", "specother", "lava", "future", "futureblk", "nonstart", "expired", "neg", "sig", "cutamper", "unknown", "disproj", "delsub", "qbad", "qzero", "qone", "badge", "badgesmall", "badgeuser", "badgeepoch", "badgechain", "badgeissuer", "badgeplain"}
  Muts2 = {"none"}
  MaxRelays = 3
  EpochsToSave = 3
  MaxEpoch = 8
  MaxOps = 8
  GenHist = TRUE
  F2Fixed = FALSE
  CuGuard = FALSE
  Profile = "c05"
INIT Init
NEXT GenNext
INVARIANTS Emit
CHECK_DEADLOCK FALSE
