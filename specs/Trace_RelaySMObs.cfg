INIT TInit
NEXT TNext
INVARIANTS ObsSelection ObsOneFinal ObsJustified ObsNoResend ObsNoRetryAfterNR ObsAttempts ObsSendRetries ObsDecideConf ObsOnSendConf
POSTCONDITION Post
CHECK_DEADLOCK FALSE
