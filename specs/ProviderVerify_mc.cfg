CONSTANTS
  Sids = {1, 2}
  RC = 2
  MaxCU = 7
  MaxOps = 2
  GenHist = FALSE
INIT Init
NEXT Next
INVARIANTS ServesOnlyAuthentic AsksRequestEpoch ServesOnlyInSync RejectKeeps ProofOnlyIfServed ServedAccounting NoLockLeak CuBound
CHECK_DEADLOCK FALSE
