CONSTANTS
  Sids = {1, 2}
  RC = 2
  MaxCU = 7
  MaxOps = 3
  GenHist = FALSE
INIT Init
NEXT Next
INVARIANTS ServesOnlyAuthentic ServesOnlyInSync RejectKeeps ProofOnlyIfServed ServedAccounting NoLockLeak CuBound
CHECK_DEADLOCK FALSE
