CONSTANTS
  Indices = {"a"}
  MaxBlock = 6
  Stale = 2
  MaxRef = 2
  Data = {1, 2}
  MaxOps = 6
  GenHist = FALSE
  Fix16 = TRUE
  Fix17 = FALSE
  Fix17b = FALSE
  Fix18 = TRUE
INIT Init
NEXT Next
VIEW View
INVARIANTS TypeOK NoPanic Refines ResAgree GCSafe RefcountExact PutNotRefused OneLatest TimersSane LiveSane
CHECK_DEADLOCK FALSE
