CONSTANTS
  Bases = {1}
  Variants = {"base", "allign", "core"}
  SetVariants = {"base"}
  Blks = {5}
  NegTags = {2}
  Hashes = {0, 1}
  Sizes = {4}
  Lats = {0, 6}
  Sids = {""}
  MaxOps = 4
  MaxDrops = 1
  GenHist = FALSE
INIT Init
NEXT Next
INVARIANTS TypeOK HitSound BytesOK HashRule Unchanged NoPanic KeySound
CHECK_DEADLOCK FALSE
