CONSTANTS
  AsFound = FALSE
  MdLen = 2
INIT Init
NEXT Next
INVARIANTS TypeOK BindsOther
PROPERTIES ReadOnly
CHECK_DEADLOCK FALSE
