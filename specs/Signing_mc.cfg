CONSTANTS
  AsFound = FALSE
  InPlace = FALSE
  MdLen = 2
INIT Init
NEXT Next
INVARIANTS TypeOK BindsOther Stable
PROPERTIES ReadOnly
CHECK_DEADLOCK FALSE
