---------------------------- MODULE Trace_Pairing ----------------------------
(* Validation of traces recorded from the real x/pairing by harness/t/pairing.

   Obs mode: every "q" line (one consumer, one chain, one epoch) becomes one state whose variables are the
   logged projection: the stake table of the epoch as the keeper returned it, the effective policy as the
   EffectivePolicy query returned it, the pairing list GetPairing returned, the VerifyPairing answers.
   The invariants of Pairing.tla (Valid, Distinct, Bounded, Iff) are evaluated by TLC on these real
   states; the eligible set is computed by the spec's own filter operators from the logged inputs.

   Conf (C40): the real list must equal PairingFor(eff, tab, rng) where rng are the raw outputs of the
   public utils/rand PRNG seeded with the epoch hash data - i.e. the spec predicts every effective total,
   derives r = (v mod total) + 1 itself and applies the interval rule.

   C01: the K repeated answers on the same context and the R per-process store digests must all be equal. *)
EXTENDS Pairing, IOUtils
VARIABLES l, rng, nans, meta, hist
Trace == ndJsonDeserialize(IOEnv.VERIF_TRACE)
tvars == <<vars, l, rng, nans, meta, hist>>
\* hist[c] = [n |-> epochs queried so far with the table h.tab and policy h.eff, seen |-> providers paired in at least one of them]

PolOf(j) == [on |-> j.on, gl |-> FALSE, geo |-> ToSet(j.geo), max |-> j.max, mode |-> j.mode, sel |-> ToSet(j.sel), reqs |-> j.reqs]
EffOf(j) == [err |-> j.err, gl |-> j.gl, geo |-> ToSet(j.geo), max |-> j.max, mode |-> j.mode, sel |-> ToSet(j.sel), reqs |-> j.reqs]
TabOfLog(j) == [i \in 1..Len(j) |-> [p |-> j[i].p, stake |-> j[i].stake, geo |-> ToSet(j[i].geo), gl |-> j[i].gl,
                                      ok |-> j[i].ok, svc |-> ToSet(j[i].svc)]]
NoAns == [l |-> 1, v |-> 1, e |-> 1, h |-> 1]

TInit == /\ Blank /\ cfg = [id |-> 0] /\ tab = <<>> /\ l = 1 /\ rng = <<>> /\ nans = NoAns
         /\ meta = [ev |-> "reset", mid |-> FALSE, k |-> 0]
         /\ hist = [c \in {Trace[1].cfg} |-> [n |-> 0, seen |-> {}, tab |-> <<>>, eff |-> <<>>]]
         /\ Trace[1].ev = "reset"

TReset(r) == /\ phase' = "start" /\ eff' = [err |-> TRUE] /\ skip' = {} /\ out' = <<>> /\ grp' = 1 /\ pos' = 1 /\ ver' = <<>> /\ sub' = <<>>
             /\ cfg' = [id |-> r.cfg] /\ tab' = <<>> /\ rng' = <<>> /\ nans' = NoAns
             /\ meta' = [ev |-> "reset", mid |-> FALSE, k |-> 0]
             /\ hist' = [c \in DOMAIN hist \cup {r.cfg} |-> IF c = r.cfg THEN [n |-> 0, seen |-> {}, tab |-> <<>>, eff |-> <<>>] ELSE hist[c]]
TQuery(r) == /\ cfg' = [id |-> r.cfg, plan |-> PolOf(r.pol[1]), sub |-> PolOf(r.pol[2]), admin |-> PolOf(r.pol[3])]
             /\ tab' = TabOfLog(r.tab)
             /\ eff' = EffOf(r.eff)
             /\ out' = r.list
             /\ ver' = r.ver
             /\ phase' = IF r.panic THEN "panic" ELSE IF r.err THEN "err" ELSE "verified"
             /\ skip' = {} /\ grp' = 1 /\ pos' = 1 /\ sub' = <<>>
             /\ rng' = r.rng
             /\ nans' = [l |-> Len(r.lists), v |-> Len(r.vers), e |-> Len(r.effs), h |-> 1]
             /\ meta' = [ev |-> "q", mid |-> r.mid, k |-> r.k]
             /\ LET h == hist[r.cfg]
                    same == h.tab = r.tab /\ h.eff = r.eff
                    new == IF r.mid \/ r.err THEN h
                           ELSE [n |-> (IF same THEN h.n ELSE 0) + 1, seen |-> (IF same THEN h.seen ELSE {}) \cup ToSet(r.list),
                                 tab |-> r.tab, eff |-> r.eff] IN
                hist' = [c \in DOMAIN hist |-> IF c = r.cfg THEN new ELSE hist[c]]
TBlock(r) == /\ UNCHANGED <<cfg, tab, eff, out, ver, skip, grp, pos, rng, sub>>
             /\ phase' = "block"
             /\ nans' = [l |-> 1, v |-> 1, e |-> 1, h |-> Cardinality(ToSet(r.digs))]
             /\ meta' = [ev |-> "blk", mid |-> FALSE, k |-> 0]
             /\ UNCHANGED hist
TNext == /\ l < Len(Trace) /\ l' = l + 1
         /\ LET r == Trace[l + 1] IN
              \/ r.ev = "reset" /\ TReset(r)
              \/ r.ev = "q" /\ TQuery(r)
              \/ r.ev = "blk" /\ TBlock(r)

(* ---- C02 (Obs): Valid, Distinct, Bounded, Iff of Pairing.tla plus: ---- *)
NoPanic == phase # "panic"
\* GetPairing fails only when the effective policy itself is invalid (empty geolocation intersection)
ErrOnlyPolicy == phase = "err" => eff.err
\* ... and then no provider verifies
ErrIff == phase = "err" => \A i \in 1..Len(ver) : ~ver[i]

(* ---- C40 (Conf on the picked providers) ---- *)
Applicable == phase = "verified" /\ CostsOK(eff, tab)
PickConfPlain == (Applicable /\ MixFilters(eff) = <<>>) => out = PairingFor(eff, tab, rng)
PickConfAll == Applicable => out = PairingFor(eff, tab, rng)

(* C40 (Obs), the real-code witness of "no eligible provider with positive stake has zero chance":
   in a configuration without mix filters whose scores are small (total numerator <= 10^6), a provider with score w among
   eligible providers of total score W is picked for the first slot of an epoch with probability w/W; once the same stake table
   and policy have been queried for n epochs with n*w >= 14*W, the chance that it was never paired is below e^-14 < 10^-6 -
   so it must have been seen. *)
NoZeroChance ==
  (phase = "verified" /\ ~meta.mid /\ MixFilters(eff) = <<>> /\ CostsOK(eff, tab)) =>
    LET h == hist[cfg.id]
        req == GroupGeo(eff, 1)
        E == {i \in 1..Len(tab) : MandatoryPass(eff, tab[i])}
        W == SumSet([i \in 1..Len(tab) |-> ScoreNum(req, tab[i])], E) IN
    (W <= 1000000 /\ Len(out) < Cardinality(E)) =>
       \A i \in E : (tab[i].stake > 0 /\ h.n * ScoreNum(req, tab[i]) >= 14 * W) => tab[i].p \in h.seen

(* ---- C01 (Obs): all answers on the same state are equal; all processes reach the same state ---- *)
DetLists == nans.l = 1
DetVerify == nans.v = 1
DetEff == nans.e = 1
DetHash == nans.h = 1

(* ---- drift: the logged effective policy is one the spec derives from the raw policies ---- *)
EffConf == phase \in {"verified", "err"} => IF eff.err THEN \A e \in EffPolicies(cfg) : e.err ELSE eff \in EffPolicies(cfg)

Post == LET d == TLCGet("stats").diameter IN PrintT(<<"HWM", d>>) /\ d = Len(Trace)
=============================================================================
