CONSTANTS
  Indices = {"a", "b"}
  MaxBlock = 16
  Stale = 2
  MaxRef = 1000
  Data = {1, 2}
  MaxOps = 1000000
  GenHist = FALSE
  Fix16 = TRUE
  Fix17 = FALSE
  Fix17b = FALSE
  Fix18 = TRUE
INIT TInit
NEXT TNext
INVARIANTS NoPanic Refines ResAgree GCSafe RefcountExact PutNotRefused OneLatest TimersSane LiveSane
POSTCONDITION Post
CHECK_DEADLOCK FALSE
