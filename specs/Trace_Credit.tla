----------------------------- MODULE Trace_Credit -----------------------------
(* Validation of traces recorded from the real dualstaking keeper (harness/t/credit).  (C23)

   Conf mode on the observables the property names: every step must be the spec action with the
   logged arguments and produce exactly the logged stored record (Amount, Credit, Timestamp,
   CreditTimestamp) and the logged value of CalculateMonthlyCredit - model equality is part of the
   property, so rejection of a trace is a violation.

   The three stated clauses (non-negative and bounded by the largest amount of the last 30 days;
   settled after 30 days; holding never lowers) are evaluated by TLC on every real state.  They are
   *reported* (PrintT "VIOL") instead of stopping TLC, because two of them fail on the unchanged
   tree for a known reason (F20, F21) and a known finding must never hide a different violation
   further down the trace; checks/C23.py re-executes one behaviour per reported signature. *)
EXTENDS Credit, IOUtils
VARIABLE l
Trace == ndJsonDeserialize(IOEnv.VERIF_TRACE)
tvars == <<vars, l>>

Rd(r) == [on |-> r.d.on, A |-> r.d.A, C |-> r.d.C, T |-> r.d.T, CT |-> r.d.CT]
Match(r) == /\ r.ok /\ ~r.panic
            /\ now' = r.now
            /\ d' = Rd(r)
            /\ MCof(d', now') = r.mc

TInit == Init /\ l = 1 /\ Trace[1].ev = "reset" /\ Trace[1].now = 1 /\ ~Trace[1].d.on
TReset(r) == /\ r.ev = "reset" /\ ~r.d.on /\ r.mc = 0
             /\ now' = r.now /\ d' = None /\ hist' = <<>> /\ nops' = 0 /\ beh' = <<>> /\ taint' = FALSE
             /\ last' = [op |-> "init", gap |-> 0, prevMC |-> 0, prevNow |-> r.now, prevStale |-> FALSE]
Step(r) == \/ r.ev = "set" /\ Set(r.gap, r.arg)
           \/ r.ev = "touch" /\ Touch(r.gap, r.arg)
           \/ r.ev = "eval" /\ Eval(r.gap)
TNext == /\ l < Len(Trace) /\ l' = l + 1
         /\ LET r == Trace[l + 1] IN TReset(r) \/ (Step(r) /\ Match(r))
TSpec == TInit /\ [][TNext]_tvars

Viol(sig) == PrintT(<<"VIOL", l, sig>>)
Report ==
  /\ NonNeg \/ Viol("negative")
  /\ Bounded \/ Viol(IF StaleAverageKept THEN "bounded@stale-average-kept" ELSE "bounded@other")
  /\ Settled \/ Viol("settled")
  /\ HoldMonotone \/ Viol(IF StaleAverageKept \/ last.prevStale THEN "monotone@stale-average-kept"
                          ELSE IF DoubleFloor THEN "monotone@double-floor-amount-lt-month-hours"
                          ELSE "monotone@other")
  /\ (HoldMonotoneAny \/ ~HoldMonotone) \/ PrintT(<<"NOTE", l, "average-falls-while-larger-amount-leaves-window">>)
  /\ (~HoldGuard) \/ PrintT(<<"COV", l, "hold">>)
  /\ (~(d.on /\ now - d.T >= Month)) \/ PrintT(<<"COV", l, "settled">>)
  /\ (~StaleAverageKept) \/ PrintT(<<"COV", l, "stale">>)

Post == LET dm == TLCGet("stats").diameter IN PrintT(<<"HWM", dm>>) /\ dm = Len(Trace)
=============================================================================
