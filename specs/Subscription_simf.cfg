CONSTANTS
  EB = 20
  StaleP = 200
  BT = 1
  MaxOps = 14
  MaxMonths = 6
  GenHist = TRUE
  GenBias = TRUE
  FixRenew = TRUE
  PlanIdx = {"p1"}
  Durs = {1, 2}
  WithRelay = FALSE
  Consumers = {"c1", "c2"}
  ThirdParty = {}
  WithDrain = TRUE
  Acts = {"planadd", "plandel", "buy", "adv", "auto", "block", "epoch", "stale"}
  PriceVar = {0, 1}
INIT Init
NEXT GenNext
INVARIANTS Emit
CHECK_DEADLOCK FALSE
