---------------------------- MODULE Trace_NextMonth ----------------------------
(* every line = one input vector with the result of the real utils.NextMonth; the transcription must agree *)
EXTENDS NextMonth, IOUtils, Sequences
VARIABLE l
Trace == ndJsonDeserialize(IOEnv.VERIF_TRACE)
TInit == l = 1 /\ y = Trace[1].y /\ m = Trace[1].m /\ d = Trace[1].d /\ s = Trace[1].s
TNext == /\ l < Len(Trace) /\ l' = l + 1
         /\ LET r == Trace[l + 1] IN y' = r.y /\ m' = r.m /\ d' = r.d /\ s' = r.s
Agrees == LET r == Trace[l]  e == NM(r.y, r.m, r.d, r.s) IN
          /\ r.ry = e.y /\ r.rm = e.m /\ r.rd = e.d /\ r.rs = e.s /\ r.utc = 1
          /\ r.days = Span(r.y, r.m, r.d)
Post == LET dm == TLCGet("stats").diameter IN PrintT(<<"HWM", dm>>) /\ dm = Len(Trace)
=============================================================================
