CONSTANTS
  NP = 4
  Stakes = {1}
  GeoSets = {{1}}
  PolGeoSets = {{1}}
  McMixed = {TRUE}
  McMoreSel = FALSE
  Kinds = {0, 3}
  CostBase = 3
  Den = 1
  MaxSlots = 3
  GenN = 0
  SubOrder = "any"
  UnionMode = "firstseen"
  Mode = "mc"
INIT SubInit
NEXT Next
INVARIANTS TypeOK OrderIndependent
CHECK_DEADLOCK FALSE
