CONSTANTS
  Scenarios <- ScnQuick
  FixCreate = TRUE
  FixUpdate = TRUE
  GenHist = FALSE
INIT TInit
NEXT TNext
INVARIANTS OnePerSession OneObject OneProjectEntry Accounting MissingBounded NonNegative QuietUnlocked
PROPERTIES TAcceptWithinMax TRelayNumIncreases TAcceptedRelayNum
POSTCONDITION Post
CHECK_DEADLOCK FALSE
