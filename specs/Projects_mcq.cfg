CONSTANTS
  Keys = {"c1", "c2", "k1", "k2"}
  ProjNames = {"c1/adm", "c1/low", "c1/q1", "c2/adm"}
  MaxEpoch = 2
  MaxOps = 3
  GenHist = FALSE
  Window = 3
INIT Init
NEXT Next
VIEW View
INVARIANTS TypeOK C17_Keys
PROPERTIES C17_ChargeProp C17_ResolveProp
CHECK_DEADLOCK FALSE
