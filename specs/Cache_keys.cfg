CONSTANTS
  Bases = {1, 3}
  Variants = {"base", "salt", "seen", "rid", "tid", "xid", "jid", "jidstr", "noid", "allign", "core", "chain", "url", "addon", "ext", "meta", "conn", "iface", "rest", "restjid", "jidcore"}
  SetVariants = {"base", "salt", "seen", "rid", "tid", "xid", "jid", "jidstr", "noid", "allign", "core", "chain", "url", "addon", "ext", "meta", "conn", "iface", "rest", "restjid", "jidcore"}
  Blks = {5}
  NegTags = {2}
  Hashes = {0, 1}
  Sizes = {5}
  Lats = {6}
  Sids = {""}
  MaxOps = 2
  MaxDrops = 0
  GenHist = FALSE
INIT Init
NEXT Next
INVARIANTS TypeOK HitSound BytesOK HashRule Unchanged NoPanic KeySound
CHECK_DEADLOCK FALSE
