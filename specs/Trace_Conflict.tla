---------------------------- MODULE Trace_Conflict ----------------------------
(* Validation of traces recorded from the real chain (harness/t/conflict).

   Obs mode (VERIF_CONF = "0", decides C20): the next state is exactly what the chain logged - open vote
   records, counted stake, resolution events, the step and its result; TLC evaluates the C20 action
   properties and the state invariants of Conflict.tla on the real states.  Nothing but a property
   violation can reject a line (apart from the epoch-alignment assumption, reported as infrastructure).

   Conf mode (VERIF_CONF = "1", drift only): in addition the step must be the spec action with the logged
   arguments and produce the logged state (including the error class of a rejected message). *)
EXTENDS Conflict, IOUtils
VARIABLE l
Trace == ndJsonDeserialize(IOEnv.VERIF_TRACE)
ConfMode == IOEnv.VERIF_CONF = "1"
tvars == <<vars, l>>

ToSet(s) == {s[i] : i \in 1..Len(s)}
VoterSet(v) == {v.voters[i].who : i \in 1..Len(v.voters)}
Entry(v, w) == v.voters[CHOOSE i \in 1..Len(v.voters) : v.voters[i].who = w]
VoteOf(v) == [state |-> v.state, deadline |-> v.deadline, start |-> v.start,
              stake |-> [w \in VoterSet(v) |-> Entry(v, w).st],
              voters |-> [w \in VoterSet(v) |-> [h |-> Entry(v, w).h, res |-> Entry(v, w).res]]]
VotesOf(r) == LET S == ToSet(r.votes) IN
              [id \in {Id(v.pair, v.es) : v \in S} |-> VoteOf(CHOOSE v \in S : Id(v.pair, v.es) = id)]
LastOf(r) == Rec(r.ev, r.who, r.pair, r.es, r.n, r.opt, r.as, r.k, r.ok, r.err)

Logged(r) == /\ height' = r.height /\ votes' = VotesOf(r) /\ stake' = r.stake
             /\ out' = ToSet(r.out) /\ last' = LastOf(r)
\* assumptions of the projection: the chain's epochs are the spec's, no panic
Sane(r) == r.ises = IsES(r.height) /\ ~r.panic /\ r.eb = EB /\ r.vp = VP /\ r.span = SPAN

TInit == /\ l = 1 /\ Trace[1].ev = "reset" /\ Sane(Trace[1])
         /\ height = Trace[1].height /\ votes = <<>> /\ Trace[1].votes = <<>> /\ stake = Trace[1].stake /\ out = {}
         /\ last = LastOf(Trace[1]) /\ ndet = 0 /\ nops = 0 /\ hist = <<>>

SpecStep(r) == \/ r.ev = "detect" /\ Detect(r.pair, r.k)
               \/ r.ev = "commit" /\ Commit(r.who, Id(r.pair, r.es), [n |-> r.n, opt |-> r.opt, as |-> r.as])
               \/ r.ev = "reveal" /\ Reveal(r.who, Id(r.pair, r.es), r.n, r.opt)
               \/ r.ev = "tick" /\ Tick(r.k)

TNext == /\ l < Len(Trace) /\ l' = l + 1
         /\ LET r == Trace[l + 1] IN
            /\ Sane(r)
            /\ IF r.ev = "reset"
               THEN Logged(r) /\ r.votes = <<>> /\ ndet' = 0 /\ UNCHANGED <<nops, hist>>
               ELSE IF ConfMode THEN SpecStep(r) /\ Logged(r) /\ UNCHANGED nops
               ELSE Logged(r) /\ UNCHANGED <<ndet, nops, hist>>
TSpec == TInit /\ [][TNext]_tvars
\* one named property per clause so that a violation names the clause
G(X) == last'.a # "reset" => X
T_PhaseStep == [][G(PhaseStep)]_tvars
T_Birth     == [][G(Birth /\ ListFixed)]_tvars
T_EntryStep == [][G(EntryStep)]_tvars
T_Accepted  == [][G(Accepted)]_tvars
T_Rejected  == [][G(Rejected /\ MsgNoTime)]_tvars
T_Outcome   == [][G(Outcome)]_tvars

Post == LET d == TLCGet("stats").diameter IN PrintT(<<"HWM", d>>) /\ d = Len(Trace)
=============================================================================
