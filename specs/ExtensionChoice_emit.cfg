CONSTANTS
  Nums = {5, 950}
  Latests = {0, 100, 1000}
  Rules = {127}
  Methods = {"eth_call", "eth_getBalance"}
  Guard = TRUE
INIT EInit
NEXT ENext
INVARIANTS EEmit
CHECK_DEADLOCK FALSE
