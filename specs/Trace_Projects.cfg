CONSTANTS
  Keys = {"c1", "c2", "k1", "k2", "k3"}
  ProjNames = {"c1/adm", "c1/low", "c1/dis", "c1/q1", "c2/adm", "c2/q1"}
  MaxEpoch = 100000
  MaxOps = 100000
  GenHist = FALSE
  Window = 3
INIT TInit
NEXT TNext
INVARIANTS C17_TKeys
PROPERTIES C17_TChargeProp C17_TResolveProp C17_TFailProp
POSTCONDITION Post
CHECK_DEADLOCK FALSE
