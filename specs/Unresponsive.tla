----------------------------- MODULE Unresponsive -----------------------------
(* x/pairing/keeper/unresponsive_provider.go + the complaint bookkeeping of msg_server_relay_payment.go.

   One chain (spec), providers Provs, epochs of EB blocks; epoch i starts at block i*EB.
   Actions:
     Pay(q, e, cu, R)   relay payment of provider q for a session of epoch e worth cu, the consumer reports
                        the providers R as unresponsive (updateProvidersComplainerCU: every reported provider
                        that is in the consumer's pairing of that epoch gets cu / (|R| * (paired-1)))
     Unfreeze(p)        MsgUnfreezeProvider (only a frozen entry whose jail time is over)
     NextEpoch(dt)      begin-block of the next epoch start: PunishUnresponsiveProviders, transcribed in code
                        order (history check, per-provider window sums of countCuForUnresponsiveness, the
                        min-providers guard with its running counter, punishUnresponsiveProvider,
                        resetComplainersCU), the snapshot of the providers eligible for pairing in the new
                        epoch is taken before the punishment (epochstorage runs first).
   Code quirk transcribed on purpose: countCuForUnresponsiveness adds the serviced CU of an epoch only when
   a complaint record exists for that epoch (the lookup is nested in `if ok`).  WinServiced below is the sum
   the property talks about (every epoch of the window); CodeServiced is what the code computes.

   Time is in seconds; applied is a block number (FROZEN = frozen). *)
EXTENDS Integers, Sequences, FiniteSets, TLC, Json

CONSTANTS ProvSeq,   \* providers (a sequence, so that stake-entry order is defined)
          EB,        \* blocks per epoch
          NC,        \* EPOCHS_NUM_TO_CHECK_FOR_COMPLAINERS
          NS,        \* EPOCHS_NUM_TO_CHECK_CU_FOR_UNRESPONSIVE_PROVIDER
          REC,       \* RecommendedEpochNumToCollectPayment
          MinProv,   \* min over plans of MaxProvidersToPair
          SOFT, HARD,\* jail times (seconds)
          SOFTEP,    \* SOFT_JAIL_TIME / downtime.EpochDuration  (epochs added to StakeAppliedBlock)
          MEM,       \* epochs of payment memory (epochsToSave)
          DTs,       \* epoch durations to choose from
          CUs,       \* relay CU values
          Ep0, T0, A0, \* first epoch index / time of a behaviour, StakeAppliedBlock of the initial entries
          FixedServ,  \* FALSE: serviced CU summed as the code does (see below); TRUE: over the whole window
          MaxEp, MaxPay, MaxOps, GenHist

VARIABLES ep, now,
          ent,      \* [Provs -> [applied, jails, jailEnd]]
          comp,     \* [Provs -> [epoch index -> complainer CU]]   (existing records only)
          serv,     \* [Provs -> [epoch index -> serviced CU]]
          act,      \* [epoch index -> set of providers eligible for pairing in that epoch]
          pun,      \* providers punished by the last step
          npay, nops, last, hist

vars == <<ep, now, ent, comp, serv, act, pun, npay, nops, last, hist>>

Provs == {ProvSeq[i] : i \in 1..Len(ProvSeq)}
FROZEN == 2000000000
THRESHOLD == 4
SOFTJAILS == 2
MaxN == IF NC > NS THEN NC ELSE NS
Frozen(e) == e.applied = FROZEN
Get(f, k) == IF k \in DOMAIN f THEN f[k] ELSE 0

RECURSIVE SumF(_, _)
SumF(f, S) == IF S = {} THEN 0 ELSE LET x == CHOOSE y \in S : TRUE IN Get(f, x) + SumF(f, S \ {x})

\* window of an evaluation at epoch `cur`: epochs cur-REC, cur-REC-1, ...
WinC(cur) == {cur - REC - k : k \in 0..(NC - 1)}
WinS(cur) == {cur - REC - k : k \in 0..(NS - 1)}
WinComplaints(p, cur) == SumF(comp[p], WinC(cur))
WinServiced(p, cur) == SumF(serv[p], WinS(cur))
\* what the code sums: serviced CU only of epochs that have a complaint record
CodeServiced(p, cur) == IF FixedServ THEN WinServiced(p, cur) ELSE SumF(serv[p], WinS(cur) \cap DOMAIN comp[p])
CountedEpochs(p, cur) == WinC(cur) \cap DOMAIN comp[p]
HistOK(cur) == cur >= MaxN + REC
MinHistBlock(cur) == (cur - MaxN - REC) * EB
Eligible(e, p, cur) == ~Frozen(e[p]) /\ DOMAIN comp[p] # {}
                       /\ ~(MinHistBlock(cur) < e[p].applied /\ e[p].jails = 0)
ShouldPunish(p, cur) == CountedEpochs(p, cur) # {} /\ WinComplaints(p, cur) > THRESHOLD * CodeServiced(p, cur)

PunishEntry(e, t, h) ==
  LET j == (IF e.jailEnd > t - HARD THEN e.jails ELSE 0) + 1 IN
  IF j > SOFTJAILS THEN [applied |-> FROZEN, jails |-> j, jailEnd |-> t + HARD]
  ELSE [applied |-> h + SOFTEP * EB, jails |-> j, jailEnd |-> t + SOFT]

\* the loop over the complained providers in some order; S = [ent, comp, existing, pun]
RECURSIVE Loop(_, _, _, _)
Loop(S, order, cur, t) ==
  IF order = <<>> THEN S
  ELSE LET p == Head(order) IN
       IF ShouldPunish(p, cur) /\ S.existing > MinProv
       THEN Loop([ent |-> [S.ent EXCEPT ![p] = PunishEntry(S.ent[p], t, cur * EB)],
                  comp |-> [S.comp EXCEPT ![p] = [k \in DOMAIN S.comp[p] \ CountedEpochs(p, cur) |-> S.comp[p][k]]],
                  existing |-> S.existing - 1, pun |-> S.pun \cup {p}], Tail(order), cur, t)
       ELSE Loop(S, Tail(order), cur, t)

Orders(S) == {o \in [1..Cardinality(S) -> S] : \A i, j \in 1..Cardinality(S) : i # j => o[i] # o[j]}

Rec(a, p, e, cu, r, dt, ok) == [a |-> a, p |-> p, e |-> e, cu |-> cu, r |-> r, dt |-> dt, ok |-> ok]
Record(r) == hist' = IF GenHist THEN Append(hist, r) ELSE hist

\* deleted epochs drop their serviced-CU records (RemoveOldEpochPayments); complaint records are kept
Trim(f, cur) == [p \in Provs |-> [k \in {x \in DOMAIN f[p] : x >= cur - MEM} |-> f[p][k]]]
ActiveNow(e, cur) == {p \in Provs : e[p].applied <= cur * EB}

NextEpoch(dt) ==
  LET cur == ep + 1
      t == now + dt
      S0 == [ent |-> ent, comp |-> comp, existing |-> Cardinality({p \in Provs : ~Frozen(ent[p])}), pun |-> {}]
      cands == {p \in Provs : Eligible(ent, p, cur)}
  IN /\ cur <= MaxEp
     /\ ep' = cur /\ now' = t
     /\ \E order \in (IF HistOK(cur) THEN Orders(cands) ELSE {<<>>}) :
          LET S == Loop(S0, order, cur, t) IN
          /\ ent' = S.ent /\ comp' = S.comp /\ pun' = S.pun
          /\ act' = [i \in (DOMAIN act \cup {cur}) |-> IF i = cur THEN ActiveNow(ent, cur) ELSE act[i]]
     /\ serv' = Trim(serv, cur)
     /\ last' = Rec("epoch", "", 0, 0, {}, dt, TRUE) /\ Record(Rec("epoch", "", 0, 0, {}, dt, TRUE))
     /\ UNCHANGED npay

\* relay payment; rejected (nothing changes) when the provider is not paired in that epoch
Pay(q, e, cu, R) ==
  LET paired == act[e]
      share == IF R = {} \/ Cardinality(paired) <= 1 THEN 0 ELSE cu \div (Cardinality(R) * (Cardinality(paired) - 1))
      ok == q \in paired
  IN /\ e \in DOMAIN act /\ e <= ep /\ e >= ep - MEM + 1 /\ q \notin R /\ npay < MaxPay
     /\ npay' = npay + 1
     /\ last' = Rec("pay", q, e, cu, R, 0, ok) /\ Record(Rec("pay", q, e, cu, R, 0, ok))
     /\ pun' = {}
     /\ IF ok
        THEN /\ serv' = [serv EXCEPT ![q] = [k \in DOMAIN serv[q] \cup {e} |-> Get(serv[q], k) + (IF k = e THEN cu ELSE 0)]]
             /\ comp' = [p \in Provs |->
                           IF p \in R \cap paired
                           THEN [k \in DOMAIN comp[p] \cup {e} |-> Get(comp[p], k) + (IF k = e THEN share ELSE 0)]
                           ELSE comp[p]]
        ELSE UNCHANGED <<serv, comp>>
     /\ UNCHANGED <<ep, now, ent, act>>

Unfreeze(p) ==
  LET ok == Frozen(ent[p]) /\ ~(ent[p].jailEnd > now) IN
  /\ Frozen(ent[p])
  /\ last' = Rec("unfreeze", p, 0, 0, {}, 0, ok) /\ Record(Rec("unfreeze", p, 0, 0, {}, 0, ok))
  /\ pun' = {}
  /\ ent' = IF ok THEN [ent EXCEPT ![p] = [applied |-> (ep + 1) * EB + 1, jails |-> 0, jailEnd |-> 0]] ELSE ent
  /\ UNCHANGED <<ep, now, comp, serv, act, npay>>

\* the first provider may start with a jail record (so that escalation is within reach of short behaviours)
InitJails == IF MaxOps = 0 THEN {<<0, 0>>, <<1, T0 + SOFT>>, <<2, T0 + SOFT>>, <<2, T0 - HARD>>} ELSE {<<0, 0>>}
Init == /\ ep = Ep0 /\ now = T0
        /\ \E j \in InitJails :
             ent = [p \in Provs |-> IF p = ProvSeq[1] THEN [applied |-> A0, jails |-> j[1], jailEnd |-> j[2]]
                                    ELSE [applied |-> A0, jails |-> 0, jailEnd |-> 0]]
        /\ comp = [p \in Provs |-> <<>>] /\ serv = [p \in Provs |-> <<>>]
        /\ act = [i \in {Ep0} |-> Provs] /\ pun = {} /\ npay = 0 /\ nops = 0
        /\ last = Rec("reset", "", 0, 0, {}, 0, TRUE) /\ hist = <<>>

PayEpochs == {e \in DOMAIN act : e <= ep /\ e >= ep - REC - 1}
Env == \/ \E dt \in DTs : NextEpoch(dt)
       \/ \E q \in Provs, e \in PayEpochs, cu \in CUs : \E r \in {ProvSeq[1], ProvSeq[2]} \ {q} : Pay(q, e, cu, {r})
       \/ \E q \in Provs, e \in PayEpochs, cu \in CUs : Pay(q, e, cu, {})
       \/ \E p \in Provs : Unfreeze(p)
Next == Env /\ nops' = nops
Spec == Init /\ [][Next]_vars

-----------------------------------------------------------------------------
\* generator
GenPay == \E q \in {RandomElement(Provs \cup {ProvSeq[2]})} : \E e \in {RandomElement(PayEpochs)} : \E cu \in {RandomElement(CUs)} :
          \E n \in {RandomElement({0, 1, 1, 1, 2})} :
          \E r1 \in {IF q # ProvSeq[1] /\ RandomElement(1..3) > 1 THEN ProvSeq[1] ELSE RandomElement(Provs \ {q})} :
          \E r2 \in {RandomElement(Provs \ {q})} :
            Pay(q, e, cu, IF n = 0 THEN {} ELSE IF n = 1 THEN {r1} ELSE {r1, r2})
GenUnfreeze == \E S \in {{p \in Provs : Frozen(ent[p])}} : S # {} /\ \E p \in {RandomElement(S)} : Unfreeze(p)
GenNext == /\ nops < MaxOps /\ nops' = nops + 1
           /\ \E kind \in {RandomElement(1..10)} :
                CASE kind \in 1..5 -> GenPay
                  [] kind = 6 -> (IF ENABLED GenUnfreeze THEN GenUnfreeze ELSE GenPay)
                  [] OTHER -> \E dt \in {RandomElement(DTs)} : NextEpoch(dt)
Emit == nops < MaxOps \/ PrintT(<<"BEH", ToJson([ep0 |-> Ep0, ops |-> hist])>>)

-----------------------------------------------------------------------------
\* C19: action properties of the epoch step (pun' = providers punished by it); evaluated on the model and,
\* through Trace_Unresponsive (Obs), on the states recorded from the chain.
IsEpochStep == last'.a = "epoch"
Cur == ep'
\* (1) jailed only if complaints over the window exceed four times the serviced CU over the window ...
Justified == IsEpochStep => \A p \in pun' : WinComplaints(p, Cur) > THRESHOLD * WinServiced(p, Cur)
\* what the code guarantees instead (used to keep checking the other clauses past the known finding)
JustifiedCode == IsEpochStep => \A p \in pun' :
                   CountedEpochs(p, Cur) # {} /\ WinComplaints(p, Cur) > THRESHOLD * CodeServiced(p, Cur)
\*     ... and the stake history is long enough (a provider jailed before keeps its pre-jail history)
HistoryLong == IsEpochStep => \A p \in pun' :
                 /\ HistOK(Cur) /\ ~Frozen(ent[p])
                 /\ (ent[p].applied <= MinHistBlock(Cur) \/ ent[p].jails > 0)
\* (2) the complaints that justified a punishment are gone afterwards
NoDouble == IsEpochStep => \A p \in pun' : WinC(Cur) \cap DOMAIN comp'[p] = {}
\* (3) escalation: the third jail in a row (previous jail ended less than HARD ago) is a frozen hard jail;
\*     earlier ones are soft jails
Escalation == IsEpochStep => \A p \in pun' :
                LET j == (IF ent[p].jailEnd > now' - HARD THEN ent[p].jails ELSE 0) + 1 IN
                /\ ent'[p].jails = j
                /\ j > SOFTJAILS => (Frozen(ent'[p]) /\ ent'[p].jailEnd = now' + HARD)
                /\ j <= SOFTJAILS => (~Frozen(ent'[p]) /\ ent'[p].jailEnd = now' + SOFT /\ ent'[p].applied > Cur * EB)
\* (4) automatic jailing never leaves fewer non-frozen providers than the smallest plan's max-providers-to-pair
MinProviders == (IsEpochStep /\ pun' # {}) =>
                   /\ Cardinality({p \in Provs : ~Frozen(ent'[p])}) >= MinProv
                   /\ Cardinality({p \in Provs : ~Frozen(ent[p])}) - Cardinality(pun') >= MinProv
\* entries change only by punishment (epoch step) or unfreeze
EntryStep == \A p \in Provs : ent'[p] # ent[p] =>
               \/ IsEpochStep /\ p \in pun'
               \/ last'.a = "unfreeze" /\ last'.p = p /\ last'.ok /\ Frozen(ent[p]) /\ ent[p].jailEnd <= now
PunOnlyAtEpoch == pun' # {} => IsEpochStep

C19core == HistoryLong /\ NoDouble /\ Escalation /\ MinProviders /\ EntryStep /\ PunOnlyAtEpoch
G(X) == last'.a # "reset" => X
P_Justified == [][G(Justified)]_vars
P_JustifiedCode == [][G(JustifiedCode)]_vars
P_Core == [][G(C19core)]_vars

TypeOK == /\ ep >= Ep0 /\ now >= T0
          /\ \A p \in Provs : ent[p].jails >= 0 /\ ent[p].jailEnd >= 0
View == <<ep, now, ent, comp, serv, act, npay>>

PS4 == <<"p1", "p2", "p3", "p4">>
PS3 == <<"p1", "p2", "p3">>
=============================================================================
