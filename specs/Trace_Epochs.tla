----------------------------- MODULE Trace_Epochs -----------------------------
(* Validation of traces recorded from a real chain (harness/t/epochs).

   VERIF_MODE = "obs"  (decides C16): the spec variables are set to the logged projection of every
     row; `obs` is the logged window = what GetEpochStartForBlock / GetNextEpoch / BlocksToSave /
     GetEpochHash answered for every block earliest..h.  The C16 properties are evaluated by TLC on
     these real answers.  A violated property does not stop the run: it prints <<"VIOL", name, line>>
     (checks/C16.py collects them, re-executes the behaviour and reports), so one TLC run judges
     every behaviour of the trace.
   VERIF_MODE = "conf" (drift only): every row must be a step of Epochs.tla (ChangeEB / ChangeETS /
     NextBlock) reproducing the logged fixation lists, LatestParamChange, epoch details and the
     whole window. *)
EXTENDS Epochs, IOUtils
VARIABLES l, obs
Trace == ndJsonDeserialize(IOEnv.VERIF_TRACE)
Conf  == IOEnv.VERIF_MODE = "conf"
tvars == <<vars, l, obs>>

RanSet(W) == {W[i].b : i \in {j \in 1..Len(W) : W[j].ran}}

FromRow(r) ==
  /\ h' = r.h /\ eb' = r.eb /\ ets' = r.ets /\ lpc' = r.lpc
  /\ fixEB' = r.fixEB /\ fixETS' = r.fixETS
  /\ start' = r.start /\ earliest' = r.earliest /\ deleted' = r.deleted
  /\ hashes' = RanSet(r.win) /\ panic' = r.panic
  /\ nchg' = 0 /\ hist' = <<>>

MatchRow(r) ==
  /\ h' = r.h /\ eb' = r.eb /\ ets' = r.ets /\ lpc' = r.lpc
  /\ fixEB' = r.fixEB /\ fixETS' = r.fixETS
  /\ start' = r.start /\ earliest' = r.earliest /\ deleted' = r.deleted
  /\ panic' = r.panic
  /\ (~r.panic => SpecWinOf([fe |-> fixEB', ft |-> fixETS', eb |-> eb', ets |-> ets'], hashes', earliest', h') = r.win)
  /\ (~r.panic => LET P == [fe |-> fixEB', ft |-> fixETS', eb |-> eb', ets |-> ets']
                      c == CurrentNextEpoch(P, start', earliest', h') IN
                  /\ r.curnextpanic = c.err /\ (~c.err => r.curnext = c.v)
                  /\ r.isstart = IsEpochStart(P, h') /\ r.escur = EpochStartOf(P, h').v
                  /\ r.preverr = PrevEpochStart(P, h').err /\ (~r.preverr => r.prev = PrevEpochStart(P, h').v))

StepOf(r) == \/ r.ev = "eb"  /\ r.ok /\ ChangeEB(r.v)
             \/ r.ev = "ets" /\ r.ok /\ ChangeETS(r.v)
             \/ r.ev = "block" /\ NextBlock

TInit == /\ l = 1 /\ Trace[1].ev = "reset"
         /\ LET r == Trace[1] IN
            /\ h = r.h /\ eb = r.eb /\ ets = r.ets /\ lpc = r.lpc
            /\ fixEB = r.fixEB /\ fixETS = r.fixETS
            /\ start = r.start /\ earliest = r.earliest /\ deleted = r.deleted
            /\ hashes = RanSet(r.win) /\ panic = r.panic
            /\ nchg = 0 /\ hist = <<>> /\ obs = r.win

TNext == /\ l < Len(Trace) /\ l' = l + 1
         /\ LET r == Trace[l + 1] IN
            /\ obs' = r.win
            /\ IF r.ev = "reset" \/ ~Conf THEN FromRow(r)
               ELSE StepOf(r) /\ MatchRow(r)
TSpec == TInit /\ [][TNext]_tvars

Viol(name, line) == PrintT(<<"VIOL", name, line>>)
IsReset(line) == Trace[line].ev = "reset"
Good == ~panic

\* ---- C16 on the real answers (Obs mode) ----
WindowShape == Good => (Len(obs) = h - earliest + 1 /\ \A i \in 1..Len(obs) : obs[i].b = earliest + i - 1)
ObsShape     == Conf \/ WindowShape \/ Viol("WindowShape", l)
ObsTotal     == Conf \/ (Good => TotalW(obs)) \/ Viol("Total", l)
ObsStartsRan == Conf \/ (Good => (StartsRanW(obs) /\ start \in RanSet(obs) /\ (Trace[l].rannow <=> start = h)
                                   /\ \A b \in RanSet(obs) : b <= start))
                     \/ Viol("StartsRan", l)
ObsNextLater == Conf \/ (Good => NextLaterW(obs)) \/ Viol("NextLater", l)
ObsGrid      == Conf \/ (Good => GridW(obs)) \/ Viol("Grid", l)
ObsNoPanic   == Conf \/ Good \/ Viol("NoPanic", l)
\* ---- queries about the current block (row = Trace[l]) ----
Row == Trace[l]
ObsNotGenesis == earliest # start
\* GetCurrentNextEpoch: does not panic, strictly later than the height, equal to GetNextEpoch(height)
\* and to the window's answer for the current block
ObsCurNext == Conf \/ ((Good /\ ObsNotGenesis) => (~Row.curnextpanic /\ Row.curnext > h /\ ~Row.nextcurerr
                                                       /\ Row.curnext = Row.nextcur /\ Row.nextcur = obs[Len(obs)].nx))
                   \/ Viol("CurNext", l)
\* IsEpochStart / GetEpochStart / GetEpochStartForBlock(height) / GetPreviousEpochStartForBlock(height)
ObsCurStart == Conf \/ (Good => (/\ (Row.isstart <=> start = h) /\ (Row.isstart <=> Row.rannow)
                                 /\ Row.escur = start /\ Row.escur = obs[Len(obs)].es
                                 /\ (start - 1 >= earliest => (~Row.preverr /\ Row.prev < start
                                        /\ Row.prev = obs[At(obs, start - 1)].es /\ Row.prev \in RanSet(obs)))))
                    \/ Viol("CurStart", l)
\* retrospectively: epoch-start processing ran in the new block iff that block was the next epoch
\* announced (GetCurrentNextEpoch) one block earlier
ObsAnnounced == [][Conf \/ IsReset(l') \/ panic' \/ h' # h + 1 \/ ~ObsNotGenesis \/ Trace[l].curnextpanic
                    \/ (Trace[l'].rannow <=> Trace[l].curnext = h') \/ Viol("Announced", l')]_tvars
ObsMono   == [][Conf \/ IsReset(l') \/ earliest' >= earliest \/ Viol("Mono", l')]_tvars
ObsStable == [][Conf \/ IsReset(l') \/ panic' \/ StableWW(obs, obs') \/ Viol("Stable", l')]_tvars
ObsDelOk  == [][Conf \/ IsReset(l') \/ panic' \/ deleted' = deleted \/ DelOkWW(obs, ToSet(deleted'), h') \/ Viol("DelOk", l')]_tvars
\* a dropped epoch was in the previous window (so that DelOk is never vacuous) and is gone afterwards
ObsDelSeen == [][Conf \/ IsReset(l') \/ panic' \/ deleted' = deleted
                  \/ (ToSet(deleted') \subseteq Blocks(obs) /\ ToSet(deleted') \cap Blocks(obs') = {}
                      /\ \A e \in ToSet(deleted') : e < earliest')
                  \/ Viol("DelSeen", l')]_tvars

Post == LET d == TLCGet("stats").diameter IN PrintT(<<"HWM", d>>) /\ d = Len(Trace)
=============================================================================
