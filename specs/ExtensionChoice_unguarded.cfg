CONSTANTS
  Nums = {5, 950}
  Latests = {0, 100, 1000}
  Rules = {127}
  Methods = {"eth_call", "eth_getBalance"}
  Guard = FALSE
INIT EInit
NEXT ENext
INVARIANTS ProviderHonours
CHECK_DEADLOCK FALSE
