CONSTANTS
  Scenarios <- ScnAll
  FixWait = TRUE
  GenHist = TRUE
INIT Init
NEXT Next
INVARIANTS Emit
CHECK_DEADLOCK FALSE
