CONSTANTS
  RelIds = {1, 2, 3, 4, 5, 6, 7, 8, 9, 10, 11, 12, 13, 14, 15, 16, 17}
INIT TInit
NEXT TNext
INVARIANTS ObsProtocol ObsExclusive ObsRelayNum ObsSigned ObsUsedBracket ObsBound ObsAccounting ObsBlockedRule
POSTCONDITION Post
CHECK_DEADLOCK FALSE
