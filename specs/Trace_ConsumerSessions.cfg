CONSTANTS
  RelIds = {1, 2, 3, 4, 5, 6}
INIT TInit
NEXT TNext
INVARIANTS ObsProtocol ObsExclusive ObsRelayNum ObsSigned ObsUsedBracket ObsBound ObsAccounting ObsBlockedRule
POSTCONDITION Post
CHECK_DEADLOCK FALSE
