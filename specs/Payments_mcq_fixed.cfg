CONSTANTS
  Creators = {"p1", "p3"}
  Signers = {"c1", "k1"}
  CUs = {60, 150}
  Sessions = {1}
  Muts = {"none", "prov", "specdis", "specother", "lava", "future", "nonstart", "expired", "sig", "unknown", "disproj", "qzero", "badge", "badgesmall", "badgechain", "badgeissuer"}
  Muts2 = {"none", "lava", "badge"}
  MaxRelays = 2
  EpochsToSave = 1
  MaxEpoch = 2
  MaxOps = 2
  GenHist = FALSE
  F2Fixed = TRUE
  CuGuard = FALSE
  Profile = ""
INIT Init
NEXT Next
VIEW View
INVARIANTS TypeOK C03_AtMostOnce C18_UsedLeAlloc
PROPERTIES C03_StepProp C05_StepProp C18_StepProp
CHECK_DEADLOCK FALSE
