------------------------------- MODULE Rewards -------------------------------
(* x/rewards (lava): reward pools, monthly refill, block rewards, provider bonus, participation of
   provider rewards to validators / community, IPRPC funds.

   One operator per code path, written as a pure function on the state record S (so that the
   monthly callback, which chains several of them, and the trace spec, which applies them with
   logged parameters, use the same definitions):

     Contribute        ContributeToValidatorsAndCommunityPool      providers.go
     IsEndOfMonth      isEndOfMonth (code rule / intended rule)    providers.go
     AggCU             AggregateCU                                 providers.go
     AggRewards        AggregateRewards                            providers.go
     Bonus             DistributeMonthlyBonusRewards (bonus part)  providers.go
     IprpcDist         PopIprpcReward + distributeIprpcRewards + handleNoIprpcRewardToProviders   iprpc.go
     Refill            RefillRewardsPools / refillDistributionPool rewards.go
     BlockRewardAmt    DistributeBlockReward                       rewards.go
     Fund              FundIprpc / addSpecFunds                    iprpc.go
     SetData           SetIprpcData                                iprpc_data.go

   Pools (module accounts):  va/vd/vl validators allocation / distribution / leftover,
   pa/pd providers allocation / distribution, ip iprpc pool, cp community pool (distribution module),
   fc fee collector, ds dualstaking (claimable provider+delegator rewards), sb subscription module.

   Environment (not part of x/rewards, abstracted): subscriptions pay out arbitrary small amounts per
   (provider, spec) at arbitrary blocks (Payout), relays report CU (Relay), providers unstake.

   Ghost: gh.funded / paid / taxv / taxc / left = cumulative IPRPC money funded / paid to providers /
   taxed to validators / taxed to community / rounding leftovers to community; gh.burned; gh.ext =
   money that entered the modelled pools from user accounts. *)
EXTENDS Integers, Sequences, FiniteSets, TLC, Json

CONSTANTS Specs, Provs, Subs,
          Day,            \* seconds (abstract units in the exhaustive configs)
          BlockTime,      \* downtime-duration parameter used to convert time to blocks
          Epoch0,         \* absolute unix time of model time 0 (only the code's isEndOfMonth rule sees it)
          FixF3,          \* TRUE: intended rule (remaining < Day); FALSE: rule as written in the code
          BurnNum, BurnDen,   \* LeftoverBurnRate
          MaxBoost,       \* MaxRewardBoost
          MaxId,          \* largest IPRPC reward id tracked
          MaxOps, GenHist,
          Amounts,        \* payout amounts the environment may choose
          CUs,            \* relay CU values
          Funds,          \* IPRPC fund amounts (per month, including the min cost)
          Dts,            \* block time deltas
          Focus,          \* "all" | "pools" | "iprpc": which environment actions the exhaustive run explores
          MonthLen        \* model month length (the real chain uses the calendar; trace mode logs it)

VARIABLES st,       \* the rewards state record (see InitS)
          now, height,
          isubs, minCost,   \* IPRPC eligible subscriptions, min IPRPC cost
          staked,           \* [Specs -> SUBSET Provs]
          nops, hist

vars == <<st, now, height, isubs, minCost, staked, nops, hist>>

Ids == 0..MaxId
Min(a, b) == IF a < b THEN a ELSE b
Max(a, b) == IF a > b THEN a ELSE b

RECURSIVE SumF(_, _)
SumF(f, D) == IF D = {} THEN 0 ELSE LET x == CHOOSE x \in D : TRUE IN f[x] + SumF(f, D \ {x})

ZeroBP == [tot |-> 0, adj5 |-> 0, cu |-> 0]
ZeroGh == [funded |-> 0, paid |-> 0, taxv |-> 0, taxc |-> 0, left |-> 0, burned |-> 0, ext |-> 0,
           abort |-> FALSE, lastBonus |-> 0, lastPd |-> 0]

InitS(alloc, dist, ml, refill) ==
  [pl |-> [va |-> alloc, vd |-> dist, vl |-> 0, pa |-> alloc, pd |-> dist, ip |-> 0, cp |-> 0, fc |-> 0,
           ds |-> 0, sb |-> 0],
   ml |-> ml, refillAt |-> refill,
   bp |-> [s \in Specs |-> [p \in Provs |-> ZeroBP]],
   ipr |-> [i \in Ids |-> [s \in Specs |-> 0]], cur |-> 0,
   rw |-> [p \in Provs |-> 0],
   gh |-> ZeroGh]

-----------------------------------------------------------------------------
\* participation of a provider reward `a` (default params: validators 0.05, community tax 0.02):
\* validators = floor(a * Dec(0.05/0.98)), community = floor(a * (0.07 - Dec(0.05/0.98)));
\* the 18-digit decimal is slightly below 5/98, hence the "-1" (validated against LegacyDec for a < 300000)
TaxV(a) == IF a <= 0 THEN 0 ELSE (5 * a - 1) \div 98
TaxC(a) == (93 * a) \div 4900

\* isEndOfMonth. `timer` = FALSE while the monthly callback runs (the timer has been popped).
IsEndOfMonth(S, t, timer) ==
  IF ~timer THEN TRUE
  ELSE LET remaining == S.refillAt - t IN
       IF FixF3 THEN Day > remaining
       ELSE (Epoch0 + t) + Day > remaining            \* providers.go as written

\* ContributeToValidatorsAndCommunityPool with the two parts already computed
ContributeTo(S, from, v, c, dest) ==
  LET P1 == [S.pl EXCEPT ![from] = @ - v - c]
      P2 == [P1 EXCEPT ![dest] = @ + v]
  IN [S EXCEPT !.pl = [P2 EXCEPT !.cp = @ + c]]
DestPool(S, t, timer) == IF IsEndOfMonth(S, t, timer) THEN "vl" ELSE "vd"
Contribute(S, from, v, c, t, timer) == ContributeTo(S, from, v, c, IF v = 0 THEN "vd" ELSE DestPool(S, t, timer))

RewardProvider(S, from, p, a) ==
  [S EXCEPT !.pl = [[S.pl EXCEPT ![from] = @ - a] EXCEPT !.ds = @ + a], !.rw[p] = @ + a]

AggCU(S, c, p, s, cu) == IF c \in isubs THEN [S EXCEPT !.bp[s][p].cu = @ + cu] ELSE S
\* adjustment k/5, 1 <= k <= 5  (min(adjustment*rewards, rewards))
AggRewards(S, p, s, k, a) == [S EXCEPT !.bp[s][p].tot = @ + a, !.bp[s][p].adj5 = @ + k * a]

\* one (provider, spec) slice of RewardAndResetCuTracker
PayoutS(S, p, s, k, a, t) ==
  LET S1 == AggRewards(S, p, s, k, a)
      v == TaxV(a)  c == TaxC(a)
      S2 == Contribute(S1, "sb", v, c, t, TRUE)
  IN RewardProvider(S2, "sb", p, a - v - c)

-----------------------------------------------------------------------------
\* DistributeBlockReward: floor(vd * factor / blocks), factor = 1 (bonded ratio below the target),
\* blocks = max(2, ceil(1.05 * timeToExpiry / blockTime))
BlocksTo(ttn) == Max(2, (105 * ttn + 100 * BlockTime - 1) \div (100 * BlockTime))
BlockRewardAmt(S, t) == S.pl.vd \div BlocksTo(S.refillAt - t)
BlockReward(S, t) == LET r == BlockRewardAmt(S, t) IN
  [S EXCEPT !.pl = [[S.pl EXCEPT !.vd = @ - r] EXCEPT !.fc = @ + r]]

-----------------------------------------------------------------------------
\* Bonus part of DistributeMonthlyBonusRewards.  Emission = 1/|Specs| (equal stake and shares).
\* specTotalPayout = min(E, boost*tb, max(0, 1.5E - 0.5tb)),  E = pd0/|Specs|; computed times K = 2|Specs|.
K == 2 * Cardinality(Specs)
Entries(S, s) == {p \in staked[s] : S.bp[s][p].tot > 0 \/ S.bp[s][p].cu > 0}
TotBase(S, s) == SumF([p \in Provs |-> S.bp[s][p].tot], Entries(S, s))
PayoutK(pd0, tb) == Min(Min(2 * pd0, K * MaxBoost * tb), Max(0, 3 * pd0 - Cardinality(Specs) * tb))
BonusOf(S, pd0, s, p) ==
  LET tb == TotBase(S, s) IN
  IF tb = 0 THEN 0 ELSE (PayoutK(pd0, tb) * S.bp[s][p].adj5) \div (5 * K * tb)

RECURSIVE BonusLoop(_, _, _, _)
\* todo: sequence of <<s, p>> in iteration order; the guard aborts the whole callback
BonusLoop(S, pd0, todo, acc) ==
  IF todo = <<>> THEN [S EXCEPT !.gh.lastBonus = acc, !.gh.lastPd = pd0]
  ELSE LET s == todo[1][1]  p == todo[1][2]
           b == BonusOf(S, pd0, s, p)
       IN IF acc + b > pd0 THEN [S EXCEPT !.gh.abort = TRUE]
          ELSE BonusLoop(RewardProvider(S, "pd", p, b), pd0, Tail(todo), acc + b)

SetToSeq(D) == LET RECURSIVE F(_) F(X) == IF X = {} THEN <<>> ELSE LET x == CHOOSE x \in X : TRUE IN <<x>> \o F(X \ {x}) IN F(D)
BonusTodo(S) == SetToSeq({<<s, p>> : s \in Specs, p \in Provs} \cap {<<s, p>> \in Specs \X Provs : p \in Entries(S, s)})
Bonus(S) == BonusLoop(S, S.pl.pd, BonusTodo(S), 0)

-----------------------------------------------------------------------------
\* IPRPC distribution of the current month's reward record.
\* served[s]: providers with a staked base-pay entry and IPRPC CU > 0;  tax[s] = <<validators, community>>
Served(S, s) == {p \in Entries(S, s) : S.bp[s][p].cu > 0}
TotCu(S, s) == SumF([p \in Provs |-> S.bp[s][p].cu], Served(S, s))
Share(S, s, p, F) == IF p \in Served(S, s) THEN (F * S.bp[s][p].cu) \div TotCu(S, s) ELSE 0

IprpcSpec(S, R, s, tv, tc) ==
  \* S.cur is already the *next* id (PopIprpcReward incremented it)
  IF Served(S, s) = {} THEN
       IF S.cur \in Ids THEN [S EXCEPT !.ipr[S.cur][s] = @ + R[s]] ELSE S
  ELSE LET S1 == Contribute(S, "ip", tv, tc, 0, FALSE)
           F == R[s] - tv - tc
           sh == [p \in Provs |-> Share(S, s, p, F)]
           used == SumF(sh, Provs)
           P == [[S1.pl EXCEPT !.ip = @ - F] EXCEPT !.ds = @ + used]
       IN [S1 EXCEPT !.pl = [P EXCEPT !.cp = @ + (F - used)],
                     !.rw = [p \in Provs |-> S1.rw[p] + sh[p]],
                     !.gh.paid = @ + used, !.gh.taxv = @ + tv, !.gh.taxc = @ + tc, !.gh.left = @ + (F - used)]

RECURSIVE IprpcLoop(_, _, _, _)
IprpcLoop(S, R, todo, tax) ==
  IF todo = {} THEN S
  ELSE LET s == CHOOSE s \in todo : TRUE IN
       IprpcLoop(IprpcSpec(S, R, s, tax[s][1], tax[s][2]), R, todo \ {s}, tax)

IprpcDist(S, tax) ==
  LET R == IF S.cur \in Ids THEN S.ipr[S.cur] ELSE [s \in Specs |-> 0]
      S1 == IF S.cur \in Ids THEN [S EXCEPT !.cur = @ + 1, !.ipr[S.cur] = [s \in Specs |-> 0]]
            ELSE [S EXCEPT !.cur = @ + 1]
  IN IprpcLoop(S1, R, Specs, tax)

ModelTax(S) == [s \in Specs |-> IF Served(S, s) = {} \/ S.cur \notin Ids THEN <<0, 0>>
                                ELSE <<TaxV(S.ipr[S.cur][s]), TaxC(S.ipr[S.cur][s])>>]

ClearBP(S) == [S EXCEPT !.bp = [s \in Specs |-> [p \in Provs |-> ZeroBP]]]

-----------------------------------------------------------------------------
\* RefillRewardsPools
Refill(S, next) ==
  LET burnV == (BurnNum * S.pl.vd) \div BurnDen
      burnP == S.pl.pd
      qV == IF S.ml # 0 /\ S.pl.va # 0 THEN S.pl.va \div S.ml ELSE 0
      qP == IF S.ml # 0 /\ S.pl.pa # 0 THEN S.pl.pa \div S.ml ELSE 0
      P == [S.pl EXCEPT !.vd = @ - burnV + qV + S.pl.vl, !.va = @ - qV, !.vl = 0,
                        !.pd = @ - burnP + qP, !.pa = @ - qP]
  IN [S EXCEPT !.pl = P, !.ml = IF @ > 1 THEN @ - 1 ELSE @, !.refillAt = next,
               !.gh.burned = @ + burnV + burnP]

\* the refill timer callback: bonus, IPRPC, refill.  The bonus guard returns before the IPRPC part.
MonthEnd(S, next, tax) ==
  LET S1 == Bonus(S) IN
  IF S1.gh.abort THEN Refill(ClearBP(S1), next)
  ELSE Refill(ClearBP(IprpcDist(S1, tax)), next)

-----------------------------------------------------------------------------
\* FundIprpc (msg server): `amt` per month including min cost, for `dur` months from the next id
FundOK(amt, dur) == amt >= minCost /\ dur >= 1
Fund(S, s, dur, amt) ==
  LET f == amt - minCost
      P == [[S.pl EXCEPT !.va = @ + minCost * dur] EXCEPT !.ip = @ + f * dur]
  IN [S EXCEPT !.pl = P,
               !.ipr = [i \in Ids |-> IF i > S.cur /\ i <= S.cur + dur THEN [S.ipr[i] EXCEPT ![s] = @ + f] ELSE S.ipr[i]],
               !.gh.funded = @ + f * dur, !.gh.ext = @ + amt * dur]

-----------------------------------------------------------------------------
Record(r) == hist' = IF GenHist THEN Append(hist, r) ELSE hist

SetData(cost, subs) ==
  /\ minCost' = cost /\ isubs' = isubs \cup subs
  /\ Record([a |-> "setdata", cost |-> cost, subs |-> subs])
  /\ UNCHANGED <<st, now, height, staked>>

FundIprpc(c, s, dur, amt) ==
  /\ FundOK(amt, dur) /\ st.cur + dur <= MaxId
  /\ st' = Fund(st, s, dur, amt)
  /\ Record([a |-> "fund", c |-> c, s |-> s, dur |-> dur, amt |-> amt])
  /\ UNCHANGED <<now, height, isubs, minCost, staked>>

Relay(c, p, s, cu) ==
  /\ p \in staked[s]
  /\ st' = AggCU(st, c, p, s, cu)
  /\ Record([a |-> "relay", c |-> c, p |-> p, s |-> s, cu |-> cu])
  /\ UNCHANGED <<now, height, isubs, minCost, staked>>

SubBuy(c, price) ==
  /\ st' = [st EXCEPT !.pl.sb = @ + price, !.gh.ext = @ + price]
  /\ Record([a |-> "buy", c |-> c, price |-> price])
  /\ UNCHANGED <<now, height, isubs, minCost, staked>>

\* environment: a subscription's monthly payout slice (end-block of the current block)
Payout(p, s, k, a) ==
  /\ a <= st.pl.sb
  /\ st' = PayoutS(st, p, s, k, a, now)
  /\ Record([a |-> "payout", p |-> p, s |-> s, k |-> k, amt |-> a])
  /\ UNCHANGED <<now, height, isubs, minCost, staked>>

Unstake(p, s) ==
  /\ p \in staked[s]
  /\ staked' = [staked EXCEPT ![s] = @ \ {p}]
  /\ Record([a |-> "unstake", p |-> p, s |-> s])
  /\ UNCHANGED <<st, now, height, isubs, minCost>>

\* end-block of the current block (refill timer by block time), then begin-block of the next one
Advance(dt) ==
  LET S1 == IF now >= st.refillAt THEN MonthEnd(st, now + MonthLen, ModelTax(st)) ELSE st
      t1 == now + dt
  IN /\ st' = BlockReward(S1, t1)
     /\ now' = t1 /\ height' = height + 1
     /\ Record([a |-> "adv", dt |-> dt])
     /\ UNCHANGED <<isubs, minCost, staked>>

Init == /\ st = InitS(120, 40, 3, MonthLen)
        /\ now = 0 /\ height = 1 /\ isubs = {} /\ minCost = 1
        /\ staked = [s \in Specs |-> Provs]
        /\ nops = 0 /\ hist = <<>>

EnvIprpc == \/ \E c \in Subs : SetData(1, {c})
            \/ \E c \in Subs, s \in Specs, dur \in 1..2, amt \in Funds : FundIprpc(c, s, dur, amt)
            \/ \E c \in Subs, p \in Provs, s \in Specs, cu \in CUs : Relay(c, p, s, cu)
            \/ \E p \in Provs, s \in Specs : Unstake(p, s)
EnvPools == \/ \E c \in Subs, a \in Amounts : SubBuy(c, a)
            \/ \E p \in Provs, s \in Specs, k \in {1, 5}, a \in Amounts : Payout(p, s, k, a)
Env == \/ (Focus \in {"all", "iprpc"} /\ EnvIprpc)
       \/ (Focus \in {"all", "pools"} /\ EnvPools)
       \/ \E dt \in Dts : Advance(dt)

Next == nops < MaxOps /\ nops' = nops + 1 /\ Env
Spec == Init /\ [][Next]_vars

-----------------------------------------------------------------------------
\* Properties
PoolNames == {"va", "vd", "vl", "pa", "pd", "ip", "cp", "fc", "ds", "sb"}
PoolsNonNeg == \A n \in PoolNames : st.pl[n] >= 0

\* C21: money sits in the leftover pool only during the last Day before the refill
LeftoverOnlyLastDay == st.pl.vl > 0 => st.refillAt - now < Day
\* C21: a block reward never exceeds the validators distribution pool (for any next block time)
BlockRewardWithinPool == \A dt \in Dts : BlockRewardAmt(st, now + dt) <= st.pl.vd /\ BlockRewardAmt(st, now + dt) >= 0
\* C21: bonus paid in a month never exceeds the providers distribution pool (and the guard never fires)
BonusWithinPool == ~st.gh.abort /\ st.gh.lastBonus <= st.gh.lastPd
\* nothing is created: pools + burned = initial + external
Supply == SumF(st.pl, PoolNames) + st.gh.burned = 320 + st.gh.ext
\* C21: the allocation pools are released on schedule: after the refill with monthsLeft = 1 they are empty
AllocSchedule == st.pl.va >= 0 /\ st.pl.pa >= 0 /\ st.ml >= 1

\* C42
Promised == SumF([i \in Ids |-> SumF(st.ipr[i], Specs)], Ids)
IprpcPoolBacksPromises == st.pl.ip = Promised
IprpcConservation == st.gh.funded = st.gh.paid + st.gh.taxv + st.gh.taxc + st.gh.left + Promised
NoPastPromise == \A i \in Ids : i < st.cur => \A s \in Specs : st.ipr[i][s] = 0
OnlyEligibleCu == isubs = {} => \A s \in Specs, p \in Provs : st.bp[s][p].cu = 0

TypeOK == now >= 0 /\ height >= 1 /\ st.cur \in 0..(MaxId + 1)

-----------------------------------------------------------------------------
\* Generator (user-level inputs only; payouts are produced by the real subscription module).
\* One choice per action kind; the driver interprets "rel" against the real refill time.
\* (RandomElement is bound once per draw through \E over a singleton: a LET would re-evaluate it per use)
GSame == UNCHANGED <<st, now, height, isubs, minCost, staked>>
GSetData == \E c \in {RandomElement(Subs)}, cost \in {RandomElement({5, 10})} :
              Record([a |-> "setdata", cost |-> cost, subs |-> <<c>>]) /\ GSame
GFund == \E c \in {RandomElement(Subs)}, s \in {RandomElement(Specs)}, dur \in {RandomElement(1..3)},
            amt \in {RandomElement(Funds)} :
           Record([a |-> "fund", c |-> c, s |-> s, dur |-> dur, amt |-> amt]) /\ GSame
GRelay == \E c \in {RandomElement(Subs)}, p \in {RandomElement(Provs)}, s \in {RandomElement(Specs)},
             cu \in {RandomElement(CUs)} :
            Record([a |-> "relay", c |-> c, p |-> p, s |-> s, cu |-> cu]) /\ GSame
GBuy == \E c \in {RandomElement(Subs)}, m \in {RandomElement(1..3)} :
          Record([a |-> "buy", c |-> c, months |-> m]) /\ GSame
GBlocks == \E n \in {RandomElement({1, 20, 199, 200})} : Record([a |-> "blocks", n |-> n]) /\ GSame
GJump == \E dt \in {RandomElement({3600, 21600, 86400, 259200, 604800})} : Record([a |-> "jump", dt |-> dt]) /\ GSame
GRel == \E off \in {RandomElement({-108000, -90000, -82800, -7200, -5, 10, 20})} : Record([a |-> "rel", off |-> off]) /\ GSame
GUnstake == \E p \in {RandomElement(Provs)}, s \in {RandomElement(Specs)} : Record([a |-> "unstake", p |-> p, s |-> s]) /\ GSame
GenNext == nops < MaxOps /\ nops' = nops + 1 /\
           IF nops = 0 THEN GBuy
           ELSE IF nops = 1 THEN (GSetData \/ GBuy \/ GJump)
           ELSE (GSetData \/ GFund \/ GRelay \/ GRelay \/ GBuy \/ GBlocks \/ GBlocks \/ GJump \/ GRel)
\* IPRPC-heavy generator (C42): subscriptions, IPRPC data and a fund first, then months go by quickly
GRelI == \E off \in {RandomElement({-7200, -5, 10, 20})} : Record([a |-> "rel", off |-> off]) /\ GSame
GenNextI == nops < MaxOps /\ nops' = nops + 1 /\
            IF nops < 2 THEN GBuy
            ELSE IF nops = 2 THEN GSetData
            ELSE IF nops = 3 THEN GFund
            ELSE IF nops \in {22, 38} THEN (GUnstake \/ GRelay \/ GFund)
            ELSE (GSetData \/ GFund \/ GFund \/ GRelay \/ GRelay \/ GRelay \/ GBuy \/ GBlocks \/ GRelI \/ GRelI)
Emit == nops < MaxOps \/ PrintT(<<"BEH", ToJson(hist)>>)

View == <<st, now, height, isubs, minCost, staked, nops>>
=============================================================================
