CONSTANTS
  NP = 5
  Stakes = {}
  GeoSets = {}
  PolGeoSets = {}
  McMixed = {}
  McMoreSel = FALSE
  Kinds = {}
  CostBase = 10000
  Den = 21
  MaxSlots = 5
  GenN = 0
  SubOrder = "sorted"
  UnionMode = "any"
  Mode = "trace"
INIT TInit
NEXT TNext
POSTCONDITION Post
CHECK_DEADLOCK FALSE
INVARIANTS PickConfPlain NoZeroChance
