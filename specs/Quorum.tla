------------------------------ MODULE Quorum ------------------------------
(* protocol/relaycore/relay_processor.go in cross-validation mode: arrival of provider responses
   (handleResponse through WaitForResults / readExistingResponses), the early-exit counter
   (quorumMap / currentQuorumEqualResults, checkEndProcessing) and the selection of the returned
   result (ProcessingResult -> processCrossValidationResult -> responsesCrossValidation).

   Response kinds: "d1","d2","d3" successful replies with that (non-empty) payload, "empty" a successful
   reply with an empty payload, "nodeErr" a reply the chain parser classifies as node error,
   "protoErr" a relay that failed with a protocol error.

   Actions
     Arrive   WaitForResults consumes the next response: handleResponse, responsesCount++,
              checkEndProcessing (all SessionsLatestBatch responses seen, or the early-exit counter
              reached the agreement threshold)
     Drain    readExistingResponses (NodeResults): the responses still queued are consumed without the
              end-of-processing check (environment option `drain`)
     Decide   ProcessingResult

   The code's selection is transcribed as it is written (strict '>' over a Go map iteration, so any
   group of maximal size may win; the empty reply replaces it only if no group reached the threshold);
   the property (C33) is stated separately as invariants over what had been *consumed* at the decision. *)
EXTENDS Integers, Sequences, FiniteSets, TLC, Json

CONSTANTS MaxN, GenHist
Datas == {"d1", "d2", "d3"}
Kinds == Datas \cup {"empty", "nodeErr", "protoErr"}

VARIABLES order,   \* responses not yet consumed, in arrival order
          n0,      \* number of providers queried (= SessionsLatestBatch)
          T,       \* agreement threshold
          drain,   \* the caller drains the queue before asking for the result
          c,       \* consumed: [g : Datas -> Nat, e, ne, pe, cq, cnt]
          phase,   \* "wait" | "done" | "decided"
          early,   \* WaitForResults returned because of the early-exit counter
          res      \* "none" | "error" | "empty" | a data
vars == <<order, n0, T, drain, c, phase, early, res>>

C0 == [g |-> [d \in Datas |-> 0], e |-> 0, ne |-> 0, pe |-> 0, cq |-> 0, cnt |-> 0]
Max(a, b) == IF a > b THEN a ELSE b

\* handleResponse: successes (including empty payloads) are hashed and counted in quorumMap
Handle(x, k) ==
  LET y == [x EXCEPT !.cnt = @ + 1] IN
  CASE k \in Datas   -> [y EXCEPT !.g[k] = @ + 1, !.cq = Max(@, x.g[k] + 1)]
    [] k = "empty"   -> [y EXCEPT !.e = @ + 1, !.cq = Max(@, x.e + 1)]
    [] k = "nodeErr" -> [y EXCEPT !.ne = @ + 1]
    [] OTHER         -> [y EXCEPT !.pe = @ + 1]

Succ(x) == x.e + x.g["d1"] + x.g["d2"] + x.g["d3"]
MaxG(x) == Max(x.g["d1"], Max(x.g["d2"], x.g["d3"]))

\* processCrossValidationResult + responsesCrossValidation: the set of results the code may return
CodeResults(x, t) ==
  IF Succ(x) < t THEN {"error"}                                  \* "insufficient successful responses"
  ELSE LET picks == IF MaxG(x) = 0 THEN {"nopick"} ELSE {d \in Datas : x.g[d] = MaxG(x)}   \* strict > over map order
       IN {IF x.e >= t /\ MaxG(x) < t THEN "empty"                \* nil replies reached quorum
           ELSE IF MaxG(x) < t THEN "error"                       \* threshold not reached
           ELSE p : p \in picks}

\* whole run as operators (used by the generator and by the trace spec)
RECURSIVE RunWait(_, _, _, _)
RunWait(x, ord, n, t) ==        \* returns <<consumed, rest, early>>
  IF ord = <<>> THEN <<x, ord, FALSE>>
  ELSE LET y == Handle(x, Head(ord)) IN
       IF y.cnt >= n THEN <<y, Tail(ord), FALSE>>
       ELSE IF y.cq >= t THEN <<y, Tail(ord), TRUE>>
       ELSE RunWait(y, Tail(ord), n, t)
RECURSIVE RunDrain(_, _)
RunDrain(x, ord) == IF ord = <<>> THEN x ELSE RunDrain(Handle(x, Head(ord)), Tail(ord))
Consumed(ord, t, dr) == LET w == RunWait(C0, ord, Len(ord), t) IN IF dr THEN RunDrain(w[1], w[2]) ELSE w[1]

RECURSIVE SeqsUpTo(_, _)
SeqsUpTo(S, n) == IF n = 0 THEN {<<>>}
                  ELSE LET P == SeqsUpTo(S, n - 1) IN P \cup {Append(p, x) : p \in {q \in P : Len(q) = n - 1}, x \in S}

Init == /\ order \in SeqsUpTo(Kinds, MaxN) \ {<<>>}
        /\ n0 = Len(order) /\ T \in 1..Len(order) /\ drain \in BOOLEAN
        /\ c = C0 /\ phase = "wait" /\ early = FALSE /\ res = "none"

Arrive == /\ phase = "wait" /\ order # <<>>
          /\ c' = Handle(c, Head(order)) /\ order' = Tail(order)
          /\ phase' = IF c'.cnt >= n0 \/ c'.cq >= T THEN "done" ELSE "wait"
          /\ early' = (c'.cnt < n0 /\ c'.cq >= T)
          /\ UNCHANGED <<n0, T, drain, res>>
Drain  == /\ phase = "done" /\ drain /\ order # <<>>
          /\ c' = Handle(c, Head(order)) /\ order' = Tail(order)
          /\ UNCHANGED <<n0, T, drain, phase, early, res>>
Decide == /\ phase = "done" /\ (drain => order = <<>>)
          /\ res' \in CodeResults(c, T) /\ phase' = "decided"
          /\ UNCHANGED <<order, n0, T, drain, c, early>>
Next == Arrive \/ Drain \/ Decide

\* ---- C33, over what had been consumed when the processor decided
CountOf(x, r) == IF r \in Datas THEN x.g[r] ELSE IF r = "empty" THEN x.e ELSE 0
Oracle(x, t, r) ==
  /\ (r \notin {"error"} => CountOf(x, r) >= t)                         \* an agreeing quorum
  /\ (r \in Datas => \A d \in Datas : x.g[d] <= x.g[r])                 \* a largest group
  /\ (r = "empty" => \A d \in Datas : x.g[d] < t)                       \* empty only if no data group qualifies
  /\ (r = "error" => (x.e < t /\ \A d \in Datas : x.g[d] < t))          \* error only if nothing qualifies
QuorumOK      == phase = "decided" => Oracle(c, T, res)
EarlyExitOK   == (phase = "decided" /\ early) => res # "error"          \* the early-exit counter never lies
AllConsumedOK == (phase = "decided" /\ drain) => (order = <<>> /\ c.cnt = n0)
TypeOK        == c.cq <= c.cnt /\ c.cnt <= n0 /\ phase \in {"wait", "done", "decided"}

\* ---- generator: one initial state = one case, printed with the spec's prediction
Emit == PrintT(<<"BEH", ToJson([order |-> order, T |-> T, drain |-> drain])>>)
ENext == FALSE /\ UNCHANGED vars
=============================================================================
