CONSTANTS
  EB = 20
  StaleP = 200
  BT = 1
  MaxOps = 6
  MaxMonths = 3
  GenHist = TRUE
  GenBias = FALSE
  FixRenew = TRUE
  PlanIdx = {"p1"}
  Durs = {1}
  WithRelay = FALSE
  Consumers = {"c1"}
  ThirdParty = {}
  WithDrain = FALSE
  Acts = {"planadd", "buy", "relay"}
  PriceVar = {0}
INIT Init
NEXT Next
INVARIANTS NoTarget3
CHECK_DEADLOCK FALSE
VIEW NoHistView
