CONSTANTS
  Sids = {1, 2}
  RC = 10
  MaxCU = 100
  MaxOps = 14
  GenHist = TRUE
INIT Init
NEXT GenNext
INVARIANTS Emit
CHECK_DEADLOCK FALSE
