CONSTANTS
  MaxR = 60
  MaxCredit = 5
  MaxDel = 3
  Commissions = {0, 1, 50, 99, 100}
  ContribNs = {0, 1, 2}
  ContribPPs = {0, 1, 33333, 50000, 80000}
  EmitSetups = TRUE
INIT Init
NEXT Next
INVARIANTS Emit
CHECK_DEADLOCK FALSE
