-------------------------------- MODULE Cache --------------------------------
(* ecosystem/cache/handlers.go (RelayerCacheServer.SetRelay / GetRelay / getRelayInner /
   findInAllCaches / formatHashKey / formatCacheValue / CacheValue.ToCacheReply / latest-block and
   shared-state seen-block bookkeeping) + protocol/chainlib/chain_fetcher.go HashCacheRequest +
   ecosystem/cache/format (JSON-RPC id normalisation) + protocol/common/compression.go.
   Property C36.

   A request is a record of the fields of pairingtypes.RelayPrivateData (plus the chain id the
   caller hashes with it).  HashCacheRequest blanks Salt, SeenBlock, RequestId, TaskId, TxId and
   RequestBlock, replaces the top-level JSON-RPC "id" of Data (only for the jsonrpc / tendermintrpc
   interfaces: other interfaces use the identity formatter) and hashes proto(CacheHash{request,
   chain}).  The model takes the hash to be injective on what is left: Ident(r).  The cache key is
   hash ++ little-endian(requested block) (formatHashKey): Key(r, blk).

   Two ristretto caches: `fin` (finalized entries, stored WITHOUT block hash) and `temp`
   (non-finalized entries, stored with the caller's block hash, possibly none).  The lookup order
   depends on the `finalized` flag of the Get.  SetRelay refuses negative requested blocks; GetRelay
   resolves a negative requested block (LATEST/SAFE/FINALIZED/PENDING) with the chain's latest block
   record, which lives in `fin` under chain+"_" and expires (softly) after 500 ms; EARLIEST and
   unknown tags stay negative = miss.  A found entry is a hit only if the stored hash is absent or
   equal to the Get's hash and its seen block is not older than min(request seen block [raised by
   the shared-state seen block], requested block).  Payloads longer than the compression threshold
   are stored gzip-compressed (if that makes them smaller) and decompressed on the way out.

   Everything ristretto may do on its own (TTL expiry, eviction, refused admission, dropped Set) is
   the environment action Drop.  Ghost variables: `sets` (every accepted Set), `lats` (every latest
   block value a Set announced per chain), `kids` (key hash class -> identity), `last` (the last
   operation and its result) carry the property. *)
EXTENDS Integers, Sequences, FiniteSets, TLC, Json

CONSTANTS Bases,     \* base requests (different method/params)
          Variants,  \* names of single-field deviations from a base, see Var (requests of Get)
          SetVariants, \* ... requests of Set
          Blks,      \* non-negative requested blocks
          NegTags,   \* k \in NegTags stands for requested block -k (cfg files have no negative numbers)
          Hashes,    \* block hashes, 0 = none (nil)
          Sizes,     \* payload size classes, see Gz
          Lats,      \* reply.LatestBlock values
          Sids,      \* shared state ids, "" = none
          MaxOps, MaxDrops, GenHist

VARIABLES temp, fin,   \* sets of entries [k, pid, size, gz, hash, seen]; at most one per key
          latest,      \* set of [chain, blk, live]: latest block record per chain (absent = NOT_APPLICABLE)
          sseen,       \* set of [chain, sid, blk]: shared-state seen block
          sets, lats, kids, last,
          nops, ndrops, hist

vars == <<temp, fin, latest, sseen, sets, lats, kids, last, nops, ndrops, hist>>

NA == -1
LATEST == -2
EARLIEST == -3
LatestTags == {-2, -4, -5, -6}      \* lavaprotocol.ReplaceRequestedBlock: LATEST, PENDING, SAFE, FINALIZED -> latest
Max2(a, b) == IF a >= b THEN a ELSE b
Min2(a, b) == IF a <= b THEN a ELSE b
Record(r) == hist' = IF GenHist THEN Append(hist, r) ELSE hist

-----------------------------------------------------------------------------
\* requests
JsonIfaces == {"jsonrpc", "tendermintrpc"}

\* core: 1, 2 single JSON-RPC calls, 3 a batch of two; +10 = another method
Base(b) == [chain |-> "cA", iface |-> "jsonrpc", core |-> b, jid |-> 1, url |-> "u1", addon |-> "",
            ext |-> "", meta |-> 0, conn |-> "POST", salt |-> 1, seen |-> 0, rid |-> 0, tid |-> 0, xid |-> 0]

IgnVariants == {"salt", "seen", "rid", "tid", "xid", "jid", "jidstr", "noid", "allign"}
NonIgnVariants == {"core", "chain", "url", "addon", "ext", "meta", "conn", "iface", "rest", "restjid", "jidcore"}
AllVariants == {"base"} \cup IgnVariants \cup NonIgnVariants

Var(b, v) ==
  LET B == Base(b) IN
  CASE v = "base"    -> B
    [] v = "salt"    -> [B EXCEPT !.salt = 2]
    [] v = "seen"    -> [B EXCEPT !.seen = 5]
    [] v = "rid"     -> [B EXCEPT !.rid = 1]
    [] v = "tid"     -> [B EXCEPT !.tid = 1]
    [] v = "xid"     -> [B EXCEPT !.xid = 1]
    [] v = "jid"     -> [B EXCEPT !.jid = 2]          \* numeric id 77
    [] v = "jidstr"  -> [B EXCEPT !.jid = 3]          \* string id
    [] v = "noid"    -> [B EXCEPT !.jid = 0]          \* no id member at all
    [] v = "allign"  -> [B EXCEPT !.salt = 2, !.seen = 5, !.rid = 2, !.tid = 2, !.xid = 2, !.jid = 2]
    [] v = "core"    -> [B EXCEPT !.core = b + 10]
    [] v = "chain"   -> [B EXCEPT !.chain = "cB"]
    [] v = "url"     -> [B EXCEPT !.url = "u2"]
    [] v = "addon"   -> [B EXCEPT !.addon = "ad"]
    [] v = "ext"     -> [B EXCEPT !.ext = "archive"]
    [] v = "meta"    -> [B EXCEPT !.meta = 1]
    [] v = "conn"    -> [B EXCEPT !.conn = "GET"]
    [] v = "iface"   -> [B EXCEPT !.iface = "tendermintrpc"]
    [] v = "rest"    -> [B EXCEPT !.iface = "rest"]
    [] v = "restjid" -> [B EXCEPT !.iface = "rest", !.jid = 2]   \* identity formatter: the id is NOT ignored
    [] v = "jidcore" -> [B EXCEPT !.jid = 2, !.core = b + 10]

\* what HashCacheRequest hashes (abstractly: the hash itself)
Ident(r) == [chain |-> r.chain, iface |-> r.iface, core |-> r.core,
             jid |-> IF r.iface \in JsonIfaces THEN 0 ELSE r.jid,
             url |-> r.url, addon |-> r.addon, ext |-> r.ext, meta |-> r.meta, conn |-> r.conn]
Key(r, blk) == <<Ident(r), blk>>

\* common.CompressData: longer than the threshold and compressible.  Size classes:
\* 1 small, 2 threshold-1, 3 threshold, 4 threshold+1, 5 large, 6 threshold+1 but incompressible
Gz(sz) == sz \in {4, 5}

-----------------------------------------------------------------------------
\* cache primitives
Put(c, e) == {x \in c : x.k # e.k} \cup {e}
Has(c, k) == \E x \in c : x.k = k
At(c, k) == CHOOSE x \in c : x.k = k

LatestRec(ch) == IF \E x \in latest : x.chain = ch THEN CHOOSE x \in latest : x.chain = ch
                 ELSE [chain |-> ch, blk |-> NA, live |-> FALSE]
\* getLatestBlock: NOT_APPLICABLE when absent or expired
LatestLive(ch) == LET x == LatestRec(ch) IN IF x.live THEN x.blk ELSE NA
SSeen(ch, sid) == IF sid # "" /\ \E x \in sseen : x.chain = ch /\ x.sid = sid
                  THEN (CHOOSE x \in sseen : x.chain = ch /\ x.sid = sid).blk ELSE 0

\* lavaprotocol.ReplaceRequestedBlock
Replace(blk, lat) == IF blk \in LatestTags THEN lat ELSE IF blk = EARLIEST THEN NA ELSE blk

\* findInAllCaches
Find(finz, k) ==
  IF finz THEN (IF Has(fin, k) THEN [found |-> TRUE, e |-> At(fin, k)]
                ELSE IF Has(temp, k) THEN [found |-> TRUE, e |-> At(temp, k)] ELSE [found |-> FALSE])
  ELSE (IF Has(temp, k) THEN [found |-> TRUE, e |-> At(temp, k)]
        ELSE IF Has(fin, k) THEN [found |-> TRUE, e |-> At(fin, k)] ELSE [found |-> FALSE])

NoRes == [hit |-> FALSE, pid |-> 0, size |-> 0, rb |-> NA, why |-> "none"]
\* GetRelay
GetResult(r, blk, finz, bh, sid) ==
  LET rb == IF blk < 0 THEN Replace(blk, LatestLive(r.chain)) ELSE blk IN
  IF rb < 0 THEN [NoRes EXCEPT !.rb = rb, !.why = "negative"]
  ELSE LET f == Find(finz, Key(r, rb)) IN
       IF ~f.found THEN [NoRes EXCEPT !.rb = rb, !.why = "notfound"]
       ELSE IF f.e.hash # 0 /\ f.e.hash # bh THEN [NoRes EXCEPT !.rb = rb, !.why = "hashmismatch"]
       ELSE LET gseen == Max2(r.seen, SSeen(r.chain, sid)) IN
            IF f.e.seen < Min2(gseen, rb) THEN [NoRes EXCEPT !.rb = rb, !.why = "seen"]
            ELSE [hit |-> TRUE, pid |-> f.e.pid, size |-> f.e.size, rb |-> rb, why |-> "hit"]   \* ToCacheReply decompresses

NoLast == [ev |-> "none", req |-> Base(1), blk |-> 0, fin |-> FALSE, bh |-> 0, sid |-> "", ok |-> TRUE,
           hit |-> FALSE, pid |-> 0, rsz |-> 0, eq |-> TRUE, rb |-> 0, unch |-> TRUE, panic |-> FALSE,
           pred |-> NoRes]

\* state change of an accepted SetRelay; the payload id is the step number
DoSet(r, blk, finz, bh, sz, rl, sid) ==
  LET pid == nops + 1
      lk == Max2(rl, r.seen)          \* latestKnownBlock = max(reply.LatestBlock, set.SeenBlock)
      e == [k |-> Key(r, blk), pid |-> pid, size |-> sz, gz |-> Gz(sz),
            hash |-> IF finz THEN 0 ELSE bh, seen |-> lk]
      old == LatestRec(r.chain)
  IN /\ IF finz THEN fin' = Put(fin, e) /\ temp' = temp ELSE temp' = Put(temp, e) /\ fin' = fin
     /\ sseen' = IF sid # "" /\ SSeen(r.chain, sid) <= lk
                 THEN {x \in sseen : ~(x.chain = r.chain /\ x.sid = sid)} \cup {[chain |-> r.chain, sid |-> sid, blk |-> lk]}
                 ELSE sseen
     /\ latest' = IF old.blk <= lk      \* rewritten (and its soft expiry refreshed) only if not older
                  THEN {x \in latest : x.chain # r.chain} \cup {[chain |-> r.chain, blk |-> lk, live |-> TRUE]}
                  ELSE latest
     /\ sets' = sets \cup {[pid |-> pid, id |-> Ident(r), blk |-> blk, fin |-> finz, hash |-> bh, size |-> sz]}
     /\ lats' = lats \cup {<<r.chain, lk>>}

Set(r, blk, finz, bh, sz, rl, sid, abt, nerr) ==
  /\ IF blk < 0 THEN UNCHANGED <<temp, fin, latest, sseen, sets, lats>>
     ELSE DoSet(r, blk, finz, bh, sz, rl, sid)
  /\ kids' = kids \cup {<<Ident(r), Ident(r)>>}
  /\ last' = [NoLast EXCEPT !.ev = "set", !.req = r, !.blk = blk, !.fin = finz, !.bh = bh, !.sid = sid,
                            !.ok = (blk >= 0), !.pid = nops + 1]
  /\ Record([a |-> "set", req |-> r, blk |-> blk, fin |-> finz, bh |-> bh, size |-> sz, rl |-> rl,
             sid |-> sid, abt |-> abt, nerr |-> nerr])
  /\ UNCHANGED ndrops

Get(r, blk, finz, bh, sid) ==
  /\ LET g == GetResult(r, blk, finz, bh, sid) IN
       last' = [NoLast EXCEPT !.ev = "get", !.req = r, !.blk = blk, !.fin = finz, !.bh = bh, !.sid = sid,
                              !.hit = g.hit, !.pid = g.pid, !.rsz = g.size, !.rb = g.rb, !.pred = g]
  /\ kids' = kids \cup {<<Ident(r), Ident(r)>>}
  /\ Record([a |-> "get", req |-> r, blk |-> blk, fin |-> finz, bh |-> bh, size |-> 0, rl |-> 0,
             sid |-> sid, abt |-> 0, nerr |-> FALSE])
  /\ UNCHANGED <<temp, fin, latest, sseen, sets, lats, ndrops>>

\* ristretto / time
Drop ==
  /\ ndrops < MaxDrops /\ ndrops' = ndrops + 1
  /\ \/ \E e \in temp : temp' = temp \ {e} /\ UNCHANGED <<fin, latest, sseen>>
     \/ \E e \in fin : fin' = fin \ {e} /\ UNCHANGED <<temp, latest, sseen>>
     \/ \E x \in latest : x.live /\ latest' = (latest \ {x}) \cup {[x EXCEPT !.live = FALSE]}   \* soft expiry
                          /\ UNCHANGED <<temp, fin, sseen>>
     \/ \E x \in latest : latest' = latest \ {x} /\ UNCHANGED <<temp, fin, sseen>>            \* eviction
     \/ \E x \in sseen : sseen' = sseen \ {x} /\ UNCHANGED <<temp, fin, latest>>
  /\ last' = [NoLast EXCEPT !.ev = "drop"]
  /\ UNCHANGED <<sets, lats, kids, hist>>

-----------------------------------------------------------------------------
Init == /\ temp = {} /\ fin = {} /\ latest = {} /\ sseen = {} /\ sets = {} /\ lats = {} /\ kids = {}
        /\ last = NoLast /\ nops = 0 /\ ndrops = 0 /\ hist = <<>>

AllBlks == Blks \cup {0 - k : k \in NegTags}
Ops == \/ \E b \in Bases, v \in SetVariants, blk \in AllBlks, finz \in BOOLEAN, bh \in Hashes, sz \in Sizes,
            rl \in Lats, sid \in Sids : Set(Var(b, v), blk, finz, bh, sz, rl, sid, 1, FALSE)
       \/ \E b \in Bases, v \in Variants, blk \in AllBlks, finz \in BOOLEAN, bh \in Hashes, sid \in Sids :
            Get(Var(b, v), blk, finz, bh, sid)
Next == \/ nops < MaxOps /\ nops' = nops + 1 /\ Ops
        \/ Drop /\ UNCHANGED nops
Spec == Init /\ [][Next]_vars

-----------------------------------------------------------------------------
\* Generator (-simulate).  Every draw is bound by \E over a singleton set (LET-bound RandomElement
\* calls are re-evaluated at each use).
GenNext ==
  /\ nops < MaxOps /\ nops' = nops + 1
  /\ \E kind \in {RandomElement(1..10)}, bb \in {RandomElement(1..8)}, c \in {RandomElement(1..10)},
        vi \in {RandomElement(IgnVariants)}, vn \in {RandomElement(NonIgnVariants)},
        bc \in {RandomElement(1..12)}, finz \in {RandomElement(BOOLEAN)}, hc \in {RandomElement(1..6)},
        sc \in {RandomElement(1..16)}, rl \in {RandomElement(Lats)}, sidc \in {RandomElement(1..4)},
        ac \in {RandomElement(1..6)}, ec \in {RandomElement(1..10)} :
       LET b == IF bb <= 6 THEN 1 ELSE bb - 5
           isSet == nops = 0 \/ kind <= 4
           v == IF isSet THEN (IF c <= 5 THEN "base" ELSE IF c <= 8 THEN vi ELSE vn)
                ELSE (IF c <= 2 THEN "base" ELSE IF c <= 6 THEN vi ELSE vn)
           blk == IF isSet THEN (IF bc <= 8 THEN 5 ELSE IF bc <= 11 THEN 6 ELSE LATEST)
                  ELSE (IF bc <= 6 THEN 5 ELSE IF bc <= 8 THEN 6 ELSE IF bc <= 10 THEN LATEST
                        ELSE IF bc = 11 THEN 0 - 6 ELSE EARLIEST)
           bh == IF hc <= 3 THEN 0 ELSE IF hc <= 5 THEN 1 ELSE 2
           sz == IF sc <= 8 THEN 1 ELSE IF sc = 9 THEN 2 ELSE IF sc = 10 THEN 3 ELSE IF sc <= 13 THEN 4
                 ELSE IF sc = 14 THEN 5 ELSE IF sc = 15 THEN 6 ELSE 4
           sid == IF sidc <= 3 THEN "" ELSE "s1"
           abt == IF ac = 1 THEN 0 ELSE 1
       IN IF isSet THEN Set(Var(b, v), blk, finz, bh, sz, rl, sid, abt, ec = 1)
          ELSE Get(Var(b, v), blk, finz, bh, sid)
Emit == nops < MaxOps \/ PrintT(<<"BEH", ToJson(hist)>>)

-----------------------------------------------------------------------------
\* Properties (C36), all on the last operation + ghosts, so that the same formulas judge the model
\* (exhaustive runs) and the recorded real results (Trace_Cache, Obs mode).
IsHit == last.ev = "get" /\ last.hit

\* a reply is returned only for the same chain and request (modulo the ignored fields) at the same
\* requested block; a block tag resolves to a latest block some Set announced for that chain
HitSound == IsHit =>
  \E s \in sets : /\ s.pid = last.pid
                  /\ s.id = Ident(last.req)
                  /\ IF last.blk >= 0 THEN s.blk = last.blk
                     ELSE last.blk \in LatestTags /\ <<last.req.chain, s.blk>> \in lats
\* ... and it is the stored reply, byte for byte (through compression and back)
BytesOK == IsHit => last.eq /\ \E s \in sets : s.pid = last.pid /\ s.size = last.rsz
\* a non-finalized entry stored with a block hash is served only for that block hash
HashRule == IsHit => \A s \in sets : (s.pid = last.pid /\ ~s.fin /\ s.hash # 0) => last.bh = s.hash
\* key computation leaves the request unchanged; nothing panics
Unchanged == last.unch
NoPanic == ~last.panic
\* two requests get the same key hash only if they are the same request modulo the ignored fields
KeySound == \A x, y \in kids : x[1] = y[1] => x[2] = y[2]

\* model-level sanity (not part of C36): a miss returns nothing, at most one entry per key
TypeOK == /\ (last.ev = "get" /\ ~last.hit => last.pid = 0)
          /\ \A x, y \in temp : x.k = y.k => x = y
          /\ \A x, y \in fin : x.k = y.k => x = y
          /\ \A x \in fin : x.hash = 0
=============================================================================
