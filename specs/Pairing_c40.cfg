CONSTANTS
  NP = 4
  Stakes = {1, 2, 4}
  GeoSets = {{1}, {4}, {1, 4}}
  PolGeoSets = {{1}, {1, 4}}
  McMixed = {}
  McMoreSel = FALSE
  Kinds = {0}
  CostBase = 5
  Den = 1
  MaxSlots = 3
  GenN = 0
  SubOrder = "sorted"
  UnionMode = "any"
  Mode = "mc"
INIT C40Init
NEXT Next
INVARIANTS TypeOK IntervalRule Distinct
CHECK_DEADLOCK FALSE
