----------------------- MODULE ConsumerSessionsProps -----------------------
(* Predicates of property C28 over plain values, shared by the design-level spec (ConsumerSessions.tla, applied
   to the spec variables) and by the trace spec (Trace_ConsumerSessions.tla, applied to values observed on the
   real ConsumerSessionManager).  A session record has at least the fields cu (CuSum), lcu (LatestRelayCu),
   bl (BlockListed), lk (holder, 0 = free). *)
EXTENDS Integers, Sequences, FiniteSets, TLC

Min(a, b) == IF a < b THEN a ELSE b
Max(a, b) == IF a > b THEN a ELSE b

RECURSIVE SumSeq(_, _)
SumSeq(S, i) == IF i = 0 THEN 0 ELSE S[i].cu + S[i].lcu + SumSeq(S, i - 1)
SessSum(S) == SumSeq(S, Len(S))

\* maximumBlockedSessionsAllowed in GetConsumerSessionInstanceFromEndpoint
MaxBlkP(n, maxSess) == Min(maxSess, (maxSess \div 3) * (n + 1))

\* used CU = CU of completed relays + reservations in flight (+ decrements not yet applied)
AccountOKP(u, S, pend) == u = SessSum(S) + pend
\* used CU never exceeds max * (virtual epoch + 1)
BoundOKP(u, vh, maxCu) == u <= maxCu * (vh + 1)
CuFitsP(u, cu, ve, maxCu) == u + cu <= maxCu * (ve + 1)
\* a provider object can certainly hand out a session (whatever the map iteration order)
SessAvailP(S, nres, maxSess) ==
  LET nbl == Cardinality({i \in 1..Len(S) : S[i].bl}) IN
  /\ nbl < MaxBlkP(nres, maxSess)
  /\ \/ \E i \in 1..Len(S) : S[i].lk = 0 /\ ~S[i].bl
     \/ Len(S) <= maxSess
\* what a relay signs: cumulative CU = completed CU of the session + its own CU
SignedOKP(signedCu, completed, relayCu) == signedCu = completed + relayCu
=============================================================================
