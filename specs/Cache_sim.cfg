CONSTANTS
  Bases = {1, 2, 3}
  Variants = {"base"}
  SetVariants = {"base"}
  Blks = {5, 6}
  NegTags = {2}
  Hashes = {0, 1, 2}
  Sizes = {1, 2, 3, 4, 5, 6}
  Lats = {0, 5, 6, 7}
  Sids = {"", "s1"}
  MaxOps = 8
  MaxDrops = 0
  GenHist = TRUE
INIT Init
NEXT GenNext
INVARIANTS Emit
CHECK_DEADLOCK FALSE
