--------------------------- MODULE Trace_SpecExpand ---------------------------
(* Validation of (input, real outcome) lines recorded by harness/cmd/specexpand from the real spec
   keeper.  Each line r = [id, db, res] where res[s] = [err, cols, valid, same, ...] is what
   keeper.ExpandSpec / keeper.ValidateSpec really returned for stored spec s.

   Obs part : the C22 predicates of SpecExpand (Rejects, Complete, NoDup, CUInRange) plus
              determinism are evaluated by TLC on the *real* outcome.
   Conf part: the real outcome must equal the model's Outcome(db) on the observables C22 names
              (success/error class, the expanded collections as bags, acceptance); the exact order
              of collections and APIs is compared too but reported as drift only.
   A failing line does not stop the run: the failed classes are printed as <<"BAD", json>> and the
   check script reproduces one line per class.  Post asserts that every line was judged. *)
EXTENDS SpecExpand, IOUtils
VARIABLE l
Trace == ndJsonDeserialize(IOEnv.VERIF_TRACE)

Canon(cols) == {[cd |-> c.cd, en |-> c.en, k |-> Len(c.apis), apis |-> Range(c.apis)] : c \in Range(cols)}
Proj(o) == [s \in Names |-> [err |-> o[s].err, cols |-> o[s].cols, valid |-> o[s].valid]]

Tag(cond, t) == IF cond THEN {t} ELSE {}
\* (db, o, m are bound by set comprehension in Judge so that TLC evaluates each of them once)
JudgeWith(r, db, o, m) ==
  LET dups == DupApis(db, o)
  IN  Tag(\E s \in Names : r.res[s].panic, "panic")
      \cup Tag(~Rejects(db, o), "accepts-cycle-or-unknown-import")
      \cup Tag(MissingCols(db, o) # {}, "missing-collection")
      \cup Tag(MissingApis(db, o) # {}, "missing-api")
      \cup Tag(DupCols(o) # {}, "dup-collection")
      \cup {"dup-api@" \o d[3] \o "-collection" : d \in dups}
      \cup Tag(~CUInRange(o), "accepted-cu-out-of-range")
      \cup Tag(\E s \in Names : ~r.res[s].same, "nondeterministic")
      \cup Tag(\E s \in Names : o[s].err # m[s].err, "conf:error-class")
      \cup Tag(\E s \in Names : o[s].err = "" /\ m[s].err = "" /\ Canon(o[s].cols) # Canon(m[s].cols), "conf:expanded-spec")
      \cup Tag(\E s \in Names : o[s].err = m[s].err /\ o[s].valid # m[s].valid, "conf:acceptance")
      \cup Tag(\E s \in Names : o[s].err = "" /\ m[s].err = "" /\ Canon(o[s].cols) = Canon(m[s].cols)
                                  /\ o[s].cols # m[s].cols, "drift:order")

Judge(r) == UNION {JudgeWith(r, r.db, o, m) : o \in {Proj(r.res)}, m \in {Outcome(r.db)}}

Check(r) == LET bad == Judge(r) IN
            IF bad = {} THEN TRUE ELSE PrintT(<<"BAD", ToJson([id |-> r.id, classes |-> bad])>>)

\* Lines are independent: one initial state per line (the line itself is the state, because TLC
\* re-reads the file every time `Trace` is evaluated), judged by the action TNext, which the
\* workers share.
TInit == /\ \E T \in {Trace} : inp \in {T[i] : i \in 1..Len(T)}
         /\ out = <<>> /\ l = 0
TNext == l = 0 /\ Check(inp) /\ l' = 1 /\ UNCHANGED <<inp, out>>
Post == LET d == TLCGet("stats").distinct IN PrintT(<<"HWM", d \div 2>>) /\ d = 2 * Len(Trace)
=============================================================================
