CONSTANTS
  AsFound = FALSE
  InPlace = TRUE
  MdLen = 1
INIT Init
NEXT Next
INVARIANTS Stable
CHECK_DEADLOCK FALSE
