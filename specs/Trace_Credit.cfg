CONSTANTS
  MH = 720
  HS = 3600
  Amounts = {}
  Gaps = {}
  TouchX = {}
  MaxOps = 1000000
  GenHist = FALSE
INIT TInit
NEXT TNext
INVARIANTS TypeOK Report
POSTCONDITION Post
CHECK_DEADLOCK FALSE
