------------------------------ MODULE TimerStore ------------------------------
(* x/timerstore/types/timer.go : a store of timers of two kinds (block height "H", block time "T").

   One action per public entry point: Add, Del, Has, Tick.  Tick runs tickValue for "H" and then for
   "T", exactly as TimerStore.Tick does; tickValue is the repeated "take the front timer, delete it,
   run its callback" loop, transcribed as the recursive operator Loop (callbacks may add and delete
   timers while the loop runs, which is why the code re-reads the front every time).

   Callbacks are small programs carried in the timer data, so that "timers added from inside
   callbacks are honoured" is explored:
     "N" nop
     "A" add a timer of the same kind one unit later, key "z", program "N"
     "X" add a timer of the other kind one unit after that kind's current value, key "z", program "N"
     "D" delete the pending timer of the same kind with the largest (expiry,key), if any

   The lazy next-timeout cache (`next`) is modelled as the code maintains it (lowered by add, not
   touched by del, recomputed at the end of a tick loop).

   Ghost: every add gets a fresh uid (the harness carries it inside the opaque data, so it is also
   observable on the real store); `gone` collects uids deleted or overwritten. *)
EXTENDS Integers, Sequences, FiniteSets, TLC, Json

CONSTANTS Keys,      \* keys usable by the environment ("z" is used by callbacks)
          MaxE,      \* largest expiry the environment uses
          MaxOps,    \* operation budget (bounds the exhaustive run)
          GenHist,   \* TRUE: record the action history (generator / trace mode)
          GenKinds   \* timer kinds the generator uses (focus = more collisions)

VARIABLES now,     \* [H |-> height, T |-> time]
          timers,  \* [Kinds -> set of [e, k, d, u]]   at most one per (e,k)
          next,    \* [Kinds -> Nat]  lazy next-timeout cache (INF = none)
          fired,   \* sequence of [kind, e, k, d, u, at, tick]
          uid,     \* next fresh uid
          gone,    \* uids deleted or overwritten
          nticks,  \* number of ticks so far
          nops,
          hist

vars == <<now, timers, next, fired, uid, gone, nticks, nops, hist>>

Kinds == {"H", "T"}
Progs == {"N", "A", "X", "D"}
INF == 999999
Other(kind) == IF kind = "H" THEN "T" ELSE "H"

Rank(k) == CASE k = "a" -> 1 [] k = "b" -> 2 [] k = "c" -> 3 [] OTHER -> 9
Lt(a, b) == a.e < b.e \/ (a.e = b.e /\ Rank(a.k) < Rank(b.k))
Front(T) == CHOOSE t \in T : \A x \in T : x = t \/ Lt(t, x)
Back(T)  == CHOOSE t \in T : \A x \in T : x = t \/ Lt(x, t)
At(T, e, k) == {t \in T : t.e = e /\ t.k = k}

\* state threaded through a tick: S = [timers, next, fired, uid, gone]
AddS(S, kind, e, k, d) ==
  LET old == At(S.timers[kind], e, k) IN
  [S EXCEPT !.timers[kind] = (@ \ old) \cup {[e |-> e, k |-> k, d |-> d, u |-> S.uid]},
            !.next[kind]   = IF e < @ THEN e ELSE @,
            !.uid          = @ + 1,
            !.gone         = @ \cup {t.u : t \in old}]

DelS(S, kind, e, k) ==
  LET old == At(S.timers[kind], e, k) IN
  [S EXCEPT !.timers[kind] = @ \ old, !.gone = @ \cup {t.u : t \in old}]

RunProg(S, kind, t, nw) ==
  CASE t.d = "A" -> AddS(S, kind, nw[kind] + 1, "z", "N")
    [] t.d = "X" -> AddS(S, Other(kind), nw[Other(kind)] + 1, "z", "N")
    [] t.d = "D" -> IF S.timers[kind] = {} THEN S
                    ELSE LET b == Back(S.timers[kind]) IN DelS(S, kind, b.e, b.k)
    [] OTHER -> S

RECURSIVE Loop(_, _, _, _)
Loop(S, kind, nw, tk) ==
  IF S.timers[kind] = {} THEN [S EXCEPT !.next[kind] = INF]
  ELSE LET t == Front(S.timers[kind]) IN
       IF t.e > nw[kind] THEN [S EXCEPT !.next[kind] = t.e]
       ELSE LET S1 == [S EXCEPT !.timers[kind] = @ \ {t},
                                !.fired = Append(@, [kind |-> kind, e |-> t.e, k |-> t.k, d |-> t.d,
                                                     u |-> t.u, at |-> nw[kind], tick |-> tk])]
            IN Loop(RunProg(S1, kind, t, nw), kind, nw, tk)

TickKind(S, kind, nw, tk) == IF nw[kind] < S.next[kind] THEN S ELSE Loop(S, kind, nw, tk)

Cur == [timers |-> timers, next |-> next, fired |-> fired, uid |-> uid, gone |-> gone]
Install(S) == /\ timers' = S.timers /\ next' = S.next /\ fired' = S.fired
              /\ uid' = S.uid /\ gone' = S.gone

Record(r) == hist' = IF GenHist THEN Append(hist, r) ELSE hist

Add(kind, e, k, d) ==
  /\ e > now[kind]
  /\ Install(AddS(Cur, kind, e, k, d))
  /\ Record([a |-> "add", kind |-> kind, e |-> e, k |-> k, d |-> d])
  /\ UNCHANGED <<now, nticks>>

Del(kind, e, k) ==
  /\ At(timers[kind], e, k) # {}                \* deleting a missing timer is documented to panic
  /\ Install(DelS(Cur, kind, e, k))
  /\ Record([a |-> "del", kind |-> kind, e |-> e, k |-> k, d |-> ""])
  /\ UNCHANGED <<now, nticks>>

HasAnswer(kind, e, k) == At(timers[kind], e, k) # {}
Has(kind, e, k) ==
  /\ Record([a |-> "has", kind |-> kind, e |-> e, k |-> k, d |-> ""])
  /\ UNCHANGED <<now, timers, next, fired, uid, gone, nticks>>

Tick(dh, dt) ==
  LET nw == [H |-> now.H + dh, T |-> now.T + dt]
      S1 == TickKind(Cur, "H", nw, nticks + 1)
      S2 == TickKind(S1, "T", nw, nticks + 1)
  IN /\ now' = nw
     /\ nticks' = nticks + 1
     /\ Install(S2)
     /\ Record([a |-> "tick", kind |-> "", e |-> dh, k |-> "", d |-> "", dt |-> dt])

\* Genesis round trip (Export followed by Init into an empty store): every pending timer, its data
\* and both next-timeout values survive; nothing fires.
Reload ==
  /\ Record([a |-> "reload", kind |-> "", e |-> 0, k |-> "", d |-> ""])
  /\ UNCHANGED <<now, timers, next, fired, uid, gone, nticks>>

\* GetFrontTimers(kind): the timers with expiry <= next[kind], in (expiry,key) order (a query).
FrontAnswer(kind) == {t \in timers[kind] : t.e <= next[kind]}

Init == /\ now = [H |-> 1, T |-> 1]
        /\ timers = [kind \in Kinds |-> {}]
        /\ next = [kind \in Kinds |-> INF]
        /\ fired = <<>> /\ uid = 1 /\ gone = {} /\ nticks = 0 /\ nops = 0 /\ hist = <<>>

Env == \/ \E kind \in Kinds, e \in 2..MaxE, k \in Keys, d \in Progs : Add(kind, e, k, d)
       \/ \E kind \in Kinds, e \in 2..MaxE, k \in Keys \cup {"z"} : Del(kind, e, k)
       \/ \E dh \in {1, 2}, dt \in {0, 1, 2} : Tick(dh, dt)
       \/ Reload

Next == nops < MaxOps /\ nops' = nops + 1 /\ Env
Spec == Init /\ [][Next]_vars

-----------------------------------------------------------------------------
\* Generator: one choice per action *kind* so that -simulate does not starve Tick/Del.
\* expiries are drawn relative to the current value (few distinct ones => collisions are common)
RandAdd == \E kind \in {RandomElement(GenKinds)}, de \in {RandomElement(1..3)},
              k \in {RandomElement(Keys)}, d \in {RandomElement({"N", "N", "N", "A", "X", "D"})} :
             Add(kind, now[kind] + de, k, d)
Pending == {[kind |-> kind, e |-> t.e, k |-> t.k] : kind \in Kinds, t \in UNION {timers[q] : q \in Kinds}}
RandDel == \E kind \in Kinds : timers[kind] # {} /\
             LET t == RandomElement(timers[kind]) IN Del(kind, t.e, t.k)
RandHas == \E kind \in {RandomElement(GenKinds)}, de \in {RandomElement(0..3)}, k \in {RandomElement(Keys \cup {"z"})} :
             Has(kind, now[kind] + de, k)
RandTick == \E dh \in {RandomElement({1, 1, 2})}, dt \in {RandomElement({0, 1, 1, 2})} : Tick(dh, dt)
\* kinds are weighted by listing: adds and ticks dominate, queries are rare
GenNext == /\ nops < MaxOps /\ nops' = nops + 1
           /\ \E c \in {RandomElement(1..10)} :     \* bound once (a LET would be re-evaluated per use)
                \/ c \in 1..4 /\ RandAdd
                \/ c \in 5..6 /\ RandTick
                \/ c \in 7..8 /\ (RandDel \/ ((\A q \in Kinds : timers[q] = {}) /\ RandTick))
                \/ c = 9 /\ RandHas
                \/ c = 10 /\ Reload
Emit == nops < MaxOps \/ PrintT(<<"BEH", ToJson(hist)>>)

-----------------------------------------------------------------------------
\* Properties (C15).  All are state invariants over observable state + the uid ghost.
AllT == UNION {timers[kind] : kind \in Kinds}
FiredU == {fired[i].u : i \in 1..Len(fired)}
PendingU == {t.u : t \in AllT}

\* a timer whose expiry has been reached by a tick is never left pending ("fires at the first tick")
NoLate == nticks > 0 => \A kind \in Kinds : \A t \in timers[kind] : t.e > now[kind]
\* the lazy cache never hides a pending timer
NextSound == \A kind \in Kinds : \A t \in timers[kind] : next[kind] <= t.e
\* exactly once: every uid ever issued is in exactly one of pending / fired / gone, fired has no repeats
ExactlyOnce == /\ \A i, j \in 1..Len(fired) : fired[i].u = fired[j].u => i = j
               /\ PendingU \cap FiredU = {} /\ PendingU \cap gone = {} /\ FiredU \cap gone = {}
               /\ PendingU \cup FiredU \cup gone = 1..(uid - 1)
\* never early, and when it fires the tick is the first one that reached it (at >= e)
NotEarly == \A i \in 1..Len(fired) : fired[i].e <= fired[i].at
\* (expiry,key) order inside one tick and kind
Ordered == \A i, j \in 1..Len(fired) :
             (i < j /\ fired[i].tick = fired[j].tick /\ fired[i].kind = fired[j].kind) =>
                Lt(fired[i], fired[j])
\* at most one timer per (expiry,key): re-adding overwrites
Unique == \A kind \in Kinds : \A a, b \in timers[kind] : (a.e = b.e /\ a.k = b.k) => a = b

TypeOK == /\ now.H >= 1 /\ now.T >= 1 /\ uid >= 1

View == <<now, timers, next, fired, uid, gone, nticks, nops>>
=============================================================================
