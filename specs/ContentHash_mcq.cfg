CONSTANTS
  Alpha = {"a", "b"}
  W = 1
INIT Init
NEXT Next
INVARIANTS ResplitSound ResplitHasSelf
CHECK_DEADLOCK FALSE
