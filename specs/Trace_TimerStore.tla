--------------------------- MODULE Trace_TimerStore ---------------------------
(* Conf-mode validation of traces recorded from the real x/timerstore (harness/cmd/timerstore).
   Every line carries the action, its arguments and the complete projected state, so validation
   is linear.  Because the property C15 *is* "behaves like this model" on the observables
   (pending timers, fired log, has-answers), rejection of a trace is a violation; the lazy
   next-timeout cache is matched separately (drift only, see checks/C15.py: MATCH_NEXT). *)
EXTENDS TimerStore, IOUtils
VARIABLE l
Trace == ndJsonDeserialize(IOEnv.VERIF_TRACE)
MatchNext == IOEnv.VERIF_MATCH_NEXT = "1"
tvars == <<vars, l>>

ToSet(s) == {s[i] : i \in 1..Len(s)}
Suffix(F, n) == SubSeq(F, Len(F) - n + 1, Len(F))

Match(r) == /\ now' = r.now
            /\ \A kind \in Kinds : timers'[kind] = ToSet(r.timers[kind])
            /\ MatchNext => next' = r.next
            /\ Len(fired') = r.nfired
            /\ Suffix(fired', Len(r.nf)) = r.nf
            /\ uid' = r.uid
            /\ MatchNext => \A kind \in Kinds : ToSet(r.front[kind]) = {[e |-> t.e, k |-> t.k] : t \in FrontAnswer(kind)}' 

TInit == Init /\ l = 1 /\ Trace[1].ev = "reset"
TReset == /\ Trace[l + 1].ev = "reset"
          /\ now' = [H |-> 1, T |-> 1] /\ timers' = [kind \in Kinds |-> {}]
          /\ next' = [kind \in Kinds |-> INF] /\ fired' = <<>> /\ uid' = 1 /\ gone' = {}
          /\ nticks' = 0 /\ nops' = 0 /\ hist' = <<>>
Step(r) == \/ r.ev = "add" /\ ~r.panic /\ Add(r.kind, r.e, r.k, r.d)
           \/ r.ev = "del" /\ ~r.panic /\ Del(r.kind, r.e, r.k)
           \/ r.ev = "has" /\ ~r.panic /\ Has(r.kind, r.e, r.k) /\ r.res = HasAnswer(r.kind, r.e, r.k)
           \/ r.ev = "tick" /\ ~r.panic /\ Tick(r.e, r.dt)
           \/ r.ev = "reload" /\ ~r.panic /\ Reload
TNext == /\ l < Len(Trace) /\ l' = l + 1
         /\ LET r == Trace[l + 1] IN
              \/ TReset
              \/ (r.ev # "reset" /\ nops' = nops + 1 /\ Step(r) /\ Match(r))
TSpec == TInit /\ [][TNext]_tvars

Post == LET d == TLCGet("stats").diameter IN PrintT(<<"HWM", d>>) /\ d = Len(Trace)
=============================================================================
