CONSTANTS
  MaxN = 4
  GenHist = FALSE
INIT Init
NEXT ENext
INVARIANTS Emit
CHECK_DEADLOCK FALSE
