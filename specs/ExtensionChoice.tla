--------------------------- MODULE ExtensionChoice ---------------------------
(* Explicit extension choice (ExtensionInfo.ExtensionOverride) - decision table of
     BaseChainParser.ExtensionParsing          protocol/chainlib/base_chain_parser.go
     baseChainMessageContainer.OverrideExtensions / SetExtension / updateCUForApi   chain_message.go
   on top of ArchiveRule (rule + eth_call clause):
     override = nil        the parser decides by rule (extensionParsingInner)            -> C32
     override = [] / names the rule is NOT consulted; every named extension that is configured for the
                           collection is attached once (duplicates and unknown names are ignored)
     AdditionalExtensions  (the eth_call clause) are attached on top in both cases
     every attached extension multiplies the compute units once.
   This is what the provider does with the consumer's choice (rpcprovider_server.go: LatestBlock 0,
   ExtensionOverride = relay's extensions), i.e. the "provider honours the consumer's extensions" premise of
   C38.  ProviderHonours is the design-level agreement theorem; the table itself is bound to the real
   ParseMsg by Trace_ExtensionChoice (Conf on GetExtensions() and ComputeUnits). *)
EXTENDS ArchiveRule

OverrideKinds == {"nil", "empty", "archive", "bogus", "archive2", "mixed"}
\* the list handed to the parser (rendered verbatim by the check)
OverrideList(o) == CASE o = "nil" -> <<>> [] o = "empty" -> <<>> [] o = "archive" -> <<"archive">>
                     [] o = "bogus" -> <<"bogus">> [] o = "archive2" -> <<"archive", "archive">>
                     [] o = "mixed" -> <<"bogus", "archive">>
Names(o) == {OverrideList(o)[i] : i \in 1..Len(OverrideList(o))}

\* cfgd: the archive extension is configured on the parser (policy / provider services contain "archive")
Attached(o, cfgd, rq, lt, rl, m) ==
  LET chosen == IF o = "nil" THEN (IF cfgd /\ IsPassingRule(RequestedBlockOf(rq, 0)[2], lt, rl) THEN {"archive"} ELSE {})
                ELSE {n \in Names(o) : n = "archive" /\ cfgd}
      added  == IF cfgd /\ EthCallClause(rq, lt, m) THEN {"archive"} ELSE {}
  IN chosen \cup added
BaseCU == 20           \* eth_call and eth_getBalance in the checked-in ETH1 spec
Multiplier == 5        \* cu_multiplier of ETH1's archive extension
AttachedCU(exts) == IF "archive" \in exts THEN BaseCU * Multiplier ELSE BaseCU

VARIABLES o, cfgd
evars == <<vars, o, cfgd>>
EInit == Init /\ o \in OverrideKinds /\ cfgd \in BOOLEAN
ENext == UNCHANGED evars

\* what the consumer sends along: its attached extensions; what the provider is given: that list, latest 0
AsOverride(exts) == IF exts = {} THEN "empty" ELSE "archive"
ProviderHonours ==
  LET c == Attached("nil", cfgd, req, latest, rule, method)
      p == Attached(AsOverride(c), cfgd, req, 0, rule, method)
  IN p = c
\* an explicit choice is never overridden by the rule
ExplicitIgnoresRule == (o # "nil" /\ method # "eth_call") => Attached(o, cfgd, req, latest, rule, method) = (IF cfgd THEN Names(o) \cap {"archive"} ELSE {})
NothingWithoutConfig == ~cfgd => Attached(o, cfgd, req, latest, rule, method) = {}

EEmit == PrintT(<<"BEH", ToJson([req |-> req, latest |-> latest, rule |-> rule, method |-> method, o |-> o,
                                  cfgd |-> cfgd, list |-> OverrideList(o),
                                  exp |-> "archive" \in Attached(o, cfgd, req, latest, rule, method)])>>)
=============================================================================
