CONSTANTS
  NP = 3
  Stakes = {1, 2}
  GeoSets = {{1}, {4}}
  PolGeoSets = {{1, 4}}
  McMixed = {TRUE, FALSE}
  McMoreSel = FALSE
  Kinds = {0, 3}
  CostBase = 3
  Den = 1
  MaxSlots = 2
  GenN = 0
  SubOrder = "sorted"
  UnionMode = "any"
  Mode = "mc"
INIT McInit
NEXT Next
INVARIANTS TypeOK Valid Distinct Bounded Iff
CHECK_DEADLOCK FALSE
