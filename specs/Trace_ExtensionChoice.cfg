CONSTANTS
  Nums = {0}
  Latests = {0}
  Rules = {1}
  Methods = {"eth_call"}
  Guard = TRUE
INIT TInit
NEXT TNext
POSTCONDITION Post
CHECK_DEADLOCK FALSE
