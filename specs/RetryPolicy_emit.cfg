CONSTANTS
  MaxRetriesSet = {3}
  RetryLimitSet = {2}
  MaxAttempt = 4
  MaxNe = 2
  MaxSne = 1
  MaxPe = 1
  MaxCnt = 2
  SendAttemptsSet = {2}
  ThresholdSet = {2}
  MaxSeq = 1
  EmitWhat = "decide"
  Reduced = FALSE
INIT EInit
NEXT ENext
INVARIANTS Emit PropsDecide
CHECK_DEADLOCK FALSE
