\* scaled-down window (6 "hours" of 2 ticks): denser coverage of the same operators, 4 steps
CONSTANTS
  MH = 6
  HS = 2
  Amounts = {0, 1, 2, 5, 9}
  Gaps = {0, 1, 2, 5, 6, 11, 12, 13}
  TouchX = {1}
  MaxOps = 4
  GenHist = FALSE
INIT Init
NEXT Next
INVARIANTS TypeOK NonNeg Settled BoundedOrF20 MonotoneOrKnown
CHECK_DEADLOCK FALSE
