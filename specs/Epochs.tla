------------------------------- MODULE Epochs -------------------------------
(* x/epochstorage: epoch grid under parameter changes.
   Transcription of keeper/params.go (BlockInEpoch, GetEpochStartForBlock, GetNextEpoch,
   GetPreviousEpochStartForBlock, BlocksToSave, IsEpochStart), keeper/fixated_params.go
   (FixateParams, PushFixatedParams, CleanOlderFixatedParams, GetFixatedParamsForBlock),
   keeper/epoch_start.go (EpochStart, UpdateEarliestEpochstart, RemoveOldEpochData, epoch hashes),
   keeper/epoch_details.go and of the parameter-change proposal handler
   (x/spec/proposal_handler.go: one parameter per change, LatestParamChange := height).

   Actions: ChangeEB(v) / ChangeETS(v) (an executed param-change proposal) and NextBlock
   (BeginBlock of height h+1: `if IsEpochStart { EpochStart }`).

   One fixation list per key ("EB" = EpochBlocks, "ETS" = EpochsToSave): sequence of [blk, val],
   index 1 = newest (store keys <key>0, <key>1, ...).

   C16 is stated on the *window* W = what the public queries answer for every block
   earliest..h (operator SpecWin here; the logged answers of the real keeper in Trace_Epochs):
     Total     every block of the window maps (without error) to one epoch start <= itself
     StartsRan the blocks reported as epoch starts are exactly those where EpochStart ran
               (an epoch hash is stored), and the current epoch start is the newest of them
     NextLater the next epoch is strictly later than the block (no error)
     Mono      earliest only moves forward                          (action property)
     Stable    answers for a block never change while it stays in the window (action property)
     DelOk     an epoch is dropped only when older than the blocks-to-save window that was in
               force at that epoch: e + blocksToSave@e < height      (action property)
   and on the queries about the current block: CurNextOk (GetCurrentNextEpoch > height and = the
   next epoch start), Announced (epoch-start processing runs at b iff b was the announced next epoch
   at b-1), CurStartOk (IsEpochStart, GetEpochStart, GetPreviousEpochStartForBlock). *)
EXTENDS Integers, Sequences, FiniteSets, TLC, Json
CONSTANTS EBs, ETSs,     \* values the parameters may take
          MaxHeight, MaxChanges,
          GenHist,
          FixWalk        \* FALSE: code as found; TRUE: fixes/F30 (blocks-to-save re-read per walked epoch)

VARIABLES h,                \* current block height
          eb, ets,          \* raw params
          lpc,              \* LatestParamChange
          fixEB, fixETS,    \* fixation lists
          start, earliest, deleted,   \* EpochDetails
          hashes,           \* blocks that have an epoch hash stored
          panic,            \* TRUE after a Go panic in BeginBlock
          nchg, hist
vars == <<h, eb, ets, lpc, fixEB, fixETS, start, earliest, deleted, hashes, panic, nchg, hist>>

\* GetFixatedParamsForBlock: first list element with blk <= b; otherwise an error together with
\* the *current raw* parameter "fixated" at b itself
Fix(list, raw, b) ==
  LET idx == {i \in 1..Len(list) : list[i].blk <= b} IN
  IF idx = {} THEN [blk |-> b, val |-> raw, err |-> TRUE]
  ELSE LET i == CHOOSE x \in idx : \A y \in idx : x <= y IN [blk |-> list[i].blk, val |-> list[i].val, err |-> FALSE]

\* a parameter environment P = [fe, ft, eb, ets]
BlockInEpoch(P, b)  == LET f == Fix(P.fe, P.eb, b) IN [v |-> IF f.err THEN 0 ELSE (b - f.blk) % f.val, err |-> f.err]
EpochStartOf(P, b)  == LET q == BlockInEpoch(P, b) IN [v |-> b - q.v, err |-> q.err]
EpochBlocksAt(P, b) == LET f == Fix(P.fe, P.eb, b) IN [v |-> f.val, err |-> f.err]
NextEpoch(P, b)     == LET s == EpochStartOf(P, b) n == EpochBlocksAt(P, b) IN [v |-> s.v + n.v, err |-> s.err \/ n.err]
PrevEpochStart(P, b) ==
  LET es == EpochStartOf(P, b) IN
  IF es.v <= 0 THEN [v |-> 0, err |-> TRUE]
  ELSE LET p == EpochStartOf(P, es.v - 1) IN [v |-> p.v, err |-> es.err \/ p.err]
BlocksToSave(P, b) == LET t == Fix(P.ft, P.ets, b) n == Fix(P.fe, P.eb, b) IN [v |-> t.val * n.val, err |-> t.err \/ n.err]
IsEpochStart(P, b) == LET q == BlockInEpoch(P, b) IN ~q.err /\ q.v = 0

\* GetCurrentNextEpoch at height hh with EpochDetails (st, ea): in the genesis epoch (earliest = start)
\* the *raw* EpochBlocks is added to the epoch start, otherwise GetNextEpoch(height) (panic on error)
CurrentNextEpoch(P, st, ea, hh) ==
  IF ea = st THEN [v |-> st + P.eb, err |-> FALSE] ELSE NextEpoch(P, hh)

Env == [fe |-> fixEB, ft |-> fixETS, eb |-> eb, ets |-> ets]
CurNext == CurrentNextEpoch(Env, start, earliest, h)

\* PushFixatedParams for one key
RECURSIVE PushGo(_, _, _, _)
PushGo(acc, toPush, rest, limit) ==
  LET acc2 == Append(acc, toPush) IN
  IF toPush.blk < limit THEN acc2                 \* CleanOlderFixatedParams(idx+1)
  ELSE IF rest = <<>> THEN acc2
  ELSE PushGo(acc2, Head(rest), Tail(rest), limit)
Push(list, cur, block, limit) ==
  IF Len(list) > 0 /\ list[1].val = cur THEN list
  ELSE PushGo(<<>>, [blk |-> block, val |-> cur], list, limit)

Record(r) == hist' = IF GenHist THEN Append(hist, r) ELSE hist

\* executed parameter-change proposal (x/spec HandleParameterChangeProposal)
ChangeEB(v) ==
  /\ ~panic /\ h >= 1
  /\ eb' = v /\ lpc' = h /\ nchg' = nchg + 1
  /\ Record([a |-> "eb", v |-> v])
  /\ UNCHANGED <<h, ets, fixEB, fixETS, start, earliest, deleted, hashes, panic>>
ChangeETS(v) ==
  /\ ~panic /\ h >= 1
  /\ ets' = v /\ lpc' = h /\ nchg' = nchg + 1
  /\ Record([a |-> "ets", v |-> v])
  /\ UNCHANGED <<h, eb, fixEB, fixETS, start, earliest, deleted, hashes, panic>>

\* UpdateEarliestEpochstart: walk from the old earliest epoch.  As found, the number of blocks to
\* save is read once, at the old earliest epoch, and used for every epoch walked over (F30).
RECURSIVE Walk(_, _, _, _, _)
Walk(P, b, e, last, acc) ==
  LET t     == BlocksToSave(P, e)
      lastE == IF FixWalk THEN (IF b <= t.v THEN 0 ELSE b - t.v) ELSE last
  IN
  IF FixWalk /\ t.err THEN [e |-> e, del |-> acc, err |-> TRUE]
  ELSE IF e < lastE
  THEN LET n == NextEpoch(P, e) IN
       IF n.err THEN [e |-> e, del |-> acc, err |-> TRUE] ELSE Walk(P, b, n.v, last, Append(acc, e))
  ELSE [e |-> e, del |-> acc, err |-> FALSE]

ToSet(s) == {s[i] : i \in 1..Len(s)}

NextBlock ==
  /\ ~panic
  /\ LET b == h + 1 IN
     /\ h' = b
     /\ Record([a |-> "block", v |-> 0])
     /\ UNCHANGED <<eb, ets, nchg>>
     /\ IF ~IsEpochStart(Env, b)
        THEN UNCHANGED <<lpc, fixEB, fixETS, start, earliest, deleted, hashes, panic>>
        ELSE
          \* EpochStart: SetEpochHash; FixateParams(b)
          LET tooOld == lpc # 0 /\ lpc <= b /\ lpc < earliest
              prev   == PrevEpochStart(Env, b)
              recent == lpc # 0 /\ lpc <= b /\ ~tooOld /\ ~prev.err /\ lpc >= prev.v
              fe1  == IF tooOld THEN SubSeq(fixEB, 1, 1)
                      ELSE IF recent THEN Push(fixEB, eb, b, earliest) ELSE fixEB
              ft1  == IF tooOld THEN SubSeq(fixETS, 1, 1)
                      ELSE IF recent THEN Push(fixETS, ets, b, earliest) ELSE fixETS
              lpc1 == IF tooOld THEN 0 ELSE lpc
              P1   == [fe |-> fe1, ft |-> ft1, eb |-> eb, ets |-> ets]
              \* SetEpochDetailsStart(b); UpdateEarliestEpochstart
              bts  == BlocksToSave(P1, earliest)
              w    == IF bts.err THEN [e |-> earliest, del |-> <<>>, err |-> TRUE]
                      ELSE IF b <= bts.v THEN [e |-> earliest, del |-> <<>>, err |-> FALSE]
                      ELSE Walk(P1, b, earliest, b - bts.v, <<>>)
              del1 == IF Len(w.del) = 0 THEN deleted ELSE w.del
          IN /\ fixEB' = fe1 /\ fixETS' = ft1 /\ lpc' = lpc1
             /\ start' = b
             /\ panic' = w.err
             /\ earliest' = IF w.err \/ Len(w.del) = 0 THEN earliest ELSE w.e
             /\ deleted' = IF w.err THEN deleted ELSE del1
             \* RemoveOldEpochData removes the hashes of GetDeletedEpochs (the persisted list)
             /\ hashes' = IF w.err THEN hashes \cup {b} ELSE (hashes \cup {b}) \ ToSet(del1)

Init == /\ h = 0 /\ eb \in EBs /\ ets \in ETSs /\ lpc = 0
        /\ fixEB = <<[blk |-> 0, val |-> eb]>> /\ fixETS = <<[blk |-> 0, val |-> ets]>>
        /\ start = 0 /\ earliest = 0 /\ deleted = <<>> /\ hashes = {0} /\ panic = FALSE
        /\ nchg = 0 /\ hist = <<[a |-> "init", v |-> eb * 100 + ets]>>

Next == \/ (h < MaxHeight /\ NextBlock)
        \/ (nchg < MaxChanges /\ \E v \in EBs : v # eb /\ ChangeEB(v))
        \/ (nchg < MaxChanges /\ \E v \in ETSs : v # ets /\ ChangeETS(v))
Spec == Init /\ [][Next]_vars

\* generator: blocks four times as likely as each kind of change
One(S) == {RandomElement(S)}
GenNext == /\ h < MaxHeight
           /\ \E k \in One(1..12) :
                IF k = 1 /\ nchg < MaxChanges /\ h >= 1 THEN \E v \in One(EBs \ {eb}) : ChangeEB(v)
                ELSE IF k = 2 /\ nchg < MaxChanges /\ h >= 1 THEN \E v \in One(ETSs \ {ets}) : ChangeETS(v)
                ELSE NextBlock
Emit == h < MaxHeight \/ PrintT(<<"BEH", ToJson(hist)>>)

-----------------------------------------------------------------------------
\* the window of public answers
WinRec(P, Hs, b) ==
  LET s == EpochStartOf(P, b) n == NextEpoch(P, b) t == BlocksToSave(P, b) IN
  [b |-> b, es |-> s.v, eserr |-> s.err, nx |-> n.v, nxerr |-> n.err,
   bts |-> t.v, btserr |-> t.err, ran |-> b \in Hs]
SpecWinOf(P, Hs, lo, hi) == [i \in 1..(hi - lo + 1) |-> WinRec(P, Hs, lo + i - 1)]
SpecWin == SpecWinOf(Env, hashes, earliest, h)

\* properties over a window W (sequence of WinRec, blocks lo..hi ascending)
TotalW(W)     == \A i \in 1..Len(W) : ~W[i].eserr /\ W[i].es <= W[i].b /\ W[i].es >= 0
StartsRanW(W) == \A i \in 1..Len(W) : (W[i].es = W[i].b) <=> W[i].ran
NextLaterW(W) == \A i \in 1..Len(W) : ~W[i].nxerr /\ W[i].nx > W[i].b
\* consecutive blocks: same epoch or the next block starts a new one exactly at nx
GridW(W)      == \A i \in 1..(Len(W) - 1) :
                    \/ (W[i + 1].es = W[i].es /\ W[i + 1].nx = W[i].nx)
                    \/ (W[i + 1].es = W[i + 1].b /\ W[i].nx = W[i + 1].b)
\* windows are contiguous block ranges (WindowShape in Trace_Epochs checks it for logged ones)
At(W, b)      == b - W[1].b + 1
Blocks(W)     == IF Len(W) = 0 THEN {} ELSE W[1].b..(W[1].b + Len(W) - 1)
StableWW(W, W2) == \A b \in Blocks(W) \cap Blocks(W2) :
                     /\ W[At(W, b)].es = W2[At(W2, b)].es
                     /\ W[At(W, b)].nx = W2[At(W2, b)].nx
                     /\ W[At(W, b)].bts = W2[At(W2, b)].bts
DelOkWW(W, newDel, hNew) == \A e \in newDel : e \in Blocks(W) => (~W[At(W, e)].btserr /\ e + W[At(W, e)].bts < hNew)

\* ---- queries about the current block ----
\* Outside the genesis epoch the announced next epoch (GetCurrentNextEpoch) is strictly later than the
\* height and is exactly where the next epoch starts.  (Quirk Q2, modelled and excluded: in the genesis
\* epoch the code adds the raw, not yet fixated EpochBlocks, so a change proposed during the very first
\* epoch is announced too early / too late.)
NotGenesis == earliest # start
CurNextOk == (~panic /\ NotGenesis) => (~CurNext.err /\ CurNext.v > h /\ CurNext.v = NextEpoch(Env, h).v)
\* retrospectively: epoch-start processing runs at a block iff that block was announced one block earlier
Announced == [][(h' = h + 1 /\ ~panic' /\ NotGenesis) => ((start' = h') <=> (CurNext.v = h'))]_vars
\* IsEpochStart / GetEpochStart / GetPreviousEpochStartForBlock agree with the grid
CurStartOk == ~panic => /\ IsEpochStart(Env, h) <=> (start = h)
                        /\ EpochStartOf(Env, h).v = start
                        /\ LET p == PrevEpochStart(Env, h) IN
                           (~p.err /\ start - 1 >= earliest) => (p.v < start /\ p.v = EpochStartOf(Env, start - 1).v /\ p.v \in hashes)

Total     == ~panic => TotalW(SpecWin)
StartsRan == ~panic => StartsRanW(SpecWin) /\ start \in hashes /\ (h \in hashes => start = h)
NextLater == ~panic => NextLaterW(SpecWin)
Grid      == ~panic => GridW(SpecWin)
NoPanic   == ~panic
EarliestIsStart == ~panic => earliest \in hashes
Mono   == [][earliest' >= earliest]_vars
Stable == [][~panic' => StableWW(SpecWin, SpecWin')]_vars
DelOk  == [][(~panic' /\ deleted' # deleted) => DelOkWW(SpecWin, ToSet(deleted'), h')]_vars

View == <<h, eb, ets, lpc, fixEB, fixETS, start, earliest, deleted, hashes, panic, nchg>>
=============================================================================
