CONSTANTS
  MaxN = 4
  GenHist = FALSE
INIT TInit
NEXT TNext
INVARIANTS ObsQuorum ObsCount ObsEarly ObsDrained ConfCase
POSTCONDITION Post
CHECK_DEADLOCK FALSE
