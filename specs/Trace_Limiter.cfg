CONSTANTS
  Scenarios <- ScnQuick
  FixWait = TRUE
  GenHist = FALSE
INIT TInit
NEXT TNext
INVARIANTS Bounded AtMostOnce OkMeansRan NoForeignResult ErrMeansNotRun Released
POSTCONDITION Post
CHECK_DEADLOCK FALSE
