CONSTANTS
  Alpha = {"a", "b"}
  W = 1
INIT TInit
NEXT TNext
POSTCONDITION Post
CHECK_DEADLOCK FALSE
