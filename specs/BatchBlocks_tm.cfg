CONSTANTS
  NumBlocks = {5, 50, 500}
  CallBlocks = {}
  LogBlocks = {}
  Extra = TRUE
  MaxLen = 3
  Latests = {0, 627}
  Rule = 127
  Seed = TRUE
  Guard = TRUE
  Tendermint = TRUE
  ZeroOk = TRUE
  EarliestLow = TRUE
INIT Init
NEXT Next
INVARIANTS OrderIndependent CoversNoNA ArchiveMonotoneNoNA ArchiveOnlyFromMembers CUIsSum
CHECK_DEADLOCK FALSE
