-------------------------- MODULE Trace_Subscription --------------------------
(* Validation of traces recorded from the real chain by harness/t/subs.

   Obs mode (decides C11, C12, C13): every variable of Subscription.tla is set to the projection logged
   after the step (raw fixation entries of plans and of the subscription, timers, balances), `st` holds the
   logged line with the chain's own answers (QuerySubscriptionCurrent, FindPlan, GetPlanFromSubscription,
   project list).  The ghost `owed` (months the consumer is entitled to) is advanced by the entitlement
   rule of C12 from the real pre-state and the event.  Invariants / action properties below are evaluated
   by TLC on the real states and real transitions.

   Conf (drift only, never a verdict): for every step the action of Subscription.tla is applied to the real
   pre-state and its prediction is compared with the real post-state; the lines that differ are collected
   in `drift` (reported by the POSTCONDITION). *)
EXTENDS Subscription, IOUtils
VARIABLES l, st, prev, drift, paidb
Trace == ndJsonDeserialize(IOEnv.VERIF_TRACE)
tvars == <<vars, l, st, prev, drift, paidb>>
WithDrift == IOEnv.VERIF_DRIFT = "1"

ToSet(s) == {s[i] : i \in 1..Len(s)}
SR(x) == [pi |-> x.pi, pb |-> x.pb, cr |-> x.cr, bought |-> x.bought, left |-> x.left, total |-> x.total,
          cuT |-> x.cuT, cuL |-> x.cuL, credit |-> x.credit, auto |-> x.auto, fut |-> x.fut, exp |-> x.exp, blk |-> x.blk]
PlanVM(s) == [b \in {s[i].b : i \in 1..Len(s)} |->
               LET e == s[CHOOSE i \in 1..Len(s) : s[i].b = b] IN Ent(e.ref, e.latest, e.del, e.stale, [price |-> e.price])]
SubVM(s) == [b \in {s[i].b : i \in 1..Len(s)} |->
               LET e == s[CHOOSE i \in 1..Len(s) : s[i].b = b] IN Ent(e.ref, e.latest, e.del, e.stale, SR(e.s))]
CtFn(s) == [a \in {s[i].at : i \in 1..Len(s)} |->
               LET e == s[CHOOSE i \in 1..Len(s) : s[i].at = a] IN [credit |-> e.credit, sblk |-> e.sblk]]
TcuFn(s) == [k \in {<<s[i].pv, s[i].sblk>> : i \in 1..Len(s)} |->
               LET e == s[CHOOSE i \in 1..Len(s) : <<s[i].pv, s[i].sblk>> = k] IN e.cu]

IsTx(r) == r.ev \in {"planadd", "plandel", "buy", "adv", "auto", "relay"}
IsAdv(r) == r.ev \in {"block", "epoch", "stale", "month", "payout"}

\* ---- prediction of Subscription.tla for the step r from the current (real) state -------------------
Pred(r) ==
  CASE r.ev = "planadd" -> PlanAddTx(r.p, BasePrice(r.p) + 10 * r.n)
    [] r.ev = "plandel" -> PlanDelTx(r.p)
    [] r.ev = "buy"     -> BuyTx(r.cr, r.p, r.d, r.f)
    [] r.ev = "adv"     -> AdvTx(r.cr, r.p, r.d)
    [] r.ev = "auto"    -> AutoTx(r.cr, r.f, r.p)
    [] r.ev = "relay"   -> RelayTx(r.cr, r.d)
    [] r.ev = "month"   -> IF r.ok \/ r.panic THEN OneBlock(Cur, now + 1, r.t) ELSE Cur
    [] OTHER            -> Blocks(Cur, now, tm, r.n)
NoExp(V) == [b \in DOMAIN V |-> [V[b] EXCEPT !.d.exp = 0]]
Differs(r, S) ==
  IF IsTx(r)
  THEN \/ (~S.err /\ ~S.p) # r.ok
       \/ r.ok /\ \/ S.pl # [p \in PlanIdx |-> PlanVM(r.plans[p])]
                  \/ NoExp(S.sv) # NoExp(SubVM(r.sv))
                  \/ S.bal # r.bal \/ S.mb # r.mb
                  \/ S.ct # CtFn(r.ct)
                  \/ Cardinality(S.mt) # Len(r.mt)
  ELSE \/ S.p # r.panic
       \/ ~r.panic /\ r.ev # "month" /\ r.h # now + r.n
       \/ ~r.panic /\ \/ S.pl # [p \in PlanIdx |-> PlanVM(r.plans[p])]
                      \/ NoExp(S.sv) # NoExp(SubVM(r.sv))
                      \/ S.bal # r.bal
                      \/ S.ct # CtFn(r.ct)
                      \/ Cardinality(S.mt) # Len(r.mt)

\* ---- entitlement rule of C12 (ghost owed), from the real pre-state `st` and the event r ---------------
LatestPrice(p) == LET v == FindV(pl[p], now, now) IN IF v = NONE THEN 0 ELSE pl[p][v].d.price
Owed(r) ==
  CASE r.ev = "reset" -> 0
    [] r.ev = "buy" /\ r.ok ->
         IF ~st.subn.on \/ st.subn.pi # r.p THEN r.d ELSE owed + r.d
    [] r.ev = "month" /\ r.ok ->
         IF owed > 1 THEN owed - 1
         ELSE IF owed = 0 THEN 0
         ELSE LET s == st.subn
                  P == [p \in PlanIdx |-> PlanVM(r.plans[p])]      \* plans as the callback saw them
              IN IF s.fut.on
                 THEN IF FindV(P[s.fut.pi], s.fut.pb, r.h) # NONE THEN s.fut.d ELSE 0
                 ELSE IF s.auto # "none"
                 THEN LET v == FindV(P[s.auto], r.h, r.h) IN
                      IF v # NONE /\ st.bal[s.cr] >= P[s.auto][v].d.price THEN 1 ELSE 0
                 ELSE 0
    [] OTHER -> owed

\* ---- C11: the cu-tracker timer consumed between two logged lines (the driver cuts advances so that there is
\*      at most one) and what it should pay ------------------------------------------------------------------
SumSeq(f, n) == LET RECURSIVE S(_) S(i) == IF i = 0 THEN 0 ELSE f[i] + S(i - 1) IN S(n)
Consumed(a, b) == IF IsAdv(b) THEN {i \in 1..Len(a.ct) : a.ct[i].at < b.h} ELSE {}
Timer(a, b) == a.ct[CHOOSE i \in Consumed(a, b) : TRUE]
Keys(a, sblk) == {j \in 1..Len(a.tcu) : a.tcu[j].sblk = sblk}
TotalCu(a, sblk) == SumSeq([j \in 1..Len(a.tcu) |-> IF a.tcu[j].sblk = sblk THEN a.tcu[j].cu ELSE 0], Len(a.tcu))
Amt(credit, total) == IF credit \div total > LIMIT_PER_CU THEN LIMIT_PER_CU * total ELSE credit
Share(a, credit, total, j) == (Amt(credit, total) * a.tcu[j].cu) \div total
ProvShare(a, sblk, credit, total, p) ==
  SumSeq([j \in 1..Len(a.tcu) |-> IF a.tcu[j].sblk = sblk /\ a.tcu[j].pv = p THEN Share(a, credit, total, j) ELSE 0], Len(a.tcu))
PaidNow(a, b) == IF Consumed(a, b) = {} THEN {}
                 ELSE LET c == Timer(a, b) IN IF TotalCu(a, c.sblk) > 0 THEN {c.sblk} ELSE {}
\* tokens that left (subscription module + buyers) in the step
Out(a, b) == (a.mb + a.bal["c"] + a.bal["b"]) - (b.mb + b.bal["c"] + b.bal["b"])
ProvDelta(a, b, p) == b.prov[p] - a.prov[p]
PoolsDelta(a, b) == (b.pools.valdist - a.pools.valdist) + (b.pools.community - a.pools.community)
Received(a, b) == ProvDelta(a, b, "v1") + ProvDelta(a, b, "v2") + ProvDelta(a, b, "v3") + (b.contr - a.contr) + PoolsDelta(a, b)

Observe(r) ==
  /\ now' = r.h /\ tm' = r.t
  /\ pl' = [p \in PlanIdx |-> PlanVM(r.plans[p])]
  /\ sv' = SubVM(r.sv)
  /\ mt' = ToSet(r.mt) /\ ct' = CtFn(r.ct) /\ tcu' = TcuFn(r.tcu)
  /\ bal' = r.bal /\ mb' = r.mb
  /\ pay' = pay
  /\ panicked' = (IsAdv(r) /\ r.panic)
  /\ nmonths' = IF r.ev = "reset" THEN 0 ELSE IF r.ev = "month" /\ r.ok THEN nmonths + 1 ELSE nmonths
  /\ nops' = IF r.ev = "reset" THEN 0 ELSE nops + 1
  /\ hist' = hist
  /\ owed' = Owed(r)
  /\ st' = r /\ prev' = st

TInit == /\ Init /\ l = 1 /\ Trace[1].ev = "reset" /\ st = Trace[1] /\ prev = Trace[1] /\ drift = <<>> /\ paidb = {}
TNext == /\ l < Len(Trace) /\ l' = l + 1
         /\ LET r == Trace[l + 1] IN
              /\ Observe(r)
              /\ paidb' = IF r.ev = "reset" THEN {} ELSE paidb \cup PaidNow(st, r)
              /\ drift' = IF WithDrift /\ r.ev # "reset" /\ Len(drift) < 50 /\ Differs(r, Pred(r)) THEN Append(drift, l + 1) ELSE drift
TSpec == TInit /\ [][TNext]_tvars

Post == LET d == TLCGet("stats").diameter IN PrintT(<<"HWM", d>>) /\ d = Len(Trace)
DriftOut == l < Len(Trace) \/ PrintT(<<"DRIFT", drift>>)

-----------------------------------------------------------------------------
\* C13 (Obs): answers of the chain itself
PlanFound == st.pfound /\ st.ffound /\ ~st.perr
\* no begin/end-block panic and no transaction failure caused by a vanished plan version
\* (pcls = "plan": the driver found the plans fixation prefix / PutPlan frames in the recovered panic)
NoPlanPanic == ~(st.panic /\ st.pcls = "plan")
NoLostPlanErr == st.err # "lostplan"
\* the transcription of FindEntry agrees with the chain on the raw entries (sanity of the reading)
FindAgrees == st.sub.on => ((FindV(pl[st.sub.pi], st.sub.pb, now) # NONE) = st.pfound)

\* C12 (Obs)
SubnMatchesOwed == (st.subn.on <=> owed > 0) /\ (st.subn.on => st.subn.left = owed)
CuInRange == st.sub.on => (st.sub.cuL >= 0 /\ st.sub.cuL <= st.sub.cuT) /\ (st.subn.on => st.subn.cuL <= st.subn.cuT)
ProjectsFollow == (st.sub.on => st.nproj >= 1) /\ (~st.sub.on /\ ~st.subn.on => st.nproj = 0)
TimerArmed == /\ st.subn.on => (st.subn.exp \in ToSet(st.mt) /\ st.subn.exp > st.t)
              \* a (re)armed month timer expires at utils.NextMonth(block time)  (NextMonth.tla is its transcription)
              /\ (st.ev # "reset" /\ st.subn.on /\ (~prev.subn.on \/ st.subn.exp # prev.subn.exp)) => st.subn.exp = st.nm
NoOtherPanic == ~(st.panic /\ st.pcls # "plan")
\* transitions (prev -> st)
FailedTxNoEffect ==
  (IsTx(st) /\ ~st.ok) => /\ st.plans = prev.plans /\ st.sv = prev.sv /\ st.bal = prev.bal /\ st.mb = prev.mb
                          /\ st.mt = prev.mt /\ st.ct = prev.ct /\ st.tcu = prev.tcu /\ st.nproj = prev.nproj
PriceOf(r, p) == LET s == r.plans[p] IN      \* price of the version GetPlan returned: latest not deleted
  LET c == {i \in 1..Len(s) : s[i].latest /\ s[i].del > r.h} IN IF c = {} THEN 0 ELSE s[CHOOSE i \in c : TRUE].price
ExactCharge ==
  /\ (st.ev = "buy" /\ st.ok) =>
        LET c == FullPrice(PriceOf(prev, st.p), st.p, st.d) IN
        /\ st.bal[st.cr] = prev.bal[st.cr] - c /\ st.mb = prev.mb + c
        /\ \A b \in DOMAIN st.bal : b # st.cr => st.bal[b] = prev.bal[b]
  /\ (st.ev = "adv" /\ st.ok) =>
        LET np == FullPrice(PriceOf(prev, st.p), st.p, st.d)
            c == IF prev.subn.fut.on THEN np - prev.subn.fut.credit ELSE np IN
        /\ c > 0 /\ st.bal[st.cr] = prev.bal[st.cr] - c /\ st.mb = prev.mb + c
        /\ \A b \in DOMAIN st.bal : b # st.cr => st.bal[b] = prev.bal[b]
  /\ (st.ev \in {"auto", "planadd", "plandel", "relay"}) => st.bal = prev.bal
  /\ (st.ev \in {"block", "epoch", "stale", "payout"}) => st.bal = prev.bal
  /\ (st.ev = "month" /\ st.ok /\ ~st.panic) =>
        \* only a successful auto-renewal charges: exactly one month of the plan renewed onto
        LET renewed == prev.subn.on /\ prev.subn.left = 1 /\ ~prev.subn.fut.on /\ prev.subn.auto # "none" /\ st.subn.on
        IN IF renewed
           THEN /\ st.bal[prev.subn.cr] = prev.bal[prev.subn.cr] - PriceOf(st, prev.subn.auto)
                /\ \A b \in DOMAIN st.bal : b # prev.subn.cr => st.bal[b] = prev.bal[b]
           ELSE st.bal = prev.bal
MonthResets ==
  (st.ev = "month" /\ st.ok /\ ~st.panic /\ st.subn.on) => st.subn.cuL = st.subn.cuT

\* C11 (Obs), on the transition prev -> st
NotReset == st.ev # "reset"
TraceShape == NotReset => Cardinality(Consumed(prev, st)) <= 1
HasPayout == NotReset /\ Consumed(prev, st) # {}
\* recipients (providers with their delegators, contributor) never receive more than what left the module and the
\* buyers; the rest went to the validators / community pools (their balances are not compared: the rewards module
\* pays block rewards out of them and burns leftovers on its own schedule).  Without participation fees and
\* contributor (mode 0) nothing goes to the pools unless the subscription is gone.
RecvProv(a, b) == ProvDelta(a, b, "v1") + ProvDelta(a, b, "v2") + ProvDelta(a, b, "v3") + (b.contr - a.contr)
AllAccounted == NotReset => /\ RecvProv(prev, st) >= 0 /\ RecvProv(prev, st) <= Out(prev, st)
                            /\ (st.mode = 0 /\ HasPayout /\ TotalCu(prev, Timer(prev, st).sblk) > 0) => RecvProv(prev, st) = Out(prev, st)
PaidBounded == /\ (NotReset /\ ~HasPayout) => Out(prev, st) = 0
               /\ HasPayout => (Out(prev, st) >= 0 /\ Out(prev, st) <= Timer(prev, st).credit)
Proportional ==
  HasPayout => LET c == Timer(prev, st)  total == TotalCu(prev, c.sblk) IN
    total > 0 =>
      LET sum == SumSeq([j \in 1..Len(prev.tcu) |-> IF prev.tcu[j].sblk = c.sblk THEN Share(prev, c.credit, total, j) ELSE 0], Len(prev.tcu)) IN
      \* the module pays the rounded-down shares; the later split (validators / community / contributor / delegators)
      \* may leave a few indivisible tokens of a share unsent - never more than the share
      /\ Out(prev, st) <= sum /\ Out(prev, st) >= sum - 3 * Cardinality(Keys(prev, c.sblk))
      /\ st.mode = 0 => Out(prev, st) = sum
      /\ \A p \in Providers :
            /\ ProvDelta(prev, st, p) >= 0 /\ ProvDelta(prev, st, p) <= ProvShare(prev, c.sblk, c.credit, total, p)
            /\ st.mode = 0 => ProvDelta(prev, st, p) = ProvShare(prev, c.sblk, c.credit, total, p)
PaidOnce ==
  HasPayout => LET c == Timer(prev, st) IN
    \* the tracked cu that was paid is gone (superseded versions are left to the stale GC)
    {j \in Keys(st, c.sblk) : st.tcu[j].latest} = {}
ZeroCuMonth ==
  HasPayout => LET c == Timer(prev, st) IN
    TotalCu(prev, c.sblk) = 0 =>
      LET V == SubVM(prev.sv)  v == FindV(V, c.at, c.at) IN
      IF v # NONE
      THEN /\ Out(prev, st) = 0
           \* the credit went back to the subscription version found at the payout block
           /\ (st.ev # "month" /\ \E i \in 1..Len(st.sv) : st.sv[i].b = v) =>
                 \E i \in 1..Len(st.sv) : st.sv[i].b = v /\ st.sv[i].s.credit = V[v].d.credit + c.credit
      ELSE /\ Out(prev, st) = c.credit /\ RecvProv(prev, st) = 0       \* to the validators pool
=============================================================================
