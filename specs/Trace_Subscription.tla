-------------------------- MODULE Trace_Subscription --------------------------
(* Validation of traces recorded from the real chain by harness/t/subs.

   Obs mode (decides C11, C12, C13): every variable of Subscription.tla is set to the projection logged
   after the step (raw fixation entries of plans and of every consumer's subscription, timers, balances), `st`
   holds the logged line with the chain's own answers (QuerySubscriptionCurrent, FindPlan,
   GetPlanFromSubscription, project list), `prev` the line before.  Ghosts: `owed[c]` (months consumer c is
   entitled to) and `fowed[c]` (the accepted advance purchase) are advanced by the entitlement rule of C12 from
   the events only (never read back from the chain).  Invariants / action properties below are evaluated by TLC
   on the real states and real transitions.

   Conf (drift only, never a verdict): for every step the action of Subscription.tla is applied to the real
   pre-state and its prediction is compared with the real post-state; the lines that differ are collected
   in `drift`. *)
EXTENDS Subscription, IOUtils
VARIABLES l, st, prev, drift, fowed
Trace == ndJsonDeserialize(IOEnv.VERIF_TRACE)
tvars == <<vars, l, st, prev, drift, fowed>>
WithDrift == IOEnv.VERIF_DRIFT = "1"

ToSet(s) == {s[i] : i \in 1..Len(s)}
SR(x) == [pi |-> x.pi, pb |-> x.pb, cr |-> x.cr, bought |-> x.bought, left |-> x.left, total |-> x.total,
          cuT |-> x.cuT, cuL |-> x.cuL, credit |-> x.credit, auto |-> x.auto, fut |-> x.fut, exp |-> x.exp, blk |-> x.blk]
PlanVM(s) == [b \in {s[i].b : i \in 1..Len(s)} |->
               LET e == s[CHOOSE i \in 1..Len(s) : s[i].b = b] IN Ent(e.ref, e.latest, e.del, e.stale, [price |-> e.price])]
SubVM(s) == [b \in {s[i].b : i \in 1..Len(s)} |->
               LET e == s[CHOOSE i \in 1..Len(s) : s[i].b = b] IN Ent(e.ref, e.latest, e.del, e.stale, SR(e.s))]
Plans(r) == [p \in PlanIdx |-> PlanVM(r.plans[p])]
Subs(r) == [c \in Consumers |-> SubVM(r.cs[c].sv)]
MtSet(r) == UNION {{<<r.cs[c].mt[i], c>> : i \in 1..Len(r.cs[c].mt)} : c \in Consumers}
CtFn(r) == LET K == UNION {{<<r.cs[c].ct[i].at, c>> : i \in 1..Len(r.cs[c].ct)} : c \in Consumers} IN
           [k \in K |-> LET s == r.cs[k[2]].ct  e == s[CHOOSE i \in 1..Len(s) : s[i].at = k[1]] IN [credit |-> e.credit, sblk |-> e.sblk]]
TcuFn(s) == [k \in {<<s[i].c, s[i].pv, s[i].sblk>> : i \in 1..Len(s)} |->
               LET e == s[CHOOSE i \in 1..Len(s) : <<s[i].c, s[i].pv, s[i].sblk>> = k] IN e.cu]
BalFn(r) == [b \in Buyers |-> r.bal[b]]

IsTx(r) == r.ev \in {"planadd", "plandel", "buy", "adv", "auto", "relay", "drain"}
IsAdv(r) == r.ev \in {"block", "epoch", "stale", "month", "payout"}

\* ---- prediction of Subscription.tla for the step r from the current (real) state -------------------
Pred(r) ==
  CASE r.ev = "planadd" -> PlanAddTx(r.p, BasePrice(r.p) + 10 * r.n)
    [] r.ev = "plandel" -> PlanDelTx(r.p)
    [] r.ev = "buy"     -> BuyTx(r.cr, r.c, r.p, r.d, r.f)
    [] r.ev = "adv"     -> AdvTx(r.cr, r.c, r.p, r.d)
    [] r.ev = "auto"    -> AutoTx(r.cr, r.c, r.f, r.p)
    [] r.ev = "relay"   -> RelayTx(r.cr, r.c, r.d, r.f)
    [] r.ev = "drain"   -> DrainTx(r.cr, r.d)
    [] r.ev = "month"   -> IF r.ok \/ r.panic THEN OneBlock(Cur, now + 1, r.t) ELSE Cur
    [] OTHER            -> Blocks(Cur, now, tm, r.n)
NoExp(V) == [c \in Consumers |-> [b \in DOMAIN V[c] |-> [V[c][b] EXCEPT !.d.exp = 0]]]
Differs(r, S) ==
  IF IsTx(r)
  THEN \/ (~S.err /\ ~S.p) # r.ok
       \/ r.ok /\ \/ S.pl # Plans(r)
                  \/ NoExp(S.sv) # NoExp(Subs(r))
                  \/ S.bal # BalFn(r) \/ S.mb # r.mb
                  \/ S.ct # CtFn(r)
                  \/ Cardinality(S.mt) # Cardinality(MtSet(r))
  ELSE \/ S.p # r.panic
       \/ ~r.panic /\ r.ev # "month" /\ st.ev # "reset" /\ r.h # now + r.n
       \/ ~r.panic /\ \/ S.pl # Plans(r)
                      \/ NoExp(S.sv) # NoExp(Subs(r))
                      \/ S.bal # BalFn(r)
                      \/ S.ct # CtFn(r)
                      \/ Cardinality(S.mt) # Cardinality(MtSet(r))

\* ---- entitlement rule of C12 (ghosts owed, fowed) from the events; `st` is the line before r -----------------
NoF == [d |-> 0, pi |-> "", pb |-> 0]
\* block of the plan version GetPlan hands out in line a: latest, not deleted
LatestBlk(a, p) == LET s == a.plans[p]  c == {i \in 1..Len(s) : s[i].latest /\ s[i].del > a.h} IN
                   IF c = {} THEN NONE ELSE s[CHOOSE i \in c : TRUE].b
\* the month timer of c fired in the step a -> r (the month step, or an ordinary advance that passes its expiry)
Fired(a, r, c) == IsAdv(r) /\ r.ok /\ \E i \in 1..Len(a.cs[c].mt) : a.cs[c].mt[i] <= r.t
\* months after an expiry of the last paid month
AfterLast(a, r, c) ==
  LET s == a.cs[c].subn  P == Plans(r) IN     \* plans as the callback saw them
  IF fowed[c].d > 0
  THEN IF FindV(P[fowed[c].pi], fowed[c].pb, r.h) # NONE THEN fowed[c].d ELSE 0
  ELSE IF s.on /\ s.auto # "none"
  THEN LET v == FindV(P[s.auto], r.h, r.h) IN
       IF v # NONE /\ a.bal[s.cr] >= P[s.auto][v].d.price THEN 1 ELSE 0
  ELSE 0
Owed1(r, c) ==
  CASE r.ev = "reset" -> 0
    [] r.ev = "buy" /\ r.ok /\ r.c = c ->
         IF ~st.cs[c].subn.on \/ st.cs[c].subn.pi # r.p THEN r.d ELSE owed[c] + r.d
    [] Fired(st, r, c) ->
         IF owed[c] > 1 THEN owed[c] - 1 ELSE IF owed[c] = 0 THEN 0 ELSE AfterLast(st, r, c)
    [] OTHER -> owed[c]
Fowed1(r, c) ==
  CASE r.ev = "reset" -> NoF
    [] r.ev = "adv" /\ r.ok /\ r.c = c -> [d |-> r.d, pi |-> r.p, pb |-> LatestBlk(st, r.p)]
    [] Fired(st, r, c) /\ owed[c] = 1 -> NoF         \* activated, or the subscription ended
    [] OTHER -> fowed[c]

Observe(r) ==
  /\ now' = r.h /\ tm' = r.t
  /\ pl' = Plans(r)
  /\ sv' = Subs(r)
  /\ mt' = MtSet(r) /\ ct' = CtFn(r) /\ tcu' = TcuFn(r.tcu)
  /\ bal' = BalFn(r) /\ mb' = r.mb
  /\ pay' = pay
  /\ panicked' = (IsAdv(r) /\ r.panic)
  /\ nmonths' = IF r.ev = "reset" THEN 0 ELSE IF r.ev = "month" /\ r.ok THEN nmonths + 1 ELSE nmonths
  /\ nops' = IF r.ev = "reset" THEN 0 ELSE nops + 1
  /\ hist' = hist
  /\ owed' = [c \in Consumers |-> Owed1(r, c)]
  /\ fowed' = [c \in Consumers |-> Fowed1(r, c)]
  /\ st' = r /\ prev' = st

TInit == /\ Init /\ l = 1 /\ Trace[1].ev = "reset" /\ st = Trace[1] /\ prev = Trace[1] /\ drift = <<>>
         /\ fowed = [c \in Consumers |-> NoF]
TNext == /\ l < Len(Trace) /\ l' = l + 1
         /\ LET r == Trace[l + 1] IN
              /\ Observe(r)
              /\ drift' = IF WithDrift /\ r.ev # "reset" /\ Len(drift) < 50 /\ Differs(r, Pred(r)) THEN Append(drift, l + 1) ELSE drift
TSpec == TInit /\ [][TNext]_tvars

Post == LET d == TLCGet("stats").diameter IN PrintT(<<"HWM", d>>) /\ d = Len(Trace)
DriftOut == l < Len(Trace) \/ PrintT(<<"DRIFT", drift>>)
NotReset == st.ev # "reset"

-----------------------------------------------------------------------------
\* C13 (Obs): answers of the chain itself, for every consumer
PlanFound == \A c \in Consumers : st.cs[c].pfound /\ st.cs[c].ffound /\ ~st.cs[c].perr
\* no begin/end-block panic and no transaction failure caused by a vanished plan version
\* (pcls = "plan": the driver found the plans keeper / plans fixation prefix in the recovered panic)
NoPlanPanic == ~(st.panic /\ st.pcls = "plan")
NoLostPlanErr == st.err # "lostplan"
\* RefsCoverHolders / HeldVersionsExist of Subscription.tla are evaluated on the real raw entries as well
\* the transcription of FindEntry agrees with the chain on the raw entries (sanity of the reading)
FindAgrees == \A c \in Consumers : st.cs[c].sub.on => ((FindV(pl[st.cs[c].sub.pi], st.cs[c].sub.pb, now) # NONE) = st.cs[c].pfound)

\* C12 (Obs)
SubnMatchesOwed == \A c \in Consumers : LET s == st.cs[c].subn IN (s.on <=> owed[c] > 0) /\ (s.on => s.left = owed[c])
\* an accepted advance purchase is recorded on the version of the subscription that lives on
FutRecorded == \A c \in Consumers : LET s == st.cs[c].subn IN
                 s.on => /\ s.fut.on <=> fowed[c].d > 0
                         /\ s.fut.on => (s.fut.d = fowed[c].d /\ s.fut.pi = fowed[c].pi /\ s.fut.pb = fowed[c].pb)
CuInRange == \A c \in Consumers : LET x == st.cs[c] IN
               /\ x.sub.on => (x.sub.cuL >= 0 /\ x.sub.cuL <= x.sub.cuT)
               /\ x.subn.on => (x.subn.cuL >= 0 /\ x.subn.cuL <= x.subn.cuT)
ProjectsFollow == \A c \in Consumers : LET x == st.cs[c] IN (x.sub.on => x.nproj >= 1) /\ (~x.sub.on /\ ~x.subn.on => x.nproj = 0)
TimerArmed == \A c \in Consumers : LET x == st.cs[c]  y == prev.cs[c] IN
              /\ x.subn.on => (x.subn.exp \in ToSet(x.mt) /\ x.subn.exp > st.t)
              \* a (re)armed month timer expires at utils.NextMonth(block time)  (NextMonth.tla is its transcription)
              \* (a step of several blocks re-arms at the block in which the old timer fired: between the two ends)
              /\ (NotReset /\ x.subn.on /\ (~y.subn.on \/ x.subn.exp # y.subn.exp)) =>
                    \* (NextMonth is not monotone over the clamped days 29-31, so only the 28..31-day window is required)
                    /\ prev.t + 28 * 86400 <= x.subn.exp /\ x.subn.exp <= st.t + 31 * 86400
                    /\ (IsTx(st) \/ st.ev = "month" \/ st.n = 1) => x.subn.exp = st.nm
NoOtherPanic == ~(st.panic /\ st.pcls # "plan")
\* transitions (prev -> st)
FailedTxNoEffect ==
  (IsTx(st) /\ ~st.ok) => /\ st.plans = prev.plans /\ st.cs = prev.cs /\ st.bal = prev.bal /\ st.mb = prev.mb /\ st.tcu = prev.tcu
PriceOf(r, p) == LET s == r.plans[p] IN      \* price of the version GetPlan returned: latest not deleted
  LET c == {i \in 1..Len(s) : s[i].latest /\ s[i].del > r.h} IN IF c = {} THEN 0 ELSE s[CHOOSE i \in c : TRUE].price
OthersSame(S) == \A b \in Buyers : b \notin S => st.bal[b] = prev.bal[b]
\* successful auto-renewals of the month step: consumer -> [creator, price]
Renewed(c) == LET y == prev.cs[c].subn IN
              Fired(prev, st, c) /\ y.on /\ y.left = 1 /\ fowed[c].d = 0 /\ ~y.fut.on /\ y.auto # "none" /\ st.cs[c].subn.on
RenewCharge(b) == LET RECURSIVE S(_) S(cs) == IF cs = {} THEN 0 ELSE LET c == CHOOSE x \in cs : TRUE IN
                        (IF Renewed(c) /\ prev.cs[c].subn.cr = b THEN PriceOf(st, prev.cs[c].subn.auto) ELSE 0) + S(cs \ {c})
                  IN S(Consumers)
ExactCharge ==
  /\ (st.ev = "buy" /\ st.ok) =>
        LET c == FullPrice(PriceOf(prev, st.p), st.p, st.d) IN
        /\ st.bal[st.cr] = prev.bal[st.cr] - c /\ st.mb = prev.mb + c /\ OthersSame({st.cr})
  /\ (st.ev = "adv" /\ st.ok) =>
        LET np == FullPrice(PriceOf(prev, st.p), st.p, st.d)
            f == prev.cs[st.c].subn.fut
            c == IF f.on THEN np - f.credit ELSE np IN
        /\ c > 0 /\ st.bal[st.cr] = prev.bal[st.cr] - c /\ st.mb = prev.mb + c /\ OthersSame({st.cr})
  /\ (st.ev = "drain" /\ st.ok) => (st.bal[st.cr] = st.d /\ st.mb = prev.mb /\ OthersSame({st.cr}))
  /\ (st.ev \in {"auto", "planadd", "plandel", "relay"}) => OthersSame({})
  /\ (IsAdv(st) /\ st.ok /\ ~st.panic) =>
        \* only successful auto-renewals charge: exactly one month of the plan renewed onto, to the recorded creator
        \A b \in Buyers : st.bal[b] = prev.bal[b] - RenewCharge(b)
MonthResets ==
  /\ \A c \in Consumers : (Fired(prev, st, c) /\ ~st.panic /\ st.cs[c].subn.on) => st.cs[c].subn.cuL = st.cs[c].subn.cuT
  \* an upgrade starts a new month on the new plan: full allowance of the new plan
  /\ (st.ev = "buy" /\ st.ok /\ prev.cs[st.c].subn.on /\ prev.cs[st.c].subn.pi # st.p) =>
        (st.cs[st.c].subn.cuL = st.cs[st.c].subn.cuT /\ st.cs[st.c].subn.cuT = PlanCu(st.p))

-----------------------------------------------------------------------------
\* ---- C11: the cu-tracker timer consumed between two logged lines (the driver cuts advances so that there is
\*      at most one; C11 histories use consumer c1 only) and what it should pay --------------------------------
PC == "c1"
SumSeq(f, n) == LET RECURSIVE S(_) S(i) == IF i = 0 THEN 0 ELSE f[i] + S(i - 1) IN S(n)
Consumed(a, b) == IF IsAdv(b) THEN {i \in 1..Len(a.cs[PC].ct) : a.cs[PC].ct[i].at < b.h} ELSE {}
OtherConsumed(a, b) == IF IsAdv(b) THEN UNION {{i \in 1..Len(a.cs[c].ct) : a.cs[c].ct[i].at < b.h} : c \in Consumers \ {PC}} ELSE {}
Timer(a, b) == a.cs[PC].ct[CHOOSE i \in Consumed(a, b) : TRUE]
Keys(a, sblk) == {j \in 1..Len(a.tcu) : a.tcu[j].sblk = sblk /\ a.tcu[j].c = PC}
TotalCu(a, sblk) == SumSeq([j \in 1..Len(a.tcu) |-> IF j \in Keys(a, sblk) THEN a.tcu[j].cu ELSE 0], Len(a.tcu))
Amt(credit, total) == IF credit \div total > LIMIT_PER_CU THEN LIMIT_PER_CU * total ELSE credit
Share(a, credit, total, j) == (Amt(credit, total) * a.tcu[j].cu) \div total
ProvShare(a, sblk, credit, total, p) ==
  SumSeq([j \in 1..Len(a.tcu) |-> IF j \in Keys(a, sblk) /\ a.tcu[j].pv = p THEN Share(a, credit, total, j) ELSE 0], Len(a.tcu))
\* tokens that left (subscription module + buyers) in the step
Tot(a) == a.mb + SumF([b \in Buyers |-> a.bal[b]], Buyers)
Out(a, b) == Tot(a) - Tot(b)
ProvDelta(a, b, p) == b.prov[p] - a.prov[p]
RecvProv(a, b) == ProvDelta(a, b, "v1") + ProvDelta(a, b, "v2") + ProvDelta(a, b, "v3") + (b.contr - a.contr)

TraceShape == NotReset => (Cardinality(Consumed(prev, st)) <= 1 /\ OtherConsumed(prev, st) = {})
HasPayout == NotReset /\ Consumed(prev, st) # {}
\* recipients (providers with their delegators, contributor) never receive more than what left the module and the
\* buyers; the rest went to the validators / community pools (their balances are not compared: the rewards module
\* pays block rewards out of them and burns leftovers on its own schedule).  Without participation fees and
\* contributor (mode 0) nothing goes to the pools unless the subscription is gone.
AllAccounted == NotReset => /\ RecvProv(prev, st) >= 0 /\ RecvProv(prev, st) <= Out(prev, st)
                            /\ (st.mode = 0 /\ HasPayout /\ TotalCu(prev, Timer(prev, st).sblk) > 0) => RecvProv(prev, st) = Out(prev, st)
PaidBounded == /\ (NotReset /\ ~HasPayout) => Out(prev, st) = 0
               /\ HasPayout => (Out(prev, st) >= 0 /\ Out(prev, st) <= Timer(prev, st).credit)
Proportional ==
  HasPayout => LET c == Timer(prev, st)  total == TotalCu(prev, c.sblk) IN
    total > 0 =>
      LET sum == SumSeq([j \in 1..Len(prev.tcu) |-> IF j \in Keys(prev, c.sblk) THEN Share(prev, c.credit, total, j) ELSE 0], Len(prev.tcu)) IN
      \* the module pays the rounded-down shares; the later split (validators / community / contributor / delegators)
      \* may leave a few indivisible tokens of a share unsent - never more than the share
      /\ Out(prev, st) <= sum /\ Out(prev, st) >= sum - 3 * Cardinality(Keys(prev, c.sblk))
      /\ st.mode = 0 => Out(prev, st) = sum
      /\ \A p \in Providers :
            /\ ProvDelta(prev, st, p) >= 0 /\ ProvDelta(prev, st, p) <= ProvShare(prev, c.sblk, c.credit, total, p)
            /\ st.mode = 0 => ProvDelta(prev, st, p) = ProvShare(prev, c.sblk, c.credit, total, p)
PaidOnce ==
  HasPayout => LET c == Timer(prev, st) IN
    \* the tracked cu that was paid is gone (superseded versions are left to the stale GC; entries of a month whose
    \* total is 0 are not paid and stay)
    TotalCu(prev, c.sblk) > 0 => {j \in Keys(st, c.sblk) : st.tcu[j].latest} = {}
ZeroCuMonth ==
  HasPayout => LET c == Timer(prev, st) IN
    TotalCu(prev, c.sblk) = 0 =>
      LET V == SubVM(prev.cs[PC].sv)  v == FindV(V, c.at, c.at)  w == st.cs[PC].sv IN
      IF v # NONE
      THEN /\ Out(prev, st) = 0
           \* the credit went back to the subscription version found at the payout block
           /\ (st.ev # "month" /\ \E i \in 1..Len(w) : w[i].b = v) =>
                 \E i \in 1..Len(w) : w[i].b = v /\ w[i].s.credit = V[v].d.credit + c.credit
      ELSE /\ Out(prev, st) = c.credit /\ RecvProv(prev, st) = 0       \* to the validators pool
=============================================================================
