CONSTANTS
  AsFound = FALSE
  InPlace = FALSE
  MdLen = 2
INIT Init
NEXT Next
INVARIANTS BindsReplyMd
CHECK_DEADLOCK FALSE
