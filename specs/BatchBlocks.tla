---------------------------- MODULE BatchBlocks ----------------------------
(* C31  JSON-RPC batch requests are summarised order-independently.

   Transcription of what JsonRPCChainParser.ParseMsg does with a batch (protocol/chainlib/jsonRPC.go),
   member by member:
     LatestCb / EarliestCb / Compare   common.go CompareRequestedBlockInBatch (branch by branch)
     Fold                              the loop of ParseMsg: idx 0 stores latest = parsedBlock (and, as
                                       found, leaves earliestRequestedBlock = 0 = "unset" - DESIGN 5-F19;
                                       Seed = TRUE models fixes/F19_batch_earliest_seed.patch which seeds
                                       it with the first member's block), idx > 0 folds with Compare;
                                       a one-member batch gets earliest = latest
     Requested                         chain_message.go RequestedBlock(): earliest 0 = unset => (latest, latest)
     CU                                api.ComputeUnits summed
     BatchArchive                      ExtensionParsing on the summarised message (ArchiveRule!IsPassingRule
                                       on the summarised earliest block) OR the eth_call clause of any
                                       member (AdditionalExtensions accumulates over the loop)
   A member is a record [b |-> requested block (tag or number), k |-> kind]; kinds are the request
   shapes the binding renders (eth_getBalance / eth_call / eth_getLogs / eth_blockNumber / eth_mining).

   The property (statement of C31), as predicates over *any* summary function, so that the same
   predicates are evaluated by TLC on the model (here) and on the real parser's answers
   (Trace_BatchBlocks):
     OrderIndependent   summary of every permutation is the same
     Covers             the summarised range covers every numeric member
     ArchiveMonotone    a member that needs archive on its own => the batch needs archive
     CUSum              CU = sum of the members' CU *)
EXTENDS Integers, Sequences, FiniteSets, TLC, Json

CONSTANTS NumBlocks,   \* numeric blocks requested through eth_getBalance      (kind "bal")
          CallBlocks,  \* numeric blocks requested through eth_call            (kind "call")
          LogBlocks,   \* numeric toBlock requested through eth_getLogs        (kind "logs")
          Extra,       \* TRUE: also eth_blockNumber (kind "num", latest by default)
          MaxLen,      \* batches of 1..MaxLen members
          Latests,     \* latest block values given to the parser
          Rule,        \* archive rule distance of the spec (ETH1: 127)
          Seed,        \* TRUE: earliest is seeded from the first member (F19 fixed)
          EarliestLow, \* TRUE: latestCallback treats the EARLIEST tag as the lowest block (F19b fixed)
          ZeroOk,      \* TRUE: block 0 (genesis) is a block number: the callbacks test >= 0 and a summarised
                       \*       earliest of 0 is stored as EARLIEST because 0 means "unset" in the message (F19d fixed)
          Guard,       \* TRUE: eth_call clause guarded (F12 fixed)
          Tendermint   \* TRUE: the sibling loop of TendermintChainParser.ParseMsg (tendermintRPC.go) instead of jsonRPC.go

AR == INSTANCE ArchiveRule WITH Nums <- {}, Latests <- {}, Rules <- {}, Methods <- {},
                                req <- 0, latest <- 0, rule <- 0, method <- ""
NA        == AR!NA
LATEST    == AR!LATEST
EARLIEST  == AR!EARLIEST

\* alphabet of members: every block tag through eth_getBalance, "no block" through eth_mining
Members == {[b |-> t, k |-> "bal"] : t \in AR!Tags \ {NA}} \cup {[b |-> NA, k |-> "none"]}
           \cup {[b |-> n, k |-> "bal"] : n \in NumBlocks} \cup {[b |-> n, k |-> "call"] : n \in CallBlocks}
           \cup {[b |-> n, k |-> "logs"] : n \in LogBlocks}
           \cup (IF Extra THEN {[b |-> LATEST, k |-> "num"]} ELSE {})

Max(a, b) == IF a >= b THEN a ELSE b
Min(a, b) == IF a <= b THEN a ELSE b

----------------------------------------------------------------------------
(* common.go CompareRequestedBlockInBatch *)
Num(x) == IF ZeroOk THEN x >= 0 ELSE x > 0      \* "is a block number" as the callbacks test it
LatestCb(cur, p) ==
  IF EarliestLow /\ cur = EARLIEST THEN p
  ELSE IF EarliestLow /\ p = EARLIEST THEN cur
  ELSE IF cur < 0 /\ p < 0 THEN Max(cur, p)
  ELSE IF Num(cur) /\ p < 0 /\ p # EARLIEST THEN p
  ELSE IF cur < 0 /\ Num(p) /\ cur # EARLIEST THEN cur
  ELSE Max(cur, p)

EarliestCb(cur, p) ==
  IF cur = EARLIEST \/ p = EARLIEST THEN EARLIEST
  ELSE IF cur = NA \/ p = NA THEN NA
  ELSE IF cur < 0 /\ p < 0 THEN Min(cur, p)
  ELSE IF Num(cur) /\ p < 0 THEN cur
  ELSE IF cur < 0 /\ Num(p) THEN p
  ELSE Min(cur, p)

Compare(lat, earl, p) == <<LatestCb(lat, p), EarliestCb(earl, p)>>

(* jsonRPC.go ParseMsg loop: the stored (latestRequestedBlock, earliestRequestedBlock) fields *)
RECURSIVE FoldFrom(_, _, _)
FoldFrom(acc, s, i) == IF i > Len(s) THEN acc
                       ELSE FoldFrom(Compare(acc[1], acc[2], s[i].b), s, i + 1)
FieldsJson(s) ==
  LET first == <<s[1].b, IF Seed THEN s[1].b ELSE 0>>
      f == FoldFrom(first, s, 2)
  IN IF Len(s) = 1 THEN <<s[1].b, s[1].b>>
     ELSE IF ZeroOk /\ f[2] = 0 THEN <<f[1], EARLIEST>> ELSE f
(* tendermintRPC.go ParseMsg loop: starts from (0, LATEST); idx 0 stores latest = parsedBlock; for batches
   of more than one message EVERY index (0 included) is folded with Compare; one-member batch: earliest = latest *)
FieldsTM(s) ==
  IF Len(s) = 1 THEN <<s[1].b, s[1].b>>
  ELSE FoldFrom(Compare(s[1].b, LATEST, s[1].b), s, 2)
Fields(s) == IF Tendermint THEN FieldsTM(s) ELSE FieldsJson(s)

(* chain_message.go RequestedBlock() *)
Requested(s) == LET f == Fields(s) IN AR!RequestedBlockOf(f[1], f[2])

KindMethod(k) == IF k = "call" THEN "eth_call" ELSE "other"
\* compute units of the checked-in specs (ETH1 JSON-RPC; LAV1 tendermint block / status / genesis are all 10)
CUOf(k) == IF Tendermint THEN 10
           ELSE CASE k = "bal" -> 20 [] k = "call" -> 20 [] k = "logs" -> 80 [] k = "num" -> 10 [] k = "none" -> 10

RECURSIVE SumCU(_, _)
SumCU(s, i) == IF i > Len(s) THEN 0 ELSE CUOf(s[i].k) + SumCU(s, i + 1)
CU(s) == SumCU(s, 1)

BatchArchive(s, latest) ==
  \/ AR!IsPassingRule(Requested(s)[2], latest, Rule)
  \/ \E i \in 1..Len(s) : AR!EthCallClause(s[i].b, latest, KindMethod(s[i].k))

\* a member parsed on its own (single, non batch request)
MemberArchive(m, latest) == AR!CodeArchive(m.b, latest, Rule, KindMethod(m.k))
\* ... and what the statement of C32 says about it
MemberNeedsArchive(m, latest) == AR!NeedsArchive(m.b, latest, Rule, KindMethod(m.k))

Summary(s, latest) == [lat |-> Requested(s)[1], earl |-> Requested(s)[2], cu |-> CU(s), arch |-> BatchArchive(s, latest)]

----------------------------------------------------------------------------
(* the property, over an arbitrary summary record [lat, earl, cu, arch] *)
CoversLow(sm, b)  == sm.earl = EARLIEST \/ (sm.earl >= 0 /\ sm.earl <= b)
\* a negative summarised latest other than EARLIEST means "latest / not pinned": open upper bound
CoversHigh(sm, b) == sm.lat >= b \/ (sm.lat < 0 /\ sm.lat # EARLIEST)
CoversAll(sm, s)  == \A i \in 1..Len(s) : s[i].b >= 0 => (CoversLow(sm, s[i].b) /\ CoversHigh(sm, s[i].b))

Perms(n) == Permutations(1..n)
Apply(s, p) == [i \in 1..Len(s) |-> s[p[i]]]

----------------------------------------------------------------------------
VARIABLES batch, latest
vars == <<batch, latest>>

Batches == UNION {[1..n -> Members] : n \in 1..MaxLen}
Init == batch \in Batches /\ latest \in Latests
Next == UNCHANGED vars

HasNA(s) == \E i \in 1..Len(s) : s[i].b = NA
HasZero(s) == \E i \in 1..Len(s) : s[i].b = 0

OrderIndependent == \A p \in Perms(Len(batch)) :
                       LET q == Summary(Apply(batch, p), latest) IN
                         q.lat = Summary(batch, latest).lat /\ q.earl = Summary(batch, latest).earl
                         /\ q.arch = Summary(batch, latest).arch
Covers == CoversAll(Summary(batch, latest), batch)
ArchiveMonotone == (\E i \in 1..Len(batch) : MemberNeedsArchive(batch[i], latest)) => Summary(batch, latest).arch
\* weaker forms that hold for the seeded fold (not-applicable absorbs the earliest block by design of
\* CompareRequestedBlockInBatch, see TestCompareRequestedBlockInBatch)
CoversNoNA == ~HasNA(batch) => Covers
ArchiveMonotoneNoNA == ~HasNA(batch) => ArchiveMonotone
\* the batch is never more "archive" than its members taken together (no spurious archive)
ArchiveOnlyFromMembers == Summary(batch, latest).arch =>
                             \E i \in 1..Len(batch) : MemberNeedsArchive(batch[i], latest)
CUIsSum == Summary(batch, latest).cu = SumCU(batch, 1)

\* canonical (sorted) representative of a batch: emitted once per multiset
Key(m) == m.b * 10 + (CASE m.k = "bal" -> 0 [] m.k = "call" -> 1 [] m.k = "logs" -> 2 [] m.k = "num" -> 3 [] m.k = "none" -> 4)
Sorted(s) == \A i \in 1..(Len(s) - 1) : Key(s[i]) <= Key(s[i + 1])
Emit == ~Sorted(batch) \/ PrintT(<<"BEH", ToJson([members |-> batch, latest |-> latest,
                                                   model |-> Summary(batch, latest)])>>)
=============================================================================
