------------------------------- MODULE Projects -------------------------------
(* x/projects keeper: projects and the developer-key registry as two versioned maps (fixation
   stores projectsFS / developerKeysFS) whose changes take effect at epoch boundaries.

   Actions (one per entry point; creation.go / project.go transcribed with their registerKey /
   unregisterKey helpers, in code order, a failing step fails the whole transaction):
     AddProject(sub, P, k, kind)   CreateProject: effective at the current epoch start
     DelProject(sub, P)            DeleteProject: effective at the next epoch
     AddKeys(P, by, k, kind)       AddKeysToProject: current epoch version (+ the next-epoch version if one exists)
     DelKeys(P, by, k, kind)       DelKeysFromProject: next epoch
     Relay(k, e, cu)               an otherwise valid relay payment signed by key k for epoch e:
                                   GetProjectForDeveloper(k, e) + ChargeComputeUnitsToProject
     NextEpoch
   The versioned map is the fixation store reduced to what these callers use, on the epoch grid
   (one block = one epoch start): Near = getUnmarshaledEntryForBlock, Find = FindEntry, Append =
   AppendEntry (overwrite at equal block, refusal on/after a pending delete, transfer of a pending
   DeleteAt to a newer version), Del = DelEntry (future delete searches the strictly earlier entry and
   trims later ones).  Staleness is not modelled (all queries stay inside the chain's memory window).

   World (harness/t/payments, variant "proj"): subscriptions c1, c2 (both alive), projects c1/adm
   {dev c1}, c1/low {dev k1}, c1/dis {dev k3, disabled}, c2/adm {dev c2}; c1/q1 and c2/q1 can be created. *)
EXTENDS Integers, Sequences, FiniteSets, TLC, Json

CONSTANTS Keys, ProjNames, MaxEpoch, MaxOps, GenHist, Window   \* Window = epochs of memory shown in the projection

VARIABLES cur, pv, dk, last, nops, hist
vars == <<cur, pv, dk, last, nops, hist>>

INF == 9999
SubOf(P) == IF P \in {"c1/adm", "c1/low", "c1/dis", "c1/q1"} THEN "c1" ELSE "c2"
NoE == [b |-> -1, del |-> INF]

\* ---- versioned map (set of entries with fields b, del and payload fields)
Near(E, b) == LET C == {x \in E : x.b <= b} IN IF C = {} THEN NoE ELSE CHOOSE x \in C : \A y \in C : y.b <= x.b
FindE(E, b) == LET n == Near(E, b) IN IF n.b = -1 \/ n.del <= b THEN NoE ELSE n
\* VAppend returns [ok, E]; x = new entry (fields b, del = INF, payload); c = ctx block
VAppend(E, x, c) ==
  LET n == Near(E, x.b) IN
  IF n.b = -1 \/ n.del <= c THEN [ok |-> TRUE, E |-> {y \in E : y.b # x.b} \cup {x}]
  ELSE IF x.b = n.b THEN [ok |-> TRUE, E |-> (E \ {n}) \cup {[x EXCEPT !.del = n.del]}]        \* ModifyEntry
  ELSE IF n.del <= x.b THEN [ok |-> FALSE, E |-> E]                                           \* on or beyond pending delete
  ELSE IF n.del < INF THEN [ok |-> TRUE, E |-> (E \ {n}) \cup {[n EXCEPT !.del = INF], [x EXCEPT !.del = n.del]}]
  ELSE [ok |-> TRUE, E |-> E \cup {x}]
VDel(E, b, c) ==
  LET n == Near(E, IF b > c THEN b - 1 ELSE b) IN
  IF n.b = -1
  THEN IF Near(E, b).b # -1 THEN [ok |-> TRUE, E |-> {y \in E : y.b < b}] ELSE [ok |-> FALSE, E |-> E]
  ELSE IF n.del < INF THEN [ok |-> FALSE, E |-> E]
  ELSE [ok |-> TRUE, E |-> {y \in (E \ {n}) : y.b < b} \cup {[n EXCEPT !.del = b]}]

\* ---- registerKey / unregisterKey: thread S = [ok, pr (project entry), dk]
IsDev(kind) == kind \in {"dev", "both"}
IsAdm(kind) == kind \in {"adm", "both"}
Register(S, P, k, kind, e, c) ==
  IF ~S.ok THEN S ELSE
  LET S1 == IF IsAdm(kind) THEN [S EXCEPT !.pr.adm = @ \cup {k}] ELSE S
      f == FindE(S1.dk[k], e) IN
  IF ~IsDev(kind) THEN S1
  ELSE IF f.b # -1 /\ f.proj # P THEN [S1 EXCEPT !.ok = FALSE]                 \* key already exists
  ELSE IF f.b = -1
       THEN LET a == VAppend(S1.dk[k], [b |-> e, del |-> INF, proj |-> P], c) IN
            IF ~a.ok THEN [S1 EXCEPT !.ok = FALSE]
            ELSE [S1 EXCEPT !.dk[k] = a.E, !.pr.dev = @ \cup {k}]
       ELSE [S1 EXCEPT !.pr.dev = @ \cup {k}]
\* (Project.DeleteKey reports "found" when the key is listed with ANY kind, and clears only the given kinds)
Unregister(S, P, k, kind, e, c) ==
  IF ~S.ok THEN S ELSE
  IF IsAdm(kind) /\ k \notin (S.pr.adm \cup S.pr.dev) THEN [S EXCEPT !.ok = FALSE]
  ELSE LET S1 == IF IsAdm(kind) THEN [S EXCEPT !.pr.adm = @ \ {k}] ELSE S
           g == FindE(S1.dk[k], e) IN
       IF ~IsDev(kind) THEN S1
       ELSE IF k \notin (S1.pr.dev \cup S1.pr.adm) THEN [S1 EXCEPT !.ok = FALSE]
       ELSE IF g.b = -1 \/ g.proj # P THEN [S1 EXCEPT !.ok = FALSE, !.pr.dev = @ \ {k}]
       ELSE LET d == VDel(S1.dk[k], e, c) IN
            IF ~d.ok THEN [S1 EXCEPT !.ok = FALSE] ELSE [S1 EXCEPT !.dk[k] = d.E, !.pr.dev = @ \ {k}]

Record(r) == hist' = IF GenHist THEN Append(hist, r) ELSE hist
Step(a, v, by, key, kd, sub) == [a |-> a, v |-> v, by |-> by, key |-> key, kd |-> kd, sub |-> sub, p |-> "", rs |-> <<>>]
MkLast(ev, ok, P, cu, e) == [ev |-> ev, ok |-> ok, proj |-> P, cu |-> cu, e |-> e, key |-> "-"]
Commit(ok, pv2, dk2) == IF ok THEN pv' = pv2 /\ dk' = dk2 ELSE UNCHANGED <<pv, dk>>

AddProject(sub, P, k, kind) ==
  LET exists == FindE(pv[P], cur).b # -1
      pr0 == [b |-> cur, del |-> INF, dev |-> {}, adm |-> {}, used |-> 0, en |-> TRUE]
      S == Register([ok |-> TRUE, pr |-> pr0, dk |-> dk], P, k, kind, cur, cur)
      a == VAppend(pv[P], S.pr, cur)
      ok == SubOf(P) = sub /\ ~exists /\ S.ok /\ a.ok
  IN /\ Commit(ok, [pv EXCEPT ![P] = a.E], S.dk)
     /\ last' = MkLast("addproj", ok, P, 0, cur)
     /\ Record(Step("addproj", P, "", k, kind, sub))
     /\ UNCHANGED cur

RECURSIVE UnregAll(_, _, _, _, _)
UnregAll(S, P, ks, e, c) ==
  IF ks = {} THEN S
  ELSE LET k == CHOOSE x \in ks : TRUE
           kind == IF k \in S.pr.dev /\ k \in S.pr.adm THEN "both" ELSE IF k \in S.pr.dev THEN "dev" ELSE "adm" IN
       UnregAll(Unregister(S, P, k, kind, e, c), P, ks \ {k}, e, c)
DelProject(sub, P) ==
  LET f == FindE(pv[P], cur + 1)
      S == UnregAll([ok |-> TRUE, pr |-> f, dk |-> dk], P, f.dev \cup f.adm, cur + 1, cur)
      d == VDel(pv[P], cur + 1, cur)
      ok == f.b # -1 /\ SubOf(P) = sub /\ S.ok /\ d.ok
  IN /\ Commit(ok, [pv EXCEPT ![P] = d.E], IF f.b # -1 THEN S.dk ELSE dk)
     /\ last' = MkLast("delproj", ok, P, 0, cur)
     /\ Record(Step("delproj", P, "", "", "", sub))
     /\ UNCHANGED cur

IsAdmin(pr, P, by) == by = SubOf(P) \/ by \in pr.adm
AddKeys(P, by, k, kind) ==
  LET p0 == FindE(pv[P], cur)
      pn == FindE(pv[P], cur + 1)
      S1 == Register([ok |-> TRUE, pr |-> p0, dk |-> dk], P, k, kind, cur, cur)
      a1 == VAppend(pv[P], [S1.pr EXCEPT !.b = cur, !.del = INF], cur)
      hasNext == pn.b = cur + 1
      S2 == Register([ok |-> TRUE, pr |-> pn, dk |-> S1.dk], P, k, kind, cur + 1, cur)
      a2 == VAppend(a1.E, [S2.pr EXCEPT !.b = cur + 1, !.del = INF], cur)
      ok == /\ p0.b # -1 /\ pn.b # -1 /\ IsAdmin(pn, P, by) /\ S1.ok /\ a1.ok
            /\ (hasNext => (S2.ok /\ a2.ok))
  IN /\ Commit(ok, [pv EXCEPT ![P] = IF hasNext THEN a2.E ELSE a1.E], IF hasNext THEN S2.dk ELSE S1.dk)
     /\ last' = MkLast("addkey", ok, P, 0, cur)
     /\ Record(Step("addkey", P, by, k, kind, ""))
     /\ UNCHANGED cur

DelKeys(P, by, k, kind) ==
  LET pn == FindE(pv[P], cur + 1)
      S == Unregister([ok |-> TRUE, pr |-> pn, dk |-> dk], P, k, kind, cur + 1, cur)
      a == VAppend(pv[P], [S.pr EXCEPT !.b = cur + 1, !.del = INF], cur)
      ok == pn.b # -1 /\ IsAdmin(pn, P, by) /\ S.ok /\ a.ok
  IN /\ Commit(ok, [pv EXCEPT ![P] = a.E], S.dk)
     /\ last' = MkLast("delkey", ok, P, 0, cur)
     /\ Record(Step("delkey", P, by, k, kind, ""))
     /\ UNCHANGED cur

\* ChargeComputeUnitsToProject: the version in effect at e and every later version (same snapshot)
Relay(k, e, cu, ss) ==
  LET g == FindE(dk[k], e)
      P == IF g.b = -1 THEN "-" ELSE g.proj
      f == IF P = "-" THEN NoE ELSE FindE(pv[P], e)
      ok == P # "-" /\ f.b # -1 /\ f.en
  IN /\ Commit(ok, [pv EXCEPT ![P] = {IF y.b >= f.b THEN [y EXCEPT !.used = @ + cu] ELSE y : y \in @}], dk)
     /\ last' = [MkLast("pay", ok, IF ok THEN P ELSE "-", cu, e) EXCEPT !.key = k]
     /\ hist' = IF GenHist THEN Append(hist, [a |-> "pay", v |-> "", by |-> "", key |-> "", kd |-> "", sub |-> "", p |-> "p1",
                  rs |-> <<[sg |-> k, pf |-> "p1", sp |-> "S1", e |-> e, o |-> 0, ss |-> ss, cu |-> cu, lc |-> TRUE, q |-> "none", tm |-> "none",
                            b |-> [u |-> "-", is |-> "-", e |-> 0, o |-> 0, al |-> 0, lc |-> TRUE]]>>]) ELSE hist
     /\ UNCHANGED cur

NextEpoch == /\ cur < MaxEpoch /\ cur' = cur + 1
             /\ last' = MkLast("epoch", TRUE, "-", 0, cur + 1)
             /\ Record([a |-> "epoch", v |-> "", by |-> "", key |-> "", kd |-> "", sub |-> "", p |-> "", rs |-> <<>>])
             /\ UNCHANGED <<pv, dk>>

P0(dev, en) == {[b |-> 0, del |-> INF, dev |-> dev, adm |-> {}, used |-> 0, en |-> en]}
D0(P) == {[b |-> 0, del |-> INF, proj |-> P]}
Init == /\ cur = 0
        /\ pv = [P \in ProjNames |-> CASE P = "c1/adm" -> P0({"c1"}, TRUE) [] P = "c1/low" -> P0({"k1"}, TRUE)
                                        [] P = "c1/dis" -> P0({"k3"}, FALSE) [] P = "c2/adm" -> P0({"c2"}, TRUE) [] OTHER -> {}]
        /\ dk = [k \in Keys |-> CASE k = "c1" -> D0("c1/adm") [] k = "k1" -> D0("c1/low") [] k = "k3" -> D0("c1/dis")
                                  [] k = "c2" -> D0("c2/adm") [] OTHER -> {}]
        /\ last = MkLast("reset", TRUE, "-", 0, 0) /\ nops = 0 /\ hist = <<>>

Kinds == {"dev", "adm", "both"}
Env == \/ \E P \in {"c1/q1", "c2/q1"} \cap ProjNames, k \in Keys, kind \in {"dev", "both"} : AddProject(SubOf(P), P, k, kind)
       \/ \E P \in ProjNames \ {"c1/dis"} : DelProject(SubOf(P), P)
       \/ \E P \in ProjNames \ {"c1/dis"}, by \in Keys, k \in Keys, kind \in Kinds : AddKeys(P, by, k, kind)
       \/ \E P \in ProjNames \ {"c1/dis"}, by \in Keys, k \in Keys, kind \in Kinds : DelKeys(P, by, k, kind)
       \/ \E k \in Keys, e \in {cur, cur - 1} : e >= 0 /\ Relay(k, e, 10, nops + 1)
       \/ NextEpoch
Next == nops < MaxOps /\ nops' = nops + 1 /\ Env
Spec == Init /\ [][Next]_vars

\* generator: one draw per action kind, every draw passed as an operator argument (evaluated once)
Pick(S) == RandomElement(S)
PickSeq(s) == s[RandomElement(1..Len(s))]
\* a key the project lists in its next-epoch version, if any (so that deletions often succeed)
ListedKey(P, k) == LET f == FindE(pv[P], cur + 1) IN
                   IF f.b # -1 /\ (f.dev \cup f.adm) # {} THEN RandomElement(f.dev \cup f.adm) ELSE k
GenStep(kind, P, by, k, kd, e) ==
  \/ kind = "addproj" /\ AddProject(SubOf(IF P \in {"c1/q1", "c2/q1"} THEN P ELSE "c1/q1"), IF P \in {"c1/q1", "c2/q1"} THEN P ELSE "c1/q1", k, IF kd = "adm" THEN "dev" ELSE kd)
  \/ kind = "delproj" /\ DelProject(SubOf(P), P)
  \/ kind = "addkey" /\ AddKeys(P, IF by = "own" THEN SubOf(P) ELSE by, k, kd)
  \/ kind = "delkey" /\ DelKeys(P, IF by = "own" THEN SubOf(P) ELSE by, ListedKey(P, k), kd)
  \/ kind = "pay" /\ Relay(k, IF e = 1 /\ cur > 0 THEN cur - 1 ELSE cur, 10, nops + 1)
  \/ kind = "epoch" /\ IF cur < MaxEpoch THEN NextEpoch ELSE Relay(k, cur, 10, nops + 1)
GenNext == /\ nops < MaxOps /\ nops' = nops + 1
           /\ GenStep(PickSeq(<<"addproj", "delproj", "addkey", "addkey", "addkey", "delkey", "delkey", "pay", "pay", "pay", "epoch", "epoch">>),
                      Pick(ProjNames \ {"c1/dis"}), PickSeq(<<"own", "own", "own", "own", "k1", "k2">>), Pick(Keys), Pick(Kinds), Pick({0, 0, 1}))
Emit == nops < MaxOps \/ PrintT(<<"BEH", ToJson(hist)>>)

-----------------------------------------------------------------------------
\* Projection (what the harness reads back: GetProjectDeveloperData(k, block) and GetProjectForBlock(P, block)
\* for every epoch start of the window and the next epoch) and the properties over it.
Win(c) == {e \in (c - Window)..(c + 1) : e >= 0}
DevMap(D, b) == [k \in Keys |-> LET g == FindE(D[k], b) IN IF g.b = -1 THEN "-" ELSE g.proj]
ProjAt(V, b) == {[p |-> P, dev |-> FindE(V[P], b).dev, adm |-> FindE(V[P], b).adm, used |-> FindE(V[P], b).used, en |-> FindE(V[P], b).en]
                  : P \in {Q \in ProjNames : FindE(V[Q], b).b # -1}}

\* C17 (state): at every block of the window a developer key is listed by at most one existing project,
\* and the registry points to exactly that project (never to a deleted / other one)
KeysOK(dm, pa) ==
  \A k \in Keys :
    LET owners == {r.p : r \in {x \in pa : k \in x.dev}} IN
    /\ Cardinality(owners) <= 1
    /\ (dm[k] # "-") => owners = {dm[k]}
    /\ (owners # {}) => dm[k] \in owners
C17_Keys == \A b \in Win(cur) : KeysOK(DevMap(dk, b), ProjAt(pv, b))

\* C17 (step): an accepted relay for epoch e charges exactly one project: +cu in the version in effect at
\* every epoch >= e of the window, 0 or +cu (monotone) before it, nothing in any other project
UsedOf(pa, P) == LET S == {r \in pa : r.p = P} IN IF S = {} THEN -1 ELSE (CHOOSE r \in S : TRUE).used
ChargeOK(L, W, before(_), after(_)) ==
  (L.ev = "pay") =>
    \A b \in W : \A P \in ProjNames :
      LET u0 == UsedOf(before(b), P) u1 == UsedOf(after(b), P) IN
      IF ~L.ok \/ P # L.proj THEN u1 = u0
      ELSE /\ b >= L.e => (u0 # -1 => u1 = u0 + L.cu)
           /\ b < L.e => (u1 = u0 \/ u1 = u0 + L.cu)
           /\ \A b2 \in W : (b2 > b /\ u1 = u0 + L.cu /\ UsedOf(before(b2), P) # -1) => UsedOf(after(b2), P) = UsedOf(before(b2), P) + L.cu
Before(b) == ProjAt(pv, b)
After(b) == ProjAt(pv', b)
C17_Charge == ChargeOK(last', Win(cur), Before, After)
C17_ChargeProp == [][C17_Charge]_vars
\* a resolved relay is charged to the project the registry named at the relay's epoch
ResolveOK(L, dm) == (L.ev = "pay" /\ L.ok) => dm[L.key] = L.proj
C17_Resolve == ResolveOK(last', DevMap(dk, last'.e))
C17_ResolveProp == [][C17_Resolve]_vars

TypeOK == cur \in 0..MaxEpoch
View == <<cur, pv, dk, nops>>
=============================================================================
