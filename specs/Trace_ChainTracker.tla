-------------------------- MODULE Trace_ChainTracker --------------------------
(* Conf-mode validation of traces recorded from the real protocol/chaintracker (harness/cmd/chaintracker).
   C30 *is* "the tracker behaves like this model" on the observables it names: latest block, the
   stored window (read through GetLatestBlockData), fork / new-block (and the other) callbacks and
   GetLatestBlockData answers.  Every spec action is deterministic given the logged arguments, so
   validation is linear.  Error *classes* of GetLatestBlockData are matched only when
   VERIF_MATCH_ERRCLASS = 1 (drift pass): the property only says "or an error". *)
EXTENDS ChainTracker, IOUtils
VARIABLE l
Trace == ndJsonDeserialize(IOEnv.VERIF_TRACE)
MatchClass == IOEnv.VERIF_MATCH_ERRCLASS = "1"
tvars == <<vars, l>>

ClassOf(e) == IF e \in {"", "noblocks", "iteration", "panic"} THEN e ELSE "invalid"
SameErr(real, model) == IF MatchClass THEN real = ClassOf(model) ELSE (real = "") <=> (model = "")

Match(r) ==
  /\ r.started = started'
  /\ r.latest = latest' /\ r.latest2 = latest'
  /\ r.cbs = cbs'
  /\ LET w == GetData(q', latest', LATEST - (N - 1), LATEST, NA) IN
       /\ SameErr(r.winerr, w.err) /\ r.win = w.res
  /\ ~r.panic

TInit == Init /\ l = 1 /\ Trace[1].ev = "reset" /\ Len(chain) = Trace[1].k
TReset == LET r == Trace[l + 1] IN
          /\ r.ev = "reset"
          /\ chain' = [i \in 1..r.k |-> i] /\ fresh' = r.k + 1
          /\ started' = "no" /\ q' = <<>> /\ latest' = 0 /\ cbs' = <<>> /\ last' = NoLast
          /\ nops' = 0 /\ hist' = <<>>
          /\ Match(r)
Step(r) == \/ r.ev = "start" /\ Start
           \/ r.ev = "extend" /\ Extend(r.k)
           \/ r.ev = "reorg" /\ Reorg(r.d, r.k)
           \/ r.ev = "poll" /\ Poll(r.mode, r.d, r.k)
           \/ /\ r.ev = "query" /\ Query(r.f, r.t, r.s)
              /\ LET a == GetData(q, latest, r.f, r.t, r.s) IN
                   /\ SameErr(r.qerr, a.err) /\ r.qres = a.res /\ r.qlatest = a.latest
TNext == /\ l < Len(Trace) /\ l' = l + 1
         /\ LET r == Trace[l + 1] IN
              \/ TReset
              \/ (r.ev # "reset" /\ nops' = nops + 1 /\ Step(r) /\ Match(r))
TSpec == TInit /\ [][TNext]_tvars

Post == LET d == TLCGet("stats").diameter IN PrintT(<<"HWM", d>>) /\ d = Len(Trace)
=============================================================================
