----------------------------- MODULE Emit_Signing -----------------------------
(* Writes the C25 binding vectors - one per (kind, base message, single-field mutation) - to the
   ndjson file IOEnv.VERIF_OUT.  Scalar fields get the three table values, the two metadata fields
   every list of at most MdLen entries over {"", "a", "b"} x {"", "a", "b"}. *)
EXTENDS Signing, IOUtils
SX == INSTANCE SequencesExt
Vec(k, b, f, v) == [kind |-> k, base |-> b, field |-> f, val |-> v, layout |-> "exact"]
\* replies whose data is a window of a larger buffer ("spare": foreign tail, "shared": the request data
\* lies right behind it): every scalar field, untampered and tampered
Lay == {[kind |-> "reply", base |-> b, field |-> f, val |-> v, layout |-> y] :
           b \in 0..1, f \in Fields("reply") \ MdFields, v \in 0..2, y \in Layouts \ {"exact"}}
Scalar == UNION {{Vec(k, b, f, v) : b \in 0..1, v \in 0..2} : <<k, f>> \in {<<k, f>> \in Kinds \X (Fields("session") \cup Fields("reply")) : f \in Fields(k) \ MdFields}}
Md     == {Vec("reply", b, f, v) : b \in 0..1, f \in MdFields, v \in MdVals}
EInit == /\ kind = "" /\ msg = <<>> /\ signed = <<>> /\ tampered = <<>> /\ verdict = "" /\ verdict2 = "" /\ phase = "" /\ buf = <<>>
         /\ ndJsonSerialize(IOEnv.VERIF_OUT, SX!SetToSeq(Scalar) \o SX!SetToSeq(Md) \o SX!SetToSeq(Lay))
ENext == FALSE /\ UNCHANGED vars
=============================================================================
