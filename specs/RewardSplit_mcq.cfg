CONSTANTS
  MaxR = 60
  MaxCredit = 5
  MaxDel = 2
  Commissions = {0, 1, 50, 99, 100}
  ContribNs = {0, 1, 2}
  ContribPPs = {0, 33333, 50000}
  EmitSetups = FALSE
INIT Init
NEXT Next
INVARIANTS InvAll
CHECK_DEADLOCK FALSE
