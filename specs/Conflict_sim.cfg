CONSTANTS
  VoterSeq <- VS3
  Others = {"p0", "x"}
  Pairs = {"A", "B"}
  EB = 20
  VP = 2
  SPAN = 3
  Base = 100
  MaxH = 100000
  MaxDet = 2
  StakeVecs <- SVsim
  Ages = {0, 0, 1, 3}
  MaxOps = 36
  GenHist = TRUE
INIT Init
NEXT GenNext
INVARIANTS Emit
CHECK_DEADLOCK FALSE
