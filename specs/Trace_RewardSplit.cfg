CONSTANTS
  MaxR = 60
  MaxCredit = 5
  MaxDel = 3
  Commissions = {}
  ContribNs = {}
  ContribPPs = {}
  EmitSetups = TRUE
INIT TInit
NEXT TNext
INVARIANTS Report
POSTCONDITION Post
CHECK_DEADLOCK FALSE
