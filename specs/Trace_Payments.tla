--------------------------- MODULE Trace_Payments ---------------------------
(* Validation of traces recorded from the real chain by harness/t/payments.
   Every line carries the event, its arguments, the transaction result (status, per-relay acceptance
   and rewardedCU as the chain's own relay_payment event reports them) and the projected state.

   VERIF_MODE = "obs"  : vars' = logged projection.  The properties of Payments.tla (state invariants
                         over the ghosts, action properties over the step) are evaluated by TLC on
                         the REAL states and transitions; a violation is a statement about the code.
                         The ghosts are computed from the logged observation record by the very
                         operator the model uses (Ghosts).
   VERIF_MODE = "conf" : the spec action is taken with the logged arguments and its result must
                         equal the logged projection (drift detection; also selects which
                         transcription of EnforceClientCUsUsageInEpoch the code conforms to). *)
EXTENDS Payments
VARIABLES l, hs
Trace == ndJsonDeserialize(IOEnv.VERIF_TRACE)
Mode == IOEnv.VERIF_MODE
tvars == <<vars, l, hs>>

ToSet(s) == {s[i] : i \in 1..Len(s)}
TupSet(s) == {s[i] : i \in 1..Len(s)}
UsedOf(st) == [pr \in Projects |-> st.used[pr]]
LastOf(r) == [ev |-> r.ev, p |-> r.p, ok |-> r.ok, err |-> r.err, rs |-> r.rs,
              out |-> [i \in 1..Len(r.rs) |-> [acc |-> r.rs[i].acc, rew |-> r.rs[i].rew, proj |-> r.rs[i].proj]],
              dfe |-> [i \in 1..Len(r.rs) |-> r.rs[i].dfe]]

ObsState(r) ==
  LET st == r.st IN
  /\ cur' = st.cur /\ off' = st.off /\ earliest' = st.earliest /\ df' = st.df
  /\ unique' = TupSet(st.unique) /\ pec' = ToSet(st.pec) /\ pcec' = ToSet(st.pcec)
  /\ bused' = ToSet(st.bused) /\ used' = UsedOf(st) /\ mleft' = st.mleft.c1
  /\ tracked' = ToSet(st.tracked) /\ pcache' = {}
  /\ hs' = st.hs

Reset(r) ==
  /\ r.ev = "reset"
  /\ ObsState(r)
  /\ last' = MkLast("reset", "", TRUE, "", <<>>, <<>>)
  /\ credOnce' = {} /\ credTwice' = {} /\ sumRew' = {} /\ bcred' = {}
  /\ nops' = 0 /\ hist' = <<>>

ObsStep(r) ==
  /\ r.ev # "reset"
  /\ ObsState(r)
  /\ last' = LastOf(r)
  /\ Ghosts(LastOf(r))
  /\ nops' = nops + 1 /\ hist' = hist

\* Conf: the model takes the step with the logged arguments ...
ConfAct(r) ==
  CASE r.ev = "pay"   -> RelayPay(r.p, r.rs)
    [] r.ev = "epoch" -> NextEpoch(r.st.df)
    [] r.ev = "block" -> NextBlock
    [] r.ev \in {"down", "bigdown"} -> Down(r.st.df, r.ev)
    [] OTHER -> FALSE
\* ... and must land on the logged projection (tracked CU is matched separately: after a uint64 wrap
\* the real counter is a residue mod 2^64 which the clamped domain cannot represent)
SameOut(r) == /\ last'.ok = r.ok /\ last'.err = r.err
              /\ \A i \in 1..Len(r.rs) : last'.out[i].acc = r.rs[i].acc /\ (r.rs[i].acc => last'.out[i].rew = r.rs[i].rew /\ last'.out[i].proj = r.rs[i].proj)
ConfMatch(r) ==
  LET st == r.st IN
  /\ cur' = st.cur /\ off' = st.off /\ earliest' = st.earliest
  /\ unique' = TupSet(st.unique) /\ pec' = ToSet(st.pec) /\ pcec' = ToSet(st.pcec)
  /\ bused' = ToSet(st.bused) /\ used' = UsedOf(st) /\ mleft' = st.mleft.c1
  /\ (IOEnv.VERIF_MATCH_TRACKED = "1") => tracked' = ToSet(st.tracked)
  /\ (r.ev = "pay") => SameOut(r)
ConfStep(r) ==
  /\ r.ev # "reset"
  /\ ConfAct(r) /\ ConfMatch(r)
  /\ nops' = nops + 1 /\ hs' = r.st.hs

TInit == Init /\ l = 1 /\ hs = Trace[1].st.hs /\ Trace[1].ev = "reset"
TNext == /\ l < Len(Trace) /\ l' = l + 1
         /\ LET r == Trace[l + 1] IN
              \/ Reset(r)
              \/ (Mode = "obs" /\ ObsStep(r))
              \/ (Mode = "conf" /\ ConfStep(r))
TSpec == TInit /\ [][TNext]_tvars

\* C05 (Obs): a rejected payment transaction leaves every store of the chain byte-identical
C05_Hashes == (last'.ev = "pay" /\ ~last'.ok) => hs' = hs
C05_HashesProp == [][C05_Hashes]_tvars
\* sanity of the log itself
C03_PStep == [][C03_Step]_tvars
C04_PLe == [][C04_LeSigned]_tvars
C04_PEpoch == [][C04_EpochBound]_tvars
C04_PQos == [][C04_Qos]_tvars
C05_PStep == [][C05_Step]_tvars
C18_PStep == [][C18_Step]_tvars

Post == LET d == TLCGet("stats").diameter IN PrintT(<<"HWM", d>>) /\ d = Len(Trace)
=============================================================================
