---------------------------- MODULE ArchiveRule ----------------------------
(* C32  Archive routing follows the configured block rule.

   Two things are specified here:

   1. NeedsArchive / NeedsArchiveE - the property's "if and only if", written directly from the
      statement (requested block, latest block, rule distance, method).

   2. A transcription, branch by branch, of what the code does:
        IsPassingRule    protocol/chainlib/extensionslib/archive_parser_rule.go  isPassingRule
        EthCallClause    protocol/chainlib/jsonRPC.go ParseMsg  (`msg.Method == "eth_call" &&
                         uint64(parsedBlock) < extensionInfo.LatestBlock-126`)
        RequestedBlockOf protocol/chainlib/chain_message.go RequestedBlock() (earliest 0 = unset)
        CodeArchive      ParseMsg + BaseChainParser.ExtensionParsing for a single (non batch)
                         message without ExtensionOverride
      including Go's unsigned arithmetic: uint64 values are modelled modulo the model word W
      (every concrete block number of the grid is far below W/4, so `a - b` wraps exactly when the
      real uint64 subtraction wraps and `uint64(negative int64)` is larger than every real block).
      Guard = TRUE models the eth_call clause with the underflow guard (`LatestBlock > 126 &&`,
      fixes/F12_archive_underflow.patch); Guard = FALSE models the code as found (DESIGN 5-F12).

   TLC (ArchiveRule_mc*.cfg) checks on the whole grid that the guarded transcription IS the
   statement (CodeIsStatement), plus sanity properties of the statement itself.  The same grid is
   emitted (ArchiveRule_emit*.cfg, one initial state = one vector with the expected answer) and
   replayed into the real parser; Trace_ArchiveRule validates every (input, real output) line. *)
EXTENDS Integers, Sequences, FiniteSets, TLC, Json

CONSTANTS Nums,        \* requested block numbers (every block tag is always included)
          Latests,     \* latest block values (0 = unknown)
          Rules,       \* archive rule distances (positive)
          Methods,     \* {"eth_call", "eth_getBalance"} (ETH1 JSON-RPC) and/or CosmosMethods (LAV1)
          Guard        \* TRUE: eth_call clause guarded against underflow

NA        == -1
LATEST    == -2
EARLIEST  == -3
PENDING   == -4
SAFE      == -5
FINALIZED == -6
Tags      == {NA, LATEST, EARLIEST, PENDING, SAFE, FINALIZED}
Requested == Tags \cup Nums

EthCallDistance == 126

----------------------------------------------------------------------------
(* 1. the statement *)

\* e = the earliest requested block of the message (for a single message: the requested block)
NeedsArchiveE(e, latest, rule) ==
  IF e = EARLIEST THEN TRUE
  ELSE IF e < 0 THEN FALSE                     \* latest / pending / safe / finalized / no block
  ELSE \/ latest = 0                           \* latest block unknown
       \/ latest - e > rule                    \* more than the rule distance behind

NeedsArchive(req, latest, rule, method) ==
  \/ NeedsArchiveE(req, latest, rule)
  \/ /\ req >= 0
     /\ method = "eth_call"
     /\ latest - req > EthCallDistance         \* eth_call more than 126 blocks behind

----------------------------------------------------------------------------
(* 2. the code *)

W == 1048576                                   \* model word (stands for 2^64)
U(x) == IF x < 0 THEN W + x ELSE x             \* uint64(int64)
SubU(a, b) == (a - b + W) % W                  \* a - b in uint64

\* chain_message.go RequestedBlock(): <<latest, earliest>> ; earliest = 0 means "not set"
RequestedBlockOf(lat, earl) == IF earl = 0 THEN <<lat, lat>> ELSE <<lat, earl>>

\* archive_parser_rule.go isPassingRule(msg, latestBlock) with rule block `rule` (0 = no rule)
IsPassingRule(e, latest, rule) ==
  IF e < 0 THEN e = EARLIEST
  ELSE IF latest = 0 THEN TRUE
  ELSE IF U(e) >= latest THEN FALSE
  ELSE IF rule # 0
       THEN IF latest <= rule THEN FALSE
            ELSE U(e) < SubU(latest, rule)
       ELSE FALSE

\* jsonRPC.go ParseMsg, evaluated per message on the parsed block
EthCallClause(parsed, latest, method) ==
  /\ method = "eth_call"
  /\ Guard => latest > EthCallDistance
  /\ U(parsed) < SubU(latest, EthCallDistance)

\* single message: newChainMessage leaves earliestRequestedBlock = 0
CodeArchive(req, latest, rule, method) ==
  \/ IsPassingRule(RequestedBlockOf(req, 0)[2], latest, rule)
  \/ EthCallClause(req, latest, method)

----------------------------------------------------------------------------
(* model: one state per grid point *)
VARIABLES req, latest, rule, method
vars == <<req, latest, rule, method>>

\* methods of the cosmos interfaces (LAV1 spec: REST blocks/{height}, Tendermint RPC block, gRPC GetBlockByHeight):
\* they always carry a height (or default to latest), "no block" cannot be expressed
CosmosMethods == {"rest_block", "tm_block", "grpc_block"}
Init == /\ req \in Requested /\ latest \in Latests /\ rule \in Rules /\ method \in Methods
        /\ method \in CosmosMethods => req # NA
Next == UNCHANGED vars

TypeOK == /\ \A r \in Requested : r \in Tags \/ (r >= 0 /\ r < W \div 4)
          /\ \A l \in Latests : l >= 0 /\ l < W \div 4
          /\ \A r \in Rules : r > 0 /\ r < W \div 4

\* the (guarded) code is the statement
CodeIsStatement == CodeArchive(req, latest, rule, method) = NeedsArchive(req, latest, rule, method)
\* the bare rule is the statement's rule part, for every earliest block
RuleIsStatement == IsPassingRule(req, latest, rule) = NeedsArchiveE(req, latest, rule)

\* sanity of the statement itself
NeverMarked == req \in (Tags \ {EARLIEST}) => ~NeedsArchive(req, latest, rule, method)
EarliestMarked == req = EARLIEST => NeedsArchive(req, latest, rule, method)
YoungChain == (latest > 0 /\ latest <= rule /\ latest <= EthCallDistance /\ req # EARLIEST)
                 => ~NeedsArchive(req, latest, rule, method)
\* an older numeric block is at least as "archive" as a newer one
OlderIsMore == \A r2 \in Requested :
                 (req >= 0 /\ r2 >= 0 /\ r2 <= req /\ NeedsArchive(req, latest, rule, method))
                    => NeedsArchive(r2, latest, rule, method)
\* the method matters only through the eth_call distance
MethodOnlyAdds == NeedsArchive(req, latest, rule, "eth_getBalance") => NeedsArchive(req, latest, rule, "eth_call")

Emit == PrintT(<<"BEH", ToJson([req |-> req, latest |-> latest, rule |-> rule, method |-> method,
                                 exp |-> NeedsArchive(req, latest, rule, method),
                                 expE |-> NeedsArchiveE(req, latest, rule)])>>)
=============================================================================
