------------------------------ MODULE RetryPolicy ------------------------------
(* protocol/relaypolicy/policy.go : the consumer's retry decision engine, transcribed as operators.

     Decide(cfg, in)      = Policy.Decide(DecisionInput)        (post-relay decision: gotResults / ticker)
     Mutation(in)         = Policy.decideMutation               (archive / hash-cache side effect)
     OnSend(cfg, st, e)   = Policy.OnSendRelayResult(err, isPairingListEmpty)   (pre-relay decision,
                            st = [cbe, cpe] = consecutiveBatchErrors / consecutivePairingErrors)

   The numbered steps follow the comments of the Go function one by one; the order of the checks is
   part of the behaviour (e.g. a non-retryable node error wins over "MaxRetriesReached" only in the
   reason string, an epoch mismatch retries before the error-tolerance check, ticker hedges skip
   steps 5).  The module is used three ways:
     * RetryPolicyEmit.tla / RetryPolicy_emit*.cfg : every initial state is one group of inputs; the expected outputs for
       the whole bounded domain are printed and compared with the real function (exhaustive
       equivalence, checks/C34.py);
     * RelaySM.tla uses Decide/OnSend as the decision operators of the state machine;
     * Trace_RelaySM.tla re-evaluates Decide/OnSend on every decision the real state machine logged. *)
EXTENDS Integers, Sequences, FiniteSets, TLC, Json

Sels == {"stateless", "stateful", "cv"}

\* ---------------------------------------------------------------------------------------------
\* Decide
\* ---------------------------------------------------------------------------------------------
NoMut == [arch |-> "none", cache |-> FALSE]

\* in.arch = [nil |-> ArchiveStatus == nil, a |-> isArchive, u |-> isUpgraded]; in.cnt = DecisionInput.NodeErrors
Mutation(in) ==
  IF in.arch.nil THEN NoMut
  ELSE IF in.arch.u /\ in.cnt >= 2            THEN [arch |-> "remove", cache |-> TRUE]
  ELSE IF ~in.arch.a /\ in.attempt = 1        THEN [arch |-> "add", cache |-> FALSE]
  ELSE IF in.arch.u /\ in.attempt = 2         THEN [arch |-> "remove", cache |-> FALSE]
  ELSE NoMut

Stop(reason)  == [action |-> "stop", reason |-> reason, arch |-> "none", cache |-> FALSE]
Retry(reason, m) == [action |-> "retry", reason |-> reason, arch |-> m.arch, cache |-> m.cache]

TotalErrors(in) == in.ne + in.sne + in.pe

Decide(cfg, in) ==
  \* 1. mode checks
  IF in.sel = "cv"                                   THEN Stop("CrossValidation")
  ELSE IF in.sel = "stateful"                        THEN Stop("Stateful")
  \* 2. permanent failures
  ELSE IF in.nr                                      THEN Stop("NonRetryableNodeError")
  ELSE IF in.pp                                      THEN Stop("PermanentProtocolError")
  \* 3. limits
  ELSE IF in.attempt >= cfg.maxRetries               THEN Stop("MaxRetriesReached")
  ELSE IF in.isBatch /\ cfg.disableBatch             THEN Stop("BatchDisabled")
  \* 4. epoch mismatch always retries (no mutation: the zero MutationOutput)
  ELSE IF in.em /\ in.succ = 0                       THEN Retry("EpochMismatch", NoMut)
  \* 5. only on the gotResults path
  ELSE IF ~in.hedge /\ in.hashErr                    THEN Stop("HashComputationFailed")
  ELSE IF ~in.hedge /\ TotalErrors(in) > cfg.retryLimit THEN Stop("ErrorToleranceExceeded")
  \* 6./7. archive mutation, default retry
  ELSE Retry("Default", Mutation(in))

\* ---------------------------------------------------------------------------------------------
\* OnSendRelayResult     e \in {"nil", "err", "empty"}   ("empty" = PairingListEmptyError)
\* cfg: [sendAttempts, breaker (BOOLEAN), threshold]
\* ---------------------------------------------------------------------------------------------
SendErrs == {"nil", "err", "empty"}

OnSend(cfg, st, e) ==
  IF e = "nil" THEN [res |-> "success", st |-> [cbe |-> 0, cpe |-> 0]]
  ELSE
    LET cbe1 == st.cbe + 1
        trip == cfg.breaker /\ e = "empty"
        cpe1 == IF trip THEN st.cpe + 1 ELSE IF cfg.breaker THEN 0 ELSE st.cpe
        st1  == [cbe |-> cbe1, cpe |-> cpe1]
    IN IF trip /\ cpe1 >= cfg.threshold      THEN [res |-> "stop", st |-> st1]
       ELSE IF cbe1 > cfg.sendAttempts       THEN [res |-> "stop", st |-> st1]
       ELSE [res |-> "retry", st |-> st1]

RECURSIVE RunSends(_, _, _)
\* results of feeding the sequence es to a fresh policy
RunSends(cfg, st, es) ==
  IF es = <<>> THEN <<>>
  ELSE LET o == OnSend(cfg, st, Head(es)) IN <<o.res>> \o RunSends(cfg, o.st, Tail(es))

=============================================================================
