CONSTANTS
  Alpha = {"a", "b"}
  W = 1
INIT Init
NEXT Next
INVARIANTS Injective
CHECK_DEADLOCK FALSE
