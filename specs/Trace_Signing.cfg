CONSTANTS
  AsFound = FALSE
  InPlace = FALSE
  MdLen = 2
INIT TInit
NEXT TNext
POSTCONDITION Post
CHECK_DEADLOCK FALSE
