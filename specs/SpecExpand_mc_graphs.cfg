CONSTANTS
  Family = "graphs"
  MaxImp = 2
  Ordered = FALSE
  Shapes = "core"
  Level = 0
  Fixed = TRUE
INIT Init
NEXT Next
INVARIANTS RejectsInv CompleteInv NoDupInv NoJunkInv CUInv
CHECK_DEADLOCK FALSE
