----------------------------- MODULE RewardSplit -----------------------------
(* x/dualstaking/keeper/delegator_reward.go: RewardProvidersAndDelegators = contributor part
   (spec keeper GetContributorReward + PayContributors), CalcRewards, CalcDelegatorReward,
   updateDelegatorsReward (leftovers go to the provider), for one coin denomination.     (C08)
   All quantities are non-negative integers; sdk.Coins MulInt / QuoInt are per-denomination integer
   multiplication and floor division, so a reward with several denominations is this function applied
   to every denomination independently (the trace spec does exactly that).

   Inputs of one vector:
     R    total reward                         S   credit of the provider's self delegation (> 0)
     D    sequence of delegator credits (CalculateMonthlyCredit; 0 = not yet counted, skipped)
     C    delegation commission 0..100         N   number of spec contributors
     PP   contributor percentage * ContributorPrecision, rounded (LegacyDec.MulInt64(1e5).RoundInt()) *)
EXTENDS Integers, Sequences, TLC, Json

CONSTANTS MaxR, MaxCredit, MaxDel, Commissions, ContribNs, ContribPPs, EmitSetups
Precision == 100000

RECURSIVE SumSeq(_)
SumSeq(s) == IF s = <<>> THEN 0 ELSE Head(s) + SumSeq(Tail(s))

(* contributor part: totalReward * PP / Precision, rounded down to a multiple of N *)
ContribTotal(R, N, PP) == IF N = 0 \/ PP = 0 THEN 0 ELSE (((R * PP) \div Precision) \div N) * N
ContribEach(R, N, PP) == IF N = 0 THEN 0 ELSE ContribTotal(R, N, PP) \div N

(* CalcRewards(totalReward = base, totalDelegations = T, selfDelegation = S, commission = C) *)
ProviderBase(base, T, S, C) ==
  IF T + S = 0 THEN 0
  ELSE IF C = 100 THEN base
  ELSE LET own == (base * S) \div (T + S)
           com == IF T # 0 /\ C # 0 THEN (((base * T) \div (T + S)) * C) \div 100 ELSE 0
       IN own + com
DelegatorsPool(base, T, S, C) == IF T + S = 0 THEN 0 ELSE base - ProviderBase(base, T, S, C)

(* CalcDelegatorReward for the delegators with a non-zero credit *)
DelPart(pool, T, d) == IF T = 0 \/ d = 0 THEN 0 ELSE (pool * d) \div T

Split(R, S, D, C, N, PP) ==
  LET ct == ContribTotal(R, N, PP)
      base == R - ct
      T == SumSeq(D)
      pb == ProviderBase(base, T, S, C)
      pool == DelegatorsPool(base, T, S, C)
      dels == [i \in 1..Len(D) |-> DelPart(pool, T, D[i])]
      left == pool - SumSeq(dels)
  IN [contribEach |-> ContribEach(R, N, PP), contribTotal |-> ct, base |-> base, total |-> T, pool |-> pool,
      provBase |-> pb, dels |-> dels, leftover |-> left, prov |-> pb + left]

-----------------------------------------------------------------------------
(* the property, stated on an outcome o = [contribTotal, prov, dels] for inputs (R, S, D, C, N, PP) *)
Conserves(R, o) == o.contribTotal + o.prov + SumSeq(o.dels) = R
NonNegative(o) == o.contribTotal >= 0 /\ o.prov >= 0 /\ \A i \in 1..Len(o.dels) : o.dels[i] >= 0
\* each delegator's part = floor(pool * credit / total credit), pool = what CalcRewards leaves to the delegators
DelegatorShares(R, S, D, C, o) ==
  LET base == R - o.contribTotal
      T == SumSeq(D)
      pool == DelegatorsPool(base, T, S, C)
  IN \A i \in 1..Len(D) : o.dels[i] = DelPart(pool, T, D[i])
\* the provider gets its own share + commission on the delegators' raw share + the rounding remainder
ProviderShare(R, S, D, C, o) ==
  LET base == R - o.contribTotal
      T == SumSeq(D)
  IN o.prov = ProviderBase(base, T, S, C) + (DelegatorsPool(base, T, S, C) - SumSeq(o.dels))
FullCommission(R, C, o) == C = 100 => (o.prov = R - o.contribTotal /\ SumSeq(o.dels) = 0)
ContribBound(R, N, PP, o) == o.contribTotal <= (R * PP) \div Precision /\ (N = 0 => o.contribTotal = 0)

-----------------------------------------------------------------------------
(* exhaustive enumeration: every reachable state is one input vector *)
VARIABLES R, S, D, C, N, PP
vars == <<R, S, D, C, N, PP>>
NonDecreasing(s) == \A i \in 1..(Len(s) - 1) : s[i] <= s[i + 1]
Credits == UNION {[1..k -> 0..MaxCredit] : k \in 0..MaxDel}
SortedCredits == {d \in Credits : NonDecreasing(d)}   \* constant level: evaluated once
Init == /\ R = 0
        /\ S \in 1..MaxCredit
        /\ D \in SortedCredits
        /\ C \in Commissions
        /\ N \in ContribNs
        /\ PP \in (IF N = 0 THEN {0} ELSE ContribPPs)
\* the reward grows along the behaviour (so that TLC's workers share the vectors); emit mode: setups only
Next == /\ ~EmitSetups /\ R < MaxR /\ R' = R + 1 /\ UNCHANGED <<S, D, C, N, PP>>
O == Split(R, S, D, C, N, PP)
Outcome == [contribTotal |-> O.contribTotal, prov |-> O.prov, dels |-> O.dels]
InvConserves == Conserves(R, Outcome)
InvNonNegative == NonNegative(Outcome)
InvFullCommission == FullCommission(R, C, Outcome)
InvContribBound == ContribBound(R, N, PP, Outcome)
InvLeftoverSmall == O.leftover >= 0 /\ O.leftover <= Len(D)      \* remainder of the floor divisions: < #delegators + 1
InvPoolBound == O.pool >= 0 /\ O.pool <= O.base
\* without commission the delegators' pool is their credit share of the reward, up to rounding
InvNoCommission == (C = 0 /\ O.total + S > 0) => (O.pool * (O.total + S) >= O.base * O.total
                                                 /\ O.pool * (O.total + S) < O.base * O.total + (O.total + S))
\* all of the above with Split evaluated once per vector (faster)
InvAll == LET o == Split(R, S, D, C, N, PP)
              oc == [contribTotal |-> o.contribTotal, prov |-> o.prov, dels |-> o.dels]
          IN /\ Conserves(R, oc) /\ NonNegative(oc) /\ FullCommission(R, C, oc) /\ ContribBound(R, N, PP, oc)
             /\ o.leftover >= 0 /\ o.leftover <= Len(D) /\ o.pool >= 0 /\ o.pool <= o.base
             /\ (C = 0 /\ o.total + S > 0) => (o.pool * (o.total + S) >= o.base * o.total
                                              /\ o.pool * (o.total + S) < o.base * o.total + (o.total + S))
Emit == PrintT(<<"BEH", ToJson([S |-> S, D |-> D, C |-> C, N |-> N, PP |-> PP])>>)
=============================================================================
