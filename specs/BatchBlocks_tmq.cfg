CONSTANTS
  NumBlocks = {5, 50, 500}
  CallBlocks = {}
  LogBlocks = {}
  Extra = FALSE
  MaxLen = 3
  Latests = {627, 1000}
  Rule = 127
  Seed = TRUE
  Guard = TRUE
  Tendermint = TRUE
  ZeroOk = TRUE
  EarliestLow = TRUE
INIT Init
NEXT Next
INVARIANTS OrderIndependent CoversNoNA ArchiveMonotoneNoNA ArchiveOnlyFromMembers CUIsSum
CHECK_DEADLOCK FALSE
