CONSTANTS
  NP = 3
  MaxK = 8
  GenHist = FALSE
  KSet = {0}
  NA = 3
  NL = 3
  NS = 3
  NK = 2
  Strategies = {0, 1, 2, 3, 4, 5, 6}
  Adaptive = {0, 3}
INIT LInit
NEXT ENext
INVARIANTS LEmit
CHECK_DEADLOCK FALSE
