------------------------------ MODULE Reputation ------------------------------
(* x/pairing/keeper/reputation.go, x/pairing/types/{reputation,qos_score}.go over an abstract integer grid.

   One chain / cluster, providers Provs.  A reputation is [sn, sd] (accumulated score fraction), [en, ed]
   (epoch score fraction), stake; ps[p] is the pairing score in thousandths (500 .. 2000) or 0 = none yet.
   Actions:
     Report(p, s, w, st)   relay payment with a QoS excellence report whose ComputeReputation value is s and
                           whose CU (= weight) is w, provider stake st: UpdateReputationEpochQosScore.
                           Truncation (after the variance stabilization period) replaces s by a value clamped
                           to a band around the current epoch score; abstracted as any grid value <= s.
     EpochStart(d)         UpdateAllReputationQosScore: every stored reputation (see the quirk below) gets
                           score := score * decay + epoch score (decay d = <<num, den>> in [0,1]; exp() is not
                           modelled), epoch score := zero; then per chain/cluster: sort by resolved score,
                           benchmark = score of the first provider at which the aggregated stake reaches 10% of
                           the total, pairing score := 2 if score <= benchmark else 0.5 + benchmark/score * 1.5.
   Fractions are compared by cross multiplication; the one division (benchmark/score * 1500) is floored,
   as LegacyDec's 18-digit division is monotone too. *)
EXTENDS Integers, Sequences, FiniteSets, TLC, Json

CONSTANTS ProvSeq, Scores, Weights, Stakes, Decays, MaxRep, MaxEp, MaxOps, GenHist,
          GenQos,    \* generator: QoS report kinds
          GenGaps    \* generator: time gaps of an epoch step

VARIABLES rep,     \* [Provs -> [sn, sd, en, ed, stake, has]]
          ps,      \* [Provs -> 0 | 500..2000]
          upd,     \* providers updated by the last step (epoch start)
          nrep, nep, nops, last, hist

vars == <<rep, ps, upd, nrep, nep, nops, last, hist>>
Provs == {ProvSeq[i] : i \in 1..Len(ProvSeq)}
Idx(p) == CHOOSE i \in 1..Len(ProvSeq) : ProvSeq[i] = p
MINPS == 500
MAXPS == 2000
None == [sn |-> 0, sd |-> 0, en |-> 0, ed |-> 0, stake |-> 0, has |-> FALSE]

Record(r) == hist' = IF GenHist THEN Append(hist, r) ELSE hist

Report(p, s, w, st) ==
  /\ nrep < MaxRep /\ nrep' = nrep + 1
  /\ \E t \in {x \in Scores : x <= s /\ (rep[p].ed = 0 => x = s)} :       \* truncated value
       rep' = [rep EXCEPT ![p] = [@ EXCEPT !.en = @ + t * w, !.ed = @ + w, !.stake = st, !.has = TRUE]]
  /\ upd' = {} /\ last' = "report" /\ UNCHANGED <<ps, nep>>
  /\ Record([a |-> "report", p |-> p, s |-> s, w |-> w])

\* resolved score of p (as a fraction) after the update: a/b with b > 0
Less(a, b, c, d) == a * d < c * b      \* a/b < c/d
Leq(a, b, c, d) == a * d <= c * b

EpochStart(d) ==
  LET \* code quirk: `reputation.EpochScore == types.ZeroQosScore` compares structs holding *big.Int pointers and
      \* is never true, so every stored reputation is decayed and re-scored at every epoch start.  A zero epoch
      \* score is 0 / smallest-decimal: when everything else has decayed away the score resolves to 0 (sn=0, sd=1).
      U == {p \in Provs : rep[p].has}
      Dec(x) == (x * d[1]) \div d[2]
      nr == [p \in Provs |-> IF p \in U
                              THEN IF Dec(rep[p].sd) + rep[p].ed = 0
                                   THEN [rep[p] EXCEPT !.sn = 0, !.sd = 1, !.en = 0, !.ed = 0]
                                   ELSE [rep[p] EXCEPT !.sn = Dec(@) + rep[p].en, !.sd = Dec(@) + rep[p].ed, !.en = 0, !.ed = 0]
                              ELSE rep[p]]
      \* sort order: resolved score, ties by provider name (= index)
      Before(p, q) == \/ Less(nr[p].sn, nr[p].sd, nr[q].sn, nr[q].sd)
                      \/ (nr[p].sn * nr[q].sd = nr[q].sn * nr[p].sd /\ Idx(p) < Idx(q))
      total == LET RECURSIVE Sum(_) Sum(S) == IF S = {} THEN 0 ELSE LET x == CHOOSE y \in S : TRUE IN nr[x].stake + Sum(S \ {x}) IN Sum(U)
      Upto(p) == LET S == {q \in U : q = p \/ Before(q, p)}
                     RECURSIVE Sum2(_) Sum2(T) == IF T = {} THEN 0 ELSE LET x == CHOOSE y \in T : TRUE IN nr[x].stake + Sum2(T \ {x})
                 IN Sum2(S)
      \* first provider in sort order whose aggregated stake reaches 10% of the total (else the first one)
      Reach == {p \in U : 10 * Upto(p) >= total}
      first == CHOOSE p \in U : \A q \in U : q = p \/ Before(p, q)
      bm == IF Reach = {} THEN first ELSE CHOOSE p \in Reach : \A q \in Reach : q = p \/ Before(p, q)
      NewPs(p) == IF nr[p].sn = 0 \/ Leq(nr[p].sn, nr[p].sd, nr[bm].sn, nr[bm].sd) THEN MAXPS
                  ELSE MINPS + (nr[bm].sn * nr[p].sd * (MAXPS - MINPS)) \div (nr[bm].sd * nr[p].sn)
  IN /\ nep < MaxEp /\ nep' = nep + 1
     /\ rep' = nr /\ upd' = U
     /\ ps' = [p \in Provs |-> IF p \in U THEN NewPs(p) ELSE ps[p]]
     /\ last' = "epoch" /\ UNCHANGED nrep
     /\ Record([a |-> "epoch", p |-> "", s |-> d[1], w |-> d[2]])

Init == /\ rep = [p \in Provs |-> None] /\ ps = [p \in Provs |-> 0] /\ upd = {} /\ nrep = 0 /\ nep = 0
        /\ nops = 0 /\ last = "reset" /\ hist = <<>>
Next == /\ nops' = nops
        /\ \/ \E p \in Provs, s \in Scores, w \in Weights : \E sv \in Stakes : Report(p, s, w, sv[Idx(p)])
           \/ \E d \in Decays : EpochStart(d)
Spec == Init /\ [][Next]_vars

-----------------------------------------------------------------------------
\* C24
Bounded == \A p \in Provs : ps[p] = 0 \/ (ps[p] >= MINPS /\ ps[p] <= MAXPS)
\* providers updated at the same epoch start: better (lower) QoS score => pairing score not lower
OrderStep == last' = "epoch" =>
               \A p, q \in upd' : Less(rep'[p].sn, rep'[p].sd, rep'[q].sn, rep'[q].sd) => ps'[p] >= ps'[q]
\* decay keeps reputations valid (non-negative numerators, positive denominators)
ValidStep == last' = "epoch" => \A p \in upd' : rep'[p].sn >= 0 /\ rep'[p].sd > 0
\* pairing scores change only for providers updated at an epoch start
PsStep == \A p \in Provs : ps'[p] # ps[p] => (last' = "epoch" /\ p \in upd')
C24Prop == [][OrderStep /\ ValidStep /\ PsStep]_vars

-----------------------------------------------------------------------------
\* Generator for the chain driver: concrete QoS reports (kinds) and time gaps are drawn here; the abstract
\* state is not advanced (the real chain computes; validation is Obs only), only budgets are.
GenNext == /\ nops < MaxOps /\ nops' = nops + 1
           /\ UNCHANGED <<rep, ps, upd, nrep, nep, last>>
           /\ \E kind \in {RandomElement(1..10)} :
                IF kind <= 7
                THEN \E p \in {RandomElement(Provs)} : \E q \in {RandomElement(GenQos)} : \E w \in {RandomElement(Weights)} :
                       hist' = Append(hist, [a |-> "report", p |-> p, q |-> q, w |-> w, gap |-> 0])
                ELSE \E g \in {RandomElement(GenGaps)} :
                       hist' = Append(hist, [a |-> "epoch", p |-> "", q |-> "", w |-> 0, gap |-> g])
Emit == nops < MaxOps \/ PrintT(<<"BEH", ToJson([ops |-> hist])>>)

View == <<rep, ps, nrep, nep>>
PS3 == <<"p1", "p2", "p3">>
PS4 == <<"p1", "p2", "p3", "p4">>
Dq == {<<1, 1>>, <<1, 2>>, <<0, 1>>}
Dq2 == {<<1, 2>>, <<0, 1>>}
\* stake vectors (aligned with ProvSeq): the 10% benchmark threshold falls on different providers
SVq == {<<1, 9, 1>>}
SVt == {<<1, 9, 1>>, <<9, 1, 1>>, <<1, 1, 1>>}
=============================================================================
