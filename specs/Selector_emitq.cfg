CONSTANTS
  NP = 3
  MaxK = 8
  GenHist = FALSE
  KSet = {0, 2, 8}
  NA = 1
  NL = 1
  NS = 1
  NK = 1
  Strategies = {0}
  WKinds = {"off"}
  WinMode = "diag"
INIT EInit
NEXT ENext
INVARIANTS Emit
CHECK_DEADLOCK FALSE
