CONSTANTS
  EBs = {2, 3, 5}
  ETSs = {1, 2, 3}
  MaxHeight = 16
  MaxChanges = 2
  GenHist = FALSE
  FixWalk = TRUE
INIT Init
NEXT Next
VIEW View
INVARIANTS CurNextOk CurStartOk Total StartsRan NextLater Grid NoPanic EarliestIsStart
PROPERTIES Announced Mono Stable DelOk
CHECK_DEADLOCK FALSE
