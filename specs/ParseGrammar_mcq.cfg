CONSTANTS
  Ifaces = {"jsonrpc", "batch", "rest", "tmjson", "tmuri", "grpc"}
  Latests = {1000}
  Variants = 1
INIT Init
NEXT Next
INVARIANTS Complete
CHECK_DEADLOCK FALSE
