CONSTANTS
  Sel = "cv"
  MaxRetries = 1
  SendAttempts = 1
  RetryLimit = 1
  TimeoutPriority = FALSE
  NumFirst = 2
  Need = 2
  MaxTicks = 1
  MaxSendErrs = 1
  MaxResults = 2
  KindSet = {"ok", "ne"}
  BuCap = 1
  FixF34 = TRUE
  GenHist = FALSE
INIT Init
NEXT Next
INVARIANTS TypeOK OneFinal AfterSuccess Justified ModeAttempts AttemptsBoundedPipe
PROPERTIES AfterFinalSilent NoAttemptAfterSuccess NoResendAfterSend NoRetryAfterNR SendRetriesBounded
CHECK_DEADLOCK FALSE
