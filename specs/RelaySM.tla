------------------------------ MODULE RelaySM ------------------------------
(* protocol/relaycore/unified_relay_state_machine.go : GetRelayTaskChannel's goroutine (the consumer's
   relay retry state machine) together with the goroutines it spawns and the environment it talks to.

   Goroutines / channels of the code and their counterparts here
     state machine loop           pc, out, after      (one action per select branch: SMBatchUpdate,
                                                        SMGotResults, SMTicker, SMReturn, SMTimeout;
                                                        SMEmit = the blocking send on relayTaskChannel)
     relayTaskChannel  (cap 1)    task
     batchUpdate       (cap MaxRetries) bu            "nil" | "err" | "empty" (PairingListEmptyError)
     gotResults        (cap 1)    gr
     returnCondition   (cap 1)    rc
     readResultsFromProcessor     rd, rdv, nea        wait -> check -> push -> none
     validateReturnCondition      vals                set of [st, b, e]; "new" -> "sleep" -> exit
     policy (relaypolicy.Policy)  pol                 RetryPolicy!OnSend state; Decide is stateless
   Environment (rpcconsumer ProcessRelaySend loop + providers + clock)
     ConsTake / SendOk / SendErr  cons, cur           the consumer reads one instruction, tries to send,
                                                      then calls UpdateBatch(err) - strictly sequential
     Result(k)                    sum, used, sig      a provider answers: RemoveUsed + SetResponse
     Timeout                      tout                processingCtx expires
     batch = UsedProviders.BatchNumber(), used = UsedProviders.CurrentlyUsed()

   Quirks kept on purpose (they are what the code does):
     * Decide reads BatchNumber at decision time, not the number of instructions already emitted;
     * a SendRetry used to re-emit without consulting the results summary (finding F34); since the fix
       (FixF34 = TRUE, the code as it is now) it is skipped once the summary holds a non-retryable error;
       FixF34 = FALSE keeps the old behaviour (RelaySM_nr.cfg shows the counter-example);
     * after a Stop decision the loop keeps running until validateReturnCondition fires, the
       processing context expires or a success arrives;
     * once processingCtx is done WaitForResults returns immediately, so the reader keeps producing
       gotResults(false) until the select picks the Done branch. *)
EXTENDS RetryPolicy

CONSTANTS Sel,             \* "stateless" | "stateful" | "cv"
          MaxRetries, SendAttempts, RetryLimit,
          TimeoutPriority, \* StateMachineConfig.EnableTimeoutPriority
          NumFirst,        \* NumOfProviders of the first instruction (MaxParticipants in cv mode)
          Need,            \* successes HasRequiredNodeResults wants (1; agreement threshold in cv mode)
          MaxTicks, MaxSendErrs, MaxResults,   \* budgets of the environment
          BuCap,           \* capacity of batchUpdate (= MaxRetries in the code; larger in trace validation, where a
                           \* blocked UpdateBatch caller acts as one more slot)
          FixF34,          \* TRUE: model fixes/F34 (a SendRetry is skipped once the summary holds a non-retryable error)
          KindSet,         \* result kinds the environment may produce (subset of Kinds)
          GenHist

VARIABLES pc, out, after, pol, task, bu, gr, rc, rd, rdv, nea, vals,
          cons, cur, batch, used, sig, sum, tout,
          ticks, nerrs, nres,
          obs, hist

smvars  == <<pc, out, after, pol, task, bu, gr, rc, rd, rdv, nea, vals>>
envvars == <<cons, cur, batch, used, sig, sum, tout, ticks, nerrs, nres>>
vars    == <<smvars, envvars, obs, hist>>

PolCfg == [sendAttempts |-> SendAttempts, breaker |-> FALSE, threshold |-> 0]
DecCfg == [maxRetries |-> MaxRetries, retryLimit |-> RetryLimit, disableBatch |-> TRUE]
NoArch == [nil |-> TRUE, a |-> FALSE, u |-> FALSE]

Sum0 == [succ |-> 0, ne |-> 0, pe |-> 0, nr |-> FALSE, pp |-> FALSE, em |-> FALSE]
Kinds == {"ok", "ne", "nr", "pe", "pp", "em"}
Cap(x) == IF x > RetryLimit + 1 THEN RetryLimit + 1 ELSE x      \* only "> RetryLimit" matters
AddRes(s, k) ==
  CASE k = "ok" -> [s EXCEPT !.succ = IF @ >= Need THEN @ ELSE @ + 1]
    [] k = "ne" -> [s EXCEPT !.ne = Cap(@ + 1)]
    [] k = "nr" -> [s EXCEPT !.ne = Cap(@ + 1), !.nr = TRUE]
    [] k = "pe" -> [s EXCEPT !.pe = Cap(@ + 1)]
    [] k = "pp" -> [s EXCEPT !.pe = Cap(@ + 1), !.pp = TRUE]
    [] k = "em" -> [s EXCEPT !.pe = Cap(@ + 1), !.em = TRUE]

DecIn(hedge) == [sel |-> Sel, attempt |-> batch, isBatch |-> FALSE, hedge |-> hedge, arch |-> NoArch,
                 cnt |-> nea, ne |-> sum.ne, sne |-> 0, pe |-> sum.pe, succ |-> sum.succ,
                 nr |-> sum.nr, pp |-> sum.pp, em |-> sum.em, hashErr |-> FALSE]

Instr(n)  == [done |-> FALSE, err |-> "nil", n |-> n]
Final(e)  == [done |-> TRUE, err |-> e, n |-> 0]
Obs0 == [decided |-> 1, emitted |-> 0, finals |-> 0, sawSucc |-> FALSE, stopNR |-> FALSE]

H(e) == IF GenHist THEN hist' = Append(hist, e) ELSE hist' = hist

Init ==
  /\ pc = "emit" /\ out = Instr(NumFirst) /\ after = "select"
  /\ pol = [cbe |-> 0, cpe |-> 0]
  /\ task = <<>> /\ bu = <<>> /\ gr = <<>> /\ rc = <<>>
  /\ rd = "wait" /\ rdv = FALSE /\ nea = 0 /\ vals = {}
  /\ cons = "idle" /\ cur = Instr(0) /\ batch = 0 /\ used = 0 /\ sig = 0 /\ sum = Sum0 /\ tout = FALSE
  /\ ticks = 0 /\ nerrs = 0 /\ nres = 0
  /\ obs = Obs0 /\ hist = <<>>

\* ------------------------------------------------------------------ state machine goroutine
Prio == TimeoutPriority /\ tout          \* the check at the top of the loop wins

GoEmit(i, aft) == /\ pc' = "emit" /\ out' = i /\ after' = aft
GoFinal(e)     == GoEmit(Final(e), "stopped")
Decided(o)     == obs' = [obs EXCEPT !.decided = @ + 1]

SMEmit ==
  /\ pc = "emit" /\ task = <<>>
  /\ task' = <<out>>
  /\ pc' = IF after = "stopped" THEN "stopped" ELSE "select"
  /\ rd' = IF after = "reader" THEN "wait" ELSE rd
  /\ obs' = IF out.done THEN [obs EXCEPT !.finals = @ + 1] ELSE [obs EXCEPT !.emitted = @ + 1]
  /\ UNCHANGED <<out, after, pol, bu, gr, rc, rdv, nea, vals, envvars, hist>>

SMBatchUpdate ==
  /\ pc = "select" /\ ~Prio /\ bu # <<>>
  /\ LET o == OnSend(PolCfg, pol, Head(bu)) IN
       /\ pol' = o.st /\ bu' = Tail(bu)
       /\ CASE o.res = "success" -> UNCHANGED <<pc, out, after, vals, obs>>
            [] o.res = "stop"    -> /\ vals' = vals \cup {[st |-> "new", b |-> 0, e |-> "err"]}
                                    /\ UNCHANGED <<pc, out, after, obs>>
            [] o.res = "retry"   -> IF FixF34 /\ (sum.nr \/ sum.pp)
                                    THEN /\ vals' = vals \cup {[st |-> "new", b |-> 0, e |-> "err"]}
                                         /\ UNCHANGED <<pc, out, after, obs>>
                                    ELSE /\ GoEmit(Instr(1), "select") /\ Decided(o) /\ UNCHANGED vals
  /\ UNCHANGED <<task, gr, rc, rd, rdv, nea, envvars, hist>>

SMGotResults ==
  /\ pc = "select" /\ ~Prio /\ gr # <<>>
  /\ gr' = <<>>
  /\ IF Head(gr)
     THEN /\ GoFinal("nil") /\ obs' = [obs EXCEPT !.sawSucc = TRUE]
          /\ UNCHANGED <<rd, vals>>
     ELSE LET o == Decide(DecCfg, DecIn(FALSE)) IN
          IF o.action = "retry"
          THEN /\ GoEmit(Instr(1), "reader") /\ Decided(o) /\ UNCHANGED <<rd, vals>>
          ELSE /\ vals' = vals \cup {[st |-> "new", b |-> 0, e |-> "nil"]}
               /\ rd' = "wait"
               /\ obs' = [obs EXCEPT !.stopNR = @ \/ o.reason \in {"NonRetryableNodeError", "PermanentProtocolError"}]
               /\ UNCHANGED <<pc, out, after>>
  /\ UNCHANGED <<pol, task, bu, rc, rdv, nea, envvars, hist>>

SMTicker ==
  /\ pc = "select" /\ ~Prio /\ ticks < MaxTicks
  /\ ticks' = ticks + 1
  /\ LET o == Decide(DecCfg, DecIn(TRUE)) IN
       IF o.action = "retry"
       THEN GoEmit(Instr(1), "select") /\ Decided(o)
       ELSE /\ obs' = [obs EXCEPT !.stopNR = @ \/ o.reason \in {"NonRetryableNodeError", "PermanentProtocolError"}]
            /\ UNCHANGED <<pc, out, after>>
  /\ H([a |-> "tick"])
  /\ UNCHANGED <<pol, task, bu, gr, rc, rd, rdv, nea, vals, cons, cur, batch, used, sig, sum, tout, nerrs, nres>>

SMReturn ==
  /\ pc = "select" /\ ~Prio /\ rc # <<>>
  /\ GoFinal(Head(rc)) /\ rc' = <<>>
  /\ UNCHANGED <<pol, task, bu, gr, rd, rdv, nea, vals, envvars, obs, hist>>

SMTimeout ==
  /\ pc = "select" /\ tout
  /\ GoFinal("ctx")
  /\ UNCHANGED <<pol, task, bu, gr, rc, rd, rdv, nea, vals, envvars, obs, hist>>

\* ------------------------------------------------------------------ readResultsFromProcessor
ReaderWake ==                      \* WaitForResults returns: a response was consumed, or ctx done
  /\ rd = "wait"
  /\ \/ sig > 0 /\ sig' = sig - 1
     \/ (tout \/ pc = "stopped") /\ sig' = sig     \* ctx done: timeout, or the deferred processingCtxCancel
  /\ rd' = "check"
  /\ UNCHANGED <<pc, out, after, pol, task, bu, gr, rc, rdv, nea, vals,
                 cons, cur, batch, used, sum, tout, ticks, nerrs, nres, obs, hist>>

ReaderCheck ==                     \* HasRequiredNodeResults + numberOfNodeErrorsAtomic.Store
  /\ rd = "check"
  /\ rdv' = (sum.succ >= Need) /\ nea' = sum.ne /\ rd' = "push"
  /\ UNCHANGED <<pc, out, after, pol, task, bu, gr, rc, vals, envvars, obs, hist>>

ReaderPush ==
  /\ rd = "push" /\ gr = <<>>
  /\ gr' = <<rdv>> /\ rd' = "none"
  /\ UNCHANGED <<pc, out, after, pol, task, bu, rc, rdv, nea, vals, envvars, obs, hist>>

\* ------------------------------------------------------------------ validateReturnCondition
ValStart(v) ==                     \* batchOnStart := BatchNumber(); then sleeps 15 ms
  /\ v \in vals /\ v.st = "new"
  /\ vals' = (vals \ {v}) \cup {[v EXCEPT !.st = "sleep", !.b = batch]}
  /\ UNCHANGED <<pc, out, after, pol, task, bu, gr, rc, rd, rdv, nea, envvars, obs, hist>>

ValCheck(v) ==                     \* after the sleep; a second writer would block for ever (dropped)
  /\ v \in vals /\ v.st = "sleep"
  /\ vals' = vals \ {v}
  /\ rc' = IF v.b = batch /\ used = 0 /\ rc = <<>> THEN <<v.e>> ELSE rc
  /\ UNCHANGED <<pc, out, after, pol, task, bu, gr, rd, rdv, nea, envvars, obs>>
  /\ H([a |-> "settle"])

\* ------------------------------------------------------------------ environment
ConsTake ==
  /\ cons = "idle" /\ task # <<>>
  /\ cur' = Head(task) /\ task' = <<>>
  /\ cons' = IF Head(task).done THEN "finished" ELSE "sending"
  /\ H([a |-> "take"])
  /\ UNCHANGED <<pc, out, after, pol, bu, gr, rc, rd, rdv, nea, vals, batch, used, sig, sum, tout, ticks, nerrs, nres, obs>>

SendOk ==
  /\ cons = "sending" /\ Len(bu) < BuCap
  /\ batch' = batch + 1 /\ used' = used + cur.n
  /\ bu' = Append(bu, "nil") /\ cons' = "idle"
  /\ H([a |-> "send_ok"])
  /\ UNCHANGED <<pc, out, after, pol, task, gr, rc, rd, rdv, nea, vals, cur, sig, sum, tout, ticks, nerrs, nres, obs>>

SendErr(e) ==
  /\ cons = "sending" /\ Len(bu) < BuCap /\ nerrs < MaxSendErrs
  /\ nerrs' = nerrs + 1
  /\ bu' = Append(bu, e) /\ cons' = "idle"
  /\ H([a |-> "send_err", e |-> e])
  /\ UNCHANGED <<pc, out, after, pol, task, gr, rc, rd, rdv, nea, vals, cur, batch, used, sig, sum, tout, ticks, nres, obs>>

Result(k) ==
  /\ used > 0 /\ nres < MaxResults
  /\ nres' = nres + 1
  /\ used' = used - 1 /\ sum' = AddRes(sum, k) /\ sig' = sig + 1
  /\ H([a |-> "result", k |-> k])
  /\ UNCHANGED <<smvars, cons, cur, batch, tout, ticks, nerrs, obs>>

Timeout ==
  /\ ~tout /\ tout' = TRUE
  /\ H([a |-> "timeout"])
  /\ UNCHANGED <<smvars, cons, cur, batch, used, sig, sum, ticks, nerrs, nres, obs>>

SM  == SMEmit \/ SMBatchUpdate \/ SMGotResults \/ SMTicker \/ SMReturn \/ SMTimeout
Aux == ReaderWake \/ ReaderCheck \/ ReaderPush \/ (\E v \in vals : ValStart(v) \/ ValCheck(v))
Env == ConsTake \/ SendOk \/ (\E e \in {"err", "empty"} : SendErr(e)) \/ (\E k \in KindSet : Result(k)) \/ Timeout
Next == SM \/ Aux \/ Env

\* fairness: every goroutine that can run eventually does; the consumer keeps reading its channel
\* and finishes every send; the processing context eventually expires
Fair == /\ WF_vars(SMEmit) /\ WF_vars(SMBatchUpdate) /\ WF_vars(SMGotResults) /\ WF_vars(SMReturn)
        /\ SF_vars(SMTimeout)
        /\ WF_vars(ReaderWake \/ ReaderCheck \/ ReaderPush)
        /\ WF_vars(ConsTake) /\ WF_vars(SendOk) /\ WF_vars(Timeout)
Spec == Init /\ [][Next]_vars /\ Fair

\* ------------------------------------------------------------------ generator (tlc -simulate)
\* One choice per action kind so that kinds are equiprobable; only environment steps, ticks and
\* "settle" (a validator's sleep) are recorded - they are what the driver can inject.
MaxHist == 16
GenNext ==
  /\ pc # "stopped" /\ Len(hist) < MaxHist
  /\ \/ SM \/ Aux
     \/ ConsTake \/ SendOk
     \/ (ticks + nres >= 1 /\ RandomElement(1..4) = 1 /\ Timeout)
     \/ \E e \in {RandomElement({"err", "err", "empty"})} : SendErr(e)
     \/ \E k \in {RandomElement(KindSet)} : Result(k)
Emit == (pc # "stopped" /\ Len(hist) < MaxHist) \/ PrintT(<<"BEH", ToJson(hist)>>)

\* ------------------------------------------------------------------ properties (C34)
TypeOK ==
  /\ pc \in {"emit", "select", "stopped"} /\ Len(task) <= 1 /\ Len(gr) <= 1 /\ Len(rc) <= 1
  /\ Len(bu) <= BuCap /\ rd \in {"wait", "check", "push", "none"}
  /\ used >= 0 /\ sig >= 0

\* exactly one final instruction, and it is the last thing the machine does
OneFinal == /\ obs.finals <= 1
            /\ (pc = "stopped") = (obs.finals = 1)
AfterFinalSilent == [][obs.finals = 1 => (obs'.emitted = obs.emitted /\ obs'.finals = 1 /\ obs'.decided = obs.decided)]_vars

\* a success consumed by the machine is followed by the final instruction only
AfterSuccess == obs.sawSucc => (pc = "stopped" \/ (pc = "emit" /\ out.done))
NoAttemptAfterSuccess == [][obs.sawSucc => obs'.decided = obs.decided]_vars

\* every emitted instruction was authorised by exactly one decision (first send, Decide->Retry, SendRetry)
Justified == obs.emitted <= obs.decided /\ obs.decided <= obs.emitted + 1

\* stateful / cross-validation: nothing is re-sent once a send succeeded
NoResendAfterSend == [][(Sel # "stateless" /\ batch >= 1) => obs'.decided = obs.decided]_vars

\* no retry (of any kind) once the machine has seen a non-retryable node / protocol error
NoRetryAfterNR == [][obs.stopNR => obs'.decided = obs.decided]_vars
\* the same restricted to Decide (what held before the F34 fix, see docs/notes/C34.md)
NoDecideRetryAfterNR ==
  [][(obs.stopNR /\ obs'.decided > obs.decided) => (bu # <<>> /\ bu' = Tail(bu))]_vars

\* attempts (= batches really sent, the code's AttemptNumber) never exceed the configured maximum,
\* plus the instructions that were already in the pipeline (channel + consumer) when it was reached
AttemptsBounded       == batch <= MaxRetries
AttemptsBoundedPipe   == batch <= 2 * MaxRetries + 2
ModeAttempts          == Sel # "stateless" => batch <= 1
\* consecutive failed sends are re-sent at most SendAttempts times
SendRetriesBounded == [][(bu # <<>> /\ bu' = Tail(bu) /\ obs'.decided > obs.decided) => pol'.cbe <= SendAttempts]_vars

Termination == <>(pc = "stopped")
=============================================================================
