CONSTANTS
  Family = "all"
  MaxImp = 1
  Ordered = TRUE
  Shapes = "core"
  Level = 0
  Fixed = TRUE
INIT TInit
NEXT TNext
POSTCONDITION Post
CHECK_DEADLOCK FALSE
