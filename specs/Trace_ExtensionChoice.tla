----------------------- MODULE Trace_ExtensionChoice -----------------------
(* Conf validation of the ExtensionChoice decision table against the real JsonRPCChainParser.ParseMsg
   (ETH1; parser with / without the archive extension configured; ExtensionInfo{LatestBlock, ExtensionOverride}).
   <<"BAD", line, kind>>: panic / hang / unclean (the real ParseMsg misbehaved on a well-formed request: C38's own
   oracle), bind (clean answer but not the intended method / block: a rendering problem), exts (attached extensions differ from the
   table), cu (compute units differ). *)
EXTENDS ExtensionChoice, IOUtils
VARIABLE l
Trace == ndJsonDeserialize(IOEnv.VERIF_TRACE)
ToSet(s) == {s[i] : i \in 1..Len(s)}

Report(i, r) ==
  LET out == r.out[1]
      want == Attached(r.in.o, r.in.cfgd, r.in.req, r.in.latest, r.in.rule, r.in.method) IN
  IF out.panic THEN PrintT(<<"BAD", i, "panic">>)
  ELSE IF out.hang THEN PrintT(<<"BAD", i, "hang">>)
  ELSE IF ~out.err /\ (out.api = "" \/ out.cu < 1) THEN PrintT(<<"BAD", i, "unclean">>)
  ELSE IF out.err \/ out.lat # r.in.req \/ out.api # r.in.method
  THEN PrintT(<<"BAD", i, "bind">>)
  ELSE /\ (ToSet(out.exts) = want) \/ PrintT(<<"BAD", i, "exts">>)
       /\ (out.cu = AttachedCU(ToSet(out.exts))) \/ PrintT(<<"BAD", i, "cu">>)

TInit == l = 0 /\ req = 0 /\ latest = 0 /\ rule = 0 /\ method = "" /\ o = "nil" /\ cfgd = FALSE
TNext == /\ l < Len(Trace) /\ l' = l + 1
         /\ LET r == Trace[l + 1] IN
              /\ req' = r.in.req /\ latest' = r.in.latest /\ rule' = r.in.rule /\ method' = r.in.method
              /\ o' = r.in.o /\ cfgd' = r.in.cfgd
              /\ Report(l + 1, r)
Post == LET d == TLCGet("stats").diameter IN PrintT(<<"HWM", d - 1>>) /\ d - 1 = Len(Trace)
=============================================================================
