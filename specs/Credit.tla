------------------------------- MODULE Credit -------------------------------
(* x/dualstaking/keeper/delegate_credit.go + the credit bookkeeping of delegate.go (SetDelegation /
   RemoveDelegation), for ONE (provider, delegator) delegation record.                      (C23)

   Time is counted in ticks; HS ticks = one hour, MH hours = "30 days".  With MH = 720 and HS = 3600
   a tick is a second and every operator below is a line-by-line transcription of the Go code
   (time.Unix arithmetic, integer division of second differences by hourSeconds, QuoRaw floor
   division of non-negative Ints).  Timestamps are relative to an arbitrary base that lies before
   every block time, so "CreditTimestamp == 0" keeps its meaning "never set".

   d = the stored Delegation record or None:
        A  Amount            C   Credit (zero Coin / nil Coin = 0)
        T  Timestamp         CT  CreditTimestamp

   Actions (one step = advance the block time by a gap, then one operation, then the monthly
   credit is evaluated - which is what the replay driver does on the real chain):
        Set(a)    the amount changes to a through MsgDelegate / MsgUnbond
                  (increaseDelegation / decreaseDelegation -> SetDelegation or RemoveDelegation)
        Touch(x)  MsgRedelegate from the provider to itself: increaseDelegation(+x) then
                  decreaseDelegation(-x) in one transaction - two SetDelegation calls, same amount
        Eval      nothing changes (only time passes)

   hist  (ghost) the amount changes so far, used by the property "credit <= largest amount held in
         the last 30 days";  beh  (generator only) the action history that is replayed. *)
EXTENDS Integers, Sequences, FiniteSets, TLC, Json

CONSTANTS MH,        \* hours in the credit window (code: monthHours = 720)
          HS,        \* ticks per hour            (code: hourSeconds = 3600)
          Amounts,   \* target amounts of Set
          Gaps,      \* time gaps (ticks) between operations
          TouchX,    \* amounts used by Touch
          MaxOps,    \* operation budget
          GenHist    \* TRUE: record beh (generator / emit configs)

VARIABLES now, d, hist, nops, beh, last, taint
\* last = [op, gap, prevMC, prevNow, prevStale]  what the last step did (for the action-style properties, so that
\*        they can be evaluated as state predicates on recorded traces as well)
\* taint (ghost) the stored credit descends from an average whose timestamp was moved to the start of
\*       the window while the average itself was kept (classification of finding F20)
vars == <<now, d, hist, nops, beh, last, taint>>

Month == MH * HS
None == [on |-> FALSE, A |-> 0, C |-> 0, T |-> 0, CT |-> 0]

-----------------------------------------------------------------------------
(* CalculateCredit(ctx, delegation) -> (credit, creditTimestamp) *)
CalcCredit(x, t) ==
  LET monthAgo == t - Month
      \* normalisation of the two timestamps (the if / else-if at the top)
      n == IF monthAgo > x.T  THEN [tsD |-> monthAgo, tsC |-> monthAgo, C |-> 0]
           ELSE IF monthAgo > x.CT THEN [tsD |-> x.T, tsC |-> monthAgo, C |-> x.C]
           ELSE [tsD |-> x.T, tsC |-> x.CT, C |-> x.C]
      noCredit == x.CT = 0 \/ n.C = 0
      tsC == IF noCredit THEN n.tsD ELSE n.tsC
      creditDelta == IF noCredit THEN 0
                     ELSE IF n.tsC < n.tsD THEN (n.tsD - n.tsC) \div HS ELSE 0
      amountDelta == IF x.A # 0 /\ n.tsD < t THEN (t - n.tsD) \div HS ELSE 0
      total == creditDelta + amountDelta
  IN IF total = 0 THEN [credit |-> 0, ts |-> t]
     ELSE [credit |-> (x.A * amountDelta + n.C * creditDelta) \div total, ts |-> tsC]

(* CalculateMonthlyCredit(ctx, delegation) *)
Monthly(x, t) ==
  LET r == CalcCredit(x, t)
      diff == (t - r.ts) \div HS
      dd == IF diff > MH THEN MH ELSE diff
  IN IF r.credit = 0 \/ r.ts <= 0 \/ diff <= 0 THEN 0 ELSE (r.credit * dd) \div MH

(* SetDelegation / RemoveDelegation as reached from increaseDelegation / decreaseDelegation *)
SetAmount(x, a, t) ==
  IF ~x.on THEN (IF a = 0 THEN None ELSE [on |-> TRUE, A |-> a, C |-> 0, T |-> t, CT |-> 0])
  ELSE IF a = 0 THEN None
  ELSE LET r == CalcCredit(x, t) IN [on |-> TRUE, A |-> a, C |-> r.credit, T |-> t, CT |-> r.ts]

\* does the stored credit of x contribute to CalcCredit(x, t) ?
UsesStored(x, t) == LET monthAgo == t - Month IN
  /\ x.on /\ x.CT # 0 /\ x.C # 0 /\ ~(monthAgo > x.T)
  /\ (IF monthAgo > x.CT THEN monthAgo ELSE x.CT) + HS <= x.T      \* creditDelta > 0
\* the `else if monthAgo.After(creditTimestamp)` branch: timestamp truncated, average kept
StaleBranch(x, t) == x.on /\ x.CT # 0 /\ x.C # 0 /\ ~(t - Month > x.T) /\ t - Month > x.CT
TaintAfter(x, tn, t) == UsesStored(x, t) /\ (tn \/ StaleBranch(x, t))

MCof(x, t) == IF x.on THEN Monthly(x, t) ELSE 0
MC == MCof(d, now)
\* F20 class: the credit now evaluated descends from a kept average with a truncated timestamp
StaleAverageKept == TaintAfter(d, taint, now)

-----------------------------------------------------------------------------
(* ghost: amounts held over time *)
Max2(a, b) == IF a > b THEN a ELSE b
\* amount in effect at instant t (after the changes made at t)
AmountAt(t) == LET idx == {i \in 1..Len(hist) : hist[i].t <= t} IN
               IF idx = {} THEN 0 ELSE hist[CHOOSE i \in idx : \A j \in idx : j <= i].a
\* largest amount held at some instant of the closed window [now - Month, now]
MaxRecent == LET lo == now - Month
                 inwin == {hist[i].a : i \in {j \in 1..Len(hist) : hist[j].t > lo}}
                 pts == inwin \cup {AmountAt(lo)}
             IN CHOOSE m \in pts : \A x \in pts : x <= m

Rec(op, g, arg) == IF GenHist THEN Append(beh, [op |-> op, gap |-> g, arg |-> arg]) ELSE beh
Common(op, g, arg) ==
  /\ nops < MaxOps /\ nops' = nops + 1
  /\ now' = now + g
  /\ beh' = Rec(op, g, arg)
  /\ last' = [op |-> op, gap |-> g, prevMC |-> MC, prevNow |-> now, prevStale |-> StaleAverageKept]

Set(g, a) ==
  /\ Common("set", g, a)
  /\ a # d.A                       \* a real change (delegate / unbond of a positive amount)
  /\ d' = SetAmount(d, a, now')
  /\ taint' = (a # 0 /\ TaintAfter(d, taint, now'))
  /\ hist' = Append(hist, [t |-> now', a |-> a])

Touch(g, x) ==
  /\ Common("touch", g, x)
  /\ d.on
  /\ LET d1 == SetAmount(d, d.A + x, now')
         t1 == TaintAfter(d, taint, now')
     IN d' = SetAmount(d1, d.A, now') /\ taint' = TaintAfter(d1, t1, now')
  /\ hist' = hist                  \* +x and -x in the same instant: the amount held is unchanged

Eval(g) ==
  /\ Common("eval", g, 0)
  /\ g > 0
  /\ UNCHANGED <<d, hist, taint>>

Init == /\ now = 1 /\ d = None /\ taint = FALSE /\ hist = <<>> /\ nops = 0 /\ beh = <<>>
        /\ last = [op |-> "init", gap |-> 0, prevMC |-> 0, prevNow |-> 1, prevStale |-> FALSE]
Next == \E g \in Gaps : \/ \E a \in Amounts : Set(g, a)
                        \/ \E x \in TouchX : Touch(g, x)
                        \/ Eval(g)
Spec == Init /\ [][Next]_vars

\* generator: every action kind equiprobable, parameters drawn at random
\* (TLC evaluates constant-level definitions once; St makes every draw a state-level expression)
St(S) == IF nops >= 0 THEN S ELSE {}
RandSet == LET g == RandomElement(St(Gaps)) a == RandomElement(Amounts \ {d.A}) IN Set(g, a)
RandTouch == LET g == RandomElement(St(Gaps)) x == RandomElement(St(TouchX)) IN Touch(g, x)
RandEval == LET g == RandomElement(St(Gaps \ {0})) IN Eval(g)
GenNext == RandSet \/ RandTouch \/ RandEval

-----------------------------------------------------------------------------
(* Properties (C23) *)
NonNeg == MC >= 0
Bounded == MC <= MaxRecent
Settled == (d.on /\ now - d.T >= Month) => MC = d.A
\* "holding an unchanged delegation longer never lowers its credit": the last step only let time
\* pass.  A time-weighted average over a sliding 30-day window legitimately falls while an earlier,
\* larger amount leaves the window, so the clause is demanded for the steps where everything that
\* left the window during the step (amounts in effect in [prevNow - Month, now - Month], 0 before the
\* delegation existed) was not larger than the amount held: then the exact average cannot fall.
\* The literal reading (no guard) is HoldMonotoneAny; see docs/notes/C23.md.
HeldStep == last.op = "eval" /\ d.on
LeavingMax == LET lo1 == last.prevNow - Month
                 lo2 == now - Month
                 inside == {hist[i].a : i \in {j \in 1..Len(hist) : hist[j].t > lo1 /\ hist[j].t <= lo2}}
                 pts == inside \cup {AmountAt(lo1)}
             IN CHOOSE m \in pts : \A x \in pts : x <= m
HoldGuard == HeldStep /\ LeavingMax <= d.A
HoldMonotone == HoldGuard => MC >= last.prevMC
HoldMonotoneAny == HeldStep => MC >= last.prevMC

(* classification of the violations that are recorded as known findings *)
\* F20: the record is younger than 30 days but its credit timestamp is older: CalculateCredit moves
\* the credit timestamp to "30 days ago" and keeps the stored average, which still contains the
\* amounts held before the window.
\* F21: two consecutive floor divisions; the loss is at most one unit and needs amount < MH
DoubleFloor == d.on /\ d.A < MH /\ last.prevMC - MC = 1

TypeOK == /\ now \in Nat /\ nops \in 0..MaxOps
          /\ d.A \in Nat /\ d.C \in Nat /\ d.T \in Nat /\ d.CT \in Nat
          /\ d.on => (d.A > 0 /\ d.T <= now /\ d.CT <= d.T)

\* design-level classification claims checked exhaustively (bounded): every violation of Bounded is
\* of the F20 class, every violation of HoldMonotone of the F20 or the F21 class
BoundedOrF20 == Bounded \/ StaleAverageKept
MonotoneOrKnown == HoldMonotone \/ StaleAverageKept \/ last.prevStale \/ DoubleFloor

\* always-true invariants that print behaviours
Emit == nops < MaxOps \/ PrintT(<<"BEH", ToJson(beh)>>)
EmitAll == nops = 0 \/ PrintT(<<"BEH", ToJson(beh)>>)
BadClass == IF ~NonNeg THEN "negative" ELSE IF ~Bounded THEN "bounded" ELSE IF ~Settled THEN "settled" ELSE "monotone"
EmitBad == (NonNeg /\ Bounded /\ Settled /\ HoldMonotone)
           \/ PrintT(<<"BAD", ToJson([cls |-> BadClass, beh |-> beh])>>)
=============================================================================
