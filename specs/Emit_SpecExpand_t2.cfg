CONSTANTS
  Family = "content"
  MaxImp = 1
  Ordered = TRUE
  Shapes = "mini"
  Level = 1
  Fixed = TRUE
INIT EInit
NEXT ENext
CHECK_DEADLOCK FALSE
