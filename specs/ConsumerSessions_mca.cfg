CONSTANTS
  Provs = {"p1", "p2"}
  Relays = {1, 2}
  MaxCU = 2
  CUs = {1, 2}
  MaxVE = 0
  MaxUpdates = 0
  MaxOps = 3
  MaxSess = 3
  ConsecLimit = 1
  FailKinds = {"plain", "block", "sync"}
  PairingSets = {{"p1", "p2"}}
  Supp = {"p1"}
  Addons = {FALSE, TRUE}
  SplitReserve = FALSE
INIT Init
NEXT Next
INVARIANTS TypeOK Exclusive Accounting Bound Signed BlockedRule
PROPERTIES RelayNumMono
CHECK_DEADLOCK FALSE
