CONSTANTS
  Scenarios <- ScnQuick
  FixCreate = TRUE
  FixUpdate = TRUE
  GenHist = FALSE
INIT Init
NEXT Next
INVARIANTS OnePerSession OneObject OneProjectEntry Accounting AccountingStrong MissingBounded NonNegative QuietUnlocked
PROPERTIES AcceptWithinMax RelayNumIncreases AcceptedRelayNum
CHECK_DEADLOCK TRUE
