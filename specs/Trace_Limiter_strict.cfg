CONSTANTS
  Scenarios <- ScnQuick
  FixF10 = FALSE
  GenHist = FALSE
INIT TInit
NEXT TNext
INVARIANTS Bounded AtMostOnce OkMeansRan NoForeignResult ErrMeansNotRun Released Counters
POSTCONDITION Post
CHECK_DEADLOCK FALSE
