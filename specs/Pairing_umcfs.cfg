CONSTANTS
  NP = 2
  Stakes = {1}
  GeoSets = {{1}}
  PolGeoSets = {{1}}
  McMixed = {TRUE}
  McMoreSel = FALSE
  Kinds = {0, 3}
  CostBase = 3
  Den = 1
  MaxSlots = 4
  GenN = 0
  SubOrder = "sorted"
  UnionMode = "firstseen"
  Mode = "mc"
INIT UnionInit
NEXT Next
INVARIANTS TypeOK OrderIndependent EligibleOrderFree Valid Distinct Bounded Iff
CHECK_DEADLOCK FALSE
