CONSTANTS
  Specs = {"S1", "S2"}
  Provs = {"P1", "P2"}
  Subs = {"C1"}
  Day = 2
  BlockTime = 1
  Epoch0 = 1000
  FixF3 = TRUE
  BurnNum = 1
  BurnDen = 2
  MaxBoost = 5
  MaxId = 8
  MaxOps = 8
  GenHist = FALSE
  Amounts = {40, 98}
  CUs = {2}
  Funds = {50}
  Dts = {1, 4}
  Focus = "pools"
  MonthLen = 5
INIT Init
NEXT Next
VIEW View
INVARIANTS TypeOK PoolsNonNeg LeftoverOnlyLastDay BlockRewardWithinPool BonusWithinPool Supply AllocSchedule IprpcPoolBacksPromises IprpcConservation NoPastPromise OnlyEligibleCu
CHECK_DEADLOCK FALSE
