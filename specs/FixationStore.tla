------------------------------ MODULE FixationStore ------------------------------
(* x/fixationstore/types/fixationstore.go + fixation.go : lists of versioned, reference-counted
   entries ("fixations"), driven by the block-height timers of x/timerstore.

   Two layers live in this module:

   (1) the CODE-LEVEL transcription: one named action per public entry point (AppendEntry,
       ModifyEntry, GetEntry, PutEntry, DelEntry) plus Tick (= timerstore BeginBlock at the next
       height, which runs the three callbacks updateFutureEntry / deleteMarkedEntry /
       deleteStaleEntries in (expiry, kind, version, index) order).  Helper operators carry the
       names of the Go functions they transcribe (getUnmarshaledEntryForBlock = GetFor, putEntry,
       putFutureEntry, trimFutureEntries, transferTimer ...).  A Go panic is modelled by setting
       the string `panic` (the reason) and freezing the store.

   (2) the REFERENCE MAP `ref`: an abstract versioned map without timers, IsLatest flags,
       refcounts of implicit references, StaleAt stamps or physical garbage collection.  It only
       remembers, per version, its data, the block from which it is in effect, the pending/effective
       delete block of the lifetime it ends, the number of references handed out by GetEntry and
       the block of the last PutEntry that returned the last of them.  Every lookup answer of the
       reference is a pure function of that and of the current height.

   C14 = invariant `Refines` (every Find/Get answer of the code level equals the reference's),
   `GCSafe` (a version is physically removed only once invisible), `NoPanic`, `ResAgree` (error
   results agree), `RefcountExact` (no reference is lost or invented).

   Legal use (DESIGN 4 C14): L1 Append(b) with b >= every existing non-future version; L2 Put(v)
   only for a reference obtained by Get and not yet dropped, or to cancel a future version;
   L3 Del(b) with b >= ctx block; L4 Modify only on existing versions.  Next/GenNext generate
   exactly the legal operations.

   The constants Fix16/Fix17/Fix17b/Fix18 select, at four sites, between the code as found
   (FALSE) and the minimal repairs of fixes/F16..F18 (TRUE); see docs/notes/C14.md.  F16 and F18
   are applied to the repository; F17/F17b are open known findings: with Fix17 / Fix17b = FALSE
   the ghost `kf` is set by the operation that leaves a delete timer behind = the cause, the
   invariants are required up to that point and such states are not explored further. *)
EXTENDS Integers, Sequences, FiniteSets, TLC, Json

CONSTANTS Indices,   \* entry indices (names)
          MaxBlock,  \* largest block height / version used
          Stale,     \* stale period (getStaleBlocks), >= 1
          MaxRef,    \* bound on GetEntry references per version (state-space bound only)
          Data,      \* data values
          MaxOps,    \* operation budget
          GenHist,   \* TRUE: record the action history (generator)
          Fix16, Fix17, Fix17b, Fix18

INF == 999999
FUT == 1   \* timerFutureEntry
DEL == 2   \* timerDeleteEntry
STL == 3   \* timerStaleEntry

VARIABLES now,     \* ctx block height
          ents,    \* [Indices -> [version -> [ref, latest, del, stale, data]]]
          live,    \* [Indices -> {"none","live","dead"}]   EntryIndex record
          timers,  \* set of <<expiry, kind, version, index>>
          panic,   \* "" or the reason of the Go panic
          res,     \* result class of the last operation ("ok","err","found","notfound","refused","")
          ref,     \* reference map: [Indices -> [version -> [data, eff, del, held, lp]]]
          rres,    \* result class according to the reference
          kf,      \* "" or the open known finding whose cause just happened ("F17" / "F17b"): a future
                   \* version carrying a pending delete was discarded and its delete timer left behind
          nops, hist

vars == <<now, ents, live, timers, panic, res, ref, rres, kf, nops, hist>>

Max(S) == CHOOSE x \in S : \A y \in S : y <= x
Min(S) == CHOOSE x \in S : \A y \in S : x <= y
Drop(f, k) == [x \in (DOMAIN f) \ {k} |-> f[x]]
Put1(f, k, v) == [x \in (DOMAIN f) \cup {k} |-> IF x = k THEN v ELSE f[x]]
EmptyMap == <<>>

-----------------------------------------------------------------------------
\* ===== code level ==========================================================
IsStaleBy(e, b)   == e.ref = 0 /\ e.stale <= b
IsDeletedBy(e, b) == e.del <= b
HasDeleteAt(e)    == e.del < INF

\* getUnmarshaledEntryForBlock(index, b) at ctx height h, on the version map E; -1 = not found
GetFor(E, h, b) ==
  LET c == {v \in DOMAIN E : v <= b} IN
  IF c = {} THEN -1
  ELSE LET v == Max(c) IN
       IF IsStaleBy(E[v], h) /\ ~IsDeletedBy(E[v], b) THEN -1 ELSE v

\* FindEntryDetailed: version found for block b, -1 = not found
FindIn(E, h, b) == LET v == GetFor(E, h, b) IN
                   IF v = -1 THEN -1 ELSE IF IsDeletedBy(E[v], b) THEN -1 ELSE v

\* threaded store state: e = ents, t = timers, i = live, p = panic, k = known-finding cause
St(e, t, i, p) == [e |-> e, t |-> t, i |-> i, p |-> p, k |-> ""]
Known(s, why)  == IF s.k = "" THEN [s EXCEPT !.k = why] ELSE s
Oops(s, why)   == IF s.p = "" THEN [s EXCEPT !.p = why] ELSE s
SetE(s, x, v, rec) == [s EXCEPT !.e[x] = Put1(@, v, rec)]

\* timerstore.AddTimerByBlockHeight / DelTimerByBlockHeight
AddTimer(s, h, tm) == IF tm[1] <= h THEN Oops(s, "addtimer-past") ELSE [s EXCEPT !.t = @ \cup {tm}]
DelTimer(s, tm)    == IF tm \notin s.t THEN Oops(s, "no-such-timer") ELSE [s EXCEPT !.t = @ \ {tm}]

\* putFutureEntry(index, v)
PutFuture(s, x, v) ==
  LET s1 == DelTimer(s, <<v, FUT, v, x>>) IN
  IF s1.p # "" THEN s1
  ELSE LET e2 == Drop(s1.e[x], v) IN
       [s1 EXCEPT !.e[x] = e2, !.i[x] = IF DOMAIN e2 = {} THEN "none" ELSE @]

\* Fix17b: a cancelled future version that carries a pending delete hands it back to its
\* predecessor (the nearest smaller version) if that one is still live, together with the delete
\* timer; otherwise the delete timer dies with the version.
CancelFuture(s, h, x, v) ==
  LET e == s.e[x][v] IN
  IF Fix17b /\ HasDeleteAt(e) THEN
     LET c  == {w \in DOMAIN s.e[x] : w < v}
         s1 == DelTimer(s, <<e.del, DEL, v, x>>)
         s2 == IF c = {} \/ s1.p # "" THEN s1
               ELSE LET w == Max(c) IN
                    IF HasDeleteAt(s1.e[x][w]) THEN s1 ELSE
                    AddTimer(SetE(s1, x, w, [s1.e[x][w] EXCEPT !.del = e.del]), h, <<e.del, DEL, w, x>>)
     IN IF s2.p # "" THEN s2 ELSE PutFuture(s2, x, v)
  ELSE PutFuture(IF HasDeleteAt(e) THEN Known(s, "F17b") ELSE s, x, v)   \* as found: the delete timer stays behind

\* putEntry(entry) where rec is the (possibly modified) entry object the caller holds
PutEntry(s, h, x, v, rec) ==
  IF rec.ref = 0 THEN Oops(s, "refcount-zero")
  ELSE LET r == [rec EXCEPT !.ref = @ - 1] IN
       IF r.ref = 0
       THEN IF v > h
            THEN CancelFuture(SetE(s, x, v, rec), h, x, v)   \* the stored record is untouched in Go; rec = stored here
            ELSE LET r2 == [r EXCEPT !.stale = h + Stale] IN
                 SetE(AddTimer(s, h, <<h + Stale, STL, v, x>>), x, v, r2)
       ELSE SetE(s, x, v, r)

\* deleteMarkedEntry(index, v)
DeleteMarked(s, h, x, v) ==
  IF v \notin DOMAIN s.e[x] THEN Oops(s, "getentry-unknown")
  ELSE PutEntry([s EXCEPT !.i[x] = "dead"], h, x, v, [s.e[x][v] EXCEPT !.latest = FALSE])

\* trimFutureEntries(lastEntry) with lastEntry.DeleteAt = d : all versions >= d, newest first
RECURSIVE TrimList(_, _, _)
TrimList(s, x, vs) ==
  IF vs = {} \/ s.p # "" THEN s
  ELSE LET v  == Max(vs)
           e  == s.e[x][v]
           s1 == IF HasDeleteAt(e)
                 THEN (IF Fix17 THEN DelTimer(s, <<e.del, DEL, v, x>>)
                       ELSE Known(s, "F17"))              \* as found: the delete timer stays behind
                 ELSE s
       IN TrimList(IF s1.p # "" THEN s1 ELSE PutFuture(s1, x, v), x, vs \ {v})
Trim(s, h, x, d) == TrimList(s, x, {v \in DOMAIN s.e[x] : v >= d /\ (Fix16 => v > h)})

NewEntry(latest, del, d, rc) == [ref |-> rc, latest |-> latest, del |-> del, stale |-> INF, data |-> d]

\* AppendEntry(index, b, d): returns [s, r]
AppendS(s0, h, x, b, d) ==
  LET E  == s0.e[x]
      lv == GetFor(E, h, b)
      found == lv # -1
  IN
  IF ~found \/ IsDeletedBy(E[lv], h) THEN
     \* first version, or first version after a delete
     LET s1 == [s0 EXCEPT !.i[x] = "live"]
         s2 == IF b <= h
               THEN (IF found /\ E[lv].latest
                     THEN PutEntry(s1, h, x, lv, [E[lv] EXCEPT !.latest = FALSE]) ELSE s1)
               ELSE AddTimer(s1, h, <<b, FUT, b, x>>)
         \* F18: the record of a deleted version at the very same block is overwritten
         rc == IF Fix18 /\ found /\ lv = b THEN 1 + E[lv].ref ELSE 1
     IN [s |-> SetE(s2, x, b, NewEntry(b <= h, INF, d, rc)), r |-> "ok"]
  ELSE
     LET le == E[lv] IN
     IF b < h /\ ~le.latest THEN [s |-> s0, r |-> "err"]
     ELSE IF b = lv THEN [s |-> SetE(s0, x, b, [le EXCEPT !.data = d]), r |-> "ok"]
     ELSE IF IsDeletedBy(le, b) THEN [s |-> s0, r |-> "err"]
     ELSE
       LET dAt == le.del
           le1 == [le EXCEPT !.del = INF]
           s1  == IF HasDeleteAt(le) THEN SetE(s0, x, lv, le1) ELSE s0
           s2  == IF b <= h
                  THEN (IF le1.latest THEN PutEntry(s1, h, x, lv, [le1 EXCEPT !.latest = FALSE]) ELSE s1)
                  ELSE AddTimer(s1, h, <<b, FUT, b, x>>)
           \* transferTimer(prev, next, dAt, DEL)
           s3  == IF dAt < INF
                  THEN LET s31 == DelTimer(s2, <<dAt, DEL, lv, x>>) IN
                       IF s31.p # "" THEN s31 ELSE AddTimer(s31, h, <<dAt, DEL, b, x>>)
                  ELSE s2
       IN [s |-> SetE(s3, x, b, NewEntry(b <= h, dAt, d, 1)), r |-> "ok"]

\* DelEntry(index, b), b >= h : returns [s, r]
DelS(s0, h, x, b) ==
  LET E  == s0.e[x]
      sb == IF b > h THEN b - 1 ELSE b
      v  == GetFor(E, h, sb)
  IN
  IF v = -1 THEN
     LET v2 == GetFor(E, h, b) IN
     IF v2 # -1 THEN [s |-> Trim(s0, h, x, b), r |-> "ok"]     \* first-future-entry exception
     ELSE [s |-> s0, r |-> "err"]
  ELSE IF HasDeleteAt(E[v]) THEN [s |-> s0, r |-> "err"]
  ELSE
     LET s1 == SetE(s0, x, v, [E[v] EXCEPT !.del = b])
         s2 == IF b = h THEN DeleteMarked(s1, h, x, v)
               ELSE AddTimer(s1, h, <<b, DEL, v, x>>)
     IN [s |-> IF s2.p # "" THEN s2 ELSE Trim(s2, h, x, b), r |-> "ok"]

\* updateFutureEntry(index, b) at height h
UpdateFuture(s, h, x, b) ==
  LET lv == GetFor(s.e[x], h, b - 1)
      s1 == IF lv = -1 THEN s
            ELSE IF s.e[x][lv].latest
                 THEN (IF IsDeletedBy(s.e[x][lv], b) THEN Oops(s, "future-on-deleted")
                       ELSE PutEntry(s, h, x, lv, [s.e[x][lv] EXCEPT !.latest = FALSE]))
                 ELSE s
  IN IF s1.p # "" THEN s1
     ELSE IF b \notin DOMAIN s1.e[x] THEN Oops(s1, "getentry-unknown")
     ELSE SetE(s1, x, b, [s1.e[x][b] EXCEPT !.latest = TRUE])

\* deleteStaleEntries(index): scan oldest to newest
RECURSIVE StaleScan(_, _, _, _, _, _)
StaleScan(E, h, todo, safeEntry, safeIndex, removals) ==
  IF todo = {} THEN [rm |-> removals, all |-> safeIndex]
  ELSE LET v == Min(todo)
           e == E[v]
           rest == todo \ {v}
       IN IF HasDeleteAt(e) /\ ~safeIndex THEN StaleScan(E, h, rest, FALSE, FALSE, removals)
          ELSE IF ~IsStaleBy(e, h) THEN StaleScan(E, h, rest, FALSE, FALSE, removals)
          ELSE IF ~safeEntry THEN StaleScan(E, h, rest, TRUE, FALSE, removals)
          ELSE StaleScan(E, h, rest, safeEntry, safeIndex, removals \cup {v})

StaleGC(s, h, x) ==
  LET r  == StaleScan(s.e[x], h, DOMAIN s.e[x], TRUE, TRUE, {})
      e2 == [v \in (DOMAIN s.e[x]) \ r.rm |-> s.e[x][v]]
  IN [s EXCEPT !.e[x] = e2, !.i[x] = IF r.all THEN "none" ELSE @]

\* entryCallbackBeginBlock
Fire(s, h, tm) ==
  LET s0 == [s EXCEPT !.t = @ \ {tm}]
      x  == tm[4]
  IN CASE tm[2] = FUT -> UpdateFuture(s0, h, x, tm[3])
       [] tm[2] = DEL -> DeleteMarked(s0, h, x, tm[3])
       [] OTHER       -> StaleGC(s0, h, x)

IdxRank(x) == CASE x = "a" -> 1 [] x = "b" -> 2 [] x = "c" -> 3 [] OTHER -> 9
Less(a, b) == \/ a[1] < b[1]
              \/ a[1] = b[1] /\ a[2] < b[2]
              \/ a[1] = b[1] /\ a[2] = b[2] /\ a[3] < b[3]
              \/ a[1] = b[1] /\ a[2] = b[2] /\ a[3] = b[3] /\ IdxRank(a[4]) < IdxRank(b[4])

\* timerstore tickValue: repeatedly take the front timer while it is due
RECURSIVE FireAll(_, _)
FireAll(s, h) ==
  LET due == {tm \in s.t : tm[1] <= h} IN
  IF due = {} \/ s.p # "" THEN s
  ELSE LET tm == CHOOSE a \in due : \A c \in due : a = c \/ Less(a, c) IN FireAll(Fire(s, h, tm), h)

-----------------------------------------------------------------------------
\* ===== reference map =======================================================
\* per version: data, eff = block from which it is in effect (max(version, block of the append)),
\* del = delete block of the lifetime this version ends (INF = none), held = references handed out
\* by Get and not yet Put, lp = block of the Put that returned the last of them (0 = never)
RSupAt(R, v) ==   \* block at which v stops being the current/future version of its index
  LET succ == {R[w].eff : w \in {u \in DOMAIN R : u > v}} IN Min(succ \cup {R[v].del})
RZeroAt(R, v) == IF R[v].held > 0 THEN INF
                 ELSE LET a == RSupAt(R, v) IN IF a >= R[v].lp THEN a ELSE R[v].lp
RStale(R, h, v) == LET z == RZeroAt(R, v) IN z < INF /\ z + Stale <= h
RFind(R, h, b) ==
  LET c == {v \in DOMAIN R : v <= b} IN
  IF c = {} THEN -1
  ELSE LET v == Max(c) IN IF R[v].del <= b \/ RStale(R, h, v) THEN -1 ELSE v
RVisible(R, h, v) == R[v].held > 0 \/ ~RStale(R, h, v)

NewRef(d, eff, del, held) == [data |-> d, eff |-> eff, del |-> del, held |-> held, lp |-> 0]

RAppend(R, h, b, d) ==
  LET c == {v \in DOMAIN R : v <= b}
      p == IF c = {} THEN -1 ELSE Max(c)
      eff == IF b > h THEN b ELSE h
  IN IF p = -1 \/ (p # -1 /\ R[p].del <= h)
     THEN \* a new lifetime; re-using the block of the deleted version keeps its references and its
          \* place in history (the predecessors were superseded when the old version took effect)
          [R |-> Put1(R, b, IF b \in DOMAIN R THEN NewRef(d, R[b].eff, INF, R[b].held)
                                               ELSE NewRef(d, eff, INF, 0)), r |-> "ok"]
     ELSE IF b = p THEN [R |-> Put1(R, b, [R[b] EXCEPT !.data = d]), r |-> "ok"]
     ELSE IF R[p].del <= b THEN [R |-> R, r |-> "err"]
     ELSE [R |-> Put1(Put1(R, p, [R[p] EXCEPT !.del = INF]), b, NewRef(d, eff, R[p].del, 0)), r |-> "ok"]

\* exc = TRUE: the index has no live current lifetime (only a dead earlier lifetime, if anything)
\* and the delete cancels a not yet matured first version.  The code answers this case with an
\* error as long as the dead lifetime's last version is still physically present (quirk Q1 in
\* docs/notes/C14.md: the result depends on garbage collection); DelEntry lets the reference
\* follow the code in exactly this case.
RDel(R, h, b) ==
  LET sb == IF b > h THEN b - 1 ELSE b
      c  == {v \in DOMAIN R : v <= sb}
      p  == IF c = {} THEN -1 ELSE Max(c)
      cut == {v \in DOMAIN R : v >= b /\ v > h}
      keep == [v \in (DOMAIN R) \ cut |-> R[v]]
  IN IF p # -1 /\ R[p].del = INF THEN [R |-> Put1(keep, p, [R[p] EXCEPT !.del = b]), r |-> "ok", exc |-> FALSE]
     ELSE IF (p = -1 \/ R[p].del <= h) /\ b \in DOMAIN R /\ b > h THEN [R |-> keep, r |-> "ok", exc |-> p # -1]
     ELSE [R |-> R, r |-> "err", exc |-> FALSE]

\* a cancelled future version hands an inherited pending delete back to its predecessor
RCancel(R, v) ==
  LET c == {w \in DOMAIN R : w < v}
      R1 == IF R[v].del < INF /\ c # {}
            THEN (IF R[Max(c)].del < INF THEN R ELSE Put1(R, Max(c), [R[Max(c)] EXCEPT !.del = R[v].del]))
            ELSE R
  IN Drop(R1, v)

-----------------------------------------------------------------------------
\* ===== actions =============================================================
Cur == [St(ents, timers, live, panic) EXCEPT !.k = kf]
Install(s) == /\ ents' = s.e /\ timers' = s.t /\ live' = s.i /\ panic' = s.p /\ kf' = s.k
Record(r) == hist' = IF GenHist THEN Append(hist, r) ELSE hist
Step(a, x, b, d) == Record([a |-> a, x |-> x, b |-> b, d |-> d])

AppendEntry(x, b, d) ==
  /\ panic = ""
  /\ LET a == AppendS(Cur, now, x, b, d)
         q == RAppend(ref[x], now, b, d)
     IN /\ Install(a.s) /\ res' = a.r
        /\ ref' = [ref EXCEPT ![x] = q.R] /\ rres' = q.r
  /\ Step("append", x, b, d)
  /\ UNCHANGED now

ModifyEntry(x, v, d) ==
  /\ panic = "" /\ v \in DOMAIN ents[x]
  /\ Install(SetE(Cur, x, v, [ents[x][v] EXCEPT !.data = d])) /\ res' = "ok"
  /\ ref' = [ref EXCEPT ![x] = IF v \in DOMAIN @ THEN Put1(@, v, [@[v] EXCEPT !.data = d]) ELSE @] /\ rres' = "ok"
  /\ Step("modify", x, v, d)
  /\ UNCHANGED now

GetEntry(x) ==
  /\ panic = ""
  /\ LET v == FindIn(ents[x], now, now)
         w == RFind(ref[x], now, now)
     IN /\ IF v = -1 THEN Install(Cur) /\ res' = "notfound"
           ELSE Install(SetE(Cur, x, v, [ents[x][v] EXCEPT !.ref = @ + 1])) /\ res' = "found"
        /\ IF w = -1 THEN ref' = ref /\ rres' = "notfound"
           ELSE ref' = [ref EXCEPT ![x][w].held = @ + 1] /\ rres' = "found"
  /\ Step("get", x, 0, 0)
  /\ UNCHANGED now

\* legal Put: a held reference, or cancelling a future version
PutLegal(x, v) == v \in DOMAIN ref[x] /\ (ref[x][v].held > 0 \/ v > now)
PutEntryA(x, v) ==
  /\ panic = "" /\ PutLegal(x, v)
  /\ IF v \notin DOMAIN ents[x] THEN Install(Oops(Cur, "getentry-unknown")) /\ res' = ""
     ELSE IF ents[x][v].latest /\ ents[x][v].ref = 1 THEN Install(Cur) /\ res' = "refused"
     ELSE Install(PutEntry(Cur, now, x, v, ents[x][v])) /\ res' = "ok"
  /\ LET R == ref[x] IN
     IF R[v].held > 0
     THEN ref' = [ref EXCEPT ![x][v] = [@ EXCEPT !.held = @ - 1, !.lp = IF R[v].held = 1 THEN now ELSE @]]
     ELSE ref' = [ref EXCEPT ![x] = RCancel(R, v)]
  /\ rres' = "ok"
  /\ Step("put", x, v, 0)
  /\ UNCHANGED now

DelEntry(x, b) ==
  /\ panic = "" /\ b >= now
  /\ LET a == DelS(Cur, now, x, b)
         q == RDel(ref[x], now, b)
         quirk == a.r = "err" /\ q.exc
     IN /\ Install(a.s) /\ res' = a.r
        /\ ref' = [ref EXCEPT ![x] = IF quirk THEN @ ELSE q.R] /\ rres' = IF quirk THEN "err" ELSE q.r
  /\ Step("del", x, b, 0)
  /\ UNCHANGED now

Tick ==
  /\ panic = ""
  /\ now' = now + 1
  /\ Install(FireAll(Cur, now + 1)) /\ res' = "" /\ rres' = ""
  /\ Step("tick", "", 0, 0)
  /\ UNCHANGED ref

Init == /\ now = 1
        /\ ents = [x \in Indices |-> EmptyMap] /\ live = [x \in Indices |-> "none"]
        /\ timers = {} /\ panic = "" /\ res = "" /\ rres = "" /\ kf = ""
        /\ ref = [x \in Indices |-> EmptyMap]
        /\ nops = 0 /\ hist = <<>>

\* L1
LegalAppend(x, b) == \A v \in DOMAIN ents[x] : v <= now => b >= v
Near == (IF now > 1 THEN now - 1 ELSE 1)..(IF now + 2 <= MaxBlock THEN now + 2 ELSE MaxBlock)
CanGet(x) == LET v == FindIn(ents[x], now, now) IN IF v = -1 THEN TRUE ELSE ents[x][v].ref < MaxRef

Ops == \/ \E x \in Indices, b \in Near, d \in Data : LegalAppend(x, b) /\ AppendEntry(x, b, d)
       \/ \E x \in Indices, d \in Data : \E v \in DOMAIN ents[x] : ents[x][v].data # d /\ ModifyEntry(x, v, d)
       \/ \E x \in Indices : CanGet(x) /\ GetEntry(x)
       \/ \E x \in Indices : \E v \in DOMAIN ref[x] : PutEntryA(x, v)
       \/ \E x \in Indices, b \in Near : DelEntry(x, b)
\* a state in which the cause of an open known finding just happened is not explored further: from
\* there on the store holds a delete timer for a version that does not exist
Next == /\ kf = ""
        /\ \/ (nops < MaxOps /\ Ops /\ nops' = nops + 1)
           \/ (now < MaxBlock /\ Tick /\ UNCHANGED nops)
Spec == Init /\ [][Next]_vars

-----------------------------------------------------------------------------
\* generator: one draw per action kind (ticks three times as likely), all draws legal
\* (RandomElement is re-evaluated at every use of a LET name, so each draw is bound with \E)
One(S) == {RandomElement(S)}
GAppend == \E x \in One(Indices), b \in One(Near), d \in One(Data) :
             IF LegalAppend(x, b) THEN AppendEntry(x, b, d) ELSE Tick
GModify == \E x \in One(Indices), d \in One(Data) :
             IF DOMAIN ents[x] # {} THEN \E v \in One(DOMAIN ents[x]) : ModifyEntry(x, v, d) ELSE Tick
GGet    == \E x \in One(Indices) : IF CanGet(x) THEN GetEntry(x) ELSE Tick
Puttable == {q \in Indices \X (0..(MaxBlock + 2)) : PutLegal(q[1], q[2])}
GPut    == IF Puttable # {} THEN \E q \in One(Puttable) : PutEntryA(q[1], q[2]) ELSE Tick
GDel    == \E x \in One(Indices), b \in One({c \in Near : c >= now}) : DelEntry(x, b)
GenNext == /\ nops < MaxOps /\ nops' = nops + 1 /\ panic = ""
           /\ \E k \in One(IF kf = "" THEN 1..12 ELSE {12}) :
              CASE k <= 3 -> GAppend
                [] k = 4 -> GModify
                [] k = 5 \/ k = 6 -> GGet
                [] k = 7 -> GPut
                [] k = 8 \/ k = 9 -> GDel
                [] OTHER -> Tick
Emit == (nops < MaxOps /\ panic = "") \/ PrintT(<<"BEH", ToJson(hist)>>)
\* exhaustive candidate emission: the history of every state violating a property (FixNN = FALSE runs)
Bad == panic # "" \/ res = "refused" \/ kf # ""
EmitBad == ~Bad \/ PrintT(<<"BEH", ToJson([h |-> hist, why |-> IF kf # "" THEN kf ELSE IF panic # "" THEN panic ELSE "refused"])>>)

-----------------------------------------------------------------------------
\* ===== observables and properties (C14) ====================================
QB == 0..(MaxBlock + 1)
FindAnsS(E, h, b)  == LET v == FindIn(E, h, b) IN IF v = -1 THEN <<-1, 0>> ELSE <<v, E[v].data>>
RFindAnsS(R, h, b) == LET v == RFind(R, h, b) IN IF v = -1 THEN <<-1, 0>> ELSE <<v, R[v].data>>
FindAns(x, b)  == FindAnsS(ents[x], now, b)
RFindAns(x, b) == RFindAnsS(ref[x], now, b)
GetAns(x)  == FindAns(x, now)
RGetAns(x) == RFindAns(x, now)
Vers(x)    == DOMAIN ents[x]

\* Sound: no panic and no open-known-finding cause so far
Sound == panic = "" /\ kf = ""
NoPanic == panic = ""
NoKnown == kf = ""
\* every lookup answer equals the reference map's
Refines == Sound => \A x \in Indices : \A b \in QB : FindAns(x, b) = RFindAns(x, b)
\* error results agree
ResAgree == Sound => res = rres \/ (res = "refused" /\ rres = "ok")
\* physical garbage collection removes only invisible versions, and never invents one
GCSafe == Sound => \A x \in Indices :
            /\ Vers(x) \subseteq DOMAIN ref[x]
            /\ \A v \in DOMAIN ref[x] : RVisible(ref[x], now, v) => v \in Vers(x)
\* the stored refcount is exactly: references handed out + one while current or future
RefcountExact == Sound => \A x \in Indices : \A v \in Vers(x) :
            ents[x][v].ref = ref[x][v].held + (IF RSupAt(ref[x], v) > now THEN 1 ELSE 0)
\* a Put of a held reference is never refused
PutNotRefused == res = "refused" => FALSE
\* internal sanity (code-level)
OneLatest  == \A x \in Indices : Cardinality({v \in Vers(x) : ents[x][v].latest}) <= 1
TimersSane == Sound => \A tm \in timers : tm[1] > now /\ (tm[2] # STL => tm[3] \in Vers(tm[4]))
LiveSane   == Sound => \A x \in Indices : (live[x] = "none") <=> (Vers(x) = {})
TypeOK == /\ now \in 1..(MaxBlock + 1)
          /\ \A x \in Indices : \A v \in Vers(x) : ents[x][v].ref >= 0

View == <<now, ents, live, timers, panic, res, ref, rres, kf, nops>>
=============================================================================
