CONSTANTS
  Updaters = {"u1", "u2"}
  Readers = {"r1", "r2"}
  Writers = {"w1", "w2"}
  FixRLock = FALSE
INIT Init
NEXT Next
INVARIANTS Exclusive
CHECK_DEADLOCK TRUE
