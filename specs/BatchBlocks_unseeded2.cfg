CONSTANTS
  NumBlocks = {5, 50, 500}
  CallBlocks = {500}
  LogBlocks = {}
  Extra = FALSE
  MaxLen = 3
  Latests = {627, 1000}
  Rule = 127
  Seed = FALSE
  Guard = TRUE
  Tendermint = FALSE
  ZeroOk = FALSE
  EarliestLow = FALSE
INIT Init
NEXT Next
INVARIANTS CoversNoNA
CHECK_DEADLOCK FALSE
