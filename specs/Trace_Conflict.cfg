CONSTANTS
  VoterSeq <- VS3
  Others = {"p0", "x"}
  Pairs = {"A", "B"}
  EB = 20
  VP = 2
  SPAN = 3
  Base = 100
  MaxH = 100000000
  MaxDet = 1000000
  StakeVecs <- SVsim
  Ages = {0, 1, 3}
  MaxOps = 0
  GenHist = FALSE
INIT TInit
NEXT TNext
INVARIANTS TypeOK Coherent
PROPERTIES T_PhaseStep T_Birth T_EntryStep T_Accepted T_Rejected T_Outcome
POSTCONDITION Post
CHECK_DEADLOCK FALSE
