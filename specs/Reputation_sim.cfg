CONSTANTS
  ProvSeq <- PS4
  Scores = {0}
  Weights = {1, 10, 100}
  Stakes <- SVq
  Decays <- Dq
  MaxRep = 0
  MaxEp = 0
  MaxOps = 40
  GenHist = TRUE
  GenQos = {"great", "good", "good2", "mid", "bad", "awful", "unavail", "zero"}
  GenGaps = {0, 0, 1, 10, 100}
INIT Init
NEXT GenNext
INVARIANTS Emit
CHECK_DEADLOCK FALSE
