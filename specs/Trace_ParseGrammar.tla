------------------------- MODULE Trace_ParseGrammar -------------------------
(* Obs-mode evaluation of C38's oracle on real ParseMsg results (harness/cmd/chainparse, "both").
   One line per generated request: in = the ParseGrammar descriptor (+ exp = ExpectedBlock),
   out[1] = consumer-side result with out[1].prov = provider-side result when the consumer parse
   succeeded (the consumer+provider pair is repeated "reps" times; the first differing pair is logged).  Every line is evaluated; failures are printed as <<"BAD", line, kind>>:
     panic / hang        Total violated (consumer or provider side)
     unclean             neither an error nor an API with >= 1 compute unit
     prov_err            the provider rejects what the consumer accepted
     agree_api / agree_cu / agree_addon / agree_block   consumer and provider differ
     unstable            repeating the same consumer-side parse gave a different API / CU / add-on /
                         block (the parse is not a function of the request, so two processes cannot agree)
   <<"COV", line>> marks lines whose real requested block equals ExpectedBlock (binding coverage). *)
EXTENDS ParseGrammar, IOUtils
VARIABLE l
Trace == ndJsonDeserialize(IOEnv.VERIF_TRACE)
tvars == <<vars, l>>

Say(c, i, kind) == c \/ PrintT(<<"BAD", i, kind>>)
CleanOK(o) == o.err \/ (o.api # "" /\ o.api # "<nil-api>" /\ o.api # "<nil-message>" /\ o.cu >= 1)

Report(i, r) ==
  LET o == r.out[1] IN
  /\ Say(~o.panic, i, "panic")
  /\ Say(~o.hang, i, "hang")
  /\ (o.panic \/ o.hang) \/ Say(CleanOK(o), i, "unclean")
  /\ Say(~o.unstable, i, "unstable")
  /\ (~o.hasprov) \/
       LET p == o.prov IN
       /\ Say(~p.panic, i, "panic")
       /\ Say(~p.hang, i, "hang")
       /\ (p.panic \/ p.hang) \/
            /\ Say(~p.err, i, "prov_err")
            /\ p.err \/ ( /\ Say(CleanOK(p), i, "unclean")
                          /\ Say(p.api = o.api, i, "agree_api")
                          /\ Say(p.cus = o.cus, i, "agree_cu")
                          /\ Say(p.addon = o.addon, i, "agree_addon")
                          /\ Say(p.lats = o.lats /\ p.earls = o.earls, i, "agree_block") )
  /\ (r.in.exp = UNKNOWN \/ o.err \/ o.panic \/ o.hang \/ o.lat # r.in.exp) \/ PrintT(<<"COV", i>>)

TInit == l = 0 /\ req = [iface |-> "", method |-> "", shape |-> "", tag |-> "", mut |-> "", variant |-> 0, latest |-> 0]
TNext == /\ l < Len(Trace) /\ l' = l + 1
         /\ LET r == Trace[l + 1] IN
              /\ req' = [iface |-> r.in.iface, method |-> r.in.method, shape |-> r.in.shape, tag |-> r.in.tag,
                         mut |-> r.in.mut, variant |-> r.in.variant, latest |-> r.in.latest]
              /\ Report(l + 1, r)

Post == LET d == TLCGet("stats").diameter IN PrintT(<<"HWM", d - 1>>) /\ d - 1 = Len(Trace)
=============================================================================
