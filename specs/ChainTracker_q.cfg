CONSTANTS
  N = 3
  M = 3
  MaxLen = 7
  MaxOps = 2
  InitLens = {2, 3, 4, 5}
  QD = {0, 1, 2, 3}
  QA = {0, 1, 2, 3, 4}
  NodeThenPoll = FALSE
  GenHist = FALSE
INIT Init
NEXT Next
INVARIANTS Queries
CHECK_DEADLOCK FALSE
