CONSTANTS
  Family = "all"
  MaxImp = 1
  Ordered = TRUE
  Shapes = "core"
  Level = 3
  Fixed = TRUE
INIT GenInit
NEXT GenNext
INVARIANTS GenEmit
CHECK_DEADLOCK FALSE
