CONSTANTS
  Creators = {"p1", "p2", "p3"}
  Signers = {"c1", "k1"}
  CUs = {60}
  Sessions = {1}
  Muts = {"none"}
  Muts2 = {"none"}
  MaxRelays = 3
  EpochsToSave = 3
  MaxEpoch = 100000
  MaxOps = 100000
  GenHist = FALSE
  F2Fixed = FALSE
  CuGuard = FALSE
  Profile = ""
INIT TInit
NEXT TNext
INVARIANTS C03_AtMostOnce
PROPERTIES C03_PStep
POSTCONDITION Post
CHECK_DEADLOCK FALSE
