CONSTANTS
  Ifaces = {"jsonrpc", "batch", "rest", "tmjson", "tmuri", "grpc"}
  Latests = {0,100,1000}
  Variants = 3
INIT Init
NEXT Next
INVARIANTS Emit
CHECK_DEADLOCK FALSE
