CONSTANTS
  Epochs = {1, 2, 3, 4}
  Sess = {11, 21, 12}
  MaxCu = 3
  Window = 1
  MaxRetries = 3
  MaxOps = 100000
  AtomicSave = TRUE
  MaxCalls = 0
  GenHist = FALSE
INIT TInit
NEXT TNext
INVARIANTS TypeOK KeepsBest SubmitsBest InWindow Bounded RestoresSnapshot NoDupInUpdate
POSTCONDITION Post
CHECK_DEADLOCK FALSE
