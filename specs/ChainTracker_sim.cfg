CONSTANTS
  N = 3
  M = 3
  MaxLen = 14
  MaxOps = 14
  InitLens = {2, 3, 4, 5}
  QD = {0, 1, 2, 3}
  QA = {0, 1, 2, 3, 4}
  NodeThenPoll = FALSE
  GenHist = TRUE
INIT Init
NEXT GenNext
INVARIANTS Emit
CHECK_DEADLOCK FALSE
