CONSTANTS
  EBs = {2, 3, 5}
  ETSs = {1, 2, 3}
  MaxHeight = 1000000
  MaxChanges = 1000000
  GenHist = FALSE
  FixWalk = TRUE
INIT TInit
NEXT TNext
INVARIANTS ObsCurNext ObsCurStart ObsShape ObsTotal ObsStartsRan ObsNextLater ObsGrid ObsNoPanic
PROPERTIES ObsAnnounced ObsMono ObsStable ObsDelOk ObsDelSeen
POSTCONDITION Post
CHECK_DEADLOCK FALSE
