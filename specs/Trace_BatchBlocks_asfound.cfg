CONSTANTS
  NumBlocks = {}
  CallBlocks = {}
  LogBlocks = {}
  Extra = FALSE
  MaxLen = 1
  Latests = {0}
  Rule = 127
  Seed = FALSE
  EarliestLow = FALSE
  Guard = TRUE
INIT TInit
NEXT TNext
POSTCONDITION Post
CHECK_DEADLOCK FALSE
