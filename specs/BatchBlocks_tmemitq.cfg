CONSTANTS
  NumBlocks = {5, 50, 500}
  CallBlocks = {}
  LogBlocks = {}
  Extra = FALSE
  MaxLen = 3
  Latests = {627, 1000}
  Rule = 127
  Seed = TRUE
  Guard = TRUE
  Tendermint = TRUE
  ZeroOk = TRUE
  EarliestLow = TRUE
INIT Init
NEXT Next
INVARIANTS Emit
CHECK_DEADLOCK FALSE
